(** * Run/Run_C12.v — executable correspondence check for C12 (no proofs).

    Two kinds of cases, both over a universe exported from a generated fork tree:
    - [CEvents]: n real nodes ran connected; every call the syncers made on their chain
      managers was recorded per node in the order it took effect (AddBlocks /
      AddValidatedV2Blocks with the outcome and the tip afterwards, History, Headers,
      BlocksForHistory with their answers).  The model replays each node's calls on its
      manager model and must produce the same answers; the final tips are compared too.
    - [CPull]: one real node pulled once from a passive neighbour; the ids it tried, the
      attach point, the header batch, the submissions (entry point + blocks) and the
      resulting tip are compared with [pull_trace] / [pull]. *)
From stdpp Require Import gmap.
From Coq Require Import NArith ZArith List.
From CV Require Export Chain.Manager Net.Converge.
Export ListNotations.
Open Scope N_scope.

Inductive ev :=
| EAdd (node : N) (validated : bool) (l : list N) (err : bool) (tip_after : N)
| EHist (node : N) (res : list N)
| EHdrs (node : N) (a : N) (max : N) (res : option (list N * N))
| EBfh (node : N) (hist : list N) (max : N) (res : list N * N).

Inductive case :=
| CEvents (univ : list (N * blk)) (init : list (list N)) (evs : list ev) (final : list N)
| CPull (univ : list (N * blk)) (p : params) (init_i init_j : list N)
        (tried : list N) (att : option N) (hs : list N) (subs : list (bool * list N))
        (final_tip : N).

Definition eqb_list (a b : list N) : bool :=
  (Nat.eqb (length a) (length b)) && forallb (λ p, fst p =? snd p) (combine a b).

Definition eqb_res (a b : list N * N) : bool := eqb_list (fst a) (fst b) && (snd a =? snd b).

Definition eqb_optres (a b : option (list N * N)) : bool :=
  match a, b with
  | None, None => true
  | Some x, Some y => eqb_res x y
  | _, _ => false
  end.

Definition eqb_optn (a b : option N) : bool :=
  match a, b with None, None => true | Some x, Some y => x =? y | _, _ => false end.

Fixpoint eqb_subs (a b : list (bool * list N)) : bool :=
  match a, b with
  | [], [] => true
  | (v1, l1) :: r1, (v2, l2) :: r2 => Bool.eqb v1 v2 && eqb_list l1 l2 && eqb_subs r1 r2
  | _, _ => false
  end.

(** a node that was fed its initial chain with one AddBlocks call, as the harness does *)
Definition start (U : universe) (path : list N) : mgr := (add_blocks U init path).1.1.

Definition is_err (o : outcome) : bool := match o with Ok => false | _ => true end.

Definition step_ev (U : universe) (cfg : list mgr) (e : ev) : list mgr * bool :=
  match e with
  | EAdd n v l err t =>
      match cfg !! (N.to_nat n) with
      | None => (cfg, false)
      | Some m =>
          let '(m', out, _) := if v then add_validated U m l else add_blocks U m l in
          (<[N.to_nat n := m']> cfg, Bool.eqb err (is_err out) && (tip m' =? t))
      end
  | EHist n res =>
      match cfg !! (N.to_nat n) with
      | None => (cfg, false)
      | Some m => (cfg, eqb_list (history m) res)
      end
  | EHdrs n a max res =>
      match cfg !! (N.to_nat n) with
      | None => (cfg, false)
      | Some m => (cfg, eqb_optres (headers m a max) res)
      end
  | EBfh n hist max res =>
      match cfg !! (N.to_nat n) with
      | None => (cfg, false)
      | Some m => (cfg, eqb_res (blocks_for_history m hist max) res)
      end
  end.

Fixpoint check_evs (U : universe) (cfg : list mgr) (evs : list ev) : list mgr * bool :=
  match evs with
  | [] => (cfg, true)
  | e :: rest =>
      let '(cfg', ok) := step_ev U cfg e in
      if ok then check_evs U cfg' rest else (cfg', false)
  end.

Definition check_case (c : case) : bool :=
  match c with
  | CEvents univ ini evs final =>
      let U : universe := list_to_map univ in
      let '(cfg, ok) := check_evs U (map (start U) ini) evs in
      ok && eqb_list (map tip cfg) final
  | CPull univ p ii ij tried att hs subs ft =>
      let U : universe := list_to_map univ in
      let mi := start U ii in
      let mj := start U ij in
      let '(tr, a, h, s) := pull_trace U p mi mj in
      eqb_list tr tried && eqb_optn a att && eqb_list h hs && eqb_subs s subs &&
      (tip (pull U p mi mj) =? ft)
  end.

Fixpoint mismatches_from (i : N) (cs : list case) : list N :=
  match cs with
  | [] => []
  | c :: cs' => if check_case c then mismatches_from (N.succ i) cs'
                else i :: mismatches_from (N.succ i) cs'
  end.
Definition mismatches := mismatches_from 0.
