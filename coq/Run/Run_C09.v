(** * Run/Run_C09.v — executable correspondence check for C09 (no proofs).

    A case is one RPC attempt the harness made against the real rhp4.Server with the
    reference contractor: the stored roots before (renamed to small numbers in order of
    first appearance), the operation and its arguments, the point at which the renter side
    stopped, and what the harness observed afterwards (stored roots, whether the revision
    number advanced, the host's answer).  [mismatches] lists the cases on which the repaired
    step machine of RHP/Roots.v ends in a different state. *)
From stdpp Require Import list.
From Coq Require Import NArith List.
From CV Require Export RHP.Roots.
Export ListNotations.

Record case := mk_case {
  c_kind : N;          (* 0 free through the renter API (indices as the caller gave them; the
                          model normalises like rpc.go), 1 free on the raw wire (indices as
                          sent), 2 append, 3 sector-roots listing, 4 no RPC: the size of a
                          range proof according to core's RangeProofSize (law check),
                          5 account-paid RPC (read / verify / write a sector): c_args =
                          [account balance before; cost], c_has = [request valid; HasSector],
                          c_ok = the renter was served, c_out = [account balance after],
                          6 funding the account from the contract: c_args = [amount; account
                          balance before], c_out = [account balance after],
                          7 renewal of the contract (see check_renew) *)
  c_roots : list N;    (* stored roots before *)
  c_args : list N;     (* free: indices; append: sector roots; listing: [offset; length] *)
  c_has : list bool;   (* append: whether the harness had uploaded the sector (HasSector) *)
  c_script : N;        (* 0 complete; 1 stream closed after the request, response not read;
                          2 closed after reading the first response; 3 invalid renter
                          signature; 4 valid signature sent, stream closed without reading
                          the host's signature; 5 half of the request written; 6 half of the
                          signature message written; 7 complete, with the request [c_other]
                          on another stream between the first response and the signature *)
  c_ok : bool;         (* observed: the revision number advanced *)
  c_after : list N;    (* observed: stored roots after *)
  c_out : list N;      (* observed answer: append: accepted flags as 0/1; listing: the roots *)
  c_flags : list bool; (* [contract known and lockable; challenge signature valid; price table
                          valid; the contract can pay the usage] — all true when empty *)
  c_other : list N;    (* script 7: the request on the other stream: [1; indices…] free,
                          [2; stored roots…] append, [3; offset; length] listing, [6; amount]
                          funding *)
  c_aux : N            (* listing: 1 + number of hashes in the host's proof (0: not observed);
                          kind 4: 1 + core's RangeProofSize for c_args = [n; offset; length] *)
}.

Definition big : N := 1000000000000.
Definition usage_run : usage := mk_usage 1 1.

Definition host_of (roots : list N) : host :=
  let sz := (N.of_nat (length roots) * sector_size)%N in
  mk_host roots (mk_rev 1 (mroot roots) sz sz big 0 big) 0.

(** wire indices are uint64; positions are [nat]. Anything >= 4096 is out of range for every
    contract the harness builds (<= 64 sectors) and is clamped so that it stays a small
    unary number (two distinct huge indices may collapse: both are refused as out of range
    before duplicates matter). *)
Definition nats (l : list N) : list nat := map (λ x, N.to_nat (N.min x 4096)) l.

Definition flag_at (c : case) (i : nat) : bool := nth i (c_flags c) true.

(** a usage the contract cannot pay *)
Definition usage_of (c : case) : usage :=
  if flag_at c 3 then usage_run else mk_usage (big + 1) 0.

Definition request_of (c : case) : option request :=
  let lk := flag_at c 0 in let ch := flag_at c 1 in let pr := flag_at c 2 in
  let u := usage_of c in
  let sg := negb (N.eqb (c_script c) 3) in
  match c_kind c with
  | 0%N => Some (FreeReq (normalize (nats (c_args c))) lk ch pr u)
  | 1%N => Some (FreeReq (nats (c_args c)) lk ch pr u)
  | 2%N => Some (AppendReq (combine (c_args c) (c_has c)) lk ch pr u)
  | 3%N => match c_args c with
           | [off; len] =>
               Some (RootsReq (N.to_nat (N.min off 4096)) (N.to_nat (N.min len 4096)) lk pr sg u)
           | _ => None
           end
  | 6%N => match c_args c with
           | [amount; _] => Some (FundReq (negb (N.eqb amount 0)) lk sg amount)
           | _ => None
           end
  | _ => None
  end.

(** the request on the other stream (all oracle fields true: it is an honest request) *)
Definition other_of (c : case) : option request :=
  match c_other c with
  | 1%N :: idxs => Some (FreeReq (nats idxs) true true true usage_run)
  | 2%N :: roots => Some (AppendReq (map (λ r, (r, true)) roots) true true true usage_run)
  | [3%N; off; len] => Some (RootsReq (N.to_nat (N.min off 4096)) (N.to_nat (N.min len 4096)) true true true usage_run)
  | [6%N; amount] => Some (FundReq true true true amount)
  | _ => None
  end.

Definition script_of (c : case) (r : request) : list event :=
  match c_script c with
  | 0%N | 4%N => [ENew; EMsg (MReq r); EMsg (MSig true)]
  | 1%N | 2%N | 6%N => [ENew; EMsg (MReq r)]
  | 3%N => [ENew; EMsg (MReq r); EMsg (MSig false)]
  | 7%N => match other_of c with
           | Some o => [ENew; EMsg (MReq r); EOther o; EMsg (MSig true)]
           | None => []
           end
  | _ => [ENew]
  end.

Definition flag (b : bool) : N := if b then 1%N else 0%N.

(** the host's answer is compared only where the harness read it (an empty [c_out] means it
    did not: accepted flags and listed roots are never empty when read) *)
Definition out_matches (c : case) (outs : list out) : bool :=
  match c_script c, c_out c with
  | 1%N, _ | 5%N, _ | _, [] => true
  | _, _ =>
      match c_kind c with
      | 2%N => match outs with
               | OAppendResp acc _ :: _ => bool_decide (map flag acc = c_out c)
               | _ => bool_decide (c_out c = [])
               end
      | 3%N => match outs with
               | [ORootsResp rs] => bool_decide (rs = c_out c)
               | _ => bool_decide (c_out c = [])
               end
      | _ => true
      end
  end.

(** the symbolic range proof has as many digests as the real proof has hashes *)
Definition proof_len_matches (c : case) (outs : list out) : bool :=
  match c_kind c, c_args c, outs with
  | 3%N, [off; len], [ORootsResp _] =>
      N.eqb (c_aux c) 0
      || N.eqb (c_aux c)
           (1 + N.of_nat (length (build_range_proof (length (c_roots c)) (c_roots c)
                                    (N.to_nat off) (N.to_nat len))))
  | _, _, _ => true
  end.

Definition check_law (c : case) : bool :=
  match c_args c with
  | [n; off; len] =>
      let l := repeat 0%N (N.to_nat n) in
      N.eqb (c_aux c)
        (1 + N.of_nat (length (build_range_proof (N.to_nat n) l (N.to_nat off) (N.to_nat len))))
      && verify_range (mroot l) (N.to_nat n) (N.to_nat off) (N.to_nat len)
           (repeat 0%N (N.to_nat len))
           (build_range_proof (N.to_nat n) l (N.to_nat off) (N.to_nat len))
  | _ => false
  end.

Definition check_acct (c : case) : bool :=
  match c_args c, c_has c, c_out c with
  | [bal; cost], [valid; has], [bal'] =>
      let h0 := host_of (c_roots c) in
      let h := mk_host (h_roots h0) (h_rev h0) bal in
      let '(s, outs) := exec_outs Copied (init h) [ENew; EMsg (MReq (AcctReq valid has cost))] [] in
      N.eqb (h_account (hs_host s)) bal'
      && bool_decide (h_roots (hs_host s) = c_after c)
      && N.eqb (r_num (h_rev (hs_host s))) 1
      && Bool.eqb (match outs with [OPaid] => true | _ => false end) (c_ok c)
  | _, _, _ => false
  end.

(** funding: the account balance is part of the case *)
Definition acct_matches (c : case) (h : host) : bool :=
  match c_kind c, c_out c with
  | 6%N, [bal'] => N.eqb (h_account h) bal'
  | 6%N, _ => false
  | _, _ => true
  end.

(** kind 7: RPCRenewContract; c_roots = roots of the renewed contract, c_after = roots the
    host stores for the renewal *)
Definition check_renew (c : case) : bool :=
  let h := renew (host_of (c_roots c)) big 0 big in
  bool_decide (h_roots h = c_after c)
  && bool_decide (mroot (c_after c) = r_root (h_rev h))
  && N.eqb (N.of_nat (length (c_after c)) * sector_size) (r_size (h_rev h)).

Definition check_case (c : case) : bool :=
  if N.eqb (c_kind c) 4 then check_law c else
  if N.eqb (c_kind c) 7 then check_renew c else
  if N.eqb (c_kind c) 5 then check_acct c else
  match request_of c with
  | None => false
  | Some r =>
      let h0 := host_of (c_roots c) in
      let h0 := match c_kind c, c_args c with
                | 6%N, [_; bal] => mk_host (h_roots h0) (h_rev h0) bal
                | _, _ => h0
                end in
      let '(s, outs) := exec_outs Copied (init h0) (script_of c r) [] in
      let h := hs_host s in
      bool_decide (h_roots h = c_after c)
      && acct_matches c h
      && Bool.eqb (negb (N.eqb (r_num (h_rev h)) 1)) (c_ok c)
      && out_matches c outs
      && proof_len_matches c outs
      (* redundant with C09_commit_inv; kept so that a broken proof cannot hide a broken model *)
      && bool_decide (mroot (h_roots h) = r_root (h_rev h))
      && N.eqb (N.of_nat (length (h_roots h)) * sector_size) (r_size (h_rev h))
  end.

Fixpoint mismatches_from (i : N) (cs : list case) : list N :=
  match cs with
  | [] => []
  | c :: cs' => if check_case c then mismatches_from (N.succ i) cs'
                else i :: mismatches_from (N.succ i) cs'
  end.
Definition mismatches := mismatches_from 0.
