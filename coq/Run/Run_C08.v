(** * Run/Run_C08.v — executable correspondence check for C08 (no proofs).
    A case is a host configuration and the request sequence the harness played on
    the real [rhp4.Server] (one fresh contract namespace per case), each request in
    the vocabulary of [RHP/Host.v] together with what was observed: the verdict
    class, and the contract the server handed to the Contractor (or returned, for
    latest-revision) with the length of its root list.  [mismatches] lists the
    cases on which the model answers differently. *)
From stdpp Require Import gmap.
From Coq Require Import ZArith NArith List.
From CV Require Export RHP.Host.
Export ListNotations.

(** price tables as the harness writes them: signed by key [k]; signed then altered; with a garbage signature *)
Definition PT (k : N) (b : pbody) : prices := mk_prices b (Sig k (MPrices b)).
Definition PTT (k : N) (signed presented : pbody) : prices := mk_prices presented (Sig k (MPrices signed)).
Definition PTJ (b : pbody) (n : N) : prices := mk_prices b (SJunk n).

Record obs := mk_obs {
  o_verdict : verdict;
  o_rev : option (N * contract * Z);      (* contract id, revision fields, number of roots *)
  o_prices : option pbody }.              (* settings: the price table issued ([valid_until] not compared) *)

Record case := mk_case { c_cfg : cfg; c_trace : list (req * obs) }.

Definition rev_eqb (a b : option (N * contract * Z)) : bool := bool_decide (a = b).

Definition pb_eqb (a : option prices) (b : option pbody) : bool :=
  match a, b with
  | None, None => true
  | Some p, Some y =>
      let x := p_body p in
      (contract_price x =? contract_price y)%Z && (collateral_price x =? collateral_price y)%Z &&
      (storage_price x =? storage_price y)%Z && (ingress_price x =? ingress_price y)%Z &&
      (egress_price x =? egress_price y)%Z && (free_sector_price x =? free_sector_price y)%Z &&
      (tip_height x =? tip_height y)%Z
  | _, _ => false
  end.

(** What is compared of a verdict is what the property fixes: persisted a revision /
    served without revising / refused.  WHICH refusal a request gets when several
    apply (a doubly defective request, a panic before or after the lock, the order of
    independent validations) is left free by the property ("... change nothing"), so
    all refusals are one class; the refusal kind the harness derives from the error
    text is kept in the case for diagnosis only. *)
Inductive vclass := CPersisted | CServed | CRefused.
Definition verdict_class (v : verdict) : vclass :=
  match v with VOk => CPersisted | VOkNoRev => CServed | _ => CRefused end.
Global Instance vclass_eq_dec : EqDecision vclass.
Proof. solve_decision. Defined.

Definition match_obs (r : resp) (o : obs) : bool :=
  bool_decide (verdict_class (r_verdict r) = verdict_class (o_verdict o))
  && rev_eqb (r_rev r) (o_rev o) && pb_eqb (r_prices r) (o_prices o).

(** diagnosis: the requests on which model and implementation refuse for different reasons *)
Fixpoint kind_diffs (c : cfg) (s : hstate) (t : list (req * obs)) (i : N) : list (N * verdict * verdict) :=
  match t with
  | [] => []
  | (q, o) :: t' => let '(s', r) := step c s q in
                    (if bool_decide (r_verdict r = o_verdict o) then [] else [(i, r_verdict r, o_verdict o)])
                    ++ kind_diffs c s' t' (N.succ i)
  end.

Fixpoint check_trace (c : cfg) (s : hstate) (t : list (req * obs)) : bool :=
  match t with
  | [] => true
  | (q, o) :: t' => let '(s', r) := step c s q in match_obs r o && check_trace c s' t'
  end.

Definition check_case (c : case) : bool := check_trace (c_cfg c) h_init (c_trace c).

(** index of the first disagreeing request of a case (for diagnosis) *)
Fixpoint first_bad (c : cfg) (s : hstate) (t : list (req * obs)) (i : N) : option (N * resp) :=
  match t with
  | [] => None
  | (q, o) :: t' => let '(s', r) := step c s q in
                    if match_obs r o then first_bad c s' t' (N.succ i) else Some (i, r)
  end.
Definition diagnose (c : case) := first_bad (c_cfg c) h_init (c_trace c) 0%N.

Fixpoint mismatches_from (i : N) (cs : list case) : list N :=
  match cs with
  | [] => []
  | c :: cs' => if check_case c then mismatches_from (N.succ i) cs'
                else i :: mismatches_from (N.succ i) cs'
  end.
Definition mismatches := mismatches_from 0.
