(** * Run/Run_C16.v — executable correspondence check for C16 (no proofs).

    The harness runs the real renter functions against the real host through a relay
    that cuts the stream or rewrites messages, and writes three kinds of cases:
    - [HostCase]: the host handler alone — its environment, wallet, the two messages it
      received — with the calls it made on wallet / chain manager / contractor in order,
      whether it committed (broadcast), how many of its outputs stayed locked, whether
      a contract was recorded and the basis it returned with the final set (chain states
      are named by their height on the host's chain);
    - [RenterCase]: the renter function alone — its environment, wallet, the two messages
      it received — with its verdict, its fund / release calls and its locked outputs;
    - [PairCase]: both over a stream that is cut at one of the four messages (no
      rewriting), checked against the composed run [attempt].
    All cases are checked against the repaired model ([fixed = true]).  Verdicts and resulting
    states are compared exactly; the call trace of a failed attempt only up to the stage at
    which the request was refused (see [check_host]). *)
From stdpp Require Import gmap.
From Coq Require Import ZArith NArith List.
From CV Require Export RHP.Form.
Export ListNotations.

Definition kind_of (n : N) : kind :=
  match n with 0%N => KForm | 1%N => KRenew | _ => KRefresh end.

(** wallets are given as their spendable outputs (id, value, unconfirmed) *)
Definition wallet_of (l : list (N * Z * bool)) : wallet :=
  mk_wallet (map (λ p, mk_utxo (fst (fst p)) (snd (fst p)) (snd p)) l) ∅.

Definition host_key : N := 2%N.
Definition renter_key : N := 1%N.

Inductive case :=
| HostCase (k : N) (e : env) (hw : list (N * Z * bool)) (m1 : option req) (m2 : option rsigs)
    (ok : bool) (calls : list hcall) (dlock : Z) (recorded : bool)
    (rbasis : option N) (* the basis in the final response the host sent, if it sent one *)
| RenterCase (k : N) (re : renv) (rw : list (N * Z * bool)) (t : cterms)
    (m2 : option hinputs) (m4 : option final)
    (ok : bool) (calls : list rcall) (dlock : Z)
| PairCase (k : N) (e : env) (re : renv) (sc : sched)
    (hw rw : list (N * Z * bool)) (t : cterms)
    (hok rok : bool) (hcalls : list hcall) (rcalls : list rcall) (hdlock rdlock : Z) (recorded : bool).

Definition hcall_eqb (a b : hcall) : bool :=
  match a, b with
  | CElement x, CElement y => Bool.eqb x y
  | CFund n, CFund m => Nat.eqb n m
  | CFundFail, CFundFail => true
  | CUpdate x, CUpdate y => Bool.eqb x y
  | CElemUpdate x, CElemUpdate y => Bool.eqb x y
  | CPoolParents x, CPoolParents y => Bool.eqb x y
  | CTxSet x, CTxSet y => Bool.eqb x y
  | CPoolSet x, CPoolSet y => Bool.eqb x y
  | CRecord, CRecord => true
  | CBroadcast, CBroadcast => true
  | CRelease n, CRelease m => Nat.eqb n m
  | _, _ => false
  end.

Definition rcall_eqb (a b : rcall) : bool :=
  match a, b with
  | RFund n, RFund m => Nat.eqb n m
  | RFundFail, RFundFail => true
  | RRelease n, RRelease m => Nat.eqb n m
  | _, _ => false
  end.

Fixpoint list_eqb {A} (eqb : A → A → bool) (l1 l2 : list A) : bool :=
  match l1, l2 with
  | [], [] => true
  | a :: l1', b :: l2' => eqb a b && list_eqb eqb l1' l2'
  | _, _ => false
  end.

Definition nlocked (w : wallet) : Z := Z.of_nat (size (w_locked w)).

(** The verdict and the state left behind are compared exactly.  The call trace is compared
    exactly for committed runs; for a failed attempt the property does not fix the stage at
    which the request is refused, so an observed trace that differs from the model's is
    accepted when it is [admissible_failure] (ordered like the handler, stops at the first
    failing call, nothing recorded / pooled / broadcast, exactly the funded inputs released). *)
Definition check_host (k : kind) (o : hout) (ok : bool) (calls : list hcall) (dlock : Z) (recorded : bool) : bool :=
  Bool.eqb (ho_ok o) ok
  && (list_eqb hcall_eqb (ho_calls o) calls || (negb ok && admissible_failure k calls))
  && Z.eqb (nlocked (h_wallet (ho_host o))) dlock
  && Bool.eqb (Nat.eqb (length (h_contracts (ho_host o))) 1) recorded
  (* recorded, pool-accepted and broadcast go together *)
  && Nat.eqb (length (h_bcast (ho_host o))) (if ok then 1 else 0).

Definition check_renter (o : rout) (ok : bool) (calls : list rcall) (dlock : Z) : bool :=
  Bool.eqb (ro_ok o) ok && list_eqb rcall_eqb (ro_calls o) calls
  && Z.eqb (nlocked (r_wallet (ro_renter o))) dlock
  && Nat.eqb (length (r_contracts (ro_renter o))) (if ok then 1 else 0).

Definition check_case (c : case) : bool :=
  match c with
  | HostCase k e hw m1 m2 ok calls dlock recorded rbasis =>
      let h := mk_host host_key (wallet_of hw) [] [] [] in
      let o := host_run true (kind_of k) e h m1 m2 in
      check_host (kind_of k) o ok calls dlock recorded
      && match sent_final (ho_sent o), rbasis with
         | Some f, Some b => N.eqb (f_basis f) b
         | None, None => true
         | _, _ => false
         end
  | RenterCase k re rw t m2 m4 ok calls dlock =>
      let r := mk_renter renter_key (wallet_of rw) [] in
      check_renter (renter_run true (kind_of k) re r t m2 m4) ok calls dlock
  | PairCase k e re sc hw rw t hok rok hcalls rcalls hdlock rdlock recorded =>
      let h := mk_host host_key (wallet_of hw) [] [] [] in
      let r := mk_renter renter_key (wallet_of rw) [] in
      let a := attempt true (kind_of k) e re sc h r t in
      check_host (kind_of k) (ao_host a) hok hcalls hdlock recorded
      && check_renter (ao_renter a) rok rcalls rdlock
  end.

Fixpoint mismatches_from (i : N) (cs : list case) : list N :=
  match cs with
  | [] => []
  | c :: cs' => if check_case c then mismatches_from (N.succ i) cs'
                else i :: mismatches_from (N.succ i) cs'
  end.
Definition mismatches := mismatches_from 0.
