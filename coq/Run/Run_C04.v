(** * Run/Run_C04.v — executable correspondence check for C04 (no proofs).
    A case is a universe and a history: calls on the manager with what was observed
    after them (as in Run_C01), and polls [UpdatesSince(index, max)] with the observed
    sequence of reverted and applied block ids and the index the subscriber derived from
    the last update, or the error. *)
From stdpp Require Import gmap.
From Coq Require Import NArith ZArith List.
From CV Require Export Run.Run_C01 Chain.Updates.
Export ListNotations.
Open Scope N_scope.

Inductive ev :=
| EOp (o : mop) (ob : obs)
| EPoll (i : index) (max : N) (res : option (list N * list N * index))
| EPool (accepted : bool) (notified : bool)
| EOpBlind (o : mop)       (* a call after which nothing was read *)
| ESee (ob : obs).         (* the store as observed later (best chain, records, MinReorgIndex) *)   (* a pool submission: were OnReorg listeners called? *)

Record case := mk_case { c_univ : list (N * blk); c_evs : list ev }.

Definition check_poll (U : universe) (m : mgr) (i : index) (max : N)
    (res : option (list N * list N * index)) : bool :=
  match updates_since U m i (N.to_nat max), res with
  | UErr, None => true
  | UOk rus aus _, Some (r, a, i') =>
      eqb_list rus r && eqb_list aus a && index_eqb (idx_after U i rus aus) i'
  | _, _ => false
  end.

Fixpoint check_evs (U : universe) (m : mgr) (es : list ev) : bool :=
  match es with
  | [] => true
  | EOp op o :: rest =>
      let '(m', out, nt) := mstep U m op in
      check_obs m' out nt o && check_evs U m' rest
  | EPoll i max res :: rest =>
      check_poll U m i max res && check_evs U m rest
  | EPool acc nt :: rest =>
      Bool.eqb nt (hnotifies U m (HPool acc)) && check_evs U m rest
  | EOpBlind op :: rest => check_evs U (mstep U m op).1.1 rest
  | ESee o :: rest =>
      eqb_list (o_best o) (best m) && check_known m (o_known o) && (o_minreorg o =? min_reorg m) &&
      check_evs U m rest
  end.

Definition check_case (c : case) : bool :=
  check_evs (list_to_map (c_univ c)) init (c_evs c).

Fixpoint mismatches_from (i : N) (cs : list case) : list N :=
  match cs with
  | [] => []
  | c :: cs' => if check_case c then mismatches_from (N.succ i) cs'
                else i :: mismatches_from (N.succ i) cs'
  end.
Definition mismatches := mismatches_from 0.
