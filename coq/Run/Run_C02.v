(** * Run/Run_C02.v — executable correspondence check for C02 (no proofs).
    A case is one history of a real DBStore: the apply diff lists of every block the store
    was handed (ids and stored payloads renamed to small numbers), the sequence of
    ApplyBlock / RevertBlock calls the manager issued, and after each of them what the
    buckets held (file contracts and expiration lists *in list order* after every step,
    everything else after the last step of every manager call). *)
From Coq Require Import NArith List.
Import ListNotations.
From stdpp Require Import gmap.
From CV Require Export Chain.Store Chain.Accum.
Export ListNotations.
Open Scope N_scope.

Record dump := mk_dump {
  o_hgt : N;
  o_fc : list (N * (N * N));
  o_ex : list (N * list N);
  o_supb : list N;       (* SupplementTipBlock(empty child).ExpiringFileContracts ids, in order *)
  (* siacoin elements, siafund elements, main chain, and the ids SupplementTipTransaction
     returned for the probe (siacoin inputs, siafund inputs, revisions) *)
  o_full : option (list (N * N) * list (N * N) * list (N * N) * (list N * list N * list N));
  (* the accumulator size at the tip and, for every proof SupplementTipTransaction served,
     the element's leaf index and the number of proof entries *)
  o_proofs : option (N * list (N * N));
}.

Inductive cstep := CApply (b : N) | CRevert (b : N).

(** the Tree bucket during one block step: the row-0 nodes core's update emits (leaf index,
    hash name), the accumulator size it leads to, and the bucket entries that are new or
    changed after the step ((row, col), hash name) *)
Definition tstep : Type := list (N * N) * N * list ((nat * N) * N).

Record case := mk_case {
  c_R : N;
  c_blocks : list (N * (N * diffs));
  c_probe : probe;
  c_steps : list (cstep * dump);
  c_tree : list tstep;     (* one per step; [] = not recorded *)
}.

Definition map_eqb `{EqDecision A} (l : list (N * A)) (m : gmap N A) : bool :=
  bool_decide (list_to_map l = m) && Nat.eqb (length l) (size m).

Definition list_eqb (a b : list N) : bool := bool_decide (a = b).

Definition check_dump (R : N) (pr : probe) (s : store) (o : dump) : bool :=
  (o_hgt o =? hgt s) && map_eqb (o_fc o) (fce s) && map_eqb (o_ex o) (expi s)
  && match supplement_block R s with
     | Some l => list_eqb (o_supb o) (map fst l)
     | None => false
     end
  && match o_full o with
     | None => true
     | Some (sc, sf, mc, (psc, psf, pfc)) =>
         map_eqb sc (sce s) && map_eqb sf (sfe s) && map_eqb mc (mainc s)
         && let '(a, b, c) := supplement_txn R s pr in
            list_eqb psc (map fst a) && list_eqb psf (map fst b) && list_eqb pfc (map fst c)
     end
  && match o_proofs o with
     | None => true
     | Some (n, l) =>
         forallb (λ '(leaf, len),
                    match get_proof_reads leaf n with
                    | Some reads => (N.of_nat (length reads) =? len)
                                    && forallb (λ '(r, c), live n r c) reads
                    | None => false
                    end) l
     end.

Definition to_step (U : gmap N (N * diffs)) (c : cstep) : option step :=
  match c with
  | CApply b => (λ hd, SApply (Blk b hd.1 hd.2)) <$> U !! b
  | CRevert b => (λ hd, SRevert (Blk b hd.1 hd.2)) <$> U !! b
  end.

Fixpoint check_steps (R : N) (U : gmap N (N * diffs)) (pr : probe) (s : store)
         (l : list (cstep * dump)) : bool :=
  match l with
  | [] => true
  | (c, o) :: r =>
      match to_step U c with
      | None => false
      | Some st =>
          match do_step R s st with
          | None => false
          | Some s' => check_dump R pr s' o && check_steps R U pr s' r
          end
      end
  end.

(** ** The Tree bucket: the model's writes against the changes of the real bucket, and the
    equality pattern of the real hashes against that of the symbolic ones *)
Record tstate := TS {
  t_acc : acc;
  t_nm : gmap N digest;                      (* hash name ↦ symbolic hash *)
  t_dn : gmap digest N;                      (* and back: the relation is one-to-one *)
  t_applied : gmap N (list N * list (N * N)); (* block ↦ leaves before it, its row-0 writes *)
}.

Definition relate (st : tstate) (name : N) (d : digest) : option tstate :=
  match t_nm st !! name, t_dn st !! d with
  | Some d', Some name' => if bool_decide (d' = d) && (name' =? name) then Some st else None
  | None, None => Some (TS (t_acc st) (<[name := d]> (t_nm st)) (<[d := name]> (t_dn st)) (t_applied st))
  | _, _ => None
  end.

Fixpoint relate_all (st : tstate) (W : gmap (nat * N) digest) (ch : list ((nat * N) * N)) : option tstate :=
  match ch with
  | [] => Some st
  | (k, name) :: r =>
      match W !! k with
      | None => None                          (* the bucket changed where the model writes nothing *)
      | Some d => match relate st name d with Some st' => relate_all st' W r | None => None end
      end
  end.

Definition check_tstep (R : N) (st : tstate) (c : cstep) (h : N) (t : tstep) : option tstate :=
  let '(ups, n, ch) := t in
  let '(b, gate) := match c with CApply b => (b, h <=? R) | CRevert b => (b, h - 1 <=? R) end in
  if negb gate then (if bool_decide (ch = []) then Some st else None)
  else
    let a := t_acc st in
    let lawL1 :=
      match c with
      | CApply _ => true
      | CRevert _ =>
          match t_applied st !! b with
          | Some (lsprev, upsapp) =>
              (n =? N.of_nat (length lsprev)) &&
              bool_decide ((list_to_map ups : gmap N N) = list_to_map (restore lsprev upsapp))
          | None =>   (* reverted although never applied (the block at require height + 1) *)
              (n =? N.of_nat (length (a_leaves a))) &&
              forallb (λ '(i, v), leaf_at (a_leaves a) i =? v) ups
          end
      end in
    if negb lawL1 then None
    else
      let a' := acc_step a ups n in
      let W : gmap (nat * N) digest := put_all ∅ (step_writes (a_leaves a') ups n) in
      let chm : gmap (nat * N) N := list_to_map ch in
      (* a write that does not show as a change must have written the value already there *)
      if negb (forallb (λ '(k, d), match chm !! k with
                                   | Some _ => true
                                   | None => bool_decide (a_tree a !! k = Some d)
                                   end) (map_to_list W)) then None
      else
        match relate_all st W ch with
        | None => None
        | Some st' =>
            Some (TS a' (t_nm st') (t_dn st')
                     match c with
                     | CApply _ => <[b := (a_leaves a, ups)]> (t_applied st')
                     | CRevert _ => delete b (t_applied st')
                     end)
        end.

Fixpoint check_tree (R : N) (U : gmap N (N * diffs)) (st : tstate)
         (steps : list (cstep * dump)) (ts : list tstep) : bool :=
  match steps, ts with
  | _, [] => true
  | [], _ :: _ => false
  | (c, _) :: steps', t :: ts' =>
      let b := match c with CApply b | CRevert b => b end in
      match U !! b with
      | None => false
      | Some (h, _) =>
          match check_tstep R st c h t with
          | Some st' => check_tree R U st' steps' ts'
          | None => false
          end
      end
  end.

Definition check_case (c : case) : bool :=
  check_steps (c_R c) (list_to_map (c_blocks c)) (c_probe c) empty_store (c_steps c)
  && check_tree (c_R c) (list_to_map (c_blocks c)) (TS acc_empty ∅ ∅ ∅) (c_steps c) (c_tree c).

Fixpoint mismatches_from (i : N) (cs : list case) : list N :=
  match cs with
  | [] => []
  | c :: cs' => if check_case c then mismatches_from (N.succ i) cs'
                else i :: mismatches_from (N.succ i) cs'
  end.
Definition mismatches := mismatches_from 0.
