(** * Run/Run_C02.v — executable correspondence check for C02 (no proofs).
    A case is one history of a real DBStore: the apply diff lists of every block the store
    was handed (ids and stored payloads renamed to small numbers), the sequence of
    ApplyBlock / RevertBlock calls the manager issued, and after each of them what the
    buckets held (file contracts and expiration lists *in list order* after every step,
    everything else after the last step of every manager call). *)
From Coq Require Import NArith List.
Import ListNotations.
From stdpp Require Import gmap.
From CV Require Export Chain.Store.
Export ListNotations.
Open Scope N_scope.

Record dump := mk_dump {
  o_hgt : N;
  o_fc : list (N * (N * N));
  o_ex : list (N * list N);
  o_supb : list N;       (* SupplementTipBlock(empty child).ExpiringFileContracts ids, in order *)
  (* siacoin elements, siafund elements, main chain, and the ids SupplementTipTransaction
     returned for the probe (siacoin inputs, siafund inputs, revisions) *)
  o_full : option (list (N * N) * list (N * N) * list (N * N) * (list N * list N * list N));
  (* the accumulator size at the tip and, for every proof SupplementTipTransaction served,
     the element's leaf index and the number of proof entries *)
  o_proofs : option (N * list (N * N));
}.

Inductive cstep := CApply (b : N) | CRevert (b : N).

Record case := mk_case {
  c_R : N;
  c_blocks : list (N * (N * diffs));
  c_probe : probe;
  c_steps : list (cstep * dump);
}.

Definition map_eqb `{EqDecision A} (l : list (N * A)) (m : gmap N A) : bool :=
  bool_decide (list_to_map l = m) && Nat.eqb (length l) (size m).

Definition list_eqb (a b : list N) : bool := bool_decide (a = b).

Definition check_dump (R : N) (pr : probe) (s : store) (o : dump) : bool :=
  (o_hgt o =? hgt s) && map_eqb (o_fc o) (fce s) && map_eqb (o_ex o) (expi s)
  && match supplement_block R s with
     | Some l => list_eqb (o_supb o) (map fst l)
     | None => false
     end
  && match o_full o with
     | None => true
     | Some (sc, sf, mc, (psc, psf, pfc)) =>
         map_eqb sc (sce s) && map_eqb sf (sfe s) && map_eqb mc (mainc s)
         && let '(a, b, c) := supplement_txn R s pr in
            list_eqb psc (map fst a) && list_eqb psf (map fst b) && list_eqb pfc (map fst c)
     end
  && match o_proofs o with
     | None => true
     | Some (n, l) =>
         forallb (λ '(leaf, len),
                    match get_proof_reads leaf n with
                    | Some reads => (N.of_nat (length reads) =? len)
                                    && forallb (λ '(r, c), live n r c) reads
                    | None => false
                    end) l
     end.

Definition to_step (U : gmap N (N * diffs)) (c : cstep) : option step :=
  match c with
  | CApply b => (λ hd, SApply (Blk b hd.1 hd.2)) <$> U !! b
  | CRevert b => (λ hd, SRevert (Blk b hd.1 hd.2)) <$> U !! b
  end.

Fixpoint check_steps (R : N) (U : gmap N (N * diffs)) (pr : probe) (s : store)
         (l : list (cstep * dump)) : bool :=
  match l with
  | [] => true
  | (c, o) :: r =>
      match to_step U c with
      | None => false
      | Some st =>
          match do_step R s st with
          | None => false
          | Some s' => check_dump R pr s' o && check_steps R U pr s' r
          end
      end
  end.

Definition check_case (c : case) : bool :=
  check_steps (c_R c) (list_to_map (c_blocks c)) (c_probe c) empty_store (c_steps c).

Fixpoint mismatches_from (i : N) (cs : list case) : list N :=
  match cs with
  | [] => []
  | c :: cs' => if check_case c then mismatches_from (N.succ i) cs'
                else i :: mismatches_from (N.succ i) cs'
  end.
Definition mismatches := mismatches_from 0.
