(** * Run/Run_C15.v — executable correspondence check for C15 (no proofs).
    A case is the contract table at the start of a scenario and the sequence of
    RPCs the harness ran against the real host, each with what it observed:
    success or error, the response payload (balances of a fund, deposits of a
    replenish), the calls recorded by the wrapping Contractor / Sectors in call
    order, and the balances of all accounts, pools and contracts afterwards.
    [mismatches] lists the cases on which the model of RHP/Accounts.v differs. *)
From stdpp Require Import gmap.
From Coq Require Import ZArith NArith List.
From CV Require Export RHP.Accounts.
Export ListNotations.

Record obs := Obs {
  o_ok : bool;
  o_read : bool;            (* the client read the answer ([false]: the renter left when the answer
                               began to arrive; the host completed the RPC, the payload is unknown) *)
  o_payload : list Z;
  o_events : list event;
  o_accounts : list (N * Z);
  o_pools : list (N * Z);
  o_contracts : list (N * (N * Z * Z * bool));     (* id, (revision number, renter output, host output, revisable) *)
}.

Record case := mk_case {
  c_contracts : list (N * contract);
  c_sectors : list N;
  c_trace : list (op * obs);
}.

Definition zlist_eqb (a b : list Z) : bool := bool_decide (a = b).

Definition check_contract (s : st) (x : N * (N * Z * Z * bool)) : bool :=
  match contracts s !! x.1 with
  | Some c => let '(n, r, h, rv) := x.2 in
      N.eqb (c_revnum c) n && Z.eqb (c_renter c) r && Z.eqb (c_host c) h && Bool.eqb (c_revisable c) rv
  | None => false
  end.

Definition check_obs (s' : st) (out : list event * res) (o : obs) : bool :=
  (match out.2 with
   | ROk p => o_ok o && (negb (o_read o) || zlist_eqb p (o_payload o))
   | RErr => negb (o_ok o)
   end)
  && bool_decide (out.1 = o_events o)
  && forallb (λ kv, Z.eqb (bal (accounts s') kv.1) kv.2) (o_accounts o)
  && forallb (λ kv, Z.eqb (bal (pools s') kv.1) kv.2) (o_pools o)
  && forallb (check_contract s') (o_contracts o).

Fixpoint check_trace (s : st) (t : list (op * obs)) : bool :=
  match t with
  | [] => true
  | (o, ob) :: t' => let '(s', out) := step s o in check_obs s' out ob && check_trace s' t'
  end.

Definition case_init (c : case) : st :=
  St ∅ ∅ ∅ (list_to_map (c_contracts c)) (list_to_set (c_sectors c)).

Definition check_case (c : case) : bool := check_trace (case_init c) (c_trace c).

Fixpoint mismatches_from (i : N) (cs : list case) : list N :=
  match cs with
  | [] => []
  | c :: cs' => if check_case c then mismatches_from (N.succ i) cs'
                else i :: mismatches_from (N.succ i) cs'
  end.
Definition mismatches := mismatches_from 0.
