(** * Run/Run_C17.v — executable correspondence check for C17 (no proofs).
    A case is a backend number and the operation sequence the harness ran on the
    real backend together with each observed result; [mismatches] lists the cases
    on which the model of that backend answers differently. *)
From stdpp Require Import gmap.
From Coq Require Import NArith List.
From CV Require Export KV.Model.
Export ListNotations.

Inductive res :=
| RUnit | RBool (x : bool) | RNoBucket | RVal (o : option N) | RList (l : list (N * N)) | RErr.

Record case := mk_case { c_backend : N; c_trace : list (op * res) }.

Definition opt_eqb (a b : option N) : bool :=
  match a, b with
  | Some x, Some y => N.eqb x y | None, None => true | _, _ => false end.

(** iteration is compared as a set of pairs; a key yielded twice is a mismatch *)
Definition match_res (m : mres) (r : res) : bool :=
  match m, r with
  | MUnit, RUnit => true
  | MBool x, RBool y => Bool.eqb x y
  | MNoBucket, RNoBucket => true
  | MVal a, RVal b => opt_eqb a b
  | MList g, RList l => bool_decide (list_to_map l = g) && Nat.eqb (length l) (size g)
  | _, _ => false
  end.

Fixpoint check_trace {S : Type} (step : S → op → S * mres) (s : S) (t : list (op * res)) : bool :=
  match t with
  | [] => true
  | (o, r) :: t' => let '(s', m) := step s o in match_res m r && check_trace step s' t'
  end.

Definition check_case (c : case) : bool :=
  match c_backend c with
  | 0%N => check_trace mem_step mem_init (c_trace c)
  | 1%N => check_trace (cache_step mem_backend) (cache_init mem_backend mem_init) (c_trace c)
  | 2%N => check_trace sp_step sp_init (c_trace c)
  | 3%N => check_trace (cache_step sp_backend) (cache_init sp_backend sp_init) (c_trace c)
  | 4%N => check_trace (cache_step (cache_backend mem_backend))
             (cache_init (cache_backend mem_backend) (cache_init mem_backend mem_init)) (c_trace c)
  | _ => false
  end.

Fixpoint mismatches_from (i : N) (cs : list case) : list N :=
  match cs with
  | [] => []
  | c :: cs' => if check_case c then mismatches_from (N.succ i) cs'
                else i :: mismatches_from (N.succ i) cs'
  end.
Definition mismatches := mismatches_from 0.
