(** * Run/Run_C11.v — executable correspondence check for C11 (no proofs).

    A case is what one real victim syncer went through: the block universe (the generated
    tree plus every corrupted object a Byzantine peer sent, labelled independently with
    go.sia.tech/core), the victim's initial chain, and phases of abstract messages — the
    sync-round answers and announcements its handlers actually received, projected — each
    with the victim's tip and the Ban calls recorded by its peer store afterwards; plus every
    AddBlocks / AddValidatedV2Blocks call the victim's syncer made, in order. *)
From stdpp Require Import gmap.
From Coq Require Import NArith ZArith List.
From CV Require Export Chain.Manager Net.Converge Net.Sync.
Export ListNotations.
Open Scope N_scope.

Record case := mk_case {
  c_univ : list (N * blk);
  c_x : list (N * xblk);
  c_params : params;
  c_subnets : list (N * list N);               (* peer -> its /32 /24 /16 /8 subnets *)
  c_init : list N;                             (* the victim's initial chain (one AddBlocks) *)
  c_phases : list (list msg * (N * list N * list (N * N)));
                                               (* messages; then tip, peers named in Ban calls so
                                                  far (in order), subnet bans so far (level, subnet) *)
  c_submits : list (bool * list N * bool);     (* validated?, block ids, error? *)
}.

Definition eqb_list (a b : list N) : bool :=
  (Nat.eqb (length a) (length b)) && forallb (λ p, fst p =? snd p) (combine a b).

Fixpoint eqb_pairs (a b : list (N * N)) : bool :=
  match a, b with
  | [], [] => true
  | (x1, y1) :: r1, (x2, y2) :: r2 => (x1 =? x2) && (y1 =? y2) && eqb_pairs r1 r2
  | _, _ => false
  end.

Definition bans_of (acts : list action) : list N :=
  flat_map (λ a, match a with Ban p => [p] | _ => [] end) acts.
Definition subnet_bans_of (acts : list action) : list (N * N) :=
  flat_map (λ a, match a with BanSubnet l s => [(l, s)] | _ => [] end) acts.
Definition is_err (o : outcome) : bool := match o with Ok => false | _ => true end.
Definition submits_of (X : xuniverse) (acts : list action) : list (bool * list N * bool) :=
  flat_map (λ a, match a with
                 | Submit v l o => [(v, map (λ t, hid (xget X t)) l, is_err o)]
                 | _ => [] end) acts.

Fixpoint eqb_submits (a b : list (bool * list N * bool)) : bool :=
  match a, b with
  | [], [] => true
  | (v1, l1, e1) :: r1, (v2, l2, e2) :: r2 =>
      Bool.eqb v1 v2 && eqb_list l1 l2 && Bool.eqb e1 e2 && eqb_submits r1 r2
  | _, _ => false
  end.

Section Check.
  Context (U : universe) (X : xuniverse) (P : params) (subs : N → list N).

  Fixpoint check_phases (n : node) (acc : list action)
           (ph : list (list msg * (N * list N * list (N * N)))) : bool * list action :=
    match ph with
    | [] => (true, acc)
    | (ms, (t, bans, sbans)) :: rest =>
        let '(n', acts) := run U X P true subs n ms in
        let acc' := acc ++ acts in
        if (tip (n_mgr n') =? t) && eqb_list (bans_of acc') bans && eqb_pairs (subnet_bans_of acc') sbans
        then check_phases n' acc' rest
        else (false, acc')
    end.
End Check.

Definition check_case (c : case) : bool :=
  let U : universe := list_to_map (c_univ c) in
  let X : xuniverse := list_to_map (c_x c) in
  let subs := λ p, match (list_to_map (c_subnets c) : gmap N (list N)) !! p with
                   | Some l => l | None => [] end in
  let n0 := Node (add_blocks U init (c_init c)).1.1 ∅ ∅ in
  let '(ok, acts) := check_phases U X (c_params c) subs n0 [] (c_phases c) in
  ok && eqb_submits (submits_of X acts) (c_submits c).

Fixpoint mismatches_from (i : N) (cs : list case) : list N :=
  match cs with
  | [] => []
  | c :: cs' => if check_case c then mismatches_from (N.succ i) cs'
                else i :: mismatches_from (N.succ i) cs'
  end.
Definition mismatches := mismatches_from 0.
