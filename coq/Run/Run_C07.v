(** * Run/Run_C07.v — executable correspondence check for C07 (no proofs).
    A case is an initial wallet state (outputs, tip height, reservations, pool,
    options) and the operation sequence the harness ran on the real
    wallet.SingleAddressWallet, each with what it observed: the result of the call
    (selected input ids in order, change, error or not; for Redistribute and
    SplitUTXO the transactions built) and, after the call, Balance() and the ids of
    SpendableOutputs().  [mismatches] lists the cases on which the model answers
    differently.

    [k_byval]: the outputs carry equal values, so which of two equal outputs Go's
    unstable sort over a map iteration picks is not determined; the selection is then
    compared position by position *by value*, and the model continues from the
    reservation of the ids the implementation chose. *)
From stdpp Require Import gmap.
From Coq Require Import ZArith NArith List.
From CV Require Export Wallet.Fund.
Export ListNotations.

(** large values are written by the harness as [zu k r] = k * 10^20 + r *)
Definition zu (k r : Z) : Z := (k * 100000000000000000000 + r)%Z.

(** [ob_views = false]: the harness made no read call after this operation (a stretch of
    operations without observation); only the result of the call is compared *)
Record obs := mk_obs { ob_res : res; ob_bal : bal; ob_outs : list N; ob_views : bool }.

Record case := mk_case {
  k_cfg : cfg; k_tip : N; k_utxos : list utxo; k_locked : list (N * N);
  k_pool : list ptx; k_byval : bool; k_trace : list (op * option obs) }.

Definition init_state (c : case) : state :=
  mk_state (list_to_map (map (λ u, (u_id u, (u_val u, u_mat u))) (k_utxos c)))
           (k_tip c) 0%N (list_to_map (k_locked c)) (k_pool c) (k_cfg c).

Fixpoint list_eqb {A} (eqb : A → A → bool) (a b : list A) : bool :=
  match a, b with
  | [], [] => true
  | x :: a', y :: b' => eqb x y && list_eqb eqb a' b'
  | _, _ => false
  end.

Definition rtx_eqb (a b : rtx) : bool :=
  list_eqb N.eqb (r_ins a) (r_ins b) && (r_nout a =? r_nout b)%Z
  && (r_change a =? r_change b)%Z && (r_fee a =? r_fee b)%Z.

Definition res_eqb (a b : res) : bool :=
  match a, b with
  | RErr, RErr => true
  | RFund s c b, RFund s' c' b' => list_eqb N.eqb s s' && (c =? c')%Z && (b =? b')%N
  | RRedist t, RRedist t' => list_eqb rtx_eqb t t'
  | RSplit None, RSplit None => true
  | RSplit (Some (i, o)), RSplit (Some (i', o')) => (i =? i')%N && list_eqb Z.eqb o o'
  | RUnit, RUnit => true
  | _, _ => false
  end.

Definition bal_eqb (a b : bal) : bool :=
  (b_spendable a =? b_spendable b)%Z && (b_confirmed a =? b_confirmed b)%Z
  && (b_unconfirmed a =? b_unconfirmed b)%Z && (b_immature a =? b_immature b)%Z.

(** value of a confirmed or unconfirmed output *)
Definition val_of (s : state) (i : N) : Z :=
  match utxos s !! i with
  | Some (v, _) => v
  | None => match pool_created s !! i with Some (v, _, _) => v | None => (-1)%Z end
  end.

Definition ids_eqb (l : list utxo) (ids : list N) : bool :=
  bool_decide (list_to_set (map u_id l) =@{gset N} list_to_set ids)
  && Nat.eqb (length l) (length ids).

(** what the harness records of a Redistribute transaction: its inputs, the number of
    outputs (including the change output), their sum, the miner fee *)
Definition rtx_view (amount : Z) (t : rtx) : rtx :=
  mk_rtx (r_ins t) (r_nout t + (if (r_change t >? 0)%Z then 1 else 0))%Z
         (amount * r_nout t + r_change t)%Z (r_fee t).

Definition res_view (o : op) (r : res) : res :=
  match o, r with
  | Redistribute _ amount _ _, RRedist txs => RRedist (map (rtx_view amount) txs)
  | _, _ => r
  end.

(** two outputs of equal value among the candidates: Go's choice between them is
    not determined (map iteration order, unstable sort) *)
Fixpoint nodup_Z (l : list Z) : bool :=
  match l with
  | [] => true
  | x :: l' => negb (existsb (Z.eqb x) l') && nodup_Z l'
  end.
Definition has_ties (s : state) : bool :=
  negb (nodup_Z (map u_val (elements s) ++ map (λ x, u_val x.1.1) (unconfirmed_all s))).

Fixpoint nodup_N (l : list N) : bool :=
  match l with
  | [] => true
  | x :: l' => negb (mem_N x l') && nodup_N l'
  end.
(** the ids the implementation chose are distinct candidates *)
Definition chosen_ok (s : state) (ids : list N) : bool :=
  let cand := map u_id (elements s) ++ map (λ x, u_id x.1.1) (unconfirmed_all s) in
  nodup_N ids && forallb (λ i, mem_N i cand && negb (is_locked s i)) ids.
Definition vals_eqb (s : state) (a b : list N) : bool :=
  list_eqb Z.eqb (map (val_of s) a) (map (val_of s) b).

(** comparison by value, and the state to continue from: the model's step with the
    implementation's choice of ids *)
Definition check_byval (s s' : state) (o : op) (r robs : res) : bool * state :=
  match r, robs with
  | RFund sel ch b, RFund sel' ch' b' =>
      (vals_eqb s sel sel' && (ch =? ch')%Z && (b =? b')%N && chosen_ok s sel',
       match sel' with [] => s' | _ => lock_utxos s sel' end)
  | RRedist txs, RRedist txs' =>
      (list_eqb (λ a b, vals_eqb s (r_ins a) (r_ins b) && (r_nout a =? r_nout b)%Z
                        && (r_change a =? r_change b)%Z && (r_fee a =? r_fee b)%Z) txs txs'
       && chosen_ok s (concat (map r_ins txs')),
       match txs' with [] => s' | _ => lock_utxos s (concat (map r_ins txs')) end)
  | RSplit (Some (i, outs)), RSplit (Some (i', outs')) =>
      ((val_of s i =? val_of s i')%Z && list_eqb Z.eqb outs outs' && chosen_ok s [i'],
       match o with
       | Split _ _ _ txid new_ids => split_commit s i' outs' txid new_ids
       | _ => s' end)
  | _, _ => (res_eqb r robs, s')
  end.

(** one step: (agrees?, state to continue from) *)
Definition check_step (byval : bool) (s : state) (o : op) (ob : option obs) : bool * state :=
  let '(s', r) := step s o in
  match ob with
  | None => (true, s')
  | Some ob =>
      let '(ok, s'') :=
        if byval || has_ties s then check_byval s s' o (res_view o r) (ob_res ob)
        else (res_eqb (res_view o r) (ob_res ob), s') in
      (ok && (negb (ob_views ob)
              || bal_eqb (balance s'') (ob_bal ob)
                 && ids_eqb (spendable_outputs s'') (ob_outs ob)), s'')
  end.

Fixpoint check_trace (byval : bool) (s : state) (t : list (op * option obs)) : bool :=
  match t with
  | [] => true
  | (o, ob) :: t' =>
      let '(ok, s') := check_step byval s o ob in ok && check_trace byval s' t'
  end.

Definition check_case (c : case) : bool := check_trace (k_byval c) (init_state c) (k_trace c).

Fixpoint mismatches_from (i : N) (cs : list case) : list N :=
  match cs with
  | [] => []
  | c :: cs' => if check_case c then mismatches_from (N.succ i) cs'
                else i :: mismatches_from (N.succ i) cs'
  end.
Definition mismatches := mismatches_from 0.

(** index of the first operation of a case on which model and observation differ, with
    what the model answers there (for reading a mismatch; not used by the verdict) *)
Fixpoint first_bad (byval : bool) (s : state) (t : list (op * option obs)) (i : N)
  : option (N * res * bal * list N) :=
  match t with
  | [] => None
  | (o, ob) :: t' =>
      let '(ok, s') := check_step byval s o ob in
      if ok then first_bad byval s' t' (N.succ i)
      else let '(s1, r) := step s o in
           Some (i, res_view o r, balance s1, map u_id (spendable_outputs s1))
  end.
Definition diagnose (c : case) := first_bad (k_byval c) (init_state c) (k_trace c) 0.
