(** * Run/Run_C10.v — executable correspondence check for C10 (no proofs).
    A case is one exchange of the real rhp4.RPC* client function with the
    Byzantine host of harness/cmd/c10: the numeric request parameters, the
    numeric part of the renter's view of the contract, the outcome of core's
    verifiers on the (corrupted) response as computed by the harness itself, and
    what the client function returned. [mismatches] lists the cases on which
    the decision function of RHP/Renter.v answers differently. *)
From stdpp Require Import prelude.
From Coq Require Import NArith List.
From CV Require Export RHP.Renter.
Export ListNotations.
Open Scope N_scope.

(** Merkle roots are renamed to small numbers by the harness *)
Definition nview := view N.
Definition mk_nview := @mk_view N.

Inductive obs :=
| OErr | OPanic
| OOk (l : list N)
| OOkRev (v : nview) (u : usage) (l : list N).

Inductive case :=
| CRead (auth : bool) (egress offset length : N) (dec : bool) (datalen avail : N) (proof_ok : bool) (o : obs)
| CWrite (auth : bool) (storage ingress length : N) (dec root_eq : bool) (o : obs)
| CVerify (egress : N) (dec proof_ok : bool) (o : obs)
| CRoots (v : nview) (p : prices) (auth : bool) (offset length : N) (dec : bool) (nroots : N)
         (proof_ok sig_ok : bool) (o : obs)
| CAppend (v : nview) (p : prices) (k : N) (dec1 : bool) (nacc ntrue newroot : N)
          (proof_ok dec3 sig_ok : bool) (o : obs)
| CFree (v : nview) (p : prices) (raw seen : list N) (dec1 : bool) (newroot : N)
        (proof_ok dec3 sig_ok : bool) (o : obs)
| CFund (v : nview) (amounts : list N) (accts_ok dec : bool) (nbal : N) (sig_ok : bool) (o : obs)
| CReplenish (v : nview) (nacc target : N) (dec1 : bool) (deposits : list N) (dec3 sig_ok : bool) (o : obs)
| CForm (kind : N) (funded dec1 : bool) (host_sum host_cost : N) (dec3 : bool) (nset nitems : N)
        (is_renewal id_eq rsig_ok csig_ok : bool) (cost : N) (o : obs)
| CPass (rpc : N) (dec : bool) (o : obs).

Fixpoint nlist_eqb (a b : list N) : bool :=
  match a, b with
  | [], [] => true
  | x :: a', y :: b' => (x =? y) && nlist_eqb a' b'
  | _, _ => false
  end.

Definition view_eqb (a b : nview) : bool :=
  (v_revnum a =? v_revnum b) && (v_filesize a =? v_filesize b) && (v_capacity a =? v_capacity b)
  && (v_root a =? v_root b) && (v_renter a =? v_renter b) && (v_host a =? v_host b)
  && (v_missed a =? v_missed b) && (v_exp a =? v_exp b).

Definition usage_eqb (a b : usage) : bool :=
  (u_rpc a =? u_rpc b) && (u_storage a =? u_storage b) && (u_egress a =? u_egress b)
  && (u_ingress a =? u_ingress b) && (u_funding a =? u_funding b) && (u_collateral a =? u_collateral b).

Definition match_rev (r : result (nview * usage)) (extra : list N) (o : obs) : bool :=
  match r, o with
  | Err, OErr => true
  | Ok (v, u), OOkRev v' u' l => view_eqb v v' && usage_eqb u u' && nlist_eqb extra l
  | _, _ => false
  end.

Definition check_case (c : case) : bool :=
  match c with
  | CRead auth egress offset length dec datalen avail proof_ok o =>
      match read_decide auth egress offset length dec datalen avail proof_ok, o with
      | Err, OErr => true
      | Ok (w, u), OOk l => nlist_eqb [w; u] l
      | _, _ => false
      end
  | CWrite auth storage ingress length dec root_eq o =>
      match write_decide auth storage ingress length dec root_eq, o with
      | Err, OErr => true
      | Ok u, OOk l => nlist_eqb [u_storage u; u_ingress u] l
                       && usage_eqb u (mk_usage 0 (u_storage u) 0 (u_ingress u) 0 0)
      | _, _ => false
      end
  | CVerify egress dec proof_ok o =>
      match verify_decide egress dec proof_ok, o with
      | Err, OErr => true
      | Ok u, OOk l => nlist_eqb [u] l
      | _, _ => false
      end
  | CRoots v p auth offset length dec nroots proof_ok sig_ok o =>
      match_rev (roots_decide v p auth offset length dec nroots proof_ok (fun _ => sig_ok)) [length] o
  | CAppend v p k dec1 nacc ntrue newroot proof_ok dec3 sig_ok o =>
      match_rev (append_decide v p k dec1 nacc ntrue newroot proof_ok dec3 (fun _ => sig_ok)) [ntrue] o
  | CFree v p raw seen dec1 newroot proof_ok dec3 sig_ok o =>
      let norm := normalize raw in
      (* the host saw the normalised list whenever it was contacted *)
      (if dec1 then nlist_eqb seen norm else nlist_eqb seen norm || nlist_eqb seen [])
      && match_rev (free_decide v p norm dec1 newroot proof_ok dec3 (fun _ => sig_ok)) [] o
  | CFund v amounts accts_ok dec nbal sig_ok o =>
      match_rev (fund_decide v amounts accts_ok dec nbal (fun _ => sig_ok)) [len amounts] o
  | CReplenish v nacc target dec1 deposits dec3 sig_ok o =>
      match replenish_decide v nacc target dec1 deposits dec3 (fun _ => sig_ok) with
      | Err => match_rev Err [] o
      | Ok (Some v', u) => match_rev (Ok (v', u)) [len deposits] o
      | Ok (None, u) => match_rev (Ok (v, u)) [len deposits] o     (* the caller's revision, unchanged *)
      end
  | CForm kind funded dec1 host_sum host_cost dec3 nset nitems is_renewal id_eq rsig_ok csig_ok cost o =>
      (* kind 0: RPCFormContract; 1: renew and both refresh RPCs. On success the harness reports
         the cost, whether the returned contract is field by field the renter's own (1) and
         whether its host signature verifies over it (1) *)
      match (if kind =? 0 then form_decide funded dec1 host_sum host_cost dec3 nset nitems id_eq csig_ok cost
             else renew_decide funded dec1 host_sum host_cost dec3 nset nitems is_renewal rsig_ok csig_ok cost), o with
      | Err, OErr => true
      | Ok k, OOk l => nlist_eqb [k; 1; 1] l
      | _, _ => false
      end
  | CPass _ dec o =>
      match pass_decide dec, o with
      | Err, OErr => true
      | Ok _, OOk [] => true
      | _, _ => false
      end
  end.

Fixpoint mismatches_from (i : N) (cs : list case) : list N :=
  match cs with
  | [] => []
  | c :: cs' => if check_case c then mismatches_from (N.succ i) cs'
                else i :: mismatches_from (N.succ i) cs'
  end.
Definition mismatches := mismatches_from 0.
