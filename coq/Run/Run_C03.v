(** * Run/Run_C03.v — executable correspondence check for C03 (no proofs).
    A case is one history of a real DBStore with a flush schedule:
    - the store part: the blocks' diff lists, the manager events (block steps decorated with
      "the harness made the threshold fire here", and the flush that ends every reorg), and a
      dump of every image the database committed, in order — the crash model must commit the
      same images at the same points;
    - the manager part: for some of the images, the state the reopened node is in (record of
      every block of the tree, best chain) and the catch-up run on it, call by call — the
      manager model started from that state must behave the same. *)
From Coq Require Import NArith ZArith List.
Import ListNotations.
From stdpp Require Import gmap.
From CV Require Export Chain.Crash Run.Run_C02.
From CV Require Chain.Reopen.
From CV Require Run.Run_C01.
Export ListNotations.
Open Scope N_scope.

Inductive cmev := CStep (c : cstep) (fire : bool) | CFlush.

(** the reopened node and its catch-up run *)
Record mcase := mk_mcase {
  m_univ : list (N * Manager.blk);
  m_known : list (N * (N * bool * bool));   (* id, state kind 0 none / 1 header / 2 full / 3 header only, body, supplement *)
  m_best : list N;                           (* tip first *)
  m_hist : list (Manager.mop * Run_C01.obs);
}.

Record case := mk_case3 {
  c3_R : N;
  c3_blocks : list (N * (N * diffs));
  c3_probe : probe;
  c3_events : list cmev;
  c3_images : list (dump * option N);       (* committed image, and the tip NewDBStore reports on it *)
  c3_reopened : list mcase;
  (* when the threshold fired after every block step: the universe, the calls of the run,
     and what every committed image (the first one of each step, in order) reopened to —
     the record of every block and the best chain; [] = not recorded *)
  c3_univ : list (N * Manager.blk);
  c3_ops : list Manager.mop;
  c3_bounds : list (list (N * (N * bool * bool)) * list N);
}.

Definition to_mev (U : gmap N (N * diffs)) (e : cmev) : option mev :=
  match e with
  | CStep c fire => (λ st, MStep st fire) <$> to_step U c
  | CFlush => Some MFlush
  end.

Definition opt_eqb (a b : option N) : bool :=
  match a, b with Some x, Some y => x =? y | None, None => true | _, _ => false end.

Fixpoint check_images (R : N) (pr : probe) (ms : list img) (os : list (dump * option N)) : bool :=
  match ms, os with
  | [], [] => true
  | i :: ms', (o, t) :: os' =>
      check_dump R pr (i_s i) o && opt_eqb (reopen i) t && check_images R pr ms' os'
  | _, _ => false
  end.

Definition decode_known (l : list (N * (N * bool * bool))) : gmap N Manager.kinfo :=
  list_to_map (omap (λ '(id, (k, b, s)),
    match k with
    | 1 => Some (id, Manager.KI (Some Manager.SHdr) b s)
    | 2 => Some (id, Manager.KI (Some Manager.SFull) b s)
    | 3 => Some (id, Manager.KI None b s)
    | _ => None
    end) l).

Definition check_mcase (m : mcase) : bool :=
  Run_C01.check_hist (list_to_map (m_univ m))
                     (Manager.Mgr (decode_known (m_known m)) (m_best m)) (m_hist m).

(** the block boundaries of the manager model are the images the database committed *)
Fixpoint check_bounds_list (bs : list Manager.mgr)
         (os : list (list (N * (N * bool * bool)) * list N)) : bool :=
  match bs, os with
  | [], [] => true
  | b :: bs', (kn, be) :: os' =>
      Run_C01.eqb_list be (Manager.best b) && Run_C01.check_known b kn && check_bounds_list bs' os'
  | _, _ => false
  end.
Definition check_bounds (c : case) : bool :=
  match c3_bounds c with
  | [] => true
  | os => check_bounds_list (Reopen.boundaries (list_to_map (c3_univ c)) (c3_ops c)) os
  end.

Definition check_case (c : case) : bool :=
  let U := list_to_map (c3_blocks c) in
  match mapM (to_mev U) (c3_events c) with
  | None => false
  | Some evs =>
      match images (c3_R c) evs with
      | None => false
      | Some ims => check_images (c3_R c) (c3_probe c) ims (c3_images c)
      end
  end && forallb check_mcase (c3_reopened c) && check_bounds c.

Fixpoint mismatches_from (i : N) (cs : list case) : list N :=
  match cs with
  | [] => []
  | c :: cs' => if check_case c then mismatches_from (N.succ i) cs'
                else i :: mismatches_from (N.succ i) cs'
  end.
Definition mismatches := mismatches_from 0.
