(** * Run/Run_C18.v — executable correspondence check for C18 (no proofs).
    A case is a configuration and the label sequence the harness logged while driving the real
    syncer / rhp4 server / wallet / thread group, plus what it observed at the end (inbound and
    outbound peers reported by Syncer.Peers, handlers still inside the chain manager, whether
    Stop had been called).  The case agrees with the model when the transition system accepts
    the whole sequence ([accepts]: every logged label was enabled when it happened, including
    the [LQuiet] marks at which the harness saw nothing move) and ends in a state with the
    same observables. *)
From Coq Require Import NArith ZArith List Bool.
From CV Require Export Net.Limits.
Export ListNotations.

Record case := mk_case {
  c_cfg : config;
  c_trace : list label;
  c_in : N; c_out : N;       (* Syncer.Peers() at the end, by direction *)
  c_live : N;                (* handlers inside the chain manager at the end *)
  c_stopped : bool
}.

Definition check_case (c : case) : bool :=
  match run (c_cfg c) init (c_trace c) with
  | Some s =>
      N.eqb (N.of_nat (inbound_peers s)) (c_in c) &&
      N.eqb (N.of_nat (outbound_peers s)) (c_out c) &&
      N.eqb (N.of_nat (running_handlers s)) (c_live c) &&
      Bool.eqb (stopped s) (c_stopped c)
  | None => false
  end.

Fixpoint mismatches_from (i : N) (cs : list case) : list N :=
  match cs with
  | [] => []
  | c :: cs' => if check_case c then mismatches_from (N.succ i) cs'
                else i :: mismatches_from (N.succ i) cs'
  end.
Definition mismatches := mismatches_from 0.

(** index of the first label that is not enabled (for diagnosis only) *)
Fixpoint first_refused (cfg : config) (s : state) (tr : list label) (i : N) : option N :=
  match tr with
  | [] => None
  | l :: t => match step cfg s l with Some s' => first_refused cfg s' t (N.succ i) | None => Some i end
  end.
