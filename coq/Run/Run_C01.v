(** * Run/Run_C01.v — executable correspondence check for C01/C19 (no proofs).
    A case is an abstract universe and the history the harness ran on the real
    manager, with what it observed after every call. *)
From stdpp Require Import gmap.
From Coq Require Import NArith ZArith List.
From CV Require Export Chain.Manager.
Export ListNotations.
Open Scope N_scope.

(** observed after a call: error?, panicked?, listeners notified?, best chain tip-first,
    and the store's view of every block of the universe: (id, state kind 0/1/2, body, supp) *)
Record obs := mk_obs {
  o_err : bool; o_panic : bool; o_notified : bool;
  o_best : list N;
  o_known : list (N * (N * bool * bool));
  o_minreorg : N;
}.

Record case := mk_case {
  c_univ : list (N * blk);
  c_hist : list (mop * obs);
}.

Definition skind_code (k : option kinfo) : N * bool * bool :=
  match k with
  | None => (0, false, false)
  | Some (KI None b s) => (3, b, s)
  | Some (KI (Some SHdr) b s) => (1, b, s)
  | Some (KI (Some SFull) b s) => (2, b, s)
  end.

Definition eqb_list (a b : list N) : bool :=
  (Nat.eqb (length a) (length b)) && forallb (λ p, fst p =? snd p) (combine a b).

Definition check_known (m : mgr) (l : list (N * (N * bool * bool))) : bool :=
  forallb (λ '(id, (k, b, s)),
     let '(k', b', s') := skind_code (known m !! id) in
     (k =? k') && Bool.eqb b b' && Bool.eqb s s') l.

Definition check_obs (m : mgr) (out : outcome) (nt : bool) (o : obs) : bool :=
  Bool.eqb (o_err o) (match out with Err => true | _ => false end) &&
  Bool.eqb (o_panic o) (match out with Panic => true | _ => false end) &&
  Bool.eqb (o_notified o) nt &&
  eqb_list (o_best o) (best m) &&
  check_known m (o_known o) &&
  (o_minreorg o =? min_reorg m).

Fixpoint check_hist (U : universe) (m : mgr) (h : list (mop * obs)) : bool :=
  match h with
  | [] => true
  | (op, o) :: rest =>
      let '(m', out, nt) := mstep U m op in
      check_obs m' out nt o && check_hist U m' rest
  end.

Definition check_case (c : case) : bool :=
  check_hist (list_to_map (c_univ c)) init (c_hist c).

Fixpoint mismatches_from (i : N) (cs : list case) : list N :=
  match cs with
  | [] => []
  | c :: cs' => if check_case c then mismatches_from (N.succ i) cs'
                else i :: mismatches_from (N.succ i) cs'
  end.
Definition mismatches := mismatches_from 0.
