(** * Run/Run_C06.v — executable correspondence check for C06 (no proofs).
    A case is the table of abstract blocks the stream touched and the history: chunks
    of the update stream (reverted ids, applied ids) fed to UpdateChainState, and checks
    at the tip with what the real wallet reported: its unspent outputs sorted by id
    (id, value, maturity height) and its event list in the store's display order. *)
From stdpp Require Import gmap.
From Coq Require Import NArith ZArith List.
From CV Require Export Wallet.Ledger.
Export ListNotations.
Open Scope N_scope.

Inductive cstep :=
| SChunk (rus aus : list N)
| SCheck (us : list (N * Z * N)) (es : list event).

Record case := mk_case { c_blocks : list ablock; c_steps : list cstep }.

Definition event_eqb (a b : event) : bool :=
  index_eqb (e_index a) (e_index b) && (e_id a =? e_id b) && (e_in a =? e_in b)%Z &&
  (e_out a =? e_out b)%Z && (e_kind a =? e_kind b) && (e_mat a =? e_mat b).

Fixpoint list_eqb {A} (eqb : A → A → bool) (a b : list A) : bool :=
  match a, b with
  | [], [] => true
  | x :: a', y :: b' => eqb x y && list_eqb eqb a' b'
  | _, _ => false
  end.

Fixpoint increasing (prev : option N) (l : list (N * Z * N)) : bool :=
  match l with
  | [] => true
  | (o, _, _) :: l' =>
      match prev with Some p => p <? o | None => true end && increasing (Some o) l'
  end.

Definition check_utxos (u : gmap N (Z * N)) (us : list (N * Z * N)) : bool :=
  increasing None us && Nat.eqb (size u) (length us) &&
  forallb (λ '(o, v, m),
    match u !! o with Some (v', m') => (v =? v')%Z && (m =? m') | None => false end) us.

(** the chain the wallet stands on (tip first) after a chunk: reverts pop, applies push;
    [None] if a revert does not undo the block on top *)
Fixpoint pop_all (sh : list N) (rus : list N) : option (list N) :=
  match rus with
  | [] => Some sh
  | b :: r => match sh with x :: sh' => if x =? b then pop_all sh' r else None | [] => None end
  end.

Fixpoint check_steps (B : gmap N ablock) (st : wstore) (sh : list N) (ss : list cstep) : bool :=
  match ss with
  | [] => true
  | SChunk rus aus :: rest =>
      match pop_all sh rus with
      | None => false
      | Some sh1 => check_steps B (update_chain_state B st rus aus) (rev aus ++ sh1) rest
      end
  | SCheck us es :: rest =>
      check_utxos (utxos st) us && list_eqb event_eqb (wallet_events st) es &&
      (net_events (events st) =? total (utxos st))%Z &&
      goodb B sh &&          (* the theorems' hypothesis on the chain, tested on this one *)
      check_steps B st sh rest
  end.

Definition table (bs : list ablock) : gmap N ablock := list_to_map (map (λ b, (ab_id b, b)) bs).

Definition check_case (c : case) : bool :=
  forallb block_wf (c_blocks c) && check_steps (table (c_blocks c)) ws0 [] (c_steps c).

Fixpoint mismatches_from (i : N) (cs : list case) : list N :=
  match cs with
  | [] => []
  | c :: cs' => if check_case c then mismatches_from (N.succ i) cs'
                else i :: mismatches_from (N.succ i) cs'
  end.
Definition mismatches := mismatches_from 0.
