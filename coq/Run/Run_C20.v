(** * Run/Run_C20.v — executable correspondence check for C20 (no proofs).

    Encode case: the entropy halves [hi lo] given to the real
    [encodeBIP39Phrase], the value [c] the real [bip39checksum] returns on that
    entropy, and the twelve word-list indices of the phrase it produced.

    Decode case: the tokens of the phrase given to the real [decodeBIP39Phrase]
    (index of each word in the real list, [Unknown] for anything else), the
    entropy [h0 l0] the harness computed independently from those indices and
    the value [c] of the real [bip39checksum] on *that* entropy, and the observed
    result.  The model's checksum function answers [c] at exactly [(h0, l0)] and
    16 (no nibble) anywhere else, so the model must arrive at the same entropy
    before it may accept. *)
From Coq Require Import NArith List Bool.
From CV Require Export Wallet.Seed.
Export ListNotations.
Open Scope N_scope.

(** observed result of decodeBIP39Phrase.  The number carried by [OErr] is what the harness made
    of the error text (1 = word count, 2 = unrecognized word, 3 = checksum, 0 = unclassified); it
    is recorded for the reader and is NOT compared: the property fixes that a malformed phrase is
    rejected, not which of several applicable errors is reported, in which order the validations
    run, or how an error is worded. *)
Inductive dobs := OOk (hi lo : N) | OErr (class : N).

Inductive case :=
| CEnc (hi lo c : N) (obs : list N)
| CDec (ts : list token) (h0 l0 c : N) (obs : dobs)
| CHist (steps : list (hop * N)).

Definition cks_at (h0 l0 c : N) (hi lo : N) : N :=
  if (hi =? h0) && (lo =? l0) then c else 16.

Fixpoint list_eqb (a b : list N) : bool :=
  match a, b with
  | [], [] => true
  | x :: a', y :: b' => (x =? y) && list_eqb a' b'
  | _, _ => false
  end.

(** History case: the calls the harness made on numbered seed buffers.  Every change of a
    buffer (by SeedFromPhrase or by the caller) is projected to [HWrite b [id]], [id] naming the
    32 bytes the buffer held afterwards (equal contents, equal id); a [HKey b i] step carries the
    id of the key the real KeyFromSeed returned (equal keys, equal id; the number is ignored on the
    other steps).  The model is run with symbolic hashing (H and the key generation are the
    identity, so a model key *is* what is hashed: contents ++ le64 i); the real keys must be equal
    exactly where the model's are: a key that depends on anything but the current contents of
    the buffer and the index (an earlier call, the buffer's address) breaks the pattern. *)
Definition hist_ok (steps : list (hop * N)) : bool :=
  let ks := snd (hrun (fun _ _ => 0) (fun x => x) (list N) (fun x => x) (fun _ => []) (map fst steps)) in
  let ids := flat_map (fun s => match fst s with HKey _ _ => [snd s] | _ => [] end) steps in
  Nat.eqb (length ks) (length ids) &&
  (let prs := combine ks ids in
   forallb (fun a => forallb (fun b => Bool.eqb (list_eqb (fst a) (fst b)) (snd a =? snd b)) prs) prs).

(** A case is checked against the hand-written model of Wallet/Seed.v and, when the
    harness could regenerate them from the current wallet/seed.go (go/ast translator,
    module SeedGen in the run directory), against the regenerated functions as well:
    [enc] / [dec] are [encode] / [decode_res] of either.  Decode: accepted with the same
    entropy, or rejected (with whatever error). *)
Definition check_case_with (enc : (N -> N -> N) -> N -> N -> list N)
                           (dec : (N -> N -> N) -> list token -> dres) (c : case) : bool :=
  match c with
  | CEnc hi lo c obs => list_eqb (enc (cks_at hi lo c) hi lo) obs
  | CDec ts h0 l0 c obs =>
      match dec (cks_at h0 l0 c) ts, obs with
      | DOk hi lo, OOk hi' lo' => (hi =? hi') && (lo =? lo')
      | DOk _ _, OErr _ => false
      | _, OOk _ _ => false
      | _, OErr _ => true
      end
  | CHist steps => hist_ok steps
  end.

(** rejected iff the phrase has a defect ([defects]: independent of any order of validation) *)
Definition defects_agree (c : case) : bool :=
  match c with
  | CEnc _ _ _ _ | CHist _ => true
  | CDec ts h0 l0 c obs =>
      let defective := match defects (cks_at h0 l0 c) ts with [] => false | _ => true end in
      match obs with OOk _ _ => negb defective | OErr _ => defective end
  end.

Definition check_case (c : case) : bool := check_case_with encode decode_res c && defects_agree c.

Fixpoint mismatches_from (chk : case -> bool) (i : N) (cs : list case) : list N :=
  match cs with
  | [] => []
  | c :: cs' => if chk c then mismatches_from chk (N.succ i) cs'
                else i :: mismatches_from chk (N.succ i) cs'
  end.

(** the model of Seed.v alone *)
Definition mismatches := mismatches_from check_case 0.
(** the model of Seed.v and another pair of functions; SeedGen shadows [mismatches] with this *)
Definition mismatches_with enc dec :=
  mismatches_from (fun c => check_case c && check_case_with enc dec c) 0.
