(** * Run/Run_C14.v — executable correspondence check for C14 (no proofs): the shared pool
    runner of Chain/PoolRun.v ([case], [check_case], [mismatches]). *)
From CV Require Export Chain.PoolRun.
