(** * Props/C11.v — A node facing Byzantine peers stays safe, bans what it judged invalid, and
    still syncs with an honest peer.
    Only the property theorems; each is closed by [exact] and followed by Print Assumptions.
    All statements are about the node model [Net/Sync.v] (manager model [Chain/Manager.v] + the
    syncer's decision logic as message handlers) that the harness validates against real
    syncer.Syncer instances.  They quantify over every well-formed block universe [U] ([WF]),
    every labelling [X] of block terms that respects symbolic hashing ([WFX]), every syncer
    configuration [P] with [0 < bpr P] and [0 < reqh P], every node state satisfying [NInv]
    (the C01 invariant, never pruned) and every sequence of peer messages whose sync rounds are
    [uniform] (all requests below, or all at/above, the require height).

    Deviations from the intended statements, each forced by a counterexample or by the model:
    - [GRoot U] (the parent field of genesis does not name another block) is an extra
      hypothesis of the theorems about the instant-sync path ([C11_safety],
      [C11_prevalidated_sound], [C11_step_safe], [C11_honest_progress_after_garbage]): [WF]
      leaves that field free, and [C11_groot_needed] exhibits a universe with a genesis labelled
      valid that "hangs" on a block above the require height, in which a peer walks an instant
      round down to genesis (no commitment is bound at height 0) and gets an invalid block
      adopted even with the repair;
    - [WFW U] (every block is sufficiently heavier than its parent, Net/Converge.v) is an extra
      hypothesis of [C11_honest_progress]: the tip may move to the end of an earlier request
      of the round, and the end of the round must then still be sufficiently heavier;
    - the witness of [C11_unbound_checkpoint_refuted] is additionally shown to satisfy
      [GRoot], [0 < bpr P], [0 < reqh P], i.e. every hypothesis of [C11_prevalidated_sound]. *)
From Coq Require Import NArith ZArith List.
From stdpp Require Import gmap.
From CV Require Import Chain.Manager Chain.ManagerProofs Net.MgrLive Net.MgrLiveProofs
  Net.Converge Net.Sync Net.SyncProofs.
Import ListNotations.
Open Scope N_scope.

(** 1. Safety, whatever the peers send: the node keeps the C01 invariant and is never pruned,
    every non-genesis block of its best chain is fully valid, the tip's total work never
    decreases and the tip moves only to a sufficiently heavier block.  (Instantiating [n0] with
    any reachable state gives per-message monotonicity; see also [C11_step_safe].) *)
Theorem C11_safety :
  ∀ U X P subnets n0 msgs,
    WF U → WFX U X P → GRoot U → 0 < bpr P → 0 < reqh P → NInv U n0 →
    Forall (uniform U P) msgs →
    let n := (run U X P true subnets n0 msgs).1 in
    NInv U n ∧
    (∀ b B, b ∈ best (n_mgr n) → b ≠ genesis → U !! b = Some B →
       hdr_ok B = true ∧ body_ok B = true) ∧
    (twof U (tip (n_mgr n0)) ≤ twof U (tip (n_mgr n)))%Z ∧
    (tip (n_mgr n) ≠ tip (n_mgr n0) → heavier U (tip (n_mgr n)) (tip (n_mgr n0)) = true).
Proof. exact safety. Qed.
Print Assumptions C11_safety.

(** the single-step version *)
Theorem C11_step_safe :
  ∀ U X P subnets n mg,
    WF U → WFX U X P → GRoot U → 0 < bpr P → 0 < reqh P → NInv U n → uniform U P mg →
    let n' := (step U X P true subnets n mg).1 in
    NInv U n' ∧
    (twof U (tip (n_mgr n)) ≤ twof U (tip (n_mgr n')))%Z ∧
    (tip (n_mgr n') ≠ tip (n_mgr n) → heavier U (tip (n_mgr n')) (tip (n_mgr n)) = true) ∧
    (∀ l out, Submit true l out ∈ (step U X P true subnets n mg).2 → validated_pre U l).
Proof. exact step_safe_thm. Qed.
Print Assumptions C11_step_safe.

(** 2. The instant-sync path establishes exactly the documented precondition of
    AddValidatedV2Blocks: every batch handed to it is a parent-linked chain of fully valid
    blocks. *)
Theorem C11_prevalidated_sound :
  ∀ U X P subnets n0 msgs,
    WF U → WFX U X P → GRoot U → 0 < bpr P → 0 < reqh P → NInv U n0 →
    Forall (uniform U P) msgs →
    ∀ l out, Submit true l out ∈ (run U X P true subnets n0 msgs).2 → validated_pre U l.
Proof. exact prevalidated_sound. Qed.
Print Assumptions C11_prevalidated_sound.

(** 2'. Without repair C11-1 ([fixcp = false]: SendCheckpoint does not run ValidateOrphan on the
    checkpoint block) this fails: a checkpoint with a tampered miner payout passes, the blocks
    mined on the bogus state pass ValidateBlock against it, AddValidatedV2Blocks is called
    outside its precondition and a body-invalid block is adopted. *)
Theorem C11_unbound_checkpoint_refuted :
  ∃ U X P subnets n0 msgs,
    WF U ∧ WFX U X P ∧ GRoot U ∧ 0 < bpr P ∧ 0 < reqh P ∧ NInv U n0 ∧
    Forall (uniform U P) msgs ∧
    let r := run U X P false subnets n0 msgs in
    (∃ l, Submit true l Ok ∈ r.2 ∧ ¬ validated_pre U l) ∧
    (∃ b B, b ∈ best (n_mgr r.1) ∧ U !! b = Some B ∧ body_ok B = false).
Proof. exact unbound_checkpoint_refuted. Qed.
Print Assumptions C11_unbound_checkpoint_refuted.

(** Why [GRoot]: with the repair, but in a universe whose genesis is labelled valid and names a
    block above the require height as its parent, the same two failures occur. *)
Theorem C11_groot_needed :
  ∃ U X P subnets n0 msgs,
    WF U ∧ WFX U X P ∧ ¬ GRoot U ∧ 0 < bpr P ∧ 0 < reqh P ∧ NInv U n0 ∧
    Forall (uniform U P) msgs ∧
    let r := run U X P true subnets n0 msgs in
    (∃ l, Submit true l Ok ∈ r.2 ∧ ¬ validated_pre U l) ∧
    (∃ b B, b ∈ best (n_mgr r.1) ∧ U !! b = Some B ∧ body_ok B = false).
Proof. exact groot_needed. Qed.
Print Assumptions C11_groot_needed.

(** 3a. A [Ban] names the sender of the current message, and only for a message the node itself
    judged invalid ([judged_invalid]: insufficient work of a relayed header / outline, missing
    transactions still missing after the peer's answer, an outline the manager rejected, an
    empty transaction set, a sync round one of whose requests ended in [RBan]). *)
Theorem C11_ban_sound :
  ∀ U X P subnets n mg q,
    Ban q ∈ (step U X P true subnets n mg).2 →
    q = sender mg ∧ judged_invalid U X P subnets n mg.
Proof. exact ban_sound_fixed. Qed.
Print Assumptions C11_ban_sound.

(** ... and a request ends in [RBan] only because a block failed the node's own ValidateBlock or
    because the manager rejected the submission. *)
Theorem C11_rban_cause :
  ∀ U X P fixcp m base bh hj r m' acts,
    do_request U X P fixcp m base bh hj r = (m', RBan, acts) →
    (∃ cp st j bs, r = CInstant cp st j bs ∧ vblocks U (derive U X st cp) j bs = false) ∨
    (∃ v l o, Submit v l o ∈ acts ∧ o ≠ Ok).
Proof. exact rban_cause_thm. Qed.
Print Assumptions C11_rban_cause.

(** 3b. A peer that only sends data of valid chains ([honest_msg]) is never banned. *)
Theorem C11_honest_never_banned :
  ∀ U X P subnets n mg q,
    WF U → WFX U X P → 0 < bpr P → 0 < reqh P → NInv U n →
    honest_msg U X P (n_mgr n) mg → Ban q ∉ (step U X P true subnets n mg).2.
Proof. exact honest_never_banned_thm. Qed.
Print Assumptions C11_honest_never_banned.

(** 3c. Each listed misbehaviour, when it reaches its handler, produces a [Ban]. *)
Theorem C11_ban_listed :
  ∀ U X P subnets n mg, listed U X P n mg → Ban (sender mg) ∈ (step U X P true subnets n mg).2.
Proof. exact ban_listed_thm. Qed.
Print Assumptions C11_ban_listed.

(** ... where a request reaches [RBan] as soon as a block of an accepted checkpoint answer fails
    ValidateBlock, or the manager rejects blocks that match the validated headers. *)
Theorem C11_rban_reached_instant :
  ∀ U X P fixcp m base bh hj cp st j bs,
    reqh P ≤ bh → checkpoint_ok U X fixcp base cp st j = true →
    length bs = length hj → hid (xget X (List.last bs 0)) = List.last hj 0 →
    vblocks U (derive U X st cp) j bs = false →
    do_request U X P fixcp m base bh hj (CInstant cp st j bs) = (m, RBan, []).
Proof. exact rban_reached_instant_thm. Qed.
Print Assumptions C11_rban_reached_instant.

Theorem C11_rban_reached_blocks :
  ∀ U X P fixcp m base bh hj bs,
    bh < reqh P → eqb_ids (map (λ t, hid (xget X t)) bs) hj = true →
    (add_terms U X m bs).1.2 ≠ Ok →
    ∃ o, o ≠ Ok ∧
      do_request U X P fixcp m base bh hj (CBlocks bs) =
        ((add_terms U X m bs).1.1, RBan, [Submit false bs o]).
Proof. exact rban_reached_blocks_thm. Qed.
Print Assumptions C11_rban_reached_blocks.

(** 4. Progress: one sync round in which an honest peer answers every request and offers a
    chain whose end is sufficiently heavier than our tip moves our tip to that end. *)
Theorem C11_honest_progress :
  ∀ U X P subnets n p a hs rem0 rs,
    WF U → WFX U X P → WFW U → 0 < bpr P → 0 < reqh P → NInv U n →
    unsynced n p = true → hs ≠ [] →
    honest_msg U X P (n_mgr n) (MSync p a hs rem0 rs) → (∀ r, r ∈ rs → r ≠ CFail) →
    length rs = length (chunks P hs) →
    (bool_decide (a ∈ history (n_mgr n)) && has_state (n_mgr n) a) = true →
    heavier U (List.last hs a) (tip (n_mgr n)) = true →
    tip (n_mgr (step U X P true subnets n (MSync p a hs rem0 rs)).1) = List.last hs a ∧
    NInv U (step U X P true subnets n (MSync p a hs rem0 rs)).1.
Proof. exact honest_progress_thm. Qed.
Print Assumptions C11_honest_progress.

(** ... regardless of what other peers sent before. *)
Theorem C11_honest_progress_after_garbage :
  ∀ U X P subnets n0 msgs p a hs rem0 rs,
    WF U → WFX U X P → GRoot U → WFW U → 0 < bpr P → 0 < reqh P →
    NInv U n0 → Forall (uniform U P) msgs →
    let n := (run U X P true subnets n0 msgs).1 in
    unsynced n p = true → hs ≠ [] →
    honest_msg U X P (n_mgr n) (MSync p a hs rem0 rs) → (∀ r, r ∈ rs → r ≠ CFail) →
    length rs = length (chunks P hs) →
    (bool_decide (a ∈ history (n_mgr n)) && has_state (n_mgr n) a) = true →
    heavier U (List.last hs a) (tip (n_mgr n)) = true →
    tip (n_mgr (step U X P true subnets n (MSync p a hs rem0 rs)).1) = List.last hs a ∧
    NInv U (step U X P true subnets n (MSync p a hs rem0 rs)).1.
Proof. exact honest_progress_after_garbage. Qed.
Print Assumptions C11_honest_progress_after_garbage.

(** Non-vacuity: the hypotheses of [C11_honest_progress] (hence of [C11_honest_never_banned]) are
    met by a concrete node and a concrete multi-request round in both paths (all requests
    below / all at or above the require height), and [listed] holds of a concrete relayed
    header, relayed outline and sync round in both paths. *)
Theorem C11_nonvacuous :
  (∃ U X P n p a hs rem0 rs,
     WF U ∧ WFX U X P ∧ GRoot U ∧ WFW U ∧ 0 < bpr P ∧ 0 < reqh P ∧ NInv U n ∧
     unsynced n p = true ∧ hs ≠ [] ∧
     honest_msg U X P (n_mgr n) (MSync p a hs rem0 rs) ∧ (∀ r, r ∈ rs → r ≠ CFail) ∧
     length rs = length (chunks P hs) ∧
     (bool_decide (a ∈ history (n_mgr n)) && has_state (n_mgr n) a) = true ∧
     heavier U (List.last hs a) (tip (n_mgr n)) = true ∧
     hgt U a + N.of_nat (length hs) ≤ reqh P ∧ (1 < length rs)%nat) ∧
  (∃ U X P n p a hs rem0 rs,
     WF U ∧ WFX U X P ∧ GRoot U ∧ WFW U ∧ 0 < bpr P ∧ 0 < reqh P ∧ NInv U n ∧
     unsynced n p = true ∧ hs ≠ [] ∧
     honest_msg U X P (n_mgr n) (MSync p a hs rem0 rs) ∧ (∀ r, r ∈ rs → r ≠ CFail) ∧
     length rs = length (chunks P hs) ∧
     (bool_decide (a ∈ history (n_mgr n)) && has_state (n_mgr n) a) = true ∧
     heavier U (List.last hs a) (tip (n_mgr n)) = true ∧
     reqh P ≤ hgt U a ∧ (1 < length rs)%nat) ∧
  (∃ U X P n p h, WF U ∧ WFX U X P ∧ NInv U n ∧ listed U X P n (MHeader p h)) ∧
  (∃ U X P n p b c, WF U ∧ WFX U X P ∧ NInv U n ∧ listed U X P n (MOutline p b c)) ∧
  (∃ U X P n p a hs rem0 rs, WF U ∧ WFX U X P ∧ NInv U n ∧
     hgt U a + N.of_nat (length hs) ≤ reqh P ∧ listed U X P n (MSync p a hs rem0 rs)) ∧
  (∃ U X P n p a hs rem0 rs, WF U ∧ WFX U X P ∧ NInv U n ∧
     reqh P ≤ hgt U a ∧ listed U X P n (MSync p a hs rem0 rs)).
Proof. exact nonvacuous. Qed.
Print Assumptions C11_nonvacuous.

(** 5. The batch-acceptance rule of workFn (parallel_sync.go:66-70, 84-95): a request that is
    accepted handed the manager exactly the blocks of the header chunk it was asked for: the
    submitted terms carry the chunk's ids, and on the instant path (validated, hence canonical,
    terms) they are the chunk itself.  Needed: [WFX]; the chunk passed SendHeaders' checks; on the
    instant path the base is a fully valid block at or above the require height (maintained
    along every uniform round, see [do_requests_safe]).  [WF], [GRoot], [0 < reqh P] are not
    needed. *)
Theorem C11_accepted_batch_is_header_chunk :
  ∀ U X P m base bh hj r m' acts,
    WFX U X P →
    headers_ok U X base hj = true →
    (reqh P ≤ bh → ∃ B, U !! base = Some B ∧ hdr_ok B = true ∧ body_ok B = true ∧
                        reqh P ≤ height B) →
    do_request U X P true m base bh hj r = (m', RNext, acts) →
    ∃ v bs, acts = [Submit v bs Ok] ∧ map (λ t, hid (xget X t)) bs = hj ∧ (v = true → bs = hj).
Proof. exact accepted_batch_is_header_chunk. Qed.
Print Assumptions C11_accepted_batch_is_header_chunk.

(** its hypotheses are met by an accepted two-block request in both paths *)
Theorem C11_accepted_batch_nonvacuous :
  (∃ U X P m base bh hj r m' acts,
     WFX U X P ∧ headers_ok U X base hj = true ∧
     (reqh P ≤ bh → ∃ B, U !! base = Some B ∧ hdr_ok B = true ∧ body_ok B = true ∧
                         reqh P ≤ height B) ∧
     reqh P ≤ bh ∧ (1 < length hj)%nat ∧
     do_request U X P true m base bh hj r = (m', RNext, acts)) ∧
  (∃ U X P m base bh hj r m' acts,
     WFX U X P ∧ headers_ok U X base hj = true ∧
     (reqh P ≤ bh → ∃ B, U !! base = Some B ∧ hdr_ok B = true ∧ body_ok B = true ∧
                         reqh P ≤ height B) ∧
     bh < reqh P ∧ (1 < length hj)%nat ∧
     do_request U X P true m base bh hj r = (m', RNext, acts)).
Proof. exact accepted_batch_nonvacuous. Qed.
Print Assumptions C11_accepted_batch_nonvacuous.

(** 5'. With the last-id comparison (parallel_sync.go:68) replaced by "the first block attaches
    to the base" ([do_request_attach], Net/SyncProofs.v) this fails: a valid sibling chain of the
    right length is accepted for a header chunk it does not equal; the real rule refuses the
    same answer. *)
Theorem C11_attach_only_rule_refuted :
  ∃ U X P m base bh hj r m' bs,
    WF U ∧ WFX U X P ∧ GRoot U ∧ 0 < reqh P ∧ MInv U m ∧ all_body m ∧
    headers_ok U X base hj = true ∧
    (∃ B, U !! base = Some B ∧ hdr_ok B = true ∧ body_ok B = true ∧ reqh P ≤ height B) ∧
    reqh P ≤ bh ∧
    do_request_attach U X P true m base bh hj r = (m', RNext, [Submit true bs Ok]) ∧
    validated_pre U bs ∧
    map (λ t, hid (xget X t)) bs ≠ hj ∧
    do_request U X P true m base bh hj r = (m, RFail, []).
Proof. exact attach_only_rule_refuted. Qed.
Print Assumptions C11_attach_only_rule_refuted.

(** 6. "Known" does not mean "validated": the instant path runs ValidateBlock on every block of
    the answer whatever the store already holds for its id (no hypothesis on [m]): an accepted
    request passed the checkpoint checks and [vblocks] in full.  With [instant_base] (for a valid
    v2 base the derived state is the true state after the base) every block handed to
    AddValidatedV2Blocks is therefore fully valid independently of [known m]. *)
Theorem C11_instant_validates_known_blocks :
  ∀ U X P fixcp m base bh hj cp st j bs m' acts,
    do_request U X P fixcp m base bh hj (CInstant cp st j bs) = (m', RNext, acts) →
    reqh P ≤ bh ∧ checkpoint_ok U X fixcp base cp st j = true ∧
    vblocks U (derive U X st cp) j bs = true ∧ acts = [Submit true bs Ok].
Proof. exact instant_validates_known_blocks. Qed.
Print Assumptions C11_instant_validates_known_blocks.

(** The two-peer history (universe, labels, node and messages: module [Preseed] of
    Net/SyncProofs.v): peer 7 relays the outline of the header-valid, body-invalid block 2 on our
    tip 1 (AddBlocks stores it with a header-derived state, applyTip rejects it: Err, ban); peer
    8 then serves 2-3-4-5 through the checkpoint path with an honest checkpoint.  The tip does
    not move, both peers are banned, block 2 stays known (state, no supplement), and nothing
    reaches AddValidatedV2Blocks. *)
Theorem C11_preseeded_invalid_block_example :
  WF Preseed.U ∧ WFX Preseed.U Preseed.X Preseed.P ∧ GRoot Preseed.U ∧
  NInv Preseed.U Preseed.n0 ∧ Forall (uniform Preseed.U Preseed.P) Preseed.msgs ∧
  let r := run Preseed.U Preseed.X Preseed.P true Preseed.subnets Preseed.n0 Preseed.msgs in
  r.2 = [Synced 7; Submit false [2] Err; Ban 7; Ban 8] ∧
  best (n_mgr r.1) = [1; 0] ∧
  Ban 7 ∈ r.2 ∧ Ban 8 ∈ r.2 ∧
  has_state (n_mgr r.1) 2 = true ∧ has_supp (n_mgr r.1) 2 = false ∧
  (∀ l o, Submit true l o ∉ r.2).
Proof. exact preseeded_invalid_block_example. Qed.
Print Assumptions C11_preseeded_invalid_block_example.

(** 6'. With ValidateBlock skipped for ids that already have a state ([run_skip] /
    [vblocks_skip], Net/SyncProofs.v: [step] with that one change in the sync round) the same
    history, peer 8 serving the pre-seeded block 2, hands it to AddValidatedV2Blocks outside
    the precondition and it is adopted; the real rule keeps the tip. *)
Theorem C11_skip_known_rule_refuted :
  ∃ U X P subnets n0 msgs,
    WF U ∧ WFX U X P ∧ GRoot U ∧ 0 < bpr P ∧ 0 < reqh P ∧ NInv U n0 ∧
    Forall (uniform U P) msgs ∧
    best (n_mgr (run U X P true subnets n0 msgs).1) = [1; 0] ∧
    let r := run_skip U X P subnets n0 msgs in
    best (n_mgr r.1) = [2; 1; 0] ∧
    (∃ l, Submit true l Ok ∈ r.2 ∧ ¬ validated_pre U l) ∧
    (∃ b B, b ∈ best (n_mgr r.1) ∧ U !! b = Some B ∧ body_ok B = false).
Proof. exact skip_known_rule_refuted. Qed.
Print Assumptions C11_skip_known_rule_refuted.
