(** * Props/C03.v — Every durable commit point reopens to a consistent chain and catches up.
    Only the property theorems; each is closed by [exact] and followed by Print Assumptions.

    The store part is about the crash model [Chain/Crash.v]: the database session is the
    two-map specification of KV/Model.v (C17: Flush commits the whole pending window), a block
    step is the list of writes applyTip/ApplyBlock resp. revertTip/RevertBlock issue, in
    order, followed by the shouldFlush test; whether the size/time threshold fires after a
    step is an input bit, so the theorems hold for every flush schedule.  The harness
    validates the model's committed images against the images a real database committed.

    The catch-up part is about the manager model [Chain/Manager.v] (validated against the
    real manager from genesis by C01 and from reopened images by C03's harness). *)
From Coq Require Import NArith ZArith List.
Import ListNotations.
From stdpp Require Import gmap.
From CV Require KV.Model.
From CV Require Import Chain.Store.
From CV Require Import Chain.StoreProofs.
From CV Require Import Chain.Crash.
From CV Require Import Chain.CrashProofs.
From CV Require Import Chain.Manager.
From CV Require Import Chain.ManagerProofs.
From CV Require Import Net.MgrLive.
From CV Require Import Chain.Reopen.
From CV Require Import Chain.ReopenProofs.
Open Scope N_scope.

(** Every image the database ever commits is the session view after a whole number of
    manager events (block steps and end-of-reorg flushes): state, body + supplement, best
    index, height and elements of one block always fall into one commit window. *)
Theorem C03_commit_only_at_block_boundary :
  ∀ R l imgs, images R l = Some imgs →
    ∀ i, i ∈ imgs → ∃ k, (k ≤ length l)%nat ∧ view_after R empty_img (take k l) = Some i.
Proof. exact commit_only_at_block_boundary. Qed.
Print Assumptions C03_commit_only_at_block_boundary.

(** Hence (by C02) every committed image of an admissible history is, up to the order inside
    expiration lists (exactly, when no reverted block takes a contract out of a shared
    list), the linear store of the chain [c] the node had at that block boundary — a prefix
    of an earlier best chain extended by a prefix of the branch being adopted — and
    reopening it (NewDBStore: tip from Height + MainChain) yields the tip of [c], whose
    state, body and supplement are in the image. *)
Theorem C03_image_consistent :
  ∀ R l imgs, ok_from R [] (steps_of l) → images R l = Some imgs →
    ∀ i, i ∈ imgs →
      ∃ k c sl, (k ≤ length l)%nat ∧
        chain_of (steps_of (take k l)) = Some c ∧ linear R c = Some sl ∧
        sce (i_s i) = sce sl ∧ sfe (i_s i) = sfe sl ∧ fce (i_s i) = fce sl ∧
        mainc (i_s i) = mainc sl ∧ hgt (i_s i) = hgt sl ∧
        (∀ h, exp_get (i_s i) h ≡ₚ exp_get sl h) ∧
        (exact_from R [] (steps_of (take k l)) → i_s i = sl) ∧
        (∀ t, last c = Some t → reopen i = Some (b_id t)).
Proof. exact image_consistent. Qed.
Print Assumptions C03_image_consistent.

(** Catching up: from any state of a node that never pruned ([MInv] and [all_body] — in
    particular the state a committed image reopens to), any sequence of AddBlocks calls
    that contains, as one batch, the whole path [l] (genesis excluded, ascending, every
    block acceptable) to a tip that is sufficiently heavier than every other valid block
    ([separated]) ends on that tip ... *)
Theorem C03_catch_up :
  ∀ U, WF U → ∀ m bs1 l bs2,
    MInv U m → all_body m →
    l ≠ [] → lp U (reverse l) genesis → (∀ x, x ∈ l → okb U x = true) →
    separated U (List.last l genesis) →
    tip (run_adds U m (bs1 ++ l :: bs2)) = List.last l genesis.
Proof. exact catch_up. Qed.
Print Assumptions C03_catch_up.

(** ... so the reopened node [m] and the uninterrupted node [m'] end on the same tip,
    whatever else is (re-)submitted before and after. *)
Theorem C03_catch_up_same_tip :
  ∀ U, WF U → ∀ m m' bs1 l bs2 bs1' bs2',
    MInv U m → all_body m → MInv U m' → all_body m' →
    l ≠ [] → lp U (reverse l) genesis → (∀ x, x ∈ l → okb U x = true) →
    separated U (List.last l genesis) →
    tip (run_adds U m (bs1 ++ l :: bs2)) = tip (run_adds U m' (bs1' ++ l :: bs2')).
Proof. exact catch_up_same. Qed.
Print Assumptions C03_catch_up_same_tip.

(** ** What a committed image reopens to (model: Chain/Reopen.v)

    [boundaries U ops]: the manager states after every successful revertTip / applyTip of
    the run (including those of a reorg that fails half-way and of its rollback) and the
    state NewDBStore leaves — by [C03_commit_only_at_block_boundary] the only moments at which
    the database can commit.  [img_of]: the part of the database the manager is rebuilt from
    (block records, MainChain, Height); [mgr_of]: the manager NewDBStore + NewManager build
    from it (tip from Height + MainChain).

    Every such image reopens to exactly the manager state the node had at that boundary, and
    that state satisfies the invariant of C01 and has all its bodies (the node never pruned):
    the hypotheses of [C03_catch_up] are discharged. *)
Theorem C03_reopened_state_satisfies_MInv :
  ∀ U, WF U → ∀ ops b,
    Forall (op_pre U) ops → no_prune ops → b ∈ boundaries U ops →
    mgr_of (img_of U b) = b ∧ MInv U (mgr_of (img_of U b)) ∧ all_body (mgr_of (img_of U b)).
Proof. exact reopened_state_satisfies_MInv. Qed.
Print Assumptions C03_reopened_state_satisfies_MInv.

(** The crash model's session view and the image of the manager state move together: one
    revertTip / applyTip of the manager is one block step of Chain/Crash.v on the block with
    that id and height ([shows s m]: MainChain and Height of [s] are those of [img_of m]) ... *)
Theorem C03_session_view_tracks_revert :
  ∀ U, WF U → ∀ R s s' m m' blk,
    MInv U m → (1 < length (best m))%nat → shows U s m →
    revert_tip U m = (m', Ok) →
    Store.b_id blk = tip m → Store.b_h blk = bht U (tip m) →
    Store.do_step R s (Store.SRevert blk) = Some s' → shows U s' m'.
Proof. exact view_tracks_revert. Qed.
Print Assumptions C03_session_view_tracks_revert.

Theorem C03_session_view_tracks_apply :
  ∀ U R s s' m m' blk,
    shows U s m → apply_tip U m (Store.b_id blk) = (m', Ok) →
    Store.b_h blk = bht U (Store.b_id blk) →
    Store.do_step R s (Store.SApply blk) = Some s' → shows U s' m'.
Proof. exact view_tracks_apply. Qed.
Print Assumptions C03_session_view_tracks_apply.

(** ... and the crash model's [reopen] is the tip of the reopened manager. *)
Theorem C03_reopen_is_the_managers_tip :
  ∀ U, WF U → ∀ s full m id,
    MInv U m → shows U s m → reopen (Img s full) = Some id → id = tip m.
Proof. exact reopen_is_tip. Qed.
Print Assumptions C03_reopen_is_the_managers_tip.

(** Catch-up without the audited hypothesis: the node reopened from the image of any block
    boundary of any run, and the uninterrupted node, both end on the separated tip. *)
Theorem C03_reopened_node_catches_up :
  ∀ U, WF U → ∀ ops b bs1 l bs2,
    Forall (op_pre U) ops → no_prune ops → b ∈ boundaries U ops →
    l ≠ [] → lp U (reverse l) genesis → (∀ x, x ∈ l → okb U x = true) →
    separated U (List.last l genesis) →
    tip (run_adds U (mgr_of (img_of U b)) (bs1 ++ l :: bs2)) = List.last l genesis ∧
    tip (run_adds U (mrun U ops) (bs1 ++ l :: bs2)) = List.last l genesis.
Proof. exact reopened_node_catches_up. Qed.
Print Assumptions C03_reopened_node_catches_up.

(** Whenever the process stops, what the database holds once it has discarded its uncommitted
    window is the last committed image (the empty database before the first commit): store
    steps reach the database only through the open batch.  The harness checks exactly this at
    "live" crash points on the real database, and that no byte slice the database handed out
    is edited in place. *)
Theorem C03_committed_side_is_the_last_commit :
  ∀ R l d' imgs, run_sevs db_init (compile_all R l) [] = Some (d', imgs) →
    com d' = List.last imgs empty_img.
Proof. exact committed_side_is_last_commit. Qed.
Print Assumptions C03_committed_side_is_the_last_commit.

(** Behind a CacheDB (production: DBStore -> CacheDB -> bolt): one flush of the cache is
    exactly one commit of the backend — all its puts and deletes reach the backend without
    changing the backend's committed image, and a single backend Flush ends it (KV/Model.v
    [cache_flush], backend = the two-map specification).  So the images the backend commits
    are those of the store's flushes, and [C03_commit_only_at_block_boundary] applies to
    them; the harness reopens every image the underlying database of a CacheDB-backed node
    commits. *)
Theorem C03_cache_flush_is_one_backend_commit :
  ∀ c : KV.Model.cache KV.Model.sp_backend,
    ∃ s2, KV.Model.cback (KV.Model.cache_flush KV.Model.sp_backend c)
            = KV.Model.back_apply KV.Model.sp_backend s2 KV.Model.Flush ∧
          KV.Model.com s2 = KV.Model.com (KV.Model.cback c) ∧
          KV.Model.com (KV.Model.cback (KV.Model.cache_flush KV.Model.sp_backend c)) = KV.Model.cur s2.
Proof. exact cache_flush_one_commit. Qed.
Print Assumptions C03_cache_flush_is_one_backend_commit.
