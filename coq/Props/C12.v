(** * Props/C12.v — Honest nodes pulling from each other converge on one tip when one tip is
      sufficiently heavier, and stabilise otherwise.
    Only the property theorems; each is closed by [exact] and followed by Print Assumptions.
    All statements are about the pull model [Net/Converge.v] (one pull = the syncer's history /
    SendHeaders / SendV2Blocks exchange against the peer's chain.Manager read side, submitted
    through AddBlocks or AddValidatedV2Blocks of the manager model [Chain/Manager.v]); they
    quantify over every well-formed universe [U] ([WF], and [WFW]: a block is sufficiently
    heavier than its parent), every syncer configuration [P] with a positive request size,
    every topology [E] (a list of undirected edges between node indices) and every
    interleaving of pulls.  [good_cfg] / [sep_cfg] are defined in Net/ConvergeProofs.v. *)
From Coq Require Import NArith ZArith List.
From stdpp Require Import gmap.
From CV Require Import Chain.Manager Chain.ManagerProofs Net.MgrLive Net.Converge Net.ConvergeProofs.
Import ListNotations.
Open Scope N_scope.

(** The attach point the syncer finds (the first id of its history sample that the peer's
    Headers answers for) exists whenever the puller's chain is at most 7 + 2^23 blocks high,
    is on both best chains, every id tried before it is on the puller's chain and not on the
    peer's; the peer's Headers and BlocksForHistory answer with exactly the blocks of its best
    chain above the attach point, oldest first, cut at [max], with the right remainder.  With
    a history that has nothing in common BlocksForHistory answers from genesis. *)
Theorem C12_attach_point_is_common_ancestor :
  ∀ U mi mj, WF U → MInv U mi → MInv U mj →
    (tip_height mi ≤ 7 + 2 ^ 23 → is_Some (find_attach (history mi) mj)) ∧
    (∀ a, find_attach (history mi) mj = Some a →
       a ∈ best mi ∧ a ∈ best mj ∧
       (∀ x, x ∈ tried_before (history mi) mj → x ∈ best mi ∧ x ∉ best mj) ∧
       ∃ l rest, above mj a = Some l ∧ best mj = reverse l ++ a :: rest ∧
         ∀ max, headers mj a max = Some (take_n max l, N.of_nat (length l - length (take_n max l))) ∧
                blocks_for_history mj [a] max = (take_n max l, N.of_nat (length l - length (take_n max l)))) ∧
    (∀ hist max, (∀ id, id ∈ hist → (has_state mj id && on_best mj id) = false) →
       ∃ l, best mj = reverse l ++ [genesis] ∧
            blocks_for_history mj hist max = (take_n max l, N.of_nat (length l - length (take_n max l)))).
Proof. exact attach_point_is_common_ancestor. Qed.
Print Assumptions C12_attach_point_is_common_ancestor.

(** Convergence under separation: if node [k0] is on [H], every other node is on [H] or on a
    tip that [H] is sufficiently heavier than, and every node is within [length rounds] hops
    of [k0], then after that many fair rounds (every node pulls at least once from every
    neighbour, in any order, interleaved with any other pulls) every node is on [H]; and the
    separation holds in every intermediate configuration.

    CORRECTION with respect to the seeded statement: the hypothesis
      [∀ e, e ∈ E → e.1 < length cfg ∧ e.2 < length cfg]
    (every edge joins two nodes of the configuration) is added.  Without it the statement is
    false: [within] may route through an index that holds no node, along which nothing is
    ever pulled (Net/ConvergeProofs.v, [convergence_needs_edges_in_range], is the machine-
    checked counterexample: E = [(0,5);(5,1)] over two nodes). *)
Theorem C12_convergence_under_separation :
  ∀ U P E cfg H k0 rounds,
    WF U → WFW U → 0 < bpr P →
    sep_cfg U P H cfg → (∃ m, cfg !! k0 = Some m ∧ tip m = H) →
    (∀ e, e ∈ E → (e.1 < length cfg)%nat ∧ (e.2 < length cfg)%nat) →
    (∀ i, (i < length cfg)%nat → within E k0 (length rounds) i) →
    (∀ s, s ∈ rounds → fair E s) →
    (∀ m, m ∈ run_sched U P cfg (concat rounds) → tip m = H) ∧
    (∀ pre suf, concat rounds = pre ++ suf → sep_cfg U P H (run_sched U P cfg pre)).
Proof. exact convergence_under_separation. Qed.
Print Assumptions C12_convergence_under_separation.

(** Without separation: from every good configuration some schedule of pulls along edges
    reaches a good configuration in which no node's tip is sufficiently heavier than a
    neighbour's, and from then on no pull along an edge moves any tip. *)
Theorem C12_stable_otherwise :
  ∀ U P E cfg, WF U → WFW U → 0 < bpr P → good_cfg U P cfg →
    ∃ sched, (∀ e, e ∈ sched → adjacent E e.1 e.2) ∧
      good_cfg U P (run_sched U P cfg sched) ∧
      quiescent U E (run_sched U P cfg sched) ∧
      ∀ more, (∀ e, e ∈ more → adjacent E e.1 e.2) →
        tips (run_sched U P (run_sched U P cfg sched) more) = tips (run_sched U P cfg sched).
Proof. exact stable_otherwise. Qed.
Print Assumptions C12_stable_otherwise.

(** The literal statement ("honest connected nodes always converge to one tip") is false:
    two connected nodes holding sibling blocks of equal work keep their tips under every
    schedule (the 20 % rule of SufficientlyHeavierThan; finding F11). *)
Theorem C12_literal_statement_refuted :
  ∃ U P E cfg, WF U ∧ WFW U ∧ 0 < bpr P ∧ good_cfg U P cfg ∧ E = [(0%nat, 1%nat)] ∧
    (∃ t1 t2, tips cfg = [t1; t2] ∧ t1 ≠ t2) ∧
    ∀ sched, tips (run_sched U P cfg sched) = tips cfg.
Proof. exact literal_statement_refuted. Qed.
Print Assumptions C12_literal_statement_refuted.

(** The manager-level fact behind the syncer's checkpoint path: a pre-validated batch whose
    prefix [pre] is already on our best chain is not abandoned at that prefix.
    AddValidatedV2Blocks skips the blocks it already has on the best chain, stores the rest
    [suf], and — its last block being sufficiently heavier than our tip — adopts it: the call
    returns Ok, notifies, the new tip is the last block of the batch and every block of [suf]
    is on the new best chain. *)
Theorem C12_known_prefix_batch_adopted :
  ∀ U m c pre suf,
    WF U → MInv U m → all_body m →
    c ∈ best m → (∀ x, x ∈ pre → x ∈ best m) →
    suf ≠ [] → lp U (reverse (pre ++ suf)) c →
    (∀ x, x ∈ pre ++ suf → okb U x = true) →
    heavier U (List.last suf c) (tip m) = true →
    ∃ m', add_validated U m (pre ++ suf) = (m', Ok, true) ∧ tip m' = List.last suf c ∧
          MInv U m' ∧ all_body m' ∧ (∀ x, x ∈ suf → x ∈ best m').
Proof. exact known_prefix_batch_adopted. Qed.
Print Assumptions C12_known_prefix_batch_adopted.

(** The contrast: a variant of the entry point whose store loop *returns* (reporting
    success) at the first block that is already on the best chain ([add_validated_stop],
    Net/ConvergeProofs.v) loses such a batch.  Witness: trunk 1-2-3, our block 4 on 3, the
    peer's heavier fork 5-6 on 3, batch [2;3] ++ [5;6] hanging on 1: every hypothesis of the
    previous theorem holds, the real entry point moves the tip to 6, the variant answers
    (Ok, no notification) and stays on [4;3;2;1;0]. *)
Theorem C12_stop_at_known_block_refuted :
  ∃ U m c pre suf,
    WF U ∧ MInv U m ∧ all_body m ∧
    c ∈ best m ∧ (∀ x, x ∈ pre → x ∈ best m) ∧
    suf ≠ [] ∧ lp U (reverse (pre ++ suf)) c ∧
    (∀ x, x ∈ pre ++ suf → okb U x = true) ∧
    heavier U (List.last suf c) (tip m) = true ∧
    (∃ m', add_validated U m (pre ++ suf) = (m', Ok, true) ∧ tip m' = List.last suf c) ∧
    (∃ m', add_validated_stop U m (pre ++ suf) = (m', Ok, false) ∧
           best m' = best m ∧ tip m' ≠ List.last suf c).
Proof. exact stop_at_known_block_refuted. Qed.
Print Assumptions C12_stop_at_known_block_refuted.
