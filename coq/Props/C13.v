(** * Props/C13.v — Rebasing a v2 transaction set yields proofs valid at the target index.
    Only the property theorems; each is closed by [exact] and followed by Print Assumptions.
    All statements are about the model of updateV2TransactionProofs / reorgPath /
    V2TransactionSet in [Chain/Rebase.v] (the repaired code) that the harness validates
    against the real chain.Manager.  [U] is any block universe (what the store knows about
    each block id: header, state, body with supplement; the v2 transactions it confirms; the
    elements it creates with their leaf indices; its leaf count); [sane U]: created leaf
    indices are not the ephemeral sentinel.  That the caller's input is not modified where
    the API promises so (AddV2PoolTransactions, V2TransactionSet) is a fact about Go memory
    and is checked by the harness monitors only: partial. *)
From Coq Require Import NArith List.
From stdpp Require Import gmap.
From CV Require Import Chain.Pool Chain.PoolProofs Chain.Rebase Chain.RebaseProofs.
Import ListNotations.
Open Scope N_scope.

(** A successful rebase: the basis is known, every proof verified against it, the path
    [rev]/[app] between the two indices was found and has at most [md] blocks ([md]: the supported
    distance, a parameter; the repository's default [max_rebase] is 144; [S md] only through
    the unreachable "from genesis" branch), every block on it has its body and supplement, and
    every non-ephemeral element is a leaf of the accumulator before each reverted block.  The
    result is [spec_apply]: the transactions not confirmed by an applied block, in their
    order, each input unchanged (leaf indices of existing elements never move; the proof is
    moved) except that an ephemeral siacoin/siafund input whose element an applied block
    creates takes that element's leaf ([conv_confirmed_cases]); and every non-ephemeral
    input of the result is a leaf of the target accumulator. *)
Theorem C13_rebase_ok_spec :
  ∀ md U gen txs from to out,
    sane U → update_proofs md U gen txs from to = ROk out →
    ∃ rev app,
      reorg_path U gen md from to = inr (rev, app) ∧
      (length rev + length app ≤ S md)%nat ∧
      (∃ fb, U !! from.2 = Some fb ∧ b_st fb = true) ∧
      Forall (λ t, elements_valid t = true) txs ∧
      (∀ ix, ix ∈ rev → ∃ b pnum, block_and_parent U ix.2 = Some (b, pnum) ∧
                          Forall (λ t, keep_tx pnum t = true) txs) ∧
      (∀ ix, ix ∈ app → ∃ b pnum, block_and_parent U ix.2 = Some (b, pnum)) ∧
      out = spec_apply U app txs ∧
      map a_id out = List.filter (λ id, negb (bool_decide (id ∈ confirmed_on U app))) (map a_id txs) ∧
      (∀ b, (∃ ix, last app = Some ix ∧ U !! ix.2 = Some b) → Forall (λ t, keep_tx (b_num b) t = true) out).
Proof. exact rebase_ok_spec. Qed.
Print Assumptions C13_rebase_ok_spec.

(** what [spec_apply] does to one input *)
Theorem C13_rebase_input_cases :
  ∀ cr i,
    (is_eph i = false → conv_confirmed cr i = i) ∧
    (cr !! i_el i = None → conv_confirmed cr i = i) ∧
    (∀ lf, is_spend i = true → cls (i_el i) < 2 → is_eph i = true → cr !! i_el i = Some lf →
           conv_confirmed cr i = set_leaf i lf true).
Proof. exact conv_confirmed_cases. Qed.
Print Assumptions C13_rebase_input_cases.

(** A transaction rebased on its own: whether its ephemeral inputs are assigned depends only on
    what the applied blocks of the path create, not on whether the creating transaction is part
    of the set (V2TransactionSet passes the caller's transaction alone). *)
Theorem C13_rebase_child_alone :
  ∀ md U gen t from to out,
    sane U → update_proofs md U gen [t] from to = ROk out →
    ∃ rev app, reorg_path U gen md from to = inr (rev, app) ∧
      (a_id t ∈ confirmed_on U app → out = []) ∧
      (a_id t ∉ confirmed_on U app → out = [map_ins (conv_confirmed (created_on U app)) t]).
Proof. exact rebase_child_alone. Qed.
Print Assumptions C13_rebase_child_alone.

(** non-vacuity: the parent is confirmed on the path and is not in the set; the child's input
    takes the created element's leaf, exactly as when the parent is in the set *)
Theorem C13_rebase_child_alone_example :
  update_proofs max_rebase exRU2 (0, 1) [tC] (0, 1) (1, 2) =
    ROk [ATx 3 true [AIn 104 RSpend 3 true 0] [108] 1 10 0 100 false] ∧
  update_proofs max_rebase exRU2 (0, 1) [tB; tC] (0, 1) (1, 2) =
    ROk [ATx 3 true [AIn 104 RSpend 3 true 0] [108] 1 10 0 100 false].
Proof. exact rebase_child_alone_ex. Qed.
Print Assumptions C13_rebase_child_alone_example.

(** Errors: an unknown basis, a proof that does not verify against the basis, and a path that
    cannot be determined (longer than the bound, or through an unknown header) are rejected
    with the corresponding error; a result is only returned for a path within the bound; and
    the function is total: it returns a result or an error, there is no stuck state. *)
Theorem C13_rebase_errors :
  ∀ md U gen txs from to,
    ((U !! from.2 = None ∨ ∃ fb, U !! from.2 = Some fb ∧ b_st fb = false) →
       update_proofs md U gen txs from to = RErr EBasis) ∧
    ((∃ fb, U !! from.2 = Some fb ∧ b_st fb = true) → (∃ t, t ∈ txs ∧ elements_valid t = false) →
       update_proofs md U gen txs from to = RErr EProof) ∧
    (∀ e, (∃ fb, U !! from.2 = Some fb ∧ b_st fb = true) → Forall (λ t, elements_valid t = true) txs →
       reorg_path U gen md from to = inl e → update_proofs md U gen txs from to = RErr e) ∧
    (∀ out, update_proofs md U gen txs from to = ROk out →
       ∃ rev app, reorg_path U gen md from to = inr (rev, app) ∧
                  (length rev + length app ≤ S md)%nat) ∧
    ((∃ l, update_proofs md U gen txs from to = ROk l) ∨ (∃ e, update_proofs md U gen txs from to = RErr e)).
Proof. exact rebase_errors. Qed.
Print Assumptions C13_rebase_errors.

(** The boundary on a line of 160 blocks (cf. the repository's TestReorgPathMaxLen): 144
    blocks forwards or backwards are rebased, 145 are refused, an unknown basis is refused. *)
Theorem C13_rebase_boundary :
  update_proofs max_rebase (lin 160) (0, 1) [] (2, 3) (146, 147) = ROk [] ∧
  update_proofs max_rebase (lin 160) (0, 1) [] (2, 3) (147, 148) = RErr ETooLong ∧
  update_proofs max_rebase (lin 160) (0, 1) [] (146, 147) (2, 3) = ROk [] ∧
  update_proofs max_rebase (lin 160) (0, 1) [] (147, 148) (2, 3) = RErr ETooLong ∧
  update_proofs max_rebase (lin 160) (0, 1) [] (2, 999) (5, 6) = RErr EBasis.
Proof. exact rebase_boundary. Qed.
Print Assumptions C13_rebase_boundary.

(** V2TransactionSet never panics; when it succeeds the basis is the tip and the set is the
    pooled ancestors followed by the caller's transaction rebased to the tip.  The ancestors
    are a sub-sequence of V2PoolTransactions in pool order — which is dependency order by
    C05_reported_pool_prefix_valid, so every parent comes before its children — and are
    closed: the pooled creator (per the output map) of every input of the transaction and of
    every returned parent is itself returned. *)
Theorem C13_set_parents_first_and_basis_is_tip :
  ∀ md U gen L mw tip p basis t,
    v2_transaction_set md U gen L mw tip p basis t ≠ SPanic ∧
    ∀ b l, v2_transaction_set md U gen L mw tip p basis t = SOk b l →
      b = tip ∧
      ∃ parents l',
        l = parents ++ l' ∧ update_proofs md U gen [t] basis tip = ROk l' ∧
        sublist parents (v2_pool_transactions L mw p) ∧
        ∀ u, u ∈ parents ∨ u = t → ∀ i ix, i ∈ a_ins u → is_ref i = false →
          parent_map (v2_pool_transactions L mw p) !! i_el i = Some ix →
          ∃ q, v2_pool_transactions L mw p !! ix = Some q ∧ q ∈ parents.
Proof. exact set_parents_first_and_basis_is_tip. Qed.
Print Assumptions C13_set_parents_first_and_basis_is_tip.

(** Finding F9 in the rebase, kept about the code before the repair: a [parent; child] set
    rebased across one unrelated block was refused ("references element that does not exist");
    the repaired function returns it. *)
Theorem C13_ephemeral_prefix_refuted :
  update_proofs_prefix max_rebase exRU (0, 1) [tB; tC] (0, 1) (1, 2) = RErr EGone ∧
  update_proofs max_rebase exRU (0, 1) [tB; tC] (0, 1) (1, 2) = ROk [tB; tC].
Proof. exact rebase_prefix_refuted. Qed.
Print Assumptions C13_ephemeral_prefix_refuted.

(** Findings F20 and F17, kept about the parent discovery before the repairs: the reversed
    breadth-first order returns a descendant before its ancestor; the shared position map
    indexes the v2 slice with the position of a v1 transaction (panic). *)
Theorem C13_parents_prefix_refuted :
  unconfirmed_parents_prefix (parent_map [tP; tQ]) [tP; tQ] tR = PList [tQ; tP] ∧
  unconfirmed_parents (parent_map [tP; tQ]) [tP; tQ] tR = PList [tP; tQ] ∧
  unconfirmed_parents_prefix (parent_map_prefix [tA; tA] []) []
    (ATx 11 true [AIn 100 RSpend unassigned true 0] [] 1 10 0 100 false) = PPanic.
Proof. exact parents_prefix_refuted. Qed.
Print Assumptions C13_parents_prefix_refuted.
