From Coq Require Import NArith List.
From stdpp Require Import gmap.
From CV Require Import Chain.Pool Chain.PoolProofs Chain.Rebase.
Theorem C13_placeholder : ∀ L mw p, is_Some (ms (revalidate L mw p)).
Proof. exact revalidate_ms. Qed.
Print Assumptions C13_placeholder.
