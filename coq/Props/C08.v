(** * Props/C08.v — Host commits only doubly-signed, monotone, value-conserving revisions.
    Only the property theorems; each is closed by [exact] and followed by Print Assumptions.

    All statements are about [run c h_init qs]: the state of the host model of
    RHP/Host.v after an arbitrary sequence [qs] of requests, each of whose fields
    (including every signature and the renter's second message) is arbitrary.
    [persisted s cid] is the list of revisions of contract [cid] that the server
    handed to the Contractor, newest first; [h_log s] the same for all contracts
    with signatures, height and kind. *)
From stdpp Require Import gmap.
From Coq Require Import ZArith.
From CV Require Import RHP.Host RHP.HostProofs.
Open Scope Z_scope.

(** Every two consecutive persisted revisions of a contract have strictly increasing
    revision numbers. *)
Theorem C08_persisted_monotone :
  ∀ c qs cid i newer older,
    let s := run c h_init qs in
    persisted s cid !! i = Some newer → persisted s cid !! S i = Some older →
    revnum older < revnum newer.
Proof. exact persisted_monotone. Qed.
Print Assumptions C08_persisted_monotone.

(** Every persisted revision carries the renter's and the host's signature over
    exactly that revision (the message of a signature is the whole revision record),
    was persisted before its proof window opened, and what the Contractor holds for a
    contract is the newest persisted revision with those two signatures. *)
Theorem C08_persisted_doubly_signed :
  ∀ c qs,
    let s := run c h_init qs in
    (∀ e, e ∈ h_log s →
       verify (rk (e_rev e)) (MRev (e_rev e)) (e_rsig e) ∧ verify (hostk c) (MRev (e_rev e)) (e_hsig e) ∧
       hk (e_rev e) = hostk c ∧ e_height e < proof_h (e_rev e)) ∧
    (∀ cid ce, h_contracts s !! cid = Some ce →
       verify (rk (ce_rev ce)) (MRev (ce_rev ce)) (ce_rsig ce) ∧ verify (hostk c) (MRev (ce_rev ce)) (ce_hsig ce) ∧
       head (persisted s cid) = Some (ce_rev ce)).
Proof. exact persisted_doubly_signed. Qed.
Print Assumptions C08_persisted_doubly_signed.

(** Between consecutive persisted revisions: keys, heights and total collateral are
    unchanged, the payout sum is constant, the renter payout never increases and the
    host payout never decreases (no value moves from host to renter); also the missed
    host payout does not grow and capacity does not shrink (consensus rules). *)
Theorem C08_invariants :
  ∀ c qs cid i newer older,
    let s := run c h_init qs in
    persisted s cid !! i = Some newer → persisted s cid !! S i = Some older →
    rk newer = rk older ∧ hk newer = hk older ∧ proof_h newer = proof_h older ∧ exp_h newer = exp_h older ∧
    total_collateral newer = total_collateral older ∧
    renter_out newer + host_out newer = renter_out older + host_out older ∧
    renter_out newer ≤ renter_out older ∧ host_out older ≤ host_out newer ∧
    missed_host newer ≤ missed_host older ∧ capacity older ≤ capacity newer.
Proof. exact persisted_invariants. Qed.
Print Assumptions C08_invariants.

(** The same over the whole life of a contract: any two persisted revisions of one
    contract agree on keys, heights, total collateral and the payout sum. *)
Theorem C08_invariants_whole_life :
  ∀ c qs cid i j a b,
    let s := run c h_init qs in
    persisted s cid !! i = Some a → persisted s cid !! j = Some b →
    renter_out a + host_out a = renter_out b + host_out b ∧ rk a = rk b ∧ hk a = hk b ∧
    proof_h a = proof_h b ∧ exp_h a = exp_h b ∧ total_collateral a = total_collateral b.
Proof. exact persisted_sum_constant. Qed.
Print Assumptions C08_invariants_whole_life.

(** An accepted free / append / sector-roots / fund / replenish request lowers the renter
    payout, and raises the host payout, by exactly the amount due: the cost of the
    service under the price table the request presents — which is signed by the host
    and unexpired — or the deposited total; the new revision has the next number and
    both signatures. *)
Theorem C08_amount_due :
  ∀ c qs q cid ce d,
    let s := run c h_init qs in
    rpc_cid (q_rpc q) = Some cid → h_contracts s !! cid = Some ce →
    due s (q_rpc q) (ce_rev ce) = Some d → r_verdict (step c s q).2 = VOk →
    revised c s (step c s q).1 cid d ∧
    (∀ p, rpc_prices (q_rpc q) = Some p → prices_valid c (q_now q) p = true).
Proof. exact amount_due. Qed.
Print Assumptions C08_amount_due.

(** Every persisted revision that is not the first of its contract records what the
    renter paid, and that is the difference of the two renter payouts. *)
Theorem C08_payment_recorded :
  ∀ c qs cid i e1 e2,
    let s := run c h_init qs in
    entries_of (h_log s) cid !! i = Some e1 → entries_of (h_log s) cid !! S i = Some e2 →
    ∃ cost, e_kind e1 = KRevise cost ∧ cost = renter_out (e_rev e2) - renter_out (e_rev e1) ∧ 0 ≤ cost.
Proof. exact persisted_cost_recorded. Qed.
Print Assumptions C08_payment_recorded.

(** A request with a bad challenge signature, a revision signature that is not the
    renter's signature over the recomputed revision (flipped, foreign key, stale /
    equal / huge revision number, different payout split, changed immutable field),
    an expired or foreign price table, an out-of-range parameter, an unknown, expired
    or renewed contract, or a missing second message changes nothing and is not
    answered with success. *)
Theorem C08_rejected_is_noop :
  ∀ c qs q,
    let s := run c h_init qs in
    defect c s q → (step c s q).1 = s ∧ r_verdict (step c s q).2 ≠ VOk.
Proof. exact rejected_is_noop. Qed.
Print Assumptions C08_rejected_is_noop.

(** What the Contractor holds is, while the proof window is closed, a revision that
    consensus accepts on top of every earlier persisted revision of that contract — in
    particular of the formation (or renewal) contract that is on chain.  The rule is
    core's validateRevision (law L5, checked by the harness with
    consensus.ValidateV2Transaction); contracts are below 2^64 bytes. *)
Theorem C08_latest_acceptable :
  ∀ c qs cid ce i older ch,
    let s := run c h_init qs in
    h_contracts s !! cid = Some ce → persisted s cid !! S i = Some older →
    capacity (ce_rev ce) < u64 → ch ≤ proof_h (ce_rev ce) →
    consensus_revision_ok ch older (ce_rev ce) (ce_rsig ce) (ce_hsig ce).
Proof. exact latest_acceptable. Qed.
Print Assumptions C08_latest_acceptable.

(** A persisted renewal or refresh: the new contract starts at revision 0 under the
    same keys, the renewal object is signed by both parties, and each party's payout of
    the old contract is split exactly into its final output and its rollover. *)
Theorem C08_renewal_conserves :
  ∀ c qs e from r rsig hsig,
    let s := run c h_init qs in
    e ∈ h_log s → e_kind e = KRenew from r rsig hsig →
    ∃ old, old ∈ persisted s from ∧ e_cid e = renewal_id from ∧ new_contract r = e_rev e ∧
      revnum (e_rev e) = 0 ∧ rk (e_rev e) = rk old ∧ hk (e_rev e) = hk old ∧
      final_renter r + renter_rollover r = renter_out old ∧ final_host r + host_rollover r = host_out old ∧
      0 ≤ final_renter r ∧ 0 ≤ renter_rollover r ∧ 0 ≤ final_host r ∧ 0 ≤ host_rollover r ∧
      verify (rk old) (MRenewal r) rsig ∧ verify (hostk c) (MRenewal r) hsig.
Proof. exact renewal_conserves. Qed.
Print Assumptions C08_renewal_conserves.

(** The renter never owns the host key: if the only signatures under the host's key
    over price tables that a request presents are ones handleRPCSettings issued, an
    accepted priced request was priced under an issued table. *)
Theorem C08_priced_under_issued_table :
  ∀ c qs q p,
    let s := run c h_init qs in
    rpc_prices (q_rpc q) = Some p →
    (∀ pb, p_sig p = Sig (hostk c) (MPrices pb) → pb ∈ h_issued s) →
    r_verdict (step c s q).2 = VOk → p_body p ∈ h_issued s.
Proof. exact priced_under_issued_table. Qed.
Print Assumptions C08_priced_under_issued_table.
