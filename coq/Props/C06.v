(** * Props/C06.v — Wallet ledger equals the chain's truth for its address across reorgs.
    Only the property theorems.  All statements are about [Wallet/Ledger.v]
    (applyChainUpdate / revertChainUpdate / appliedEvents of wallet/update.go with the two
    event fixes, events.go's inflow/outflow, and the reference store testutil/wallet.go),
    which the harness validates against the real SingleAddressWallet.

    The update stream is a [Walk B sh steps sh']: a revert undoes the block the wallet
    stands on, an apply puts a block on top — exactly what C04 proves of every chunk
    UpdatesSince hands out ([walk_chunk]: a contiguous chunk is a walk; walks compose) — and
    every chain the wallet stands on is ledger-valid ([GoodC]: what consensus guarantees of
    a chain: ids unique, spent outputs created earlier with that value and maturity). *)
From Coq Require Import NArith ZArith List.
From stdpp Require Import gmap.
From CV Require Import Wallet.Ledger Wallet.LedgerProofs.
Import ListNotations.
Open Scope N_scope.

(** After folding the stream from nothing to the chain [l] (the best chain, C04), through
    any history of reorgs, the stored outputs are exactly the outputs paying the address
    created and not spent along [l], each with the value and maturity height of its creation. *)
Theorem C06_utxos_are_linear :
  ∀ B steps l, Walk B [] steps l → ∀ o v m,
    utxos (wfold B ws0 steps) !! o = Some (v, m) ↔
    (o, v, m) ∈ created_along B l ∧ o ∉ ids (spent_along B l).
Proof. exact utxos_are_linear. Qed.
Print Assumptions C06_utxos_are_linear.

(** The event list is the concatenation of the relevant events of the chain's blocks, from
    genesis up; every stored event belongs to a block of [l]: nothing is left over from
    reverted blocks. *)
Theorem C06_events_are_linear :
  ∀ B steps l, Walk B [] steps l →
    events (wfold B ws0 steps) = flat_map (events_of B) (rev l) ∧
    ∀ e, e ∈ events (wfold B ws0 steps) → ∃ b x, b ∈ l ∧ B !! b = Some x ∧ e_index e = index_of x.
Proof. exact events_are_linear. Qed.
Print Assumptions C06_events_are_linear.

(** The crux behind both: on a state the block fits, reverting an applied block restores
    the state exactly (outputs and events). *)
Theorem C06_revert_undoes_apply :
  ∀ st b, Fits st b → revert_chain_update (apply_chain_update st b) b = st.
Proof. exact revert_apply. Qed.
Print Assumptions C06_revert_undoes_apply.

(** Chunking is irrelevant: feeding the chunks one by one is folding their concatenation,
    and any two streams that end on the same chain leave the same state. *)
Theorem C06_chunking_irrelevant :
  ∀ B,
    (∀ chunks st, fold_left (λ st c, update_chain_state B st (fst c) (snd c)) chunks st =
                  wfold B st (steps_of chunks)) ∧
    (∀ steps1 steps2 l, Walk B [] steps1 l → Walk B [] steps2 l →
       wfold B ws0 steps1 = wfold B ws0 steps2).
Proof. exact chunking_irrelevant. Qed.
Print Assumptions C06_chunking_irrelevant.

(** The sum of event inflows minus outflows equals the sum of the stored outputs, provided
    every block of the chain satisfies the structural facts [block_wf] (checked on every
    generated block) — from which the per-block law follows, below. *)
Theorem C06_balance_identity :
  ∀ B steps l, Walk B [] steps l →
    (∀ b x, b ∈ l → B !! b = Some x → block_wf x = true) →
    net_events (events (wfold B ws0 steps)) = total (utxos (wfold B ws0 steps)).
Proof. exact balance_identity. Qed.
Print Assumptions C06_balance_identity.

(** The per-block law, kind by kind: the events an item yields change the wallet's view by
    exactly what the item does to the address's holdings (miner payout, foundation subsidy,
    siafund claim, v1/v2 transaction, v1/v2 resolution), hence for a block. *)
Theorem C06_balance_law_per_kind :
  (∀ it, item_wf it = true → item_evnet it = item_diff it) ∧
  (∀ b, block_wf b = true → net_events (applied_events b) = net_diffs b).
Proof. exact (conj item_law block_law). Qed.
Print Assumptions C06_balance_law_per_kind.

(** For the code before the fixes the law is refuted (candidate F10, reproduced on the real
    wallet): a claim paid to the wallet for another owner's siafunds has no event; a claim
    paid elsewhere for the wallet's siafunds is listed as an inflow; a v2 resolution payout
    is keyed on the contract's address, not on where it goes. *)
Theorem C06_balance_law_legacy_refuted :
  (∃ it, item_wf it = true ∧ net_events (item_events_legacy (1, 1) [] it) ≠ item_diff it ∧
         ∃ v2 id c, it = ITx v2 id false 0 0 [c] ∧ p_keyed c = false ∧ p_pays c = true) ∧
  (∃ it, item_wf it = true ∧ net_events (item_events_legacy (1, 1) [] it) ≠ item_diff it ∧
         ∃ v2 id i o c, it = ITx v2 id true i o [c] ∧ p_keyed c = true ∧ p_pays c = false) ∧
  (∃ it, item_wf it = true ∧ net_events (item_events_legacy (1, 1) [] it) ≠ item_diff it ∧
         ∃ h r, it = IRes2 h r).
Proof. exact legacy_law_refuted. Qed.
Print Assumptions C06_balance_law_legacy_refuted.

(** A contiguous chunk is a walk, and walks compose: the bridge from C04's description of
    the stream to the hypotheses above. *)
Theorem C06_chunk_is_walk :
  ∀ B,
    (∀ rus aus sh,
       (∀ k, (1 ≤ k ≤ length aus)%nat → GoodC B (rev (take k aus) ++ sh)) →
       Walk B (rus ++ sh) (map SRev rus ++ map SApp aus) (rev aus ++ sh)) ∧
    (∀ a s1 b s2 c, Walk B a s1 b → Walk B b s2 c → Walk B a (s1 ++ s2) c).
Proof. exact (λ B, conj (walk_chunk B) (walk_trans B)). Qed.
Print Assumptions C06_chunk_is_walk.
