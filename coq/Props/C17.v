(** * Props/C17.v — All key-value backends behave identically, including before a flush.
    Only the property theorems; each is closed by [exact] and followed by Print Assumptions. *)
From stdpp Require Import gmap.
From CV Require Import KV.Model KV.Proofs.

(** For every operation sequence the MemDB model returns the results of the two-map
    specification (= BoltChainDB): same gets, same iteration (as a map), same bucket
    existence, same create verdicts, before and after flush/cancel. *)
Theorem C17_memdb_refines_spec :
  ∀ ops, run_ops mem_step mem_init ops = run_ops sp_step sp_init ops.
Proof. exact memdb_refines_spec. Qed.
Print Assumptions C17_memdb_refines_spec.

(** Reads reflect the latest write / delete of the session whether or not it was flushed. *)
Theorem C17_read_your_write :
  ∀ s b k v mb, cur s !! b = Some mb →
    snd (sp_step (fst (sp_step s (Put b k v))) (Get b k)) = MVal (Some v).
Proof. exact sp_read_your_write. Qed.
Print Assumptions C17_read_your_write.

Theorem C17_read_your_delete :
  ∀ s b k mb, cur s !! b = Some mb →
    snd (sp_step (fst (sp_step s (Del b k))) (Get b k)) = MVal None.
Proof. exact sp_read_your_delete. Qed.
Print Assumptions C17_read_your_delete.

(** Flush makes the session view durable; cancel discards exactly the unflushed window;
    nothing but Flush changes the durable image. *)
Theorem C17_flush_durable :
  ∀ s, com (fst (sp_step s Flush)) = cur s ∧ cur (fst (sp_step s Flush)) = cur s.
Proof. exact sp_flush_durable. Qed.
Print Assumptions C17_flush_durable.

Theorem C17_cancel_exact :
  ∀ s, cur (fst (sp_step s Cancel)) = com s ∧ com (fst (sp_step s Cancel)) = com s.
Proof. exact sp_cancel_exact. Qed.
Print Assumptions C17_cancel_exact.

Theorem C17_only_flush_commits :
  ∀ s o, o ≠ Flush → com (fst (sp_step s o)) = com s.
Proof. exact sp_com_stable. Qed.
Print Assumptions C17_only_flush_commits.

(** CacheDB: the overlay over a backend that is the specification (= CacheDB over Bolt)
    returns the specification's results for every operation sequence, flushed or not. *)
From CV Require Import KV.CacheProofs.

Theorem C17_cachedb_refines_spec :
  ∀ ops, run_ops (cache_step sp_backend) (cache_init sp_backend sp_init) ops =
         run_ops sp_step sp_init ops.
Proof. exact cachedb_refines_spec. Qed.
Print Assumptions C17_cachedb_refines_spec.

(** The same for CacheDB over MemDB. *)
Theorem C17_cachedb_over_memdb_refines_spec :
  ∀ ops, run_ops (cache_step mem_backend) (cache_init mem_backend mem_init) ops =
         run_ops sp_step sp_init ops.
Proof. exact cachedb_over_memdb_refines_spec. Qed.
Print Assumptions C17_cachedb_over_memdb_refines_spec.

(** All four backends (MemDB, CacheDB over MemDB, CacheDB over the specification, and the
    specification = Bolt) answer every operation sequence identically. *)
Theorem C17_backends_agree :
  ∀ ops,
    run_ops mem_step mem_init ops = run_ops sp_step sp_init ops ∧
    run_ops (cache_step mem_backend) (cache_init mem_backend mem_init) ops =
      run_ops sp_step sp_init ops ∧
    run_ops (cache_step sp_backend) (cache_init sp_backend sp_init) ops =
      run_ops sp_step sp_init ops.
Proof. exact backends_agree. Qed.
Print Assumptions C17_backends_agree.

From CV Require Import KV.StackProofs.

(** "the write-caching wrapper (over any backend)": the backends that answer every operation
    like the specification (through some simulation relation [T]) are closed under wrapping in
    a CacheDB - so the wrapper may also sit on another wrapper, to any depth. *)
Theorem C17_cachedb_preserves_refinement :
  ∀ (B : backend) (T : bst B → sp → Prop),
    bsim B sp_backend T → bsim (cache_backend B) sp_backend (wrapT T).
Proof. exact cache_preserves_refinement. Qed.
Print Assumptions C17_cachedb_preserves_refinement.

(** two wrappers over MemDB return the results of the specification on every sequence *)
Theorem C17_cachedb_stacked_refines_spec :
  ∀ ops,
    run_ops (cache_step (cache_backend mem_backend))
            (cache_init (cache_backend mem_backend) (cache_init mem_backend mem_init)) ops =
    run_ops sp_step sp_init ops.
Proof. exact cachedb_stacked_refines_spec. Qed.
Print Assumptions C17_cachedb_stacked_refines_spec.
