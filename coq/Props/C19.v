(** * Props/C19.v — placeholder until the prune proofs land; replaced by the proof builder. *)
From stdpp Require Import gmap.
From CV Require Import Chain.Manager.
Theorem C19_prune_zero_is_identity : forall m, prune m 0 = m.
Proof. exact (fun _ => eq_refl). Qed.
Print Assumptions C19_prune_zero_is_identity.
