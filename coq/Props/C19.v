(** * Props/C19.v — Pruning removes only old block bodies and never breaks the node.
    Only the property theorems; each is closed by [exact] and followed by Print Assumptions.
    About the manager model [Chain/Manager.v] (validated against the real chain.Manager by
    the C01 harness after every call, pruning and MinReorgIndex included).  [MInv U m] is
    the inductive invariant of C01; it holds in every reachable state
    ([C01_best_chain_inv], operations [Prune h] included). *)
From Coq Require Import NArith ZArith List.
From stdpp Require Import gmap.
From CV Require Import Chain.Manager Chain.ManagerProofs Chain.PruneProofs.
Import ListNotations.
Open Scope N_scope.

(** After [prune m h]: the best chain is unchanged; a block loses body and supplement
    (its state kind and its header stay) iff it is [pruned_by m h]: with h' = min h
    (tip height + 1), the best-chain block at some height i < h' such that the best-chain
    blocks at all heights i..h'-1 still had their bodies (the walk down from h'-1 stops at
    the first missing body); every other record is untouched. *)
Theorem C19_prune_removes_only_bodies :
  ∀ U, WF U → ∀ m h, MInv U m →
    best (prune m h) = best m ∧
    ∀ x,
      (pruned_by m h x →
         ∃ k, known m !! x = Some k ∧ known (prune m h) !! x = Some (KI (kst k) false false)) ∧
      (¬ pruned_by m h x → known (prune m h) !! x = known m !! x).
Proof. exact prune_removes_only_bodies. Qed.
Print Assumptions C19_prune_removes_only_bodies.

(** the removed blocks are best-chain blocks below the prune height *)
Theorem C19_pruned_are_old_best_blocks :
  ∀ U, WF U → ∀ m h x, MInv U m → pruned_by m h x → x ∈ best m ∧ ht U x < h.
Proof. exact pruned_by_ht. Qed.
Print Assumptions C19_pruned_are_old_best_blocks.

(** states and headers survive any prune, in any state whatsoever *)
Theorem C19_prune_keeps_states_headers :
  ∀ m h x, has_state (prune m h) x = has_state m x ∧ has_hdr (prune m h) x = has_hdr m x.
Proof. exact prune_keeps_states_headers. Qed.
Print Assumptions C19_prune_keeps_states_headers.

(** BestIndex(h) is the best-chain block of height h (what [pruned_by] speaks about) *)
Theorem C19_best_index_is_height :
  ∀ U, WF U → ∀ m h y, MInv U m → best_at m h = Some y → ht U y = h.
Proof. exact best_at_ht. Qed.
Print Assumptions C19_best_index_is_height.

(** The seventh invariant (kept as its own predicate next to [MInv]): in every reachable
    state the best-chain blocks that still have a body are contiguous from the tip — below
    a best-chain block without body no best-chain block has one. *)
Theorem C19_bodies_contig_inv :
  ∀ U, WF U → ∀ ops, ops_pre U ops → bodies_contig U (mrun U ops).
Proof. exact mrun_contig. Qed.
Print Assumptions C19_bodies_contig_inv.

(** PruneBlocks(h) with h beyond the tip is PruneBlocks(tip height + 1), and afterwards no
    best-chain block has a body (every block whose body run reaches the tip loses it). *)
Theorem C19_prune_beyond_tip_prunes_all :
  ∀ U, WF U → ∀ m h, MInv U m → bodies_contig U m → N.of_nat (length (best m)) ≤ h →
    prune m h = prune m (N.of_nat (length (best m))) ∧
    ∀ x, x ∈ best m → has_body (prune m h) x = false.
Proof. exact prune_beyond_tip_prunes_all. Qed.
Print Assumptions C19_prune_beyond_tip_prunes_all.

(** ... without the contiguity invariant: every best-chain block from which all blocks up
    to the tip have bodies loses its body *)
Theorem C19_prune_beyond_tip_prunes_run :
  ∀ U, WF U → ∀ m h x, MInv U m → N.of_nat (length (best m)) ≤ h → x ∈ best m →
    (∀ y, y ∈ best m → ht U x ≤ ht U y → has_body m y = true) →
    has_body (prune m h) x = false.
Proof. exact prune_all_run. Qed.
Print Assumptions C19_prune_beyond_tip_prunes_run.

Theorem C19_prune_idempotent : ∀ m h, prune (prune m h) h = prune m h.
Proof. exact prune_idempotent. Qed.
Print Assumptions C19_prune_idempotent.

Theorem C19_prune_preserves_inv : ∀ U m h, MInv U m → MInv U (prune m h).
Proof. exact prune_preserves_inv. Qed.
Print Assumptions C19_prune_preserves_inv.

(** MinReorgIndex: best = t :: mid ++ rest where every block of [mid] (the blocks
    directly below the tip) still has its body and the first block of [rest] does not;
    the answer is the last block of t :: mid.  The tip's own body is not looked at. *)
Theorem C19_min_reorg_spec :
  ∀ m t l, best m = t :: l →
    ∃ mid rest, best m = t :: mid ++ rest ∧ min_reorg m = List.last mid t ∧
      (∀ y, y ∈ mid → has_body m y = true) ∧
      (∀ z, head rest = Some z → has_body m z = false).
Proof. exact min_reorg_spec. Qed.
Print Assumptions C19_min_reorg_spec.

(** MinReorgIndex is sound: in every reachable state every best-chain block strictly above
    it has a body, so a reorg whose fork point is at or above it needs no pruned body. *)
Theorem C19_min_reorg_sound :
  ∀ U, WF U → ∀ ops, ops_pre U ops → ∀ x,
    x ∈ best (mrun U ops) → ht U (min_reorg (mrun U ops)) < ht U x →
    has_body (mrun U ops) x = true.
Proof. exact min_reorg_sound_reachable. Qed.
Print Assumptions C19_min_reorg_sound.

Theorem C19_min_reorg_sound_inv :
  ∀ U, WF U → ∀ m x, MInv U m → bodies_contig U m →
    x ∈ best m → ht U (min_reorg m) < ht U x → has_body m x = true.
Proof. exact min_reorg_sound. Qed.
Print Assumptions C19_min_reorg_sound_inv.

(** An AddBlocks whose reorg has to revert a block whose body is gone returns an error
    (never panics), notifies nobody, and leaves the best chain and the record of every
    best-chain block exactly as before. *)
Theorem C19_below_boundary_is_error_and_noop :
  ∀ U, WF U → ∀ m batch x, MInv U m →
    x ∈ reorg_reverts U m batch → has_body m x = false →
    ∃ m', add_blocks U m batch = (m', Err, false) ∧ best m' = best m ∧
          ∀ b, b ∈ best m → known m' !! b = known m !! b.
Proof. exact below_boundary. Qed.
Print Assumptions C19_below_boundary_is_error_and_noop.

(** Twin equivalence.  [twin m m']: same best chain, and [m'] is [m] with the bodies and
    supplements of some best-chain blocks removed.  If the reorg of an AddBlocks reverts
    only best-chain blocks whose body is present on both, both nodes return the same
    outcome and notification and are twins again (so the statement iterates over any
    later history). *)
Theorem C19_twin_step :
  ∀ U, WF U → ∀ m m' batch, MInv U m → MInv U m' → twin m m' →
    (∀ x, x ∈ reorg_reverts U m' batch → x ∈ best m → has_body m' x = has_body m x) →
    ∃ r r' out nt, add_blocks U m batch = (r, out, nt) ∧
                   add_blocks U m' batch = (r', out, nt) ∧ twin r r'.
Proof. exact add_blocks_twin. Qed.
Print Assumptions C19_twin_step.

(** ... in particular for m' = prune m h and every batch whose reorg reverts only blocks
    strictly above the pruned node's MinReorgIndex (fork point at or above it) *)
Theorem C19_twin_equivalence :
  ∀ U, WF U → ∀ m h batch, MInv U m →
    (∀ x, x ∈ reorg_reverts U (prune m h) batch →
          ht U (min_reorg (prune m h)) < ht U x) →
    ∃ r r' out nt, add_blocks U m batch = (r, out, nt) ∧
                   add_blocks U (prune m h) batch = (r', out, nt) ∧
                   twin r r'.
Proof. exact twin_equivalence_min_reorg. Qed.
Print Assumptions C19_twin_equivalence.

(** ... and for every batch whose reorg reverts only blocks at or above the prune height *)
Theorem C19_twin_equivalence_height :
  ∀ U, WF U → ∀ m h batch, MInv U m →
    (∀ x, x ∈ reorg_reverts U (prune m h) batch → h ≤ ht U x) →
    ∃ r r' out nt, add_blocks U m batch = (r, out, nt) ∧
                   add_blocks U (prune m h) batch = (r', out, nt) ∧
                   twin r r'.
Proof. exact twin_equivalence_height. Qed.
Print Assumptions C19_twin_equivalence_height.

(** "strictly above" cannot be weakened to "at or above": with the tip itself pruned,
    MinReorgIndex is the tip, and reverting it fails on the pruned node only. *)
Theorem C19_twin_at_boundary_refuted :
  ∃ U m h batch, WF U ∧ MInv U m ∧
    (∀ x, x ∈ reorg_reverts U (prune m h) batch →
          ht U (min_reorg (prune m h)) ≤ ht U x) ∧
    (add_blocks U m batch).1.2 = Ok ∧ (add_blocks U (prune m h) batch).1.2 = Err.
Proof. exact ExP.twin_at_boundary_refuted. Qed.
Print Assumptions C19_twin_at_boundary_refuted.
