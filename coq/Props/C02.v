(** * Props/C02.v — Chain state depends only on the best chain, not on the reorgs witnessed.
    Only the property theorems; each is closed by [exact] and followed by Print Assumptions.
    All statements are about the store model [Chain/Store.v] (the element buckets of
    chain.DBStore: siacoin / siafund / file-contract elements, ordered expiration lists,
    main-chain index and height, with the v2 require-height gates), which the harness
    validates against the real DBStore after every ApplyBlock / RevertBlock.

    Hypotheses (definitions in Chain/StoreProofs.v):
    - [exp_inv s]      the expiration lists of [s] are duplicate free and list [h] holds
                       exactly the stored contracts whose window ends at [h];
    - [wf_diffs s d]   the diff lists fit the buckets they are applied to: a created element
                       is new, a spent / revised / resolved one is stored with the bytes the
                       diff carries (checked on every harness run; false for a block that
                       revises and resolves one contract — see the last theorem);
    - [ok_from R [] h] the history is one a manager can issue: applied blocks fit the linear
                       store of the chain below them, heights are consecutive, a revert names
                       the current tip and never removes the lowest block; the block at
                       require height + 1 carries no v1 contract diffs. *)
From Coq Require Import NArith List.
Import ListNotations.
From stdpp Require Import gmap.
From CV Require Import Chain.Store.
From CV Require Import Chain.StoreProofs.
From CV Require Import Chain.Accum.
From CV Require Import Chain.AccumProofs.
Open Scope N_scope.

(** Applying the elements of a block and reverting them (law L1: reverse diff lists)
    restores the siacoin, siafund and file-contract buckets, main chain and height exactly,
    and every expiration list up to a permutation. *)
Theorem C02_revert_apply_exact :
  ∀ s d, exp_inv s → wf_diffs s d →
    ∃ s1 s2, apply_elements s d = Some s1 ∧ revert_elements s1 (rev_diffs d) = Some s2 ∧
      sce s2 = sce s ∧ sfe s2 = sfe s ∧ fce s2 = fce s ∧ mainc s2 = mainc s ∧ hgt s2 = hgt s ∧
      (∀ h, exp_get s2 h ≡ₚ exp_get s h).
Proof. exact revert_apply_exact. Qed.
Print Assumptions C02_revert_apply_exact.

(** ... and restores the whole store, list order included, when every entry that takes a
    contract out of a list (resolution, revision to another window end) finds it first in a
    list of at most two ([exact_fcs]: the condition is evaluated entry by entry). *)
Theorem C02_revert_apply_order_exact :
  ∀ s d, exp_inv s → wf_diffs s d → exact_fcs s (d_fc d) →
    ∀ s1, apply_elements s d = Some s1 → revert_elements s1 (rev_diffs d) = Some s.
Proof. exact revert_apply_elements_exact. Qed.
Print Assumptions C02_revert_apply_order_exact.

(** The list operations in isolation: append-then-delete is always exact; delete-then-prepend
    restores a duplicate-free list exactly iff the id was first of at most two; removing the
    whole list (expiry) and prepending in reverse order is exact. *)
Theorem C02_expiry_order_exact_iff :
  (∀ l x, x ∉ l → ∃ i, index_of x (l ++ [x]) = Some i ∧ swap_remove i (l ++ [x]) = l) ∧
  (∀ l i x, NoDup l → index_of x l = Some i →
     (x :: swap_remove i l = l ↔ i = 0%nat ∧ (length l ≤ 2)%nat)) ∧
  (∀ l, NoDup l → delete_all l l = Some [] ∧ fold_left (λ acc x, x :: acc) (rev l) [] = l).
Proof. exact expiry_order_exact_iff. Qed.
Print Assumptions C02_expiry_order_exact_iff.

(** For every admissible apply/revert history that ends on chain [c], the store equals the
    store of a node that saw only [c] linearly — on all buckets, the main chain and the
    height exactly, on the expiration lists up to the order inside each list. *)
Theorem C02_history_independent_partial :
  ∀ R h c, ok_from R [] h → chain_of h = Some c →
    ∃ s sl, run R h = Some s ∧ linear R c = Some sl ∧
      sce s = sce sl ∧ sfe s = sfe sl ∧ fce s = fce sl ∧ mainc s = mainc sl ∧ hgt s = hgt sl ∧
      ∀ k, exp_get s k ≡ₚ exp_get sl k.
Proof. exact history_independent. Qed.
Print Assumptions C02_history_independent_partial.

(** It equals it exactly, list order included, when no reverted block takes a contract out
    of a list it shares with others ([exact_from]: [exact_fcs] for every reverted block on
    the linear store below it). *)
Theorem C02_history_independent_exact_partial :
  ∀ R h c, ok_from R [] h → exact_from R [] h → chain_of h = Some c →
    ∃ s, run R h = Some s ∧ linear R c = Some s.
Proof. exact history_exact. Qed.
Print Assumptions C02_history_independent_exact_partial.

(** The full statement is false of the faithful model (known finding: contracts A, B, C
    share a window end, a block resolving A is reverted): the list is [A;C;B] instead of
    [A;B;C], and the expiring contracts served for the block at that height come in that
    order. *)
Theorem C02_full_statement_refuted :
  ∃ R h c s sl,
    ok_from R [] h ∧ chain_of h = Some c ∧ run R h = Some s ∧ linear R c = Some sl ∧
    exp_get s 3 = [1; 3; 2] ∧ exp_get sl 3 = [1; 2; 3] ∧
    ids_of (supplement_block R s) = Some [1; 3; 2] ∧
    ids_of (supplement_block R sl) = Some [1; 2; 3].
Proof. exact full_statement_refuted. Qed.
Print Assumptions C02_full_statement_refuted.

(** What the store serves from its buckets (SupplementTipTransaction, the expiring
    contracts of SupplementTipBlock) is a function of those buckets, so it inherits both
    results. *)
Theorem C02_supplements_independent :
  ∀ R s s', sce s = sce s' → sfe s = sfe s' → fce s = fce s' → hgt s = hgt s' →
    (∀ k, exp_get s k ≡ₚ exp_get s' k) →
    (∀ p, supplement_txn R s p = supplement_txn R s' p) ∧
    (∀ l, supplement_block R s = Some l → ∃ l', supplement_block R s' = Some l' ∧ l ≡ₚ l') ∧
    ((∀ k, exp_get s k = exp_get s' k) → supplement_block R s = supplement_block R s').
Proof. exact supplements_independent. Qed.
Print Assumptions C02_supplements_independent.

Theorem C02_history_supplements :
  ∀ R h c, ok_from R [] h → chain_of h = Some c →
    ∃ s sl, run R h = Some s ∧ linear R c = Some sl ∧
      (∀ p, supplement_txn R s p = supplement_txn R sl p) ∧
      (∀ l, supplement_block R s = Some l → ∃ l', supplement_block R sl = Some l' ∧ l ≡ₚ l').
Proof. exact history_supplements. Qed.
Print Assumptions C02_history_supplements.

(** Known finding: a block that revises and resolves one contract reaches the store with the
    revised contract as the diff's element (not well formed).  The faithful model panics
    ([None]) when the revision moved the window end, and otherwise restores the revision
    instead of the prior contract on revert. *)
Theorem C02_revised_and_resolved_refuted :
  let s := St ∅ ∅ {[ 1 := (10, 5) ]} {[ 5 := [1] ]} ∅ 0 in
  exp_inv s ∧
  apply_elements s (DF [] [] [FD 1 11 7 false (Some (11, 7)) true]) = None ∧
  (∃ s1 s2, apply_elements s (DF [] [] [FD 1 11 5 false (Some (11, 5)) true]) = Some s1 ∧
            revert_elements s1 (rev_diffs (DF [] [] [FD 1 11 5 false (Some (11, 5)) true])) = Some s2 ∧
            fce s2 !! 1 = Some (11, 5) ∧ fce s !! 1 = Some (10, 5)).
Proof. exact revised_and_resolved_refuted. Qed.
Print Assumptions C02_revised_and_resolved_refuted.

(** ** The accumulator (Tree bucket, model in Chain/Accum.v: symbolic hashes)

    getElementProof (db.go:531-548) reads, for every leaf below the accumulator size [n],
    only nodes whose leaves lie wholly inside the accumulator — for all sizes
    ([plen leaf n] = bits.Len64(leaf xor n) - 1 rows, sibling (r, (leaf >> r) xor 1)). *)
Theorem C02_get_proof_reads_live :
  ∀ leaf n r, leaf < n → (r < plen leaf n)%nat → (sib leaf r + 1) * 2 ^ N.of_nat r <= n.
Proof. exact get_proof_reads_live. Qed.
Print Assumptions C02_get_proof_reads_live.

(** the same for the read model the correspondence evaluates on every proof the real store
    serves (Chain/Store.v) *)
Theorem C02_get_proof_reads_live_store :
  ∀ leaf n, leaf < n →
    ∃ reads, get_proof_reads leaf n = Some reads ∧
             ∀ r c, In (r, c) reads → (c + 1) * 2 ^ r <= n.
Proof. exact store_get_proof_reads_live. Qed.
Print Assumptions C02_get_proof_reads_live_store.

(** The invariant "every live node holds the hash of its block of the current leaves"
    ([tinv]; stale nodes above or to the right are allowed) is preserved by a block step in
    either direction under law L2 ([acc_step]), provided the row-0 writes cover every new
    leaf ([wf_step]; on a revert there are none). *)
Theorem C02_tree_invariant_preserved :
  ∀ a ups n, tinv a → wf_step a ups n → tinv (acc_step a ups n).
Proof. exact tinv_step. Qed.
Print Assumptions C02_tree_invariant_preserved.

(** Hence the proof getElementProof returns for a leaf is exactly the sibling path of that
    leaf in its tree, and it verifies (symbolic verifier: fold the path upwards) against the
    accumulator root of that tree's height. *)
Theorem C02_served_proof_is_the_merkle_path :
  ∀ a leaf, tinv a → leaf < N.of_nat (length (a_leaves a)) →
    let ls := a_leaves a in
    let n := N.of_nat (length ls) in
    get_proof (a_tree a) leaf n =
      Some (map (λ r, node_of ls r (sib leaf r)) (seq 0 (plen leaf n))) ∧
    ∃ p, get_proof (a_tree a) leaf n = Some p ∧ verifies ls leaf p = true.
Proof. exact served_proof_is_merkle_path. Qed.
Print Assumptions C02_served_proof_is_the_merkle_path.

(** After any history of applies and reverts (a revert restores the old hashes of the leaves
    the block touched and the old size) the bucket satisfies the invariant for the leaves of
    the chain that remains; so it serves, for every leaf, the proof any node serves that
    only saw that chain — and that proof verifies. *)
Theorem C02_tree_history_independent :
  ∀ l c, steps_ok hacc_empty l → remaining [] l = Some c →
    ∃ h, hrun hacc_empty l = Some h ∧ tinv (h_acc h) ∧ a_leaves (h_acc h) = linear_leaves c ∧
      ∀ a' leaf, tinv a' → a_leaves a' = linear_leaves c →
        leaf < N.of_nat (length (linear_leaves c)) →
        get_proof (a_tree (h_acc h)) leaf (N.of_nat (length (linear_leaves c))) =
        get_proof (a_tree a') leaf (N.of_nat (length (linear_leaves c))) ∧
        ∃ p, get_proof (a_tree (h_acc h)) leaf (N.of_nat (length (linear_leaves c))) = Some p ∧
             verifies (linear_leaves c) leaf p = true.
Proof. exact tree_history_independent. Qed.
Print Assumptions C02_tree_history_independent.
