(** * Props/C10.v — A successful renter RPC is cryptographically bound, whatever the host does.
    Only the property theorems; each is closed by [exact] and followed by Print Assumptions.
    The host's responses are arbitrary terms ([option] of a response record: [None] is a
    response that does not decode, an error response or a closed stream). *)
From stdpp Require Import prelude.
From Coq Require Import NArith.
From CV Require Import RHP.Renter RHP.RenterProofs.
Open Scope N_scope.

(** read: success ⇒ the bytes handed to the caller are exactly the requested range of the
    sector with the requested root (whatever sector [ls] that root is the root of), the
    range is leaf aligned, and the usage is the price table's. *)
Theorem C10_read_bound :
  ∀ p r res ls, client_read p r = Ok res → rp_root p = SR (HL <$> ls) →
    rd_delivered res = slice ls (rp_offset p / leaf_size) (rp_length p / leaf_size)
    ∧ rp_offset p mod leaf_size = 0 ∧ rp_length p mod leaf_size = 0
    ∧ rd_usage res = read_cost (rp_egress p) (rp_length p).
Proof. exact read_bound. Qed.
Print Assumptions C10_read_bound.

(** write: success ⇒ the returned root is the root of exactly the bytes sent, zero padded to a sector. *)
Theorem C10_write_bound :
  ∀ p r res, wp_extra p < leaf_size → client_write p r = Ok res →
    wr_root res = SR (HL <$> padded (wp_data p))
    ∧ len (padded (wp_data p)) = leaves_per_sector
    ∧ wp_extra p = 0
    ∧ wr_usage res = write_usage (wp_storage p) (wp_ingress p) (wp_length p).
Proof. exact write_bound. Qed.
Print Assumptions C10_write_bound.

(** verify: success ⇒ the leaf in the response is leaf [vp_index] (drawn locally) of the sector. *)
Theorem C10_verify_bound :
  ∀ p r u ls, client_verify p r = Ok u → vp_root p = SR (HL <$> ls) →
    ∃ rr, r = Some rr ∧ ls !! N.to_nat (vp_index p) = Some (vr_leaf rr) ∧ u = verify_cost (vp_egress p).
Proof. exact verify_bound. Qed.
Print Assumptions C10_verify_bound.

(** sector roots: success ⇒ the returned roots are the contract's roots for the requested range
    and the revision keeps root, filesize and capacity. *)
Theorem C10_roots_bound :
  ∀ t c sp offset length r res roots rs,
    client_roots t c sp offset length r = Ok (res, roots) → v_root (c_view c) = CR rs →
    roots = slice rs offset length
    ∧ v_root (rr_view res) = CR rs ∧ v_filesize (rr_view res) = v_filesize (c_view c)
    ∧ v_capacity (rr_view res) = v_capacity (c_view c).
Proof. exact roots_bound. Qed.
Print Assumptions C10_roots_bound.

(** append: success ⇒ the new Merkle root is the old root list with exactly the returned
    sectors appended; those are the requested sectors the host marked accepted. *)
Theorem C10_append_bound :
  ∀ t c p roots r1 r3 res secs rs,
    client_append t c p roots r1 r3 = Ok (res, secs) → v_root (c_view c) = CR rs →
    v_root (rr_view res) = CR (rs ++ secs)
    ∧ (∃ accepted, length accepted = length roots ∧ secs = pick roots accepted)
    ∧ len rs = num_sectors_up c
    ∧ v_filesize (rr_view res) = v_filesize (c_view c) + sector_size * len secs
    ∧ v_capacity (rr_view res) = v_capacity (c_view c) + sector_size * append_growth c (len secs).
Proof. exact append_bound. Qed.
Print Assumptions C10_append_bound.

(** free: success ⇒ the new Merkle root is the old root list with exactly the requested
    indices (sorted descending, duplicates removed, all in range) swap-removed; the
    swap-remove list model and core's swap-and-trim agree on such lists. *)
Theorem C10_free_bound :
  ∀ t c p idxs r1 r3 res rs,
    client_free t c p idxs r1 r3 = Ok res → v_root (c_view c) = CR rs →
    let norm := normalize idxs in
    v_root (rr_view res) = CR (swap_remove_all rs norm)
    ∧ swap_remove_all rs norm = free_apply rs norm
    ∧ desc norm ∧ Forall (λ i, i < len rs) norm
    ∧ len rs = v_filesize (c_view c) / sector_size
    ∧ v_filesize (rr_view res) = v_filesize (c_view c) - sector_size * len norm
    ∧ v_capacity (rr_view res) = v_capacity (c_view c).
Proof. exact free_bound. Qed.
Print Assumptions C10_free_bound.

(** every revision returned by a revising RPC carries [Sig hk] — [hk = c_hk c], the host key of
    the *contract*, whatever the authenticated key [t] of the transport peer is — over exactly that revision
    (and the renter's own signature over it) and charges exactly the locally computed
    price-table cost and collateral. For replenish the zero-cost branch returns the
    caller's revision unchanged, so its signature is the caller's. The last two conjuncts are
    the contracts returned by form and by renew / refresh ([contract_bound]: the renter's own
    contract, [Sig hk] over exactly it, the local cost). *)
Theorem C10_revision_signed_and_priced :
  ∀ t c p,
  (∀ sp offset length r res roots, client_roots t c sp offset length r = Ok (res, roots) →
     signed_by_both c res ∧ charged c res (p_egress (sp_prices sp) * round4k (32 * length)) 0)
  ∧ (∀ roots r1 r3 res secs, client_append t c p roots r1 r3 = Ok (res, secs) →
     let g := append_growth c (len secs) in let d := append_duration c p in
     signed_by_both c res
     ∧ charged c res (p_storage p * sector_size * g * d + p_ingress p * round4k (32 * g))
                     (p_collateral p * sector_size * g * d))
  ∧ (∀ idxs r1 r3 res, client_free t c p idxs r1 r3 = Ok res →
     signed_by_both c res ∧ charged c res (p_free p * len (normalize idxs)) 0)
  ∧ (∀ deposits r res bal, client_fund t c deposits r = Ok (res, bal) →
     signed_by_both c res ∧ charged c res (sum_N (deposits.*2)) 0)
  ∧ (∀ accounts target r1 r3 res deps, client_replenish t c accounts target r1 r3 = Ok (res, deps) →
     contract_signed c →
     signed_by_both c res
     ∧ (charged c res (sum_N (deps.*2)) 0
        ∨ (sum_N (deps.*2) = 0 ∧ rr_view res = c_view c ∧ rr_usage res = usage0)))
  ∧ (∀ hk rk mine my_rest funded host_cost cost r1 r3 res,
     client_form t hk rk mine my_rest funded host_cost cost r1 r3 = Ok res → contract_bound hk rk mine cost res)
  ∧ (∀ mine my_rest funded host_cost cost r1 r3 res,
     client_renew t c mine my_rest funded host_cost cost r1 r3 = Ok res →
     contract_bound (c_hk c) (c_rk c) mine cost res).
Proof. exact revision_signed_and_priced. Qed.
Print Assumptions C10_revision_signed_and_priced.

(** form, renew, refresh (both): the contract the call returns is the contract the renter built
    and signed ([mine], with the keys [hk], [rk]; for renew/refresh the keys of the existing
    contract), it carries [Sig hk] over exactly that contract whatever the transport peer key [t]
    is and whatever object the host put into its final transaction, and the cost is the locally
    computed one; for renew/refresh the host also signed the renter's own renewal. *)
Theorem C10_contract_returned_is_contract_signed :
  (∀ t hk rk mine my_rest funded host_cost cost r1 r3 res,
     client_form t hk rk mine my_rest funded host_cost cost r1 r3 = Ok res → contract_bound hk rk mine cost res)
  ∧ (∀ t c mine my_rest funded host_cost cost r1 r3 res,
     client_renew t c mine my_rest funded host_cost cost r1 r3 = Ok res →
     contract_bound (c_hk c) (c_rk c) mine cost res
     ∧ ∃ f nc rest, r3 = Some f
         ∧ rf_resolutions f = [ResRenewal nc rest (Sig (c_hk c) (MRenewal (c_hk c) (c_rk c) mine my_rest))]).
Proof. exact contract_returned_is_contract_signed. Qed.
Print Assumptions C10_contract_returned_is_contract_signed.

(** request validity is a premise of proof-verification soundness: core's roots and
    free verifiers are total and sound only on a legal request ([core_verify_roots],
    [core_verify_free]: the empty contract accepts any roots, an illegal range or index
    panics). The client consults them only when its own validation has established that
    premise, and then they compute exactly the fact the binding theorems use. *)
Theorem C10_verifiers_consulted_only_inside_their_contract :
  (∀ R (v : view R) p auth offset length dec nroots sig_ok,
     roots_decide v p auth offset length dec nroots true sig_ok ≠ roots_decide v p auth offset length dec nroots false sig_ok →
     length ≠ 0 ∧ offset + length ≤ v_filesize v / sector_size ∧ length ≤ max_sector_batch ∧ nroots = length)
  ∧ (∀ c offset length pre post roots root,
     length ≠ 0 → offset + length ≤ v_filesize (c_view c) / sector_size → len roots = length →
     core_verify_roots pre post roots (num_sectors_up c) offset (offset + length) root ≠ VOutside
     ∧ vres_ok (core_verify_roots pre post roots (num_sectors_up c) offset (offset + length) root)
       = verify_roots pre post roots (num_sectors_up c) offset (offset + length) root)
  ∧ (∀ R (v : view R) p idxs dec1 newroot dec3 sig_ok,
     free_decide v p idxs dec1 newroot true dec3 sig_ok ≠ free_decide v p idxs dec1 newroot false dec3 sig_ok →
     match idxs with i :: _ => i < v_filesize v / sector_size | [] => True end)
  ∧ (∀ n old idxs oldroot newroot,
     match normalize idxs with i :: _ => i < n | [] => True end →
     core_verify_free n old (normalize idxs) oldroot newroot ≠ VOutside
     ∧ vres_ok (core_verify_free n old (normalize idxs) oldroot newroot) = verify_free n old (normalize idxs) oldroot newroot).
Proof. exact verifiers_consulted_only_inside_their_contract. Qed.
Print Assumptions C10_verifiers_consulted_only_inside_their_contract.

(** replenish: every deposit ≤ target, one deposit per account, and the charge is the sum
    of the deposits, at most target × number of accounts. *)
Theorem C10_replenish_cost_bound :
  ∀ t c accounts target r1 r3 res deps,
    client_replenish t c accounts target r1 r3 = Ok (res, deps) →
    Forall (λ d, d.2 ≤ target) deps
    ∧ len deps = len accounts
    ∧ sum_N (deps.*2) ≤ target * len accounts
    ∧ v_renter (c_view c) = v_renter (rr_view res) + sum_N (deps.*2)
    ∧ v_host (rr_view res) = v_host (c_view c) + sum_N (deps.*2)
    ∧ renter_cost (rr_usage res) = sum_N (deps.*2).
Proof. exact replenish_cost_bound. Qed.
Print Assumptions C10_replenish_cost_bound.

(** in every other case the call returns an error: the functions are total, and unless every
    listed check holds ([*_ok]) the result is [Err]. *)
Theorem C10_else_error :
  (∀ p r, ¬ read_ok p r → client_read p r = Err)
  ∧ (∀ p r, ¬ write_ok p r → client_write p r = Err)
  ∧ (∀ p r, ¬ verify_ok p r → client_verify p r = Err)
  ∧ (∀ t c sp offset length r, ¬ (∃ v' u rr, roots_ok c sp offset length r v' u rr) →
       client_roots t c sp offset length r = Err)
  ∧ (∀ t c p roots r1 r3, ¬ (∃ v' u ar hs, append_ok c p roots r1 r3 v' u ar hs) →
       client_append t c p roots r1 r3 = Err)
  ∧ (∀ t c p idxs r1 r3, ¬ (∃ v' u fr hs, free_ok c p idxs r1 r3 v' u fr hs) →
       client_free t c p idxs r1 r3 = Err)
  ∧ (∀ t c deposits r, ¬ (∃ v' u fr, fund_ok c deposits r v' u fr) → client_fund t c deposits r = Err)
  ∧ (∀ t c accounts target r1 r3, ¬ (∃ deps, replenish_ok c accounts target r1 r3 deps) →
       client_replenish t c accounts target r1 r3 = Err)
  ∧ (∀ t hk rk mine my_rest funded host_cost cost r1 r3, ¬ form_ok hk rk mine my_rest funded host_cost r1 r3 →
       client_form t hk rk mine my_rest funded host_cost cost r1 r3 = Err)
  ∧ (∀ t c mine my_rest funded host_cost cost r1 r3, ¬ (∃ nc, renew_ok c mine my_rest funded host_cost r1 r3 nc) →
       client_renew t c mine my_rest funded host_cost cost r1 r3 = Err)
  ∧ (∀ A (r : option A), r = None → client_pass r = Err).
Proof. exact else_error. Qed.
Print Assumptions C10_else_error.

(** and the [_ok] predicates of the sector RPCs are exactly their success conditions *)
Theorem C10_sector_rpcs_succeed_when_checks_hold :
  (∀ p r, read_ok p r → ∃ res, client_read p r = Ok res)
  ∧ (∀ p r, write_ok p r → ∃ res, client_write p r = Ok res)
  ∧ (∀ p r, verify_ok p r → ∃ res, client_verify p r = Ok res).
Proof. exact sector_rpcs_succeed_when_checks_hold. Qed.
Print Assumptions C10_sector_rpcs_succeed_when_checks_hold.
