(** * Props/C04.v — Subscribers can always follow the chain through reorgs via the update stream.
    Only the property theorems.  All statements are about [Chain/Updates.v] (UpdatesSince
    transcribed over the manager model of [Chain/Manager.v]), which the harness validates
    against the real chain.Manager on every poll.  [updates_since] recurses on the remaining
    budget [max - len(rus) - len(aus)]: there is no fuel and no out-of-fuel value.
    Used from the manager invariant [MInv] (Chain/ManagerProofs.v, proved for every reachable
    state): I_chain, I_best, I_known, and [ext []] of [mstep_spec].  The progress theorems are
    about histories without PruneBlocks ([hop_ok]): pruning below a subscriber strands it by
    PruneBlocks' own contract (C19). *)
From Coq Require Import NArith ZArith List.
From stdpp Require Import gmap.
From CV Require Import Chain.Manager Chain.ManagerProofs Chain.Updates Chain.UpdatesProofs.
Import ListNotations.
Open Scope N_scope.

(** Any successful result, from any index, in any manager state: at most [max] updates;
    the loop stopped because it reached the tip or because the budget was used up; the
    reverts walk parent by parent from the index ([revs_walk]: each reverted block is the
    one the index names, the index moves to its parent), then the applies walk consecutive
    best-chain heights ([apps_walk]: each applied block is the best-chain block one above the
    index) and end at the loop's final index; every block touched is held with its
    supplement; and the index a subscriber derives from the last update it was handed
    ([idx_after]: the last block touched) is that final index. *)
Theorem C04_chunk_bounded_contiguous :
  ∀ U, WF U → ∀ m i max rus aus l,
    updates_since U m i max = UOk rus aus l →
    (length rus + length aus ≤ max)%nat ∧
    (l = tip_index m ∨ (length rus + length aus)%nat = max) ∧
    (∃ j, revs_walk U i rus = Some j ∧ apps_walk m j aus = Some l) ∧
    (∀ b, b ∈ rus ++ aus → has_supp m b = true) ∧
    (MInv U m → idx_after U i rus aus = l).
Proof. exact chunk_bounded_contiguous. Qed.
Print Assumptions C04_chunk_bounded_contiguous.

(** No further submissions: with [max ≥ 1] a poll succeeds, folds without a gap, keeps the
    subscriber invariant and lowers the measure [dist] (size of the symmetric difference
    between the blocks the subscriber stands on and the best chain) by [max] or to 0 —
    strictly, unless the subscriber is at the tip; [dist = 0] exactly at the tip; and
    [dist] polls bring it to the tip, standing on exactly the best chain. *)
Theorem C04_catches_up :
  ∀ U, WF U → ∀ m s max,
    MInv U m → AllBodies m → SubInv U m s → (1 ≤ max)%nat →
    (∃ s', poll U m s max = POk s' ∧ SubInv U m s' ∧ dist m s' = (dist m s - max)%nat ∧
           (s_idx s ≠ tip_index m → (dist m s' < dist m s)%nat)) ∧
    (dist m s = 0%nat ↔ s_idx s = tip_index m) ∧
    polls U m max (dist m s) s = Sub (tip_index m) (best m).
Proof. exact catches_up_quiescent. Qed.
Print Assumptions C04_catches_up.

(** Interleaved with any further submissions and reorgs (every history of AddBlocks /
    AddValidatedV2Blocks calls and polls of any size, from nothing): the subscriber invariant
    holds after every step, the next poll of any size succeeds (never an error, never a gap)
    and lowers the measure, and the subscriber's index is a block the store holds with its
    supplement. *)
Theorem C04_catches_up_interleaved :
  ∀ U, WF U → ∀ hs, Forall (hop_ok U) hs →
    let st := hrun U hs in
    SubInv U st.1 st.2 ∧
    (∀ max, ∃ s', poll U st.1 st.2 max = POk s' ∧ dist st.1 s' = (dist st.1 st.2 - max)%nat) ∧
    (st.2 = sub0 ∨ ∃ b, s_idx st.2 = idx_of U b ∧ has_supp st.1 b = true).
Proof. exact catches_up_interleaved. Qed.
Print Assumptions C04_catches_up_interleaved.

(** The same from any index a subscriber previously reached: a block of the best chain of
    some state satisfies the invariant there, and the invariant (with the manager's) is kept
    by every later step. *)
Theorem C04_from_any_reached_index :
  ∀ U, WF U →
    (∀ m pre b rest, best m = pre ++ b :: rest → SubInv U m (Sub (idx_of U b) (b :: rest))) ∧
    (∀ hs st, HInv U st → Forall (hop_ok U) hs → HInv U (hrun_from U st hs)).
Proof. exact from_any_reached_index. Qed.
Print Assumptions C04_from_any_reached_index.

(** The applies minus the reverts, folded from the empty index through any such history,
    are a parent-linked chain from genesis ending at the subscriber's index, and equal the
    best chain whenever the index is the tip. *)
Theorem C04_path_is_chain :
  ∀ U, WF U → ∀ hs, Forall (hop_ok U) hs →
    let st := hrun U hs in
    (st.2 = sub0 ∨ (chain U (s_shadow st.2) ∧ s_idx st.2 = idx_of U (hd genesis (s_shadow st.2)))) ∧
    (s_idx st.2 = tip_index st.1 → s_shadow st.2 = best st.1).
Proof. exact path_is_chain. Qed.
Print Assumptions C04_path_is_chain.

(** An index whose id the store does not hold (records are never deleted, so: never held)
    returns an error for every [max ≥ 1], never a path. *)
Theorem C04_unknown_index_is_error :
  ∀ U m h b max,
    MInv U m → known m !! b = None → (1 ≤ max)%nat →
    updates_since U m (Some (h, b)) max = UErr.
Proof. exact unknown_index_is_error. Qed.
Print Assumptions C04_unknown_index_is_error.

(** For every step of a history — a call on the manager, a poll, or a pool submission
    (accepted or not) — the OnReorg listeners are invoked iff the step changed the tip; polls
    and pool submissions leave the manager's chain state untouched (so they never notify). *)
Theorem C04_notify_iff_tip_changed :
  ∀ U, WF U → ∀ hs h,
    ops_pre U (mops_of hs) → (∀ o, h = HOp o → op_pre U o) →
    (hnotifies U (hrun U hs).1 h = true ↔ tip (hstep U (hrun U hs) h).1 ≠ tip (hrun U hs).1) ∧
    ((∀ o, h ≠ HOp o) → (hstep U (hrun U hs) h).1 = (hrun U hs).1).
Proof. exact notify_iff_tip_changed_hist. Qed.
Print Assumptions C04_notify_iff_tip_changed.
