(** * Props/C07.v — Wallet funding never double-allocates, conserves value, and yields valid spends.
    Only the property theorems; each is closed by [exact] and followed by Print Assumptions.
    The model is Wallet/Fund.v (one exported wallet call = one step, so a sequence of steps
    is an interleaving of the atomic calls); the theorems hold for every state, every
    setting of the options and every operation sequence.  Acceptance of the signed
    transaction by the real pool and the Go scheduler are exercised by the harness. *)
From Coq Require Import ZArith NArith List.
From stdpp Require Import gmap.
From CV Require Import Wallet.Fund Wallet.FundProofs.
Local Open Scope Z_scope.

(** Every selected input is a stored unspent output of the wallet that is mature, spent by
    no pool transaction and not reserved - or, only with useUnconfirmed, an output paid to
    the wallet by a pool transaction of the same version that no later pool transaction
    spends and that is not reserved. *)
Theorem C07_selected_eligible :
  ∀ s amount inputs unc v2 sel sum,
    select_utxos s amount inputs unc v2 = Some (sel, sum) →
    ∀ u, u ∈ sel → spendable s u ∨ (unc = true ∧ unconfirmed_ok s v2 u).
Proof. exact selected_eligible. Qed.
Print Assumptions C07_selected_eligible.

(** No input twice in one transaction (with useUnconfirmed: provided pool-created ids are
    not ids of confirmed outputs). *)
Theorem C07_selected_nodup :
  ∀ s amount inputs unc v2 sel sum,
    (unc = true → fresh_pool_ids s) →
    select_utxos s amount inputs unc v2 = Some (sel, sum) → NoDup (map u_id sel).
Proof. exact selected_nodup. Qed.
Print Assumptions C07_selected_nodup.

(** From any state, after any sequence of Fund / Redistribute / SplitUTXO / ReleaseInputs /
    time / pool / block / restart steps, the inputs of any two transactions that are still
    outstanding (returned by the wallet, not released, reservation period not over, no
    restart since) are disjoint. *)
Theorem C07_outstanding_disjoint :
  ∀ s0 ops i j f1 f2,
    i ≠ j →
    outstanding (grun (s0, []) ops) !! i = Some f1 →
    outstanding (grun (s0, []) ops) !! j = Some f2 →
    f_ins f1 ## f_ins f2.
Proof. exact outstanding_disjoint. Qed.
Print Assumptions C07_outstanding_disjoint.

(** ... because every input of an outstanding transaction is still reserved. *)
Theorem C07_outstanding_reserved :
  ∀ s0 ops f x,
    f ∈ outstanding (grun (s0, []) ops) → x ∈ f_ins f →
    is_locked (grun (s0, []) ops).1 x = true.
Proof. exact outstanding_reserved. Qed.
Print Assumptions C07_outstanding_reserved.

(** Selected inputs = amount + change, change >= 0 (values are currencies); the basis
    handed back with the transaction is the tip of the store snapshot [s] the inputs (and
    their Merkle proofs) were taken from. *)
Theorem C07_conservation :
  ∀ s v2 amount existing unc sel sum,
    vals_nonneg s → select_utxos s amount existing unc v2 = Some (sel, sum) →
    ∃ change, (fund s v2 amount existing unc).2 = RFund (map u_id sel) change (tip_h s) ∧
              0 ≤ change ∧ sum_vals sel = amount + change.
Proof. exact fund_conservation. Qed.
Print Assumptions C07_conservation.

(** The basis returned by FundTransaction / FundV2Transaction is the store's tip - the
    snapshot [s] whose stored outputs (C07_selected_eligible) and proofs went into the
    transaction - whatever the manager's tip is (the manager does not occur in the model). *)
Theorem C07_basis_is_store_tip :
  ∀ s v2 amount existing unc s' sel change b,
    fund s v2 amount existing unc = (s', RFund sel change b) → b = tip_h s.
Proof. exact fund_basis. Qed.
Print Assumptions C07_basis_is_store_tip.

(** Every transaction returned by Redistribute: inputs = outputs * amount + fee + change;
    its inputs are spendable and no input occurs twice in the whole set returned. *)
Theorem C07_conservation_redistribute :
  ∀ s outputs amount fee_in fee_out s' txs,
    redistribute s outputs amount fee_in fee_out = (s', RRedist txs) →
    ∃ full : list (list utxo * rtx),
      txs = map snd full ∧
      Forall (λ t, r_ins t.2 = map u_id t.1 ∧ 0 ≤ r_change t.2 ∧
                   sum_vals t.1 = amount * r_nout t.2 + r_fee t.2 + r_change t.2) full ∧
      (∀ u, u ∈ concat (map fst full) → spendable s u) ∧
      NoDup (map u_id (concat (map fst full))).
Proof. exact redistribute_sound. Qed.
Print Assumptions C07_conservation_redistribute.

(** SplitUTXO: the input is spendable (or an unreserved unconfirmed v2 output) and is worth
    the fee plus the outputs. *)
Theorem C07_conservation_split :
  ∀ s n min_amount fee txid new_ids s' i outs,
    split s n min_amount fee txid new_ids = (s', RSplit (Some (i, outs))) →
    ∃ l, u_id l = i ∧ (spendable s l ∨ unconfirmed_ok s true l) ∧
         u_val l = fee + fold_right Z.add 0 outs.
Proof. exact split_sound. Qed.
Print Assumptions C07_conservation_split.

(** The fuelled loop of the Redistribute model never runs out of fuel. *)
Theorem C07_redistribute_fuel :
  ∀ s outputs amount fee_in fee_out,
    let '(us, outputs') := redist_candidates s outputs amount in
    redist_loop (Z.to_nat outputs') outputs' amount fee_in
      (λ k, nth (Z.to_nat k) fee_out 0) us [] ≠ None.
Proof. exact redistribute_fuel. Qed.
Print Assumptions C07_redistribute_fuel.

(** A call that returns an error leaves the whole wallet state as it was. *)
Theorem C07_failure_reserves_nothing :
  ∀ s o s', step s o = (s', RErr) → s' = s.
Proof. exact failure_reserves_nothing. Qed.
Print Assumptions C07_failure_reserves_nothing.

(** ReleaseInputs frees exactly the ids it is given; a reservation is in force as soon as
    it is made and is over once the reservation period has passed. *)
Theorem C07_release_and_expiry :
  (∀ s ids i, i ∈ ids → is_locked (release s ids) i = false) ∧
  (∀ s ids i, i ∉ ids → is_locked (release s ids) i = is_locked s i) ∧
  (∀ s ids i, (0 < c_resv (conf s))%N → i ∈ ids → is_locked (lock_utxos s ids) i = true) ∧
  (∀ s ids i d, i ∈ ids → (c_resv (conf s) ≤ d)%N →
     is_locked (step (lock_utxos s ids) (Tick d)).1 i = false).
Proof. exact release_and_expiry. Qed.
Print Assumptions C07_release_and_expiry.

(** In every state: Balance().Spendable is the sum of SpendableOutputs(), which are exactly
    the spendable outputs and exactly the candidates of selectUTXOs; and a positive amount
    can be funded (without unconfirmed outputs) iff it does not exceed Balance().Spendable. *)
Theorem C07_views_agree :
  ∀ s,
    b_spendable (balance s) = sum_vals (spendable_outputs s) ∧
    spendable_outputs s = eligible s ∧
    (∀ u, u ∈ spendable_outputs s ↔ spendable s u) ∧
    (vals_nonneg s → ∀ amount inputs v2, 0 < amount →
       (is_Some (select_utxos s amount inputs false v2) ↔ amount ≤ b_spendable (balance s))).
Proof. exact views_agree. Qed.
Print Assumptions C07_views_agree.

(** The selection as it was before the repair (commit 4613102) returns an input twice: six
    outputs, DefragThreshold 3, amount = balance gives 12 inputs. *)
Theorem C07_defrag_prefix_refuted :
  ∃ s amount inputs sel sum,
    select_utxos_prefix s amount inputs false true = Some (sel, sum) ∧
    length sel = 12%nat ∧ ¬ NoDup (map u_id sel).
Proof. exact defrag_prefix_refuted. Qed.
Print Assumptions C07_defrag_prefix_refuted.
