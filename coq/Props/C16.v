(** * Props/C16.v — Contract formation/renewal yields a confirmable contract or leaves no trace.
    Only the property theorems; each is closed by [exact] and followed by Print Assumptions.
    [host_run true] / [renter_run true] / [attempt true] are the repository with the two C16
    repairs, [false] the code before them.  Host theorems hold for every environment and for
    every pair of messages the renter side sends ([None]: the stream was closed or the
    message did not decode); renter theorems for every pair the host side sends. *)
From stdpp Require Import gmap.
From Coq Require Import ZArith NArith List.
From CV Require Import RHP.Form RHP.FormProofs.
Import ListNotations.
Local Open Scope Z_scope.

(** Success: if the renter function reports success over a stream that may be cut at any
    of the four messages, the host committed too, both hold the same contract, it carries
    both parties' signatures (symbolic: only the key holders can have produced them) over
    exactly the terms the renter asked for, and the set containing it passed the host's
    pool before it was recorded and broadcast. *)
Theorem C16_success_agreement :
  ∀ fixed k e re sc h r t,
    ro_ok (ao_renter (attempt fixed k e re sc h r t)) = true →
    ho_ok (ao_host (attempt fixed k e re sc h r t)) = true ∧
    ∃ c set,
      r_contracts (ro_renter (ao_renter (attempt fixed k e re sc h r t))) = c :: r_contracts r ∧
      h_contracts (ho_host (ao_host (attempt fixed k e re sc h r t))) = c :: h_contracts h ∧
      doubly_signed k c ∧ co_terms c = t ∧ ct_rk t = r_key r ∧ ct_hk t = h_key h ∧
      at_contract (ts_txn set) = c ∧ e_pool_ok e = true ∧
      h_pool (ho_host (ao_host (attempt fixed k e re sc h r t))) = set :: h_pool h ∧
      h_bcast (ho_host (ao_host (attempt fixed k e re sc h r t))) = set :: h_bcast h.
Proof. exact attempt_success_agreement. Qed.
Print Assumptions C16_success_agreement.

(** Whatever the renter side sends: a host run that commits recorded exactly one contract,
    built with the host's own key from the request, signed by the key the request names and
    by the host, after the pool accepted the set, and it answers with that set. *)
Theorem C16_success_host_commit :
  ∀ fixed k e h m1 m2,
    ho_ok (host_run fixed k e h m1 m2) = true →
    ∃ r s sel w' c,
      m1 = Some r ∧ m2 = Some s ∧
      fund (h_wallet h) (ct_hfund (rq_terms r)) false = Some (sel, w') ∧
      ho_host (host_run fixed k e h m1 m2) =
        mk_host (h_key h) w' (c :: h_contracts h)
          (mk_tset (e_tip e) (rq_parents r) (mk_atxn c (pids (rq_inputs r)) (uids sel)) :: h_pool h)
          (mk_tset (e_tip e) (rq_parents r) (mk_atxn c (pids (rq_inputs r)) (uids sel)) :: h_bcast h) ∧
      sent_final (ho_sent (host_run fixed k e h m1 m2)) =
        Some (mk_final (e_tip e) (S (rq_parents r)) true (mk_atxn c (pids (rq_inputs r)) (uids sel))) ∧
      ho_funded (host_run fixed k e h m1 m2) = sel ∧
      co_terms c = host_terms h r ∧ co_rsig c = rs_csig s ∧ doubly_signed k c ∧
      e_pool_ok e = true.
Proof. exact host_success. Qed.
Print Assumptions C16_success_host_commit.

(** The basis and set a committed run returns are the basis and set its pool accepted; the
    basis is the one the set's proofs were made for (the chain manager's tip). *)
Theorem C16_success_returns_pooled_set :
  ∀ fixed k e h m1 m2,
    ho_ok (host_run fixed k e h m1 m2) = true →
    ∃ set f, h_pool (ho_host (host_run fixed k e h m1 m2)) = set :: h_pool h ∧
      sent_final (ho_sent (host_run fixed k e h m1 m2)) = Some f ∧
      f_basis f = ts_basis set ∧ f_txn f = ts_txn set ∧ f_len f = S (ts_parents set) ∧
      ts_basis set = e_tip e.
Proof. exact host_success_returns_pooled. Qed.
Print Assumptions C16_success_returns_pooled_set.

(** Failure: any failed or abandoned attempt leaves the contractor (and what was broadcast,
    and the sets in the pool) unchanged. *)
Theorem C16_failure_no_contract :
  ∀ fixed k e h m1 m2,
    ho_ok (host_run fixed k e h m1 m2) = false →
    h_contracts (ho_host (host_run fixed k e h m1 m2)) = h_contracts h ∧
    h_bcast (ho_host (host_run fixed k e h m1 m2)) = h_bcast h ∧
    h_pool (ho_host (host_run fixed k e h m1 m2)) = h_pool h.
Proof. exact host_failure_no_contract. Qed.
Print Assumptions C16_failure_no_contract.

Theorem C16_failure_no_contract_renter :
  ∀ fixed k re r t m2 m4,
    ro_ok (renter_run fixed k re r t m2 m4) = false →
    r_contracts (ro_renter (renter_run fixed k re r t m2 m4)) = r_contracts r.
Proof. exact renter_failure_no_contract. Qed.
Print Assumptions C16_failure_no_contract_renter.

(** Failure: after any failed or abandoned attempt the host's wallet — utxos and locked
    set — is exactly what it was before. *)
Theorem C16_failure_releases_reservations :
  ∀ k e h m1 m2,
    ho_ok (host_run true k e h m1 m2) = false →
    h_wallet (ho_host (host_run true k e h m1 m2)) = h_wallet h.
Proof. exact host_failure_releases. Qed.
Print Assumptions C16_failure_releases_reservations.

(** The call trace of any failed run of the repaired handlers has the shape the checker
    accepts for a failed attempt whatever the stage of the refusal: calls in handler order,
    stopping at the first failing call, nothing recorded / pooled / broadcast, exactly the
    funded inputs released. *)
Theorem C16_failure_trace_admissible :
  ∀ k e h m1 m2,
    ho_ok (host_run true k e h m1 m2) = false →
    admissible_failure k (ho_calls (host_run true k e h m1 m2)) = true.
Proof. exact host_failure_admissible. Qed.
Print Assumptions C16_failure_trace_admissible.

(** ... and the renter's: nothing it reserved stays locked; the locked set is the old one
    up to ids the host side named as its inputs (the function releases those too), hence
    equal to it when the host named none of the renter's locked outputs. *)
Theorem C16_failure_releases_reservations_renter :
  ∀ k re r t m2 m4,
    ro_ok (renter_run true k re r t m2 m4) = false →
    let w' := r_wallet (ro_renter (renter_run true k re r t m2 m4)) in
    w_utxos w' = w_utxos (r_wallet r) ∧
    w_locked w' ⊆ w_locked (r_wallet r) ∧
    w_locked (r_wallet r) ∖ list_to_set (named m2) ⊆ w_locked w'.
Proof. exact renter_failure_releases. Qed.
Print Assumptions C16_failure_releases_reservations_renter.

Theorem C16_failure_releases_reservations_renter_exact :
  ∀ k re r t m2 m4,
    ro_ok (renter_run true k re r t m2 m4) = false →
    (∀ i, i ∈ named m2 → i ∉ w_locked (r_wallet r)) →
    r_wallet (ro_renter (renter_run true k re r t m2 m4)) = r_wallet r.
Proof. exact renter_failure_releases_exact. Qed.
Print Assumptions C16_failure_releases_reservations_renter_exact.

(** Both parties over one stream: a failure on either side leaves that side without a
    contract and without a reservation. *)
Theorem C16_failure_no_trace :
  ∀ k e re sc h r t,
    let a := attempt true k e re sc h r t in
    (ho_ok (ao_host a) = false →
       h_contracts (ho_host (ao_host a)) = h_contracts h ∧ h_wallet (ho_host (ao_host a)) = h_wallet h) ∧
    (ro_ok (ao_renter a) = false →
       r_contracts (ro_renter (ao_renter a)) = r_contracts r ∧
       w_locked (r_wallet (ro_renter (ao_renter a))) ⊆ w_locked (r_wallet r)).
Proof. exact attempt_failure_no_trace. Qed.
Print Assumptions C16_failure_no_trace.

(** Corollary over n attempts: any number of failing attempts — of any kind, with any
    messages, in any environment — leaves wallet and contractor of the host as they were,
    so its spendable outputs never shrink. *)
Theorem C16_failures_never_shrink_spendable :
  ∀ l h h' oks,
    host_attempts true h l = (h', oks) → Forall (λ b, b = false) oks →
    h_wallet h' = h_wallet h ∧ h_contracts h' = h_contracts h.
Proof. exact host_attempts_failures. Qed.
Print Assumptions C16_failures_never_shrink_spendable.

(** Success keeps locked exactly what was funded: the party's own outputs, spendable
    before, covering its share. *)
Theorem C16_success_keeps_only_own_inputs_locked :
  ∀ fixed k e h m1 m2,
    ho_ok (host_run fixed k e h m1 m2) = true →
    ∃ r, m1 = Some r ∧
      let sel := ho_funded (host_run fixed k e h m1 m2) in
      let w' := h_wallet (ho_host (host_run fixed k e h m1 m2)) in
      w_utxos w' = w_utxos (h_wallet h) ∧
      w_locked w' = w_locked (h_wallet h) ∪ list_to_set (uids sel) ∧
      (∀ u, In u sel → In u (w_utxos (h_wallet h)) ∧ u_id u ∉ w_locked (h_wallet h)) ∧
      (0 < ct_hfund (rq_terms r) → ct_hfund (rq_terms r) ≤ usum sel).
Proof. exact host_success_locks. Qed.
Print Assumptions C16_success_keeps_only_own_inputs_locked.

Theorem C16_success_keeps_only_own_inputs_locked_renter :
  ∀ fixed k re r t m2 m4,
    ro_ok (renter_run fixed k re r t m2 m4) = true →
    let sel := ro_funded (renter_run fixed k re r t m2 m4) in
    let w' := r_wallet (ro_renter (renter_run fixed k re r t m2 m4)) in
    w_utxos w' = w_utxos (r_wallet r) ∧
    w_locked w' = w_locked (r_wallet r) ∪ list_to_set (uids sel) ∧
    (∀ u, In u sel → In u (w_utxos (r_wallet r)) ∧ u_id u ∉ w_locked (r_wallet r)) ∧
    (0 < ct_rfund t → ct_rfund t ≤ usum sel).
Proof. exact renter_success_locks. Qed.
Print Assumptions C16_success_keeps_only_own_inputs_locked_renter.

(** The code before the repairs does not satisfy the release theorems (F7): in each of the
    three handlers a request whose basis cannot be rebased leaves host outputs locked, and
    repeating it exhausts the host's spendable outputs; a failed request naming an output
    reserved for another exchange unlocked it; the renew and refresh renter
    functions kept their inputs locked when dialing failed. *)
Theorem C16_release_prefix_refuted :
  ∀ k, ∃ e h m1 m2,
    ho_ok (host_run false k e h m1 m2) = false ∧
    w_locked (h_wallet (ho_host (host_run false k e h m1 m2))) ≠ w_locked (h_wallet h).
Proof. exact release_prefix_refuted. Qed.
Print Assumptions C16_release_prefix_refuted.

Theorem C16_release_prefix_overrelease_refuted :
  ∀ k, ∃ e h m1 m2,
    ho_ok (host_run false k e h m1 m2) = false ∧
    (9%N ∈ w_locked (h_wallet h)) ∧
    ¬ (9%N ∈ w_locked (h_wallet (ho_host (host_run false k e h m1 m2)))).
Proof. exact release_prefix_overrelease_refuted. Qed.
Print Assumptions C16_release_prefix_overrelease_refuted.

Theorem C16_release_prefix_exhausts_refuted :
  ∃ l h, Forall (λ b, b = false) (snd (host_attempts false h l)) ∧
         spendable (h_wallet h) ≠ [] ∧ spendable (h_wallet (fst (host_attempts false h l))) = [].
Proof. exact release_prefix_exhausts. Qed.
Print Assumptions C16_release_prefix_exhausts_refuted.

Theorem C16_renter_dial_prefix_refuted :
  ∀ k, is_renewal k = true →
    ∃ re r t, ro_ok (renter_run false k re r t None None) = false ∧
      w_locked (r_wallet (ro_renter (renter_run false k re r t None None))) ≠ w_locked (r_wallet r).
Proof. exact renter_dial_prefix_refuted. Qed.
Print Assumptions C16_renter_dial_prefix_refuted.
