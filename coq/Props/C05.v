(** * Props/C05.v — The transaction pool is always a valid, minable continuation of the tip.
    Only the property theorems; each is closed by [exact] and followed by Print Assumptions.
    All statements are about the pool model [Chain/Pool.v] (the repaired code) that the
    harness validates against the real chain.Manager and coreutils.MineBlock after every
    call.  A history [ops] is any list of v1/v2 submissions (a v2 submission carries whatever
    rebasing produced), block steps (any sequence of per-block proof updates, any re-offered
    lists, any new ledger) and queries, from an empty pool.  The transactions that occur
    come from a universe [U] in which an id determines the transaction up to proof data
    ([ids_inj]: ids are hashes). *)
From Coq Require Import NArith List.
From stdpp Require Import gmap.
From CV Require Import Chain.Pool Chain.PoolProofs.
Import ListNotations.
Open Scope N_scope.

(** Every prefix of PoolTransactions ++ V2PoolTransactions is sequentially valid for the
    ledger of the tip: inputs exist or were created earlier in the sequence, nothing is
    spent twice, v2 leaf indices and proofs are the tip's. *)
Theorem C05_reported_pool_prefix_valid :
  ∀ mw U L0 ops, ids_inj U → Forall (op_in U) ops →
    let s := nrun mw L0 ops in
    ∀ pre, pre `prefix_of` reported mw s → valid_seq s.1 pre.
Proof. exact reported_pool_prefix_valid. Qed.
Print Assumptions C05_reported_pool_prefix_valid.

(** The block MineBlock assembles (v1 prefix, its own arbitrary-data transaction, v2 prefix,
    up to the weight limit) has a valid body — under law L3 about go.sia.tech/core (a
    sequentially valid, in-weight list makes a valid block body), which the harness
    re-checks on every run.  [mw] is the block weight limit, [capw] a tenth of the pool's
    capacity (ten blocks by default, so [capw = mw] there; any capacity will do). *)
Theorem C05_mined_block_accepted :
  ∀ (body_ok : ledger → list atx → bool) (mw : N),
    (∀ L ts, valid_seq L ts → total_weight ts ≤ mw → body_ok L ts = true) →
    ∀ capw U L0 ops arb v2a, ids_inj U → Forall (op_in U) ops →
      let s := nrun capw L0 ops in
      a_ins arb = [] → a_outs arb = [] → (v2a = true → static_ok (l_h s.1) arb = true) →
      a_weight arb ≤ mw →
      body_ok s.1 (mine_block mw v2a arb (pool_transactions s.1 capw s.2) (v2_pool_transactions s.1 capw s.2)) = true.
Proof. exact mined_block_accepted. Qed.
Print Assumptions C05_mined_block_accepted.

(** Retention: after any block step from a queried state whose pool is not full, every
    reported transaction of [goods] is still reported — [goods] are the transactions whose
    height window contains the new height and whose every input, after the proof moves of
    the path ([moved]: dropped when a confirmed input's leaf leaves the accumulator, i.e. is
    un-created, also transiently), is an unspent element of the new ledger (so neither
    spent nor un-created, and the transaction itself not confirmed) or an output of an
    earlier such transaction (for a revision: with a revision number above the ledger's).
    Hypothesis: a re-offered v1 transaction of the last reverted block that re-enters the
    pool spends nothing a pooled v2 transaction uses (v1 transactions are validated first;
    such a transaction was confirmed below the old tip; re-checked by the harness at every
    tip change). *)
Theorem C05_retention :
  ∀ mw U L0 ops steps lr L',
    ids_inj U → Forall (op_in U) ops → op_in U (OChain steps lr L') →
    let s := nrun mw L0 ops in
    let q := revalidate s.1 mw s.2 in
    let p1 := chain_step steps lr q in
    weight q < mw * 10 →
    (∀ x u i, x ∈ last_rev p1 → x ∈ pool_transactions L' mw p1 →
              u ∈ v2txns q → i ∈ a_ins u → is_ref i = false → i_el i ∉ spends x) →
    ∀ t, t ∈ goods L' steps (txns q ++ v2txns q) → t ∈ reported mw (L', p1).
Proof. exact retention. Qed.
Print Assumptions C05_retention.

(** Finding F9, kept about the code before the repair ([chain_step_prefix]: the leaf test
    ran before the ephemeral sentinel was considered): one unrelated block drops the pooled
    child of an unconfirmed parent, although it is in [goods]; the repaired step keeps it. *)
Theorem C05_retention_prefix_refuted :
  let s := nrun exMW exL ex_ops in
  let q := revalidate s.1 exMW s.2 in
  tC ∈ goods exL' ex_step (txns q ++ v2txns q) ∧
  tC ∈ reported exMW (exL', chain_step ex_step None q) ∧
  tC ∉ reported exMW (exL', chain_step_prefix ex_step None q).
Proof. exact retention_prefix_refuted. Qed.
Print Assumptions C05_retention_prefix_refuted.

(** Finding F19, kept about MineBlock before the repair (its own transaction not counted):
    a pool prefix of weight 95 under a limit of 100 gives a block of weight 107. *)
Theorem C05_mined_block_prefix_refuted :
  total_weight (mine_block_prefix 100 true tArb [] [tBig]) = 107 ∧
  total_weight (mine_block 100 true tArb [] [tBig]) = 12.
Proof. exact mined_block_prefix_refuted. Qed.
Print Assumptions C05_mined_block_prefix_refuted.
