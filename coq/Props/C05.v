From Coq Require Import NArith List.
From stdpp Require Import gmap.
From CV Require Import Chain.Pool Chain.PoolProofs.
Theorem C05_placeholder : ∀ L mw p, is_Some (ms (revalidate L mw p)).
Proof. exact revalidate_ms. Qed.
Print Assumptions C05_placeholder.
