(** * Props/C15.v — Accounts and pools are a conserved ledger; service is paid before delivery.
    Only the property theorems; each is closed by [exact] and followed by Print Assumptions.
    The model is RHP/Accounts.v (one RPC = one step); [inv] is the invariant of every
    reachable state (C15_reachable_inv), so the step theorems hold after every operation
    sequence. *)
From Coq Require Import ZArith NArith List.
From stdpp Require Import gmap.
From CV Require Import RHP.Accounts RHP.AccountsProofs.
Open Scope Z_scope.

(** Every state reached from an empty ledger by any sequence of well-formed RPCs
    (amounts are non-negative currencies) satisfies the invariant. *)
Theorem C15_reachable_inv : ∀ s, reachable s → inv s.
Proof. exact reachable_inv. Qed.
Print Assumptions C15_reachable_inv.

(** Σ balances = Σ credited − Σ debited, and Σ credited = Σ of what the persisted
    revisions moved out of the renter outputs = Σ of what they moved into the host
    outputs, for every operation sequence over any contract table. *)
Theorem C15_conservation :
  ∀ cs secs ops s outs,
    funded cs → Forall wf_op ops → run (start cs secs) ops = (s, outs) →
    total s = credited (events_of outs) - debited (events_of outs) ∧
    credited (events_of outs) = moved_from_renter (events_of outs) ∧
    credited (events_of outs) = moved_to_host (events_of outs) ∧
    renter_total s = msum c_renter cs - credited (events_of outs) ∧
    host_total s = msum c_host cs + credited (events_of outs).
Proof. exact conservation. Qed.
Print Assumptions C15_conservation.

(** Credits are matched one-to-one by renter-signed revisions: a step that credits
    anything persists exactly one revision of one contract, whose renter output fell and
    host output rose by exactly the credited total, signed by that contract's renter key;
    and that contract is still revisable at the host (not renewed, proof height not reached). *)
Theorem C15_credit_matched_by_signed_revision :
  ∀ s o s' evs r,
    step s o = (s', (evs, r)) → credited evs ≠ 0 ∨ (∃ pool k amt, EvCredit pool k amt ∈ evs) →
    ∃ pool cid deps existing rev,
      contracts s !! cid = Some existing ∧
      contracts s' = <[cid := rev]> (contracts s) ∧
      evs = map (λ d : N * Z, EvCredit pool d.1 d.2) deps ++ [EvRevise cid (credited evs) (credited evs)] ∧
      credited evs = sum_amounts deps ∧
      c_renter rev = c_renter existing - credited evs ∧
      c_host rev = c_host existing + credited evs ∧
      c_revnum rev = N.succ (c_revnum existing) ∧
      c_rkey rev = c_rkey existing ∧
      0 ≤ c_renter rev ∧
      c_revisable existing = true ∧ c_revisable rev = true ∧
      rsig_of o = Sig (c_rkey existing) (MRevision cid (c_revnum rev) (c_renter rev) (c_host rev)).
Proof. exact credit_matched_by_signed_revision. Qed.
Print Assumptions C15_credit_matched_by_signed_revision.

(** Balances change only in a step that persists such a revision or debits the priced cost. *)
Theorem C15_balances_change_only_by_credit_or_debit :
  ∀ s o s' evs r,
    step s o = (s', (evs, r)) → accounts s' ≠ accounts s ∨ pools s' ≠ pools s →
    (∃ c x y, EvRevise c x y ∈ evs) ∨ (∃ a c, charge o = Some (a, c) ∧ EvDebit a c ∈ evs).
Proof. exact balances_change_only_by_credit_or_debit. Qed.
Print Assumptions C15_balances_change_only_by_credit_or_debit.

Theorem C15_nonnegative :
  ∀ cs secs ops s outs,
    funded cs → Forall wf_op ops → run (start cs secs) ops = (s, outs) →
    (∀ k, 0 ≤ bal (accounts s) k) ∧ (∀ k, 0 ≤ bal (pools s) k) ∧
    (∀ c con, contracts s !! c = Some con → 0 ≤ c_renter con).
Proof. exact nonnegative. Qed.
Print Assumptions C15_nonnegative.

(** Drawable funds (own balance plus all attached pools) below the cost: the state is
    unchanged, nothing is read or stored, nothing is debited, the client gets an error. *)
Theorem C15_insufficient_no_service_no_debit :
  ∀ s o a cost,
    inv s → charge o = Some (a, cost) → drawable s a < cost → step s o = (s, ([], RErr)).
Proof. exact insufficient_no_service_no_debit. Qed.
Print Assumptions C15_insufficient_no_service_no_debit.

(** Any failed RPC (bad signature, unknown contract, missing sector, ...) changes nothing. *)
Theorem C15_failed_rpc_changes_nothing :
  ∀ s o s' evs, step s o = (s', (evs, RErr)) → s' = s ∧ evs = [].
Proof. exact failed_rpc_changes_nothing. Qed.
Print Assumptions C15_failed_rpc_changes_nothing.

(** A step that reads or stores a sector has debited the account first: its recorded
    calls are exactly [DebitAccount; service], and the ledger fell by the cost. *)
Theorem C15_debit_precedes_service :
  ∀ s o s' evs r e,
    inv s → wf_op o → step s o = (s', (evs, r)) → e ∈ evs → is_service e = true →
    ∃ a cost, charge o = Some (a, cost) ∧ evs = [EvDebit a cost; e] ∧ r = ROk [] ∧
              cost ≤ drawable s a ∧ total s' = total s - cost.
Proof. exact debit_precedes_service. Qed.
Print Assumptions C15_debit_precedes_service.

(** A priced RPC either fails without any effect or debits exactly its cost and then
    carries the service out; no other RPC debits. *)
Theorem C15_debit_equals_price :
  ∀ s o s' evs r,
    inv s → wf_op o → step s o = (s', (evs, r)) →
    match charge o with
    | Some (a, cost) =>
        (r = RErr ∧ s' = s ∧ evs = []) ∨
        (r = ROk [] ∧ cost ≤ drawable s a ∧ total s' = total s - cost ∧ debited evs = cost ∧
         ∃ e, is_service e = true ∧ evs = [EvDebit a cost; e])
    | None => debited evs = 0
    end.
Proof. exact debit_equals_price. Qed.
Print Assumptions C15_debit_equals_price.

(** Sufficient funds are the only precondition of service (given a valid token and, for
    reads, a stored sector). *)
Theorem C15_sufficient_funds_served :
  ∀ s o a cost,
    inv s → charge o = Some (a, cost) → 0 ≤ cost → cost ≤ drawable s a →
    (∀ tok sector, o = ReadSec a tok sector cost ∨ o = VerifySec a tok sector cost ∨ o = WriteSec a tok sector cost →
       token_ok a tok = true ∧ (o = WriteSec a tok sector cost ∨ sector ∈ sectors s)) →
    ∃ s' e, step s o = (s', ([EvDebit a cost; e], ROk [])) ∧ is_service e = true.
Proof. exact sufficient_funds_served. Qed.
Print Assumptions C15_sufficient_funds_served.

(** The debit takes the account's own balance first, then the attached pools in
    attachment order, and touches no other account or pool. *)
Theorem C15_debit_order :
  ∀ s o s' evs r a cost,
    inv s → wf_op o → step s o = (s', (evs, r)) → charge o = Some (a, cost) → r ≠ RErr →
    bal (accounts s') a = bal (accounts s) a - Z.min (bal (accounts s) a) cost ∧
    (∀ k, k ≠ a → bal (accounts s') k = bal (accounts s) k) ∧
    (∀ q, q ∉ links s a → bal (pools s') q = bal (pools s) q) ∧
    (∀ pre p post, links s a = pre ++ p :: post →
       bal (pools s') p = bal (pools s) p -
         Z.min (bal (pools s) p) (Z.max 0 (cost - bal (accounts s) a - pool_sum (pools s) pre))).
Proof. exact debit_order. Qed.
Print Assumptions C15_debit_order.

(** Replenishing tops every listed account (or pool) up to, and never beyond, the target,
    however often it is listed; everything else keeps its balance. *)
Theorem C15_replenish_to_target :
  ∀ s pool cid keys target chal rsig s' evs r,
    step s (Replenish pool cid keys target chal rsig) = (s', (evs, r)) →
    (r = RErr → s' = s) ∧
    (r ≠ RErr →
       (∀ k, bal (if pool then pools s' else accounts s') k =
             if decide (k ∈ keys) then Z.max (bal (if pool then pools s else accounts s) k) target
             else bal (if pool then pools s else accounts s) k) ∧
       (if pool then accounts s' = accounts s else pools s' = pools s)).
Proof. exact replenish_to_target. Qed.
Print Assumptions C15_replenish_to_target.

(** The deposit rule of the handlers before the repair (each deposit against the balance
    read before the batch) exceeds the target for an account listed twice: finding F13. *)
Theorem C15_replenish_prefix_refuted :
  ∃ (m : gmap N Z) (keys : list N) (target : Z) (k : N),
    k ∈ keys ∧
    Z.max (bal m k) target <
    bal (credit_all m (replenish_deposits_prefix target (map (λ k, (k, bal m k)) keys))).1 k.
Proof. exact replenish_prefix_refuted. Qed.
Print Assumptions C15_replenish_prefix_refuted.

(** The attachments change only through an attach whose every entry is signed by its
    pool's key, or a detach whose every entry is signed by the pool's or the account's
    key, over exactly that (kind, account, pool, deadline), before the deadline. *)
Theorem C15_attach_detach_need_signature :
  ∀ s o s' evs r,
    step s o = (s', (evs, r)) → attached s' ≠ attached s →
    (∃ es, o = Attach es ∧ Forall attach_authorized es) ∨
    (∃ es, o = Detach es ∧ Forall detach_authorized es).
Proof. exact attach_detach_need_signature. Qed.
Print Assumptions C15_attach_detach_need_signature.

Theorem C15_attach_detach_keep_balances :
  ∀ s es s' evs r,
    (step s (Attach es) = (s', (evs, r)) ∨ step s (Detach es) = (s', (evs, r))) →
    accounts s' = accounts s ∧ pools s' = pools s ∧ contracts s' = contracts s ∧
    credited evs = 0 ∧ debited evs = 0.
Proof. exact attach_detach_keep_balances. Qed.
Print Assumptions C15_attach_detach_keep_balances.

(** A detach removes exactly the named (account, pool) links; every other link of every
    account stays, in the order in which it was attached. *)
Theorem C15_detach_preserves_order :
  ∀ s es s' evs r,
    inv s → step s (Detach es) = (s', (evs, r)) →
    (r = RErr → ∀ a, links s' a = links s a) ∧
    (r ≠ RErr → ∀ a, links s' a = filter (λ q, (a, q) ∉ link_pairs es) (links s a)).
Proof. exact detach_preserves_order. Qed.
Print Assumptions C15_detach_preserves_order.

Theorem C15_detach_single_link :
  ∀ s e s' evs r a p pre post,
    inv s → step s (Detach [e]) = (s', (evs, r)) → r ≠ RErr →
    e_acct e = a → e_pool e = p → links s a = pre ++ p :: post →
    links s' a = pre ++ post ∧ ∀ b, b ≠ a → links s' b = links s b.
Proof. exact detach_single_link. Qed.
Print Assumptions C15_detach_single_link.

(** An attach never reorders: the old links stay a prefix, and exactly the requested links
    are added behind them. *)
Theorem C15_attach_appends :
  ∀ s es s' evs r,
    step s (Attach es) = (s', (evs, r)) →
    ∀ a, links s a `prefix_of` links s' a ∧
         ∀ q, q ∈ links s' a ↔ q ∈ links s a ∨ (r ≠ RErr ∧ (a, q) ∈ link_pairs es).
Proof. exact attach_appends. Qed.
Print Assumptions C15_attach_appends.

(** No crediting RPC (fund accounts, replenish accounts, replenish pools) succeeds against a
    contract that is no longer revisable: the state is unchanged and the client gets an error. *)
Theorem C15_unrevisable_contract_not_credited :
  ∀ s o cid con,
    contracts s !! cid = Some con → c_revisable con = false →
    (∃ deps rsig, o = Fund cid deps rsig) ∨
    (∃ pool keys target chal rsig, o = Replenish pool cid keys target chal rsig) →
    step s o = (s, ([], RErr)).
Proof. exact unrevisable_contract_not_credited. Qed.
Print Assumptions C15_unrevisable_contract_not_credited.

(** Once unrevisable, a contract stays unrevisable and none of its outputs moves again. *)
Theorem C15_unrevisable_contract_frozen :
  ∀ s o s' out cid con,
    contracts s !! cid = Some con → c_revisable con = false → step s o = (s', out) →
    ∃ con', contracts s' !! cid = Some con' ∧ c_revisable con' = false ∧
            c_renter con' = c_renter con ∧ c_host con' = c_host con ∧ c_revnum con' = c_revnum con.
Proof. exact unrevisable_contract_frozen. Qed.
Print Assumptions C15_unrevisable_contract_frozen.

(** DebitAccount is a single atomic step of the model: a successful debit removes exactly the
    price from funds that covered it, a refused one removes nothing.  (That the implementation's
    DebitAccount is one such step also under concurrent RPC streams is what the harness's
    concurrent section checks.) *)
Theorem C15_debit_atomic :
  ∀ s a cost,
    inv s → 0 ≤ cost →
    match debit s a cost with
    | Some s' => cost ≤ drawable s a ∧ total s' = total s - cost ∧
                 (∀ k, 0 ≤ bal (accounts s') k) ∧ (∀ k, 0 ≤ bal (pools s') k) ∧
                 attached s' = attached s ∧ contracts s' = contracts s ∧ sectors s' = sectors s
    | None => drawable s a < cost
    end.
Proof. exact debit_atomic. Qed.
Print Assumptions C15_debit_atomic.

(** An RPC whose request never arrives completely (the header, or the sector data of a write)
    is refused before anything is debited or stored. *)
Theorem C15_cut_stream_changes_nothing :
  ∀ s o, step s (Cut o) = (s, ([], RErr)).
Proof. exact cut_stream_changes_nothing. Qed.
Print Assumptions C15_cut_stream_changes_nothing.
