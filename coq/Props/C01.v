(** * Props/C01.v — Best chain is always fully valid, heaviest-known, and never loses work.
    Only the property theorems; each is closed by [exact] and followed by Print Assumptions.
    All statements are about the manager model [Chain/Manager.v] that the harness validates
    against the real chain.Manager after every call; they quantify over every well-formed
    universe [U] (record [WF]) and every operation list [ops] whose AddValidated batches
    satisfy the documented precondition ([ops_pre] / [validated_pre]). *)
From Coq Require Import NArith ZArith List.
From stdpp Require Import gmap.
From CV Require Import Chain.Manager Chain.ManagerProofs.
From CV Require Import Net.MgrLive Net.MgrLiveProofs.
Import ListNotations.
Open Scope N_scope.

(** The inductive invariant [MInv] (five conjuncts, see Chain/ManagerProofs.v) holds in
    every reachable state. *)
Theorem C01_best_chain_inv :
  ∀ U, WF U → ∀ ops, ops_pre U ops → MInv U (mrun U ops).
Proof. exact best_chain_inv. Qed.
Print Assumptions C01_best_chain_inv.

(** Hence the reported chain is parent-linked from its tip down to genesis
    ([chain]: every element is a non-genesis block of [U] whose parent is the next element,
    the last element is genesis), and every block on it is valid and has a full state. *)
Theorem C01_best_chain_linked_valid :
  ∀ U, WF U → ∀ ops, ops_pre U ops →
    chain U (best (mrun U ops)) ∧
    ∀ b, b ∈ best (mrun U ops) →
      valid U b ∧ ∃ k, known (mrun U ops) !! b = Some k ∧ kst k = Some SFull.
Proof. exact best_chain_linked_valid. Qed.
Print Assumptions C01_best_chain_linked_valid.

(** No reachable call panics: the nil-supplement dereference in revertTip, the
    "non-attaching block" panic in applyTip and "failed to revert failed reorg" are
    unreachable. *)
Theorem C01_no_panic :
  ∀ U, WF U → ∀ ops, ops_pre U ops → ∀ o, op_pre U o →
    (mstep U (mrun U ops) o).1.2 ≠ Panic.
Proof. exact no_panic. Qed.
Print Assumptions C01_no_panic.

(** A block whose header or body is invalid is never on the best chain. *)
Theorem C01_invalid_never_adopted :
  ∀ U, WF U → ∀ ops, ops_pre U ops → ∀ b B,
    b ∈ best (mrun U ops) → b ≠ genesis → U !! b = Some B →
    hdr_ok B = true ∧ body_ok B = true.
Proof. exact invalid_never_adopted. Qed.
Print Assumptions C01_invalid_never_adopted.

(** The crux: whenever a reorg from a reachable state fails part-way (some reverts, then
    some applies, then an error), reorging back to the old tip succeeds and restores the
    best chain exactly, without touching the store. *)
Theorem C01_rollback_exact :
  ∀ U, WF U → ∀ ops, ops_pre U ops → ∀ target m1,
    reorg_to U (mrun U ops) target = (m1, Err) →
    reorg_to U m1 (tip (mrun U ops)) = (Mgr (known m1) (best (mrun U ops)), Ok).
Proof. exact rollback_exact_reachable. Qed.
Print Assumptions C01_rollback_exact.

(** A failed AddBlocks leaves the best chain and the store record of every block on it
    exactly as before, and notifies nobody. *)
Theorem C01_failed_op_is_noop_on_chain :
  ∀ U, WF U → ∀ ops, ops_pre U ops → ∀ l m' nt,
    mstep U (mrun U ops) (AddBlocks l) = (m', Err, nt) →
    nt = false ∧ best m' = best (mrun U ops) ∧
    ∀ b, b ∈ best (mrun U ops) → known m' !! b = known (mrun U ops) !! b.
Proof. exact failed_addblocks_noop. Qed.
Print Assumptions C01_failed_op_is_noop_on_chain.

(** A failed AddValidatedV2Blocks likewise: best chain and the store record of every block
    on it exactly as before (blocks already on the best chain are skipped, so a pruned
    body is never stored again). *)
Theorem C01_failed_validated_is_noop_on_chain :
  ∀ U, WF U → ∀ ops, ops_pre U ops → ∀ l m' nt, validated_pre U l →
    mstep U (mrun U ops) (AddValidated l) = (m', Err, nt) →
    nt = false ∧ best m' = best (mrun U ops) ∧
    ∀ b, b ∈ best (mrun U ops) → known m' !! b = known (mrun U ops) !! b.
Proof. exact failed_addvalidated_noop. Qed.
Print Assumptions C01_failed_validated_is_noop_on_chain.

(** AddBlocks / AddValidatedV2Blocks only grow the store: no entry disappears, no body
    or supplement is dropped, no state is lost or downgraded from full to header-derived;
    and a supplement is only ever stored for a valid block. *)
Theorem C01_known_monotone :
  ∀ U, WF U → ∀ ops, ops_pre U ops → ∀ o m' out nt, op_pre U o → (∀ h, o ≠ Prune h) →
    mstep U (mrun U ops) o = (m', out, nt) →
    (∀ b k, known (mrun U ops) !! b = Some k →
       ∃ k', known m' !! b = Some k' ∧
         (kbody k = true → kbody k' = true) ∧ (ksupp k = true → ksupp k' = true) ∧
         (kst k = Some SFull → kst k' = Some SFull) ∧ (is_Some (kst k) → is_Some (kst k'))) ∧
    (∀ b k', known m' !! b = Some k' → ksupp k' = true →
       kbody k' = true ∧ kst k' = Some SFull ∧ valid U b).
Proof. exact known_monotone. Qed.
Print Assumptions C01_known_monotone.

(** The tip's total work never decreases; the tip changes only to a block sufficiently
    heavier than the old tip; every block of the new best chain was already stored or is
    in the submitted batch. *)
Theorem C01_work_monotone :
  ∀ U, WF U → ∀ ops, ops_pre U ops → ∀ o m' out nt, op_pre U o →
    mstep U (mrun U ops) o = (m', out, nt) →
    (twof U (tip (mrun U ops)) ≤ twof U (tip m'))%Z ∧
    (tip m' ≠ tip (mrun U ops) → heavier U (tip m') (tip (mrun U ops)) = true) ∧
    (∀ b, b ∈ best m' → has_hdr (mrun U ops) b = true ∨ b ∈ batch_of o).
Proof. exact work_monotone. Qed.
Print Assumptions C01_work_monotone.

(** Listeners are notified exactly when the tip changed. *)
Theorem C01_notify_iff_tip_changed :
  ∀ U, WF U → ∀ ops, ops_pre U ops → ∀ o m' out nt, op_pre U o →
    mstep U (mrun U ops) o = (m', out, nt) →
    (nt = true ↔ tip m' ≠ tip (mrun U ops)).
Proof. exact notify_iff_tip_changed. Qed.
Print Assumptions C01_notify_iff_tip_changed.

(** Heaviest-known, per call (the model side of the harness monitor
    c01-heavier-valid-chain-not-adopted / -refused).  In a state satisfying the invariant
    whose store was never pruned ([all_body]), submitting a non-empty chain [l] of acceptable
    blocks ([okb]: header and body valid, not from the future; [lp]: each block's parent is
    its predecessor, the first one's is [c]) that hangs on the best chain through stored,
    applicable blocks ([hangs]) succeeds, and the reorg decision is taken for its last block:
    if that block is sufficiently heavier than the tip it IS the new tip, otherwise the best
    chain is unchanged.  Non-vacuity: [ex_add_blocks_live] in Net/MgrLiveProofs.v.  (Batches
    that are not chain-shaped and pruned stores are covered by the monitor only.) *)
Theorem C01_heavier_valid_chain_adopted :
  ∀ U, WF U → ∀ m c l,
    MInv U m → all_body m → hangs U m c → l ≠ [] →
    lp U (reverse l) c → (∀ x, x ∈ l → okb U x = true) →
    ∃ m', add_blocks U m l = (m', Ok, heavier U (List.last l c) (tip m)) ∧
          MInv U m' ∧ all_body m' ∧ hangs U m' (List.last l c) ∧
          (if heavier U (List.last l c) (tip m) then tip m' = List.last l c
           else best m' = best m).
Proof. exact add_blocks_live. Qed.
Print Assumptions C01_heavier_valid_chain_adopted.

(** The same through AddValidatedV2Blocks. *)
Theorem C01_heavier_prevalidated_chain_adopted :
  ∀ U, WF U → ∀ m c l,
    MInv U m → all_body m → hangs U m c → l ≠ [] →
    lp U (reverse l) c → (∀ x, x ∈ l → okb U x = true) →
    ∃ m', add_validated U m l = (m', Ok, heavier U (List.last l c) (tip m)) ∧
          MInv U m' ∧ all_body m' ∧ hangs U m' (List.last l c) ∧
          (if heavier U (List.last l c) (tip m) then tip m' = List.last l c
           else best m' = best m).
Proof. exact add_validated_live. Qed.
Print Assumptions C01_heavier_prevalidated_chain_adopted.
