(** * Props/C01.v — placeholder until ManagerProofs.v lands; replaced below. *)
From CV Require Import Chain.Manager.
Theorem C01_init_tip : tip init = genesis.
Proof. exact eq_refl. Qed.
Print Assumptions C01_init_tip.
