(** * Props/C20.v — Seed phrases and derived keys round-trip exactly.
    Only the property theorems; each is closed by [exact] and followed by Print Assumptions.

    Vocabulary (Wallet/Seed.v): [encode cks hi lo] / [decode cks tokens] are the
    transcriptions of [encodeBIP39Phrase] / [decodeBIP39Phrase] on word indices,
    [hi], [lo] the two big-endian 64-bit halves of the entropy, [cks] the (external)
    SHA-256 checksum nibble, [ent hi lo = hi * 2^64 + lo];
    [spec_word e c k = ((e * 16 + c) / 2 ^ (11 * (11 - k))) mod 2048];
    [entropy_of ws] / [nibble_of ws] the 128-bit value and the 4 checksum bits that
    twelve 11-bit indices denote. *)
From Coq Require Import NArith List.
From CV Require Import Wallet.Seed Wallet.SeedProofs.
Import ListNotations.
Open Scope N_scope.

(** The twelve indices are the 11-bit groups, most significant first, of the 132-bit
    integer  entropy * 16 + checksum;  the last one is 7 entropy bits then 4 checksum bits. *)
Theorem C20_encode_spec :
  forall (cks : N -> N -> N) hi lo, hi < 2^64 -> lo < 2^64 -> cks hi lo < 16 ->
    encode cks hi lo = spec_words (ent hi lo) (cks hi lo) /\
    nth 11 (encode cks hi lo) 0 = (ent hi lo mod 128) * 16 + cks hi lo.
Proof. exact encode_spec. Qed.
Print Assumptions C20_encode_spec.

(** The encoder never indexes outside the word list and always yields twelve words. *)
Theorem C20_encode_wellformed :
  forall (cks : N -> N -> N) hi lo, hi < 2^64 -> lo < 2^64 -> cks hi lo < 16 ->
    length (encode cks hi lo) = 12%nat /\ Forall (fun w => w < 2048) (encode cks hi lo).
Proof. exact encode_wellformed. Qed.
Print Assumptions C20_encode_wellformed.

(** Every 128-bit entropy encodes to a phrase that decodes back to the same entropy. *)
Theorem C20_decode_encode :
  forall (cks : N -> N -> N) hi lo, hi < 2^64 -> lo < 2^64 -> cks hi lo < 16 ->
    decode cks (map Word (encode cks hi lo)) = Some (hi, lo).
Proof. exact decode_encode. Qed.
Print Assumptions C20_decode_encode.

(** Every 12-word phrase over the word list decodes iff its checksum nibble is the
    checksum of the entropy it denotes, and then it decodes to that entropy and
    re-encodes to itself. *)
Theorem C20_decode_iff_checksum :
  forall (cks : N -> N -> N) ws, length ws = 12%nat -> Forall (fun w => w < 2048) ws ->
    let e := entropy_of ws in
    ((exists r, decode cks (map Word ws) = Some r) <-> cks (e / 2^64) (e mod 2^64) = nibble_of ws) /\
    (forall hi lo, decode cks (map Word ws) = Some (hi, lo) ->
       ent hi lo = e /\ encode cks hi lo = ws).
Proof. exact decode_iff_checksum. Qed.
Print Assumptions C20_decode_iff_checksum.

(** Two different phrases never decode to the same entropy. *)
Theorem C20_phrase_unique :
  forall (cks : N -> N -> N) ws ws' r,
    length ws = 12%nat -> Forall (fun w => w < 2048) ws ->
    length ws' = 12%nat -> Forall (fun w => w < 2048) ws' ->
    decode cks (map Word ws) = Some r -> decode cks (map Word ws') = Some r -> ws = ws'.
Proof. exact phrase_unique. Qed.
Print Assumptions C20_phrase_unique.

(** Malformed phrases are rejected: any number of words other than twelve, and any
    token that is not a word of the list (whatever the other words and the checksum). *)
Theorem C20_malformed_rejected :
  forall (cks : N -> N -> N) ts,
    (length ts <> 12%nat -> decode_res cks ts = DErrCount /\ decode cks ts = None) /\
    ((exists t, In t ts /\ word_index t = None) ->
       decode cks ts = None /\ (length ts = 12%nat -> decode_res cks ts = DErrWord)).
Proof. exact malformed_rejected. Qed.
Print Assumptions C20_malformed_rejected.

(** Rejection does not depend on the order of the validations: the decoder rejects exactly the
    token lists that have a defect (wrong count, a token outside the list, or - for twelve list
    words - a checksum nibble that is not the checksum of the denoted entropy), and the error it
    reports names a defect the phrase has.  (Which of several defects is reported is not fixed
    by the property and is not compared by the correspondence.) *)
Theorem C20_rejects_iff_defective :
  forall (cks : N -> N -> N) ts,
    (decode cks ts = None <-> defects cks ts <> []) /\
    (forall d, named_defect (decode_res cks ts) = Some d -> In d (defects cks ts)).
Proof. exact rejects_iff_defective. Qed.
Print Assumptions C20_rejects_iff_defective.

(** Seed and key are functions of the decoded entropy and of the index as a uint64
    (trivial for a Gallina function: the content is *what* is hashed). *)
Theorem C20_derivation_deterministic :
  forall (cks : N -> N -> N) (H : list N -> list N) (Key : Type) (newkey : list N -> Key) ts ts' i i',
    decode cks ts = decode cks ts' -> i mod 2^64 = i' mod 2^64 ->
    seed_from_phrase cks H ts = seed_from_phrase cks H ts' /\
    key_from_phrase cks H Key newkey ts i = key_from_phrase cks H Key newkey ts' i'.
Proof. exact derivation_deterministic. Qed.
Print Assumptions C20_derivation_deterministic.

(** The same phrase and index always derive the same key, in the form the property uses it:
    over call histories.  [hrun] runs a list of calls (SeedFromPhrase into a numbered seed
    buffer, in-place overwrites, KeyFromSeed from a buffer) and returns the keys; whatever the
    initial contents of the buffers, whatever happened before, whichever buffer is used and
    whatever is done with other buffers in between, the key returned for (phrase, index) is
    [key_from_phrase phrase index].  A history-dependent implementation (a cache keyed by
    anything but the buffer's contents) contradicts this; the harness runs such histories on
    the real functions. *)
Theorem C20_same_phrase_same_key :
  forall (cks : N -> N -> N) (H : list N -> list N) (Key : Type) (newkey : list N -> Key)
         st st' pre pre' b b' ts ts' s mid mid' i i',
    seed_from_phrase cks H ts = Some s -> decode cks ts = decode cks ts' -> i mod 2 ^ 64 = i' mod 2 ^ 64 ->
    forallb (fun op => negb (hwrites op b)) mid = true ->
    forallb (fun op => negb (hwrites op b')) mid' = true ->
    exists ks ks' k,
      snd (hrun cks H Key newkey st (pre ++ HLoad b ts :: mid ++ [HKey b i])) = ks ++ [k] /\
      snd (hrun cks H Key newkey st' (pre' ++ HLoad b' ts' :: mid' ++ [HKey b' i'])) = ks' ++ [k] /\
      key_from_phrase cks H Key newkey ts i = Some k.
Proof. exact same_phrase_same_key. Qed.
Print Assumptions C20_same_phrase_same_key.

(** Different (seed, index) pairs are hashed as different byte strings: distinct
    keys then rest on the collision resistance of blake2b only. *)
Theorem C20_derivation_inputs_distinct :
  forall (seed seed' : list N) i j,
    length seed = length seed' -> i < 2^64 -> j < 2^64 ->
    seed ++ le64 i = seed' ++ le64 j -> seed = seed' /\ i = j.
Proof. exact derivation_inputs_distinct. Qed.
Print Assumptions C20_derivation_inputs_distinct.
