From Coq Require Import NArith List.
From stdpp Require Import gmap.
From CV Require Import Chain.Pool Chain.PoolProofs.
Theorem C14_lookup_exact : ∀ mw L0 ops id,
  let s := nrun mw L0 ops in
  (match lookup_v1 s.1 mw s.2 id with
   | LFound t => t ∈ pool_transactions s.1 mw s.2 ∧ a_id t = id ∧ a_v2 t = false ∧
                 ∀ t', t' ∈ reported mw s → a_id t' = id → t' = t
   | LAbsent => ∀ t, t ∈ pool_transactions s.1 mw s.2 → a_id t ≠ id
   | LPanic => False
   end) ∧
  (match lookup_v2 s.1 mw s.2 id with
   | LFound t => t ∈ v2_pool_transactions s.1 mw s.2 ∧ a_id t = id ∧ a_v2 t = true ∧
                 ∀ t', t' ∈ reported mw s → a_id t' = id → t' = t
   | LAbsent => ∀ t, t ∈ v2_pool_transactions s.1 mw s.2 → a_id t ≠ id
   | LPanic => False
   end).
Proof. exact lookup_exact. Qed.
Print Assumptions C14_lookup_exact.
