(** * Props/C14.v — Pool submission and lookup honour their documented contracts.
    Only the property theorems; each is closed by [exact] and followed by Print Assumptions.
    All statements are about the pool model [Chain/Pool.v] (the repaired code) that the
    harness validates against the real chain.Manager after every call; they quantify over
    every history [ops] of submissions, block steps and queries from an empty pool
    ([nrun mw L0 ops]).  The aliasing clauses of the property (caller memory neither
    modified nor retained, returned values independent of the pool) are facts about Go
    memory and are checked by the harness monitors only: partial. *)
From Coq Require Import NArith List.
From stdpp Require Import gmap.
From CV Require Import Chain.Pool Chain.PoolProofs.
Import ListNotations.
Open Scope N_scope.

(** A submission (v1: [k = false], v2: [k = true], the set already rebased to the tip) either
    extends the pool of the revalidated state [q] by exactly its not-yet-known members
    ([new_members]: in set order, each id once) — and then that is what the next query
    reports unless the pool is full — or leaves both lists as they were. *)
Theorem C14_add_all_or_none :
  ∀ mw L0 ops k set p' v,
    let s := nrun mw L0 ops in
    let q := revalidate s.1 mw s.2 in
    add_k k s.1 mw s.2 set = (p', v) →
    (v = VAdded ∧
     let news := new_members (list_to_set (map a_id (txns q ++ v2txns q))) set in
     txns p' = txns q ++ (if k then [] else news) ∧ v2txns p' = v2txns q ++ (if k then news else []) ∧
     (weight p' < mw * 10 → revalidate s.1 mw p' = p')) ∨
    (v ≠ VAdded ∧ txns p' = txns q ∧ v2txns p' = v2txns q).
Proof. exact add_all_or_none. Qed.
Print Assumptions C14_add_all_or_none.

(** "known" is reported exactly when the set passes validation against the tip on its own
    ([set_ok]) and every member is already pooled (DESIGN 4a; the empty set is vacuously
    known). *)
Theorem C14_known_iff_all_pooled :
  ∀ mw L0 ops k set p' v,
    let s := nrun mw L0 ops in
    add_k k s.1 mw s.2 set = (p', v) →
    (v = VKnown ↔ set_ok s.1 k set ∧ ∀ t, t ∈ set → ∃ u, u ∈ reported mw s ∧ a_id u = a_id t).
Proof. exact known_iff_all_pooled. Qed.
Print Assumptions C14_known_iff_all_pooled.

(** For every id, each lookup returns the pooled transaction of its kind with that id — the
    only reported transaction with that id — or absence; it never panics ([lres] has a
    [LPanic] outcome, which is excluded) and never returns another transaction. *)
Theorem C14_lookup_exact :
  ∀ mw L0 ops id,
    let s := nrun mw L0 ops in
    (match lookup_v1 s.1 mw s.2 id with
     | LFound t => t ∈ pool_transactions s.1 mw s.2 ∧ a_id t = id ∧ a_v2 t = false ∧
                   ∀ t', t' ∈ reported mw s → a_id t' = id → t' = t
     | LAbsent => ∀ t, t ∈ pool_transactions s.1 mw s.2 → a_id t ≠ id
     | LPanic => False
     end) ∧
    (match lookup_v2 s.1 mw s.2 id with
     | LFound t => t ∈ v2_pool_transactions s.1 mw s.2 ∧ a_id t = id ∧ a_v2 t = true ∧
                   ∀ t', t' ∈ reported mw s → a_id t' = id → t' = t
     | LAbsent => ∀ t, t ∈ v2_pool_transactions s.1 mw s.2 → a_id t ≠ id
     | LPanic => False
     end).
Proof. exact lookup_exact. Qed.
Print Assumptions C14_lookup_exact.

(** Findings, kept about the code before the repairs (separately defined functions).
    F1: a v2 id given to PoolTransaction indexes the v1 slice with a v2 position: a panic, or
    a different transaction reported as found (and symmetrically for V2PoolTransaction). *)
Theorem C14_lookup_prefix_refuted :
  (let s := nrun exMW exL ex_ops in lookup_v1_prefix s.1 exMW s.2 3 = LPanic) ∧
  (let s := nrun exMW exL ex_ops in ∃ t, lookup_v1_prefix s.1 exMW s.2 2 = LFound t ∧ a_id t ≠ 2) ∧
  (let s := nrun exMW exL ex_ops in ∃ t, lookup_v2_prefix s.1 exMW s.2 1 = LFound t ∧ a_id t ≠ 1).
Proof. exact lookup_prefix_refuted. Qed.
Print Assumptions C14_lookup_prefix_refuted.

(** F2: a set whose second member conflicts with the pool was refused, yet its first member
    stayed in the pool; the repaired function leaves the list unchanged. *)
Theorem C14_add_prefix_refuted :
  let s := nrun exMW exL ex_ops in
  let q := revalidate s.1 exMW s.2 in
  (add_v1_prefix s.1 exMW s.2 [tD; tE]).2 = VErr ∧
  txns (add_v1_prefix s.1 exMW s.2 [tD; tE]).1 = txns q ++ [tD] ∧
  (add_v1 s.1 exMW s.2 [tD; tE]).2 = VErr ∧ txns (add_v1 s.1 exMW s.2 [tD; tE]).1 = txns q.
Proof. exact add_prefix_refuted. Qed.
Print Assumptions C14_add_prefix_refuted.
