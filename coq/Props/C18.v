(** * Props/C18.v — Limits and shutdown are honoured under any schedule.
    Only the property theorems; each is closed by [exact] and followed by Print Assumptions.

    The theorems are about the labelled transition system of Net/Limits.v, whose labels are the
    mutex-protected regions and channel / WaitGroup operations of syncer.runPeer, allowConnect,
    addPeer and threadgroup.ThreadGroup.  [run cfg init tr = Some s] ranges over every sequence
    of enabled labels, i.e. every interleaving of those atomic steps, for every configuration.
    The Go scheduler, sockets and goroutine stacks are not in the model (see checks/C18.json). *)
From Coq Require Import NArith ZArith List Bool.
Import ListNotations.
From CV Require Import Net.Limits Net.LimitsProofs.

(** The handler goroutines of one peer connection never outnumber WithMaxInflightRPCs. *)
Theorem C18_peer_limit :
  forall cfg tr s c, run cfg init tr = Some s -> handlers_on_conn s c <= max_rpc cfg.
Proof. exact peer_limit. Qed.
Print Assumptions C18_peer_limit.

(** A positive subnet limit bounds the handlers of every subnet; a limit <= 0 disables the
    subnet cap (and only it): nothing is ever dropped for the subnet, in any state. *)
Theorem C18_subnet_limit :
  forall cfg tr s, run cfg init tr = Some s ->
    ((0 < max_subnet cfg)%Z -> forall k, (Z.of_nat (handlers_on_subnet s k) <= max_subnet cfg)%Z) /\
    ((max_subnet cfg <= 0)%Z -> forall s0 c r, step cfg s0 (LSubDrop c r) = None).
Proof. exact subnet_limit. Qed.
Print Assumptions C18_subnet_limit.

(** In every reachable state the per-peer channel holds exactly one token per owner (handler
    goroutine, or the loop between its two slot operations) and the subnet counter equals the
    number of handlers of that subnet: no slot leaks on any exit path (thread group closed,
    subnet over budget, handler done), none is returned twice. *)
Theorem C18_slots_returned :
  forall cfg tr s, run cfg init tr = Some s ->
    (forall c x, conn_of s c = Some x -> c_slots x = peer_slot_owners s c) /\
    (forall k, subcnt s k = if subnet_on cfg then subnet_slot_owners s k else 0).
Proof. exact slots_returned. Qed.
Print Assumptions C18_slots_returned.

(** Back-pressure, not drop: in one step of any schedule (1) no request disappears; (2) a request
    blocked on the per-peer slot stays blocked until it gets the slot -- the only other exit is
    the loop's <-tg.Done() branch after Stop; (3) a request is dropped only by the subnet
    overflow branch, with a positive limit that is reached; (4) a request is abandoned only when
    its loop returns (Stop, or the connection failed); (5) as soon as the channel has room the
    blocked request is admitted (the step is enabled). *)
Theorem C18_backpressure_not_drop :
  forall cfg tr s l s' r, run cfg init tr = Some s -> step cfg s l = Some s' ->
    (forall st, status_of s r = Some st -> exists st', status_of s' r = Some st') /\
    (status_of s r = Some Waiting ->
       status_of s' r = Some Waiting \/
       (exists c, l = LAcquire c r /\ status_of s' r = Some Held) \/
       (exists c, l = LLoopExit c /\ stopped s = true /\ status_of s' r = Some Abandoned)) /\
    (status_of s r <> Some Dropped -> status_of s' r = Some Dropped ->
       exists c y, l = LSubDrop c r /\ rpc_of s r = Some y /\ r_st y = Held /\
                   (0 < max_subnet cfg <= Z.of_nat (subcnt s (r_sub y)))%Z) /\
    (status_of s r <> Some Abandoned -> status_of s' r = Some Abandoned ->
       exists c x, l = LLoopExit c /\ conn_of s c = Some x /\ (stopped s = true \/ c_err x = true)) /\
    (forall y x, rpc_of s r = Some y -> r_st y = Waiting -> conn_of s (r_conn y) = Some x ->
       c_slots x < max_rpc cfg ->
       exists s2, step cfg s (LAcquire (r_conn y) r) = Some s2 /\ status_of s2 r = Some Held).
Proof. exact backpressure_not_drop. Qed.
Print Assumptions C18_backpressure_not_drop.

(** Stop returns only when no loop, no handler and no other member is left in the group; after
    Stop every Add fails (plain users, handlers, runPeer, allowConnect) for good; and from
    every reachable state some finite continuation lets Stop return: the model cannot deadlock. *)
Theorem C18_stop_waits :
  forall cfg tr s, run cfg init tr = Some s ->
    (forall s', step cfg s LStopReturn = Some s' ->
       s' = s /\ stopped s = true /\ running_loops s = 0 /\ running_handlers s = 0 /\ tg_extra s = 0) /\
    (stopped s = true ->
       step cfg s (LTgAdd true) = None /\
       (forall r, step cfg s (LHStart r true) = None) /\
       (forall c, step cfg s (LLoopStart c true) = None) /\
       (forall c k inb, step cfg s (LAllow c k inb true) = None) /\
       (forall c k inb, step cfg s (LConnAtomic c k inb true) = None) /\
       (forall l s', step cfg s l = Some s' -> stopped s' = true)) /\
    (exists tr' s', run cfg s tr' = Some s' /\ step cfg s' LStopReturn = Some s').
Proof. exact stop_waits. Qed.
Print Assumptions C18_stop_waits.

(** Peer caps with check-and-insert as ONE step, whatever addPeer does. *)
Theorem C18_peer_caps_atomic :
  forall cfg tr s, one_step_only tr = true -> run cfg init tr = Some s ->
    (Z.of_nat (inbound_peers s) <= Z.max 0 (max_in cfg))%Z /\
    (Z.of_nat (outbound_peers s) <= Z.max 0 (max_out cfg))%Z.
Proof. exact peer_caps_atomic. Qed.
Print Assumptions C18_peer_caps_atomic.

(** The real code takes TWO steps (allowConnect under s.mu, the handshake, addPeer under s.mu
    again).  With addPeer comparing the inbound count again (the repaired code, [recheck]) the
    caps hold under every interleaving; outbound attempts are made one at a time by peerLoop. *)
Theorem C18_peer_caps :
  forall cfg tr s, recheck cfg = true -> run cfg init tr = Some s ->
    (Z.of_nat (inbound_peers s) <= Z.max 0 (max_in cfg))%Z /\
    (Z.of_nat (outbound_peers s) <= Z.max 0 (max_out cfg))%Z.
Proof. exact peer_caps. Qed.
Print Assumptions C18_peer_caps.

(** Without that second comparison (the code before the repair, F12) the inbound cap is refuted:
    two connections pass allowConnect while the peer set is empty, then both are inserted. *)
Theorem C18_peer_caps_refuted :
  exists cfg tr s, recheck cfg = false /\ run cfg init tr = Some s /\
    (Z.of_nat (inbound_peers s) > Z.max 0 (max_in cfg))%Z.
Proof. exact peer_caps_refuted. Qed.
Print Assumptions C18_peer_caps_refuted.
