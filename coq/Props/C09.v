(** * Props/C09.v — Host sector-root state always matches the committed contract, even on aborts.
    Only the property theorems; each is closed by [exact] and followed by Print Assumptions.
    Model: RHP/Roots.v (the repaired handler is alias mode [Copied]; the handler before the
    F6 repair is alias mode [Shared] and appears only in the refutation). *)
From stdpp Require Import list sorting.
From Coq Require Import NArith.
From CV Require Import RHP.Roots RHP.RootsProofs.

(** The committed Merkle root binds the whole root list: equality of symbolic roots is
    equality of lists (so "hashes to the committed root" pins every stored root). *)
Theorem C09_merkle_root_binds_roots :
  ∀ l1 l2 : list N, mroot l1 = mroot l2 → l1 = l2.
Proof. exact mroot_inj. Qed.
Print Assumptions C09_merkle_root_binds_roots.

(** On strictly descending in-range indices the host's in-place loop does not panic, equals
    the swap-remove list model, has length |roots| − |idxs|, and as a multiset is the roots
    minus the roots at the freed positions. *)
Theorem C09_free_matches_list_model :
  ∀ (roots : list N) (idxs : list nat),
    desc_in_range idxs (length roots) →
    host_free roots idxs = Some (swap_remove_desc roots idxs) ∧
    length (swap_remove_desc roots idxs) = length roots - length idxs ∧
    roots ≡ₚ swap_remove_desc roots idxs ++ at_positions roots idxs ∧
    length (at_positions roots idxs) = length idxs.
Proof. exact free_matches_list_model. Qed.
Print Assumptions C09_free_matches_list_model.

(** The renter API's normalisation turns any in-range caller input (any order, duplicates)
    into such a list with the same set of positions. *)
Theorem C09_normalize_establishes_it :
  ∀ (len : nat) (idxs : list nat),
    Forall (λ n, n < len) idxs →
    desc_in_range (normalize idxs) len ∧ (∀ n, n ∈ normalize idxs ↔ n ∈ idxs).
Proof. exact normalize_establishes_it. Qed.
Print Assumptions C09_normalize_establishes_it.

(** Hence, for any caller input, what RPCFreeSectors makes the host compute is the list
    model: the distinct positions named by the caller are removed, nothing else. *)
Theorem C09_client_free_matches_list_model :
  ∀ (roots : list N) (idxs : list nat),
    Forall (λ n, n < length roots) idxs →
    client_free roots idxs = Some (model_free roots idxs) ∧
    NoDup (normalize idxs) ∧ (∀ n, n ∈ normalize idxs ↔ n ∈ idxs) ∧
    length (model_free roots idxs) = length roots - length (normalize idxs) ∧
    roots ≡ₚ model_free roots idxs ++ at_positions roots (normalize idxs) ∧
    length (at_positions roots (normalize idxs)) = length (normalize idxs).
Proof. exact client_free_matches_list_model. Qed.
Print Assumptions C09_client_free_matches_list_model.

(** The raw wire handler on lists that are not normalised (any order, duplicate free as
    enforced by request validation): it does not panic and yields the right length, so what
    it commits is consistent … *)
Theorem C09_wire_free_unnormalised :
  ∀ (roots : list N) (idxs : list nat),
    NoDup idxs → Forall (λ n, n < length roots) idxs →
    ∃ r, host_free roots idxs = Some r ∧ length r = length roots - length idxs.
Proof. exact host_free_unnormalised. Qed.
Print Assumptions C09_wire_free_unnormalised.

(** … but it can be the wrong list: freeing the first and the last position in ascending
    order keeps the last root and loses its predecessor, for every contract of ≥ 3 sectors.
    This is why "any order" is a promise of the renter API only (DESIGN 4a). *)
Theorem C09_wire_free_unnormalised_loss :
  ∀ (a b c : N) (mid : list N),
    let roots := a :: mid ++ [b; c] in
    let idxs := [0; S (S (length mid))] in
    NoDup idxs ∧ Forall (λ n, n < length roots) idxs ∧
    host_free roots idxs = Some (c :: mid) ∧
    model_free roots idxs = b :: mid.
Proof. exact host_free_ascending_loss. Qed.
Print Assumptions C09_wire_free_unnormalised_loss.

(** The append loop: accepted sectors (those the store has) are appended in request order,
    the accepted flags are the HasSector answers, the count is the number accepted. *)
Theorem C09_append_model :
  ∀ (roots : list N) (sectors : list (N * bool)),
    host_append roots sectors =
    (roots ++ map fst (List.filter snd sectors), map snd sectors,
     length (List.filter snd sectors)).
Proof. exact append_model. Qed.
Print Assumptions C09_append_model.

(** Every reachable state of the step machine — any number of streams, any messages in any
    order, any stream abandoned at any point — has stored roots that hash to the committed
    root and whose count times the sector size is the committed file size. *)
Theorem C09_commit_inv :
  ∀ (h : host) (evs : list event),
    committed_ok h → committed_ok (hs_host (exec Copied (init h) evs)).
Proof. exact commit_inv. Qed.
Print Assumptions C09_commit_inv.

(** Unless a valid renter signature is delivered (in a signature message, a listing or a
    funding request) or an account-paid request that is valid and names a stored sector —
    on the current stream or on another stream while the current handler waits —, roots,
    revision and balances are exactly as before: stopping
    after any message, closing the stream, sending a bad signature, reading or verifying a
    sector the host does not store, an invalid account request, or any other message
    sequence is a no-op on the contractor state. *)
Theorem C09_abort_is_noop :
  ∀ (evs : list event) (s : hst),
    Forall (λ e, ¬ may_commit e) evs → hs_host (exec Copied s evs) = hs_host s.
Proof. exact abort_is_noop. Qed.
Print Assumptions C09_abort_is_noop.

(** The handler before the repair (in-place loop on the slice the reference contractor
    shares): free [0] of [a;b;c], renter never signs ⇒ stored roots [c;b;c] under the old
    revision. Finding F6, kept as documentation of the repaired defect. *)
Theorem C09_abort_prefix_refuted :
  ∃ (h : host) (evs : list event),
    committed_ok h ∧ Forall (λ e, ¬ may_commit e) evs ∧
    h_roots h = [1; 2; 3]%N ∧
    h_roots (hs_host (exec Shared (init h) evs)) = [3; 2; 3]%N ∧
    h_rev (hs_host (exec Shared (init h) evs)) = h_rev h ∧
    ¬ committed_ok (hs_host (exec Shared (init h) evs)).
Proof. exact abort_prefix_refuted. Qed.
Print Assumptions C09_abort_prefix_refuted.

(** A complete free RPC on normalised indices commits exactly the list model, advances the
    revision number by one, charges the usage and leaves the account alone. *)
Theorem C09_free_rpc_commits_list_model :
  ∀ (h : host) (idxs : list nat) (u : usage),
    committed_ok h → desc_in_range idxs (length (h_roots h)) →
    (N.of_nat (length idxs) ≤ max_batch)%N →
    (u_cost u ≤ r_funds (h_rev h))%N → (u_risked u ≤ r_missed (h_rev h))%N →
    let h' := hs_host (exec Copied (init h)
                [ENew; EMsg (MReq (FreeReq idxs true true true u)); EMsg (MSig true)]) in
    h_roots h' = swap_remove_desc (h_roots h) idxs ∧
    r_num (h_rev h') = (r_num (h_rev h) + 1)%N ∧
    r_funds (h_rev h') = (r_funds (h_rev h) - u_cost u)%N ∧
    h_account h' = h_account h ∧ committed_ok h'.
Proof. exact free_rpc_commits_list_model. Qed.
Print Assumptions C09_free_rpc_commits_list_model.

(** The same through the renter API, for any caller input. *)
Theorem C09_client_free_rpc_commits_list_model :
  ∀ (h : host) (idxs : list nat) (u : usage),
    committed_ok h → Forall (λ n, n < length (h_roots h)) idxs →
    (N.of_nat (length (normalize idxs)) ≤ max_batch)%N →
    (u_cost u ≤ r_funds (h_rev h))%N → (u_risked u ≤ r_missed (h_rev h))%N →
    let h' := hs_host (exec Copied (init h)
                [ENew; EMsg (MReq (FreeReq (normalize idxs) true true true u)); EMsg (MSig true)]) in
    h_roots h' = model_free (h_roots h) idxs ∧ committed_ok h'.
Proof. exact client_free_rpc_commits_list_model. Qed.
Print Assumptions C09_client_free_rpc_commits_list_model.

(** A complete append RPC commits the stored roots followed by the accepted sectors. *)
Theorem C09_append_rpc_commits_model :
  ∀ (h : host) (sectors : list (N * bool)) (u : usage),
    committed_ok h → sectors ≠ [] → (N.of_nat (length sectors) ≤ max_batch)%N →
    (u_cost u ≤ r_funds (h_rev h))%N → (u_risked u ≤ r_missed (h_rev h))%N →
    let h' := hs_host (exec Copied (init h)
                [ENew; EMsg (MReq (AppendReq sectors true true true u)); EMsg (MSig true)]) in
    h_roots h' = h_roots h ++ map fst (List.filter snd sectors) ∧
    r_size (h_rev h') =
      (r_size (h_rev h) + sector_size * N.of_nat (length (List.filter snd sectors)))%N ∧
    r_num (h_rev h') = (r_num (h_rev h) + 1)%N ∧
    h_account h' = h_account h ∧ committed_ok h'.
Proof. exact append_rpc_commits_model. Qed.
Print Assumptions C09_append_rpc_commits_model.

(** The sector-roots RPC answers with exactly the stored range and leaves the roots alone. *)
Theorem C09_listing_model :
  ∀ (h : host) (off len : nat) (lk pr sg : bool) (u : usage) (h' : host) (o : out),
    committed_ok h → do_roots h off len lk pr sg u = Some (h', o) →
    o = ORootsResp (take len (drop off (h_roots h))) ∧
    length (take len (drop off (h_roots h))) = len ∧
    h_roots h' = h_roots h ∧ h_account h' = h_account h ∧ committed_ok h'.
Proof. exact listing_model. Qed.
Print Assumptions C09_listing_model.

(** Symbolic Merkle range proofs (one digest per maximal subtree disjoint from the range, as
    rhp2.BuildSectorRangeProof): whatever roots and proof a host returns, if they rebuild the
    committed root for the range [off, off+len) of a contract of |roots| sectors, the
    returned roots are exactly the stored range. *)
Theorem C09_listing_sound :
  ∀ (roots : list N) (off len : nat) (rs : list N) (proof : list digest),
    verify_range (mroot roots) (length roots) off len rs proof = true →
    rs = take len (drop off roots).
Proof. exact listing_sound. Qed.
Print Assumptions C09_listing_sound.

(** … and the honest host's answer does verify against the committed revision, for every
    legal range of every contract: the roots can be listed with verifying proofs. *)
Theorem C09_listing_verifies :
  ∀ (h : host) (off len : nat) (lk pr sg : bool) (u : usage) (h' : host) (o : out),
    committed_ok h → do_roots h off len lk pr sg u = Some (h', o) →
    ∃ rs, o = ORootsResp rs ∧
      verify_range (r_root (h_rev h)) (N.to_nat (r_size (h_rev h) / sector_size)) off len rs
        (build_range_proof (length (h_roots h)) (h_roots h) off len) = true.
Proof. exact listing_verifies. Qed.
Print Assumptions C09_listing_verifies.

(** The account-paid RPCs (read, verify, write) touch nothing but the account balance; they
    debit exactly the cost, and only when the request is valid, the sector is stored and the
    balance suffices — otherwise the contractor state is exactly as before. *)
Theorem C09_account_rpc_model :
  ∀ (h : host) (valid has : bool) (cost : N),
    do_acct h valid has cost =
    (if valid && has && (cost <=? h_account h)%N
     then Some (mk_host (h_roots h) (h_rev h) (h_account h - cost)) else None).
Proof. exact account_rpc_model. Qed.
Print Assumptions C09_account_rpc_model.

(** Funding accounts from the contract (the other RPC that revises it) moves exactly the
    amount from the renter output to the account, advances the revision number by one and
    leaves the roots alone; a refused funding changes nothing. *)
Theorem C09_fund_rpc_model :
  ∀ (h : host) (valid lk sg : bool) (amount : N),
    do_fund h valid lk sg amount =
    (if valid && lk && sg && (amount <=? r_funds (h_rev h))%N
     then Some (mk_host (h_roots h)
                  (mk_rev (r_num (h_rev h) + 1) (r_root (h_rev h)) (r_size (h_rev h)) (r_cap (h_rev h))
                     (r_funds (h_rev h) - amount) (r_hostval (h_rev h) + amount) (r_missed (h_rev h) - 0))
                  (h_account h + amount))
     else None).
Proof. exact fund_rpc_model. Qed.
Print Assumptions C09_fund_rpc_model.

(** Renewal: the new contract commits to the same file and holds the same roots, so the state
    predicate carries over to it. *)
Theorem C09_renewal_keeps_roots :
  ∀ (h : host) (funds hostval missed : N),
    committed_ok h →
    committed_ok (renew h funds hostval missed) ∧
    h_roots (renew h funds hostval missed) = h_roots h ∧
    h_account (renew h funds hostval missed) = h_account h.
Proof. exact renew_ok. Qed.
Print Assumptions C09_renewal_keeps_roots.
