(** * Chain/Accum.v — the Tree bucket of chain.DBStore: the element accumulator (C02)

    Definitions only.  Hashes are symbolic (DESIGN 3.3): a leaf hash is an atom, an inner
    node is the free constructor over its children, so "this proof verifies" is a statement
    about terms.

    The accumulator of [n] leaves is a forest of perfect trees, one of height [k] for every
    set bit [k] of [n] (core, consensus/merkle.go).  The Tree bucket (db.go:408,522-548) maps
    (row, col) to the hash of the leaves [col*2^row, (col+1)*2^row).  applyElements and
    revertElements store what core's ForEachTreeNode emits (db.go:664-666,755-757):

    law L2 (core, consensus/application.go:782-805,886-912; re-checked on every harness run):
    for every leaf [i] a block touches (updated or added; on revert: touched and below the
    old size) the nodes (r, i >> r) for r = 0 .. height of i's tree at the new size, with the
    hashes of the new leaf list.  [acc_step] is that law as a function of the row-0 writes
    (leaf index, leaf hash) and the new size; nothing is ever deleted.

    getElementProof (db.go:531-548): [bits.Len64(leaf xor n) - 1] entries, entry [r] is the
    node (r, (leaf >> r) xor 1); [None] models both panics. *)
From Coq Require Import NArith List.
Import ListNotations.
From stdpp Require Import gmap countable.
Open Scope N_scope.

Inductive digest := DLeaf (d : N) | DNode (l r : digest).
Global Instance digest_eq_dec : EqDecision digest.
Proof. solve_decision. Defined.
(** digests as keys of finite maps (used by the correspondence check to compare the
    equality pattern of the real hashes with that of the symbolic ones) *)
Fixpoint digest_to_tree (d : digest) : gen_tree N :=
  match d with
  | DLeaf x => GenLeaf x
  | DNode l r => GenNode 0 [digest_to_tree l; digest_to_tree r]
  end.
Fixpoint tree_to_digest (t : gen_tree N) : option digest :=
  match t with
  | GenLeaf x => Some (DLeaf x)
  | GenNode _ [l; r] =>
      match tree_to_digest l, tree_to_digest r with
      | Some l', Some r' => Some (DNode l' r')
      | _, _ => None
      end
  | GenNode _ _ => None
  end.
Global Instance digest_countable : Countable digest.
Proof.
  apply (inj_countable digest_to_tree tree_to_digest).
  induction x as [x|l IHl r IHr]; cbn; [done|]. by rewrite IHl, IHr.
Defined.

Definition pow2 (r : nat) : N := 2 ^ N.of_nat r.
Definition shr (i : N) (r : nat) : N := N.shiftr i (N.of_nat r).

(** ** Leaves and the hash of an aligned block of them *)
Definition leaf_at (ls : list N) (i : N) : N := nth (N.to_nat i) ls 0.

Fixpoint node_of (ls : list N) (r : nat) (c : N) : digest :=
  match r with
  | O => DLeaf (leaf_at ls c)
  | S r' => DNode (node_of ls r' (2 * c)) (node_of ls r' (2 * c + 1))
  end.

(** a node is live at size [n]: its leaves lie wholly inside the accumulator *)
Definition alive (n : N) (r : nat) (c : N) : Prop := (c + 1) * pow2 r <= n.
Definition aliveb (n : N) (r : nat) (c : N) : bool := (c + 1) * pow2 r <=? n.

(** height of the tree that holds leaf [i] in an accumulator of [n] leaves
    = bits.Len64(i xor n) - 1 = the length of a proof for [i] *)
Definition plen (i n : N) : nat := N.to_nat (N.size (N.lxor i n) - 1).

(** the peak (tree root) of height [k], when [n] has one *)
Definition peak (ls : list N) (k : nat) : option digest :=
  let n := N.of_nat (length ls) in
  if N.testbit n (N.of_nat k) then Some (node_of ls k (2 * (n / pow2 (S k)))) else None.

(** ** The bucket *)
Notation tree := (gmap (nat * N) digest).
Record acc := Acc { a_tree : tree; a_leaves : list N }.
Definition acc_empty : acc := Acc ∅ [].

Definition nseq (n : N) : list N := map N.of_nat (seq 0 (N.to_nat n)).

(** the leaf list of size [n] after the row-0 writes [ups] *)
Definition remap (ls : list N) (ups : list (N * N)) (n : N) : list N :=
  let um : gmap N N := list_to_map ups in
  map (λ i, match um !! i with Some v => v | None => leaf_at ls i end) (nseq n).

(** the nodes on the way from leaf [i] to the root of its tree at size [n] *)
Definition path_writes (ls : list N) (i n : N) : list ((nat * N) * digest) :=
  map (λ r, ((r, shr i r), node_of ls r (shr i r))) (seq 0 (S (plen i n))).

Definition step_writes (ls' : list N) (ups : list (N * N)) (n : N)
  : list ((nat * N) * digest) :=
  concat (map (λ u, if fst u <? n then path_writes ls' (fst u) n else []) ups).

Definition put_all (t : tree) (ws : list ((nat * N) * digest)) : tree :=
  fold_left (λ t w, <[fst w := snd w]> t) ws t.

(** one block step on the bucket: apply ([n] the new size, [ups] the updated and added
    leaves) or revert ([n] the old size, [ups] the touched leaves below it) *)
Definition acc_step (a : acc) (ups : list (N * N)) (n : N) : acc :=
  let ls' := remap (a_leaves a) ups n in
  Acc (put_all (a_tree a) (step_writes ls' ups n)) ls'.

(** ** getElementProof *)
Definition sib (leaf : N) (r : nat) : N := N.lxor (shr leaf r) 1.
Definition get_proof (t : tree) (leaf n : N) : option (list digest) :=
  if n <=? leaf then None
  else mapM (λ r, t !! (r, sib leaf r)) (seq 0 (plen leaf n)).

(** ** The symbolic verifier (types.StateElement proofs, consensus/merkle.go proofRoot):
    fold the proof upwards, the leaf's bit at each level says on which side it is *)
Fixpoint climb (h : digest) (leaf : N) (r : nat) (p : list digest) : digest :=
  match p with
  | [] => h
  | s :: p' =>
      climb (if N.odd (shr leaf r) then DNode s h else DNode h s) leaf (S r) p'
  end.

Definition verifies (ls : list N) (leaf : N) (p : list digest) : bool :=
  match peak ls (length p) with
  | Some root => bool_decide (climb (DLeaf (leaf_at ls leaf)) leaf 0 p = root)
  | None => false
  end.

(** ** Histories on the bucket: applies push, a revert pops and restores the leaves the
    reverted block touched (law L1 for the accumulator: the revert update carries the old
    hashes of those leaves; the harness checks the exported revert writes against this) *)
Definition restore (ls : list N) (ups : list (N * N)) : list (N * N) :=
  omap (λ u, if fst u <? N.of_nat (length ls) then Some (fst u, leaf_at ls (fst u)) else None) ups.

Inductive astep := AApply (ups : list (N * N)) (n : N) | ARevert.

Record hacc := HAcc { h_acc : acc; h_stack : list (list N * list (N * N)) }.
Definition hacc_empty : hacc := HAcc acc_empty [].

Definition hstep (h : hacc) (s : astep) : option hacc :=
  match s with
  | AApply ups n =>
      Some (HAcc (acc_step (h_acc h) ups n) ((a_leaves (h_acc h), ups) :: h_stack h))
  | ARevert =>
      match h_stack h with
      | (ls, ups) :: st =>
          Some (HAcc (acc_step (h_acc h) (restore ls ups) (N.of_nat (length ls))) st)
      | [] => None
      end
  end.

Fixpoint hrun (h : hacc) (l : list astep) : option hacc :=
  match l with
  | [] => Some h
  | s :: r => match hstep h s with Some h' => hrun h' r | None => None end
  end.

(** the chain that remains: the applied steps that were not reverted, oldest first *)
Fixpoint remaining (st : list (list (N * N) * N)) (l : list astep) : option (list (list (N * N) * N)) :=
  match l with
  | [] => Some (rev st)
  | AApply ups n :: r => remaining ((ups, n) :: st) r
  | ARevert :: r => match st with _ :: st' => remaining st' r | [] => None end
  end.

Definition linear_leaves (c : list (list (N * N) * N)) : list N :=
  fold_left (λ ls b, remap ls (fst b) (snd b)) c [].
