(** * Chain/Reopen.v — what a committed image reopens to, as a manager-model state (C03)

    Definitions only.  The part of the database the manager is rebuilt from: the record
    the store keeps of every block (States and Blocks buckets: [kinfo] of Chain/Manager.v),
    the MainChain bucket (height ↦ id) and the Height key.

    NewDBStore (db.go:1020-1023) takes the tip from Height and MainChain; BestIndex answers
    from MainChain; so the manager a reopened image gives is [mgr_of].  The store's session
    view is updated by exactly these writes (same transcription as Chain/Crash.v):

      AddBlocks ingestion (manager.go:255-278)   AddState(header state); AddBlock(b, nil)
      applyTip (manager.go:361-396, db.go:653)   AddState(full); AddBlock(b, supplement)
                                                  (only if not yet supplemented);
                                                  putBestIndex(height, b); putHeight(height)
      revertTip (manager.go:347-358, db.go:658)  deleteBestIndex(height); putHeight(height-1)

    A commit can only happen after a whole applyTip / revertTip or at the end of a reorg
    ([C03_commit_only_at_block_boundary]), i.e. when the session view is the image of one
    of the manager states in [boundaries]. *)
From Coq Require Import NArith ZArith List.
Import ListNotations.
From stdpp Require Import gmap.
From CV Require Import Chain.Manager.
Open Scope N_scope.

Record mimg := MImg { mi_known : gmap N kinfo; mi_main : gmap N N; mi_hgt : N }.

Section U.
  Context (U : universe).

  Definition bht (b : N) : N := match U !! b with Some B => height B | None => 0 end.

  (** the image of a manager state *)
  Definition main_of (l : list N) : gmap N N := list_to_map (map (λ b, (bht b, b)) l).
  Definition img_of (m : mgr) : mimg := MImg (known m) (main_of (best m)) (bht (tip m)).

  (** the writes of the steps, on the image *)
  Definition mi_store_hdr (i : mimg) (b : N) : mimg :=
    MImg (<[b := KI (Some SHdr) true false]> (mi_known i)) (mi_main i) (mi_hgt i).
  Definition mi_apply (i : mimg) (b : N) : mimg :=
    MImg (if has_supp (Mgr (mi_known i) []) b then mi_known i
          else <[b := KI (Some SFull) true true]> (mi_known i))
         (<[bht b := b]> (mi_main i)) (bht b).
  Definition mi_revert (i : mimg) (t : N) : mimg :=
    MImg (mi_known i) (delete (bht t) (mi_main i)) (bht t - 1).

  (** ** Block boundaries of a run: the manager states after every successful revertTip /
      applyTip, including those of a reorg that fails half-way and of its rollback *)
  Fixpoint reverts_tr (m : mgr) (n : nat) : list mgr :=
    match n with
    | O => []
    | S n' => match revert_tip U m with
              | (m', Ok) => m' :: reverts_tr m' n'
              | _ => []
              end
    end.
  Fixpoint applies_tr (m : mgr) (bs : list N) : list mgr :=
    match bs with
    | [] => []
    | b :: r => match apply_tip U m b with
                | (m', Ok) => m' :: applies_tr m' r
                | _ => []
                end
    end.
  Definition reorg_tr (m : mgr) (target : N) : list mgr :=
    match rpath U m (fuel_of m) (tip m) target with
    | None => []
    | Some (rev, app) =>
        reverts_tr m (length rev) ++
        match do_reverts U m (length rev) with
        | (m1, Ok) => applies_tr m1 app
        | _ => []
        end
    end.
  Definition maybe_reorg_tr (m : mgr) (cs : N) : list mgr :=
    if heavier U cs (tip m) then
      reorg_tr m cs ++
      match reorg_to U m cs with
      | (m1, Err) => reorg_tr m1 (tip m)
      | _ => []
      end
    else [].
  Definition op_tr (m : mgr) (o : mop) : list mgr :=
    match o with
    | AddBlocks [] => []
    | AddBlocks batch =>
        match add_loop U m (tip m) batch with
        | (m1, Some cs) => maybe_reorg_tr m1 cs
        | _ => []
        end
    | AddValidated [] => []
    | AddValidated ((b0 :: _) as batch) =>
        match U !! b0 with
        | Some B0 =>
            if has_state m (parent B0)
            then maybe_reorg_tr (fold_left store_validated batch m) (List.last batch b0)
            else []
        | None => []
        end
    | Prune _ => []
    end.
  Fixpoint boundaries_from (m : mgr) (ops : list mop) : list mgr :=
    match ops with
    | [] => []
    | o :: r => op_tr m o ++ boundaries_from (mstep U m o).1.1 r
    end.
  (** the store as NewDBStore leaves it, then every block boundary of the run *)
  Definition boundaries (ops : list mop) : list mgr := init :: boundaries_from init ops.
End U.

(** ** Reopening *)
Fixpoint walk (mc : gmap N N) (h : nat) : list N :=
  match mc !! N.of_nat h with
  | None => []
  | Some b => b :: match h with O => [] | S h' => walk mc h' end
  end.
Definition mgr_of (i : mimg) : mgr := Mgr (mi_known i) (walk (mi_main i) (N.to_nat (mi_hgt i))).
