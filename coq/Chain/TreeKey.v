(** * Chain/TreeKey.v — the key of an accumulator node in the Tree bucket (chain/db.go [treeKey]).

<<
    func (db *DBStore) treeKey(row, col uint64) []byte {
        // ... setting the top 'row' bits of 'col' to 1 ...
        return binary.BigEndian.AppendUint32(buf[:0], uint32(((1<<row)-1)<<(32-row)|col))
    }
>>
    Chain/Accum.v keys the Tree bucket by the pair (row, col); that is sound only if [treeKey]
    is injective on the nodes an accumulator has.  [tree_key] is the closed form of the packed
    key (top [row] bits one, then a zero bit, then [col]); the theorems say that it fits 32 bits,
    is strictly monotone in the row and injective as long as [col < 2^(31-row)], i.e. for every
    node of an accumulator with fewer than 2^31 leaves.  The function regenerated from db.go by
    the go/ast translator (harness/internal/gotr) is compared with [tree_key] on every C02 run. *)
From Coq Require Import NArith Lia.
Open Scope N_scope.

Definition tree_key (row col : N) : N := 2 ^ 32 - 2 ^ (32 - row) + col.

(** a node of row [row] in an accumulator of fewer than 2^31 leaves *)
Definition key_ok (row col : N) : Prop := row <= 31 /\ col < 2 ^ (31 - row).

Lemma pow_split row : row <= 31 ->
  2 ^ (32 - row) = 2 * 2 ^ (31 - row) /\ 1 <= 2 ^ (31 - row) /\ 2 ^ (32 - row) <= 2 ^ 32.
Proof.
  intros Hr. replace (32 - row) with (N.succ (31 - row)) by lia.
  rewrite N.pow_succ_r'. split; [reflexivity|]. split.
  - pose proof (N.pow_nonzero 2 (31 - row)). lia.
  - rewrite <- N.pow_succ_r'. apply N.pow_le_mono_r; lia.
Qed.

Theorem tree_key_fits row col : key_ok row col -> tree_key row col < 2 ^ 32.
Proof.
  intros [Hr Hc]. unfold tree_key. destruct (pow_split row Hr) as (E & H1 & H2).
  rewrite E in *. change (2 ^ 32) with 4294967296 in *. lia.
Qed.

Theorem tree_key_row_mono r c r' c' :
  key_ok r c -> key_ok r' c' -> r < r' -> tree_key r c < tree_key r' c'.
Proof.
  intros [Hr Hc] [Hr' Hc'] Hlt. unfold tree_key.
  destruct (pow_split r Hr) as (E & H1 & H2). destruct (pow_split r' Hr') as (E' & H1' & H2').
  assert (Hle : 2 ^ (32 - r') <= 2 ^ (31 - r)) by (apply N.pow_le_mono_r; lia).
  rewrite E in *. change (2 ^ 32) with 4294967296 in *. lia.
Qed.

Theorem tree_key_inj r c r' c' :
  key_ok r c -> key_ok r' c' -> tree_key r c = tree_key r' c' -> r = r' /\ c = c'.
Proof.
  intros K K' E.
  destruct (N.lt_trichotomy r r') as [H|[H|H]].
  - pose proof (tree_key_row_mono _ _ _ _ K K' H). lia.
  - subst r'. split; [reflexivity|]. unfold tree_key in E.
    destruct K as [Hr _]. destruct (pow_split r Hr) as (_ & _ & H2).
    change (2 ^ 32) with 4294967296 in *. lia.
  - pose proof (tree_key_row_mono _ _ _ _ K' K H). lia.
Qed.

(** the bit-level form of the Go expression: OR-ing [col] under the block of ones *)
Lemma land_disjoint a b k : a < 2 ^ k -> b mod 2 ^ k = 0 -> N.land a b = 0.
Proof.
  intros Ha Hb. apply N.bits_inj_0. intros n. rewrite N.land_spec.
  destruct (N.lt_ge_cases n k) as [Hn|Hn].
  - rewrite <- (N.mod_pow2_bits_low b k n Hn), Hb, N.bits_0. apply Bool.andb_false_r.
  - rewrite <- (N.mod_small a (2 ^ k) Ha), N.mod_pow2_bits_high by exact Hn. reflexivity.
Qed.

Lemma lor_disjoint_add a b k : a < 2 ^ k -> b mod 2 ^ k = 0 -> N.lor a b = a + b.
Proof.
  intros Ha Hb. pose proof (land_disjoint a b k Ha Hb) as H0.
  rewrite <- N.lxor_lor by exact H0. symmetry. apply N.add_nocarry_lxor. exact H0.
Qed.

Lemma ones_block row : row <= 31 -> (2 ^ row - 1) * 2 ^ (32 - row) = 2 ^ 32 - 2 ^ (32 - row).
Proof.
  intros Hr. rewrite N.mul_sub_distr_r, N.mul_1_l, <- N.pow_add_r.
  replace (row + (32 - row)) with 32 by lia. reflexivity.
Qed.

Theorem tree_key_packed row col : key_ok row col ->
  N.lor ((2 ^ row - 1) * 2 ^ (32 - row)) col = tree_key row col.
Proof.
  intros [Hr Hc]. rewrite N.lor_comm, (lor_disjoint_add col _ (32 - row)).
  - rewrite ones_block by exact Hr. unfold tree_key. lia.
  - destruct (pow_split row Hr) as (E & H1 & _). rewrite E. lia.
  - apply N.mod_mul. apply N.pow_nonzero. discriminate.
Qed.

Example tree_key_ex : tree_key 0 5 = 5 /\ tree_key 1 0 = 0x80000000 /\ tree_key 3 2 = 0xE0000002 /\ key_ok 3 2.
Proof. repeat split; try reflexivity. vm_compute. discriminate. Qed.
(** without the zero bit the packing collides: (0, 2^31) and (1, 0) *)
Example tree_key_collision : tree_key 0 (2 ^ 31) = tree_key 1 0.
Proof. reflexivity. Qed.
