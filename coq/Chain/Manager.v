(** * Chain/Manager.v — chain.Manager's block ingestion, reorg, prune and update stream
    (chain/manager.go:245-597), over an abstract block universe.  Definitions only.

    A block has exactly one ancestry, so validity is an attribute of the block:
    [hdr_ok] = consensus.ValidateOrphan against the parent's (header) state,
    [future] = the ErrFutureBlock clock test, [body_ok] = consensus.ValidateBlock on
    top of its ancestry; [tw]/[diff] = TotalWork / Difficulty after the block.  These
    come from go.sia.tech/core (an oracle); the harness computes them with core and a
    fresh linear node, never with the node under test. *)
From stdpp Require Import gmap.
From Coq Require Import NArith ZArith List.
Import ListNotations.
Open Scope N_scope.

Record blk := Blk {
  parent : N; height : N;
  hdr_ok : bool; future : bool; body_ok : bool;
  tw : Z; diff : Z;
}.
Definition universe := gmap N blk.

(** What the store holds for a block id (presence in [known] = header stored). *)
Inductive skind := SHdr | SFull.
(** Modelling assumption: a block id determines its body.  (A v2 block id covers the
    header with the commitment but not the body, so a copy with an altered body has the
    same id; such a copy never validates.  Histories that submit such same-id copies are
    exercised by the harness monitors only, not by this model.) *)
Record kinfo := KI { kst : option skind; kbody : bool; ksupp : bool }.

(** [best] is the best chain, tip first; its last element is genesis. *)
Record mgr := Mgr { known : gmap N kinfo; best : list N }.

Inductive outcome := Ok | Err | Panic.

Definition genesis : N := 0.
Definition init : mgr := Mgr {[ genesis := KI (Some SFull) true true ]} [genesis].

Definition tip (m : mgr) : N := hd genesis (best m).

Definition has_state (m : mgr) (b : N) : bool :=
  match known m !! b with Some (KI (Some _) _ _) => true | _ => false end.
Definition has_supp (m : mgr) (b : N) : bool :=
  match known m !! b with Some k => kbody k && ksupp k | None => false end.
Definition has_body (m : mgr) (b : N) : bool :=
  match known m !! b with Some k => kbody k | None => false end.
Definition has_hdr (m : mgr) (b : N) : bool :=
  match known m !! b with Some _ => true | None => false end.

Eval cbn in (eq_refl : has_supp init genesis = true).

Section U.
  Context (U : universe).

  (** State.SufficientlyHeavierThan: s.TotalWork > t.TotalWork + t.Difficulty/5 *)
  Definition heavier (s t : N) : bool :=
    match U !! s, U !! t with
    | Some bs, Some bt => Z.gtb (tw bs) (tw bt + diff bt / 5)
    | _, _ => false
    end.

  (** store.AddState(header-derived) ; store.AddBlock(b, nil) — manager.go:275-276.
      Both overwrite whatever was stored. *)
  Definition store_hdr (m : mgr) (b : N) : mgr :=
    Mgr (<[b := KI (Some SHdr) true false]> (known m)) (best m).

  (** BestIndex(height of b) = b *)
  Definition on_best (m : mgr) (b : N) : bool := bool_decide (b ∈ best m).

  (** The ingestion loop of AddBlocks (manager.go:255-278).  [cs] is the block whose
      state the loop currently holds.  [None] = the call returns an error (what was
      stored so far stays stored). *)
  Fixpoint add_loop (m : mgr) (cs : N) (batch : list N) : mgr * option N :=
    match batch with
    | [] => (m, Some cs)
    | b :: rest =>
        match U !! b with
        | None => (m, None)
        | Some B =>
            if has_supp m b then add_loop m b rest              (* already have this block *)
            else if has_state m b && on_best m b then add_loop m b rest
                                                                 (* applied, body pruned (fix 948b4a6) *)
            else
              let pst := if parent B =? cs then true else has_state m (parent B) in
              if negb pst then (m, None)                         (* missing parent state *)
              else if future B then (m, None)                    (* ErrFutureBlock *)
              else if negb (hdr_ok B) then (m, None)             (* ValidateOrphan *)
              else add_loop (store_hdr m b) b rest
        end
    end.

  (** reorgPath (manager.go:398-446) with explicit fuel; revert list tip-first,
      apply list fork-point-first.  [None]: a header is missing or fuel ran out. *)
  Fixpoint rpath (m : mgr) (fuel : nat) (a b : N) : option (list N * list N) :=
    match fuel with
    | O => None
    | S f =>
        if a =? b then Some ([], [])
        else match U !! a, U !! b with
             | Some A, Some B =>
                 if height B <? height A then
                   if has_hdr m a then
                     match rpath m f (parent A) b with
                     | Some (r, p) => Some (a :: r, p) | None => None end
                   else None
                 else if height A <? height B then
                   if has_hdr m b then
                     match rpath m f a (parent B) with
                     | Some (r, p) => Some (r, p ++ [b]) | None => None end
                   else None
                 else
                   if has_hdr m a && has_hdr m b then
                     match rpath m f (parent A) (parent B) with
                     | Some (r, p) => Some (a :: r, p ++ [b]) | None => None end
                   else None
             | _, _ => None
             end
    end.

  (** revertTip (manager.go:347-358) *)
  Definition revert_tip (m : mgr) : mgr * outcome :=
    match best m with
    | [] => (m, Panic)
    | t :: rest =>
        match U !! t with
        | None => (m, Err)
        | Some T =>
            if has_body m t && has_state m (parent T) then
              if has_supp m t then (Mgr (known m) rest, Ok)
              else (m, Panic)                                    (* nil supplement dereferenced *)
            else (m, Err)                                        (* ErrMissingBlock *)
        end
    end.

  (** applyTip (manager.go:361-396) *)
  Definition apply_tip (m : mgr) (b : N) : mgr * outcome :=
    match U !! b with
    | None => (m, Err)
    | Some B =>
        if negb (has_body m b) then (m, Err)                     (* ErrMissingBlock *)
        else if negb (parent B =? tip m) then (m, Panic)         (* non-attaching block *)
        else if has_supp m b then (Mgr (known m) (b :: best m), Ok)
        else if body_ok B then
          (Mgr (<[b := KI (Some SFull) true true]> (known m)) (b :: best m), Ok)
        else (m, Err)                                            (* ValidateBlock *)
    end.

  Fixpoint do_reverts (m : mgr) (n : nat) : mgr * outcome :=
    match n with
    | O => (m, Ok)
    | S n' => match revert_tip m with
              | (m', Ok) => do_reverts m' n'
              | r => r end
    end.

  Fixpoint do_applies (m : mgr) (bs : list N) : mgr * outcome :=
    match bs with
    | [] => (m, Ok)
    | b :: rest => match apply_tip m b with
                   | (m', Ok) => do_applies m' rest
                   | r => r end
    end.

  Definition fuel_of (m : mgr) : nat := S (size (known m) + size (known m)).

  (** reorgTo (manager.go:448-488) *)
  Definition reorg_to (m : mgr) (target : N) : mgr * outcome :=
    match rpath m (fuel_of m) (tip m) target with
    | None => (m, Err)
    | Some (rev, app) =>
        match do_reverts m (length rev) with
        | (m1, Ok) => do_applies m1 app
        | r => r
        end
    end.

  (** the reorg tail shared by AddBlocks and AddValidatedV2Blocks
      (manager.go:281-304 / 326-349); the boolean says whether listeners are notified *)
  Definition maybe_reorg (m : mgr) (cs : N) : mgr * outcome * bool :=
    if heavier cs (tip m) then
      let old := tip m in
      match reorg_to m cs with
      | (m1, Ok) => (m1, Ok, true)
      | (m1, Panic) => (m1, Panic, false)
      | (m1, Err) =>
          match reorg_to m1 old with
          | (m2, Ok) => (m2, Err, false)                         (* "reorg failed" *)
          | (m2, _) => (m2, Panic, false)                        (* "failed to revert failed reorg" *)
          end
      end
    else (m, Ok, false).

  Definition add_blocks (m : mgr) (batch : list N) : mgr * outcome * bool :=
    match batch with
    | [] => (m, Ok, false)
    | _ => match add_loop m (tip m) batch with
           | (m1, None) => (m1, Err, false)
           | (m1, Some cs) => maybe_reorg m1 cs
           end
    end.

  (** AddValidatedV2Blocks (manager.go:310-351) under its documented precondition
      (every block v2 and valid against the supplied full states) *)
  Definition store_validated (m : mgr) (b : N) : mgr :=
    if has_state m b && on_best m b then m                       (* already applied (fix b5712b1) *)
    else Mgr (<[b := KI (Some SFull) true true]> (known m)) (best m).
  Definition add_validated (m : mgr) (batch : list N) : mgr * outcome * bool :=
    match batch with
    | [] => (m, Ok, false)
    | b0 :: _ =>
        match U !! b0 with
        | None => (m, Err, false)
        | Some B0 =>
            if negb (has_state m (parent B0)) then (m, Err, false)
            else
              let m1 := fold_left store_validated batch m in
              maybe_reorg m1 (List.last batch b0)
        end
    end.

  (** PruneBlocks (manager.go): walks down from min(height, tip+1)-1 while the best-chain
      block still has a body.  [best] is tip-first, so the block at height h is at
      position (length - 1 - h). *)
  Definition best_at (m : mgr) (h : N) : option N :=
    let n := N.of_nat (length (best m)) in
    if h <? n then nth_error (best m) (N.to_nat (n - 1 - h)) else None.
  Definition prune_block (m : mgr) (b : N) : mgr :=
    match known m !! b with
    | Some k => Mgr (<[b := KI (kst k) false false]> (known m)) (best m)
    | None => m
    end.
  Fixpoint prune_from (m : mgr) (h : nat) : mgr :=
    match h with
    | O => m
    | S h' => match best_at m (N.of_nat h') with
              | None => m
              | Some b => if has_body m b then prune_from (prune_block m b) h' else m
              end
    end.
  (** heights above the tip hold no blocks: start at the tip (fix 002f45a) *)
  Definition prune (m : mgr) (h : N) : mgr :=
    prune_from m (N.to_nat (N.min h (N.of_nat (length (best m))))).

  (** MinReorgIndex (manager.go:141-155): lowest best-chain block that still has a
      body below the tip, walking down *)
  Fixpoint min_reorg_from (m : mgr) (l : list N) (cur : N) : N :=
    match l with
    | [] => cur
    | p :: rest => if has_body m p then min_reorg_from m rest p else cur
    end.
  Definition min_reorg (m : mgr) : N :=
    match best m with [] => genesis | t :: rest => min_reorg_from m rest t end.

  (** ** Operations and histories *)
  Inductive mop :=
  | AddBlocks (batch : list N)
  | AddValidated (batch : list N)
  | Prune (h : N).

  Definition mstep (m : mgr) (o : mop) : mgr * outcome * bool :=
    match o with
    | AddBlocks l => add_blocks m l
    | AddValidated l => add_validated m l
    | Prune h => (prune m h, Ok, false)
    end.

  Definition mrun (ops : list mop) : mgr :=
    fold_left (λ m o, fst (fst (mstep m o))) ops init.
End U.
