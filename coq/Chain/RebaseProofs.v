(** * Chain/RebaseProofs.v — proofs about the rebasing model (C13). *)
From Coq Require Import NArith List Lia.
From stdpp Require Import gmap.
From CV Require Import Chain.Pool Chain.PoolProofs Chain.Rebase.
Import ListNotations.
Open Scope N_scope.

Section Dist.
(** the supported distance: every statement holds for any value *)
Context (md : nat).

(** ** reorgPath: the length bound *)
Lemma rewind_ok U maxlen nrev napp ix ix' :
  rewind U maxlen nrev napp ix = inr ix' → (nrev + napp ≤ maxlen)%nat.
Proof.
  unfold rewind. destruct (maxlen <? nrev + napp)%nat eqn:E; [done|]. intros _. by apply Nat.ltb_ge in E.
Qed.

Lemma path_down_len U maxlen other : ∀ fuel a bh acc a' acc',
  path_down fuel U maxlen other a bh acc = inr (a', acc') →
  (length acc + other ≤ maxlen)%nat → (length acc' + other ≤ maxlen)%nat.
Proof.
  induction fuel as [|f IH]; intros a bh acc a' acc' H Hl; simpl in H; [done|].
  destruct (bh <? a.1).
  - destruct (rewind U maxlen (length (acc ++ [a])) other a) as [e|a1] eqn:R; [done|].
    apply IH in H; [done|]. by apply rewind_ok in R.
  - by inversion H; subst.
Qed.

Lemma path_both_len U maxlen : ∀ fuel a b rev app rev' app',
  path_both fuel U maxlen a b rev app = inr (rev', app') →
  (length rev + length app ≤ S maxlen)%nat → (length rev' + length app' ≤ S maxlen)%nat.
Proof.
  induction fuel as [|f IH]; intros a b rev app rev' app' H Hl; simpl in H; [done|].
  case_bool_decide.
  - by inversion H; subst.
  - destruct (rewind U maxlen (length (rev ++ [a])) (length (app ++ [b])) a) as [e|a1] eqn:R1; [done|].
    destruct (rewind U maxlen (length (rev ++ [a])) (length (app ++ [b])) b) as [e|b1] eqn:R2; [done|].
    apply IH in H; [done|]. apply rewind_ok in R1. lia.
Qed.

(** a path that is returned has at most maxLen blocks (one more only in the "starting from
    genesis" special case, which a caller-supplied basis cannot reach: the zero id has no header) *)
Lemma reorg_path_len U gen maxlen a b rev app :
  reorg_path U gen maxlen a b = inr (rev, app) → (length rev + length app ≤ S maxlen)%nat.
Proof.
  unfold reorg_path.
  destruct (path_down _ U maxlen 0 a b.1 []) as [e|[a1 rev1]] eqn:P1; [done|].
  destruct (path_down _ U maxlen (length rev1) b a1.1 []) as [e|[b1 app1]] eqn:P2; [done|].
  apply path_down_len in P1; [|simpl; lia]. apply path_down_len in P2; [|simpl; lia].
  case_bool_decide.
  - destruct (path_both _ U maxlen gen b1 rev1 (app1 ++ [gen])) as [e|[rev' app']] eqn:P3; [done|].
    intros Hr; inversion Hr; subst. rewrite rev_length.
    apply path_both_len in P3; [done|]. rewrite app_length. simpl. lia.
  - destruct (path_both _ U maxlen a1 b1 rev1 app1) as [e|[rev' app']] eqn:P3; [done|].
    intros Hr; inversion Hr; subst. rewrite rev_length.
    apply path_both_len in P3; [done|]. lia.
Qed.

(** ** The revert and apply loops in closed form *)
Lemma revert_all_spec U : ∀ rev txs out,
  revert_all false U rev txs = ROk out →
  out = txs ∧ ∀ ix, ix ∈ rev → ∃ b pnum, block_and_parent U ix.2 = Some (b, pnum) ∧
                                  Forall (λ t, keep_tx pnum t = true) txs.
Proof.
  induction rev as [|ix r IH]; intros txs out H; simpl in H.
  - inversion H; subst. split; [done|]. intros ix Hix. by apply elem_of_nil in Hix.
  - destruct (block_and_parent U ix.2) as [[b pnum]|] eqn:E; [|done].
    destruct (forallb (λ t, keep_tx pnum t) txs) eqn:F; [|done].
    apply IH in H as [-> H]. split; [done|]. intros ix' [->|Hin]%elem_of_cons; [|auto].
    exists b, pnum. split; [done|]. apply Forall_forall. intros t Ht.
    rewrite forallb_forall in F. apply F. by apply elem_of_list_In.
Qed.

(** the elements the applied blocks create, earlier blocks first *)
Fixpoint created_on (U : universe) (app : list index) : gmap N N :=
  match app with
  | [] => ∅
  | ix :: r => match U !! ix.2 with Some b => sc_sf (b_cr b) ∪ created_on U r | None => created_on U r end
  end.
(** the v2 transactions the applied blocks confirm *)
Fixpoint confirmed_on (U : universe) (app : list index) : list N :=
  match app with
  | [] => []
  | ix :: r => match U !! ix.2 with Some b => b_ids b ++ confirmed_on U r | None => confirmed_on U r end
  end.

Lemma conv_confirmed_union cr1 cr2 i :
  (∀ lf, cr1 !! i_el i = Some lf → lf ≠ unassigned) →
  conv_confirmed cr2 (conv_confirmed cr1 i) = conv_confirmed (cr1 ∪ cr2) i.
Proof.
  intros Hsane. unfold conv_confirmed.
  destruct (is_spend i && (cls (i_el i) <? 2) && is_eph i) eqn:E.
  - rewrite lookup_union. destruct (cr1 !! i_el i) as [lf|] eqn:E1; simpl.
    + (* converted by the first block: no longer ephemeral *)
      specialize (Hsane lf eq_refl).
      unfold set_leaf, is_spend, is_eph in *; simpl.
      replace (lf =? unassigned) with false by (symmetry; by apply N.eqb_neq).
      rewrite andb_false_r. by destruct (cr2 !! i_el i).
    + rewrite E. by destruct (cr2 !! i_el i).
  - rewrite E. done.
Qed.

(** created leaf indices are real leaf indices, not the sentinel *)
Definition sane (U : universe) : Prop :=
  ∀ id b el lf, U !! id = Some b → sc_sf (b_cr b) !! el = Some lf → lf ≠ unassigned.

Lemma created_on_sane U app el lf : sane U → created_on U app !! el = Some lf → lf ≠ unassigned.
Proof.
  intros Hs. induction app as [|ix r IH]; simpl; [by rewrite lookup_empty|].
  destruct (U !! ix.2) as [b|] eqn:E; [|done].
  rewrite lookup_union_Some_raw. intros [H|[_ H]]; [by eapply Hs|auto].
Qed.

Definition spec_apply (U : universe) (app : list index) (txs : list atx) : list atx :=
  map (map_ins (conv_confirmed (created_on U app)))
      (List.filter (λ t, negb (bool_decide (a_id t ∈ confirmed_on U app))) txs).

Lemma map_ins_id t : map_ins (conv_confirmed ∅) t = t.
Proof.
  destruct t as [id v2 ins outs fee w lo hi fl]. unfold map_ins; simpl. f_equal.
  induction ins as [|i l IH]; simpl; [done|]. rewrite IH. f_equal.
  unfold conv_confirmed. rewrite lookup_empty. by destruct (_ && _).
Qed.

Lemma spec_apply_nil U txs : spec_apply U [] txs = txs.
Proof.
  unfold spec_apply. simpl. induction txs as [|t l IH]; simpl; [done|].
  by rewrite map_ins_id, IH.
Qed.

Lemma apply_all_spec U : sane U → ∀ app txs out,
  apply_all false U app txs = ROk out →
  out = spec_apply U app txs ∧
  (∀ ix, ix ∈ app → ∃ b pnum, block_and_parent U ix.2 = Some (b, pnum)) ∧
  (∀ b, (∃ ix, last app = Some ix ∧ U !! ix.2 = Some b) → Forall (λ t, keep_tx (b_num b) t = true) out).
Proof.
  intros Hs. induction app as [|ix r IH]; intros txs out H; simpl in H.
  - inversion H; subst. splits.
    + by rewrite spec_apply_nil.
    + intros ix Hix. by apply elem_of_nil in Hix.
    + intros b (ix&Hl&_). done.
  - destruct (block_and_parent U ix.2) as [[b pnum]|] eqn:E; [|done].
    assert (Hb : U !! ix.2 = Some b).
    { unfold block_and_parent in E. destruct (U !! ix.2) as [b0|]; [|done]. destruct (b_body b0); [|done].
      destruct (U !! b_par b0) as [pb|]; [|done]. destruct (b_st pb); [|done]. by inversion E. }
    set (rest := List.filter (λ t, negb (bool_decide (a_id t ∈ b_ids b))) txs) in *.
    set (upd := map (map_ins (conv_confirmed (sc_sf (b_cr b)))) rest) in *.
    destruct (forallb (λ t, keep_tx (b_num b) t) upd) eqn:F; [|done].
    apply IH in H as (->&H2&H3). splits.
    + unfold spec_apply. simpl. rewrite Hb. unfold upd, rest.
      (* filter commutes with the map (ids are kept), then the two maps and the two filters fuse *)
      clear -Hs Hb. induction txs as [|t l IHl]; simpl; [done|].
      destruct (bool_decide (a_id t ∈ b_ids b)) eqn:D1; simpl.
      * rewrite bool_decide_true by (apply bool_decide_eq_true in D1; set_solver). simpl. apply IHl.
      * apply bool_decide_eq_false in D1.
        change (a_id (map_ins (conv_confirmed (sc_sf (b_cr b))) t)) with (a_id t).
        destruct (bool_decide (a_id t ∈ confirmed_on U r)) eqn:D2; simpl.
        -- rewrite bool_decide_true by (apply bool_decide_eq_true in D2; set_solver). simpl. apply IHl.
        -- apply bool_decide_eq_false in D2. rewrite bool_decide_false by set_solver. simpl.
           f_equal; [|apply IHl].
           destruct t as [id v2 ins outs fee w lo hi fl]. unfold map_ins; simpl. f_equal.
           rewrite map_map. apply map_ext. intros i. apply conv_confirmed_union.
           intros lf Hlf. by eapply Hs.
    + intros ix' [->|Hin]%elem_of_cons; [eauto|auto].
    + intros b' (ix'&Hl&Hb'). destruct r as [|ix2 r'].
      * simpl in Hl. inversion Hl; subst ix'. rewrite Hb in Hb'. inversion Hb'; subst b'.
        rewrite spec_apply_nil.
        apply Forall_forall. intros t Ht. rewrite forallb_forall in F. apply F. by apply elem_of_list_In.
      * apply H3. exists ix'. split; [|done]. by rewrite last_cons_cons in Hl.
Qed.

(** what the replacement does to one input *)
Lemma conv_confirmed_cases cr i :
  (is_eph i = false → conv_confirmed cr i = i) ∧
  (cr !! i_el i = None → conv_confirmed cr i = i) ∧
  (∀ lf, is_spend i = true → cls (i_el i) < 2 → is_eph i = true → cr !! i_el i = Some lf →
         conv_confirmed cr i = set_leaf i lf true).
Proof.
  unfold conv_confirmed. splits.
  - intros ->. by rewrite andb_false_r.
  - intros ->. by destruct (_ && _).
  - intros lf -> Hc -> ->. apply N.ltb_lt in Hc. by rewrite Hc.
Qed.

Lemma spec_apply_ids U app txs :
  map a_id (spec_apply U app txs) =
  List.filter (λ id, negb (bool_decide (id ∈ confirmed_on U app))) (map a_id txs).
Proof.
  unfold spec_apply. induction txs as [|t l IH]; simpl; [done|].
  destruct (bool_decide (a_id t ∈ confirmed_on U app)); simpl; by rewrite IH.
Qed.

(** ** C13: what a successful rebase returns *)
Theorem rebase_ok_spec U gen txs from to out :
  sane U → update_proofs md U gen txs from to = ROk out →
  ∃ rev app,
    reorg_path U gen md from to = inr (rev, app) ∧
    (length rev + length app ≤ S md)%nat ∧
    (∃ fb, U !! from.2 = Some fb ∧ b_st fb = true) ∧
    Forall (λ t, elements_valid t = true) txs ∧
    (∀ ix, ix ∈ rev → ∃ b pnum, block_and_parent U ix.2 = Some (b, pnum) ∧
                        Forall (λ t, keep_tx pnum t = true) txs) ∧
    (∀ ix, ix ∈ app → ∃ b pnum, block_and_parent U ix.2 = Some (b, pnum)) ∧
    out = spec_apply U app txs ∧
    map a_id out = List.filter (λ id, negb (bool_decide (id ∈ confirmed_on U app))) (map a_id txs) ∧
    (∀ b, (∃ ix, last app = Some ix ∧ U !! ix.2 = Some b) → Forall (λ t, keep_tx (b_num b) t = true) out).
Proof.
  intros Hs H. unfold update_proofs, update_proofs_gen in H.
  destruct (U !! from.2) as [fb|] eqn:Ef; [|done].
  destruct (b_st fb) eqn:Est; [|done]. simpl in H.
  destruct (forallb elements_valid txs) eqn:Ev; [|done]. simpl in H.
  destruct (reorg_path U gen md from to) as [e|[rev app]] eqn:Ep; [done|].
  destruct (revert_all false U rev txs) as [txs'|e] eqn:Er; [|done].
  apply revert_all_spec in Er as [-> Hr].
  apply apply_all_spec in H as (->&Ha&Hk); [|done].
  exists rev, app. splits; auto.
  - by eapply reorg_path_len.
  - eauto.
  - apply Forall_forall. intros t Ht. rewrite forallb_forall in Ev. apply Ev. by apply elem_of_list_In.
  - apply spec_apply_ids.
Qed.

(** ** C13: errors *)
Theorem rebase_errors U gen txs from to :
  ((U !! from.2 = None ∨ ∃ fb, U !! from.2 = Some fb ∧ b_st fb = false) →
     update_proofs md U gen txs from to = RErr EBasis) ∧
  ((∃ fb, U !! from.2 = Some fb ∧ b_st fb = true) → (∃ t, t ∈ txs ∧ elements_valid t = false) →
     update_proofs md U gen txs from to = RErr EProof) ∧
  (∀ e, (∃ fb, U !! from.2 = Some fb ∧ b_st fb = true) → Forall (λ t, elements_valid t = true) txs →
     reorg_path U gen md from to = inl e → update_proofs md U gen txs from to = RErr e) ∧
  (∀ out, update_proofs md U gen txs from to = ROk out →
     ∃ rev app, reorg_path U gen md from to = inr (rev, app) ∧
                (length rev + length app ≤ S md)%nat) ∧
  ((∃ l, update_proofs md U gen txs from to = ROk l) ∨ (∃ e, update_proofs md U gen txs from to = RErr e)).
Proof.
  unfold update_proofs, update_proofs_gen. splits.
  - intros [->|(fb&->&->)]; done.
  - intros (fb&->&->) (t&Ht&Hv). simpl.
    replace (forallb elements_valid txs) with false; [done|]. symmetry. apply not_true_iff_false.
    rewrite forallb_forall. intros Ha. apply elem_of_list_In in Ht. rewrite (Ha t Ht) in Hv. done.
  - intros e (fb&->&->) Hv ->. simpl.
    replace (forallb elements_valid txs) with true; [done|]. symmetry. apply forallb_forall.
    intros t Ht. rewrite Forall_forall in Hv. apply Hv. by apply elem_of_list_In.
  - intros out H. destruct (U !! from.2) as [fb|]; [|done]. destruct (b_st fb); [|done]. simpl in H.
    destruct (forallb elements_valid txs); [|done]. simpl in H.
    destruct (reorg_path U gen md from to) as [e|[rev app]] eqn:Ep; [done|].
    exists rev, app. split; [done|]. by eapply reorg_path_len.
  - destruct (U !! from.2) as [fb|]; [|right; eauto]. destruct (b_st fb); [|right; eauto]. simpl.
    destruct (forallb elements_valid txs); [|right; eauto]. simpl.
    destruct (reorg_path U gen md from to) as [e|[rev app]]; [right; eauto|].
    destruct (revert_all false U rev txs) as [txs'|e]; [|right; eauto].
    destruct (apply_all false U app txs') as [l|e]; [left|right]; eauto.
Qed.

(** ** Boundary of the supported distance on a line (cf. the repository's TestReorgPathMaxLen):
    block id k+1 has height k; id 0 is the state before genesis *)
Definition lin_blk (k : N) : N * blk :=
  (k, Blk (k - 1) (negb (k =? 0)) true (negb (k =? 0)) [] [] (10 + k)).
Definition lin (n : nat) : universe := list_to_map (map (λ k, lin_blk (N.of_nat k)) (seq 0 (S n))).

Example rebase_boundary :
  update_proofs max_rebase (lin 160) (0, 1) [] (2, 3) (146, 147) = ROk [] ∧
  update_proofs max_rebase (lin 160) (0, 1) [] (2, 3) (147, 148) = RErr ETooLong ∧
  update_proofs max_rebase (lin 160) (0, 1) [] (146, 147) (2, 3) = ROk [] ∧
  update_proofs max_rebase (lin 160) (0, 1) [] (147, 148) (2, 3) = RErr ETooLong ∧
  update_proofs max_rebase (lin 160) (0, 1) [] (2, 999) (5, 6) = RErr EBasis.
Proof. vm_compute. done. Qed.

(** ** F9 in the rebase: a [parent; child] set across one unrelated block *)
Definition exRU : universe :=
  list_to_map [(0, Blk 0 false true false [] [] 0); (1, Blk 0 true true true [] [(0, 0); (4, 1); (8, 2)] 3);
               (2, Blk 1 true true true [] [] 5)].
Theorem rebase_prefix_refuted :
  update_proofs_prefix max_rebase exRU (0, 1) [tB; tC] (0, 1) (1, 2) = RErr EGone ∧
  update_proofs max_rebase exRU (0, 1) [tB; tC] (0, 1) (1, 2) = ROk [tB; tC].
Proof. vm_compute. done. Qed.

Example ex_sane : sane exRU.
Proof.
  intros id b el lf Hb Hl. apply elem_of_list_to_map_2 in Hb. unfold sc_sf in Hl.
  apply elem_of_list_to_map_2, elem_of_list_In, filter_In in Hl as [Hl _]. apply elem_of_list_In in Hl.
  set_unfold in Hb. destruct Hb as [Hb|[Hb|[Hb|[]]]]; inversion Hb; subst; simpl in Hl; set_unfold in Hl.
  - done.
  - destruct Hl as [Hl|[Hl|[Hl|[]]]]; inversion Hl; subst; done.
  - done.
Qed.

(** ** Parent discovery *)
Definition pm_ok (pm : gmap N nat) (pool_l : list atx) : Prop :=
  ∀ el ix, pm !! el = Some ix → is_Some (pool_l !! ix).

(** the creators (per the map) of every non-reference input of [t] are in [S] *)
Definition resolved (pm : gmap N nat) (S : list nat) (t : atx) : Prop :=
  ∀ i ix, i ∈ a_ins t → is_ref i = false → pm !! i_el i = Some ix → ix ∈ S.

Definition PI (pool_l : list atx) (seen : list nat) (acc : list atx) : Prop :=
  length seen = length acc ∧ NoDup seen ∧
  (∀ ix, ix ∈ seen → ∃ u, pool_l !! ix = Some u ∧ u ∈ acc) ∧
  (∀ u, u ∈ acc → ∃ ix, ix ∈ seen ∧ pool_l !! ix = Some u).

Definition pstep (pm : gmap N nat) (pool_l : list atx) (st : option (list nat * list atx)) (i : ain) :=
  match st with
  | None => None
  | Some (seen, acc) =>
      if is_ref i then Some (seen, acc) else
      match pm !! i_el i with
      | Some ix => if bool_decide (ix ∈ seen) then Some (seen, acc)
                   else match pool_l !! ix with
                        | Some u => Some (ix :: seen, acc ++ [u])
                        | None => None
                        end
      | None => Some (seen, acc)
      end
  end.

Lemma pstep_fold pm pool_l : pm_ok pm pool_l → ∀ ins seen acc,
  PI pool_l seen acc →
  ∃ seen' acc', foldl (pstep pm pool_l) (Some (seen, acc)) ins = Some (seen', acc') ∧
    PI pool_l seen' acc' ∧ (∀ ix, ix ∈ seen → ix ∈ seen') ∧ (length acc ≤ length acc')%nat ∧
    (∀ i ix, i ∈ ins → is_ref i = false → pm !! i_el i = Some ix → ix ∈ seen').
Proof.
  intros Hpm. induction ins as [|i ins IH]; intros seen acc HI; simpl.
  - exists seen, acc. splits; auto. intros i ix Hi. by apply elem_of_nil in Hi.
  - destruct (is_ref i) eqn:Hr.
    { destruct (IH seen acc HI) as (s'&a'&H1&H2&H3&H4&H5). exists s', a'. splits; auto.
      intros j ix [->|Hj]%elem_of_cons; [congruence|eauto]. }
    destruct (pm !! i_el i) as [ix0|] eqn:Hp.
    2:{ destruct (IH seen acc HI) as (s'&a'&H1&H2&H3&H4&H5). exists s', a'. splits; auto.
        intros j ix [->|Hj]%elem_of_cons; [congruence|eauto]. }
    case_bool_decide as Hin.
    { destruct (IH seen acc HI) as (s'&a'&H1&H2&H3&H4&H5). exists s', a'. splits; auto.
      intros j ix [->|Hj]%elem_of_cons; [|eauto]. intros _ E. rewrite Hp in E. inversion E; subst. auto. }
    destruct (Hpm _ _ Hp) as [u Hu]. rewrite Hu.
    assert (HI' : PI pool_l (ix0 :: seen) (acc ++ [u])).
    { destruct HI as (Hl&Hn&Ha&Hb). unfold PI. rewrite app_length. simpl. splits.
      - lia.
      - by apply NoDup_cons.
      - intros ix [->|Hx]%elem_of_cons.
        + exists u. split; [done|]. apply elem_of_app. right. by apply elem_of_list_singleton.
        + destruct (Ha ix Hx) as (v&?&?). exists v. split; [done|]. apply elem_of_app. by left.
      - intros v [Hv|Hv%elem_of_list_singleton]%elem_of_app.
        + destruct (Hb v Hv) as (ix&?&?). exists ix. split; [by right|done].
        + subst v. exists ix0. split; [by left|done]. }
    destruct (IH _ _ HI') as (s'&a'&H1&H2&H3&H4&H5). exists s', a'. splits; auto.
    + intros ix Hx. apply H3. by right.
    + rewrite app_length in H4. simpl in H4. lia.
    + intros j ix [->|Hj]%elem_of_cons; [|eauto]. intros _ E. rewrite Hp in E. inversion E; subst.
      apply H3. by left.
Qed.

Lemma add_parents_pstep pm pool_l seen acc t :
  add_parents pm pool_l seen acc t = foldl (pstep pm pool_l) (Some (seen, acc)) (a_ins t).
Proof. done. Qed.

(** one pass over the transactions collected so far *)
Lemma pass_fold pm pool_l : pm_ok pm pool_l → ∀ us seen acc,
  PI pool_l seen acc →
  ∃ seen' acc',
    foldl (λ st u, match st with None => None | Some (s, a) => add_parents pm pool_l s a u end)
          (Some (seen, acc)) us = Some (seen', acc') ∧
    PI pool_l seen' acc' ∧ (∀ ix, ix ∈ seen → ix ∈ seen') ∧ (length acc ≤ length acc')%nat ∧
    (∀ u, u ∈ us → resolved pm seen' u).
Proof.
  intros Hpm. induction us as [|u us IH]; intros seen acc HI; simpl.
  - exists seen, acc. splits; auto. intros u Hu. by apply elem_of_nil in Hu.
  - rewrite add_parents_pstep.
    destruct (pstep_fold pm pool_l Hpm (a_ins u) seen acc HI) as (s1&a1&E1&HI1&M1&L1&R1). rewrite E1.
    destruct (IH s1 a1 HI1) as (s2&a2&E2&HI2&M2&L2&R2). exists s2, a2. splits; auto.
    + lia.
    + intros v [->|Hv]%elem_of_cons; [|auto]. intros i ix Hi Hr Hp. apply M2. eauto.
Qed.

Lemma nodup_bounded (l : list nat) n : NoDup l → (∀ x, x ∈ l → (x < n)%nat) → (length l ≤ n)%nat.
Proof.
  intros Hn Hb. rewrite <- (seq_length n 0). apply submseteq_length, NoDup_submseteq; [done|].
  intros x Hx. apply elem_of_seq. specialize (Hb x Hx). lia.
Qed.

Lemma PI_bound pool_l seen acc : PI pool_l seen acc → (length seen ≤ length pool_l)%nat.
Proof.
  intros (_&Hn&Ha&_). apply nodup_bounded; [done|]. intros ix Hx. destruct (Ha ix Hx) as (u&Hu&_).
  by apply lookup_lt_Some in Hu.
Qed.

Lemma parents_fix_spec pm pool_l : pm_ok pm pool_l → ∀ fuel seen acc,
  PI pool_l seen acc → (length pool_l - length seen < fuel)%nat →
  ∃ seen' acc', parents_fix fuel pm pool_l seen acc = Some (seen', acc') ∧
    PI pool_l seen' acc' ∧ (∀ ix, ix ∈ seen → ix ∈ seen') ∧ (∀ u, u ∈ acc' → resolved pm seen' u).
Proof.
  intros Hpm. induction fuel as [|f IH]; intros seen acc HI Hf; [lia|]. simpl.
  destruct (pass_fold pm pool_l Hpm acc seen acc HI) as (s1&a1&E1&HI1&M1&L1&R1). rewrite E1.
  destruct (Nat.eqb (length a1) (length acc)) eqn:El.
  - apply Nat.eqb_eq in El. exists seen, acc. splits; auto.
    (* nothing was added: the position sets coincide *)
    intros u Hu i ix Hi Hr Hp. specialize (R1 u Hu i ix Hi Hr Hp).
    destruct HI as (Hl&Hn&_), HI1 as (Hl1&Hn1&_).
    assert (Hsub : seen ⊆+ s1) by (apply NoDup_submseteq; auto).
    assert (Hperm : seen ≡ₚ s1) by (apply submseteq_Permutation_length_eq; [lia|done]).
    by rewrite Hperm.
  - apply Nat.eqb_neq in El.
    destruct (IH s1 a1 HI1) as (s2&a2&E2&HI2&M2&R2).
    { pose proof (PI_bound _ _ _ HI1). destruct HI as (Hl&_), HI1 as (Hl1&_). lia. }
    exists s2, a2. splits; auto.
Qed.

Lemma at_positions_elem seen : ∀ l n u,
  u ∈ at_positions seen n l ↔ ∃ k, l !! k = Some u ∧ (n + k)%nat ∈ seen.
Proof.
  induction l as [|t l IH]; intros n u; simpl.
  - split; [intros H; by apply elem_of_nil in H|intros (k&H&_); by rewrite lookup_nil in H].
  - case_bool_decide as Hn.
    + rewrite elem_of_cons, IH. split.
      * intros [->|(k&Hk&Hs)]; [exists 0%nat; rewrite Nat.add_0_r; auto|].
        exists (S k). split; [done|]. by replace (n + S k)%nat with (S n + k)%nat by lia.
      * intros ([|k]&Hk&Hs); simpl in Hk; [inversion Hk; auto|]. right. exists k. split; [done|].
        by replace (S n + k)%nat with (n + S k)%nat by lia.
    + rewrite IH. split.
      * intros (k&Hk&Hs). exists (S k). split; [done|]. by replace (n + S k)%nat with (S n + k)%nat by lia.
      * intros ([|k]&Hk&Hs); simpl in Hk.
        -- rewrite Nat.add_0_r in Hs. done.
        -- exists k. split; [done|]. by replace (S n + k)%nat with (n + S k)%nat by lia.
Qed.

Lemma at_positions_sublist seen : ∀ l n, sublist (at_positions seen n l) l.
Proof.
  induction l as [|t l IH]; intros n; simpl; [constructor|].
  case_bool_decide; [apply sublist_skip|apply sublist_cons]; apply IH.
Qed.

(** the repaired discovery never panics and returns, in pool order, a set of pooled
    transactions that is closed under "creator of an input" *)
Theorem unconfirmed_parents_spec pm pool_l t :
  pm_ok pm pool_l →
  ∃ ps, unconfirmed_parents pm pool_l t = PList ps ∧ sublist ps pool_l ∧
    ∀ u, u ∈ ps ∨ u = t → ∀ i ix, i ∈ a_ins u → is_ref i = false → pm !! i_el i = Some ix →
      ∃ p, pool_l !! ix = Some p ∧ p ∈ ps.
Proof.
  intros Hpm. unfold unconfirmed_parents, unconfirmed_parents_gen.
  assert (HI0 : PI pool_l [] []).
  { unfold PI. splits; auto; [constructor|intros ix Hx; by apply elem_of_nil in Hx|intros u Hu; by apply elem_of_nil in Hu]. }
  rewrite add_parents_pstep.
  destruct (pstep_fold pm pool_l Hpm (a_ins t) [] [] HI0) as (s1&a1&E1&HI1&_&_&R1). rewrite E1.
  destruct (parents_fix_spec pm pool_l Hpm (S (S (length pool_l))) s1 a1 HI1) as (s2&a2&E2&HI2&M2&R2); [lia|].
  rewrite E2. exists (at_positions s2 0 pool_l). splits; [done|apply at_positions_sublist|].
  destruct HI2 as (_&_&Ha&Hb).
  assert (Hin : ∀ ix, ix ∈ s2 → ∃ p, pool_l !! ix = Some p ∧ p ∈ at_positions s2 0 pool_l).
  { intros ix Hx. destruct (Ha ix Hx) as (p&Hp&_). exists p. split; [done|].
    apply at_positions_elem. exists ix. split; [done|]. done. }
  intros u [Hu| ->] i ix Hi Hr Hp.
  - apply at_positions_elem in Hu as (k&Hk&Hs). simpl in Hs.
    destruct (Ha k Hs) as (u'&Hu'&Hacc). rewrite Hk in Hu'. inversion Hu'; subst u'.
    apply Hin. eapply R2; eauto.
  - apply Hin, M2. eapply R1; eauto.
Qed.

Lemma parent_map_ok l : pm_ok (parent_map l) l.
Proof.
  unfold parent_map, pm_ok.
  assert (G : ∀ (l0 : list atx) (n : nat) (pm0 : gmap N nat),
    (∀ el ix, pm0 !! el = Some ix → (ix < n)%nat) →
    ∀ el ix, foldl (λ pm p, foldl (λ pm o, <[o := p.1]> pm) pm (a_outs p.2)) pm0
               (imap (λ i t, ((n + i)%nat, t)) l0) !! el = Some ix → (ix < n + length l0)%nat).
  { induction l0 as [|t l0 IH]; intros n pm0 H0 el ix; simpl.
    - intros H. apply H0 in H. lia.
    - rewrite Nat.add_0_r.
      assert (Hi : imap ((λ i t0, ((n + i)%nat, t0)) ∘ S) l0 = imap (λ i t0, ((S n + i)%nat, t0)) l0).
      { apply imap_ext. intros; simpl. f_equal. lia. }
      rewrite Hi. intros H. apply IH in H; [lia|].
      assert (H0' : ∀ el ix, pm0 !! el = Some ix → (ix < S n)%nat) by (intros e x Hx; apply H0 in Hx; lia).
      clear -H0'. intros el' ix'. generalize dependent pm0. induction (a_outs t) as [|o os IHo]; intros pm0 H0'; simpl.
      + apply H0'.
      + apply IHo. intros e x. destruct (decide (e = o)) as [->|Hne].
        * rewrite lookup_insert. intros E; inversion E. lia.
        * rewrite lookup_insert_ne by done. apply H0'. }
  intros el ix H. apply lookup_lt_is_Some. apply (G l 0%nat ∅) in H; [done|].
  intros e x. by rewrite lookup_empty.
Qed.

(** ** C13: the broadcastable set *)
Theorem set_parents_first_and_basis_is_tip U gen L mw tip p basis t :
  v2_transaction_set md U gen L mw tip p basis t ≠ SPanic ∧
  ∀ b l, v2_transaction_set md U gen L mw tip p basis t = SOk b l →
    b = tip ∧
    ∃ parents l',
      l = parents ++ l' ∧ update_proofs md U gen [t] basis tip = ROk l' ∧
      sublist parents (v2_pool_transactions L mw p) ∧
      ∀ u, u ∈ parents ∨ u = t → ∀ i ix, i ∈ a_ins u → is_ref i = false →
        parent_map (v2_pool_transactions L mw p) !! i_el i = Some ix →
        ∃ q, v2_pool_transactions L mw p !! ix = Some q ∧ q ∈ parents.
Proof.
  unfold v2_transaction_set, v2_pool_transactions.
  set (pl := v2txns (revalidate L mw p)).
  destruct (unconfirmed_parents_spec (parent_map pl) pl t (parent_map_ok pl)) as (ps&E&Hs&Hc).
  rewrite E. split.
  - by destruct (update_proofs md U gen [t] basis tip).
  - intros b l H. destruct (update_proofs md U gen [t] basis tip) as [l'|e] eqn:Eu; [|done].
    inversion H; subst. split; [done|]. exists ps, l'. splits; auto.
Qed.

(** findings F17, F18, F20 about the code before the repairs *)
Definition tP := ATx 7 true [AIn 4 RSpend 1 true 0] [120; 124] 1 10 0 100 false.   (* creates 120, 124 *)
Definition tQ := ATx 8 true [AIn 120 RSpend unassigned true 0] [128] 1 10 0 100 false. (* child of tP *)
Definition tR := ATx 9 true [AIn 124 RSpend unassigned true 0; AIn 128 RSpend unassigned true 0] [132] 1 10 0 100 false.
Theorem parents_prefix_refuted :
  (* F20: a descendant before its ancestor *)
  unconfirmed_parents_prefix (parent_map [tP; tQ]) [tP; tQ] tR = PList [tQ; tP] ∧
  unconfirmed_parents (parent_map [tP; tQ]) [tP; tQ] tR = PList [tP; tQ] ∧
  (* F17: a v2 child of a pooled v1 transaction indexes the v2 slice with a v1 position *)
  unconfirmed_parents_prefix (parent_map_prefix [tA; tA] []) [] (ATx 11 true [AIn 100 RSpend unassigned true 0] [] 1 10 0 100 false) = PPanic.
Proof. vm_compute. done. Qed.

(** ** A child rebased alone: the creator of its ephemeral input need not be in the set *)
Theorem rebase_child_alone U gen t from to out :
  sane U → update_proofs md U gen [t] from to = ROk out →
  ∃ rev app, reorg_path U gen md from to = inr (rev, app) ∧
    (a_id t ∈ confirmed_on U app → out = []) ∧
    (a_id t ∉ confirmed_on U app → out = [map_ins (conv_confirmed (created_on U app)) t]).
Proof.
  intros Hs H. apply rebase_ok_spec in H as (rev&app&Hp&_&_&_&_&_&->&_); [|done].
  exists rev, app. split; [done|]. unfold spec_apply. simpl. split; intros Hc.
  - by rewrite bool_decide_true.
  - by rewrite bool_decide_false.
Qed.

(** block 2 confirms the parent tB (id 2) and creates its output 104 as leaf 3 *)
Definition exRU2 : universe :=
  list_to_map [(0, Blk 0 false true false [] [] 0); (1, Blk 0 true true true [] [(0, 0); (4, 1); (8, 2)] 3);
               (2, Blk 1 true true true [2] [(104, 3)] 5)].
Example rebase_child_alone_ex :
  update_proofs max_rebase exRU2 (0, 1) [tC] (0, 1) (1, 2) =
    ROk [ATx 3 true [AIn 104 RSpend 3 true 0] [108] 1 10 0 100 false] ∧
  update_proofs max_rebase exRU2 (0, 1) [tB; tC] (0, 1) (1, 2) =
    ROk [ATx 3 true [AIn 104 RSpend 3 true 0] [108] 1 10 0 100 false].
Proof. vm_compute. done. Qed.
End Dist.
