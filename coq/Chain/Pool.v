(** * Chain/Pool.v — the transaction pool of chain/manager.go and MineBlock of miner.go
    (C05, C13, C14).  Executable model, no proofs.

    Vocabulary.  An element (siacoin/siafund output, v1 contract, v2 contract *version*,
    chain-index element) is a number whose residue mod 4 is its class, mirroring Go's
    static types: 0 siacoin output, 1 siafund output, 2 v1 file contract, 3 element that only
    v2 transactions can reference (v2 contract, chain index).  A transaction input names an
    element, says what it does with it ([RSpend]: inputs, storage proofs, resolutions;
    [RRevise]: contract revisions, which need the element unresolved but do not consume it;
    [RRef]: the chain-index element of a v2 storage proof) and, for v2, carries the
    StateElement data the pool manipulates: the leaf index — [unassigned] is
    types.UnassignedLeafIndex, the "ephemeral" sentinel — and whether its Merkle proof
    verifies against the state it is claimed for (an input bit computed by go.sia.tech/core).
    Everything height-dependent that core decides from the transaction alone (hardfork
    windows, replay prefix, maturity, contract windows, signatures) is the window
    [a_lo, a_hi] of child heights at which the transaction can be valid.

    The ledger at the tip is the set of unspent elements with their leaf indices, the
    number of leaves of the accumulator, the tip height, and the revision numbers of the
    contracts. *)
From Coq Require Import NArith List.
From stdpp Require Import gmap.
Import ListNotations.
Open Scope N_scope.

(** types.UnassignedLeafIndex (core types/types.go:48) *)
Definition unassigned : N := 10101010101010101010.

Inductive role := RSpend | RRevise | RRef.
#[global] Instance role_eq_dec : EqDecision role.
Proof. solve_decision. Defined.

Record ain := AIn { i_el : N; i_role : role; i_leaf : N; i_pok : bool; i_rev : N }.
#[global] Instance ain_eq_dec : EqDecision ain.
Proof. solve_decision. Defined.

Record atx := ATx {
  a_id : N; a_v2 : bool; a_ins : list ain; a_outs : list N;
  a_fee : N; a_weight : N; a_lo : N; a_hi : N;
  a_feeless : bool   (* len(MinerFees)==0 resp. MinerFee.IsZero(): not re-offered after a revert *)
}.
#[global] Instance atx_eq_dec : EqDecision atx.
Proof. solve_decision. Defined.

Record ledger := LG { l_el : gmap N N; l_num : N; l_h : N; l_rev : gmap N N }.

Definition cls (el : N) : N := el mod 4.
Definition is_eph (i : ain) : bool := i_leaf i =? unassigned.
Definition is_ref (i : ain) : bool := match i_role i with RRef => true | _ => false end.
Definition is_spend (i : ain) : bool := match i_role i with RSpend => true | _ => false end.

(** Go's types: v1 transactions cannot name class-3 elements, v2 transactions cannot name
    v1 contracts; revisions are of contracts; the proof index is a v2-only element. *)
Definition wf_in (v2 : bool) (i : ain) : bool :=
  match i_role i with
  | RSpend => if v2 then negb (cls (i_el i) =? 2) else negb (cls (i_el i) =? 3)
  | RRevise => if v2 then cls (i_el i) =? 3 else cls (i_el i) =? 2
  | RRef => v2 && (cls (i_el i) =? 3)
  end.

(** ** consensus.MidState, as far as element availability goes *)
Record mids := MS { m_sp : gset N; m_cr : gset N }.
Definition fresh : mids := MS ∅ ∅.

(** v2: the element with exactly this leaf is an unspent leaf of the tip accumulator and the
    proof verifies (ElementAccumulator.containsUnspent…Element) *)
Definition present (L : ledger) (i : ain) : bool :=
  match l_el L !! i_el i with
  | Some lf => (lf =? i_leaf i) && i_pok i
  | None => false
  end.

(** core validation.go:180-210,602-630,719-740: where a parent may come from *)
Definition avail (L : ledger) (m : mids) (v2 : bool) (i : ain) : bool :=
  if v2 then
    if is_eph i then bool_decide (i_el i ∈ m_cr m) && (cls (i_el i) <? 2)
    else present L i
  else bool_decide (is_Some (l_el L !! i_el i)) || bool_decide (i_el i ∈ m_cr m).

(** a revision must carry a higher revision number than the contract has in the ledger
    (validation.go:271-283, 756-790); revisions of one contract by several pooled
    transactions are not ordered by the model *)
Definition rev_ok (L : ledger) (i : ain) : bool :=
  match i_role i with
  | RRevise => default 0 (l_rev L !! i_el i) <? i_rev i
  | _ => true
  end.

Definition check_in (L : ledger) (m : mids) (v2 : bool) (i : ain) : bool :=
  match i_role i with
  | RRef => negb (is_eph i) && present L i
  | _ => negb (bool_decide (i_el i ∈ m_sp m)) && avail L m v2 i && rev_ok L i
  end.

Definition touched (t : atx) : list N := map i_el (List.filter (λ i, negb (is_ref i)) (a_ins t)).
Definition spends (t : atx) : list N := map i_el (List.filter is_spend (a_ins t)).

(** what core decides from the transaction and the height alone *)
Definition static_ok (h : N) (t : atx) : bool :=
  (a_lo t <=? h + 1) && (h + 1 <=? a_hi t) &&
  bool_decide (NoDup (touched t)) && forallb (wf_in (a_v2 t)) (a_ins t).

(** consensus.ValidateTransaction / ValidateV2Transaction *)
Definition check (L : ledger) (m : mids) (t : atx) : bool :=
  static_ok (l_h L) t && forallb (check_in L m (a_v2 t)) (a_ins t).

(** MidState.ApplyTransaction / ApplyV2Transaction *)
Definition apply_tx (m : mids) (t : atx) : mids :=
  MS (m_sp m ∪ list_to_set (spends t)) (m_cr m ∪ list_to_set (a_outs t)).

(** sequential validity from a mid-state: inputs exist or were created earlier in the
    sequence, nothing is spent twice, proofs verify against the tip *)
Fixpoint vseq (L : ledger) (m : mids) (ts : list atx) : option mids :=
  match ts with
  | [] => Some m
  | t :: ts' => if check L m t then vseq L (apply_tx m t) ts' else None
  end.
Definition valid_seq (L : ledger) (ts : list atx) : Prop := is_Some (vseq L fresh ts).

(** ** The pool (manager.go:91-100) *)
Record pool := Pool {
  txns : list atx; v2txns : list atx; indices : gmap N nat; ms : option mids;
  weight : N; last_rev : list atx; last_rev2 : list atx
}.
Definition pool0 : pool := Pool [] [] ∅ None 0 [] [].

Definition set_ms (p : pool) (m : option mids) : pool :=
  Pool (txns p) (v2txns p) (indices p) m (weight p) (last_rev p) (last_rev2 p).
Definition set_v2txns (p : pool) (l : list atx) : pool :=
  Pool (txns p) l (indices p) (ms p) (weight p) (last_rev p) (last_rev2 p).

(** the re-add loops of revalidatePool (manager.go:705-740); [k] is the slice being filled
    (false: txns, true: v2txns — a Go type), [n] the length of the filtered prefix *)
Fixpoint refill (L : ledger) (k : bool) (ts : list atx) (n : nat) (m : mids)
    (idx : gmap N nat) (w : N) : list atx * mids * gmap N nat * N :=
  match ts with
  | [] => ([], m, idx, w)
  | t :: ts' =>
      if bool_decide (is_Some (idx !! a_id t)) then refill L k ts' n m idx w
      else if Bool.eqb (a_v2 t) k && check L m t then
        let '(r, m', idx', w') :=
          refill L k ts' (S n) (apply_tx m t) (<[a_id t := n]> idx) (w + a_weight t) in
        (t :: r, m', idx', w')
      else refill L k ts' n m idx w
  end.

(** eviction (manager.go:651-696) *)
Record fee_txn := FT { ft_index : nat; ft_rate : N; ft_weight : N; ft_v2 : bool }.

Definition fee_list (k : bool) (ts : list atx) : list fee_txn :=
  imap (λ i t, FT i (a_fee t / a_weight t) (a_weight t) k) ts.

Fixpoint insert_by_rate (f : fee_txn) (l : list fee_txn) : list fee_txn :=
  match l with
  | [] => [f]
  | g :: l' => if ft_rate f <? ft_rate g then f :: l else g :: insert_by_rate f l'
  end.
(** stable insertion sort, ascending rate (sort.Slice is not stable; the harness keeps the
    rates of eviction candidates distinct) *)
Definition sort_by_rate (l : list fee_txn) : list fee_txn := foldr insert_by_rate [] l.

Fixpoint evict_loop (lim w : N) (fts : list fee_txn) : list fee_txn :=
  match fts with
  | [] => []
  | f :: r => if lim <=? w then evict_loop lim (w - ft_weight f) r else fts
  end.

Fixpoint keep_from (kept : list fee_txn) (k : bool) (s : nat) (ts : list atx) : list atx :=
  match ts with
  | [] => []
  | t :: r => if bool_decide (Exists (λ f, ft_index f = s ∧ ft_v2 f = k) kept)
              then t :: keep_from kept k (S s) r else keep_from kept k (S s) r
  end.
Definition keep_by (kept : list fee_txn) (k : bool) (ts : list atx) : list atx := keep_from kept k 0 ts.

(** revalidatePool (manager.go:640-741); [mw] is State.MaxBlockWeight *)
Definition revalidate (L : ledger) (mw : N) (p : pool) : pool :=
  let maxw := mw * 10 in
  if bool_decide (is_Some (ms p)) && (weight p <? maxw) then p else
  let '(t1, t2) :=
    if maxw <=? weight p then
      let kept := evict_loop (maxw * 3 / 4) (weight p)
                    (sort_by_rate (fee_list false (txns p) ++ fee_list true (v2txns p))) in
      (keep_by kept false (txns p), keep_by kept true (v2txns p))
    else (txns p, v2txns p) in
  let '(r1, m1, idx1, w1) := refill L false (t1 ++ last_rev p) 0 fresh ∅ 0 in
  let '(r2, m2, idx2, w2) := refill L true (t2 ++ last_rev2 p) 0 m1 idx1 w1 in
  Pool r1 r2 idx2 (Some m2) w2 (last_rev p) (last_rev2 p).

Definition pool_transactions (L : ledger) (mw : N) (p : pool) : list atx := txns (revalidate L mw p).
Definition v2_pool_transactions (L : ledger) (mw : N) (p : pool) : list atx := v2txns (revalidate L mw p).

(** ** Lookup (manager.go:1013-1046, repaired: the id at the found position is compared) *)
Inductive lres := LFound (t : atx) | LAbsent | LPanic.

Definition lookup_in (l : list atx) (idx : gmap N nat) (id : N) : lres :=
  match idx !! id with
  | None => LAbsent
  | Some i => match l !! i with
              | Some t => if a_id t =? id then LFound t else LAbsent
              | None => LAbsent
              end
  end.
Definition lookup_v1 (L : ledger) (mw : N) (p : pool) (id : N) : lres :=
  let p := revalidate L mw p in lookup_in (txns p) (indices p) id.
Definition lookup_v2 (L : ledger) (mw : N) (p : pool) (id : N) : lres :=
  let p := revalidate L mw p in lookup_in (v2txns p) (indices p) id.

(** the code before the repair: the position from the shared map indexes whichever slice
    the caller asked for (finding F1) *)
Definition lookup_in_prefix (l : list atx) (idx : gmap N nat) (id : N) : lres :=
  match idx !! id with
  | None => LAbsent
  | Some i => match l !! i with Some t => LFound t | None => LPanic end
  end.
Definition lookup_v1_prefix (L : ledger) (mw : N) (p : pool) (id : N) : lres :=
  let p := revalidate L mw p in lookup_in_prefix (txns p) (indices p) id.
Definition lookup_v2_prefix (L : ledger) (mw : N) (p : pool) (id : N) : lres :=
  let p := revalidate L mw p in lookup_in_prefix (v2txns p) (indices p) id.

(** ** Submission (manager.go:1236-1264, 1384-1423, 1455-1502) *)
Inductive verdict := VAdded | VKnown | VErr.
#[global] Instance verdict_eq_dec : EqDecision verdict.
Proof. solve_decision. Defined.

(** checkTxnSet's validation loop: a fresh mid-state; [all] = allInPool *)
Fixpoint check_set (L : ledger) (k : bool) (idx : gmap N nat) (m : mids) (all : bool)
    (ts : list atx) : option bool :=
  match ts with
  | [] => Some all
  | t :: r =>
      let all' := all && bool_decide (is_Some (idx !! a_id t)) in
      if Bool.eqb (a_v2 t) k && check L m t then check_set L k idx (apply_tx m t) all' r
      else None
  end.

(** checkEphemeralOutputs (manager.go:872-895): an ephemeral siacoin input must name a
    siacoin output of an earlier member, an ephemeral siafund input is refused *)
Fixpoint check_eph (seen : gset N) (ts : list atx) : bool :=
  match ts with
  | [] => true
  | t :: r =>
      forallb (λ i, if is_eph i && is_spend i then
                      if cls (i_el i) =? 0 then bool_decide (i_el i ∈ seen)
                      else negb (cls (i_el i) =? 1)
                    else true) (a_ins t)
      && check_eph (seen ∪ list_to_set (List.filter (λ o, cls o =? 0) (a_outs t))) r
  end.

(** the add loop; returns the extended slice, mid-state, index, weight and whether every new
    member passed *)
Fixpoint add_loop (L : ledger) (ts : list atx) (l : list atx) (m : mids)
    (idx : gmap N nat) (w : N) : list atx * mids * gmap N nat * N * bool :=
  match ts with
  | [] => (l, m, idx, w, true)
  | t :: r =>
      if bool_decide (is_Some (idx !! a_id t)) then add_loop L r l m idx w
      else if check L m t then
        add_loop L r (l ++ [t]) (apply_tx m t) (<[a_id t := length l]> idx) (w + a_weight t)
      else (l, m, idx, w, false)
  end.

(** [pre = true]: the code before the repair of F2 (members appended before the conflicting
    one stay).  The argument pool has been revalidated. *)
Definition add_core (pre : bool) (L : ledger) (k : bool) (p : pool) (set : list atx) : pool * verdict :=
  match ms p with
  | None => (p, VErr) (* unreachable: revalidatePool always leaves a mid-state *)
  | Some m =>
    if k && negb (check_eph ∅ set) then (p, VErr) else
    match check_set L k (indices p) fresh true set with
    | None => (p, VErr)
    | Some true => (p, VKnown)
    | Some false =>
        let '(l, m', idx, w, ok) := add_loop L set (if k then v2txns p else txns p) m (indices p) (weight p) in
        if ok then
          (if k then Pool (txns p) l idx (Some m') w (last_rev p) (last_rev2 p)
           else Pool l (v2txns p) idx (Some m') w (last_rev p) (last_rev2 p), VAdded)
        else if pre then
          (if k then Pool (txns p) l idx None w (last_rev p) (last_rev2 p)
           else Pool l (v2txns p) idx None w (last_rev p) (last_rev2 p), VErr)
        else (set_ms p None, VErr)
    end
  end.

Definition add_v1 (L : ledger) (mw : N) (p : pool) (set : list atx) : pool * verdict :=
  add_core false L false (revalidate L mw p) set.
(** [set] is the result of rebasing the caller's transactions to the tip
    (updateV2TransactionProofs, Chain/Rebase.v); [None]: rebasing failed *)
Definition add_v2 (L : ledger) (mw : N) (p : pool) (set : option (list atx)) : pool * verdict :=
  let p := revalidate L mw p in
  match set with None => (p, VErr) | Some s => add_core false L true p s end.
Definition add_v1_prefix (L : ledger) (mw : N) (p : pool) (set : list atx) : pool * verdict :=
  add_core true L false (revalidate L mw p) set.
Definition add_v2_prefix (L : ledger) (mw : N) (p : pool) (set : option (list atx)) : pool * verdict :=
  let p := revalidate L mw p in
  match set with None => (p, VErr) | Some s => add_core true L true p s end.

(** ** Block steps (manager.go:827-853, 897-1011, 496-537) *)
Definition set_leaf (i : ain) (lf : N) (ok : bool) : ain := AIn (i_el i) (i_role i) lf ok (i_rev i).
Definition map_ins (f : ain → ain) (t : atx) : atx :=
  ATx (a_id t) (a_v2 t) (map f (a_ins t)) (a_outs t) (a_fee t) (a_weight t) (a_lo t) (a_hi t) (a_feeless t).

(** replaceEphemeral of applyPoolUpdate: inputs, revision and resolution parents (not the
    proof index) whose leaf is the sentinel take the element the block created *)
Definition conv_apply (cr : gmap N N) (i : ain) : ain :=
  if is_ref i then i
  else if is_eph i then match cr !! i_el i with Some lf => set_leaf i lf true | None => i end
  else i.
(** replaceEphemeral of revertPoolUpdate *)
Definition conv_revert (cr : gmap N N) (i : ain) : ain :=
  if is_ref i then i
  else if is_eph i then i
  else if bool_decide (is_Some (cr !! i_el i)) then set_leaf i unassigned (i_pok i) else i.

(** updateTxnProofs' verdict, repaired (the sentinel is tested first): every non-ephemeral
    element must be a leaf of the new accumulator *)
Definition keep_tx (num : N) (t : atx) : bool :=
  forallb (λ i, is_eph i || (i_leaf i <? num)) (a_ins t).
(** before the repair of F9: [LeafIndex < numLeaves] is evaluated on the sentinel too *)
Definition keep_tx_prefix (num : N) (t : atx) : bool :=
  forallb (λ i, i_leaf i <? num) (a_ins t).

Record bstep := BS { s_revert : bool; s_created : list (N * N); s_num : N }.

Definition pool_update (pre : bool) (s : bstep) (p : pool) : pool :=
  let cr : gmap N N := list_to_map (s_created s) in
  let conv := if s_revert s then conv_revert cr else conv_apply cr in
  set_v2txns p (List.filter (λ t, if pre then keep_tx_prefix (s_num s) t else keep_tx (s_num s) t)
                       (map (map_ins conv) (v2txns p))).

(** reorgTo: the pool updates of the reverted and applied blocks, then the caches are
    invalidated; when something was reverted, the fee-paying transactions of the first
    reverted block ([lr]) become lastReverted.  [pre]: before the repair of F9;
    [keep_ms]: mutant-style variant used only by a refutation witness. *)
Definition chain_step_gen (pre : bool) (steps : list bstep) (lr : option (list atx * list atx)) (p : pool) : pool :=
  let p := foldl (λ p s, pool_update pre s p) p steps in
  let p := set_ms p None in
  match lr with
  | None => p
  | Some (l1, l2) =>
      Pool (txns p) (v2txns p) (indices p) (ms p) (weight p)
           (List.filter (λ t, negb (a_feeless t)) l1) (List.filter (λ t, negb (a_feeless t)) l2)
  end.
Definition chain_step := chain_step_gen false.
Definition chain_step_prefix := chain_step_gen true.

(** ** The node: ledger at the tip + pool; one locked region = one step *)
Inductive op :=
| OAdd1 (set : list atx)
| OAdd2 (set : option (list atx))
| OChain (steps : list bstep) (lr : option (list atx * list atx)) (L' : ledger)
| OQuery.

Definition node := (ledger * pool)%type.

Definition nstep (mw : N) (s : node) (o : op) : node * verdict :=
  let '(L, p) := s in
  match o with
  | OAdd1 set => let '(p', v) := add_v1 L mw p set in ((L, p'), v)
  | OAdd2 set => let '(p', v) := add_v2 L mw p set in ((L, p'), v)
  | OChain steps lr L' => ((L', chain_step steps lr p), VAdded)
  | OQuery => ((L, revalidate L mw p), VAdded)
  end.

Definition nrun (mw : N) (L0 : ledger) (ops : list op) : node :=
  foldl (λ s o, (nstep mw s o).1) (L0, pool0) ops.

Definition reported (mw : N) (s : node) : list atx :=
  pool_transactions s.1 mw s.2 ++ v2_pool_transactions s.1 mw s.2.

(** ** MineBlock (miner.go:30-77) *)
(** the loops "weight += w(txn); if weight > max break; append" *)
Fixpoint take_w (mw w : N) (ts : list atx) : list atx * N :=
  match ts with
  | [] => ([], w)
  | t :: r => let w' := w + a_weight t in
              if mw <? w' then ([], w') else let '(l, w'') := take_w mw w' r in (t :: l, w'')
  end.

(** [arb] is the arbitrary-data transaction that makes the block id unique; repaired: its
    weight is counted ([pre = true]: the code before the repair started at 0) *)
Definition mine_block_gen (pre : bool) (mw : N) (v2allowed : bool) (arb : atx) (t1 t2 : list atx) : list atx :=
  let w0 := if v2allowed && negb pre then a_weight arb else 0 in
  let '(b1, w1) := take_w mw w0 t1 in
  if v2allowed then b1 ++ arb :: (take_w mw w1 t2).1 else b1.
Definition mine_block := mine_block_gen false.
Definition mine_block_prefix := mine_block_gen true.

Definition total_weight (ts : list atx) : N := foldr (λ t a, a_weight t + a) 0 ts.

(** ** Parent discovery (manager.go:793-825, 1129-1234) *)
(** computeParentMap, repaired: one map per slice (before the repair a single map held
    positions of both slices, finding F17) *)
Definition parent_map (ts : list atx) : gmap N nat :=
  foldl (λ pm p, foldl (λ pm o, <[o := p.1]> pm) pm (a_outs p.2)) ∅ (imap (λ i t, (i, t)) ts).
Definition parent_map_prefix (t1 t2 : list atx) : gmap N nat :=
  foldl (λ pm p, foldl (λ pm o, <[o := p.1]> pm) pm (a_outs p.2)) (parent_map t1) (imap (λ i t, (i, t)) t2).

Inductive pres := PList (l : list atx) | PPanic.

(** one pass of "check every input of every transaction in [from]": appends unseen parents *)
Definition add_parents (pm : gmap N nat) (pool_l : list atx) (seen : list nat) (acc : list atx) (t : atx)
  : option (list nat * list atx) :=
  foldl (λ st i, match st with
                 | None => None
                 | Some (seen, acc) =>
                     if is_ref i then Some (seen, acc) else
                     match pm !! i_el i with
                     | Some ix => if bool_decide (ix ∈ seen) then Some (seen, acc)
                                  else match pool_l !! ix with
                                       | Some u => Some (ix :: seen, acc ++ [u])
                                       | None => None (* index out of range: panic *)
                                       end
                     | None => Some (seen, acc)
                     end
                 end) (Some (seen, acc)) (a_ins t).

Fixpoint parents_fix (fuel : nat) (pm : gmap N nat) (pool_l : list atx) (seen : list nat) (acc : list atx)
  : option (list nat * list atx) :=
  match fuel with
  | O => None (* unreachable: every productive pass adds a new pool position (RebaseProofs) *)
  | S f =>
      match foldl (λ st u, match st with None => None | Some (s, a) => add_parents pm pool_l s a u end)
                  (Some (seen, acc)) acc with
      | None => None
      | Some (seen', acc') => if Nat.eqb (length acc') (length acc) then Some (seen, acc)
                              else parents_fix f pm pool_l seen' acc'
      end
  end.

(** keeps the members of [l] whose position is in [seen], in pool order *)
Fixpoint at_positions (seen : list nat) (n : nat) (l : list atx) : list atx :=
  match l with
  | [] => []
  | t :: r => if bool_decide (n ∈ seen) then t :: at_positions seen (S n) r else at_positions seen (S n) r
  end.

(** the pooled ancestors of [t] in slice [pool_l], repaired: ordered by pool position (the
    pool is in dependency order).  [pre = true]: before the repair the breadth-first discovery
    order was reversed, which can put a descendant before its ancestor (finding F20). *)
Definition unconfirmed_parents_gen (pre : bool) (pm : gmap N nat) (pool_l : list atx) (t : atx) : pres :=
  match add_parents pm pool_l [] [] t with
  | None => PPanic
  | Some (seen, acc) =>
      match parents_fix (S (S (length pool_l))) pm pool_l seen acc with
      | None => PPanic
      | Some (seen', l) => if pre then PList (rev l) else PList (at_positions seen' 0 pool_l)
      end
  end.
Definition unconfirmed_parents := unconfirmed_parents_gen false.
Definition unconfirmed_parents_prefix := unconfirmed_parents_gen true.
