(** * Chain/Updates.v — Manager.UpdatesSince and its subscribers (chain/manager.go:564-608),
    over the manager model of [Chain/Manager.v].  Definitions only.

    A [types.ChainIndex] is [None] (the zero value: "I have nothing") or [Some (height, id)].
    The height travels with the id exactly as in the Go code: [onBestChain] looks the
    *height* up in the best-chain index and compares the *id*, and the apply branch asks
    for [index.Height + 1].  For an index that a subscriber obtained from the stream the
    height is the block's own height ([idx_of]); the harness also polls with ids the store
    never held, and those are the same computation.

    The loop appends exactly one update per iteration (or returns), and it stops when
    [len(rus)+len(aus) < max] fails; so the remaining budget [max - len] is a structural
    recursion argument and no fuel is needed: there is no out-of-fuel value to exclude. *)
From stdpp Require Import gmap.
From Coq Require Import NArith ZArith List.
From CV Require Import Chain.Manager.
Import ListNotations.
Open Scope N_scope.

Definition index := option (N * N).

Definition index_eqb (i j : index) : bool :=
  match i, j with
  | None, None => true
  | Some (h, b), Some (h', b') => (h =? h') && (b =? b')
  | _, _ => false
  end.

(** one iteration of the loop *)
Inductive ustep_res :=
| UStop                         (* index == m.tipState.Index *)
| UFail                         (* return nil, nil, err *)
| URev (b : N) (i' : index)     (* rus = append(rus, ...); index = cs.Index *)
| UApp (b : N) (i' : index).    (* aus = append(aus, ...) *)

(** the call's result; [u_last] is the loop variable [index] at exit (not returned by the
    Go code: a subscriber derives it from the last update, see [idx_after]) *)
Inductive ures :=
| UOk (rus aus : list N) (u_last : index)
| UErr.

Section U.
  Context (U : universe).

  Definition hgt (b : N) : N := match U !! b with Some B => height B | None => 0 end.
  Definition parent_of (b : N) : N := match U !! b with Some B => parent B | None => 0 end.
  Definition idx_of (b : N) : index := Some (hgt b, b).

  (** m.tipState.Index *)
  Definition tip_height (m : mgr) : N := N.of_nat (length (best m)) - 1.
  Definition tip_index (m : mgr) : index := Some (tip_height m, tip m).

  (** the closure [onBestChain] of UpdatesSince (manager.go:569-572):
      [bi, _ := BestIndex(index.Height); bi.ID == index.ID || index == ChainIndex{}].
      A failed look-up leaves the zero id, which is no block's id. *)
  Definition on_best_idx (m : mgr) (i : index) : bool :=
    match i with
    | None => true
    | Some (h, b) => match best_at m h with Some b' => b' =? b | None => false end
    end.

  (** blockAndParent (manager.go:73-77): [Block(id)] must return a body and [State(b.ParentID)]
      a state.  Returns the parent id and whether the stored supplement is non-nil.
      (For genesis the parent id is the zero id, under which NewDBStore keeps the
      pre-genesis state for ever, db.go:1005-1006: that look-up always succeeds.) *)
  Definition block_and_parent (m : mgr) (b : N) : option (N * bool) :=
    match U !! b with
    | None => None
    | Some B =>
        if has_body m b && ((b =? genesis) || has_state m (parent B))
        then Some (parent B, has_supp m b)
        else None
    end.

  (** manager.go:587-592: the next best-chain index to apply *)
  Definition next_best (m : mgr) (i : index) : option (N * N) :=
    match i with
    | None => match best_at m 0 with Some g => Some (0, g) | None => None end
    | Some (h, _) => match best_at m (h + 1) with Some b => Some (h + 1, b) | None => None end
    end.

  (** one iteration of manager.go:574-606 *)
  Definition ustep (m : mgr) (i : index) : ustep_res :=
    if index_eqb i (tip_index m) then UStop
    else if negb (on_best_idx m i) then
      (* revert until we are on the best chain (manager.go:576-585) *)
      match i with
      | None => UFail
      | Some (_, b) =>
          if b =? genesis then UFail   (* outside the model: reverting genesis yields the
                                          pre-genesis index {MaxUint64, zero}; never polled *)
          else match block_and_parent m b with
               | None => UFail                        (* ErrMissingBlock *)
               | Some (_, false) => UFail             (* missing supplement *)
               | Some (p, true) => URev b (Some (hgt p, p))   (* index = cs.Index *)
               end
      end
    else
      (* apply (manager.go:586-605); the ancestor timestamp needs only headers, which the
         store never deletes, and is not modelled *)
      match next_best m i with
      | None => UFail                                 (* BestIndex failed: zero id, ErrMissingBlock *)
      | Some (h', b') =>
          match block_and_parent m b' with
          | None => UFail
          | Some (_, false) => UFail
          | Some (_, true) => UApp b' (Some (h', b'))
          end
      end.

  (** the loop; [budget] = max - (len(rus)+len(aus)) *)
  Fixpoint us_loop (m : mgr) (budget : nat) (i : index) (rus aus : list N) : ures :=
    match budget with
    | O => UOk rus aus i
    | S k =>
        match ustep m i with
        | UStop => UOk rus aus i
        | UFail => UErr
        | URev b i' => us_loop m k i' (rus ++ [b]) aus
        | UApp b i' => us_loop m k i' rus (aus ++ [b])
        end
    end.

  Definition updates_since (m : mgr) (i : index) (max : nat) : ures := us_loop m max i [] [].

  (** ** Subscribers
      A subscriber holds its index and a shadow of what it applied: the list of block ids
      (tip first) it currently stands on.  It folds the reverts, then the applies; each
      revert must undo the block it stands on and each apply must attach to it, otherwise
      the fold is [None] (a non-contiguous stream). Its new index is the [State.Index]
      carried by the update: the parent's for a revert, the block's own for an apply. *)
  Record sub := Sub { s_idx : index; s_shadow : list N }.

  Definition sub_revert (s : sub) (b : N) : option sub :=
    match s_shadow s with
    | x :: rest => if x =? b then Some (Sub (idx_of (parent_of b)) rest) else None
    | [] => None
    end.

  Definition sub_apply (s : sub) (b : N) : option sub :=
    let attaches :=
      match s_shadow s with
      | [] => b =? genesis
      | x :: _ => (parent_of b =? x) && negb (b =? genesis)
      end in
    if attaches then Some (Sub (idx_of b) (b :: s_shadow s)) else None.

  Fixpoint sub_fold (f : sub → N → option sub) (s : sub) (l : list N) : option sub :=
    match l with
    | [] => Some s
    | b :: l' => match f s b with Some s' => sub_fold f s' l' | None => None end
    end.

  (** the index after a chunk as the subscriber derives it: the last block touched *)
  Definition idx_after (i : index) (rus aus : list N) : index :=
    match rev aus with
    | b :: _ => idx_of b
    | [] => match rev rus with b :: _ => idx_of (parent_of b) | [] => i end
    end.

  Inductive poll_res := PErr | PBroken | POk (s : sub).

  Definition poll (m : mgr) (s : sub) (max : nat) : poll_res :=
    match updates_since m (s_idx s) max with
    | UErr => PErr
    | UOk rus aus _ =>
        match sub_fold sub_revert s rus with
        | None => PBroken
        | Some s1 => match sub_fold sub_apply s1 aus with
                     | None => PBroken
                     | Some s2 => POk s2
                     end
        end
    end.

  (** ** Histories: polls of one subscriber interleaved with calls on the manager *)
  (** [HPool accepted]: AddPoolTransactions / AddV2PoolTransactions (manager.go, pool section).
      A pool submission never touches the chain state, and its notification tail collects the
      OnPoolChange listeners only (and only for an accepted, not already known set). *)
  Inductive hop := HOp (o : mop) | HPoll (max : nat) | HPool (accepted : bool).

  Definition hstep (st : mgr * sub) (h : hop) : mgr * sub :=
    match h with
    | HOp o => ((mstep U st.1 o).1.1, st.2)
    | HPoll max => match poll st.1 st.2 max with POk s' => (st.1, s') | _ => st end
    | HPool _ => st
    end.

  (** are the OnReorg listeners invoked by this step?  Both AddBlocks and AddValidatedV2Blocks
      collect the listeners under the lock and call them after releasing it (manager.go, "release
      lock while notifying listeners"; DESIGN 3.4 lists these windows): a callback therefore runs
      after the step and may itself call into the manager — a listener that polls from inside its
      callback is an [HPoll] step following the [HOp] step, which is what the histories of the
      theorems contain. That the lock really is released is a runtime fact the harness checks with
      re-entering listeners under a watchdog (c04-manager-deadlock). *)
  Definition hnotifies (m : mgr) (h : hop) : bool :=
    match h with
    | HOp o => (mstep U m o).2
    | HPoll _ => false
    | HPool _ => false
    end.

  Definition hrun_from (st : mgr * sub) (hs : list hop) : mgr * sub := fold_left hstep hs st.
  Definition sub0 : sub := Sub None [].
  Definition hrun (hs : list hop) : mgr * sub := hrun_from (init, sub0) hs.

  Definition mops_of (hs : list hop) : list mop :=
    flat_map (λ h, match h with HOp o => [o] | _ => [] end) hs.
End U.
