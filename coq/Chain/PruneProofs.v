(** * Chain/PruneProofs.v — pruning (C19), on top of Chain/ManagerProofs.v *)
From Coq Require Import NArith ZArith List Lia ZifyBool ZifyNat ZifyN.
From stdpp Require Import gmap.
From CV Require Import Chain.Manager Chain.ManagerProofs.
Import ListNotations.
Open Scope N_scope.

(** ** Facts that need no invariant *)
Lemma prune_block_body_self m b : has_body (prune_block m b) b = false.
Proof.
  unfold has_body. rewrite prune_block_lookup. rewrite decide_True by done.
  by destruct (known m !! b).
Qed.
Lemma prune_block_body_mono m b x : has_body m x = false → has_body (prune_block m b) x = false.
Proof.
  unfold has_body. rewrite prune_block_lookup. destruct (decide (x = b)) as [->|]; [|done].
  by destruct (known m !! b).
Qed.
Lemma prune_block_body_ne m b x : x ≠ b → has_body (prune_block m b) x = has_body m x.
Proof. intros Hne. unfold has_body. rewrite prune_block_lookup. by rewrite decide_False. Qed.
Lemma prune_block_best_at m b h : best_at (prune_block m b) h = best_at m h.
Proof. unfold best_at. by rewrite prune_block_best. Qed.

Lemma prune_from_body_mono n : ∀ m x, has_body m x = false → has_body (prune_from m n) x = false.
Proof.
  induction n as [|n IH]; intros m x Hx; cbn [prune_from]; [done|].
  destruct (best_at m (N.of_nat n)) as [b|]; [|done].
  destruct (has_body m b); [|done]. by apply IH, prune_block_body_mono.
Qed.

Lemma prune_from_idem n : ∀ m, prune_from (prune_from m n) n = prune_from m n.
Proof.
  destruct n as [|n]; intros m; [done|]. cbn [prune_from].
  destruct (best_at m (N.of_nat n)) as [b|] eqn:Hb.
  2:{ cbn [prune_from]. by rewrite Hb. }
  destruct (has_body m b) eqn:Hbo.
  2:{ cbn [prune_from]. by rewrite Hb, Hbo. }
  set (R := prune_from (prune_block m b) n).
  assert (best_at R (N.of_nat n) = Some b) as HbR.
  { unfold best_at, R. rewrite prune_from_best, prune_block_best. exact Hb. }
  assert (has_body R b = false) as HboR by apply prune_from_body_mono, prune_block_body_self.
  cbn [prune_from]. by rewrite HbR, HboR.
Qed.

Lemma prune_idempotent m h : prune (prune m h) h = prune m h.
Proof. unfold prune. rewrite prune_from_best. apply prune_from_idem. Qed.

(** MinReorgIndex: [best = t :: mid ++ rest], every block of [mid] (the blocks below the
    tip) still has its body, the first block of [rest] does not, and the answer is the
    last block of [t :: mid]. *)
Lemma last_default {A} (x : A) l d d' : List.last (x :: l) d = List.last (x :: l) d'.
Proof.
  revert x. induction l as [|y l IH]; intros x; [done|].
  change (List.last (y :: l) d = List.last (y :: l) d'). apply IH.
Qed.
Lemma last_cons {A} (p : A) l d : List.last (p :: l) d = List.last l p.
Proof. destruct l as [|x l]; [done|]. change (List.last (x :: l) d = List.last (x :: l) p). apply last_default. Qed.

Lemma min_reorg_from_spec m l : ∀ cur,
  ∃ mid rest, l = mid ++ rest ∧ min_reorg_from m l cur = List.last mid cur ∧
    (∀ y, y ∈ mid → has_body m y = true) ∧
    (∀ z, head rest = Some z → has_body m z = false).
Proof.
  induction l as [|p l IH]; intros cur; cbn [min_reorg_from].
  { exists [], []. split_and!; try done. intros y Hy. by apply elem_of_nil in Hy. }
  destruct (has_body m p) eqn:Hp.
  - destruct (IH p) as (mid & rest & -> & Hm & Hb & Hr).
    exists (p :: mid), rest. split_and!; try done.
    + by rewrite last_cons.
    + intros y [->|Hy]%elem_of_cons; auto.
  - exists [], (p :: l). split_and!; try done.
    + intros y Hy. by apply elem_of_nil in Hy.
    + by intros z [= <-].
Qed.

Lemma min_reorg_spec m t l :
  best m = t :: l →
  ∃ mid rest, best m = t :: mid ++ rest ∧ min_reorg m = List.last mid t ∧
    (∀ y, y ∈ mid → has_body m y = true) ∧
    (∀ z, head rest = Some z → has_body m z = false).
Proof.
  intros Hb. unfold min_reorg. rewrite Hb.
  destruct (min_reorg_from_spec m l t) as (mid & rest & -> & ? & ? & ?). eauto 10.
Qed.

(** ** What exactly a prune removes *)
(** [x] is removed by a prune walk starting below height [h]: it is the best-chain block at some height [i < h] and
    every best-chain block at heights [i .. h-1] exists and still has its body. *)
Definition pruned_at (m : mgr) (h : N) (x : N) : Prop :=
  ∃ i, i < h ∧ best_at m i = Some x ∧
       ∀ j, i ≤ j < h → ∃ y, best_at m j = Some y ∧ has_body m y = true.
(** PruneBlocks clamps the height to tip height + 1 (= length of the best chain) *)
Definition pruned_by (m : mgr) (h : N) (x : N) : Prop :=
  pruned_at m (N.min h (N.of_nat (length (best m)))) x.

Section P.
  Context (U : universe) (HWF : WF U).

  Lemma chain_nth l : ∀ i y,
    chain U l → nth_error l i = Some y → ht U y + 1 + N.of_nat i = N.of_nat (length l).
  Proof.
    induction l as [|x l IH]; intros i y Hc Hn; [by destruct i|].
    destruct i as [|i]; cbn in Hn.
    - injection Hn as ->. pose proof (chain_ht U HWF _ Hc) as H. cbn [hd] in H. lia.
    - assert (l ≠ []) as Hne by (intros ->; by destruct i).
      destruct (chain_tail U _ _ Hc Hne) as (Hc' & _).
      specialize (IH i y Hc' Hn). cbn [length]. lia.
  Qed.

  (** BestIndex(h) is the best-chain block of height h *)
  Lemma best_at_ht m h y : MInv U m → best_at m h = Some y → ht U y = h.
  Proof.
    intros HI. unfold best_at. destruct (N.ltb_spec h (N.of_nat (length (best m)))); [|done].
    intros Hn. pose proof (chain_nth _ _ _ (I_chain U m HI) Hn). lia.
  Qed.

  Lemma best_at_complete m y :
    MInv U m → y ∈ best m → best_at m (ht U y) = Some y.
  Proof.
    intros HI Hy. apply elem_of_list_In, In_nth_error in Hy as [i Hi].
    pose proof (chain_nth _ _ _ (I_chain U m HI) Hi) as Hh.
    unfold best_at. destruct (N.ltb_spec (ht U y) (N.of_nat (length (best m)))); [|lia].
    rewrite <- Hi. f_equal. lia.
  Qed.

  Lemma pruned_at_ht m h x : MInv U m → pruned_at m h x → x ∈ best m ∧ ht U x < h.
  Proof.
    intros HI (i & Hi & Hx & _). split; [by eapply best_at_elem|].
    by rewrite (best_at_ht m i x HI Hx).
  Qed.
  Lemma pruned_by_ht m h x : MInv U m → pruned_by m h x → x ∈ best m ∧ ht U x < h.
  Proof. intros HI Hp. destruct (pruned_at_ht _ _ _ HI Hp). split; [done|lia]. Qed.

  Lemma prune_from_spec n : ∀ m, MInv U m → ∀ x,
    (pruned_at m (N.of_nat n) x →
       ∃ k, known m !! x = Some k ∧
            known (prune_from m n) !! x = Some (KI (kst k) false false)) ∧
    (¬ pruned_at m (N.of_nat n) x → known (prune_from m n) !! x = known m !! x).
  Proof.
    induction n as [|n IH]; intros m HI x.
    { split; [|done]. intros (i & Hi & _). lia. }
    cbn [prune_from].
    assert (∀ P : Prop, (pruned_at m (N.of_nat (S n)) x →
              ∃ y, best_at m (N.of_nat n) = Some y ∧ has_body m y = true)) as Htop.
    { intros _ (i & Hi & _ & Hall). apply Hall. lia. }
    destruct (best_at m (N.of_nat n)) as [b|] eqn:Hb.
    2:{ split; [|done]. intros Hp. destruct (Htop True Hp) as (? & ? & _). done. }
    destruct (has_body m b) eqn:Hbo.
    2:{ split; [|done]. intros Hp. destruct (Htop True Hp) as (? & ? & ?). congruence. }
    clear Htop.
    set (m2 := prune_block m b).
    assert (b ∈ best m) as Hbin by (eapply best_at_elem; eauto).
    pose proof (MInv_prune_block U m b HI Hbin) as HI2. fold m2 in HI2.
    assert (∀ j, best_at m2 j = best_at m j) as Hba by (intros; apply prune_block_best_at).
    assert (∀ y, y ≠ b → has_body m2 y = has_body m y) as Hbne by (intros; by apply prune_block_body_ne).
    assert (∀ y, has_body m y = false → has_body m2 y = false) as Hbmono by (intros; by apply prune_block_body_mono).
    assert (∀ j y, best_at m j = Some y → j ≠ N.of_nat n → y ≠ b) as Hdist.
    { intros j y Hy Hj ->. apply Hj. rewrite <- (best_at_ht m j b HI Hy). by apply (best_at_ht m _ _ HI). }
    (* how the two notions of "pruned" relate *)
    assert (pruned_at m (N.of_nat (S n)) x ↔ x = b ∨ pruned_at m2 (N.of_nat n) x) as Hiff.
    { split.
      - intros (i & Hi & Hx & Hall).
        destruct (decide (i = N.of_nat n)) as [->|Hne]; [left; congruence|right].
        exists i. split; [lia|]. split; [by rewrite Hba|].
        intros j Hj. destruct (Hall j) as (y & Hy & Hyb); [lia|].
        exists y. split; [by rewrite Hba|].
        rewrite Hbne; [done|]. eapply Hdist; eauto. lia.
      - intros [->|(i & Hi & Hx & Hall)].
        + exists (N.of_nat n). split; [lia|]. split; [done|].
          intros j Hj. assert (j = N.of_nat n) as -> by lia. eauto.
        + exists i. split; [lia|]. split; [by rewrite Hba in Hx|].
          intros j Hj. destruct (decide (j = N.of_nat n)) as [->|Hne]; [eauto|].
          destruct (Hall j) as (y & Hy & Hyb); [lia|]. rewrite Hba in Hy.
          exists y. split; [done|]. destruct (has_body m y) eqn:E; [done|].
          by rewrite (Hbmono y E) in Hyb. }
    assert (¬ pruned_at m2 (N.of_nat n) b) as Hnb.
    { intros (i & Hi & Hx & _). rewrite Hba in Hx.
      eapply (Hdist i b); eauto. lia. }
    destruct (IH m2 HI2 x) as [IH1 IH2]. split.
    - intros [->|Hp]%Hiff.
      + apply has_body_true in Hbo as (k & Hk & _). exists k. split; [done|].
        rewrite (IH2 Hnb).
        unfold m2. rewrite prune_block_lookup, decide_True by done. by rewrite Hk.
      + destruct (IH1 Hp) as (k & Hk & Hk'). exists k. split; [|done].
        assert (x ≠ b) as Hne by (intros ->; done).
        unfold m2 in Hk. by rewrite prune_block_lookup, decide_False in Hk.
    - intros Hnp. assert (x ≠ b ∧ ¬ pruned_at m2 (N.of_nat n) x) as [Hne Hnp2].
      { split; [intros ->|intros ?]; apply Hnp, Hiff; auto. }
      rewrite (IH2 Hnp2). unfold m2. by rewrite prune_block_lookup, decide_False.
  Qed.

  Lemma prune_removes_only_bodies m h :
    MInv U m →
    best (prune m h) = best m ∧
    ∀ x,
      (pruned_by m h x →
         ∃ k, known m !! x = Some k ∧ known (prune m h) !! x = Some (KI (kst k) false false)) ∧
      (¬ pruned_by m h x → known (prune m h) !! x = known m !! x).
  Proof.
    intros HI. split; [apply prune_from_best|]. intros x. unfold prune, pruned_by.
    pose proof (prune_from_spec (N.to_nat (N.min h (N.of_nat (length (best m))))) m HI x) as H.
    by rewrite N2Nat.id in H.
  Qed.

  Lemma prune_keeps_states_headers m h x :
    has_state (prune m h) x = has_state m x ∧ has_hdr (prune m h) x = has_hdr m x.
  Proof.
    split; [|apply prune_from_hdr]. unfold prune.
    generalize (N.to_nat (N.min h (N.of_nat (length (best m))))). intros n.
    revert m. induction n as [|n IH]; intros m; cbn [prune_from]; [done|].
    destruct (best_at m (N.of_nat n)); [|done]. destruct (has_body m n0); [|done].
    by rewrite IH, prune_block_state.
  Qed.
End P.

(** ** Reorgs around the prune boundary *)
(** the blocks the reorg of [AddBlocks batch] has to revert (tip first); [[]] if the
    submission fails before the reorg or does not trigger one *)
Definition reorg_reverts (U : universe) (m : mgr) (batch : list N) : list N :=
  match add_loop U m (tip m) batch with
  | (m1, Some cs) =>
      if heavier U cs (tip m1) then
        match rpath U m1 (fuel_of m1) (tip m1) cs with
        | Some (rv, _) => rv
        | None => []
        end
      else []
  | (_, None) => []
  end.

(** [m'] is [m] with the bodies (and supplements) of some best-chain blocks removed *)
Definition twin' (L : list N) (m m' : mgr) : Prop :=
  ∀ x, known m' !! x = known m !! x ∨
       (x ∈ L ∧ ∃ k, known m !! x = Some k ∧ known m' !! x = Some (KI (kst k) false false)).
Definition twin (m m' : mgr) : Prop := best m' = best m ∧ twin' (best m) m m'.

Definition sim (m m' m2 m2' : mgr) : Prop :=
  best m2' = best m2 ∧
  ∀ x, known m2' !! x = known m2 !! x ∨
       (known m2 !! x = known m !! x ∧ known m2' !! x = known m' !! x).

Section T.
  Context (U : universe) (HWF : WF U).

  Lemma tip_state m : MInv U m → has_state m (tip m) = true.
  Proof.
    intros HI. pose proof (I_chain U m HI) as Hc. unfold tip.
    destruct (best m) as [|t r] eqn:Hb; [by apply chain_nonempty in Hc|]. cbn.
    destruct (I_best U m HI t) as (k & Hk & Hs & _); [rewrite Hb; apply elem_of_cons; auto|].
    apply has_state_true. exists k. rewrite Hs. eauto.
  Qed.

  Lemma reorg_to_revert_fail m target rv app x :
    MInv U m → rpath U m (fuel_of m) (tip m) target = Some (rv, app) →
    x ∈ rv → has_body m x = false →
    ∃ m', reorg_to U m target = (m', Err).
  Proof.
    intros HI E Hx Hbo. unfold reorg_to. rewrite E.
    destruct (rpath_sound U HWF _ _ _ _ _ _ E) as (c & Hr & Hlr & _).
    destruct (chain_split U HWF (best m) rv c (I_chain U m HI) Hr Hlr) as (rest & Hb).
    destruct (do_reverts_spec U (length rv) m HI) as (i & Hi & _ & Hs & Hres).
    { rewrite Hb, app_length. cbn. lia. }
    destruct Hres as [[-> E1]|[_ E1]]; rewrite E1; [|eauto].
    exfalso. rewrite Hb, take_app in Hs. specialize (Hs x Hx).
    apply has_supp_body in Hs. congruence.
  Qed.

  Lemma reorg_reverts_nil m : MInv U m → reorg_reverts U m [] = [].
  Proof.
    intros HI. unfold reorg_reverts. cbn [add_loop]. by rewrite (heavier_irrefl U HWF).
  Qed.

  (** a reorg that has to revert a pruned block: error, rolled back, nothing moves *)
  Lemma below_boundary m batch x :
    MInv U m → x ∈ reorg_reverts U m batch → has_body m x = false →
    ∃ m', add_blocks U m batch = (m', Err, false) ∧ best m' = best m ∧
          ∀ b, b ∈ best m → known m' !! b = known m !! b.
  Proof.
    intros HI Hx Hbo. destruct batch as [|b0 batch'].
    { rewrite reorg_reverts_nil in Hx by done. by apply elem_of_nil in Hx. }
    unfold reorg_reverts in Hx. unfold add_blocks.
    destruct (add_loop_spec U (b0 :: batch') m (tip m) HI (tip_state m HI)) as (HI1 & Hb1 & He1 & _).
    destruct (add_loop U m (tip m) (b0 :: batch')) as [m1 [cs|]]; cbn [fst snd] in *;
      [|by apply elem_of_nil in Hx].
    unfold maybe_reorg.
    destruct (heavier U cs (tip m1)) eqn:Hh; [|by apply elem_of_nil in Hx].
    destruct (rpath U m1 (fuel_of m1) (tip m1) cs) as [[rv app]|] eqn:E;
      [|by apply elem_of_nil in Hx].
    assert (∀ b, b ∈ best m → known m1 !! b = known m !! b) as Hsame.
    { intros b Hb. destruct (I_best U m HI b Hb) as (k & Hk & _).
      destruct (He1 b k Hk) as (k' & Hk' & _ & _ & _ & _ & Heq). rewrite Hk, Hk'. f_equal. auto. }
    assert (x ∈ best m) as Hxb.
    { destruct (rpath_sound U HWF _ _ _ _ _ _ E) as (c & Hr & Hlr & _).
      destruct (chain_split U HWF (best m1) rv c (I_chain U m1 HI1) Hr Hlr) as (rest & Hb).
      rewrite <- Hb1, Hb. apply elem_of_app. auto. }
    assert (has_body m1 x = false) as Hbo1.
    { unfold has_body in *. by rewrite (Hsame x Hxb). }
    destruct (reorg_to_revert_fail m1 cs rv app x HI1 E Hx Hbo1) as (m2 & E2).
    pose proof (reorg_to_spec U HWF m1 cs HI1) as H2. rewrite E2 in *.
    destruct H2 as (HI2 & Hu2 & Hmid).
    rewrite (rollback_exact U HWF m1 m2 HI1 HI2 Hmid).
    eexists. split; [done|]. cbn [best known]. split; [done|].
    intros b Hb. rewrite <- (Hsame b Hb).
    assert (b ∈ best m1) as Hb' by (by rewrite Hb1).
    destruct (I_best U m1 HI1 b Hb') as (k & Hk & _).
    destruct (upg_ext U m1 m2 HI1 Hu2 b k Hk) as (k' & Hk' & _ & _ & _ & _ & Heq).
    rewrite Hk, Hk'. f_equal. auto.
  Qed.

  (** *** the pruned node simulates the unpruned one *)
  Lemma twin_state m m' x : twin m m' → has_state m' x = has_state m x.
  Proof.
    intros [_ H]. unfold has_state. destruct (H x) as [->|(_ & k & -> & ->)]; [done|].
    by destruct k as [[?|] ? ?].
  Qed.
  Lemma twin_hdr m m' x : twin m m' → has_hdr m' x = has_hdr m x.
  Proof.
    intros [_ H]. unfold has_hdr. by destruct (H x) as [->|(_ & k & -> & ->)].
  Qed.
  Lemma twin_size m m' : twin m m' → size (known m') = size (known m).
  Proof.
    intros Ht. rewrite <- !(size_dom (D:=gset N)). f_equal. apply set_eq. intros x.
    rewrite !elem_of_dom. pose proof (twin_hdr m m' x Ht) as H. unfold has_hdr in H.
    destruct (known m' !! x), (known m !! x); split; intros [? ?]; eauto; done.
  Qed.

  Lemma rpath_hdr_ext m m' f : (∀ x, has_hdr m' x = has_hdr m x) →
    ∀ a b, rpath U m' f a b = rpath U m f a b.
  Proof.
    intros H. induction f as [|f IH]; intros a b; [done|]. cbn [rpath].
    destruct (a =? b); [done|]. destruct (U !! a) as [A|]; [|done]. destruct (U !! b) as [B|]; [|done].
    rewrite !H, !IH. done.
  Qed.

  Lemma twin_rpath m m' a b : twin m m' →
    rpath U m' (fuel_of m') a b = rpath U m (fuel_of m) a b.
  Proof.
    intros Ht. unfold fuel_of. rewrite (twin_size m m' Ht).
    apply rpath_hdr_ext. intros x. by apply twin_hdr.
  Qed.

  Lemma add_loop_twin batch : ∀ m m' cs,
    MInv U m → MInv U m' → twin m m' → has_state m cs = true →
    (add_loop U m' cs batch).2 = (add_loop U m cs batch).2 ∧
    twin (add_loop U m cs batch).1 (add_loop U m' cs batch).1.
  Proof.
    induction batch as [|b batch IH]; intros m m' cs HI HI' Ht Hcs; cbn [add_loop]; [done|].
    destruct (U !! b) as [B|] eqn:HB; [|done].
    pose proof Ht as [Hbest Hk].
    assert (on_best m' b = on_best m b) as Hob by (unfold on_best; by rewrite Hbest).
    pose proof (twin_state m m' (parent B) Ht) as Hpst.
    destruct (Hk b) as [Heq|(Hin & k & Hkm & Hkm')].
    - (* same record on both sides: same branch *)
      assert (has_supp m' b = has_supp m b) as Hs' by (unfold has_supp; by rewrite Heq).
      assert (has_state m' b = has_state m b) as Hst' by (unfold has_state; by rewrite Heq).
      rewrite Hs', Hst', Hob, Hpst.
      destruct (has_supp m b) eqn:Hs.
      { apply IH; try done. apply has_supp_true in Hs as (k & Hk1 & _ & Hsu).
        destruct (I_supp U m HI b k Hk1 Hsu) as (_ & Hf & _).
        apply has_state_true. exists k. rewrite Hf. eauto. }
      destruct (has_state m b && on_best m b) eqn:Hsb.
      { apply IH; try done. by apply andb_true_iff in Hsb as [? _]. }
      destruct (if parent B =? cs then true else has_state m (parent B)) eqn:Hps; cbn [negb]; [|done].
      destruct (future B); cbn [negb]; [done|].
      destruct (hdr_ok B) eqn:Hok; cbn [negb]; [|done].
      assert (has_state m (parent B) = true) as Hps'.
      { destruct (N.eqb_spec (parent B) cs) as [->|]; done. }
      destruct (MInv_store_hdr U m b B HI HB Hok Hs Hsb Hps') as [HI1 _].
      destruct (MInv_store_hdr U m' b B HI' HB Hok) as [HI1' _]; try congruence.
      apply IH; try done.
      + split; [done|]. intros x. unfold store_hdr. cbn [known best].
        destruct (decide (x = b)) as [->|Hne].
        * left. by rewrite !lookup_insert.
        * rewrite !lookup_insert_ne by done. apply Hk.
      + unfold has_state, store_hdr. cbn. by rewrite lookup_insert.
    - (* a best-chain block pruned on the twin: skipped on both sides *)
      destruct (I_best U m HI b Hin) as (k0 & Hk0 & Hf & Hbs & _).
      assert (k0 = k) as -> by congruence.
      assert (has_state m b = true) as Hst.
      { apply has_state_true. exists k. rewrite Hf. eauto. }
      assert (on_best m b = true) as Hon by (unfold on_best; by apply bool_decide_eq_true_2).
      assert (has_supp m' b = false) as -> by (unfold has_supp; by rewrite Hkm').
      assert (has_state m' b = true) as ->.
      { apply has_state_true. eexists. split; [exact Hkm'|]. cbn. rewrite Hf. eauto. }
      rewrite Hob, Hon, Hst. cbn [andb].
      destruct (has_supp m b); by apply IH.
  Qed.

  Lemma do_reverts_sim n : ∀ K K' l,
    (∀ x, has_state (Mgr K' l) x = has_state (Mgr K l) x) →
    (∀ x, x ∈ take n l → K' !! x = K !! x) →
    ∃ l2 out, do_reverts U (Mgr K l) n = (Mgr K l2, out) ∧
              do_reverts U (Mgr K' l) n = (Mgr K' l2, out) ∧
              (out = Ok → l2 = drop n l).
  Proof.
    induction n as [|n IH]; intros K K' l Hst Hag.
    { exists l, Ok. cbn. split_and!; try done. }
    cbn [do_reverts]. unfold revert_tip. cbn [best known].
    destruct l as [|t rest].
    { exists [], Panic. split_and!; try done. }
    destruct (U !! t) as [T|] eqn:HT.
    2:{ exists (t :: rest), Err. split_and!; try done. }
    assert (K' !! t = K !! t) as Ht by (apply Hag; cbn; apply elem_of_cons; auto).
    assert (has_body (Mgr K' (t :: rest)) t = has_body (Mgr K (t :: rest)) t) as ->
      by (unfold has_body; cbn; by rewrite Ht).
    assert (has_supp (Mgr K' (t :: rest)) t = has_supp (Mgr K (t :: rest)) t) as ->
      by (unfold has_supp; cbn; by rewrite Ht).
    rewrite Hst.
    destruct (has_body (Mgr K (t :: rest)) t && has_state (Mgr K (t :: rest)) (parent T)) eqn:E1.
    2:{ exists (t :: rest), Err. split_and!; try done. }
    destruct (has_supp (Mgr K (t :: rest)) t) eqn:E2.
    2:{ exists (t :: rest), Panic. split_and!; try done. }
    destruct (IH K K' rest) as (l2 & out & E & E' & Hi).
    { intros x. apply (Hst x). }
    { intros x Hx. apply Hag. cbn. apply elem_of_cons; auto. }
    exists l2, out. split_and!; try done.
  Qed.

  Lemma do_applies_sim app : ∀ m m',
    best m' = best m → (∀ x, x ∈ app → known m' !! x = known m !! x) →
    ∃ m2 m2' out, do_applies U m app = (m2, out) ∧ do_applies U m' app = (m2', out) ∧
      sim m m' m2 m2' ∧ (∀ x, x ∈ best m → x ∈ best m2).
  Proof.
    induction app as [|b app IH]; intros m m' Hb Hag.
    { exists m, m', Ok. cbn. split_and!; try done. split; [done|]. intros x. by right. }
    cbn [do_applies]. unfold apply_tip.
    assert (sim m m' m m') as Hrefl by (split; [done|]; intros x; by right).
    destruct (U !! b) as [B|] eqn:HB.
    2:{ exists m, m', Err. done. }
    assert (known m' !! b = known m !! b) as Hbk by (apply Hag, elem_of_cons; auto).
    assert (has_body m' b = has_body m b) as -> by (unfold has_body; by rewrite Hbk).
    assert (has_supp m' b = has_supp m b) as -> by (unfold has_supp; by rewrite Hbk).
    assert (tip m' = tip m) as -> by (unfold tip; by rewrite Hb).
    destruct (has_body m b); cbn [negb]; [|by exists m, m', Err].
    destruct (parent B =? tip m); cbn [negb]; [|by exists m, m', Panic].
    destruct (has_supp m b).
    - destruct (IH (Mgr (known m) (b :: best m)) (Mgr (known m') (b :: best m')))
        as (m2 & m2' & out & E & E' & [Hs1 Hs2] & Hin); cbn [known best]; [by rewrite Hb|auto|].
      { intros x Hx. apply Hag, elem_of_cons; auto. }
      exists m2, m2', out. split_and!; try done.
      intros x Hx. apply Hin. cbn. apply elem_of_cons; auto.
    - destruct (body_ok B); [|by exists m, m', Err].
      set (F := KI (Some SFull) true true).
      destruct (IH (Mgr (<[b:=F]> (known m)) (b :: best m)) (Mgr (<[b:=F]> (known m')) (b :: best m')))
        as (m2 & m2' & out & E & E' & [Hs1 Hs2] & Hin); cbn [known best]; [by rewrite Hb| |].
      { intros x Hx. destruct (decide (x = b)) as [->|Hne]; [by rewrite !lookup_insert|].
        rewrite !lookup_insert_ne by done. apply Hag, elem_of_cons; auto. }
      exists m2, m2', out. split_and!; try done.
      + split; [done|]. intros x. destruct (Hs2 x) as [?|[H1 H2]]; [by left|].
        cbn [known] in H1, H2. destruct (decide (x = b)) as [->|Hne].
        * left. rewrite H1, H2. by rewrite !lookup_insert.
        * right. by rewrite lookup_insert_ne in H1, H2.
      + intros x Hx. apply Hin. cbn. apply elem_of_cons; auto.
  Qed.

  Lemma chain_ht_le l x : chain U l → x ∈ l → ht U x ≤ ht U (hd genesis l).
  Proof.
    intros (l0 & -> & Hl) [Hx| ->%elem_of_list_singleton]%elem_of_app.
    - rewrite (hd_app_cons l0 genesis [] genesis). apply (lp_ht_elem U HWF _ _ _ Hl Hx).
    - rewrite (ht_genesis U HWF). lia.
  Qed.

  Lemma reorg_to_sim m m' target :
    MInv U m → MInv U m' → twin m m' →
    (∀ rv app, rpath U m (fuel_of m) (tip m) target = Some (rv, app) →
               ∀ x, x ∈ rv → known m' !! x = known m !! x) →
    ∃ m2 m2' out, reorg_to U m target = (m2, out) ∧ reorg_to U m' target = (m2', out) ∧
      best m2' = best m2 ∧ twin' (best m) m2 m2' ∧ (out = Ok → twin' (best m2) m2 m2').
  Proof.
    intros HI HI' Ht Hrv. pose proof Ht as [Hb Hk].
    assert (tip m' = tip m) as Htip by (unfold tip; by rewrite Hb).
    unfold reorg_to. rewrite Htip, (twin_rpath m m' _ _ Ht).
    destruct (rpath U m (fuel_of m) (tip m) target) as [[rv app]|] eqn:E.
    2:{ exists m, m', Err. split_and!; try done. }
    specialize (Hrv rv app eq_refl).
    destruct (rpath_sound U HWF _ _ _ _ _ _ E) as (c & Hr & Hlr & Hp & Hlp & _ & _).
    pose proof (I_chain U m HI) as Hc.
    destruct (chain_split U HWF (best m) rv c Hc Hr Hlr) as (rest & Hbm).
    rewrite Hbm in Hc. destruct (chain_split_at U _ _ _ Hc) as [_ Hcc].
    pose proof (twin_state m m') as Hst.
    destruct m as [K l], m' as [K' l']. unfold twin' in Hk. cbn [best known] in *. subst l' l.
    destruct (do_reverts_sim (length rv) K K' (rv ++ c :: rest)) as (l2 & out & E1 & E1' & Hl2).
    { intros x. by apply Hst. }
    { intros x Hx. rewrite take_app in Hx. auto. }
    rewrite E1, E1'. destruct out.
    2,3: (eexists _, _, _; split_and!; try done).
    rewrite (Hl2 eq_refl), drop_app.
    destruct (do_applies_sim app (Mgr K (c :: rest)) (Mgr K' (c :: rest))) as
      (m2 & m2' & out2 & E2 & E2' & [Hs1 Hs2] & Hin); [done| |].
    { intros x Hx. cbn [known]. destruct (Hk x) as [?|(Hxl & _)]; [done|].
      apply elem_of_app in Hxl as [?|Hxl]; [auto|]. exfalso.
      pose proof (chain_ht_le _ _ Hcc Hxl) as H1. cbn [hd] in H1.
      assert (x ∈ reverse app) as Hx' by (by apply elem_of_reverse).
      pose proof (lp_ht_elem U HWF _ _ _ Hlp Hx'). lia. }
    exists m2, m2', out2. cbn [known best] in *. split_and!; try done.
    - intros x. destruct (Hs2 x) as [?|[H1 H2]]; [by left|].
      destruct (Hk x) as [Heq|(Hxl & k & Hk1 & Hk2)]; [left; congruence|].
      right. split; [done|]. exists k. split; congruence.
    - intros _ x. destruct (Hs2 x) as [?|[H1 H2]]; [by left|].
      destruct (Hk x) as [Heq|(Hxl & k & Hk1 & Hk2)]; [left; congruence|].
      apply elem_of_app in Hxl as [Hxr|Hxl]; [left; rewrite H1, H2; auto|].
      right. split; [by apply Hin|]. exists k. split; congruence.
  Qed.

  (** the pruned node and its twin answer an AddBlocks identically, and stay twins *)
  Lemma add_blocks_twin m m' batch :
    MInv U m → MInv U m' → twin m m' →
    (∀ x, x ∈ reorg_reverts U m' batch → x ∈ best m → has_body m' x = has_body m x) →
    ∃ r r' out nt, add_blocks U m batch = (r, out, nt) ∧
                   add_blocks U m' batch = (r', out, nt) ∧ twin r r'.
  Proof.
    intros HI HI' Ht Hrev. pose proof Ht as [Hb Hk].
    assert (tip m' = tip m) as Htip by (unfold tip; by rewrite Hb).
    destruct batch as [|b0 batch']; [by exists m, m', Ok, false|].
    unfold reorg_reverts in Hrev. unfold add_blocks. rewrite Htip in *.
    set (batch := b0 :: batch') in *.
    destruct (add_loop_twin batch m m' (tip m) HI HI' Ht (tip_state m HI)) as [Hr Ht1].
    destruct (add_loop_spec U batch m (tip m) HI (tip_state m HI)) as (HI1 & Hb1 & He1 & _).
    destruct (add_loop_spec U batch m' (tip m)) as (HI1' & Hb1' & He1' & _); [done| |].
    { rewrite (twin_state m m' _ Ht). by apply tip_state. }
    destruct (add_loop U m (tip m) batch) as [m1 r1].
    destruct (add_loop U m' (tip m) batch) as [m1' r1']. cbn [fst snd] in *. subst r1'.
    destruct r1 as [cs|]; [|by exists m1, m1', Err, false].
    pose proof Ht1 as [Hbb1 Hk1].
    assert (tip m1' = tip m1) as Htip1 by (unfold tip; by rewrite Hbb1).
    unfold maybe_reorg. rewrite Htip1 in *.
    destruct (heavier U cs (tip m1)) eqn:Hh; [|by exists m1, m1', Ok, false].
    rewrite (twin_rpath m1 m1' _ _ Ht1) in Hrev.
    destruct (reorg_to_sim m1 m1' cs HI1 HI1' Ht1) as (m2 & m2' & out & E & E' & Hb2 & Htw & Hok).
    { intros rv app Erp x Hx. rewrite Erp in Hrev.
      destruct (rpath_sound U HWF _ _ _ _ _ _ Erp) as (c & Hr & Hlr & _).
      destruct (chain_split U HWF (best m1) rv c (I_chain U m1 HI1) Hr Hlr) as (rest & Hbm).
      assert (x ∈ best m1) as Hx1 by (rewrite Hbm; apply elem_of_app; auto).
      specialize (Hrev x Hx). rewrite <- Hb1 in Hrev. specialize (Hrev Hx1).
      destruct (Hk1 x) as [?|(_ & k & Hkx & Hkx')]; [done|].
      assert (known m1 !! x = known m !! x) as Hsame.
      { assert (x ∈ best m) as Hxm by (by rewrite <- Hb1).
        destruct (I_best U m HI x Hxm) as (k0 & Hk0 & _).
        destruct (He1 x k0 Hk0) as (k' & Hk' & _ & _ & _ & _ & Heq). rewrite Hk', Hk0. f_equal. auto. }
      assert (known m1' !! x = known m' !! x) as Hsame'.
      { assert (x ∈ best m') as Hxm by (by rewrite Hb, <- Hb1).
        destruct (I_best U m' HI' x Hxm) as (k0 & Hk0 & _).
        destruct (He1' x k0 Hk0) as (k' & Hk' & _ & _ & _ & _ & Heq). rewrite Hk', Hk0. f_equal. auto. }
      unfold has_body in Hrev. rewrite <- Hsame, <- Hsame', Hkx, Hkx' in Hrev. cbn in Hrev.
      destruct (I_best U m1 HI1 x Hx1) as (k1 & Hk1x & Hf & Hbs & _).
      assert (k1 = k) as -> by congruence.
      rewrite Hkx, Hkx'. f_equal. destruct k as [st bo su]. cbn in *. congruence. }
    rewrite E, E'.
    pose proof (reorg_to_spec U HWF m1 cs HI1) as H1. rewrite E in H1.
    pose proof (reorg_to_spec U HWF m1' cs HI1') as H1'. rewrite E' in H1'.
    destruct out; [| |done].
    - exists m2, m2', Ok, true. split_and!; try done. split; [done|]. by apply Hok.
    - destruct H1 as (HI2 & _ & Hmid). destruct H1' as (HI2' & _ & Hmid').
      rewrite (rollback_exact U HWF m1 m2 HI1 HI2 Hmid).
      pose proof (rollback_exact U HWF m1' m2' HI1' HI2' Hmid') as R'. rewrite Htip1 in R'. rewrite R'.
      eexists _, _, Err, false. split_and!; try done.
  Qed.

  (** *** instantiated for [prune] *)
  Lemma twin'_trans L m1 m2 m3 : twin' L m1 m2 → twin' L m2 m3 → twin' L m1 m3.
  Proof.
    intros H12 H23 x.
    destruct (H12 x) as [E1|(Hin & k & Hk & E1)], (H23 x) as [E2|(Hin2 & k2 & Hk2 & E2)].
    - left. congruence.
    - right. split; [done|]. exists k2. split; congruence.
    - right. split; [done|]. exists k. split; congruence.
    - right. split; [done|]. exists k. split; [done|]. rewrite E2. rewrite E1 in Hk2.
      injection Hk2 as <-. done.
  Qed.

  Lemma prune_from_twin n : ∀ m, MInv U m → twin' (best m) m (prune_from m n).
  Proof.
    induction n as [|n IH]; intros m HI; cbn [prune_from]; [by left|].
    destruct (best_at m (N.of_nat n)) as [b|] eqn:Hb; [|by left].
    destruct (has_body m b) eqn:Hbo; [|by left].
    assert (b ∈ best m) as Hin by (eapply best_at_elem; eauto).
    eapply twin'_trans; [|rewrite <- (prune_block_best m b); apply IH, MInv_prune_block; done].
    intros x. rewrite prune_block_lookup. destruct (decide (x = b)) as [->|]; [|by left].
    right. split; [done|]. destruct (I_best U m HI b Hin) as (k & Hk & _).
    exists k. by rewrite Hk.
  Qed.

  Lemma prune_twin m h : MInv U m → twin m (prune m h).
  Proof. intros HI. split; [apply prune_from_best|by apply prune_from_twin]. Qed.

  (** every later AddBlocks whose reorg reverts only blocks at or above the prune height *)
  Lemma twin_equivalence_height m h batch :
    MInv U m →
    (∀ x, x ∈ reorg_reverts U (prune m h) batch → h ≤ ht U x) →
    ∃ r r' out nt, add_blocks U m batch = (r, out, nt) ∧
                   add_blocks U (prune m h) batch = (r', out, nt) ∧
                   twin r r'.
  Proof.
    intros HI Hrev. apply add_blocks_twin; try done.
    - by apply MInv_prune_from.
    - by apply prune_twin.
    - intros x Hx _. specialize (Hrev x Hx).
      destruct (prune_removes_only_bodies U HWF m h HI) as [_ Hk]. destruct (Hk x) as [_ Hsame].
      unfold has_body. rewrite Hsame; [done|]. intros Hp.
      destruct (pruned_by_ht U HWF m h x HI Hp). lia.
  Qed.

  (** ... or only blocks strictly above the pruned node's MinReorgIndex (i.e. the fork
      point is at or above it) *)
  Lemma above_min_reorg_unpruned m h x :
    MInv U m → x ∈ best m → ht U (min_reorg (prune m h)) < ht U x →
    has_body (prune m h) x = has_body m x.
  Proof.
    intros HI Hx Hlt. set (m' := prune m h) in *.
    assert (MInv U m') as HI' by (by apply MInv_prune_from).
    assert (best m' = best m) as Hb by apply prune_from_best.
    assert (∀ y, has_body m' y = true → has_body m y = true) as Hmono.
    { intros y Hy. destruct (has_body m y) eqn:E; [done|].
      unfold m', prune in Hy. by rewrite (prune_from_body_mono _ _ _ E) in Hy. }
    pose proof (I_chain U m' HI') as Hc.
    destruct (best m') as [|t l] eqn:Hbm; [by apply chain_nonempty in Hc|].
    destruct (min_reorg_spec m' t l Hbm) as (mid & rest & Hbm2 & Hmr & Hmid & _).
    rewrite Hbm in Hbm2. injection Hbm2 as ->.
    rewrite <- Hb in Hx.
    apply elem_of_cons in Hx as [->|[Hx|Hx]%elem_of_app].
    - (* the tip *)
      destruct (prune_removes_only_bodies U HWF m h HI) as [_ Hk].
      destruct (Hk t) as [_ Hsame]. fold m' in Hsame.
      unfold has_body. rewrite Hsame; [done|]. intros (i & Hi & Hti & Hall).
      destruct mid as [|y mid']; [cbn in Hmr; rewrite Hmr in Hlt; lia|].
      assert (has_body m' y = true) as Hy' by (apply Hmid, elem_of_cons; auto).
      pose proof (Hmono y Hy') as Hy.
      destruct (chain_tail U _ _ Hc) as (_ & Htg & HtU & Hpar); [done|]. cbn [hd app] in Hpar.
      destruct (ht_par U HWF t Htg HtU) as [Hht _]. rewrite Hpar in Hht.
      assert (y ∈ best m) as Hyin by (rewrite <- Hb; apply elem_of_cons; right; apply elem_of_cons; auto).
      pose proof (best_at_complete U HWF m y HI Hyin) as Hyat.
      pose proof (best_at_ht U HWF m i t HI Hti) as Hti'.
      assert (pruned_by m h y) as Hpy.
      { exists (ht U y). split; [lia|]. split; [done|]. intros j Hj.
        destruct (decide (j = ht U y)) as [->|Hne]; [eauto|]. apply Hall. lia. }
      destruct (Hk y) as [Hpr _]. destruct (Hpr Hpy) as (k & _ & Hk'). fold m' in Hk'.
      unfold has_body in Hy'. by rewrite Hk' in Hy'.
    - (* between the tip and MinReorgIndex: body present on both *)
      rewrite (Hmid x Hx). symmetry. by apply Hmono, Hmid.
    - (* below MinReorgIndex: contradicts the height hypothesis *)
      exfalso. rewrite Hmr in Hlt.
      assert (∃ pre, t :: mid = pre ++ [List.last mid t]) as [pre Hpre].
      { destruct (exists_last (l:=t :: mid)) as (pre & z & Hz); [done|]. exists pre.
        rewrite Hz. f_equal. f_equal.
        assert (List.last (t :: mid) t = z) as <- by (rewrite Hz; apply last_last).
        apply last_cons. }
      change (t :: mid ++ rest) with ((t :: mid) ++ rest) in Hc. rewrite Hpre, <- app_assoc in Hc.
      cbn [app] in Hc. destruct (chain_split_at U _ _ _ Hc) as [_ Hc2].
      destruct rest as [|z rest]; [by apply elem_of_nil in Hx|].
      destruct (chain_tail U _ _ Hc2) as (Hc3 & Hg & HU & Hpar); [done|]. cbn [hd] in Hpar.
      destruct (ht_par U HWF _ Hg HU) as [Hht _]. rewrite Hpar in Hht.
      pose proof (chain_ht_le _ _ Hc3 Hx) as Hle. cbn [hd] in Hle. lia.
  Qed.

  Lemma twin_equivalence_min_reorg m h batch :
    MInv U m →
    (∀ x, x ∈ reorg_reverts U (prune m h) batch →
          ht U (min_reorg (prune m h)) < ht U x) →
    ∃ r r' out nt, add_blocks U m batch = (r, out, nt) ∧
                   add_blocks U (prune m h) batch = (r', out, nt) ∧
                   twin r r'.
  Proof.
    intros HI Hrev. apply add_blocks_twin; try done.
    - by apply MInv_prune_from.
    - by apply prune_twin.
    - intros x Hx Hin. apply above_min_reorg_unpruned; auto.
  Qed.
End T.

(** ** Bodies on the best chain are contiguous from the tip
    (a seventh invariant, kept as its own predicate so that [MInv] keeps its shape):
    if a best-chain block has no body then no best-chain block below it has one. *)
Definition bodies_contig (U : universe) (m : mgr) : Prop :=
  ∀ x y, x ∈ best m → y ∈ best m → ht U y < ht U x →
         has_body m x = false → has_body m y = false.
Definition MInvP (U : universe) (m : mgr) : Prop := MInv U m ∧ bodies_contig U m.

Section C.
  Context (U : universe) (HWF : WF U).

  Lemma contig_init : bodies_contig U init.
  Proof. intros x y ->%elem_of_list_singleton ->%elem_of_list_singleton. lia. Qed.

  Lemma contig_sub m m' :
    (∀ x, x ∈ best m' → x ∈ best m) →
    (∀ x, x ∈ best m' → has_body m' x = has_body m x) →
    bodies_contig U m → bodies_contig U m'.
  Proof.
    intros Hs Hb Hc x y Hx Hy Hlt Hbx. rewrite (Hb y Hy). rewrite (Hb x Hx) in Hbx.
    apply (Hc x y); auto.
  Qed.

  Lemma contig_mid m m' :
    MInv U m → MInv U m' → Mid m m' → upg m m' → bodies_contig U m → bodies_contig U m'.
  Proof.
    intros HI HI' (pre & pre0 & suf & Hb' & Hb & Hne & Hs) Hu Hc x y Hx Hy Hlt Hbx.
    destruct suf as [|c rest]; [done|].
    pose proof (I_chain U m' HI') as Hch. rewrite Hb' in Hch.
    destruct (chain_split_at U _ _ _ Hch) as [Hlp Hcc].
    assert (∀ z, z ∈ pre → has_body m' z = true) as Hpre.
    { intros z Hz. apply has_supp_body, Hs, elem_of_app; auto. }
    rewrite Hb' in Hx, Hy.
    apply elem_of_app in Hx as [Hx|Hx]; [by rewrite Hpre in Hbx|].
    apply elem_of_app in Hy as [Hy|Hy].
    - exfalso. pose proof (lp_ht_elem U HWF _ _ _ Hlp Hy) as [H1 _].
      pose proof (chain_ht_le U HWF _ _ Hcc Hx) as H2. cbn [hd] in H2. lia.
    - rewrite (upg_body m m' y Hu). rewrite (upg_body m m' x Hu) in Hbx.
      apply (Hc x y); try done; rewrite Hb; apply elem_of_app; auto.
  Qed.

  Lemma reorg_to_ok_mid m target m' :
    MInv U m → reorg_to U m target = (m', Ok) → Mid m m'.
  Proof.
    intros HI. unfold reorg_to.
    destruct (rpath U m (fuel_of m) (tip m) target) as [[rv app]|] eqn:E; [|done].
    destruct (rpath_sound U HWF _ _ _ _ _ _ E) as (c & Hr & Hlr & Hp & Hlp & _ & _).
    destruct (chain_split U HWF (best m) rv c (I_chain U m HI) Hr Hlr) as (rest & Hb).
    destruct (do_reverts_spec U (length rv) m HI) as (i & Hi & HI1 & Hs1 & Hres).
    { rewrite Hb, app_length. cbn. lia. }
    destruct Hres as [[-> E1]|[Hlt E1]]; rewrite E1; [|done].
    rewrite Hb, drop_app in HI1. rewrite Hb, drop_app. rewrite Hb, take_app in Hs1.
    set (m1 := Mgr (known m) (c :: rest)) in *.
    destruct (do_applies_spec U app m1 HI1) as (j & m2 & Hj & HI2 & Hb2 & Hu2 & Hs2 & Hres); [done|].
    destruct Hres as [[-> E2]|[Hlt E2]]; rewrite E2; [|done]. intros [= <-].
    rewrite take_ge in Hb2, Hs2 by done.
    exists (reverse app), rv, (c :: rest). split_and!; try done.
    intros x [Hx|Hx]%elem_of_app.
    - apply Hs2. by apply elem_of_reverse.
    - eapply upg_supp; [|apply (Hs1 x Hx)]. eapply upg_trans; [apply (upg_refl m m1)|]; done.
  Qed.

  Lemma maybe_reorg_contig m cs :
    MInv U m → bodies_contig U m → bodies_contig U (maybe_reorg U m cs).1.1.
  Proof.
    intros HI Hc. unfold maybe_reorg. destruct (heavier U cs (tip m)); [|done].
    pose proof (reorg_to_spec U HWF m cs HI) as H1.
    destruct (reorg_to U m cs) as [m1 [| |]] eqn:E.
    - destruct H1 as (HI1 & Hu1 & _). cbn.
      exact (contig_mid m m1 HI HI1 (reorg_to_ok_mid m cs m1 HI E) Hu1 Hc).
    - destruct H1 as (HI1 & Hu1 & Hmid). rewrite (rollback_exact U HWF m m1 HI HI1 Hmid). cbn.
      apply (contig_sub m); cbn [best]; try done.
      intros x _. exact (upg_body m m1 x Hu1).
    - done.
  Qed.

  Lemma ext_best_body m m' x :
    MInv U m → ext (best m) m m' → x ∈ best m → has_body m' x = has_body m x.
  Proof.
    intros HI He Hx. destruct (I_best U m HI x Hx) as (k & Hk & _).
    destruct (He x k Hk) as (k' & Hk' & _ & _ & _ & _ & Heq).
    unfold has_body. rewrite Hk, Hk', (Heq Hx). done.
  Qed.

  Lemma add_blocks_contig m batch :
    MInv U m → bodies_contig U m → bodies_contig U (add_blocks U m batch).1.1.
  Proof.
    intros HI Hc. unfold add_blocks. destruct batch as [|b0 batch']; [done|].
    destruct (add_loop_spec U (b0 :: batch') m (tip m) HI (tip_state U m HI)) as (HI1 & Hb1 & He1 & _).
    destruct (add_loop U m (tip m) (b0 :: batch')) as [m1 r]. cbn [fst snd] in *.
    assert (bodies_contig U m1) as Hc1.
    { apply (contig_sub m); [by rewrite Hb1| |done].
      intros x Hx. rewrite Hb1 in Hx. by apply ext_best_body. }
    destruct r as [cs|]; [|done]. by apply maybe_reorg_contig.
  Qed.

  Lemma add_validated_contig m batch :
    MInv U m → validated_pre U batch → bodies_contig U m →
    bodies_contig U (add_validated U m batch).1.1.
  Proof.
    intros HI Hpre Hc. unfold add_validated. destruct batch as [|b0 batch']; [done|].
    destruct (U !! b0) as [B0|] eqn:HB0; [|done].
    destruct (has_state m (parent B0)) eqn:Hps; cbn [negb]; [|done].
    destruct (store_validated_fold U (b0 :: batch') m HI Hpre) as (HI1 & Hb1 & Hk1).
    { intros b [= <-]. by rewrite (par_eq U _ _ HB0). }
    apply maybe_reorg_contig; [done|].
    apply (contig_sub m); [by rewrite Hb1| |done].
    intros x Hx. rewrite Hb1 in Hx. unfold has_body.
    destruct (Hk1 x) as [->|(_ & Hnb & _)]; done.
  Qed.

  Lemma best_at_lt m j z : best_at m j = Some z → j < N.of_nat (length (best m)).
  Proof. unfold best_at. by destruct (N.ltb_spec j (N.of_nat (length (best m)))). Qed.

  Lemma best_at_some m j : j < N.of_nat (length (best m)) → ∃ z, best_at m j = Some z.
  Proof.
    intros Hj. unfold best_at.
    destruct (N.ltb_spec j (N.of_nat (length (best m)))); [|lia].
    destruct (nth_error (best m) (N.to_nat (N.of_nat (length (best m)) - 1 - j))) eqn:E; [eauto|].
    apply nth_error_None in E. lia.
  Qed.

  Lemma best_same_ht m x y :
    MInv U m → x ∈ best m → y ∈ best m → ht U x = ht U y → x = y.
  Proof.
    intros HI Hx Hy He. pose proof (best_at_complete U HWF m x HI Hx) as H1.
    pose proof (best_at_complete U HWF m y HI Hy) as H2. rewrite He in H1. congruence.
  Qed.

  (** walking up from a block that has a body, in a contiguous chain: all have bodies *)
  Lemma contig_above m x y :
    MInv U m → bodies_contig U m → x ∈ best m → y ∈ best m →
    has_body m x = true → ht U x ≤ ht U y → has_body m y = true.
  Proof.
    intros HI Hc Hx Hy Hbx Hle. destruct (has_body m y) eqn:E; [done|].
    destruct (decide (ht U x = ht U y)) as [He|Hne].
    - rewrite (best_same_ht m x y HI Hx Hy He) in Hbx. congruence.
    - rewrite (Hc y x Hy Hx) in Hbx; [done|lia|done].
  Qed.

  Lemma prune_contig m h : MInv U m → bodies_contig U m → bodies_contig U (prune m h).
  Proof.
    intros HI Hc x y Hx Hy Hlt Hbx.
    destruct (prune_removes_only_bodies U HWF m h HI) as [Hb Hk]. rewrite Hb in Hx, Hy.
    destruct (has_body (prune m h) y) eqn:Hby; [exfalso|done].
    assert (has_body m y = true) as Hbmy.
    { destruct (has_body m y) eqn:E; [done|]. unfold prune in Hby.
      by rewrite (prune_from_body_mono _ _ _ E) in Hby. }
    destruct (has_body m x) eqn:Hbmx.
    2:{ rewrite (Hc x y Hx Hy Hlt Hbmx) in Hbmy. done. }
    destruct (Hk x) as [_ Hnx]. destruct (Hk y) as [Hpy _].
    assert (¬ ¬ pruned_by m h x) as Hnn.
    { intros Hn. unfold has_body in Hbx, Hbmx. rewrite (Hnx Hn) in Hbx. congruence. }
    apply Hnn. intros (i & Hi & Hxi & Hall).
    pose proof (best_at_ht U HWF m i x HI Hxi) as Hix.
    assert (pruned_by m h y) as Hp.
    { exists (ht U y). split; [lia|]. split; [by apply best_at_complete|].
      intros j Hj. destruct (decide (i ≤ j)) as [Hij|Hij]; [apply Hall; lia|].
      destruct (best_at_some m j) as [z Hz]; [pose proof (best_at_lt m i x Hxi); lia|].
      exists z. split; [done|].
      pose proof (best_at_ht U HWF m j z HI Hz) as Hjz.
      apply (contig_above m y z); try done; [by eapply best_at_elem|lia]. }
    destruct (Hpy Hp) as (k & _ & Hk'). unfold has_body in Hby. by rewrite Hk' in Hby.
  Qed.

  Lemma mstep_contig m o :
    MInv U m → op_pre U o → bodies_contig U m → bodies_contig U (mstep U m o).1.1.
  Proof.
    intros HI Hpre Hc. destruct o as [l|l|h]; cbn [mstep].
    - by apply add_blocks_contig.
    - by apply add_validated_contig.
    - by apply prune_contig.
  Qed.

  Lemma run_from_contig ops : ∀ m,
    MInv U m → bodies_contig U m → Forall (op_pre U) ops →
    bodies_contig U (fold_left (λ m o, (mstep U m o).1.1) ops m).
  Proof.
    induction ops as [|o ops IH]; intros m HI Hc Hpre; cbn [fold_left]; [done|].
    apply Forall_cons in Hpre as [Ho Hpre]. apply IH; [|by apply mstep_contig|done].
    by apply (mstep_inv U HWF).
  Qed.

  Lemma mrun_contig ops : ops_pre U ops → bodies_contig U (mrun U ops).
  Proof. intros H. apply run_from_contig; [apply (MInv_init U HWF)|apply contig_init|done]. Qed.

  Lemma mrun_invP ops : ops_pre U ops → MInvP U (mrun U ops).
  Proof. intros H. split; [by apply best_chain_inv|by apply mrun_contig]. Qed.

  (** *** MinReorgIndex is sound: everything strictly above it on the best chain has a body *)
  Lemma chain_below_last t mid rest x :
    chain U (t :: mid ++ rest) → x ∈ rest → ht U x < ht U (List.last mid t).
  Proof.
    intros Hc Hx.
    assert (∃ pre, t :: mid = pre ++ [List.last mid t]) as [pre Hpre].
    { destruct (exists_last (l:=t :: mid)) as (pre & z & Hz); [done|]. exists pre.
      rewrite Hz. f_equal. f_equal.
      assert (List.last (t :: mid) t = z) as <- by (rewrite Hz; apply last_last).
      apply last_cons. }
    change (t :: mid ++ rest) with ((t :: mid) ++ rest) in Hc. rewrite Hpre, <- app_assoc in Hc.
    cbn [app] in Hc. destruct (chain_split_at U _ _ _ Hc) as [_ Hc2].
    destruct rest as [|z rest]; [by apply elem_of_nil in Hx|].
    destruct (chain_tail U _ _ Hc2) as (Hc3 & Hg & HU & Hpar); [done|]. cbn [hd] in Hpar.
    destruct (ht_par U HWF _ Hg HU) as [Hht _]. rewrite Hpar in Hht.
    pose proof (chain_ht_le U HWF _ _ Hc3 Hx) as Hle. cbn [hd] in Hle. lia.
  Qed.

  Lemma min_reorg_sound m x :
    MInv U m → bodies_contig U m →
    x ∈ best m → ht U (min_reorg m) < ht U x → has_body m x = true.
  Proof.
    intros HI Hc Hx Hlt. pose proof (I_chain U m HI) as Hch.
    destruct (best m) as [|t l] eqn:Hbm; [by apply chain_nonempty in Hch|].
    destruct (min_reorg_spec m t l Hbm) as (mid & rest & Hbm2 & Hmr & Hmid & _).
    rewrite Hbm in Hbm2. injection Hbm2 as ->. rewrite Hmr in Hlt.
    apply elem_of_cons in Hx as [->|[Hx|Hx]%elem_of_app].
    - destruct mid as [|y mid']; [cbn in Hlt; lia|].
      assert (has_body m y = true) as Hy by (apply Hmid, elem_of_cons; auto).
      destruct (has_body m t) eqn:Ht; [done|]. exfalso.
      destruct (chain_tail U _ _ Hch) as (_ & Htg & HtU & Hpar); [done|]. cbn [hd app] in Hpar.
      destruct (ht_par U HWF t Htg HtU) as [Hht _]. rewrite Hpar in Hht.
      rewrite (Hc t y) in Hy; try done; [rewrite Hbm; apply elem_of_cons; auto| |lia].
      rewrite Hbm. apply elem_of_cons; right. apply elem_of_cons; auto.
    - by apply Hmid.
    - pose proof (chain_below_last t mid rest x Hch Hx). lia.
  Qed.

  (** *** PruneBlocks beyond the tip *)
  Lemma prune_clamp m h :
    N.of_nat (length (best m)) ≤ h → prune m h = prune m (N.of_nat (length (best m))).
  Proof. intros Hh. unfold prune. f_equal. lia. Qed.

  Lemma prune_all_run m h x :
    MInv U m → N.of_nat (length (best m)) ≤ h → x ∈ best m →
    (∀ y, y ∈ best m → ht U x ≤ ht U y → has_body m y = true) →
    has_body (prune m h) x = false.
  Proof.
    intros HI Hh Hx Hrun.
    destruct (prune_removes_only_bodies U HWF m h HI) as [_ Hk]. destruct (Hk x) as [Hp _].
    destruct Hp as (k & _ & Hk').
    { pose proof (best_at_complete U HWF m x HI Hx) as Hxa.
      pose proof (best_at_lt m _ _ Hxa) as Hxl.
      exists (ht U x). split; [lia|]. split; [done|]. intros j Hj.
      destruct (best_at_some m j) as [z Hz]; [lia|]. exists z. split; [done|].
      apply Hrun; [by eapply best_at_elem|]. rewrite (best_at_ht U HWF m j z HI Hz). lia. }
    unfold has_body. by rewrite Hk'.
  Qed.

  Lemma prune_beyond_tip_prunes_all m h :
    MInv U m → bodies_contig U m → N.of_nat (length (best m)) ≤ h →
    prune m h = prune m (N.of_nat (length (best m))) ∧
    ∀ x, x ∈ best m → has_body (prune m h) x = false.
  Proof.
    intros HI Hc Hh. split; [by apply prune_clamp|]. intros x Hx.
    destruct (has_body m x) eqn:E.
    - apply prune_all_run; try done. intros y Hy Hle. by apply (contig_above m x y).
    - unfold prune. by apply prune_from_body_mono.
  Qed.
End C.


Lemma prune_preserves_inv U m h : MInv U m → MInv U (prune m h).
Proof. apply MInv_prune_from. Qed.

(** * Examples (non-vacuity) and the boundary case *)
Module ExP.
  Import Ex.
  Definition m1 : mgr := mrun U ops1.          (* best = [3;2;1;0], nothing pruned *)
  Definition m2 : mgr := mrun U ops2.          (* same chain; fork 4,5 validated, 6 stored *)

  Example m1_inv : MInv U m1.
  Proof. apply best_chain_inv; [apply U_wf|repeat constructor]. Qed.
  Example m2_inv : MInv U m2.
  Proof. apply best_chain_inv; [apply U_wf|repeat constructor]. Qed.

  (** prune 2 removes exactly the bodies of heights 1 and 0 *)
  Example pruned_by_ex : pruned_by m1 2 1 ∧ ¬ pruned_by m1 2 2.
  Proof.
    split.
    - unfold pruned_by.
      replace (N.min 2 (N.of_nat (length (best m1)))) with 2 by (vm_compute; reflexivity).
      exists 1. split; [lia|]. split; [vm_compute; reflexivity|].
      intros j Hj. assert (j = 1) as -> by lia. eexists. split; vm_compute; reflexivity.
    - intros Hp. destruct (pruned_by_ht U U_wf m1 2 2 m1_inv Hp) as [_ Hh].
      vm_compute in Hh. discriminate.
  Qed.
  Example prune_ex :
    known (prune m1 2) !! 1 = Some (KI (Some SFull) false false) ∧
    known (prune m1 2) !! 0 = Some (KI (Some SFull) false false) ∧
    known (prune m1 2) !! 2 = Some (KI (Some SFull) true true) ∧
    min_reorg (prune m1 2) = 2.
  Proof. vm_compute. split_and!; reflexivity. Qed.
  (** a prune height beyond the tip prunes everything below the tip, tip included *)
  Example prune_beyond_tip_ex :
    prune m1 9 = prune m1 4 ∧ has_body (prune m1 9) 3 = false ∧ has_body (prune m1 9) 0 = false.
  Proof. vm_compute. split_and!; reflexivity. Qed.
  Example m1_invP : MInvP U (prune m1 2).
  Proof. apply (mrun_invP U U_wf (ops1 ++ [Prune 2])). repeat constructor. Qed.

  (** a reorg below the boundary: the fork 4-5-7 needs block 2 reverted, whose body is gone *)
  Example below_boundary_ex :
    let m := prune m2 3 in
    2 ∈ reorg_reverts U m [7] ∧ has_body m 2 = false ∧
    ∃ m', add_blocks U m [7] = (m', Err, false) ∧ best m' = [3; 2; 1; 0].
  Proof.
    cbn zeta. split; [|split].
    - replace (reorg_reverts U (prune m2 3) [7]) with [3; 2] by (vm_compute; reflexivity).
      apply elem_of_cons; right; apply elem_of_cons; auto.
    - vm_compute. reflexivity.
    - eexists. vm_compute. split; reflexivity.
  Qed.

  (** twin equivalence, hypotheses met: the same fork with the boundary at height 2 / 1 *)
  Example twin_height_ex :
    (∀ x, x ∈ reorg_reverts U (prune m2 2) [7] → 2 ≤ ht U x) ∧
    ∃ r r', add_blocks U m2 [7] = (r, Ok, true) ∧ add_blocks U (prune m2 2) [7] = (r', Ok, true) ∧
            best r = [7; 5; 4; 1; 0] ∧ best r' = [7; 5; 4; 1; 0].
  Proof.
    split.
    - replace (reorg_reverts U (prune m2 2) [7]) with [3; 2] by (vm_compute; reflexivity).
      intros x [->|[->|Hx%elem_of_nil]%elem_of_cons]%elem_of_cons; [| |done]; vm_compute; discriminate.
    - eexists _, _. vm_compute. split_and!; reflexivity.
  Qed.
  Example twin_min_reorg_ex :
    ∀ x, x ∈ reorg_reverts U (prune m2 1) [7] → ht U (min_reorg (prune m2 1)) < ht U x.
  Proof.
    replace (reorg_reverts U (prune m2 1) [7]) with [3; 2] by (vm_compute; reflexivity).
    intros x [->|[->|Hx%elem_of_nil]%elem_of_cons]%elem_of_cons; [| |done]; vm_compute; reflexivity.
  Qed.

  (** "reverts only blocks at or above MinReorgIndex" (instead of strictly above) is not
      enough: after pruning up to and including the tip, MinReorgIndex is the tip itself,
      whose body is gone.  The unpruned node reorgs to block 10, the pruned one errors. *)
  Lemma twin_at_boundary_refuted :
    ∃ U m h batch, WF U ∧ MInv U m ∧
      (∀ x, x ∈ reorg_reverts U (prune m h) batch →
            ht U (min_reorg (prune m h)) ≤ ht U x) ∧
      (add_blocks U m batch).1.2 = Ok ∧ (add_blocks U (prune m h) batch).1.2 = Err.
  Proof.
    exists U, m1, 4, [10]. split; [apply U_wf|]. split; [apply m1_inv|]. split.
    - replace (reorg_reverts U (prune m1 4) [10]) with [3] by (vm_compute; reflexivity).
      intros x [->|Hx%elem_of_nil]%elem_of_cons; [|done]. vm_compute. discriminate.
    - vm_compute. split; reflexivity.
  Qed.

  (** the history that used to make MinReorgIndex overclaim (tip pruned, then a lower
      best-chain block submitted again through AddValidatedV2Blocks): the block is skipped,
      the body stays pruned and MinReorgIndex stays at the tip *)
  Example min_reorg_after_resubmission :
    let m := mrun U [AddBlocks [1; 2; 3]; Prune 4; AddValidated [2]] in
    min_reorg m = 3 ∧ has_body m 2 = false ∧ has_body m 3 = false.
  Proof. vm_compute. split_and!; reflexivity. Qed.
End ExP.

Lemma min_reorg_sound_reachable U (HWF : WF U) ops (Hops : ops_pre U ops) x :
  x ∈ best (mrun U ops) → ht U (min_reorg (mrun U ops)) < ht U x →
  has_body (mrun U ops) x = true.
Proof. apply min_reorg_sound; [done|by apply best_chain_inv|by apply mrun_contig]. Qed.
