(** * Chain/ReopenProofs.v — a committed image reopens to a manager state satisfying the
    invariant of C01 (C03) *)
From Coq Require Import NArith ZArith List Lia ZifyBool ZifyNat ZifyN.
Import ListNotations.
From stdpp Require Import gmap.
From CV Require Import Chain.Manager Chain.ManagerProofs Net.MgrLive Net.MgrLiveProofs.
From CV Require Import Chain.Reopen.
Open Scope N_scope.

Section P.
  Context (U : universe) (HWF : WF U).

  Lemma bht_ht b : bht U b = ht U b.
  Proof. done. Qed.

  (** ** The best chain and the MainChain bucket determine each other *)
  (** heights fall by one down to zero *)
  Fixpoint desc (l : list N) : Prop :=
    match l with
    | [] => True
    | x :: r => match r with
                | [] => bht U x = 0
                | y :: _ => bht U x = bht U y + 1
                end ∧ desc r
    end.

  Lemma lp_desc l : lp U l genesis → desc (l ++ [genesis]).
  Proof.
    induction l as [|x l IH]; intros H; cbn [app desc].
    - split; [|done]. rewrite bht_ht. apply (ht_genesis U HWF).
    - cbn [lp] in H. destruct H as (Hg & HU & Hp & H). split; [|by apply IH].
      destruct (ht_par U HWF x Hg HU) as [Hh _]. rewrite !bht_ht, Hh, Hp.
      destruct l; cbn; done.
  Qed.

  Lemma chain_desc l : chain U l → desc l.
  Proof. intros (l0 & -> & H). by apply lp_desc. Qed.

  Lemma main_of_cons x l : main_of U (x :: l) = <[bht U x := x]> (main_of U l).
  Proof. done. Qed.

  Lemma desc_above l : desc l → ∀ k, (match l with [] => True | x :: _ => bht U x < k end) →
    main_of U l !! k = None.
  Proof.
    induction l as [|x r IH]; intros Hd k Hk; [apply lookup_empty|].
    rewrite main_of_cons. destruct Hd as [Hx Hd].
    rewrite lookup_insert_ne by lia. apply IH; [done|].
    destruct r as [|y r']; [done|]. lia.
  Qed.

  Lemma walk_insert_above mc k v h : N.of_nat h < k → walk (<[k := v]> mc) h = walk mc h.
  Proof.
    induction h as [|h IH]; intros Hk; cbn [walk].
    - rewrite lookup_insert_ne by lia. done.
    - rewrite lookup_insert_ne by lia. destruct (mc !! _); [|done]. f_equal. apply IH. lia.
  Qed.

  Lemma walk_main l : desc l → l ≠ [] →
    walk (main_of U l) (N.to_nat (bht U (hd genesis l))) = l.
  Proof.
    induction l as [|x r IH]; intros Hd Hne; [done|]. cbn [hd].
    destruct Hd as [Hx Hd]. rewrite main_of_cons.
    destruct r as [|y r'].
    - rewrite Hx. cbn. rewrite lookup_insert. done.
    - assert (N.to_nat (bht U x) = S (N.to_nat (bht U y))) as -> by lia.
      cbn [walk]. replace (N.of_nat (S (N.to_nat (bht U y)))) with (bht U x) by lia.
      rewrite lookup_insert. f_equal.
      rewrite walk_insert_above by lia. by apply (IH Hd).
  Qed.

  (** reopening the image of a state that satisfies the invariant gives that state back *)
  Lemma mgr_of_img m : MInv U m → mgr_of (img_of U m) = m.
  Proof.
    intros HI. pose proof (I_chain U m HI) as Hc.
    unfold mgr_of, img_of. cbn [mi_known mi_main mi_hgt]. destruct m as [kn be].
    cbn [known best] in *. f_equal. unfold tip. cbn [best].
    apply walk_main; [by apply chain_desc|by eapply chain_nonempty].
  Qed.

  (** ** The session view tracks the manager state *)
  Lemma img_init : img_of U init = MImg {[genesis := KI (Some SFull) true true]} {[0 := genesis]} 0.
  Proof.
    unfold img_of, init, main_of. cbn. rewrite (ht_genesis U HWF : bht U genesis = 0).
    by rewrite insert_empty.
  Qed.

  Lemma img_store_hdr m b : img_of U (store_hdr m b) = mi_store_hdr (img_of U m) b.
  Proof. done. Qed.

  Lemma img_revert m m' :
    MInv U m → (1 < length (best m))%nat → revert_tip U m = (m', Ok) →
    img_of U m' = mi_revert U (img_of U m) (tip m).
  Proof.
    intros HI Hlen E. pose proof (revert_tip_spec U m HI) as H. rewrite E in H.
    destruct H as (t & rest & Hb & -> & _ & _).
    pose proof (chain_desc _ (I_chain U m HI)) as Hd. rewrite Hb in Hd, Hlen.
    unfold img_of, mi_revert, tip. rewrite Hb. cbn [known best hd mi_known mi_main mi_hgt].
    destruct rest as [|y r']; [cbn in Hlen; lia|]. destruct Hd as [Hx Hd].
    f_equal.
    - rewrite (main_of_cons t), delete_insert; [done|]. apply desc_above; [done|]. lia.
    - cbn. lia.
  Qed.

  Lemma img_apply m b m' :
    apply_tip U m b = (m', Ok) → img_of U m' = mi_apply U (img_of U m) b.
  Proof.
    unfold apply_tip. destruct (U !! b) as [B|]; [|done].
    destruct (negb (has_body m b)); [done|]. destruct (negb (parent B =? tip m)); [done|].
    unfold img_of, mi_apply. cbn [mi_known mi_main mi_hgt].
    assert (has_supp (Mgr (known m) []) b = has_supp m b) as -> by done.
    destruct (has_supp m b).
    - intros [= <-]. done.
    - destruct (body_ok B); [|done]. intros [= <-]. done.
  Qed.

  (** ** Every block boundary satisfies the invariant *)
  Lemma reverts_tr_inv n : ∀ m,
    MInv U m → all_body m → (n < length (best m))%nat →
    ∀ b, b ∈ reverts_tr U m n → MInv U b ∧ all_body b.
  Proof.
    induction n as [|n IH]; intros m HI Hab Hn b Hb; cbn [reverts_tr] in Hb;
      [by apply elem_of_nil in Hb|].
    pose proof (revert_tip_spec U m HI) as Hr.
    pose proof (all_body_revert_tip U m Hab) as Hab'.
    destruct (revert_tip U m) as [m1 [| |]]; try by apply elem_of_nil in Hb.
    destruct Hr as (t & rest & Hbe & -> & Hs & _). cbn [fst] in Hab'.
    rewrite Hbe in Hn. cbn [length] in Hn.
    assert (rest ≠ []) as Hne by (destruct rest; [cbn in Hn; lia|done]).
    pose proof (MInv_revert U m t rest HI Hbe Hne Hs) as HI1.
    apply elem_of_cons in Hb as [->|Hb]; [done|].
    apply (IH _ HI1 Hab'); [cbn; lia|done].
  Qed.

  Lemma applies_tr_inv app : ∀ m,
    MInv U m → all_body m → lp U (reverse app) (tip m) →
    ∀ b, b ∈ applies_tr U m app → MInv U b ∧ all_body b.
  Proof.
    induction app as [|x app IH]; intros m HI Hab Hl b Hb; cbn [applies_tr] in Hb;
      [by apply elem_of_nil in Hb|].
    rewrite reverse_cons in Hl. apply lp_snoc in Hl as (Hl & Hg & HB & Hp).
    pose proof (apply_tip_spec U m x HI Hg HB Hp) as Ha.
    pose proof (all_body_apply_tip U m x Hab) as Hab'.
    destruct (apply_tip U m x) as [m1 [| |]]; try by apply elem_of_nil in Hb.
    destruct Ha as (HI1 & Hb1 & _ & _). cbn [fst] in Hab'.
    apply elem_of_cons in Hb as [->|Hb]; [done|].
    apply (IH _ HI1 Hab'); [|done]. unfold tip. rewrite Hb1. done.
  Qed.

  Lemma reorg_tr_inv m t :
    MInv U m → all_body m → ∀ b, b ∈ reorg_tr U m t → MInv U b ∧ all_body b.
  Proof.
    intros HI Hab b Hb. unfold reorg_tr in Hb.
    destruct (rpath U m (fuel_of m) (tip m) t) as [[rv app]|] eqn:E; [|by apply elem_of_nil in Hb].
    destruct (rpath_sound U HWF _ _ _ _ _ _ E) as (c & Hr & Hlr & Hp & Hlp & _ & _).
    destruct (chain_split U HWF (best m) rv c (I_chain U m HI) Hr Hlr) as (rest & Hbe).
    assert (length rv < length (best m))%nat as Hlen by (rewrite Hbe, app_length; cbn; lia).
    apply elem_of_app in Hb as [Hb|Hb]; [by apply (reverts_tr_inv (length rv) m)|].
    destruct (do_reverts_spec U (length rv) m HI Hlen) as (i & Hi & HI1 & _ & Hres).
    pose proof (all_body_do_reverts U (length rv) m Hab) as Hab1.
    destruct Hres as [[-> E1]|[_ E1]]; rewrite E1 in Hb, Hab1; [|by apply elem_of_nil in Hb].
    cbn [fst] in Hab1. rewrite Hbe, drop_app in HI1, Hb, Hab1.
    apply (applies_tr_inv app _ HI1 Hab1); [|done]. done.
  Qed.

  Lemma maybe_reorg_tr_inv m cs :
    MInv U m → all_body m → ∀ b, b ∈ maybe_reorg_tr U m cs → MInv U b ∧ all_body b.
  Proof.
    intros HI Hab b Hb. unfold maybe_reorg_tr in Hb.
    destruct (heavier U cs (tip m)); [|by apply elem_of_nil in Hb].
    apply elem_of_app in Hb as [Hb|Hb]; [by apply (reorg_tr_inv m cs)|].
    pose proof (reorg_to_spec U HWF m cs HI) as Hs.
    pose proof (all_body_reorg_to U m cs Hab) as Hab1.
    destruct (reorg_to U m cs) as [m1 [| |]]; try by apply elem_of_nil in Hb.
    destruct Hs as (HI1 & _ & _). by apply (reorg_tr_inv m1 (tip m)).
  Qed.

  Lemma op_tr_inv m o :
    MInv U m → all_body m → op_pre U o → ∀ b, b ∈ op_tr U m o → MInv U b ∧ all_body b.
  Proof.
    intros HI Hab Hpre b Hb. destruct o as [batch|batch|h]; cbn [op_tr] in Hb.
    - destruct batch as [|b0 batch']; [by apply elem_of_nil in Hb|].
      assert (has_state m (tip m) = true) as Ht
        by (apply (best_has_state U); [done|by apply (tip_on_best U)]).
      destruct (add_loop_spec U (b0 :: batch') m (tip m) HI Ht) as (HI1 & _ & _ & _ & _).
      pose proof (all_body_add_loop U (b0 :: batch') m (tip m) Hab) as Hab1.
      destruct (add_loop U m (tip m) (b0 :: batch')) as [m1 [cs|]]; [|by apply elem_of_nil in Hb].
      by apply (maybe_reorg_tr_inv m1 cs).
    - destruct batch as [|b0 batch']; [by apply elem_of_nil in Hb|].
      destruct (U !! b0) as [B0|] eqn:HB0; [|by apply elem_of_nil in Hb].
      destruct (has_state m (parent B0)) eqn:Hps; [|by apply elem_of_nil in Hb].
      destruct (store_validated_fold U (b0 :: batch') m HI Hpre) as (HI1 & _ & _).
      { intros x [= <-]. by rewrite (par_eq U _ _ HB0). }
      pose proof (all_body_fold (b0 :: batch') m Hab) as Hab1.
      eapply maybe_reorg_tr_inv; [exact HI1|exact Hab1|exact Hb].
    - by apply elem_of_nil in Hb.
  Qed.

  Definition no_prune (ops : list mop) : Prop := ∀ o, o ∈ ops → ∀ h, o ≠ Prune h.

  Lemma mstep_all_body m o : all_body m → (∀ h, o ≠ Prune h) → all_body (mstep U m o).1.1.
  Proof.
    intros Hab Hnp. destruct o as [l|l|h]; cbn [mstep].
    - by apply all_body_add_blocks.
    - by apply all_body_add_validated.
    - by destruct (Hnp h).
  Qed.

  Lemma boundaries_from_inv ops : ∀ m,
    MInv U m → all_body m → Forall (op_pre U) ops → no_prune ops →
    ∀ b, b ∈ boundaries_from U m ops → MInv U b ∧ all_body b.
  Proof.
    induction ops as [|o r IH]; intros m HI Hab Hpre Hnp b Hb; cbn [boundaries_from] in Hb;
      [by apply elem_of_nil in Hb|].
    apply Forall_cons in Hpre as [Hpo Hpre].
    apply elem_of_app in Hb as [Hb|Hb]; [by apply (op_tr_inv m o)|].
    apply (IH (mstep U m o).1.1); try done.
    - by apply (mstep_inv U HWF).
    - apply mstep_all_body; [done|]. apply Hnp. left.
    - intros o' Ho'. apply Hnp. by right.
  Qed.

  (** C03_reopened_state_satisfies_MInv *)
  Theorem reopened_state_satisfies_MInv ops b :
    Forall (op_pre U) ops → no_prune ops → b ∈ boundaries U ops →
    mgr_of (img_of U b) = b ∧ MInv U (mgr_of (img_of U b)) ∧ all_body (mgr_of (img_of U b)).
  Proof.
    intros Hpre Hnp Hb.
    assert (MInv U b ∧ all_body b) as [HI Hab].
    { unfold boundaries in Hb. apply elem_of_cons in Hb as [->|Hb].
      - split; [apply (MInv_init U HWF)|apply all_body_init].
      - apply (boundaries_from_inv ops init); try done;
          [apply (MInv_init U HWF)|apply all_body_init]. }
    rewrite (mgr_of_img b HI). done.
  Qed.
End P.

(** Example: the boundaries of a run with a two-block reorg ([exU] of Net/MgrLiveProofs.v:
    chain 1-2, then the heavier fork 3-4-5 from block 1) — the mid-reorg states are among
    them, and the image of each reopens to it *)
Example boundaries_nonvacuous :
  let ops := [AddBlocks [1; 2]; AddBlocks [3; 4; 5]] in
  Forall (op_pre exU) ops ∧ no_prune ops ∧
  map best (boundaries exU ops) =
    [[0]; [1; 0]; [2; 1; 0]; [1; 0]; [3; 1; 0]; [4; 3; 1; 0]; [5; 4; 3; 1; 0]] ∧
  map (λ b, best (mgr_of (img_of exU b))) (boundaries exU ops) = map best (boundaries exU ops).
Proof.
  cbn zeta. split; [repeat constructor|]. split.
  - intros o Ho h ->. by repeat (apply elem_of_cons in Ho as [Ho|Ho]; [done|]); apply elem_of_nil in Ho.
  - by vm_compute.
Qed.

(** ** The bridge to the crash model of Chain/Crash.v: its session view and the image of the
    manager state move together, and its [reopen] is the tip of [mgr_of] *)
From CV Require Chain.Store Chain.Crash.

Lemma apply_fcs_frame l : ∀ s s',
  Store.apply_fcs s l = Some s' → Store.mainc s' = Store.mainc s ∧ Store.hgt s' = Store.hgt s.
Proof.
  assert (∀ sa sb id we, Store.delete_expiration sa id we = Some sb →
                         Store.mainc sb = Store.mainc sa ∧ Store.hgt sb = Store.hgt sa) as Hd.
  { intros sa sb id we. unfold Store.delete_expiration.
    destruct (Store.index_of id (Store.exp_get sa we)); [|done]. by intros [= <-]. }
  induction l as [|f r IH]; intros s s'; cbn; [by intros [= <-]|].
  destruct (Store.apply_fc s f) as [sx|] eqn:E; [|done]. intros Hr.
  destruct (IH _ _ Hr) as [-> ->]. unfold Store.apply_fc in E.
  repeat (case_match; simplify_eq/=; try done);
    repeat match goal with
           | H : Store.delete_expiration _ _ _ = Some _ |- _ => apply Hd in H as [? ?]
           end; cbn in *; split; congruence.
Qed.

Lemma revert_fcs_frame l : ∀ s s',
  Store.revert_fcs s l = Some s' → Store.mainc s' = Store.mainc s ∧ Store.hgt s' = Store.hgt s.
Proof.
  assert (∀ sa sb id we, Store.delete_expiration sa id we = Some sb →
                         Store.mainc sb = Store.mainc sa ∧ Store.hgt sb = Store.hgt sa) as Hd.
  { intros sa sb id we. unfold Store.delete_expiration.
    destruct (Store.index_of id (Store.exp_get sa we)); [|done]. by intros [= <-]. }
  induction l as [|f r IH]; intros s s'; cbn; [by intros [= <-]|].
  destruct (Store.revert_fc s f) as [sx|] eqn:E; [|done]. intros Hr.
  destruct (IH _ _ Hr) as [-> ->]. unfold Store.revert_fc in E.
  repeat (case_match; simplify_eq/=; try done);
    repeat match goal with
           | H : Store.delete_expiration _ _ _ = Some _ |- _ => apply Hd in H as [? ?]
           end; cbn in *; split; congruence.
Qed.

(** what a block step of the crash model does to MainChain and Height *)
Lemma crash_step_main R s st s' :
  Store.do_step R s st = Some s' →
  match st with
  | Store.SApply blk =>
      Store.mainc s' = <[Store.b_h blk := Store.b_id blk]> (Store.mainc s) ∧
      Store.hgt s' = Store.b_h blk
  | Store.SRevert blk =>
      Store.mainc s' = delete (Store.b_h blk) (Store.mainc s) ∧
      Store.hgt s' = Store.b_h blk - 1
  end.
Proof.
  destruct st as [blk|blk]; cbn [Store.do_step].
  - unfold Store.apply_block. destruct (_ <=? _); [|by intros [= <-]].
    unfold Store.apply_elements. intros H. by destruct (apply_fcs_frame _ _ _ H) as [-> ->].
  - unfold Store.revert_block. destruct (_ <=? _).
    + unfold Store.revert_elements, Store.rev_diffs. cbn.
      destruct (Store.revert_fcs s _) as [s1|] eqn:E; [|done]. intros [= <-]. cbn.
      destruct (revert_fcs_frame _ _ _ E) as [-> _]. done.
    + by intros [= <-].
Qed.

Section Bridge.
  Context (U : universe) (HWF : WF U).

  (** the crash model's view [s] shows the image of manager state [m] *)
  Definition shows (s : Store.store) (m : mgr) : Prop :=
    Store.mainc s = mi_main (img_of U m) ∧ Store.hgt s = mi_hgt (img_of U m).

  (** C03_session_view_tracks_manager: one revertTip / applyTip of the manager is one block
      step of the crash model on the block with that id and height *)
  Theorem view_tracks_revert R s s' m m' blk :
    MInv U m → (1 < length (best m))%nat → shows s m →
    revert_tip U m = (m', Ok) →
    Store.b_id blk = tip m → Store.b_h blk = bht U (tip m) →
    Store.do_step R s (Store.SRevert blk) = Some s' → shows s' m'.
  Proof.
    intros HI Hlen [Hm Hh] Hr Hid Hht Hs.
    destruct (crash_step_main R s _ s' Hs) as [Hm' Hh'].
    unfold shows. rewrite (img_revert U HWF m m' HI Hlen Hr). unfold mi_revert. cbn.
    by rewrite Hm', Hh', Hm, Hht.
  Qed.

  Theorem view_tracks_apply R s s' m m' blk :
    shows s m → apply_tip U m (Store.b_id blk) = (m', Ok) →
    Store.b_h blk = bht U (Store.b_id blk) →
    Store.do_step R s (Store.SApply blk) = Some s' → shows s' m'.
  Proof.
    intros [Hm Hh] Ha Hht Hs.
    destruct (crash_step_main R s _ s' Hs) as [Hm' Hh'].
    unfold shows. rewrite (img_apply U m _ m' Ha). unfold mi_apply. cbn.
    by rewrite Hm', Hh', Hm, Hht.
  Qed.

  (** the crash model's [reopen] is the tip of the reopened manager *)
  Theorem reopen_is_tip s full m id :
    MInv U m → shows s m → Crash.reopen (Crash.Img s full) = Some id → id = tip m.
  Proof.
    intros HI [Hm Hh]. unfold Crash.reopen. cbn. rewrite Hm, Hh.
    pose proof (chain_desc U HWF _ (I_chain U m HI)) as Hd.
    pose proof (chain_nonempty U _ (I_chain U m HI)) as Hne.
    unfold img_of, tip. cbn. destruct (best m) as [|t r]; [done|]. cbn.
    rewrite lookup_insert. by destruct (bool_decide _); intros [= <-].
  Qed.
End Bridge.

(** ** Catching up from a reopened image, hypothesis discharged *)
From CV Require Chain.CrashProofs.
Theorem reopened_node_catches_up U (HWF : WF U) ops b bs1 l bs2 :
  Forall (op_pre U) ops → no_prune ops → b ∈ boundaries U ops →
  l ≠ [] → lp U (reverse l) genesis → (∀ x, x ∈ l → okb U x = true) →
  CrashProofs.separated U (List.last l genesis) →
  tip (CrashProofs.run_adds U (mgr_of (img_of U b)) (bs1 ++ l :: bs2)) = List.last l genesis ∧
  tip (CrashProofs.run_adds U (mrun U ops) (bs1 ++ l :: bs2)) = List.last l genesis.
Proof.
  intros Hpre Hnp Hb Hne Hlp Hok Hsep.
  destruct (reopened_state_satisfies_MInv U HWF ops b Hpre Hnp Hb) as (_ & HI & Hab).
  split; [by apply CrashProofs.catch_up|].
  apply CrashProofs.catch_up; try done.
  - by apply mrun_inv.
  - clear Hb. unfold mrun. generalize init (all_body_init). induction ops as [|o r IH]; intros m Hm; [done|].
    cbn [fold_left]. apply Forall_cons in Hpre as [_ Hpre]. apply IH; try done.
    + intros o' Ho'. apply Hnp. by right.
    + apply mstep_all_body; [done|]. apply Hnp. left.
Qed.
