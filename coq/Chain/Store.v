(** * Chain/Store.v — the element buckets of chain.DBStore (chain/db.go) as maps (C02, C03)

    Executable definitions only.  The store is what [DBStore] keeps in its buckets about the
    best chain:
    - [sce], [sfe]  SiacoinElements / SiafundElements: id ↦ payload (the encoded element as
                    stored, Merkle proof stripped; a payload is a number naming those bytes);
    - [fce]         FileContracts, 32-byte keys: id ↦ (payload, WindowEnd);
    - [expi]        FileContracts, 8-byte keys: height ↦ ids of the contracts whose window
                    ends there, *ordered* (db.go:601-651);
    - [mainc],[hgt] MainChain: height ↦ block id, and the "Height" key (db.go:436-456).

    A block reaches the store as the three diff lists core's ApplyUpdate / RevertUpdate carry
    (consensus/state.go:624-650): per element the flags Created/Spent, per v1 contract
    Created/Revision/Resolved, in core's order.  Law L1 (core, consensus/application.go:914-945):
    the revert diff lists of a block are the apply diff lists reversed, same flags — [rev_diffs];
    the harness checks it on every block it sees reverted.

    One normalisation: the Go code writes an empty value under a height key when the last id
    is removed, and reads a missing key as empty; nothing it serves distinguishes the two, so
    the model keeps [expi] free of empty lists ([set_exp]). *)
From Coq Require Import NArith List.
Import ListNotations.
From stdpp Require Import gmap.
Open Scope N_scope.

(** ** Diffs *)
Record ediff := ED { e_id : N; e_pay : N; e_created : bool; e_spent : bool }.
(** [f_pay]/[f_we]: the FileContractElement of the diff (the contract *before* the block for a
    revised or resolved contract, the new contract for a created one); [f_rev]: payload and
    WindowEnd of the element with FileContract := *Revision. *)
Record fdiff := FD { f_id : N; f_pay : N; f_we : N; f_created : bool;
                     f_rev : option (N * N); f_resolved : bool }.
Record diffs := DF { d_sc : list ediff; d_sf : list ediff; d_fc : list fdiff }.

Definition rev_diffs (d : diffs) : diffs := DF (rev (d_sc d)) (rev (d_sf d)) (rev (d_fc d)).

(** ** Store *)
Record store := St {
  sce : gmap N N; sfe : gmap N N; fce : gmap N (N * N);
  expi : gmap N (list N);
  mainc : gmap N N; hgt : N;
}.
Definition empty_store : store := St ∅ ∅ ∅ ∅ ∅ 0.

Definition exp_get (s : store) (h : N) : list N := default [] (expi s !! h).
Definition exp_put (m : gmap N (list N)) (h : N) (l : list N) : gmap N (list N) :=
  match l with [] => delete h m | _ => <[h := l]> m end.
Definition set_exp (s : store) (h : N) (l : list N) : store :=
  St (sce s) (sfe s) (fce s) (exp_put (expi s) h l) (mainc s) (hgt s).
Definition set_sce (s : store) (m : gmap N N) : store :=
  St m (sfe s) (fce s) (expi s) (mainc s) (hgt s).
Definition set_sfe (s : store) (m : gmap N N) : store :=
  St (sce s) m (fce s) (expi s) (mainc s) (hgt s).
Definition set_fce (s : store) (m : gmap N (N * N)) : store :=
  St (sce s) (sfe s) m (expi s) (mainc s) (hgt s).

(** putFileContractExpiration (db.go:601-615): append when applying, prepend when reverting *)
Definition put_expiration (s : store) (id we : N) (apply : bool) : store :=
  set_exp s we (if apply then exp_get s we ++ [id] else id :: exp_get s we).

(** deleteFileContractExpiration (db.go:637-651): the first occurrence is overwritten by the
    last id and the list is truncated by one; [None] is the panic "missing file contract
    expiration". *)
Fixpoint index_of (x : N) (l : list N) : option nat :=
  match l with
  | [] => None
  | y :: r => if x =? y then Some O else S <$> index_of x r
  end.
Definition swap_remove (i : nat) (l : list N) : list N :=
  match last l with
  | None => l
  | Some z => take (length l - 1) (<[i := z]> l)
  end.
Definition delete_expiration (s : store) (id we : N) : option store :=
  match index_of id (exp_get s we) with
  | None => None
  | Some i => Some (set_exp s we (swap_remove i (exp_get s we)))
  end.

(** ** applyElements (db.go:663-706) *)
Definition apply_e (m : gmap N N) (e : ediff) : gmap N N :=
  if e_created e && e_spent e then m                     (* ephemeral *)
  else if e_spent e then delete (e_id e) m
  else <[e_id e := e_pay e]> m.

Definition apply_fc (s : store) (f : fdiff) : option store :=
  if f_created f && f_resolved f then Some s
  else if f_resolved f then
    delete_expiration (set_fce s (delete (f_id f) (fce s))) (f_id f) (f_we f)
  else match f_rev f with
       | Some (p', we') =>
           let s1 := set_fce s (<[f_id f := (p', we')]> (fce s)) in
           if we' =? f_we f then Some s1
           else match delete_expiration s1 (f_id f) (f_we f) with
                | Some s2 => Some (put_expiration s2 (f_id f) we' true)
                | None => None
                end
       | None =>
           Some (put_expiration (set_fce s (<[f_id f := (f_pay f, f_we f)]> (fce s)))
                                (f_id f) (f_we f) true)
       end.

Fixpoint apply_fcs (s : store) (l : list fdiff) : option store :=
  match l with
  | [] => Some s
  | f :: r => match apply_fc s f with Some s' => apply_fcs s' r | None => None end
  end.

Definition apply_elements (s : store) (d : diffs) : option store :=
  let s1 := set_sce s (fold_left apply_e (d_sc d) (sce s)) in
  let s2 := set_sfe s1 (fold_left apply_e (d_sf d) (sfe s1)) in
  apply_fcs s2 (d_fc d).

(** ** revertElements (db.go:708-766); [d] is the *revert* diff list (L1: [rev_diffs] of the
    apply list).  File contracts first, then siafund, then siacoin elements. *)
Definition revert_e (m : gmap N N) (e : ediff) : gmap N N :=
  if e_created e && e_spent e then m
  else if e_spent e then <[e_id e := e_pay e]> m        (* no longer spent: restore *)
  else delete (e_id e) m.                                (* no longer exists *)

Definition revert_fc (s : store) (f : fdiff) : option store :=
  if f_created f && f_resolved f then Some s
  else if f_resolved f then                              (* no longer resolved: restore *)
    Some (put_expiration (set_fce s (<[f_id f := (f_pay f, f_we f)]> (fce s)))
                         (f_id f) (f_we f) false)
  else match f_rev f with
       | Some (p', we') =>                               (* restore the prior revision *)
           let s1 := set_fce s (<[f_id f := (f_pay f, f_we f)]> (fce s)) in
           if we' =? f_we f then Some s1
           else match delete_expiration s1 (f_id f) we' with
                | Some s2 => Some (put_expiration s2 (f_id f) (f_we f) false)
                | None => None
                end
       | None =>                                         (* no longer exists *)
           delete_expiration (set_fce s (delete (f_id f) (fce s))) (f_id f) (f_we f)
       end.

Fixpoint revert_fcs (s : store) (l : list fdiff) : option store :=
  match l with
  | [] => Some s
  | f :: r => match revert_fc s f with Some s' => revert_fcs s' r | None => None end
  end.

Definition revert_elements (s : store) (d : diffs) : option store :=
  match revert_fcs s (d_fc d) with
  | None => None
  | Some s1 =>
      let s2 := set_sfe s1 (fold_left revert_e (d_sf d) (sfe s1)) in
      Some (set_sce s2 (fold_left revert_e (d_sc d) (sce s2)))
  end.

(** ** Blocks: ApplyBlock / RevertBlock (db.go:915-938) with the v2 require-height gates *)
Record blk := Blk { b_id : N; b_h : N; b_d : diffs }.

(** applyState (db.go:653-656) *)
Definition apply_state (s : store) (b : blk) : store :=
  St (sce s) (sfe s) (fce s) (expi s) (<[b_h b := b_id b]> (mainc s)) (b_h b).
(** revertState (db.go:658-661) with prev.Index.Height = b_h - 1 *)
Definition revert_state (s : store) (b : blk) : store :=
  St (sce s) (sfe s) (fce s) (expi s) (delete (b_h b) (mainc s)) (b_h b - 1).

(** [R] = HardforkV2.RequireHeight.  ApplyBlock touches the elements iff the block's height
    is <= R; RevertBlock iff the *parent's* height is <= R (so the block at R+1 is reverted
    although it was never applied). *)
Definition apply_block (R : N) (s : store) (b : blk) : option store :=
  let s1 := apply_state s b in
  if b_h b <=? R then apply_elements s1 (b_d b) else Some s1.
Definition revert_block (R : N) (s : store) (b : blk) : option store :=
  match (if b_h b - 1 <=? R then revert_elements s (rev_diffs (b_d b)) else Some s) with
  | Some s1 => Some (revert_state s1 b)
  | None => None
  end.

(** the store of a node that saw only chain [c] (lowest block first), linearly *)
Fixpoint linear_from (R : N) (s : store) (c : list blk) : option store :=
  match c with
  | [] => Some s
  | b :: r => match apply_block R s b with Some s' => linear_from R s' r | None => None end
  end.
Definition linear (R : N) (c : list blk) : option store := linear_from R empty_store c.

(** ** Histories: apply / revert steps as the manager issues them (applyTip / revertTip) *)
Inductive step := SApply (b : blk) | SRevert (b : blk).

Definition do_step (R : N) (s : store) (st : step) : option store :=
  match st with SApply b => apply_block R s b | SRevert b => revert_block R s b end.
Fixpoint run_from (R : N) (s : store) (h : list step) : option store :=
  match h with
  | [] => Some s
  | st :: r => match do_step R s st with Some s' => run_from R s' r | None => None end
  end.
Definition run (R : N) (h : list step) : option store := run_from R empty_store h.

(** stack discipline: a revert names the block on top of the chain.  The chain is kept tip
    first; [chain_of] returns it lowest block first. *)
Definition blk_eqb (a b : blk) : bool := (b_id a =? b_id b) && (b_h a =? b_h b).
Fixpoint stack_from (st : list blk) (h : list step) : option (list blk) :=
  match h with
  | [] => Some st
  | SApply b :: r => stack_from (b :: st) r
  | SRevert b :: r =>
      match st with
      | t :: st' => if blk_eqb t b then stack_from st' r else None
      | [] => None
      end
  end.
Definition chain_of (h : list step) : option (list blk) := @rev blk <$> stack_from [] h.

(** ** What the store serves from the element buckets *)
(** SupplementTipTransaction (db.go:774-817): the elements a v1 transaction names, those that
    are stored; nothing from the require height on. *)
Record probe := Probe { p_sc : list N; p_sf : list N; p_fc : list N }.
Definition lookups {A} (m : gmap N A) (ids : list N) : list (N * A) :=
  omap (λ i, (λ v, (i, v)) <$> m !! i) ids.
Definition supplement_txn (R : N) (s : store) (p : probe)
  : list (N * N) * list (N * N) * list (N * (N * N)) :=
  if R <=? hgt s then ([], [], [])
  else (lookups (sce s) (p_sc p), lookups (sfe s) (p_sf p), lookups (fce s) (p_fc p)).

(** SupplementTipBlock (db.go:820-848), the ExpiringFileContracts part: the contracts listed
    under the child height, in list order; [None] is the panic "missing FileContractElement". *)
Definition supplement_block (R : N) (s : store) : option (list (N * (N * N))) :=
  if R <=? hgt s + 1 then Some []
  else mapM (λ i, (λ v, (i, v)) <$> fce s !! i) (exp_get s (hgt s + 1)).

(** ** The element accumulator: which nodes getElementProof reads (db.go:531-548)
    The Tree bucket maps (row, col) to the hash of the leaves [col*2^row, (col+1)*2^row).
    A proof for [leaf] in an accumulator of [n] leaves has [bits.Len64(leaf xor n) - 1]
    entries, entry [i] being the sibling (i, (leaf >> i) xor 1); [None] is the panic
    "leafIndex exceeds accumulator size".  A node is *live* at size [n] when its leaves lie
    wholly inside the accumulator; revertElements never deletes nodes, so only live nodes are
    guaranteed current (db.go:760-765). *)
Definition proof_len (leaf n : N) : N := N.size (N.lxor leaf n) - 1.
Definition sibling (leaf i : N) : N := N.lxor (N.shiftr leaf i) 1.
Definition nrange (k : N) : list N := map N.of_nat (seq 0 (N.to_nat k)).
Definition get_proof_reads (leaf n : N) : option (list (N * N)) :=
  if n <=? leaf then None
  else Some (map (λ i, (i, sibling leaf i)) (nrange (proof_len leaf n))).
Definition live (n r c : N) : bool := (c + 1) * 2 ^ r <=? n.
