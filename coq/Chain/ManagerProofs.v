(** * Chain/ManagerProofs.v — proofs about the manager model (C01, C19).
    Everything is about [Chain/Manager.v] exactly as the harness validates it. *)
From Coq Require Import NArith ZArith List Lia ZifyBool ZifyNat ZifyN.
From stdpp Require Import gmap.
From CV Require Import Chain.Manager.
Import ListNotations.
Open Scope N_scope.

(** ** Well-formed universes *)
Record WF (U : universe) : Prop := {
  wf_gen : ∃ G, U !! genesis = Some G ∧ height G = 0;
  wf_par : ∀ b B, U !! b = Some B → b ≠ genesis →
             ∃ P, U !! parent B = Some P ∧ height B = height P + 1;
  wf_diff : ∀ b B, U !! b = Some B → (0 ≤ diff B)%Z;
}.

(** ** Store look-ups, characterised *)
Lemma has_state_true m b :
  has_state m b = true ↔ ∃ k, known m !! b = Some k ∧ is_Some (kst k).
Proof.
  unfold has_state. destruct (known m !! b) as [[[s|] bo su]|]; cbn; split; eauto;
    try done; intros (k & Hk & Hs); simplify_eq; cbn in Hs; by destruct Hs.
Qed.
Lemma has_supp_true m b :
  has_supp m b = true ↔ ∃ k, known m !! b = Some k ∧ kbody k = true ∧ ksupp k = true.
Proof.
  unfold has_supp. destruct (known m !! b) as [k|]; split.
  - intros [? ?]%andb_true_iff; eauto.
  - intros (k' & [= <-] & -> & ->); done.
  - done.
  - intros (k' & ? & _); done.
Qed.
Lemma has_body_true m b :
  has_body m b = true ↔ ∃ k, known m !! b = Some k ∧ kbody k = true.
Proof.
  unfold has_body. destruct (known m !! b) as [k|]; split; eauto.
  - intros (k' & [= <-] & ->); done.
  - done.
  - intros (k' & ? & _); done.
Qed.
Lemma has_hdr_true m b : has_hdr m b = true ↔ is_Some (known m !! b).
Proof. unfold has_hdr. destruct (known m !! b); split; eauto; try done. by intros [? ?]. Qed.

Lemma has_supp_body m b : has_supp m b = true → has_body m b = true.
Proof. rewrite has_supp_true, has_body_true. intros (k & ? & ? & ?); eauto. Qed.
Lemma has_body_hdr m b : has_body m b = true → has_hdr m b = true.
Proof. rewrite has_body_true, has_hdr_true. intros (k & ? & ?); eauto. Qed.
Lemma has_state_hdr m b : has_state m b = true → has_hdr m b = true.
Proof. rewrite has_state_true, has_hdr_true. intros (k & ? & ?); eauto. Qed.

(** the look-ups only read [known] *)
Lemma has_state_known m m' b : known m' = known m → has_state m' b = has_state m b.
Proof. unfold has_state. by intros ->. Qed.
Lemma has_supp_known m m' b : known m' = known m → has_supp m' b = has_supp m b.
Proof. unfold has_supp. by intros ->. Qed.
Lemma has_body_known m m' b : known m' = known m → has_body m' b = has_body m b.
Proof. unfold has_body. by intros ->. Qed.
Lemma has_hdr_known m m' b : known m' = known m → has_hdr m' b = has_hdr m b.
Proof. unfold has_hdr. by intros ->. Qed.

Section U.
  Context (U : universe).

  Definition ht (b : N) : N := match U !! b with Some B => height B | None => 0 end.
  Definition par (b : N) : N := match U !! b with Some B => parent B | None => 0 end.

  (** [lp l c]: [l] (tip first) is a parent-linked segment of non-genesis blocks of
      [U] hanging on [c]: the parent of each element is the next one, the parent of
      the last is [c]. *)
  Fixpoint lp (l : list N) (c : N) : Prop :=
    match l with
    | [] => True
    | x :: l' => x ≠ genesis ∧ is_Some (U !! x) ∧ par x = hd c l' ∧ lp l' c
    end.

  Lemma lp_app l1 l2 c : lp (l1 ++ l2) c ↔ lp l1 (hd c l2) ∧ lp l2 c.
  Proof.
    induction l1 as [|x l1 IH]; cbn [lp app]; [tauto|].
    rewrite IH. destruct l1; cbn [hd app]; tauto.
  Qed.

  Lemma lp_snoc l b c : lp (l ++ [b]) c ↔ lp l b ∧ b ≠ genesis ∧ is_Some (U !! b) ∧ par b = c.
  Proof. rewrite lp_app. cbn. tauto. Qed.

  (** two segments with the same head: the shorter is a prefix of the longer *)
  Lemma lp_prefix l1 : ∀ l2 c1 c2,
    lp l1 c1 → lp l2 c2 → hd c1 l1 = hd c2 l2 → (length l1 ≤ length l2)%nat →
    ∃ l3, l2 = l1 ++ l3 ∧ hd c2 l3 = c1.
  Proof.
    induction l1 as [|x l1 IH]; intros l2 c1 c2 H1 H2 Hh Hl.
    - exists l2. cbn in *. done.
    - destruct l2 as [|y l2]; [cbn in Hl; lia|].
      cbn in Hh. subst y. cbn [lp] in H1, H2.
      destruct H1 as (_ & _ & Hp1 & H1), H2 as (_ & _ & Hp2 & H2).
      destruct (IH l2 c1 c2 H1 H2) as (l3 & -> & Hc); [congruence|cbn in Hl; lia|].
      exists l3. done.
  Qed.


  (** the best chain: a parent-linked segment hanging on genesis, then genesis *)
  Definition chain (l : list N) : Prop := ∃ l0, l = l0 ++ [genesis] ∧ lp l0 genesis.

  (** validity of a block as the oracle sees it; genesis is valid by definition *)
  Definition valid (b : N) : Prop :=
    b = genesis ∨ ∃ B, U !! b = Some B ∧ hdr_ok B = true ∧ body_ok B = true.
  Definition hvalid (b : N) : Prop :=
    b = genesis ∨ ∃ B, U !! b = Some B ∧ hdr_ok B = true.

  (** ** The inductive invariant *)
  Record MInv (m : mgr) : Prop := {
    (* I1 *) I_chain : chain (best m);
    (* I2+I3 *) I_best : ∀ b, b ∈ best m →
       ∃ k, known m !! b = Some k ∧ kst k = Some SFull ∧ kbody k = ksupp k ∧ valid b;
    (* I4 *) I_supp : ∀ b k, known m !! b = Some k → ksupp k = true →
       kbody k = true ∧ kst k = Some SFull ∧ valid b;
    (* I5 *) I_known : ∀ b k, known m !! b = Some k →
       is_Some (U !! b) ∧ hvalid b ∧ is_Some (kst k) ∧
       (b ≠ genesis → has_state m (par b) = true);
    (* I6 *) I_full : ∀ b k, known m !! b = Some k → kst k = Some SFull →
       ksupp k = true ∨ (b ∈ best m ∧ kbody k = false);
  }.

  (** what a reorg may do to the store: validate (upgrade) stored bodies *)
  Definition upg (m m' : mgr) : Prop :=
    ∀ x, known m' !! x = known m !! x ∨
         (has_body m x = true ∧ has_supp m x = false ∧
          known m' !! x = Some (KI (Some SFull) true true)).

  (** the store only grows; records of the ids in [L] do not change at all *)
  Definition ext (L : list N) (m m' : mgr) : Prop :=
    ∀ b k, known m !! b = Some k →
      ∃ k', known m' !! b = Some k' ∧
        (kbody k = true → kbody k' = true) ∧ (ksupp k = true → ksupp k' = true) ∧
        (kst k = Some SFull → kst k' = Some SFull) ∧ (is_Some (kst k) → is_Some (kst k')) ∧
        (b ∈ L → k' = k).

  (** a state in the middle of a reorg away from [m] *)
  Definition Mid (m m' : mgr) : Prop :=
    ∃ pre pre0 suf, best m' = pre ++ suf ∧ best m = pre0 ++ suf ∧ suf ≠ [] ∧
      ∀ x, x ∈ pre ++ pre0 → has_supp m' x = true.


  (** documented precondition of AddValidatedV2Blocks, as far as the model needs it:
      the batch is a parent-linked chain of blocks of [U], each valid *)
  Fixpoint validated_pre (l : list N) : Prop :=
    match l with
    | [] => True
    | b :: l' =>
        (∃ B, U !! b = Some B ∧ hdr_ok B = true ∧ body_ok B = true) ∧
        match l' with [] => True | b' :: _ => par b' = b end ∧
        validated_pre l'
    end.
  Definition op_pre (o : mop) : Prop :=
    match o with AddValidated l => validated_pre l | _ => True end.


  Definition batch_of (o : mop) : list N :=
    match o with AddBlocks l | AddValidated l => l | Prune _ => [] end.
  Definition twof (b : N) : Z := match U !! b with Some B => tw B | None => 0%Z end.

  Section WithWF.
  Context (HWF : WF U).

  Lemma ht_genesis : ht genesis = 0.
  Proof. unfold ht. destruct (wf_gen U HWF) as (G & -> & ?). done. Qed.
  Lemma genesis_in : is_Some (U !! genesis).
  Proof. destruct (wf_gen U HWF) as (G & -> & ?). eauto. Qed.
  Lemma ht_par b : b ≠ genesis → is_Some (U !! b) → ht b = ht (par b) + 1 ∧ is_Some (U !! par b).
  Proof.
    intros Hg [B HB]. destruct (wf_par U HWF b B HB Hg) as (P & HP & Hh).
    unfold ht, par. rewrite HB, HP. eauto.
  Qed.
  Lemma ht_zero b : is_Some (U !! b) → ht b = 0 → b = genesis.
  Proof.
    intros HB H0. destruct (decide (b = genesis)) as [|Hg]; [done|].
    destruct (ht_par b Hg HB). lia.
  Qed.

  Lemma lp_ht l : ∀ c, lp l c → ht (hd c l) = ht c + N.of_nat (length l).
  Proof.
    induction l as [|x l IH]; intros c H; cbn [hd length].
    - lia.
    - cbn [lp] in H. destruct H as (Hg & HU & Hp & H).
      destruct (ht_par x Hg HU) as [Hx _]. rewrite Hx, Hp, (IH c H). lia.
  Qed.

  Lemma lp_ht_elem l : ∀ c x, lp l c → x ∈ l → ht c < ht x ≤ ht (hd c l).
  Proof.
    induction l as [|y l IH]; intros c x H Hx; [by apply elem_of_nil in Hx|].
    pose proof (lp_ht _ _ H) as Hy. cbn [hd length] in Hy.
    cbn [lp] in H. destruct H as (Hg & HU & Hp & H).
    destruct (ht_par y Hg HU) as [Hyp _]. cbn [hd].
    apply elem_of_cons in Hx as [->|Hx]; [lia|].
    specialize (IH c x H Hx). rewrite Hp in Hyp. lia.
  Qed.

  Lemma lp_NoDup l : ∀ c, lp l c → NoDup l.
  Proof.
    induction l as [|y l IH]; intros c H; [constructor|].
    pose proof H as H'. cbn [lp] in H. destruct H as (Hg & HU & Hp & H).
    constructor; [|eauto].
    intros Hin. pose proof (lp_ht_elem _ _ _ H Hin) as Hle.
    destruct (ht_par y Hg HU) as [Hyp _]. rewrite Hp in Hyp. lia.
  Qed.

  Lemma lp_not_c l c : lp l c → c ∉ l.
  Proof. intros H Hin. pose proof (lp_ht_elem _ _ _ H Hin). lia. Qed.


  Lemma ht_eq b B : U !! b = Some B → ht b = height B.
  Proof. unfold ht. by intros ->. Qed.
  Lemma par_eq b B : U !! b = Some B → par b = parent B.
  Proof. unfold par. by intros ->. Qed.

  (** ** [rpath]: what it returns, and when it succeeds *)
  Lemma rpath_sound m f : ∀ a b r p,
    rpath U m f a b = Some (r, p) →
    ∃ c, hd c r = a ∧ lp r c ∧ hd c (reverse p) = b ∧ lp (reverse p) c ∧
         (∀ x, x ∈ r → has_hdr m x = true) ∧ (∀ x, x ∈ p → has_hdr m x = true).
  Proof.
    induction f as [|f IH]; intros a b r p H; [done|].
    cbn [rpath] in H.
    destruct (N.eqb_spec a b) as [->|Hab].
    { injection H as <- <-. exists b. cbn. split_and!; try done; intros x Hx; by apply elem_of_nil in Hx. }
    destruct (U !! a) as [A|] eqn:HA; [|done].
    destruct (U !! b) as [B|] eqn:HB; [|done].
    pose proof (ht_eq _ _ HA) as HhA. pose proof (ht_eq _ _ HB) as HhB.
    pose proof ht_genesis as Hg0.
    destruct (N.ltb_spec (height B) (height A)).
    - destruct (has_hdr m a) eqn:Hha; [|done].
      destruct (rpath U m f (parent A) b) as [[r1 p1]|] eqn:E; [|done].
      injection H as <- <-.
      destruct (IH _ _ _ _ E) as (c & Hr & Hlr & Hp & Hlp & Hhr & Hhp).
      exists c. cbn [hd lp]. split_and!; try done; eauto.
      all: try (intros ->; lia).
      all: try (by rewrite (par_eq _ _ HA)).
      intros x [->|Hx]%elem_of_cons; eauto.
    - destruct (N.ltb_spec (height A) (height B)).
      + destruct (has_hdr m b) eqn:Hhb; [|done].
        destruct (rpath U m f a (parent B)) as [[r1 p1]|] eqn:E; [|done].
        injection H as <- <-.
        destruct (IH _ _ _ _ E) as (c & Hr & Hlr & Hp & Hlp & Hhr & Hhp).
        exists c. rewrite reverse_snoc. cbn [hd lp]. split_and!; try done; eauto.
        all: try (intros ->; lia).
        all: try (by rewrite (par_eq _ _ HB)).
        intros x [Hx| ->%elem_of_list_singleton]%elem_of_app; eauto.
      + destruct (has_hdr m a) eqn:Hha; [|done].
        destruct (has_hdr m b) eqn:Hhb; [|done]. cbn [andb] in H.
        destruct (rpath U m f (parent A) (parent B)) as [[r1 p1]|] eqn:E; [|done].
        injection H as <- <-.
        destruct (IH _ _ _ _ E) as (c & Hr & Hlr & Hp & Hlp & Hhr & Hhp).
        assert (a ≠ genesis ∧ b ≠ genesis) as [Hga Hgb].
        { split; intros ->.
          - apply Hab. symmetry. apply ht_zero; [eauto|lia].
          - apply Hab. apply ht_zero; [eauto|lia]. }
        exists c. rewrite reverse_snoc. cbn [hd lp]. split_and!; try done; eauto.
        all: try (by rewrite (par_eq _ _ HA)).
        all: try (by rewrite (par_eq _ _ HB)).
        * intros x [->|Hx]%elem_of_cons; eauto.
        * intros x [Hx| ->%elem_of_list_singleton]%elem_of_app; eauto.
  Qed.

  Lemma rpath_complete m f : ∀ a b r p c,
    hd c r = a → lp r c → hd c p = b → lp p c →
    (∀ x, x ∈ r → has_hdr m x = true) → (∀ x, x ∈ p → has_hdr m x = true) →
    is_Some (U !! c) →
    (length r + length p < f)%nat →
    ∃ r' p', rpath U m f a b = Some (r', p') ∧
             (length r' ≤ length r)%nat ∧ (length p' ≤ length p)%nat.
  Proof.
    induction f as [|f IH]; intros a b r p c Ha Hlr Hb Hlp Hhr Hhp Hc Hf; [lia|].
    cbn [rpath].
    destruct (N.eqb_spec a b) as [->|Hab].
    { exists [], []. split; [done|]. cbn. lia. }
    pose proof (lp_ht _ _ Hlr) as Hhta. pose proof (lp_ht _ _ Hlp) as Hhtb.
    rewrite Ha in Hhta. rewrite Hb in Hhtb.
    assert (is_Some (U !! a)) as [A HA].
    { destruct r as [|x r]; cbn in Ha; subst; [done|]. cbn in Hlr. tauto. }
    assert (is_Some (U !! b)) as [B HB].
    { destruct p as [|x p]; cbn in Hb; subst; [done|]. cbn in Hlp. tauto. }
    rewrite HA, HB.
    pose proof (ht_eq _ _ HA) as HhA. pose proof (ht_eq _ _ HB) as HhB.
    destruct (N.ltb_spec (height B) (height A)).
    - destruct r as [|x r]; [cbn in Hhta; lia|]. cbn in Ha. subst x.
      rewrite Hhr by (apply elem_of_cons; auto).
      cbn [lp] in Hlr. destruct Hlr as (_ & _ & Hp & Hlr). rewrite (par_eq _ _ HA) in Hp.
      destruct (IH (parent A) b r p c) as (r' & p' & -> & ? & ?); try done.
      { intros x Hx. apply Hhr, elem_of_cons; auto. }
      { cbn in Hf. lia. }
      eexists _, _. split; [done|]. cbn. lia.
    - destruct (N.ltb_spec (height A) (height B)).
      + destruct p as [|x p]; [cbn in Hhtb; lia|]. cbn in Hb. subst x.
        rewrite Hhp by (apply elem_of_cons; auto).
        cbn [lp] in Hlp. destruct Hlp as (_ & _ & Hp & Hlp). rewrite (par_eq _ _ HB) in Hp.
        destruct (IH a (parent B) r p c) as (r' & p' & -> & ? & ?); try done.
        { intros x Hx. apply Hhp, elem_of_cons; auto. }
        { cbn in Hf. lia. }
        eexists _, _. split; [done|]. rewrite app_length. cbn. lia.
      + destruct r as [|x r].
        { destruct p as [|y p]; [cbn in Ha, Hb; congruence|cbn in Hhta, Hhtb; lia]. }
        destruct p as [|y p]; [cbn in Hhta, Hhtb; lia|].
        cbn in Ha, Hb. subst x y.
        rewrite Hhr by (apply elem_of_cons; auto).
        rewrite Hhp by (apply elem_of_cons; auto). cbn [andb].
        cbn [lp] in Hlr, Hlp.
        destruct Hlr as (_ & _ & Hpa & Hlr). rewrite (par_eq _ _ HA) in Hpa.
        destruct Hlp as (_ & _ & Hpb & Hlp). rewrite (par_eq _ _ HB) in Hpb.
        destruct (IH (parent A) (parent B) r p c) as (r' & p' & -> & ? & ?); try done.
        { intros x Hx. apply Hhr, elem_of_cons; auto. }
        { intros x Hx. apply Hhp, elem_of_cons; auto. }
        { cbn in Hf. lia. }
        eexists _, _. split; [done|]. rewrite app_length. cbn. lia.
  Qed.


  (** ** Chains *)
  Lemma hd_app_cons {A} (l : list A) c r d : hd d (l ++ c :: r) = hd c l.
  Proof. by destruct l. Qed.

  Lemma elem_of_take_in {A} (x : A) n l : x ∈ take n l → x ∈ l.
  Proof. intros H. rewrite <- (take_drop n l). apply elem_of_app. auto. Qed.
  Lemma elem_of_drop_in {A} (x : A) n l : x ∈ drop n l → x ∈ l.
  Proof. intros H. rewrite <- (take_drop n l). apply elem_of_app. auto. Qed.

  Lemma prefix_elem {A} (l1 l2 l3 l4 : list A) x :
    l1 ++ l2 = l3 ++ l4 → (length l3 ≤ length l1)%nat → x ∈ l3 → x ∈ l1.
  Proof.
    intros He Hl Hx.
    assert (l3 = take (length l3) l1) as Heq.
    { rewrite <- (take_app_le l1 l2) by done. rewrite He. by rewrite take_app. }
    rewrite Heq in Hx. eapply elem_of_take_in; eauto.
  Qed.

  Lemma chain_nonempty l : chain l → l ≠ [].
  Proof. intros (l0 & -> & _). by destruct l0. Qed.

  Lemma chain_genesis : chain [genesis].
  Proof. exists []. done. Qed.

  Lemma chain_cons b l :
    chain l → b ≠ genesis → is_Some (U !! b) → par b = hd genesis l → chain (b :: l).
  Proof.
    intros (l0 & -> & Hl) Hg HU Hp. exists (b :: l0). split; [done|].
    cbn [lp]. split_and!; try done. rewrite Hp. by destruct l0.
  Qed.

  (** a chain that has [c] somewhere: the part above hangs on [c], the rest is a chain *)
  Lemma chain_split_at r c rest :
    chain (r ++ c :: rest) → lp r c ∧ chain (c :: rest).
  Proof.
    intros (l0 & He & Hl).
    destruct rest as [|g rest1 _] using rev_ind.
    - apply app_inj_tail in He as [-> ->]. split; [done|apply chain_genesis].
    - change (c :: rest1 ++ [g]) with ((c :: rest1) ++ [g]) in *.
      rewrite app_assoc in He. apply app_inj_tail in He as [<- ->].
      apply lp_app in Hl as [H1 H2]. split; [done|]. by exists (c :: rest1).
  Qed.

  Lemma chain_tail b l : chain (b :: l) → l ≠ [] → chain l ∧ b ≠ genesis ∧ is_Some (U !! b) ∧ par b = hd genesis l.
  Proof.
    intros (l0 & He & Hl) Hne. destruct l0 as [|x l0]; cbn in He.
    - simplify_eq.
    - simplify_eq. cbn [lp] in Hl. destruct Hl as (? & ? & Hp & ?).
      split_and!; try done; [by exists l0|]. rewrite Hp. by destruct l0.
  Qed.

  Lemma chain_ht l : chain l → ht (hd genesis l) + 1 = N.of_nat (length l).
  Proof.
    intros (l0 & -> & Hl). pose proof (lp_ht _ _ Hl) as H. rewrite ht_genesis in H.
    rewrite app_length. cbn [length]. rewrite (hd_app_cons l0 genesis [] genesis). lia.
  Qed.

  (** the segment above a block of the chain *)
  Lemma chain_split l r c :
    chain l → hd c r = hd genesis l → lp r c → ∃ rest, l = r ++ c :: rest.
  Proof.
    intros Hc Hh Hr. pose proof (chain_ht _ Hc) as Hht.
    destruct Hc as (l0 & -> & Hl).
    rewrite (hd_app_cons l0 genesis [] genesis) in Hh, Hht.
    pose proof (lp_ht _ _ Hr) as H1. pose proof (lp_ht _ _ Hl) as H2.
    rewrite ht_genesis in H2. rewrite app_length in Hht. cbn [length] in Hht.
    rewrite Hh in H1.
    destruct (lp_prefix r l0 c genesis Hr Hl Hh) as (l3 & -> & Hc); [lia|].
    destruct l3 as [|y l3]; cbn in Hc; subst.
    - exists []. by rewrite app_nil_r.
    - exists (l3 ++ [genesis]). by rewrite <- app_assoc.
  Qed.

  Lemma chain_det l1 l2 : chain l1 → chain l2 → hd genesis l1 = hd genesis l2 → l1 = l2.
  Proof.
    intros H1 H2 Hh.
    pose proof (chain_ht _ H1) as Hh1. pose proof (chain_ht _ H2) as Hh2.
    destruct H1 as (a1 & -> & Hl1), H2 as (a2 & -> & Hl2).
    rewrite !(hd_app_cons _ genesis [] genesis) in *.
    rewrite !app_length in *. cbn [length] in *.
    rewrite Hh in Hh1.
    destruct (lp_prefix a1 a2 genesis genesis Hl1 Hl2 Hh) as (l3 & -> & _); [lia|].
    rewrite app_length in Hh2. destruct l3; [by rewrite app_nil_r|cbn in *; lia].
  Qed.

  Lemma chain_NoDup l : chain l → NoDup l.
  Proof.
    intros (l0 & -> & Hl). apply NoDup_app. split_and!.
    - eapply lp_NoDup; eauto.
    - intros x Hx ->%elem_of_list_singleton. by apply (lp_not_c _ _ Hl).
    - apply NoDup_singleton.
  Qed.

  Lemma chain_elem_U l x : chain l → x ∈ l → is_Some (U !! x).
  Proof.
    intros (l0 & -> & Hl) [Hx| ->%elem_of_list_singleton]%elem_of_app; [|apply genesis_in].
    induction l0 as [|y l0 IH]; [by apply elem_of_nil in Hx|].
    cbn [lp] in Hl. destruct Hl as (? & ? & ? & ?).
    apply elem_of_cons in Hx as [->|Hx]; eauto.
  Qed.

  Lemma len_le_size (m : mgr) l :
    NoDup l → (∀ x, x ∈ l → has_hdr m x = true) → (length l ≤ size (known m))%nat.
  Proof.
    intros Hnd Hin. rewrite <- (size_dom (D:=gset N)).
    rewrite <- (size_list_to_set (C:=gset N) l Hnd).
    apply subseteq_size. intros x Hx%elem_of_list_to_set.
    apply elem_of_dom. apply has_hdr_true. auto.
  Qed.


  (** ** [upg] and [ext] *)
  Lemma upg_refl m m' : known m' = known m → upg m m'.
  Proof. intros He x. left. by rewrite He. Qed.

  Lemma upg_trans m1 m2 m3 : upg m1 m2 → upg m2 m3 → upg m1 m3.
  Proof.
    intros H12 H23 x.
    destruct (H12 x) as [E1|(Hb & Hs & E1)], (H23 x) as [E2|(Hb2 & Hs2 & E2)].
    - left. congruence.
    - right. unfold has_body, has_supp in *. rewrite E1 in *. done.
    - right. split_and!; try done. congruence.
    - exfalso. unfold has_supp in Hs2. rewrite E1 in Hs2. done.
  Qed.

  Lemma upg_hdr m m' x : upg m m' → has_hdr m' x = has_hdr m x.
  Proof.
    intros H. destruct (H x) as [E|(Hb & Hs & E)]; unfold has_hdr, has_body in *; rewrite E; [done|].
    by destruct (known m !! x).
  Qed.
  Lemma upg_body m m' x : upg m m' → has_body m' x = has_body m x.
  Proof.
    intros H. destruct (H x) as [E|(Hb & Hs & E)]; unfold has_body in *; rewrite E; [done|].
    by rewrite Hb.
  Qed.
  Lemma upg_supp m m' x : upg m m' → has_supp m x = true → has_supp m' x = true.
  Proof.
    intros H. destruct (H x) as [E|(Hb & Hs & E)]; unfold has_supp in *; rewrite E; done.
  Qed.
  Lemma upg_state m m' x : upg m m' → has_state m x = true → has_state m' x = true.
  Proof.
    intros H. destruct (H x) as [E|(Hb & Hs & E)]; unfold has_state in *; rewrite E; done.
  Qed.

  Lemma ext_refl L m m' : known m' = known m → ext L m m'.
  Proof. intros He b k Hk. exists k. rewrite He. done. Qed.

  Lemma ext_trans L m1 m2 m3 : ext L m1 m2 → ext L m2 m3 → ext L m1 m3.
  Proof.
    intros H12 H23 b k Hk.
    destruct (H12 b k Hk) as (k2 & Hk2 & ? & ? & ? & ? & ?).
    destruct (H23 b k2 Hk2) as (k3 & Hk3 & ? & ? & ? & ? & ?).
    exists k3. split_and!; auto. intros HL. transitivity k2; auto.
  Qed.

  Lemma upg_ext m m' : MInv m → upg m m' → ext (best m) m m'.
  Proof.
    intros HI H b k Hk. destruct (H b) as [E|(Hb & Hs & E)].
    - exists k. rewrite E. done.
    - eexists. split; [exact E|]. cbn. split_and!; try done; eauto.
      intros Hin. exfalso.
      destruct (I_best m HI b Hin) as (k' & Hk' & _ & Hbs & _).
      unfold has_body, has_supp in *. rewrite Hk' in *. rewrite Hb in *. by rewrite <- Hbs in Hs.
  Qed.

  Lemma ins_state m b s bo su l x :
    has_state m x = true →
    has_state (Mgr (<[b := KI (Some s) bo su]> (known m)) l) x = true.
  Proof.
    unfold has_state. cbn. destruct (decide (x = b)) as [->|Hne].
    - by rewrite lookup_insert.
    - by rewrite lookup_insert_ne.
  Qed.

  (** ** One revert, one apply *)
  Lemma MInv_revert m t rest :
    MInv m → best m = t :: rest → rest ≠ [] → has_supp m t = true →
    MInv (Mgr (known m) rest).
  Proof.
    intros HI Hb Hne Hs. pose proof (I_chain m HI) as Hc. rewrite Hb in Hc.
    destruct (chain_tail _ _ Hc Hne) as (Hc' & _).
    split; cbn [known best].
    - done.
    - intros b Hin. apply (I_best m HI). rewrite Hb. by apply elem_of_cons; right.
    - apply (I_supp m HI).
    - apply (I_known m HI).
    - intros b k Hk Hf. destruct (I_full m HI b k Hk Hf) as [?|[Hin ?]]; [by left|].
      rewrite Hb in Hin. apply elem_of_cons in Hin as [->|Hin]; [|by right].
      left. apply has_supp_true in Hs as (k' & Hk' & _ & ?). congruence.
  Qed.

  Lemma MInv_push m b :
    MInv m → b ≠ genesis → is_Some (U !! b) → par b = tip m → has_supp m b = true →
    MInv (Mgr (known m) (b :: best m)).
  Proof.
    intros HI Hg HU Hp Hs. split; cbn [known best].
    - apply chain_cons; try done. apply (I_chain m HI).
    - intros x [->|Hin]%elem_of_cons; [|by apply (I_best m HI)].
      apply has_supp_true in Hs as (k & Hk & Hb & Hsu).
      destruct (I_supp m HI b k Hk Hsu) as (_ & ? & ?).
      exists k. split_and!; try done. congruence.
    - apply (I_supp m HI).
    - apply (I_known m HI).
    - intros x k Hk Hf. destruct (I_full m HI x k Hk Hf) as [?|[Hin ?]]; [by left|].
      right. split; [|done]. by apply elem_of_cons; right.
  Qed.

  Lemma MInv_push_ins m b B :
    MInv m → b ≠ genesis → U !! b = Some B → par b = tip m →
    has_body m b = true → body_ok B = true →
    MInv (Mgr (<[b := KI (Some SFull) true true]> (known m)) (b :: best m)).
  Proof.
    intros HI Hg HU Hp Hb Hok.
    apply has_body_true in Hb as (k0 & Hk0 & _).
    destruct (I_known m HI b k0 Hk0) as (_ & Hhv & _ & Hps).
    assert (valid b) as Hv.
    { right. destruct Hhv as [?|(B' & HB' & ?)]; [done|]. exists B. split; [done|].
      split; [congruence|done]. }
    split; cbn [known best].
    - apply chain_cons; eauto. apply (I_chain m HI).
    - intros x Hin. destruct (decide (x = b)) as [->|Hne].
      + rewrite lookup_insert. eexists. split; [done|]. cbn. done.
      + rewrite lookup_insert_ne by done. apply (I_best m HI).
        apply elem_of_cons in Hin as [?|?]; done.
    - intros x k. destruct (decide (x = b)) as [->|Hne].
      + rewrite lookup_insert. intros [= <-] _. done.
      + rewrite lookup_insert_ne by done. apply (I_supp m HI).
    - intros x k. destruct (decide (x = b)) as [->|Hne].
      + rewrite lookup_insert. intros [= <-]. cbn. split_and!; eauto.
        intros _. apply ins_state. auto.
      + rewrite lookup_insert_ne by done. intros Hk.
        destruct (I_known m HI x k Hk) as (? & ? & ? & Hx). split_and!; try done.
        intros ?. apply ins_state. auto.
    - intros x k. destruct (decide (x = b)) as [->|Hne].
      + rewrite lookup_insert. intros [= <-] _. by left.
      + rewrite lookup_insert_ne by done. intros Hk Hf.
        destruct (I_full m HI x k Hk Hf) as [?|[Hin ?]]; [by left|].
        right. split; [|done]. by apply elem_of_cons; right.
  Qed.

  Lemma revert_tip_spec m :
    MInv m →
    match revert_tip U m with
    | (m', Ok) => ∃ t rest, best m = t :: rest ∧ m' = Mgr (known m) rest ∧
                    has_supp m t = true ∧ has_state m (par t) = true
    | (m', Err) => m' = m
    | (_, Panic) => False
    end.
  Proof.
    intros HI. unfold revert_tip.
    destruct (best m) as [|t rest] eqn:Hb.
    { pose proof (I_chain m HI) as Hc. rewrite Hb in Hc. by apply chain_nonempty in Hc. }
    assert (t ∈ best m) as Hin by (rewrite Hb; apply elem_of_cons; auto).
    destruct (I_best m HI t Hin) as (k & Hk & _ & Hbs & _).
    destruct (I_known m HI t k Hk) as ([T HT] & _).
    rewrite HT. destruct (has_body m t) eqn:Hbo; cbn [andb]; [|done].
    destruct (has_state m (parent T)) eqn:Hps; [|done].
    assert (has_supp m t = true) as Hs.
    { unfold has_body, has_supp in *. rewrite Hk in *. rewrite Hbo in *. by rewrite <- Hbs. }
    rewrite Hs. exists t, rest. rewrite (par_eq _ _ HT). done.
  Qed.

  Lemma apply_tip_spec m b :
    MInv m → b ≠ genesis → is_Some (U !! b) → par b = tip m →
    match apply_tip U m b with
    | (m', Ok) => MInv m' ∧ best m' = b :: best m ∧ has_supp m' b = true ∧ upg m m'
    | (m', Err) => m' = m
    | (_, Panic) => False
    end.
  Proof.
    intros HI Hg [B HB] Hp. unfold apply_tip. rewrite HB.
    destruct (has_body m b) eqn:Hbo; cbn [negb]; [|done].
    rewrite <- (par_eq _ _ HB), Hp, N.eqb_refl. cbn [negb].
    destruct (has_supp m b) eqn:Hs.
    - split_and!; [apply MInv_push; eauto|done| |by apply upg_refl].
      by rewrite (has_supp_known m).
    - destruct (body_ok B) eqn:Hok; [|done].
      split_and!; [eapply MInv_push_ins; eauto|done| |].
      + unfold has_supp. cbn. by rewrite lookup_insert.
      + intros x. cbn. destruct (decide (x = b)) as [->|Hne].
        * right. by rewrite lookup_insert.
        * left. by rewrite lookup_insert_ne.
  Qed.


  Lemma mgr_eta m : Mgr (known m) (best m) = m.
  Proof. by destruct m. Qed.

  (** ** Sequences of reverts and applies *)
  Lemma do_reverts_ok n : ∀ m,
    (n ≤ length (best m))%nat →
    (∀ x, x ∈ take n (best m) →
       is_Some (U !! x) ∧ has_supp m x = true ∧ has_state m (par x) = true) →
    do_reverts U m n = (Mgr (known m) (drop n (best m)), Ok).
  Proof.
    induction n as [|n IH]; intros m Hn H.
    - cbn. by rewrite mgr_eta.
    - cbn [do_reverts]. unfold revert_tip.
      destruct (best m) as [|t rest] eqn:Hb; [cbn in Hn; lia|].
      destruct (H t) as ([T HT] & Hs & Hp). { cbn. apply elem_of_cons; auto. }
      rewrite HT, (has_supp_body _ _ Hs), <- (par_eq _ _ HT), Hp. cbn [andb]. rewrite Hs.
      rewrite IH; cbn [known best drop]; [done|cbn in Hn; lia|].
      intros x Hx. rewrite (has_supp_known m), (has_state_known m) by done.
      apply H. cbn. apply elem_of_cons; auto.
  Qed.

  Lemma do_reverts_spec n : ∀ m,
    MInv m → (n < length (best m))%nat →
    ∃ i, (i ≤ n)%nat ∧ MInv (Mgr (known m) (drop i (best m))) ∧
      (∀ x, x ∈ take i (best m) → has_supp m x = true) ∧
      ((i = n ∧ do_reverts U m n = (Mgr (known m) (drop i (best m)), Ok)) ∨
       ((i < n)%nat ∧ do_reverts U m n = (Mgr (known m) (drop i (best m)), Err))).
  Proof.
    induction n as [|n IH]; intros m HI Hn.
    - exists 0%nat. rewrite drop_0, mgr_eta. split_and!; try done.
      + intros x Hx. by apply elem_of_nil in Hx.
      + left. done.
    - cbn [do_reverts]. pose proof (revert_tip_spec m HI) as Hr.
      destruct (revert_tip U m) as [m1 [| |]].
      + destruct Hr as (t & rest & Hb & -> & Hs & Hp).
        rewrite Hb in Hn. cbn [length] in Hn.
        assert (rest ≠ []) as Hne by (destruct rest; [cbn in Hn; lia|done]).
        pose proof (MInv_revert m t rest HI Hb Hne Hs) as HI1.
        destruct (IH _ HI1) as (i & Hi & HIi & Hsi & Hres); [cbn; lia|].
        cbn [known best] in *.
        exists (S i). rewrite Hb. cbn [drop take]. split_and!; try done; [lia| |].
        * intros x [->|Hx]%elem_of_cons; [done|exact (Hsi x Hx)].
        * destruct Hres as [[-> E]|[Hlt E]]; [left|right]; (split; [lia|done]).
      + subst m1. exists 0%nat. rewrite drop_0, mgr_eta. split_and!; try done; [lia| |].
        * intros x Hx. by apply elem_of_nil in Hx.
        * right. split; [lia|done].
      + done.
  Qed.

  Lemma do_applies_ok app : ∀ m,
    lp (reverse app) (tip m) → (∀ x, x ∈ app → has_supp m x = true) →
    do_applies U m app = (Mgr (known m) (reverse app ++ best m), Ok).
  Proof.
    induction app as [|b app IH]; intros m Hl Hs.
    - cbn. by rewrite mgr_eta.
    - rewrite reverse_cons in Hl. apply lp_snoc in Hl as (Hl & Hg & [B HB] & Hp).
      cbn [do_applies]. unfold apply_tip. rewrite HB.
      assert (has_supp m b = true) as Hsb by (apply Hs, elem_of_cons; auto).
      rewrite (has_supp_body _ _ Hsb). cbn [negb].
      rewrite <- (par_eq _ _ HB), Hp, N.eqb_refl. cbn [negb]. rewrite Hsb.
      rewrite IH; cbn [known best tip hd].
      + by rewrite reverse_cons, <- app_assoc.
      + done.
      + intros x Hx. rewrite (has_supp_known m) by done. apply Hs, elem_of_cons; auto.
  Qed.

  Lemma do_applies_spec app : ∀ m,
    MInv m → lp (reverse app) (tip m) →
    ∃ j m', (j ≤ length app)%nat ∧ MInv m' ∧
      best m' = reverse (take j app) ++ best m ∧ upg m m' ∧
      (∀ x, x ∈ take j app → has_supp m' x = true) ∧
      ((j = length app ∧ do_applies U m app = (m', Ok)) ∨
       ((j < length app)%nat ∧ do_applies U m app = (m', Err))).
  Proof.
    induction app as [|b app IH]; intros m HI Hl.
    - exists 0%nat, m. cbn. split_and!; try done; [by apply upg_refl| |by left].
      intros x Hx. by apply elem_of_nil in Hx.
    - rewrite reverse_cons in Hl. apply lp_snoc in Hl as (Hl & Hg & HB & Hp).
      cbn [do_applies]. pose proof (apply_tip_spec m b HI Hg HB Hp) as Ha.
      destruct (apply_tip U m b) as [m1 [| |]].
      + destruct Ha as (HI1 & Hb1 & Hs1 & Hu1).
        destruct (IH m1 HI1) as (j & m' & Hj & HI' & Hb' & Hu' & Hs' & Hres).
        { unfold tip. rewrite Hb1. done. }
        exists (S j), m'. cbn [take length]. split_and!; try done; [lia| | | |].
        * rewrite Hb', Hb1, reverse_cons, <- app_assoc. done.
        * eapply upg_trans; eauto.
        * intros x [->|Hx]%elem_of_cons; [|auto]. eapply upg_supp; eauto.
        * destruct Hres as [[-> E]|[Hlt E]]; [left|right]; (split; [lia|done]).
      + subst m1. exists 0%nat, m. cbn [take length]. split_and!; try done; [lia|by apply upg_refl| |].
        * intros x Hx. by apply elem_of_nil in Hx.
        * right. split; [lia|done].
      + done.
  Qed.

  (** ** [reorg_to] *)
  Lemma Mid_refl m : MInv m → Mid m m.
  Proof.
    intros HI. exists [], [], (best m). split_and!; try done.
    - apply chain_nonempty, (I_chain m HI).
    - intros x Hx. by apply elem_of_nil in Hx.
  Qed.

  Lemma reorg_to_spec m target :
    MInv m →
    match reorg_to U m target with
    | (m', Ok) => MInv m' ∧ upg m m' ∧ tip m' = target
    | (m', Err) => MInv m' ∧ upg m m' ∧ Mid m m'
    | (_, Panic) => False
    end.
  Proof.
    intros HI. unfold reorg_to.
    destruct (rpath U m (fuel_of m) (tip m) target) as [[rv app]|] eqn:E.
    2:{ split_and!; [done|by apply upg_refl|by apply Mid_refl]. }
    destruct (rpath_sound _ _ _ _ _ _ E) as (c & Hr & Hlr & Hp & Hlp & _ & _).
    destruct (chain_split (best m) rv c (I_chain m HI) Hr Hlr) as (rest & Hb).
    destruct (do_reverts_spec (length rv) m HI) as (i & Hi & HI1 & Hs1 & Hres).
    { rewrite Hb, app_length. cbn. lia. }
    destruct Hres as [[-> E1]|[Hlt E1]]; rewrite E1.
    2:{ split_and!; [done|by apply upg_refl|].
        exists [], (take i (best m)), (drop i (best m)). cbn [best].
        split_and!; try done.
        - by rewrite take_drop.
        - intros Hd. apply (f_equal length) in Hd. rewrite drop_length, Hb, app_length in Hd.
          cbn in Hd. lia. }
    rewrite Hb, drop_app in HI1. rewrite Hb, drop_app. rewrite Hb, take_app in Hs1.
    set (m1 := Mgr (known m) (c :: rest)) in *.
    destruct (do_applies_spec app m1 HI1) as (j & m2 & Hj & HI2 & Hb2 & Hu2 & Hs2 & Hres); [done|].
    assert (upg m m2) as Hu by (eapply upg_trans; [apply (upg_refl m m1)|]; done).
    destruct Hres as [[-> E2]|[Hlt E2]]; rewrite E2.
    - split_and!; try done. unfold tip. rewrite Hb2, take_ge by done. cbn [best m1].
      rewrite hd_app_cons. done.
    - split_and!; try done.
      exists (reverse (take j app)), rv, (c :: rest). split_and!; try done.
      intros x [Hx|Hx]%elem_of_app.
      + apply Hs2. by apply elem_of_reverse.
      + eapply upg_supp; eauto.
  Qed.


  Lemma lp_elem l : ∀ c x, lp l c → x ∈ l → x ≠ genesis ∧ is_Some (U !! x).
  Proof.
    induction l as [|y l IH]; intros c x H Hx; [by apply elem_of_nil in Hx|].
    cbn [lp] in H. destruct H as (? & ? & ? & ?).
    apply elem_of_cons in Hx as [->|Hx]; eauto.
  Qed.

  (** ** The crux: a failed reorg can always be undone, exactly *)
  Lemma rollback_exact m m' :
    MInv m → MInv m' → Mid m m' →
    reorg_to U m' (tip m) = (Mgr (known m') (best m), Ok).
  Proof.
    intros HI HI' (pre & pre0 & suf & Hb' & Hb & Hne & Hs).
    destruct suf as [|c rest]; [done|].
    pose proof (I_chain m HI) as Hc. pose proof (I_chain m' HI') as Hc'.
    rewrite Hb in Hc. rewrite Hb' in Hc'.
    destruct (chain_split_at _ _ _ Hc) as [Hl0 Hcs].
    destruct (chain_split_at _ _ _ Hc') as [Hl _].
    assert (is_Some (U !! c)) as HUc.
    { eapply chain_elem_U; [exact Hcs|]. apply elem_of_cons; auto. }
    assert (hd c pre = tip m') as Ht' by (unfold tip; rewrite Hb'; symmetry; apply hd_app_cons).
    assert (hd c pre0 = tip m) as Ht by (unfold tip; rewrite Hb; symmetry; apply hd_app_cons).
    assert (∀ x, x ∈ pre → has_hdr m' x = true) as Hh1.
    { intros x Hx. apply has_body_hdr, has_supp_body, Hs, elem_of_app; auto. }
    assert (∀ x, x ∈ pre0 → has_hdr m' x = true) as Hh0.
    { intros x Hx. apply has_body_hdr, has_supp_body, Hs, elem_of_app; auto. }
    destruct (rpath_complete m' (fuel_of m') (tip m') (tip m) pre pre0 c)
      as (r' & p' & E & Hlr & Hlp); try done.
    { unfold fuel_of.
      pose proof (len_le_size m' pre (lp_NoDup _ _ Hl) Hh1).
      pose proof (len_le_size m' pre0 (lp_NoDup _ _ Hl0) Hh0). lia. }
    unfold reorg_to. rewrite E.
    destruct (rpath_sound _ _ _ _ _ _ E) as (c2 & Hr2 & Hlr2 & Hp2 & Hlp2 & _ & _).
    destruct (chain_split (best m') r' c2 (I_chain m' HI') Hr2 Hlr2) as (rest2 & Hb2).
    destruct (chain_split (best m) (reverse p') c2 (I_chain m HI) Hp2 Hlp2) as (rest0 & Hb0).
    assert (∀ x, x ∈ r' → x ∈ pre) as Hsub.
    { intros x Hx. eapply prefix_elem; [|exact Hlr|exact Hx]. rewrite <- Hb', Hb2. done. }
    assert (∀ x, x ∈ p' → x ∈ pre0) as Hsub0.
    { intros x Hx. eapply (prefix_elem pre0 _ (reverse p')).
      - rewrite <- Hb, Hb0. done.
      - by rewrite reverse_length.
      - by apply elem_of_reverse. }
    rewrite do_reverts_ok.
    - rewrite Hb2, drop_app. rewrite do_applies_ok; cbn [known best tip hd]; [|done|].
      + do 2 f_equal. rewrite Hb0. f_equal.
        pose proof (I_chain m' HI') as Hc2. rewrite Hb2 in Hc2.
        pose proof (I_chain m HI) as Hc0. rewrite Hb0 in Hc0.
        apply chain_det; [apply (chain_split_at _ _ _ Hc2)|apply (chain_split_at _ _ _ Hc0)|done].
      + intros x Hx. rewrite (has_supp_known m') by done. apply Hs, elem_of_app. auto.
    - rewrite Hb2, app_length. lia.
    - intros x Hx. rewrite Hb2, take_app in Hx.
      destruct (lp_elem _ _ _ Hlr2 Hx) as [Hg HUx].
      assert (has_supp m' x = true) as Hsx by (apply Hs, elem_of_app; auto).
      split_and!; try done.
      apply has_supp_true in Hsx as (k & Hk & _).
      by apply (I_known m' HI' x k Hk).
  Qed.


  (** ** The reorg tail *)
  Lemma maybe_reorg_spec m cs :
    MInv m →
    match maybe_reorg U m cs with
    | (m', Ok, nt) => MInv m' ∧ upg m m' ∧
        ((nt = true ∧ heavier U cs (tip m) = true ∧ tip m' = cs) ∨
         (nt = false ∧ heavier U cs (tip m) = false ∧ m' = m))
    | (m', Err, nt) => nt = false ∧ MInv m' ∧ upg m m' ∧ best m' = best m ∧
        heavier U cs (tip m) = true
    | (_, Panic, _) => False
    end.
  Proof.
    intros HI. unfold maybe_reorg. destruct (heavier U cs (tip m)) eqn:Hh.
    2:{ split_and!; [done|by apply upg_refl|]. right. done. }
    pose proof (reorg_to_spec m cs HI) as H1.
    destruct (reorg_to U m cs) as [m1 [| |]].
    - destruct H1 as (HI1 & Hu1 & Ht). split_and!; try done. by left.
    - destruct H1 as (HI1 & Hu1 & Hmid).
      pose proof (reorg_to_spec m1 (tip m) HI1) as H2.
      rewrite (rollback_exact m m1 HI HI1 Hmid) in *.
      destruct H2 as (HI2 & _). split_and!; try done.
    - done.
  Qed.

  (** ** The ingestion loop *)
  Lemma off_best m b :
    MInv m → (has_state m b && on_best m b) = false → b ∉ best m.
  Proof.
    intros HI Hf Hin. destruct (I_best m HI b Hin) as (k & Hk & Hs & _).
    unfold has_state, on_best in Hf. rewrite Hk in Hf. destruct k as [st ? ?]. cbn in Hs. subst st.
    by rewrite bool_decide_eq_true_2 in Hf.
  Qed.

  Lemma genesis_on_best m : MInv m → genesis ∈ best m.
  Proof. intros HI. destruct (I_chain m HI) as (l0 & -> & _). apply elem_of_app. right. by apply elem_of_list_singleton. Qed.

  Lemma MInv_store_hdr m b B :
    MInv m → U !! b = Some B → hdr_ok B = true → has_supp m b = false →
    (has_state m b && on_best m b) = false → has_state m (parent B) = true →
    MInv (store_hdr m b) ∧ ext (best m) m (store_hdr m b).
  Proof.
    intros HI HB Hok Hs Hob Hps.
    pose proof (off_best m b HI Hob) as Hnb.
    assert (∀ k, known m !! b = Some k → ksupp k = false) as Hns.
    { intros k Hk. destruct (ksupp k) eqn:E; [|done].
      destruct (I_supp m HI b k Hk E) as (Hbo & _). unfold has_supp in Hs. rewrite Hk, Hbo, E in Hs. done. }
    unfold store_hdr. split; [split; cbn [known best]|].
    - apply (I_chain m HI).
    - intros x Hin. rewrite lookup_insert_ne by (intros ->; done). by apply (I_best m HI).
    - intros x k. destruct (decide (x = b)) as [->|Hne].
      + rewrite lookup_insert. intros [= <-] ?. done.
      + rewrite lookup_insert_ne by done. apply (I_supp m HI).
    - intros x k. destruct (decide (x = b)) as [->|Hne].
      + rewrite lookup_insert. intros [= <-]. cbn. split_and!; eauto.
        * right. eauto.
        * intros _. apply ins_state. by rewrite (par_eq _ _ HB).
      + rewrite lookup_insert_ne by done. intros Hk.
        destruct (I_known m HI x k Hk) as (? & ? & ? & Hx). split_and!; try done.
        intros ?. apply ins_state. auto.
    - intros x k. destruct (decide (x = b)) as [->|Hne].
      + rewrite lookup_insert. intros [= <-] ?. done.
      + rewrite lookup_insert_ne by done. apply (I_full m HI).
    - intros x k Hk. cbn [known]. destruct (decide (x = b)) as [->|Hne].
      + rewrite lookup_insert. eexists. split; [done|]. cbn.
        pose proof (Hns k Hk) as Hk0. split_and!; try done; eauto; try congruence.
        intros Hf. destruct (I_full m HI b k Hk Hf) as [?|[? _]]; [congruence|done].
      + rewrite lookup_insert_ne by done. exists k. done.
  Qed.

  Lemma add_loop_spec batch : ∀ m cs,
    MInv m → has_state m cs = true →
    MInv (fst (add_loop U m cs batch)) ∧
    best (fst (add_loop U m cs batch)) = best m ∧
    ext (best m) m (fst (add_loop U m cs batch)) ∧
    (∀ x, has_hdr (fst (add_loop U m cs batch)) x = true → has_hdr m x = true ∨ x ∈ batch) ∧
    (∀ cs', snd (add_loop U m cs batch) = Some cs' →
            has_state (fst (add_loop U m cs batch)) cs' = true).
  Proof.
    induction batch as [|b batch IH]; intros m cs HI Hcs; cbn [add_loop].
    { cbn. split_and!; try done; [by apply ext_refl|auto|]. by intros ? [= <-]. }
    assert (∀ m1 : mgr, (∀ x, has_hdr m1 x = true → has_hdr m x = true ∨ x ∈ batch) →
              ∀ x, has_hdr m1 x = true → has_hdr m x = true ∨ x ∈ b :: batch) as Hweak.
    { intros m1 H x Hx. destruct (H x Hx); [by left|right]. by apply elem_of_cons; right. }
    destruct (U !! b) as [B|] eqn:HB.
    2:{ cbn. split_and!; try done; [by apply ext_refl|auto]. }
    destruct (has_supp m b) eqn:Hs.
    { destruct (IH m b HI) as (? & ? & ? & ? & ?); [|split_and!; eauto].
      apply has_supp_true in Hs as (k & Hk & _ & Hsu).
      destruct (I_supp m HI b k Hk Hsu) as (_ & Hst & _).
      apply has_state_true. exists k. rewrite Hst. eauto. }
    destruct (has_state m b && on_best m b) eqn:Hob.
    { apply andb_true_iff in Hob as [Hst _].
      destruct (IH m b HI Hst) as (? & ? & ? & ? & ?). split_and!; eauto. }
    destruct (if parent B =? cs then true else has_state m (parent B)) eqn:Hps; cbn [negb].
    2:{ cbn. split_and!; try done; [by apply ext_refl|auto]. }
    assert (has_state m (parent B) = true) as Hps'.
    { destruct (N.eqb_spec (parent B) cs) as [->|]; done. }
    destruct (future B); cbn [negb].
    { cbn. split_and!; try done; [by apply ext_refl|auto]. }
    destruct (hdr_ok B) eqn:Hok; cbn [negb].
    2:{ cbn. split_and!; try done; [by apply ext_refl|auto]. }
    destruct (MInv_store_hdr m b B HI HB Hok Hs Hob Hps') as [HI1 He1].
    destruct (IH (store_hdr m b) b HI1) as (? & Hb2 & He2 & Hn2 & ?).
    { unfold has_state, store_hdr. cbn. by rewrite lookup_insert. }
    cbn [store_hdr best] in Hb2, He2. split_and!; try done.
    - eapply ext_trans; eauto.
    - intros x Hx. destruct (Hn2 x Hx) as [Hh|?]; [|right; by apply elem_of_cons; right].
      unfold has_hdr, store_hdr in Hh. cbn in Hh.
      destruct (decide (x = b)) as [->|Hne]; [right; apply elem_of_cons; auto|].
      rewrite lookup_insert_ne in Hh by done. by left.
  Qed.


  Lemma ext_nil L m m' : ext L m m' → ext [] m m'.
  Proof.
    intros H b k Hk. destruct (H b k Hk) as (k' & ? & ? & ? & ? & ? & ?).
    exists k'. split_and!; auto. intros Hin. by apply elem_of_nil in Hin.
  Qed.

  Lemma heavier_irrefl x : heavier U x x = false.
  Proof.
    unfold heavier. destruct (U !! x) as [X|] eqn:HX; [|done].
    pose proof (wf_diff U HWF x X HX). rewrite Z.gtb_ltb. apply Z.ltb_ge.
    pose proof (Z.div_pos (diff X) 5). lia.
  Qed.

  (** ** AddBlocks *)
  Lemma add_blocks_spec m batch :
    MInv m →
    match add_blocks U m batch with
    | (m', out, nt) =>
      MInv m' ∧ out ≠ Panic ∧ ext (best m) m m' ∧
      (∀ x, has_hdr m' x = true → has_hdr m x = true ∨ x ∈ batch) ∧
      (nt = true → out = Ok ∧ heavier U (tip m') (tip m) = true) ∧
      (nt = false → best m' = best m)
    end.
  Proof.
    intros HI. unfold add_blocks. destruct batch as [|b0 batch'].
    { split_and!; try done; [by apply ext_refl|auto]. }
    set (batch := b0 :: batch').
    assert (has_state m (tip m) = true) as Ht.
    { pose proof (I_chain m HI) as Hc. unfold tip.
      destruct (best m) as [|t r] eqn:Hb; [by apply chain_nonempty in Hc|]. cbn.
      destruct (I_best m HI t) as (k & Hk & Hs & _); [rewrite Hb; apply elem_of_cons; auto|].
      apply has_state_true. exists k. rewrite Hs. eauto. }
    destruct (add_loop_spec batch m (tip m) HI Ht) as (HI1 & Hb1 & He1 & Hn1 & Hcs).
    destruct (add_loop U m (tip m) batch) as [m1 [cs|]]; cbn [fst snd] in *.
    2:{ split_and!; try done. }
    pose proof (maybe_reorg_spec m1 cs HI1) as Hr.
    assert (tip m1 = tip m) as Ht1 by (unfold tip; by rewrite Hb1).
    destruct (maybe_reorg U m1 cs) as [[m' out] nt].
    assert (∀ m', upg m1 m' → ext (best m) m m' ∧
              ∀ x, has_hdr m' x = true → has_hdr m x = true ∨ x ∈ batch) as Hup.
    { intros m2 Hu. split.
      - eapply ext_trans; [exact He1|]. rewrite <- Hb1. by apply upg_ext.
      - intros x Hx. apply Hn1. by rewrite <- (upg_hdr m1 m2). }
    destruct out.
    - destruct Hr as (HI' & Hu & Hc). destruct (Hup _ Hu). split_and!; try done.
      + intros ->. destruct Hc as [(_ & Hh & <-)|(? & _)]; [|done]. by rewrite <- Ht1.
      + intros ->. destruct Hc as [(? & _)|(_ & _ & ->)]; done.
    - destruct Hr as (-> & HI' & Hu & Hb' & _). destruct (Hup _ Hu). split_and!; try done.
      intros _. congruence.
    - done.
  Qed.

  (** ** AddValidatedV2Blocks *)
  Lemma MInv_store_validated m b :
    MInv m → (∃ B, U !! b = Some B ∧ hdr_ok B = true ∧ body_ok B = true) →
    has_state m (par b) = true →
    MInv (store_validated m b).
  Proof.
    intros HI (B & HB & Hh & Hbo) Hps.
    assert (valid b) as Hv by (right; eauto).
    unfold store_validated. destruct (has_state m b && on_best m b); [done|].
    split; cbn [known best].
    - apply (I_chain m HI).
    - intros x Hin. destruct (decide (x = b)) as [->|Hne].
      + rewrite lookup_insert. eexists. split; [done|]. done.
      + rewrite lookup_insert_ne by done. by apply (I_best m HI).
    - intros x k. destruct (decide (x = b)) as [->|Hne].
      + rewrite lookup_insert. intros [= <-] _. done.
      + rewrite lookup_insert_ne by done. apply (I_supp m HI).
    - intros x k. destruct (decide (x = b)) as [->|Hne].
      + rewrite lookup_insert. intros [= <-]. cbn. split_and!; eauto.
        * right. eauto.
        * intros _. by apply ins_state.
      + rewrite lookup_insert_ne by done. intros Hk.
        destruct (I_known m HI x k Hk) as (? & ? & ? & Hx). split_and!; try done.
        intros ?. apply ins_state. auto.
    - intros x k. destruct (decide (x = b)) as [->|Hne].
      + rewrite lookup_insert. intros [= <-] _. by left.
      + rewrite lookup_insert_ne by done. apply (I_full m HI).
  Qed.

  Lemma store_validated_lookup m b x :
    known (store_validated m b) !! x =
    if has_state m b && on_best m b then known m !! x
    else if decide (x = b) then Some (KI (Some SFull) true true) else known m !! x.
  Proof.
    unfold store_validated. destruct (has_state m b && on_best m b); [done|]. cbn.
    destruct (decide (x = b)) as [->|Hne]; [by rewrite lookup_insert|by rewrite lookup_insert_ne].
  Qed.
  Lemma store_validated_best m b : best (store_validated m b) = best m.
  Proof. unfold store_validated. by destruct (has_state m b && on_best m b). Qed.

  Lemma store_validated_fold batch : ∀ m,
    MInv m → validated_pre batch →
    (∀ b, head batch = Some b → has_state m (par b) = true) →
    MInv (fold_left store_validated batch m) ∧
    best (fold_left store_validated batch m) = best m ∧
    (∀ x, known (fold_left store_validated batch m) !! x = known m !! x ∨
          (x ∈ batch ∧ x ∉ best m ∧
           known (fold_left store_validated batch m) !! x =
             Some (KI (Some SFull) true true))).
  Proof.
    induction batch as [|b batch IH]; intros m HI Hpre Hhd; cbn [fold_left].
    { split_and!; try done. by left. }
    cbn [validated_pre] in Hpre. destruct Hpre as (Hb & Hlink & Hpre).
    pose proof (MInv_store_validated m b HI Hb (Hhd b eq_refl)) as HI1.
    destruct (IH (store_validated m b) HI1 Hpre) as (HI2 & Hb2 & Hk2).
    { intros b' Hb'. destruct batch as [|b'' batch]; [done|]. cbn in Hb'. simplify_eq.
      unfold has_state. rewrite store_validated_lookup.
      destruct (has_state m (par b') && on_best m (par b')) eqn:E.
      - apply andb_true_iff in E as [E _]. exact E.
      - by rewrite decide_True. }
    rewrite store_validated_best in Hb2. split_and!; try done.
    intros x. destruct (Hk2 x) as [E|(Hin & Hnb & E)].
    - rewrite E, store_validated_lookup.
      destruct (has_state m b && on_best m b) eqn:Hsk; [by left|].
      destruct (decide (x = b)) as [->|Hne]; [|by left].
      right. split_and!; [apply elem_of_cons; auto| |done].
      by apply off_best.
    - right. rewrite store_validated_best in Hnb.
      split_and!; [by apply elem_of_cons; right|done|done].
  Qed.

  Lemma add_validated_spec m batch :
    MInv m → validated_pre batch →
    match add_validated U m batch with
    | (m', out, nt) =>
      MInv m' ∧ out ≠ Panic ∧ ext (best m) m m' ∧
      (∀ x, has_hdr m' x = true → has_hdr m x = true ∨ x ∈ batch) ∧
      (nt = true → out = Ok ∧ heavier U (tip m') (tip m) = true) ∧
      (nt = false → best m' = best m)
    end.
  Proof.
    intros HI Hpre. unfold add_validated. destruct batch as [|b0 batch'].
    { split_and!; try done; [by apply ext_refl|auto]. }
    set (batch := b0 :: batch') in *.
    destruct (U !! b0) as [B0|] eqn:HB0.
    2:{ split_and!; try done; [by apply ext_refl|auto]. }
    destruct (has_state m (parent B0)) eqn:Hps; cbn [negb].
    2:{ split_and!; try done; [by apply ext_refl|auto]. }
    destruct (store_validated_fold batch m HI Hpre) as (HI1 & Hb1 & Hk1).
    { intros b [= <-]. by rewrite (par_eq _ _ HB0). }
    set (m1 := fold_left store_validated batch m) in *.
    assert (ext (best m) m m1) as He1.
    { intros x k Hk. destruct (Hk1 x) as [E|(_ & Hnb & E)]; rewrite E.
      - exists k. done.
      - eexists. split; [done|]. cbn. split_and!; eauto. intros Hin. done. }
    assert (∀ x, has_hdr m1 x = true → has_hdr m x = true ∨ x ∈ batch) as Hn1.
    { intros x. unfold has_hdr. destruct (Hk1 x) as [E|(Hin & _ & E)]; rewrite E; auto. }
    pose proof (maybe_reorg_spec m1 (List.last batch b0) HI1) as Hr.
    assert (tip m1 = tip m) as Ht1 by (unfold tip; by rewrite Hb1).
    destruct (maybe_reorg U m1 (List.last batch b0)) as [[m' out] nt].
    assert (∀ m', upg m1 m' → ext (best m) m m' ∧
              (∀ x, has_hdr m' x = true → has_hdr m x = true ∨ x ∈ batch)) as Hup.
    { intros m2 Hu. split.
      - eapply ext_trans; [exact He1|]. rewrite <- Hb1. by apply upg_ext.
      - intros x Hx. apply Hn1. by rewrite <- (upg_hdr m1 m2). }
    destruct out.
    - destruct Hr as (HI' & Hu & Hc). destruct (Hup _ Hu) as (? & ?). split_and!; try done.
      + intros ->. destruct Hc as [(_ & Hh & Ht')|(? & _)]; [|done]. split; [done|]. by rewrite Ht', <- Ht1.
      + intros ->. destruct Hc as [(? & _)|(_ & _ & ->)]; done.
    - destruct Hr as (-> & HI' & Hu & Hb' & _). destruct (Hup _ Hu) as (? & ?).
      split_and!; try done. intros _. congruence.
    - done.
  Qed.

  (** ** PruneBlocks keeps the invariant *)
  Lemma best_at_elem m h b : best_at m h = Some b → b ∈ best m.
  Proof.
    unfold best_at. destruct (_ <? _); [|done]. intros H.
    apply elem_of_list_In. eapply nth_error_In; eauto.
  Qed.

  Lemma prune_block_best m b : best (prune_block m b) = best m.
  Proof. unfold prune_block. by destruct (known m !! b). Qed.

  Lemma prune_block_lookup m b x :
    known (prune_block m b) !! x =
    if decide (x = b) then (λ k, KI (kst k) false false) <$> known m !! b else known m !! x.
  Proof.
    unfold prune_block. destruct (decide (x = b)) as [->|Hne].
    - destruct (known m !! b) as [k|] eqn:Hk; cbn; [by rewrite lookup_insert|done].
    - destruct (known m !! b) as [k|] eqn:Hk; cbn; [by rewrite lookup_insert_ne|done].
  Qed.

  Lemma prune_block_state m b x : has_state (prune_block m b) x = has_state m x.
  Proof.
    unfold has_state. rewrite prune_block_lookup. destruct (decide (x = b)) as [->|]; [|done].
    by destruct (known m !! b) as [[[?|] ? ?]|].
  Qed.
  Lemma prune_block_hdr m b x : has_hdr (prune_block m b) x = has_hdr m x.
  Proof.
    unfold has_hdr. rewrite prune_block_lookup. destruct (decide (x = b)) as [->|]; [|done].
    by destruct (known m !! b).
  Qed.

  Lemma MInv_prune_block m b : MInv m → b ∈ best m → MInv (prune_block m b).
  Proof.
    intros HI Hin. destruct (I_best m HI b Hin) as (kb & Hkb & Hsb & _ & Hvb).
    split; rewrite ?prune_block_best.
    - apply (I_chain m HI).
    - intros x Hx. rewrite prune_block_lookup. destruct (decide (x = b)) as [->|Hne].
      + rewrite Hkb. cbn. eexists. split; [done|]. done.
      + by apply (I_best m HI).
    - intros x k. rewrite prune_block_lookup. destruct (decide (x = b)) as [->|Hne].
      + rewrite Hkb. cbn. intros [= <-] ?. done.
      + apply (I_supp m HI).
    - intros x k. rewrite prune_block_lookup. destruct (decide (x = b)) as [->|Hne].
      + rewrite Hkb. cbn. intros [= <-]. cbn.
        destruct (I_known m HI b kb Hkb) as (? & ? & ? & ?). split_and!; try done.
        intros ?. rewrite prune_block_state. auto.
      + intros Hk. destruct (I_known m HI x k Hk) as (? & ? & ? & ?). split_and!; try done.
        intros ?. rewrite prune_block_state. auto.
    - intros x k. rewrite prune_block_lookup. destruct (decide (x = b)) as [->|Hne].
      + rewrite Hkb. cbn. intros [= <-] _. by right.
      + apply (I_full m HI).
  Qed.

  Lemma prune_from_best h : ∀ m, best (prune_from m h) = best m.
  Proof.
    induction h as [|h IH]; intros m; cbn [prune_from]; [done|].
    destruct (best_at m (N.of_nat h)); [|done].
    destruct (has_body m n); [|done]. by rewrite IH, prune_block_best.
  Qed.
  Lemma prune_from_hdr h : ∀ m x, has_hdr (prune_from m h) x = has_hdr m x.
  Proof.
    induction h as [|h IH]; intros m x; cbn [prune_from]; [done|].
    destruct (best_at m (N.of_nat h)); [|done].
    destruct (has_body m n); [|done]. by rewrite IH, prune_block_hdr.
  Qed.
  Lemma MInv_prune_from h : ∀ m, MInv m → MInv (prune_from m h).
  Proof.
    induction h as [|h IH]; intros m HI; cbn [prune_from]; [done|].
    destruct (best_at m (N.of_nat h)) as [b|] eqn:Hb; [|done].
    destruct (has_body m b); [|done]. apply IH, MInv_prune_block; [done|].
    eapply best_at_elem; eauto.
  Qed.

  (** ** Every operation, every history *)
  Lemma MInv_init : MInv init.
  Proof.
    split; cbn [init known best].
    - apply chain_genesis.
    - intros b ->%elem_of_list_singleton. rewrite lookup_singleton. eexists. split; [done|].
      split_and!; try done. by left.
    - intros b k [<- <-]%lookup_singleton_Some _. split_and!; try done. by left.
    - intros b k [<- <-]%lookup_singleton_Some. cbn. split_and!; eauto; try done.
      + apply genesis_in.
      + by left.
    - intros b k [<- <-]%lookup_singleton_Some _. by left.
  Qed.

  Lemma mstep_spec m o :
    MInv m → op_pre o →
    match mstep U m o with
    | (m', out, nt) =>
      MInv m' ∧ out ≠ Panic ∧ ext [] m m' ∨ (∃ h, o = Prune h) ∧ MInv m' ∧ out = Ok
    end ∧
    match mstep U m o with
    | (m', out, nt) =>
      (∀ x, has_hdr m' x = true → has_hdr m x = true ∨ x ∈ batch_of o) ∧
      (nt = true → out = Ok ∧ heavier U (tip m') (tip m) = true) ∧
      (nt = false → best m' = best m)
    end.
  Proof.
    intros HI Hpre. destruct o as [l|l|h]; cbn [mstep batch_of].
    - pose proof (add_blocks_spec m l HI) as H.
      destruct (add_blocks U m l) as [[m' out] nt].
      destruct H as (? & ? & ? & ? & ? & ?). split; [left|]; split_and!; try done.
      by eapply ext_nil.
    - pose proof (add_validated_spec m l HI Hpre) as H.
      destruct (add_validated U m l) as [[m' out] nt].
      destruct H as (? & ? & ? & ? & ? & ?). split; [left|]; split_and!; try done.
      by eapply ext_nil.
    - split; [right|]; split_and!; try done; eauto.
      + by apply MInv_prune_from.
      + intros x Hx. left. unfold prune in Hx. by rewrite prune_from_hdr in Hx.
      + intros _. apply prune_from_best.
  Qed.

  Lemma mstep_inv m o : MInv m → op_pre o → MInv (mstep U m o).1.1 ∧ (mstep U m o).1.2 ≠ Panic.
  Proof.
    intros HI Hpre. destruct (mstep_spec m o HI Hpre) as [H _].
    destruct (mstep U m o) as [[m' out] nt]. cbn.
    destruct H as [(? & ? & _)|(_ & ? & ->)]; done.
  Qed.

  Lemma run_from_inv ops : ∀ m,
    MInv m → Forall op_pre ops → MInv (fold_left (λ m o, (mstep U m o).1.1) ops m).
  Proof.
    induction ops as [|o ops IH]; intros m HI Hpre; cbn [fold_left]; [done|].
    apply Forall_cons in Hpre as [Ho Hpre]. apply IH; [|done]. by apply mstep_inv.
  Qed.

  Lemma mrun_inv ops : Forall op_pre ops → MInv (mrun U ops).
  Proof. intros H. apply run_from_inv; [apply MInv_init|done]. Qed.


  End WithWF.
End U.

(** * Theorems over all universes and all histories *)
Definition ops_pre (U : universe) (ops : list mop) : Prop := Forall (op_pre U) ops.

Section Thms.
  Context (U : universe) (HWF : WF U) (ops : list mop) (Hops : ops_pre U ops).

  Lemma best_chain_inv : MInv U (mrun U ops).
  Proof. by apply mrun_inv. Qed.

  Lemma best_chain_linked_valid :
    chain U (best (mrun U ops)) ∧
    ∀ b, b ∈ best (mrun U ops) →
      valid U b ∧ ∃ k, known (mrun U ops) !! b = Some k ∧ kst k = Some SFull.
  Proof.
    pose proof best_chain_inv as HI. split; [apply (I_chain U _ HI)|].
    intros b Hb. destruct (I_best U _ HI b Hb) as (k & ? & ? & ? & ?). eauto.
  Qed.

  Lemma no_panic o : op_pre U o → (mstep U (mrun U ops) o).1.2 ≠ Panic.
  Proof. intros Ho. by apply mstep_inv; [|apply best_chain_inv|]. Qed.

  Lemma invalid_never_adopted b B :
    b ∈ best (mrun U ops) → b ≠ genesis → U !! b = Some B →
    hdr_ok B = true ∧ body_ok B = true.
  Proof.
    intros Hb Hg HB. destruct (I_best U _ best_chain_inv b Hb) as (k & _ & _ & _ & [?|(B' & HB' & ? & ?)]);
      [done|]. by simplify_eq.
  Qed.

  Lemma failed_addblocks_noop l m' nt :
    mstep U (mrun U ops) (AddBlocks l) = (m', Err, nt) →
    nt = false ∧ best m' = best (mrun U ops) ∧
    ∀ b, b ∈ best (mrun U ops) → known m' !! b = known (mrun U ops) !! b.
  Proof.
    intros E. pose proof (add_blocks_spec U HWF _ l best_chain_inv) as H.
    cbn [mstep] in E. rewrite E in H. destruct H as (_ & _ & He & _ & Hn & Hb).
    assert (nt = false) as -> by (destruct nt; [by destruct Hn|done]).
    split_and!; auto. intros b Hin.
    destruct (I_best U _ best_chain_inv b Hin) as (k & Hk & _).
    destruct (He b k Hk) as (k' & Hk' & _ & _ & _ & _ & Heq). rewrite Hk, Hk'. f_equal. auto.
  Qed.

  Lemma failed_addvalidated_noop l m' nt :
    validated_pre U l →
    mstep U (mrun U ops) (AddValidated l) = (m', Err, nt) →
    nt = false ∧ best m' = best (mrun U ops) ∧
    ∀ b, b ∈ best (mrun U ops) → known m' !! b = known (mrun U ops) !! b.
  Proof.
    intros Hpre E. pose proof (add_validated_spec U HWF _ l best_chain_inv Hpre) as H.
    cbn [mstep] in E. rewrite E in H. destruct H as (_ & _ & He & _ & Hn & Hb).
    assert (nt = false) as -> by (destruct nt; [by destruct Hn|done]).
    split_and!; auto. intros b Hin.
    destruct (I_best U _ best_chain_inv b Hin) as (k & Hk & _).
    destruct (He b k Hk) as (k' & Hk' & _ & _ & _ & _ & Heq). rewrite Hk, Hk'. f_equal. auto.
  Qed.

  Lemma known_monotone o m' out nt :
    op_pre U o → (∀ h, o ≠ Prune h) →
    mstep U (mrun U ops) o = (m', out, nt) →
    (∀ b k, known (mrun U ops) !! b = Some k →
       ∃ k', known m' !! b = Some k' ∧
         (kbody k = true → kbody k' = true) ∧ (ksupp k = true → ksupp k' = true) ∧
         (kst k = Some SFull → kst k' = Some SFull) ∧ (is_Some (kst k) → is_Some (kst k'))) ∧
    (∀ b k', known m' !! b = Some k' → ksupp k' = true →
       kbody k' = true ∧ kst k' = Some SFull ∧ valid U b).
  Proof.
    intros Ho Hnp E. destruct (mstep_spec U HWF _ o best_chain_inv Ho) as [H _].
    rewrite E in H. destruct H as [(HI' & _ & He)|((h & ->) & _)]; [|by destruct (Hnp h)].
    split.
    - intros b k Hk. destruct (He b k Hk) as (k' & ? & ? & ? & ? & ? & _). eauto 10.
    - apply (I_supp U _ HI').
  Qed.

  Lemma work_monotone o m' out nt :
    op_pre U o →
    mstep U (mrun U ops) o = (m', out, nt) →
    (twof U (tip (mrun U ops)) ≤ twof U (tip m'))%Z ∧
    (tip m' ≠ tip (mrun U ops) → heavier U (tip m') (tip (mrun U ops)) = true) ∧
    (∀ b, b ∈ best m' → has_hdr (mrun U ops) b = true ∨ b ∈ batch_of o).
  Proof.
    intros Ho E. destruct (mstep_spec U HWF _ o best_chain_inv Ho) as [H1 H2].
    rewrite E in H1, H2. destruct H2 as (Hn & Ht & Hf).
    assert (MInv U m') as HI' by (destruct H1 as [(? & _)|(_ & ? & _)]; done).
    assert (tip m' ≠ tip (mrun U ops) → heavier U (tip m') (tip (mrun U ops)) = true) as Hh.
    { intros Hne. destruct nt; [by apply Ht|]. exfalso. apply Hne. unfold tip. by rewrite Hf. }
    split_and!; [|done|].
    - destruct (decide (tip m' = tip (mrun U ops))) as [->|Hne]; [lia|].
      specialize (Hh Hne). unfold heavier, twof in *.
      destruct (U !! tip m') as [T'|]; [|done].
      destruct (U !! tip (mrun U ops)) as [T|] eqn:HT; [|done].
      pose proof (wf_diff U HWF _ _ HT). pose proof (Z.div_pos (diff T) 5). lia.
    - intros b Hb. apply Hn. destruct (I_best U _ HI' b Hb) as (k & Hk & _).
      apply has_hdr_true. eauto.
  Qed.

  Lemma notify_iff_tip_changed o m' out nt :
    op_pre U o →
    mstep U (mrun U ops) o = (m', out, nt) →
    nt = true ↔ tip m' ≠ tip (mrun U ops).
  Proof.
    intros Ho E. destruct (mstep_spec U HWF _ o best_chain_inv Ho) as [_ H2].
    rewrite E in H2. destruct H2 as (_ & Ht & Hf). split.
    - intros -> Heq. destruct Ht as [_ Hh]; [done|]. rewrite Heq in Hh.
      by rewrite (heavier_irrefl U HWF) in Hh.
    - intros Hne. destruct nt; [done|]. exfalso. apply Hne. unfold tip. by rewrite Hf.
  Qed.

  (** the crux, stated for reachable states *)
  Lemma rollback_exact_reachable target m1 :
    reorg_to U (mrun U ops) target = (m1, Err) →
    reorg_to U m1 (tip (mrun U ops)) = (Mgr (known m1) (best (mrun U ops)), Ok).
  Proof.
    intros E. pose proof (reorg_to_spec U HWF _ target best_chain_inv) as H.
    rewrite E in H. destruct H as (HI1 & _ & Hmid).
    by apply rollback_exact; [|apply best_chain_inv| |].
  Qed.
End Thms.

(** * A boolean well-formedness test (usable on concrete universes) *)
Definition wfb (U : universe) : bool :=
  match U !! genesis with Some G => height G =? 0 | None => false end &&
  forallb (λ bB : N * blk,
     ((bB.1 =? genesis) ||
      match U !! parent bB.2 with
      | Some P => height bB.2 =? height P + 1 | None => false end) &&
     (0 <=? diff bB.2)%Z) (map_to_list U).

Lemma wfb_sound U : wfb U = true → WF U.
Proof.
  unfold wfb. intros [Hg Hall]%andb_true_iff.
  rewrite forallb_forall in Hall.
  assert (∀ b B, U !! b = Some B →
     ((b =? genesis) || match U !! parent B with
        | Some P => height B =? height P + 1 | None => false end) = true ∧
     (0 <=? diff B)%Z = true) as H.
  { intros b B HB. apply andb_true_iff. apply (Hall (b, B)).
    apply elem_of_list_In, elem_of_map_to_list. done. }
  split.
  - destruct (U !! genesis) as [G|]; [|done]. exists G. split; [done|]. by apply N.eqb_eq.
  - intros b B HB Hne. destruct (H b B HB) as [H1 _].
    apply orb_true_iff in H1 as [Heq|H1]; [by apply N.eqb_eq in Heq|].
    destruct (U !! parent B) as [P|]; [|done]. exists P. split; [done|]. by apply N.eqb_eq.
  - intros b B HB. destruct (H b B HB) as [_ H2]. by apply Z.leb_le.
Qed.

(** * Examples: the hypotheses of the theorems are met by a concrete, non-trivial history *)
Module Ex.
  (** genesis 0; main chain 1-2-3; a heavier fork 4-5-6 from block 1 whose third block (6)
      has an invalid body; 7 is a valid sibling of 6; 8 has an invalid header; 9 is a very
      heavy valid child of 4; 10 is a heavier valid sibling of 3. *)
  Definition U : universe := list_to_map [
    (0, Blk 0 0 true false true 0 10);
    (1, Blk 0 1 true false true 10 10);
    (2, Blk 1 2 true false true 20 10);
    (3, Blk 2 3 true false true 30 10);
    (4, Blk 1 2 true false true 21 10);
    (5, Blk 4 3 true false true 32 10);
    (6, Blk 5 4 true false false 45 10);
    (7, Blk 5 4 true false true 44 10);
    (8, Blk 3 4 false false true 99 10);
    (9, Blk 4 3 true false true 100 10);
    (10, Blk 2 3 true false true 50 10) ].

  Example U_wf : WF U.
  Proof. apply wfb_sound. vm_compute. reflexivity. Qed.

  (** main chain; then the heavier fork with the invalid third block (reverts 3,2, applies
      4,5, fails on 6, rolls back); then the valid fork (a real reorg) *)
  Definition ops1 : list mop := [AddBlocks [1; 2; 3]].
  Definition ops2 : list mop := [AddBlocks [1; 2; 3]; AddBlocks [4; 5; 6]].
  Definition ops3 : list mop :=
    [AddBlocks [1; 2; 3]; AddBlocks [4; 5; 6]; AddValidated [4; 5]; Prune 2; AddBlocks [7]].

  Example ops3_pre : ops_pre U ops3.
  Proof. repeat constructor; vm_compute; eauto 10. Qed.
  Example ops1_pre : ops_pre U ops1.
  Proof. repeat constructor. Qed.

  Example run1 : best (mrun U ops1) = [3; 2; 1; 0].
  Proof. vm_compute. reflexivity. Qed.
  (** the failed reorg: Err, no notification, chain exactly as before *)
  Example step2 :
    ∃ m', mstep U (mrun U ops1) (AddBlocks [4; 5; 6]) = (m', Err, false) ∧
          best m' = [3; 2; 1; 0] ∧
          known m' !! 5 = Some (KI (Some SFull) true true) ∧   (* validated, kept *)
          known m' !! 6 = Some (KI (Some SHdr) true false).     (* stored, never validated *)
  Proof. eexists. vm_compute. split_and!; reflexivity. Qed.
  (** a successful deep reorg after a prune: notification, tip changed, heavier *)
  Example run3 : best (mrun U ops3) = [7; 5; 4; 1; 0].
  Proof. vm_compute. reflexivity. Qed.
  Example step3 :
    ∃ m', mstep U (mrun U (take 4 ops3)) (AddBlocks [7]) = (m', Ok, true) ∧ tip m' = 7.
  Proof. eexists. vm_compute. split; reflexivity. Qed.
  (** an invalid header is rejected in the loop *)
  Example step_bad_hdr :
    ∃ m', mstep U (mrun U ops3) (AddBlocks [8]) = (m', Err, false).
  Proof. eexists. vm_compute. reflexivity. Qed.
  (** a failed AddValidated that re-stores the body of a pruned best-chain block *)
  (** a failed AddValidated (its reorg would have to revert the pruned block 5); the
      pruned best-chain block 4 in the batch is skipped, its body is not stored again *)
  Definition ops4 : list mop := ops3 ++ [Prune 4].
  Example ops4_pre : ops_pre U ops4.
  Proof. repeat constructor; vm_compute; eauto 10. Qed.
  Example validated_skips_best :
    validated_pre U [4; 9] ∧
    known (mrun U ops4) !! 4 = Some (KI (Some SFull) false false) ∧
    ∃ m', mstep U (mrun U ops4) (AddValidated [4; 9]) = (m', Err, false) ∧
          best m' = [7; 5; 4; 1; 0] ∧
          known m' !! 4 = Some (KI (Some SFull) false false).
  Proof.
    split; [vm_compute; repeat econstructor|]. split; [vm_compute; reflexivity|].
    eexists. vm_compute. split_and!; reflexivity.
  Qed.
  Example reorg_fails_midway :
    ∃ m1, reorg_to U (mrun U ops2) 6 = (m1, Err) ∧ best m1 = [5; 4; 1; 0].
  Proof. eexists. vm_compute. split; reflexivity. Qed.
End Ex.
