(** * Chain/Crash.v — commit points of chain.DBStore and what reopens from them (C03)

    Definitions only.  The database session is the two-map specification of KV/Model.v
    ([sp]: a committed image [com] and the session view [cur]; Flush copies [cur] to [com] —
    [C17_flush_durable]; MemDB refines it — [C17_memdb_refines_spec]; bbolt is it by
    definition), with the bucket contents abstracted to the store record of Chain/Store.v plus
    the set of blocks that were fully applied (full state, body and supplement stored).

    A block step is the list of writes applyTip / revertTip issue, in order, followed by the
    [shouldFlush] test that ApplyBlock / RevertBlock perform last:

    applyTip (manager.go:361-396) then DBStore.ApplyBlock (db.go:915-925):
      AddState(cs); AddBlock(b, bs)            -- only when the block had no supplement yet
      putBestIndex(index); putHeight(height)    -- applyState
      applyElements(cau)                        -- iff height <= RequireHeight
      if shouldFlush() { Flush() }
    revertTip (manager.go:347-358) then DBStore.RevertBlock (db.go:928-938):
      revertElements(cru)                       -- iff parent height <= RequireHeight
      deleteBestIndex(height); putHeight(height-1)   -- revertState
      if shouldFlush() { Flush() }
    reorgTo ends with an unconditional store.Flush() (manager.go:500-502).

    Whether the size/time threshold of shouldFlush (100 MB / 5 s) fires is an input bit per
    step: the theorems quantify over it.

    Assumption made by this shape (checked by the harness on every run): a store step changes
    the database only through Put/Delete of the open batch — [do_write] acts on [cur] alone.
    A store that edits a byte slice the database handed out (Get returns the database's own
    storage for map-backed backends) would change [com] outside a commit; the harness compares,
    at "live" crash points, what the database holds after it discarded its window with the
    last committed image, and watches every handed-out slice. *)
From Coq Require Import NArith List.
Import ListNotations.
From stdpp Require Import gmap.
From CV Require Import KV.Model Chain.Store.
Open Scope N_scope.

(** ** Images and sessions *)
Record img := Img { i_s : store; i_full : gset N }.
Definition empty_img : img := Img empty_store ∅.

Record db := Db { com : img; cur : img }.
Definition db_init : db := Db empty_img empty_img.

(** ** Writes *)
Inductive write :=
| WFull (b : N)                      (* AddState(full state) ; AddBlock(b, supplement) *)
| WBest (h id : N)                   (* putBestIndex *)
| WDelBest (h : N)                   (* deleteBestIndex *)
| WHeight (h : N)                    (* putHeight *)
| WApplyElems (d : diffs)            (* applyElements *)
| WRevertElems (d : diffs).          (* revertElements, [d] the revert diff lists *)

Definition set_main (s : store) (m : gmap N N) : store :=
  St (sce s) (sfe s) (fce s) (expi s) m (hgt s).
Definition set_hgt (s : store) (h : N) : store :=
  St (sce s) (sfe s) (fce s) (expi s) (mainc s) h.

(** one write on the session view; [None] is a panic *)
Definition do_write (i : img) (w : write) : option img :=
  match w with
  | WFull b => Some (Img (i_s i) ({[b]} ∪ i_full i))
  | WBest h id => Some (Img (set_main (i_s i) (<[h := id]> (mainc (i_s i)))) (i_full i))
  | WDelBest h => Some (Img (set_main (i_s i) (delete h (mainc (i_s i)))) (i_full i))
  | WHeight h => Some (Img (set_hgt (i_s i) h) (i_full i))
  | WApplyElems d => (λ s, Img s (i_full i)) <$> apply_elements (i_s i) d
  | WRevertElems d => (λ s, Img s (i_full i)) <$> revert_elements (i_s i) d
  end.

(** session events: a write, the flush test (with the bit saying whether the threshold
    fired), an unconditional flush *)
Inductive sev := SWrite (w : write) | SFlushCheck (fire : bool) | SFlush.

Definition do_sev (d : db) (e : sev) : option db :=
  match e with
  | SWrite w => Db (com d) <$> do_write (cur d) w
  | SFlushCheck true | SFlush => Some (Db (cur d) (cur d))
  | SFlushCheck false => Some d
  end.

(** runs the events; returns the final session and every committed image, oldest first *)
Fixpoint run_sevs (d : db) (l : list sev) (acc : list img) : option (db * list img) :=
  match l with
  | [] => Some (d, acc)
  | e :: r =>
      match do_sev d e with
      | None => None
      | Some d' =>
          let acc' := match e with
                      | SFlushCheck true | SFlush => acc ++ [cur d]
                      | _ => acc
                      end in
          run_sevs d' r acc'
      end
  end.

(** ** Block steps as the code issues them *)
Definition writes_apply (R : N) (b : blk) : list write :=
  [WFull (b_id b); WBest (b_h b) (b_id b); WHeight (b_h b)]
  ++ (if b_h b <=? R then [WApplyElems (b_d b)] else []).
Definition writes_revert (R : N) (b : blk) : list write :=
  (if b_h b - 1 <=? R then [WRevertElems (rev_diffs (b_d b))] else [])
  ++ [WDelBest (b_h b); WHeight (b_h b - 1)].

(** manager-level events: a block step decorated with the flush bit, the flush that ends
    a reorg *)
Inductive mev := MStep (st : step) (fire : bool) | MFlush.

Definition compile (R : N) (e : mev) : list sev :=
  match e with
  | MStep (SApply b) fire => map SWrite (writes_apply R b) ++ [SFlushCheck fire]
  | MStep (SRevert b) fire => map SWrite (writes_revert R b) ++ [SFlushCheck fire]
  | MFlush => [SFlush]
  end.

Definition compile_all (R : N) (l : list mev) : list sev := concat (map (compile R) l).

(** the committed images of a run from an empty database *)
Definition images (R : N) (l : list mev) : option (list img) :=
  snd <$> run_sevs db_init (compile_all R l) [].

Definition steps_of (l : list mev) : list step :=
  omap (λ e, match e with MStep st _ => Some st | MFlush => None end) l.

(** ** Reopening: NewDBStore takes the tip from Height + MainChain (db.go:1020-1023); the
    node is usable iff that block was fully applied in the image *)
Definition reopen (i : img) : option N :=
  match mainc (i_s i) !! hgt (i_s i) with
  | Some id => if bool_decide (id ∈ i_full i) then Some id else None
  | None => None
  end.
