(** * Chain/UpdatesProofs.v — proofs about [Chain/Updates.v] (C04).
    The manager invariant [MInv] and the lemmas about [chain]/[lp] come from
    [Chain/ManagerProofs.v]; the conjuncts used here are I_chain (the best chain is
    parent-linked from genesis), I_best (best-chain blocks have a full state and
    body = supplement), I_known (a stored block is in the universe and its parent has a
    state) — and [ext []] from [mstep_spec] (a call other than PruneBlocks never removes a
    body, a supplement or a state). *)
From Coq Require Import NArith ZArith List Lia ZifyBool ZifyNat ZifyN.
From stdpp Require Import gmap.
From CV Require Import Chain.Manager Chain.ManagerProofs Chain.Updates.
Import ListNotations.
Open Scope N_scope.

Lemma index_eqb_eq i j : index_eqb i j = true ↔ i = j.
Proof.
  destruct i as [[h b]|], j as [[h' b']|]; cbn; try (split; congruence).
  rewrite andb_true_iff, !N.eqb_eq. split; [intros [-> ->]; done|intros [= -> ->]; done].
Qed.

Section U.
  Context (U : universe).

  Lemma hgt_ht b : hgt U b = ht U b.
  Proof. reflexivity. Qed.
  Lemma parent_of_par b : parent_of U b = par U b.
  Proof. reflexivity. Qed.

  (** ** The shape of a result, for any manager state and any index (no invariant) *)

  (** reverts walk parent by parent from the index: each reverted block is the one the
      index names, and the index moves to its parent *)
  Fixpoint revs_walk (i : index) (rus : list N) : option index :=
    match rus with
    | [] => Some i
    | b :: r =>
        match i with
        | Some (_, b0) => if b0 =? b then revs_walk (idx_of U (parent_of U b)) r else None
        | None => None
        end
    end.

  (** applies walk consecutive best-chain heights: each applied block is the best-chain
      block one above the index (or genesis from the zero index) *)
  Fixpoint apps_walk (m : mgr) (i : index) (aus : list N) : option index :=
    match aus with
    | [] => Some i
    | b :: a =>
        match next_best m i with
        | Some (h', b') => if b' =? b then apps_walk m (Some (h', b')) a else None
        | None => None
        end
    end.

  Lemma us_loop_acc m k : ∀ i rus aus,
    us_loop U m k i rus aus =
    match us_loop U m k i [] [] with
    | UOk r a l => UOk (rus ++ r) (aus ++ a) l
    | UErr => UErr
    end.
  Proof.
    induction k as [|k IH]; intros i rus aus; cbn [us_loop].
    - by rewrite !app_nil_r.
    - destruct (ustep U m i) as [| |b i'|b i'].
      + by rewrite !app_nil_r.
      + done.
      + rewrite (IH i' (rus ++ [b]) aus), (IH i' ([] ++ [b]) []).
        destruct (us_loop U m k i' [] []); [|done]. by rewrite <- app_assoc.
      + rewrite (IH i' rus (aus ++ [b])), (IH i' [] ([] ++ [b])).
        destruct (us_loop U m k i' [] []); [|done]. by rewrite <- app_assoc.
  Qed.

  Lemma ustep_rev_inv m i b i' :
    ustep U m i = URev b i' →
    on_best_idx m i = false ∧ (∃ h, i = Some (h, b)) ∧ i' = idx_of U (parent_of U b) ∧
    has_supp m b = true.
  Proof.
    unfold ustep. destruct (index_eqb i (tip_index m)); [done|].
    destruct (on_best_idx m i) eqn:Hob; cbn [negb].
    - destruct (next_best m i) as [[h' b']|]; [|done].
      destruct (block_and_parent U m b') as [[p []]|]; done.
    - destruct i as [[h b0]|]; [|done].
      destruct (b0 =? genesis); [done|].
      unfold block_and_parent. destruct (U !! b0) as [B|] eqn:HB; [|done].
      destruct (has_body m b0 && _); [|done].
      destruct (has_supp m b0) eqn:Hs; [|done].
      intros [= <- <-]. split_and!; eauto.
      unfold idx_of, parent_of, hgt. by rewrite HB.
  Qed.

  Lemma ustep_app_inv m i b i' :
    ustep U m i = UApp b i' →
    on_best_idx m i = true ∧ (∃ h', next_best m i = Some (h', b) ∧ i' = Some (h', b)) ∧
    has_supp m b = true.
  Proof.
    unfold ustep. destruct (index_eqb i (tip_index m)); [done|].
    destruct (on_best_idx m i) eqn:Hob; cbn [negb].
    - destruct (next_best m i) as [[h' b']|]; [|done].
      unfold block_and_parent. destruct (U !! b') as [B|]; [|done].
      destruct (has_body m b' && _); [|done].
      destruct (has_supp m b') eqn:Hs; [|done].
      intros [= <- <-]. eauto.
    - destruct i as [[h b0]|]; [|done].
      destruct (b0 =? genesis); [done|].
      destruct (block_and_parent U m b0) as [[p []]|]; done.
  Qed.

  Lemma next_best_on_best m i h' b' : next_best m i = Some (h', b') → on_best_idx m (Some (h', b')) = true.
  Proof.
    unfold next_best, on_best_idx. destruct i as [[h b]|].
    - destruct (best_at m (h + 1)) eqn:E; [|done]. intros [= <- <-]. rewrite E. apply N.eqb_refl.
    - destruct (best_at m 0) eqn:E; [|done]. intros [= <- <-]. rewrite E. apply N.eqb_refl.
  Qed.

  (** once on the best chain the loop only applies *)
  Lemma loop_on_best m k : ∀ i r a l,
    on_best_idx m i = true → us_loop U m k i [] [] = UOk r a l →
    r = [] ∧ apps_walk m i a = Some l ∧ (length a ≤ k)%nat ∧
    (l = tip_index m ∨ length a = k).
  Proof.
    induction k as [|k IH]; intros i r a l Hob; cbn [us_loop].
    - intros [= <- <- <-]. cbn. auto.
    - destruct (ustep U m i) as [| |b i'|b i'] eqn:E.
      + intros [= <- <- <-]. cbn. split_and!; auto; [lia|].
        left. unfold ustep in E. destruct (index_eqb i (tip_index m)) eqn:Ei.
        * by apply index_eqb_eq in Ei.
        * rewrite Hob in E. cbn in E. destruct (next_best m i) as [[? ?]|]; [|done].
          destruct (block_and_parent U m n0) as [[? []]|]; done.
      + done.
      + apply ustep_rev_inv in E as (E & _). congruence.
      + apply ustep_app_inv in E as (_ & (h' & Hn & ->) & _).
        rewrite us_loop_acc. destruct (us_loop U m k (Some (h', b)) [] []) as [r1 a1 l1|] eqn:E1; [|done].
        intros [= <- <- <-].
        destruct (IH _ _ _ _ (next_best_on_best _ _ _ _ Hn) E1) as (-> & Hw & Hl & Hs).
        split; [done|]. cbn [apps_walk app]. rewrite Hn, N.eqb_refl. split_and!; [done|cbn; lia|].
        destruct Hs as [->| <-]; [by left|by right].
  Qed.

  Lemma loop_shape m k : ∀ i r a l,
    us_loop U m k i [] [] = UOk r a l →
    ∃ j, revs_walk i r = Some j ∧ apps_walk m j a = Some l ∧
         (length r + length a ≤ k)%nat ∧ (l = tip_index m ∨ (length r + length a)%nat = k) ∧
         (∀ b, b ∈ r → has_supp m b = true) ∧ (∀ b, b ∈ a → has_supp m b = true).
  Proof.
    induction k as [|k IH]; intros i r a l; cbn [us_loop].
    - intros [= <- <- <-]. exists i. cbn. split_and!; auto; intros b Hb; by apply elem_of_nil in Hb.
    - destruct (ustep U m i) as [| |b i'|b i'] eqn:E.
      + intros [= <- <- <-]. exists i. cbn. split_and!; auto; try lia.
        * left. unfold ustep in E. destruct (index_eqb i (tip_index m)) eqn:Ei;
            [by apply index_eqb_eq in Ei|].
          destruct (negb (on_best_idx m i)).
          -- destruct i as [[? b0]|]; [|done]. destruct (b0 =? genesis); [done|].
             destruct (block_and_parent U m b0) as [[? []]|]; done.
          -- destruct (next_best m i) as [[? b']|]; [|done].
             destruct (block_and_parent U m b') as [[? []]|]; done.
        * intros b Hb; by apply elem_of_nil in Hb.
        * intros b Hb; by apply elem_of_nil in Hb.
      + done.
      + apply ustep_rev_inv in E as (_ & (h & ->) & -> & Hs).
        rewrite us_loop_acc.
        destruct (us_loop U m k (idx_of U (parent_of U b)) [] []) as [r1 a1 l1|] eqn:E1; [|done].
        intros [= <- <- <-]. destruct (IH _ _ _ _ E1) as (j & Hr & Ha & Hl & Hs' & Hsr & Hsa).
        exists j. cbn [revs_walk app]. rewrite N.eqb_refl. split_and!; [done|done|cbn; lia| |..].
        * destruct Hs' as [->| <-]; [by left|right; cbn; lia].
        * intros x [->|Hx]%elem_of_cons; auto.
        * done.
      + pose proof E as E'. apply ustep_app_inv in E as (Hob & (h' & Hn & ->) & Hs).
        rewrite us_loop_acc.
        destruct (us_loop U m k (Some (h', b)) [] []) as [r1 a1 l1|] eqn:E1; [|done].
        intros [= <- <- <-].
        destruct (loop_on_best _ _ _ _ _ _ (next_best_on_best _ _ _ _ Hn) E1) as (-> & Hw & Hl & Hs').
        exists i. cbn [revs_walk app apps_walk length]. rewrite Hn, N.eqb_refl.
        split_and!; [done|done|lia| |..].
        * destruct Hs' as [->| <-]; [by left|by right].
        * intros x Hx; by apply elem_of_nil in Hx.
        * intros x [->|Hx]%elem_of_cons; [done|].
          destruct (IH _ _ _ _ E1) as (_ & _ & _ & _ & _ & _ & Hsa). auto.
  Qed.
End U.

(** ** Positions on the best chain *)
Section Pos.
  Context (U : universe) (HWF : WF U).

  Lemma best_at_split m pre x rest :
    best m = pre ++ x :: rest → best_at m (N.of_nat (length rest)) = Some x.
  Proof.
    intros He. unfold best_at. rewrite He, app_length. cbn [length].
    destruct (N.ltb_spec (N.of_nat (length rest)) (N.of_nat (length pre + S (length rest)))); [|lia].
    replace (N.to_nat _) with (length pre + 0)%nat by lia.
    by rewrite nth_error_app2, Nat.add_0_r, Nat.sub_diag by lia.
  Qed.

  Lemma best_at_inv m h b :
    best_at m h = Some b → ∃ pre rest, best m = pre ++ b :: rest ∧ h = N.of_nat (length rest).
  Proof.
    unfold best_at. destruct (N.ltb_spec h (N.of_nat (length (best m)))); [|done].
    intros (l1 & l2 & He & Hl)%nth_error_split. exists l1, l2. split; [done|].
    rewrite He, app_length in *. cbn [length] in *. lia.
  Qed.

  Lemma chain_pos pre x rest : chain U (pre ++ x :: rest) → ht U x = N.of_nat (length rest).
  Proof.
    intros [_ Hc]%chain_split_at. apply (chain_ht U HWF) in Hc. cbn [hd length] in Hc. lia.
  Qed.

  Lemma tip_index_idx m : chain U (best m) → tip_index m = idx_of U (tip m).
  Proof.
    intros Hc. unfold tip_index, idx_of, tip_height, tip. rewrite hgt_ht.
    pose proof (chain_ht U HWF _ Hc). do 2 f_equal. lia.
  Qed.
End Pos.

(** ** No PruneBlocks call, no body lost
    [AllBodies]: every stored record has its body.  It holds initially and every call
    other than PruneBlocks keeps it (all insertions store a body; nothing else clears one). *)
Definition AllBodies (m : mgr) : Prop := ∀ b k, known m !! b = Some k → kbody k = true.

Section Bodies.
  Context (U : universe).

  Lemma AB_init : AllBodies init.
  Proof. intros b k. cbn. intros [<- <-]%lookup_singleton_Some. done. Qed.

  Lemma AB_known m m' : known m' = known m → AllBodies m → AllBodies m'.
  Proof. intros He H b k. rewrite He. apply H. Qed.

  Lemma AB_insert m b st su l :
    AllBodies m → AllBodies (Mgr (<[b := KI st true su]> (known m)) l).
  Proof.
    intros H x k. cbn. intros [[<- <-]|[_ Hx]]%lookup_insert_Some; [done|by eapply H].
  Qed.

  Lemma AB_add_loop batch : ∀ m cs, AllBodies m → AllBodies (add_loop U m cs batch).1.
  Proof.
    induction batch as [|b rest IH]; intros m cs H; cbn [add_loop]; [done|].
    destruct (U !! b) as [B|]; [|done].
    destruct (has_supp m b); [by apply IH|].
    destruct (has_state m b && on_best m b); [by apply IH|].
    destruct (negb _); [done|]. destruct (future B); [done|]. destruct (negb (hdr_ok B)); [done|].
    apply IH. by apply AB_insert.
  Qed.

  Lemma AB_revert_tip m : AllBodies m → AllBodies (revert_tip U m).1.
  Proof.
    intros H. unfold revert_tip. destruct (best m) as [|t rest]; [done|].
    destruct (U !! t); [|done]. destruct (has_body m t && _); [|done].
    destruct (has_supp m t); [|done]. by eapply AB_known.
  Qed.

  Lemma AB_apply_tip m b : AllBodies m → AllBodies (apply_tip U m b).1.
  Proof.
    intros H. unfold apply_tip. destruct (U !! b) as [B|]; [|done].
    destruct (negb (has_body m b)); [done|]. destruct (negb _); [done|].
    destruct (has_supp m b); [by eapply AB_known|].
    destruct (body_ok B); [|done]. by apply AB_insert.
  Qed.

  Lemma AB_do_reverts n : ∀ m, AllBodies m → AllBodies (do_reverts U m n).1.
  Proof.
    induction n as [|n IH]; intros m H; cbn [do_reverts]; [done|].
    pose proof (AB_revert_tip m H) as H1.
    destruct (revert_tip U m) as [m1 []]; cbn in *; auto.
  Qed.

  Lemma AB_do_applies bs : ∀ m, AllBodies m → AllBodies (do_applies U m bs).1.
  Proof.
    induction bs as [|b bs IH]; intros m H; cbn [do_applies]; [done|].
    pose proof (AB_apply_tip m b H) as H1.
    destruct (apply_tip U m b) as [m1 []]; cbn in *; auto.
  Qed.

  Lemma AB_reorg_to m t : AllBodies m → AllBodies (reorg_to U m t).1.
  Proof.
    intros H. unfold reorg_to. destruct (rpath U m _ _ t) as [[rv ap]|]; [|done].
    pose proof (AB_do_reverts (length rv) m H) as H1.
    destruct (do_reverts U m (length rv)) as [m1 []]; cbn in *; auto.
    by apply AB_do_applies.
  Qed.

  Lemma AB_maybe_reorg m cs : AllBodies m → AllBodies (maybe_reorg U m cs).1.1.
  Proof.
    intros H. unfold maybe_reorg. destruct (heavier U cs (tip m)); [|done].
    pose proof (AB_reorg_to m cs H) as H1.
    destruct (reorg_to U m cs) as [m1 []]; cbn in *; auto.
    pose proof (AB_reorg_to m1 (tip m) H1) as H2.
    destruct (reorg_to U m1 (tip m)) as [m2 []]; cbn in *; auto.
  Qed.

  Lemma AB_mstep m o : (∀ h, o ≠ Prune h) → AllBodies m → AllBodies (mstep U m o).1.1.
  Proof.
    intros Hnp H. destruct o as [l|l|h]; cbn [mstep]; [| |by destruct (Hnp h)].
    - unfold add_blocks. destruct l as [|b l]; [done|].
      pose proof (AB_add_loop (b :: l) m (tip m) H) as H1.
      destruct (add_loop U m (tip m) (b :: l)) as [m1 [cs|]]; cbn in *; [|done].
      by apply AB_maybe_reorg.
    - unfold add_validated. destruct l as [|b0 l]; [done|].
      destruct (U !! b0) as [B0|]; [|done]. destruct (negb _); [done|].
      apply AB_maybe_reorg.
      assert (∀ bs m0, AllBodies m0 → AllBodies (fold_left store_validated bs m0)) as Hf.
      { induction bs as [|x bs IH]; intros m0 H0; cbn [fold_left]; [done|].
        apply IH. unfold store_validated. destruct (has_state m0 x && on_best m0 x); [done|].
        by apply AB_insert. }
      by apply Hf.
  Qed.
End Bodies.

(** ** What one iteration does on a state that satisfies the invariant *)
Section Steps.
  Context (U : universe) (HWF : WF U).
  Context (m : mgr) (HI : MInv U m) (HB : AllBodies m).

  Lemma best_supp x : x ∈ best m → has_supp m x = true ∧ has_state m x = true ∧ has_body m x = true.
  Proof using All.
    intros Hx. destruct (I_best U m HI x Hx) as (k & Hk & Hst & Hbs & _).
    pose proof (HB x k Hk) as Hb. unfold has_supp, has_state, has_body. rewrite Hk.
    destruct k as [st bo su]; cbn in *. subst. done.
  Qed.

  Lemma tip_in_best : tip m ∈ best m.
  Proof using All.
    pose proof (chain_nonempty U _ (I_chain U m HI)). unfold tip.
    destruct (best m); [done|]. cbn. apply elem_of_cons; auto.
  Qed.

  Lemma ustep_stop f rest : best m = f :: rest → ustep U m (idx_of U f) = UStop.
  Proof using All.
    intros He. unfold ustep. rewrite (tip_index_idx U HWF m (I_chain U m HI)).
    unfold tip. rewrite He. cbn [hd].
    by rewrite (proj2 (index_eqb_eq _ _) eq_refl).
  Qed.

  Lemma ustep_app pre c f rest :
    best m = pre ++ c :: f :: rest → ustep U m (idx_of U f) = UApp c (idx_of U c).
  Proof using All.
    intros He. pose proof (I_chain U m HI) as Hc. rewrite He in Hc.
    pose proof (chain_pos U HWF (pre ++ [c]) f rest) as Hf.
    rewrite <- app_assoc in Hf. specialize (Hf Hc).
    pose proof (chain_pos U HWF pre c (f :: rest) Hc) as Hcc. cbn [length] in Hcc.
    unfold ustep.
    assert (index_eqb (idx_of U f) (tip_index m) = false) as ->.
    { unfold idx_of, tip_index, tip_height, index_eqb. rewrite hgt_ht, Hf, He, app_length.
      cbn [length]. apply andb_false_iff. left. apply N.eqb_neq. lia. }
    assert (on_best_idx m (idx_of U f) = true) as ->.
    { unfold on_best_idx, idx_of. rewrite hgt_ht, Hf.
      rewrite (best_at_split m (pre ++ [c]) f rest) by (by rewrite <- app_assoc).
      apply N.eqb_refl. }
    cbn [negb]. unfold next_best, idx_of. rewrite hgt_ht, Hf.
    replace (N.of_nat (length rest) + 1) with (N.of_nat (length (f :: rest))) by (cbn [length]; lia).
    rewrite (best_at_split m pre c (f :: rest) He).
    destruct (chain_split_at U _ _ _ Hc) as [_ Hc2].
    destruct (chain_tail U _ _ Hc2) as (_ & Hcg & [C HC] & Hp); [done|]. cbn [hd] in Hp.
    assert (c ∈ best m) as Hcin by (rewrite He; set_solver).
    assert (f ∈ best m) as Hfin by (rewrite He; set_solver).
    destruct (best_supp c Hcin) as (Hs & _ & Hbo). destruct (best_supp f Hfin) as (_ & Hfs & _).
    unfold block_and_parent. rewrite HC, Hbo, Hs.
    rewrite <- (par_eq U c C HC), Hp, Hfs, orb_true_r. cbn.
    do 2 f_equal. rewrite hgt_ht, Hcc. cbn [length]. done.
  Qed.

  Lemma ustep_rev b :
    b ∉ best m → has_supp m b = true → b ≠ genesis →
    ustep U m (idx_of U b) = URev b (idx_of U (par U b)).
  Proof using All.
    intros Hnb Hs Hg. unfold ustep.
    assert (index_eqb (idx_of U b) (tip_index m) = false) as ->.
    { unfold idx_of, tip_index, index_eqb. apply andb_false_iff. right. apply N.eqb_neq.
      intros ->. apply Hnb. apply tip_in_best. }
    assert (on_best_idx m (idx_of U b) = false) as ->.
    { unfold on_best_idx, idx_of. destruct (best_at m (hgt U b)) as [b'|] eqn:E; [|done].
      apply N.eqb_neq. intros ->. apply Hnb. eapply best_at_elem; eauto. }
    cbn [negb]. unfold idx_of at 1. rewrite (proj2 (N.eqb_neq _ _) Hg).
    apply has_supp_true in Hs as (k & Hk & Hbo & Hsu).
    destruct (I_known U m HI b k Hk) as ([B HBb] & _ & _ & Hps).
    unfold block_and_parent. rewrite HBb.
    assert (has_body m b = true) as -> by (apply has_body_true; eauto).
    assert (has_supp m b = true) as -> by (apply has_supp_true; eauto).
    rewrite <- (par_eq U b B HBb), (Hps Hg), orb_true_r. cbn.
    done.
  Qed.

  Lemma ustep_none : ustep U m None = UApp genesis (idx_of U genesis).
  Proof using All.
    destruct (I_chain U m HI) as (l0 & He & _).
    unfold ustep. cbn [index_eqb tip_index on_best_idx negb next_best].
    pose proof (best_at_split m l0 genesis [] He) as Hb. change (N.of_nat (length [])) with 0 in Hb. rewrite Hb.
    destruct (wf_gen U HWF) as (G & HG & Hh).
    destruct (best_supp genesis (genesis_on_best U m HI)) as (Hs & _ & Hbo).
    unfold block_and_parent. rewrite HG, Hbo, Hs. cbn.
    unfold idx_of, hgt. by rewrite HG, Hh.
  Qed.
End Steps.

Lemma first_split {A} (P : A → Prop) `{∀ x, Decision (P x)} (l : list A) :
  (∃ x, x ∈ l ∧ P x) → ∃ l1 y l2, l = l1 ++ y :: l2 ∧ P y ∧ ∀ x, x ∈ l1 → ¬ P x.
Proof.
  induction l as [|a l IH]; intros (x & Hx & HP); [by apply elem_of_nil in Hx|].
  destruct (decide (P a)) as [Ha|Ha].
  - exists [], a, l. split_and!; [done|done|]. intros y Hy. by apply elem_of_nil in Hy.
  - apply elem_of_cons in Hx as [->|Hx]; [done|].
    destruct IH as (l1 & y & l2 & -> & Hy & Hl1); [eauto|].
    exists (a :: l1), y, l2. split_and!; [done|done|].
    intros z [->|Hz]%elem_of_cons; auto.
Qed.

Lemma filter_all {A} (P : A → Prop) `{∀ x, Decision (P x)} (l : list A) :
  (∀ x, x ∈ l → P x) → filter P l = l.
Proof.
  induction l as [|a l IH]; intros Hl; [done|].
  rewrite filter_cons_True by (apply Hl; left). f_equal. apply IH. intros x Hx. apply Hl. by right.
Qed.
Lemma filter_none {A} (P : A → Prop) `{∀ x, Decision (P x)} (l : list A) :
  (∀ x, x ∈ l → ¬ P x) → filter P l = [].
Proof.
  induction l as [|a l IH]; intros Hl; [done|].
  rewrite filter_cons_False by (apply Hl; left). apply IH. intros x Hx. apply Hl. by right.
Qed.

(** ** The loop and the subscriber's fold, in closed form *)
Section Loop.
  Context (U : universe) (HWF : WF U).

  Lemma lp_chain off f rest : lp U off f → chain U (f :: rest) → chain U (off ++ f :: rest).
  Proof.
    intros Ho (l0 & He & Hl). exists (off ++ l0). split; [by rewrite <- app_assoc, <- He|].
    apply lp_app. split; [|done].
    destruct l0 as [|y l0]; cbn in He; simplify_eq; done.
  Qed.

  (** the subscriber's measure: the size of the symmetric difference between what it
      stands on and the best chain *)
  Definition dist (m : mgr) (s : sub) : nat :=
    (length (filter (λ x, x ∉ best m) (s_shadow s)) +
     length (filter (λ x, x ∉ s_shadow s) (best m)))%nat.

  (** the subscriber invariant: it has nothing, or it stands on [off ++ f :: rest] where
      [f :: rest] is a suffix of the best chain and [off] (its own stale blocks, tip first)
      hangs on [f], lies off the best chain and still has every supplement *)
  Definition SubInv (m : mgr) (s : sub) : Prop :=
    s = sub0 ∨
    ∃ off f pre rest, best m = pre ++ f :: rest ∧ lp U off f ∧
      (∀ x, x ∈ off → x ∉ best m ∧ has_supp m x = true) ∧
      s = Sub (idx_of U (hd f off)) (off ++ f :: rest).

  Context (m : mgr) (HI : MInv U m) (HB : AllBodies m).

  Lemma dist_wit off f pre rest :
    best m = pre ++ f :: rest → (∀ x, x ∈ off → x ∉ best m) →
    dist m (Sub (idx_of U (hd f off)) (off ++ f :: rest)) = (length off + length pre)%nat.
  Proof.
    intros He Hoff. unfold dist. cbn [s_shadow].
    pose proof (chain_NoDup U HWF _ (I_chain U m HI)) as Hnd. rewrite He in Hnd.
    apply NoDup_app in Hnd as (_ & Hdis & _).
    rewrite filter_app, (filter_all _ off) by done.
    rewrite (filter_none _ (f :: rest)) by (intros x Hx Hn; apply Hn; rewrite He; set_solver).
    rewrite He. rewrite filter_app.
    rewrite (filter_all _ pre).
    2:{ intros x Hx [Hin|Hin]%elem_of_app; [|by eapply Hdis].
        apply (Hoff x Hin). rewrite He. set_solver. }
    rewrite (filter_none _ (f :: rest)) by (intros x Hx Hn; apply Hn; set_solver).
    rewrite !app_nil_r. done.
  Qed.

  Lemma loop_apply pre1 : ∀ pre2 f rest k r a,
    best m = pre2 ++ pre1 ++ f :: rest →
    (length pre1 = k ∨ (pre2 = [] ∧ (length pre1 ≤ k)%nat)) →
    us_loop U m k (idx_of U f) r a = UOk r (a ++ rev pre1) (idx_of U (hd f pre1)).
  Proof.
    induction pre1 as [|c p IH] using rev_ind; intros pre2 f rest k r a He Hk.
    - cbn [rev hd]. rewrite app_nil_r. destruct k as [|k]; [done|].
      destruct Hk as [?|[-> _]]; [done|]. cbn [us_loop].
      by rewrite (ustep_stop U HWF m HI HB f rest He).
    - destruct k as [|k]; [rewrite app_length in Hk; cbn in Hk; lia|].
      cbn [us_loop]. rewrite <- app_assoc in He. cbn [app] in He.
      rewrite (ustep_app U HWF m HI HB (pre2 ++ p) c f rest) by (by rewrite <- app_assoc).
      rewrite (IH pre2 c (f :: rest) k r (a ++ [c]) He).
      + rewrite rev_app_distr. cbn [rev app]. rewrite <- app_assoc. cbn [app].
        by rewrite (hd_app_cons p c [] f).
      + rewrite app_length in Hk. cbn [length] in Hk.
        destruct Hk as [Hk|[Hp2 Hk]]; [left; lia|right; split; [done|lia]].
  Qed.

  Lemma loop_revert off1 : ∀ off2 f k r a,
    lp U (off1 ++ off2) f → (∀ x, x ∈ off1 → x ∉ best m ∧ has_supp m x = true) →
    us_loop U m (length off1 + k) (idx_of U (hd f (off1 ++ off2))) r a =
    us_loop U m k (idx_of U (hd f off2)) (r ++ off1) a.
  Proof.
    induction off1 as [|b off1 IH]; intros off2 f k r a Hl Hoff.
    - cbn. by rewrite app_nil_r.
    - cbn [length Nat.add app hd us_loop]. cbn [app lp] in Hl. destruct Hl as (Hg & HUb & Hp & Hl).
      destruct (Hoff b) as [Hnb Hs]; [by left|].
      rewrite (ustep_rev U HWF m HI HB b Hnb Hs Hg), Hp.
      rewrite IH; [|done|intros x Hx; apply Hoff; by right].
      by rewrite <- app_assoc.
  Qed.

  Lemma fold_revert off1 : ∀ off2 f tl,
    lp U (off1 ++ off2) f →
    sub_fold (sub_revert U) (Sub (idx_of U (hd f (off1 ++ off2))) (off1 ++ off2 ++ tl)) off1 =
    Some (Sub (idx_of U (hd f off2)) (off2 ++ tl)).
  Proof.
    induction off1 as [|b off1 IH]; intros off2 f tl Hl; [done|].
    cbn [app lp] in Hl. destruct Hl as (Hg & HUb & Hp & Hl).
    cbn [sub_fold app]. unfold sub_revert at 1. cbn [s_shadow]. rewrite N.eqb_refl.
    rewrite parent_of_par, Hp. by apply IH.
  Qed.

  Lemma fold_apply pre1 : ∀ f rest,
    lp U pre1 f →
    sub_fold (sub_apply U) (Sub (idx_of U f) (f :: rest)) (rev pre1) =
    Some (Sub (idx_of U (hd f pre1)) (pre1 ++ f :: rest)).
  Proof.
    induction pre1 as [|c p IH] using rev_ind; intros f rest Hl; [done|].
    apply lp_snoc in Hl as (Hp & Hg & HUc & Hpar).
    rewrite rev_app_distr. cbn [rev app sub_fold]. unfold sub_apply at 1. cbn [s_shadow].
    rewrite parent_of_par, Hpar, N.eqb_refl, (proj2 (N.eqb_neq _ _) Hg). cbn.
    rewrite (IH c (f :: rest) Hp), <- app_assoc. cbn [app]. by rewrite (hd_app_cons p c [] f).
  Qed.

  Lemma poll_sub0 k : poll U m sub0 (S k) = poll U m (Sub (idx_of U genesis) [genesis]) k.
  Proof.
    unfold poll, updates_since. cbn [s_idx sub0 us_loop].
    rewrite (ustep_none U HWF m HI HB). cbn [app].
    rewrite us_loop_acc.
    destruct (us_loop U m k (idx_of U genesis) [] []) as [r a l|] eqn:E; [|done].
    assert (r = []) as ->.
    { eapply (loop_on_best U m k (idx_of U genesis)); [|done].
      unfold on_best_idx, idx_of. destruct (I_chain U m HI) as (l0 & He & _).
      pose proof (best_at_split m l0 genesis [] He) as Hb. rewrite hgt_ht, (ht_genesis U HWF).
      change (N.of_nat (length [])) with 0 in Hb. rewrite Hb. apply N.eqb_refl. }
    cbn [app sub_fold]. unfold sub_apply at 1. cbn. done.
  Qed.

  Lemma SubInv_genesis : SubInv m (Sub (idx_of U genesis) [genesis]).
  Proof.
    right. destruct (I_chain U m HI) as (l0 & He & _).
    exists [], genesis, l0, []. split_and!; [done|done| |done].
    intros x Hx. by apply elem_of_nil in Hx.
  Qed.

  Lemma dist_sub0 : dist m sub0 = length (best m).
  Proof.
    unfold dist. cbn. f_equal. apply filter_all. intros x _ Hx. by apply elem_of_nil in Hx.
  Qed.

  Lemma poll_wit off f pre rest k :
    best m = pre ++ f :: rest → lp U off f →
    (∀ x, x ∈ off → x ∉ best m ∧ has_supp m x = true) →
    ∃ s', poll U m (Sub (idx_of U (hd f off)) (off ++ f :: rest)) k = POk s' ∧ SubInv m s' ∧
          dist m s' = (length off + length pre - k)%nat ∧
          ∃ rus aus l, updates_since U m (idx_of U (hd f off)) k = UOk rus aus l ∧ s_idx s' = l ∧
                       (length rus + length aus = Nat.min k (length off + length pre))%nat.
  Proof.
    intros He Hl Hoff. unfold poll, updates_since. cbn [s_idx].
    destruct (le_lt_dec k (length off)) as [Hk|Hk].
    - (* only reverts *)
      pose proof (take_drop k off) as Hsplit.
      set (off1 := take k off) in *. set (off2 := drop k off) in *.
      assert (length off1 = k) as Hl1 by (unfold off1; rewrite take_length; lia).
      rewrite <- Hsplit in Hl.
      pose proof (loop_revert off1 off2 f 0 [] [] Hl) as Hlr.
      rewrite Nat.add_0_r, Hl1, Hsplit in Hlr. rewrite Hlr.
      2:{ intros x Hx. apply Hoff. rewrite <- Hsplit. set_solver. }
      cbn [us_loop app].
      pose proof (fold_revert off1 off2 f (f :: rest) Hl) as Hfr.
      rewrite Hsplit in Hfr.
      replace (off ++ f :: rest) with (off1 ++ off2 ++ f :: rest) by (by rewrite app_assoc, Hsplit).
      rewrite Hfr. cbn [sub_fold].
      eexists. split; [done|]. split; [|split].
      + right. exists off2, f, pre, rest. split_and!; [done| |  |done].
        * by apply lp_app in Hl as [_ ?].
        * intros x Hx. apply Hoff. rewrite <- Hsplit. set_solver.
      + rewrite (dist_wit off2 f pre rest); [|done|intros x Hx; apply Hoff; rewrite <- Hsplit; set_solver].
        assert (length off = (length off1 + length off2)%nat) by (by rewrite <- Hsplit, app_length).
        lia.
      + eexists _, _, _. split; [done|]. split; [done|]. cbn [length]. lia.
    - (* all reverts, then applies *)
      set (k' := (k - length off)%nat).
      pose proof (loop_revert off [] f k' [] []) as Hlr. rewrite app_nil_r in Hlr.
      replace (length off + k')%nat with k in Hlr by (unfold k'; lia).
      rewrite Hlr by done. cbn [hd app].
      set (n2 := (length pre - k')%nat).
      pose proof (take_drop n2 pre) as Hsplit.
      set (pre2 := take n2 pre) in *. set (pre1 := drop n2 pre) in *.
      assert (length pre1 = (length pre - n2)%nat) as Hl1 by (unfold pre1; by rewrite drop_length).
      assert (best m = pre2 ++ pre1 ++ f :: rest) as He2 by (by rewrite app_assoc, Hsplit).
      rewrite (loop_apply pre1 pre2 f rest k' off [] He2).
      2:{ destruct (le_lt_dec (length pre) k') as [Hle|Hlt].
          - right. split; [|lia]. unfold pre2, n2. replace (length pre - k')%nat with 0%nat by lia. done.
          - left. unfold n2 in Hl1. lia. }
      pose proof (fold_revert off [] f (f :: rest)) as Hfr. rewrite app_nil_r in Hfr.
      cbn [app hd] in Hfr. rewrite Hfr by done. cbn [app].
      assert (lp U pre1 f) as Hlp1.
      { pose proof (I_chain U m HI) as Hc. rewrite He2, app_assoc in Hc.
        apply chain_split_at in Hc as [Hc _]. by apply lp_app in Hc as [_ ?]. }
      rewrite (fold_apply pre1 f rest Hlp1).
      eexists. split; [done|]. split; [|split].
      + right. destruct pre1 as [|c p] eqn:Ep.
        * exists [], f, pre2, rest. cbn [hd app] in *. split_and!; [done|done| |done].
          intros x Hx. by apply elem_of_nil in Hx.
        * exists [], c, pre2, (p ++ f :: rest). cbn [hd app] in *. split_and!; [done|done| |done].
          intros x Hx. by apply elem_of_nil in Hx.
      + assert (dist m (Sub (idx_of U (hd f pre1)) (pre1 ++ f :: rest)) = length pre2) as ->.
        { destruct pre1 as [|c p] eqn:Ep; cbn [hd app] in *.
          - apply (dist_wit [] f pre2 rest); [done|]. intros x Hx. by apply elem_of_nil in Hx.
          - apply (dist_wit [] c pre2 (p ++ f :: rest)); [done|]. intros x Hx. by apply elem_of_nil in Hx. }
        assert (length pre = (length pre2 + length pre1)%nat) by (by rewrite <- Hsplit, app_length).
        unfold n2, k' in *. lia.
      + eexists _, _, _. split; [done|]. split; [done|]. cbn [app]. rewrite rev_length.
        unfold n2, k' in *. lia.
  Qed.

  (** a poll never fails, keeps the invariant, and lowers the measure by [max] (or to 0) *)
  Lemma poll_ok s k :
    SubInv m s →
    ∃ s', poll U m s k = POk s' ∧ SubInv m s' ∧ dist m s' = (dist m s - k)%nat.
  Proof.
    intros [->|(off & f & pre & rest & He & Hl & Hoff & ->)].
    - destruct k as [|k].
      + exists sub0. split; [done|]. split; [by left|lia].
      + rewrite poll_sub0. destruct (I_chain U m HI) as (l0 & He & _).
        destruct (poll_wit [] genesis l0 [] k He) as (s' & Hp & Hs & Hd & _); [done| |].
        { intros x Hx. by apply elem_of_nil in Hx. }
        exists s'. split; [done|]. split; [done|]. rewrite Hd, dist_sub0, He, app_length. cbn. lia.
    - destruct (poll_wit off f pre rest k He Hl Hoff) as (s' & Hp & Hs & Hd & _).
      exists s'. split; [done|]. split; [done|]. rewrite Hd, (dist_wit off f pre rest); [done|done|].
      intros x Hx. by apply Hoff.
  Qed.

  Lemma dist_zero s : SubInv m s → dist m s = 0%nat → s = Sub (tip_index m) (best m).
  Proof.
    intros [->|(off & f & pre & rest & He & Hl & Hoff & ->)] Hd.
    - rewrite dist_sub0 in Hd. pose proof (chain_nonempty U _ (I_chain U m HI)).
      destruct (best m); done.
    - rewrite (dist_wit off f pre rest) in Hd; [|done|intros x Hx; by apply Hoff].
      destruct off; [|cbn in Hd; lia]. destruct pre; [|cbn in Hd; lia]. cbn [app hd] in *.
      rewrite (tip_index_idx U HWF m (I_chain U m HI)). unfold tip. by rewrite He.
  Qed.

  Lemma dist_tip s : SubInv m s → s_idx s = tip_index m → dist m s = 0%nat ∧ s_shadow s = best m.
  Proof.
    intros [->|(off & f & pre & rest & He & Hl & Hoff & ->)]; [done|].
    rewrite (tip_index_idx U HWF m (I_chain U m HI)). cbn [s_idx s_shadow]. intros [= _ Hh].
    rewrite (dist_wit off f pre rest); [|done|intros x Hx; by apply Hoff].
    destruct off as [|b off].
    - cbn [hd app length] in *. assert (pre = []) as ->; [|by rewrite He].
      pose proof (chain_NoDup U HWF _ (I_chain U m HI)) as Hnd. rewrite He in Hnd.
      destruct pre as [|c pre]; [done|]. unfold tip in Hh. rewrite He in Hh. cbn in Hh. subst c.
      apply NoDup_cons in Hnd as [Hn _]. exfalso. apply Hn. set_solver.
    - exfalso. cbn [hd] in Hh. destruct (Hoff b) as [Hn _]; [by left|].
      apply Hn. rewrite Hh. by apply (tip_in_best U HWF m HI HB).
  Qed.

  (** the index of a subscriber is a block the store holds, with its supplement *)
  Lemma SubInv_held s : SubInv m s → s = sub0 ∨ ∃ b, s_idx s = idx_of U b ∧ has_supp m b = true.
  Proof.
    intros [->|(off & f & pre & rest & He & Hl & Hoff & ->)]; [by left|right].
    exists (hd f off). split; [done|]. destruct off as [|b off]; cbn [hd].
    - apply (best_supp U HWF m HI HB). rewrite He. set_solver.
    - apply Hoff. by left.
  Qed.
End Loop.

(** ** Histories: polls interleaved with calls on the manager *)
Section Hist.
  Context (U : universe) (HWF : WF U).

  Lemma ext_supp L m m' x : ext L m m' → has_supp m x = true → has_supp m' x = true.
  Proof.
    intros He (k & Hk & Hb & Hs)%has_supp_true.
    destruct (He x k Hk) as (k' & Hk' & Hb' & Hs' & _). apply has_supp_true.
    exists k'. auto.
  Qed.

  (** a block that is (or was) on the best chain: a subscriber standing there satisfies the
      invariant *)
  Lemma SubInv_on_best m pre b rest :
    best m = pre ++ b :: rest → SubInv U m (Sub (idx_of U b) (b :: rest)).
  Proof.
    intros He. right. exists [], b, pre, rest. split_and!; [done|done| |done].
    intros x Hx. by apply elem_of_nil in Hx.
  Qed.

  Definition no_prune (o : mop) : Prop := ∀ h, o ≠ Prune h.

  (** the invariant survives every call other than PruneBlocks, whatever it does to the
      best chain *)
  Lemma SubInv_mstep m o s :
    MInv U m → AllBodies m → op_pre U o → no_prune o → SubInv U m s →
    SubInv U (mstep U m o).1.1 s.
  Proof.
    intros HI HB Hpre Hnp [->|(off & f & pre & rest & He & Hl & Hoff & ->)]; [by left|].
    destruct (mstep_spec U HWF m o HI Hpre) as [H1 _].
    destruct (mstep U m o) as [[m' out] nt]. cbn.
    destruct H1 as [(HI' & _ & Hext)|((h & ->) & _)]; [|by destruct (Hnp h)].
    right. set (sh := off ++ f :: rest).
    assert (chain U sh) as Hsh.
    { apply lp_chain; [done|]. pose proof (I_chain U m HI) as Hc. rewrite He in Hc.
      by apply chain_split_at in Hc as [_ ?]. }
    assert (∀ x, x ∈ sh → has_supp m' x = true) as Hsupp.
    { intros x [Hx|Hx]%elem_of_app; eapply ext_supp; eauto.
      - by apply Hoff.
      - apply (best_supp U HWF m HI HB). rewrite He. set_solver. }
    destruct (first_split (λ x, x ∈ best m') sh) as (off' & f' & rest'' & Hsplit & Hf' & Hoff').
    { exists genesis. split; [|by apply (genesis_on_best U)].
      destruct Hsh as (l0 & -> & _). set_solver. }
    apply elem_of_list_split in Hf' as (pre' & rest' & He').
    rewrite Hsplit in Hsh. destruct (chain_split_at U _ _ _ Hsh) as [Hl' Hc1].
    pose proof (I_chain U m' HI') as Hc'. rewrite He' in Hc'. apply chain_split_at in Hc' as [_ Hc2].
    pose proof (chain_det U HWF _ _ Hc1 Hc2 eq_refl) as Heq. simplify_eq.
    exists off', f', pre', rest'. split_and!; [done|done| |].
    - intros x Hx. split; [by apply Hoff'|]. apply Hsupp. rewrite Hsplit. set_solver.
    - f_equal; [|done]. f_equal.
      rewrite <- (hd_app_cons off f rest genesis), <- (hd_app_cons off' f' rest' genesis).
      by rewrite Hsplit.
  Qed.

  Definition hop_ok (h : hop) : Prop :=
    match h with HOp o => op_pre U o ∧ no_prune o | _ => True end.

  Record HInv (st : mgr * sub) : Prop := {
    H_inv : MInv U st.1;
    H_bodies : AllBodies st.1;
    H_sub : SubInv U st.1 st.2;
  }.

  Lemma hstep_inv st h : HInv st → hop_ok h → HInv (hstep U st h).
  Proof.
    intros [HI HB HS] Hok. destruct st as [m s], h as [o|max|acc]; cbn in *.
    - destruct Hok as [Hpre Hnp]. split; cbn.
      + by apply (mstep_inv U HWF).
      + by apply AB_mstep.
      + by apply SubInv_mstep.
    - destruct (poll_ok U HWF m HI HB s max HS) as (s' & -> & HS' & _). by split.
    - by split.
  Qed.

  Lemma hrun_from_inv hs : ∀ st, HInv st → Forall hop_ok hs → HInv (hrun_from U st hs).
  Proof.
    induction hs as [|h hs IH]; intros st Hst Hok; [done|].
    apply Forall_cons in Hok as [Hh Hok]. cbn. apply IH; [|done]. by apply hstep_inv.
  Qed.

  Lemma HInv_init : HInv (init, sub0).
  Proof. split; cbn; [apply (MInv_init U HWF)|apply AB_init|by left]. Qed.

  Lemma hrun_inv hs : Forall hop_ok hs → HInv (hrun U hs).
  Proof. apply hrun_from_inv, HInv_init. Qed.

  (** polls are reads: the manager's state is the one its own calls produced *)
  Lemma hrun_from_mgr hs : ∀ st,
    (hrun_from U st hs).1 = fold_left (λ m o, (mstep U m o).1.1) (mops_of hs) st.1.
  Proof.
    induction hs as [|h hs IH]; intros [m s]; [done|].
    cbn [hrun_from fold_left mops_of flat_map]. rewrite fold_left_app.
    change (fold_left (hstep U) hs (hstep U (m, s) h)) with (hrun_from U (hstep U (m, s) h) hs).
    rewrite IH. unfold mops_of. destruct h as [o|max|acc]; cbn; [done| |done].
    by destruct (poll U m s max).
  Qed.

  Lemma hrun_mgr hs : (hrun U hs).1 = mrun U (mops_of hs).
  Proof. unfold hrun. by rewrite hrun_from_mgr. Qed.

  (** *** C04_chunk_bounded_contiguous *)
  Lemma revs_walk_last r : ∀ i b j,
    revs_walk U i (r ++ [b]) = Some j → j = idx_of U (parent_of U b).
  Proof.
    induction r as [|x r IH]; intros i b j; cbn [app revs_walk].
    - destruct i as [[h b0]|]; [|done]. destruct (b0 =? b); [|done]. by intros [= <-].
    - destruct i as [[h b0]|]; [|done]. destruct (b0 =? x); [|done]. apply IH.
  Qed.

  Lemma apps_walk_last m a : ∀ i b l,
    apps_walk m i (a ++ [b]) = Some l → ∃ h', l = Some (h', b) ∧ best_at m h' = Some b.
  Proof.
    induction a as [|x a IH]; intros i b l; cbn [app apps_walk].
    - destruct (next_best m i) as [[h' b']|] eqn:En; [|done].
      destruct (b' =? b) eqn:Eb; [|done]. apply N.eqb_eq in Eb as ->. intros [= <-].
      exists h'. split; [done|]. unfold next_best in En. destruct i as [[h0 b0]|].
      + destruct (best_at m (h0 + 1)) eqn:E; [|done]. by simplify_eq.
      + destruct (best_at m 0) eqn:E; [|done]. by simplify_eq.
    - destruct (next_best m i) as [[h' b']|]; [|done]. destruct (b' =? x); [|done]. apply IH.
  Qed.

  Lemma idx_after_ok m i r a j l :
    chain U (best m) → revs_walk U i r = Some j → apps_walk m j a = Some l →
    idx_after U i r a = l.
  Proof.
    intros Hc Hr Ha. unfold idx_after.
    destruct a as [|b a _] using rev_ind.
    - cbn in Ha. simplify_eq. cbn [rev].
      destruct r as [|b r _] using rev_ind; [cbn in *; by simplify_eq|].
      rewrite rev_app_distr. cbn [rev app]. symmetry. by eapply revs_walk_last.
    - rewrite rev_app_distr. cbn [rev app].
      apply apps_walk_last in Ha as (h' & -> & Hb).
      apply best_at_inv in Hb as (pre & rest & He & ->).
      rewrite He in Hc. apply (chain_pos U HWF) in Hc. unfold idx_of. by rewrite hgt_ht, Hc.
  Qed.

  Lemma chunk_bounded_contiguous m i max rus aus l :
    updates_since U m i max = UOk rus aus l →
    (length rus + length aus ≤ max)%nat ∧
    (l = tip_index m ∨ (length rus + length aus)%nat = max) ∧
    (∃ j, revs_walk U i rus = Some j ∧ apps_walk m j aus = Some l) ∧
    (∀ b, b ∈ rus ++ aus → has_supp m b = true) ∧
    (MInv U m → idx_after U i rus aus = l).
  Proof.
    intros E. destruct (loop_shape U m max i rus aus l E) as (j & Hr & Ha & Hl & Hs & Hsr & Hsa).
    split_and!; [done|done|by exists j| |].
    - intros b [Hb|Hb]%elem_of_app; auto.
    - intros HI. eapply idx_after_ok; eauto. apply (I_chain U m HI).
  Qed.

  (** *** C04_catches_up *)
  Fixpoint polls (m : mgr) (max : nat) (n : nat) (s : sub) : sub :=
    match n with
    | O => s
    | S n' => polls m max n' (match poll U m s max with POk s' => s' | _ => s end)
    end.

  Lemma polls_reach m max : MInv U m → AllBodies m → (1 ≤ max)%nat →
    ∀ n s, SubInv U m s → (dist m s ≤ n)%nat → polls m max n s = Sub (tip_index m) (best m).
  Proof.
    intros HI HB Hmax. induction n as [|n IH]; intros s HS Hd; cbn [polls].
    - apply (dist_zero U HWF m HI HB s HS). lia.
    - destruct (poll_ok U HWF m HI HB s max HS) as (s' & -> & HS' & Hd'). apply IH; [done|lia].
  Qed.

  Lemma catches_up_quiescent m s max :
    MInv U m → AllBodies m → SubInv U m s → (1 ≤ max)%nat →
    (∃ s', poll U m s max = POk s' ∧ SubInv U m s' ∧ dist m s' = (dist m s - max)%nat ∧
           (s_idx s ≠ tip_index m → (dist m s' < dist m s)%nat)) ∧
    (dist m s = 0%nat ↔ s_idx s = tip_index m) ∧
    polls m max (dist m s) s = Sub (tip_index m) (best m).
  Proof.
    intros HI HB HS Hmax. split_and!.
    - destruct (poll_ok U HWF m HI HB s max HS) as (s' & Hp & HS' & Hd).
      exists s'. split_and!; [done|done|done|]. intros Hne.
      destruct (dist m s) eqn:E; [|lia].
      exfalso. apply Hne. by rewrite (dist_zero U HWF m HI HB s HS E).
    - split.
      + intros E. by rewrite (dist_zero U HWF m HI HB s HS E).
      + intros E. by apply (dist_tip U HWF m HI HB s HS E).
    - by apply polls_reach.
  Qed.

  (** with interleaved submissions: a poll never fails and never breaks the fold, the
      invariant holds after every step, and the index is a block the store holds with its
      supplement *)
  Lemma catches_up_interleaved hs :
    Forall hop_ok hs →
    let st := hrun U hs in
    SubInv U st.1 st.2 ∧
    (∀ max, ∃ s', poll U st.1 st.2 max = POk s' ∧ dist st.1 s' = (dist st.1 st.2 - max)%nat) ∧
    (st.2 = sub0 ∨ ∃ b, s_idx st.2 = idx_of U b ∧ has_supp st.1 b = true).
  Proof.
    intros Hok. destruct (hrun_inv hs Hok) as [HI HB HS]. cbn. split_and!; [done| |].
    - intros max. destruct (poll_ok U HWF _ HI HB _ max HS) as (s' & Hp & _ & Hd). eauto.
    - by apply (SubInv_held U HWF _ HI HB).
  Qed.

  (** *** C04_path_is_chain *)
  Lemma path_is_chain hs :
    Forall hop_ok hs →
    let st := hrun U hs in
    (st.2 = sub0 ∨ (chain U (s_shadow st.2) ∧ s_idx st.2 = idx_of U (hd genesis (s_shadow st.2)))) ∧
    (s_idx st.2 = tip_index st.1 → s_shadow st.2 = best st.1).
  Proof.
    intros Hok. destruct (hrun_inv hs Hok) as [HI HB HS]. cbn. split.
    - destruct HS as [->|(off & f & pre & rest & He & Hl & Hoff & Hs)]; [by left|right].
      rewrite Hs. cbn [s_shadow s_idx]. split.
      + apply lp_chain; [done|]. pose proof (I_chain U _ HI) as Hc. rewrite He in Hc.
        by apply chain_split_at in Hc as [_ ?].
      + by rewrite hd_app_cons.
    - intros E. by apply (dist_tip U HWF _ HI HB _ HS E).
  Qed.

  (** *** C04_unknown_index_is_error *)
  Lemma unknown_index_is_error m h b max :
    MInv U m → known m !! b = None → (1 ≤ max)%nat →
    updates_since U m (Some (h, b)) max = UErr.
  Proof.
    intros HI Hk Hmax. destruct max as [|max]; [lia|]. unfold updates_since. cbn [us_loop].
    assert (∀ x, x ∈ best m → x ≠ b) as Hnb.
    { intros x Hx ->. destruct (I_best U m HI b Hx) as (k & Hk' & _). congruence. }
    unfold ustep.
    assert (index_eqb (Some (h, b)) (tip_index m) = false) as ->.
    { cbn. apply andb_false_iff. right. apply N.eqb_neq. intros ->.
      eapply Hnb; [|done]. pose proof (chain_nonempty U _ (I_chain U m HI)).
      unfold tip. destruct (best m); [done|]. cbn. by left. }
    assert (on_best_idx m (Some (h, b)) = false) as ->.
    { cbn. destruct (best_at m h) as [b'|] eqn:E; [|done]. apply N.eqb_neq.
      apply Hnb. eapply best_at_elem; eauto. }
    cbn [negb].
    destruct (b =? genesis); [done|]. unfold block_and_parent.
    destruct (U !! b); [|done]. unfold has_body. by rewrite Hk.
  Qed.

  (** *** C04_notify_iff_tip_changed *)
  Lemma notify_iff_tip_changed_hist hs h :
    ops_pre U (mops_of hs) → (∀ o, h = HOp o → op_pre U o) →
    (hnotifies U (hrun U hs).1 h = true ↔ tip (hstep U (hrun U hs) h).1 ≠ tip (hrun U hs).1) ∧
    ((∀ o, h ≠ HOp o) → (hstep U (hrun U hs) h).1 = (hrun U hs).1).
  Proof.
    intros Hops Ho. split.
    - destruct h as [o|max|acc]; cbn [hnotifies hstep].
      + destruct (mstep U (hrun U hs).1 o) as [[m' out] nt] eqn:E. cbn.
        rewrite hrun_mgr in *. eapply (notify_iff_tip_changed U HWF); eauto.
      + split; [done|]. intros Hne. exfalso. apply Hne. by destruct (poll U _ _ max).
      + split; [done|]. intros Hne. by exfalso.
    - intros Hne. destruct h as [o'|mx|acc]; cbn [hstep]; [by destruct (Hne o')| |done].
      by destruct (poll U _ _ mx).
  Qed.

  Lemma from_any_reached_index :
    (∀ m pre b rest, best m = pre ++ b :: rest → SubInv U m (Sub (idx_of U b) (b :: rest))) ∧
    (∀ hs st, HInv st → Forall hop_ok hs → HInv (hrun_from U st hs)).
  Proof using All. split; [exact SubInv_on_best|exact hrun_from_inv]. Qed.
End Hist.

(** * Examples: the hypotheses of the theorems are met by a concrete history with a reorg *)
Module ExU.
  Import Ex.
  (** main chain 1-2-3; a subscriber from nothing polls to the tip (max 2, then 7); the fork
      4-5-7 takes over; the subscriber is now two blocks deep on a stale branch *)
  Definition hs1 : list hop :=
    [HOp (AddBlocks [1; 2; 3]); HPoll 2; HPoll 7; HOp (AddBlocks [4; 5; 7])].
  Example hs1_ok : Forall (hop_ok U) hs1.
  Proof. repeat constructor; intros h; discriminate. Qed.
  Example hs1_pre : ops_pre U (mops_of hs1).
  Proof. repeat constructor. Qed.
  Example hs1_run :
    best (hrun U hs1).1 = [7; 5; 4; 1; 0] ∧ (hrun U hs1).2 = Sub (Some (3, 3)) [3; 2; 1; 0].
  Proof. vm_compute. split; reflexivity. Qed.
  (** a chunk that ends on a revert, one that crosses the fork point, and the rest *)
  Example stale_chunk_1 : updates_since U (hrun U hs1).1 (Some (3, 3)) 1 = UOk [3] [] (Some (2, 2)).
  Proof. vm_compute. reflexivity. Qed.
  Example stale_chunk_3 : updates_since U (hrun U hs1).1 (Some (3, 3)) 3 = UOk [3; 2] [4] (Some (2, 4)).
  Proof. vm_compute. reflexivity. Qed.
  Example stale_dist : dist (hrun U hs1).1 (hrun U hs1).2 = 5%nat.
  Proof. vm_compute. reflexivity. Qed.
  Example stale_catches_up :
    polls U (hrun U hs1).1 2 3 (hrun U hs1).2 = Sub (Some (4, 7)) [7; 5; 4; 1; 0].
  Proof. vm_compute. reflexivity. Qed.
  (** an id the store never held *)
  Example unknown_ex :
    known (hrun U hs1).1 !! 10 = None ∧ updates_since U (hrun U hs1).1 (Some (3, 10)) 5 = UErr.
  Proof. vm_compute. split; reflexivity. Qed.
  (** a block stored but never applied (6: body invalid) is not a subscriber index either *)
  Example never_applied_ex :
    updates_since U (mrun U ops2) (Some (4, 6)) 5 = UErr.
  Proof. vm_compute. reflexivity. Qed.
  (** the reorg was notified, the failed one was not *)
  Example notified_ex :
    (mstep U (hrun U (take 3 hs1)).1 (AddBlocks [4; 5; 7])).2 = true ∧
    (mstep U (hrun U (take 3 hs1)).1 (AddBlocks [4; 5; 6])).2 = false.
  Proof. vm_compute. split; reflexivity. Qed.
  (** a pool submission (accepted or not) neither moves the tip nor notifies reorg listeners *)
  Example pool_ex :
    hnotifies U (hrun U hs1).1 (HPool true) = false ∧
    hstep U (hrun U hs1) (HPool true) = hrun U hs1 ∧
    (hrun U (hs1 ++ [HPool true; HPool false])).1 = (hrun U hs1).1.
  Proof. vm_compute. split_and!; reflexivity. Qed.
End ExU.
