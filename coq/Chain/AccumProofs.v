(** * Chain/AccumProofs.v — proofs about the Tree bucket model (C02) *)
From Coq Require Import NArith List Lia ZifyNat ZifyN.
Import ListNotations.
From stdpp Require Import gmap.
From CV Require Import Chain.Accum.
Open Scope N_scope.

(** ** Powers of two and shifts *)
Lemma pow2_pos r : 0 < pow2 r.
Proof. unfold pow2. apply N.neq_0_lt_0, N.pow_nonzero. done. Qed.
Lemma pow2_nz r : pow2 r ≠ 0.
Proof. pose proof (pow2_pos r). lia. Qed.
Lemma pow2_0 : pow2 0 = 1.
Proof. done. Qed.
Lemma pow2_S r : pow2 (S r) = 2 * pow2 r.
Proof. unfold pow2. rewrite Nat2N.inj_succ, N.pow_succ_r'. done. Qed.
Lemma pow2_add a b : pow2 (a + b) = pow2 a * pow2 b.
Proof. unfold pow2. rewrite Nat2N.inj_add, N.pow_add_r. done. Qed.
Lemma shr_div i r : shr i r = i / pow2 r.
Proof. apply N.shiftr_div_pow2. Qed.
Lemma div_pow2_add i a b : i / pow2 a / pow2 b = i / pow2 (a + b).
Proof. rewrite N.div_div, <- pow2_add by apply pow2_nz. done. Qed.
Lemma div_pow2_S i r : i / pow2 (S r) = i / pow2 r / 2.
Proof. rewrite pow2_S, (N.mul_comm 2), <- N.div_div by (apply pow2_nz || done). done. Qed.

Lemma lxor_1 a : N.lxor a 1 = if N.even a then a + 1 else a - 1.
Proof. destruct a as [|[p|p|]]; cbn; try reflexivity; destruct p; reflexivity. Qed.

Lemma div2_odd H : (2 * H + 1) / 2 = H.
Proof. symmetry. apply (N.div_unique _ 2 H 1); lia. Qed.
Lemma mod2_odd H : (2 * H + 1) mod 2 = 1.
Proof. symmetry. apply (N.mod_unique _ 2 H 1); lia. Qed.
Lemma div2_even H : 2 * H / 2 = H.
Proof. rewrite N.mul_comm, N.div_mul by done. done. Qed.

Lemma even_odd_cases a : (N.even a = true ∧ a = 2 * (a / 2)) ∨ (N.even a = false ∧ a = 2 * (a / 2) + 1).
Proof.
  pose proof (N.div_mod' a 2) as H. pose proof (N.mod_upper_bound a 2 ltac:(done)) as Hm.
  destruct (N.even a) eqn:E.
  - left. split; [done|]. apply N.even_spec in E as [k ->].
    rewrite N.mul_comm, N.div_mul by done. lia.
  - right. split; [done|].
    assert (N.odd a = true) as Ho by (rewrite <- N.negb_even, E; done).
    apply N.odd_spec in Ho as [k ->].
    by rewrite div2_odd.
Qed.

(** ** The highest bit in which a leaf differs from the size above it *)
Lemma split_bits leaf n :
  leaf < n →
  ∃ H, leaf / pow2 (plen leaf n) = 2 * H ∧ n / pow2 (plen leaf n) = 2 * H + 1.
Proof.
  intros Hlt. unfold plen. set (x := N.lxor leaf n).
  assert (x ≠ 0) as Hx by (intros H0; apply N.lxor_eq in H0; lia).
  rewrite (N.size_log2 x Hx). replace (N.succ (N.log2 x) - 1) with (N.log2 x) by lia.
  set (D := N.log2 x). unfold pow2. rewrite N2Nat.id.
  assert (leaf / 2 ^ D / 2 = n / 2 ^ D / 2) as Hhi.
  { rewrite !N.div_div by (try apply N.pow_nonzero; done).
    replace (2 ^ D * 2) with (2 ^ N.succ D) by (rewrite N.pow_succ_r'; lia).
    apply N.bits_inj. intros m. rewrite !N.div_pow2_bits.
    assert (N.testbit x (m + N.succ D) = false) as Hb by (apply N.bits_above_log2; fold D; lia).
    unfold x in Hb. rewrite N.lxor_spec in Hb.
    destruct (N.testbit leaf _), (N.testbit n _); done. }
  assert ((leaf / 2 ^ D) mod 2 ≠ (n / 2 ^ D) mod 2) as Hlo.
  { pose proof (N.bit_log2 x Hx) as Hb. fold D in Hb. unfold x in Hb.
    rewrite N.lxor_spec, !N.testbit_eqb in Hb. intros He. rewrite He in Hb.
    by destruct (_ =? _). }
  assert (leaf / 2 ^ D <= n / 2 ^ D) as Hle
    by (apply N.div_le_mono; [apply N.pow_nonzero; done|lia]).
  pose proof (N.div_mod' (leaf / 2 ^ D) 2) as E1. pose proof (N.div_mod' (n / 2 ^ D) 2) as E2.
  pose proof (N.mod_upper_bound (leaf / 2 ^ D) 2 ltac:(done)).
  pose proof (N.mod_upper_bound (n / 2 ^ D) 2 ltac:(done)).
  exists (leaf / 2 ^ D / 2). lia.
Qed.

(** C02_get_proof_reads_live: every sibling getElementProof reads is live *)
Theorem get_proof_reads_live leaf n r :
  leaf < n → (r < plen leaf n)%nat → alive n r (sib leaf r).
Proof.
  intros Hlt Hr. destruct (split_bits leaf n Hlt) as (H & HL & HN).
  set (d := plen leaf n) in *. unfold alive, sib. rewrite shr_div.
  set (L := leaf / pow2 r). set (e := (d - r)%nat).
  assert (d = (r + e)%nat) as Hd by lia.
  assert (L / pow2 e = 2 * H) as HLe by (unfold L; rewrite div_pow2_add, <- Hd; done).
  assert (e = S (e - 1)) as He by lia.
  assert (L < (2 * H + 1) * pow2 e) as Hub.
  { pose proof (N.mul_succ_div_gt L (pow2 e) (pow2_nz e)) as Hg. rewrite HLe in Hg. lia. }
  assert (N.lxor L 1 + 1 <= (2 * H + 1) * pow2 e) as Hs.
  { rewrite lxor_1. rewrite He, pow2_S in Hub |- *.
    destruct (even_odd_cases L) as [[-> E]|[-> E]]; lia. }
  pose proof (N.mul_div_le n (pow2 d) (pow2_nz d)) as Hn. rewrite HN in Hn.
  rewrite Hd, pow2_add in Hn.
  pose proof (pow2_pos r). nia.
Qed.

(** a live node that contains leaf [i] lies on the path from [i] to the root of its tree *)
Lemma alive_on_path i n r :
  i < n → alive n r (i / pow2 r) → (r <= plen i n)%nat.
Proof.
  intros Hlt Ha. destruct (split_bits i n Hlt) as (H & HL & HN).
  set (d := plen i n) in *.
  destruct (decide (r <= d)%nat) as [|Hgt]; [done|exfalso].
  set (k := (r - d - 1)%nat). assert (r = (d + S k)%nat) as Hr by lia.
  unfold alive in Ha.
  assert (i / pow2 r = n / pow2 r) as He.
  { rewrite Hr, <- !div_pow2_add, HL, HN, !div_pow2_S.
    replace (2 * H / pow2 k / 2) with (2 * H / 2 / pow2 k)
      by (rewrite !N.div_div by (try apply pow2_nz; done); f_equal; lia).
    replace ((2 * H + 1) / pow2 k / 2) with ((2 * H + 1) / 2 / pow2 k)
      by (rewrite !N.div_div by (try apply pow2_nz; done); f_equal; lia).
    by rewrite div2_even, div2_odd. }
  rewrite He in Ha.
  pose proof (N.mul_succ_div_gt n (pow2 r) (pow2_nz r)). lia.
Qed.

(** the tree of [leaf] is the peak of height [plen leaf n] *)
Lemma leaf_peak leaf n :
  leaf < n →
  N.testbit n (N.of_nat (plen leaf n)) = true ∧
  leaf / pow2 (plen leaf n) = 2 * (n / pow2 (S (plen leaf n))).
Proof.
  intros Hlt. destruct (split_bits leaf n Hlt) as (H & HL & HN). split.
  - rewrite N.testbit_eqb. fold (pow2 (plen leaf n)). rewrite HN.
    by rewrite mod2_odd.
  - by rewrite HL, div_pow2_S, HN, div2_odd.
Qed.

(** ** Leaves *)
Lemma nseq_length n : length (nseq n) = N.to_nat n.
Proof. unfold nseq. by rewrite map_length, seq_length. Qed.

Lemma nseq_nth n j : j < n → nth (N.to_nat j) (nseq n) 0 = j.
Proof.
  intros H. unfold nseq.
  rewrite (nth_indep _ 0 (N.of_nat 0)) by (rewrite map_length, seq_length; lia).
  rewrite map_nth, seq_nth by lia. lia.
Qed.

Lemma remap_length ls ups n : length (remap ls ups n) = N.to_nat n.
Proof. unfold remap. by rewrite map_length, nseq_length. Qed.

Definition upd_of (ups : list (N * N)) (j : N) : option N :=
  (list_to_map ups : gmap N N) !! j.

Lemma leaf_at_remap ls ups n j :
  j < n →
  leaf_at (remap ls ups n) j = match upd_of ups j with Some v => v | None => leaf_at ls j end.
Proof.
  intros H. unfold leaf_at at 1, remap.
  set (f := λ i, match _ !! i with Some v => v | None => leaf_at ls i end).
  rewrite (nth_indep _ 0 (f 0)) by (rewrite map_length, nseq_length; lia).
  rewrite map_nth, nseq_nth by done. done.
Qed.

Lemma upd_of_None ups j : upd_of ups j = None ↔ j ∉ ups.*1.
Proof. unfold upd_of. symmetry. apply not_elem_of_list_to_map. Qed.

(** the hash of a block depends only on the leaves in it *)
Lemma node_of_ext ls ls' r : ∀ c,
  (∀ j, c * pow2 r <= j < (c + 1) * pow2 r → leaf_at ls j = leaf_at ls' j) →
  node_of ls r c = node_of ls' r c.
Proof.
  induction r as [|r IH]; intros c H; cbn [node_of].
  - f_equal. apply H. rewrite pow2_0. lia.
  - rewrite pow2_S in H. pose proof (pow2_pos r).
    f_equal; apply IH; intros j Hj; apply H; nia.
Qed.

(** ** Writes *)
Lemma put_all_lookup ws : ∀ t k,
  put_all t ws !! k =
  match last (filter (λ w, fst w = k) ws) with Some w => Some (snd w) | None => t !! k end.
Proof.
  induction ws as [|w ws IH] using rev_ind; intros t k; [done|].
  unfold put_all. rewrite fold_left_app. cbn. fold (put_all t ws).
  rewrite filter_app. cbn.
  destruct (decide (fst w = k)) as [<-|Hne].
  - rewrite lookup_insert, last_snoc. done.
  - rewrite lookup_insert_ne, app_nil_r by done. apply IH.
Qed.

Lemma put_all_same t ws k v :
  (∀ w, w ∈ ws → fst w = k → snd w = v) → (∃ w, w ∈ ws ∧ fst w = k) →
  put_all t ws !! k = Some v.
Proof.
  intros Hall (w & Hin & Hk). rewrite put_all_lookup.
  destruct (last (filter _ ws)) as [w'|] eqn:E.
  - apply last_Some_elem_of, elem_of_list_filter in E as [Hk' Hin']. f_equal. by apply Hall.
  - apply last_None in E.
    assert (w ∈ filter (λ w, fst w = k) ws) as H by (by apply elem_of_list_filter).
    rewrite E in H. by apply elem_of_nil in H.
Qed.

Lemma put_all_other t ws k :
  (∀ w, w ∈ ws → fst w ≠ k) → put_all t ws !! k = t !! k.
Proof.
  intros Hall. rewrite put_all_lookup.
  destruct (last (filter _ ws)) as [w'|] eqn:E; [|done].
  apply last_Some_elem_of, elem_of_list_filter in E as [Hk' Hin']. by destruct (Hall _ Hin').
Qed.

Lemma elem_of_step_writes ls' ups n w :
  w ∈ step_writes ls' ups n ↔
  ∃ i v r, (i, v) ∈ ups ∧ i < n ∧ (r <= plen i n)%nat ∧
           w = ((r, shr i r), node_of ls' r (shr i r)).
Proof.
  unfold step_writes. rewrite elem_of_list_In, in_concat. split.
  - intros (l & Hl & Hw). apply in_map_iff in Hl as ([i v] & <- & Hu). cbn [fst] in Hw.
    destruct (N.ltb_spec i n); [|done]. unfold path_writes in Hw.
    apply in_map_iff in Hw as (r & <- & Hr). apply in_seq in Hr.
    exists i, v, r. split_and!; try done; [by apply elem_of_list_In|lia].
  - intros (i & v & r & Hu & Hi & Hr & ->).
    exists (path_writes ls' i n). split.
    + apply in_map_iff. exists (i, v). cbn [fst]. split; [|by apply elem_of_list_In].
      by destruct (N.ltb_spec i n); [|lia].
    + unfold path_writes. apply in_map_iff. exists r. split; [done|]. apply in_seq. lia.
Qed.

(** ** The invariant: every live node holds the hash of its block of the current leaves
    (stale nodes above or to the right of the accumulator are allowed) *)
Definition tinv (a : acc) : Prop :=
  ∀ r c, alive (N.of_nat (length (a_leaves a))) r c →
         a_tree a !! (r, c) = Some (node_of (a_leaves a) r c).

(** the row-0 writes cover every new leaf (on revert there are none) *)
Definition wf_step (a : acc) (ups : list (N * N)) (n : N) : Prop :=
  ∀ j, N.of_nat (length (a_leaves a)) <= j < n → j ∈ ups.*1.

Lemma tinv_empty : tinv acc_empty.
Proof.
  intros r c H. unfold alive in H. cbn in H. pose proof (pow2_pos r). nia.
Qed.

(** C02_tree_invariant_preserved *)
Theorem tinv_step a ups n : tinv a → wf_step a ups n → tinv (acc_step a ups n).
Proof.
  intros Hinv Hwf r c Hal. unfold acc_step in *. cbn [a_leaves a_tree] in *.
  rewrite remap_length, N2Nat.id in Hal.
  set (ls := a_leaves a) in *. set (ls' := remap ls ups n) in *.
  pose proof (pow2_pos r) as Hp. unfold alive in Hal.
  destruct (decide (Exists (λ u, fst u < n ∧ fst u / pow2 r = c) ups)) as [Hex|Hno'].
  - apply Exists_exists in Hex as ([i v] & Hu & Hi & Hc).
    (* a touched leaf lies in the block: the node was written with the new hash *)
    cbn in Hi, Hc. apply put_all_same.
    + intros w (i' & v' & r' & _ & _ & _ & ->)%elem_of_step_writes. cbn.
      intros [= -> ->]. done.
    + exists ((r, shr i r), node_of ls' r (shr i r)). split.
      * apply elem_of_step_writes. exists i, v, r. split_and!; try done.
        apply alive_on_path; [done|]. unfold alive. by rewrite Hc.
      * cbn. by rewrite shr_div, Hc.
  - assert (¬ ∃ u, u ∈ ups ∧ fst u < n ∧ fst u / pow2 r = c) as Hno.
    { intros (u & ? & ? & ?). apply Hno', Exists_exists. eauto. }
    (* no touched leaf in the block: it was live before and is unchanged *)
    assert (∀ j, c * pow2 r <= j < (c + 1) * pow2 r → j ∉ ups.*1) as Hnt.
    { intros j Hj Hin. apply elem_of_list_fmap in Hin as ([i v] & -> & Hu). cbn in Hj.
      apply Hno. exists (i, v). cbn. split_and!; [done|lia|].
      symmetry. apply (N.div_unique _ _ c (i - c * pow2 r)); lia. }
    assert ((c + 1) * pow2 r <= N.of_nat (length ls)) as Hold.
    { destruct (decide ((c + 1) * pow2 r <= N.of_nat (length ls))) as [|Hgt]; [done|exfalso].
      set (j := N.max (N.of_nat (length ls)) (c * pow2 r)).
      apply (Hnt j); [lia|]. apply Hwf. change (a_leaves a) with ls. lia. }
    rewrite put_all_other.
    + rewrite (Hinv r c Hold). f_equal. apply node_of_ext. intros j Hj.
      unfold ls'. rewrite leaf_at_remap by lia.
      by rewrite (proj2 (upd_of_None ups j) (Hnt j Hj)).
    + intros w (i & v & r' & Hu & Hi & _ & ->)%elem_of_step_writes. cbn. intros [= -> Hc].
      apply Hno. exists (i, v). cbn. by rewrite <- shr_div.
Qed.

(** ** The proof the store serves is the Merkle path of the leaf *)
Lemma climb_path ls leaf k : ∀ r,
  climb (node_of ls r (leaf / pow2 r)) leaf r
        (map (λ j, node_of ls j (sib leaf j)) (seq r k)) =
  node_of ls (r + k) (leaf / pow2 (r + k)).
Proof.
  induction k as [|k IH]; intros r; cbn [seq map climb].
  - by rewrite Nat.add_0_r.
  - replace (r + S k)%nat with (S r + k)%nat by lia. rewrite <- IH. f_equal.
    unfold sib. rewrite shr_div, lxor_1. rewrite div_pow2_S. cbn [node_of].
    set (L := leaf / pow2 r).
    destruct (even_odd_cases L) as [[E HL]|[E HL]]; rewrite <- N.negb_even, E; cbn [negb].
    + rewrite <- HL. done.
    + replace (L - 1) with (2 * (L / 2)) by lia. by rewrite <- HL.
Qed.

(** C02_served_proof_is_the_merkle_path *)
Theorem served_proof_is_merkle_path a leaf :
  tinv a → leaf < N.of_nat (length (a_leaves a)) →
  let ls := a_leaves a in
  let n := N.of_nat (length ls) in
  get_proof (a_tree a) leaf n =
    Some (map (λ r, node_of ls r (sib leaf r)) (seq 0 (plen leaf n))) ∧
  ∃ p, get_proof (a_tree a) leaf n = Some p ∧ verifies ls leaf p = true.
Proof.
  intros Hinv Hlt. cbn zeta. unfold tinv in Hinv.
  destruct a as [t ls]. cbn [a_tree a_leaves] in *.
  remember (N.of_nat (length ls)) as n eqn:Hn.
  assert (get_proof t leaf n =
          Some (map (λ r, node_of ls r (sib leaf r)) (seq 0 (plen leaf n)))) as Hg.
  { unfold get_proof. destruct (N.leb_spec n leaf); [lia|].
    apply mapM_Some. apply Forall2_fmap_r, Forall_Forall2_diag, Forall_forall.
    intros r Hr%elem_of_list_In%in_seq. apply Hinv.
    apply get_proof_reads_live; [done|lia]. }
  split; [done|]. eexists. split; [done|].
  unfold verifies. rewrite map_length, seq_length.
  destruct (leaf_peak leaf n Hlt) as [Hbit Hcol].
  unfold peak. rewrite <- Hn, Hbit.
  apply bool_decide_eq_true.
  pose proof (climb_path ls leaf (plen leaf n) 0) as Hc.
  rewrite pow2_0, N.div_1_r in Hc. cbn [node_of] in Hc. rewrite Hc. cbn [Nat.add].
  by rewrite Hcol.
Qed.

(** what is served depends only on the leaves *)
Corollary served_proof_depends_on_leaves a a' leaf :
  tinv a → tinv a' → a_leaves a = a_leaves a' → leaf < N.of_nat (length (a_leaves a)) →
  get_proof (a_tree a) leaf (N.of_nat (length (a_leaves a))) =
  get_proof (a_tree a') leaf (N.of_nat (length (a_leaves a'))).
Proof.
  intros Hi Hi' He Hlt.
  destruct (served_proof_is_merkle_path a leaf Hi Hlt) as [-> _].
  rewrite He in Hlt. destruct (served_proof_is_merkle_path a' leaf Hi' Hlt) as [-> _].
  by rewrite He.
Qed.

(** ** Reverting a block restores the leaves *)
Lemma list_to_map_const (l : list (N * N)) k v :
  (∀ v', (k, v') ∈ l → v' = v) → k ∈ l.*1 → (list_to_map l : gmap N N) !! k = Some v.
Proof.
  induction l as [|[k' v'] l IH]; intros Hall Hin; cbn in *; [by apply elem_of_nil in Hin|].
  destruct (decide (k' = k)) as [->|Hne].
  - rewrite lookup_insert. f_equal. apply Hall. left.
  - rewrite lookup_insert_ne by done. apply IH.
    + intros v'' H. apply Hall. by right.
    + apply elem_of_cons in Hin as [?|?]; [congruence|done].
Qed.

Lemma upd_of_restore ls ups j :
  j < N.of_nat (length ls) →
  upd_of (restore ls ups) j = if decide (j ∈ ups.*1) then Some (leaf_at ls j) else None.
Proof.
  intros Hj. unfold upd_of. case_decide as Hin.
  - apply list_to_map_const.
    + intros v' Hv. unfold restore in Hv. apply elem_of_list_omap in Hv as ([i v] & _ & Hv).
      cbn in Hv. destruct (i <? _); [|done]. by injection Hv as -> ->.
    + apply elem_of_list_fmap in Hin as ([i v] & -> & Hu). cbn.
      apply elem_of_list_fmap. exists (i, leaf_at ls i). split; [done|].
      unfold restore. apply elem_of_list_omap. exists (i, v). split; [done|]. cbn.
      cbn in Hj. by destruct (N.ltb_spec i (N.of_nat (length ls))); [|lia].
  - apply not_elem_of_list_to_map. intros Hr. apply Hin.
    apply elem_of_list_fmap in Hr as ([i v] & -> & Hu). cbn.
    unfold restore in Hu. apply elem_of_list_omap in Hu as ([i' v'] & Hu & Hv). cbn in Hv.
    destruct (i' <? _); [|done]. injection Hv as -> _.
    apply elem_of_list_fmap. by exists (i, v').
Qed.

Lemma remap_restore ls ups n :
  N.of_nat (length ls) <= n →
  remap (remap ls ups n) (restore ls ups) (N.of_nat (length ls)) = ls.
Proof.
  intros Hn. apply (nth_ext _ _ 0 0).
  - rewrite remap_length. lia.
  - intros k Hk. rewrite remap_length in Hk.
    pose proof (leaf_at_remap (remap ls ups n) (restore ls ups) (N.of_nat (length ls)) (N.of_nat k)
                  ltac:(lia)) as H.
    unfold leaf_at in H at 1. rewrite Nat2N.id in H. rewrite H.
    rewrite upd_of_restore by lia. case_decide as Hin.
    + unfold leaf_at. by rewrite Nat2N.id.
    + rewrite leaf_at_remap by lia.
      rewrite (proj2 (upd_of_None ups _) Hin). unfold leaf_at. by rewrite Nat2N.id.
Qed.

(** ** Histories *)
Fixpoint stack_of (st : list (list (N * N) * N)) : list (list N * list (N * N)) :=
  match st with
  | [] => []
  | (ups, _) :: st' => (linear_leaves (rev st'), ups) :: stack_of st'
  end.

Fixpoint sizes_ok (st : list (list (N * N) * N)) : Prop :=
  match st with
  | [] => True
  | (_, n) :: st' => N.of_nat (length (linear_leaves (rev st'))) <= n ∧ sizes_ok st'
  end.

(** every apply of the history covers its new leaves and does not shrink the accumulator *)
Fixpoint steps_ok (h : hacc) (l : list astep) : Prop :=
  match l with
  | [] => True
  | s :: r =>
      match s with
      | AApply ups n =>
          wf_step (h_acc h) ups n ∧ N.of_nat (length (a_leaves (h_acc h))) <= n
      | ARevert => True
      end ∧ ∀ h', hstep h s = Some h' → steps_ok h' r
  end.

Lemma linear_leaves_snoc c b : linear_leaves (c ++ [b]) = remap (linear_leaves c) (fst b) (snd b).
Proof. unfold linear_leaves. by rewrite fold_left_app. Qed.

Local Arguments linear_leaves : simpl never.

Lemma hist_main l : ∀ h st c',
  tinv (h_acc h) → a_leaves (h_acc h) = linear_leaves (rev st) → h_stack h = stack_of st →
  sizes_ok st → steps_ok h l → remaining st l = Some c' →
  ∃ h', hrun h l = Some h' ∧ tinv (h_acc h') ∧ a_leaves (h_acc h') = linear_leaves c'.
Proof.
  induction l as [|[ups n|] r IH]; intros h st c' Hinv Hls Hst Hsz Hok Hrem;
    cbn [hrun hstep remaining steps_ok] in *.
  - injection Hrem as <-. eauto.
  - destruct Hok as [[Hwf Hn] Hok]. specialize (Hok _ eq_refl).
    apply (IH _ ((ups, n) :: st) c'); cbn [h_acc h_stack stack_of sizes_ok rev acc_step a_leaves];
      try done.
    + by apply tinv_step.
    + by rewrite linear_leaves_snoc, <- Hls.
    + by rewrite Hst, <- Hls.
    + split; [by rewrite <- Hls|done].
  - destruct st as [|[ups n] st']; [done|]. cbn [stack_of] in Hst. rewrite Hst.
    destruct Hsz as [Hn Hsz]. destruct Hok as [_ Hok]. rewrite Hst in Hok.
    specialize (Hok _ eq_refl).
    cbn [rev] in Hls. rewrite linear_leaves_snoc in Hls. cbn [fst snd] in Hls.
    set (ls := linear_leaves (rev st')) in *.
    apply (IH _ st' c'); cbn [h_acc h_stack acc_step a_leaves]; try done.
    + apply tinv_step; [done|]. intros j Hj. rewrite Hls, remap_length in Hj. lia.
    + by rewrite Hls, remap_restore.
Qed.

(** C02_tree_history_independent: after any history of applies and reverts the bucket
    satisfies the invariant for the leaves of the chain that remains, so it serves exactly
    the proofs a node that only saw that chain serves *)
Theorem tree_history_independent l c :
  steps_ok hacc_empty l → remaining [] l = Some c →
  ∃ h, hrun hacc_empty l = Some h ∧ tinv (h_acc h) ∧ a_leaves (h_acc h) = linear_leaves c ∧
    ∀ a' leaf, tinv a' → a_leaves a' = linear_leaves c →
      leaf < N.of_nat (length (linear_leaves c)) →
      get_proof (a_tree (h_acc h)) leaf (N.of_nat (length (linear_leaves c))) =
      get_proof (a_tree a') leaf (N.of_nat (length (linear_leaves c))) ∧
      ∃ p, get_proof (a_tree (h_acc h)) leaf (N.of_nat (length (linear_leaves c))) = Some p ∧
           verifies (linear_leaves c) leaf p = true.
Proof.
  intros Hok Hrem.
  destruct (hist_main l hacc_empty [] c tinv_empty eq_refl eq_refl I Hok Hrem)
    as (h & Hrun & Hinv & Hls).
  exists h. split_and!; try done. intros a' leaf Hinv' Hls' Hlt. split.
  - pose proof (served_proof_depends_on_leaves (h_acc h) a' leaf Hinv Hinv') as H.
    rewrite Hls, Hls' in H. by apply H.
  - rewrite <- Hls in *. destruct (served_proof_is_merkle_path _ leaf Hinv Hlt) as [_ Hp]. done.
Qed.

(** ** Examples *)
(** a history with a revert: 3 leaves, then a block that updates leaf 1 and adds 3 and 4,
    reverted, then a block that adds leaf 3 *)
Definition ex_hist : list astep :=
  [AApply [(0, 100); (1, 101); (2, 102)] 3;
   AApply [(1, 201); (3, 103); (4, 104)] 5; ARevert;
   AApply [(3, 303)] 4].

Lemma wf_step_check a ups n :
  forallb (λ j, (j <? N.of_nat (length (a_leaves a))) || bool_decide (j ∈ ups.*1)) (nseq n) = true →
  wf_step a ups n.
Proof.
  intros H j Hj. rewrite forallb_forall in H.
  assert (In j (nseq n)) as Hin.
  { unfold nseq. apply in_map_iff. exists (N.to_nat j). split; [lia|]. apply in_seq. lia. }
  specialize (H j Hin). apply orb_true_iff in H as [H|H].
  - apply N.ltb_lt in H. lia.
  - by apply bool_decide_eq_true in H.
Qed.

Example tree_history_nonvacuous :
  steps_ok hacc_empty ex_hist ∧
  remaining [] ex_hist = Some [([(0, 100); (1, 101); (2, 102)], 3); ([(3, 303)], 4)] ∧
  linear_leaves [([(0, 100); (1, 101); (2, 102)], 3); ([(3, 303)], 4)] = [100; 101; 102; 303].
Proof.
  split; [|by vm_compute].
  unfold ex_hist. cbn [steps_ok].
  split; [split; [apply wf_step_check; by vm_compute|by vm_compute]|].
  intros h1 [= <-]. split; [split; [apply wf_step_check; by vm_compute|by vm_compute]|].
  intros h2 [= <-]. split; [done|].
  intros h3 H3. vm_compute in H3. injection H3 as <-.
  split; [split; [apply wf_step_check; by vm_compute|by vm_compute]|done].
Qed.

(** with the sibling computed without the [xor 1] (reading the node itself), or with one
    entry more, the served list does not verify *)
Example wrong_sibling_does_not_verify :
  let ls := [100; 101; 102; 103] in
  let right := map (λ r, node_of ls r (sib 2 r)) (seq 0 (plen 2 4)) in
  let wrong := map (λ r, node_of ls r (shr 2 r)) (seq 0 (plen 2 4)) in
  verifies ls 2 right = true ∧ verifies ls 2 wrong = false ∧
  plen 2 4 = 2%nat ∧ N.to_nat (N.size (N.lxor 2 4)) = 3%nat.
Proof. by vm_compute. Qed.

(** ** The same fact for the read model the correspondence runs (Chain/Store.v, rows as N) *)
From CV Require Chain.Store.
Theorem store_get_proof_reads_live leaf n :
  leaf < n →
  ∃ reads, Store.get_proof_reads leaf n = Some reads ∧
           ∀ r c, In (r, c) reads → (c + 1) * 2 ^ r <= n.
Proof.
  intros Hlt. unfold Store.get_proof_reads. destruct (N.leb_spec n leaf); [lia|].
  eexists. split; [done|]. intros r c Hin.
  apply in_map_iff in Hin as (i & [= <- <-] & Hi).
  unfold Store.nrange in Hi. apply in_map_iff in Hi as (k & <- & Hk%in_seq).
  assert (k < plen leaf n)%nat as Hk' by (unfold plen, Store.proof_len in *; lia).
  exact (get_proof_reads_live leaf n k Hlt Hk').
Qed.
