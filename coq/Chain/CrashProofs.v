(** * Chain/CrashProofs.v — proofs about commit points, reopening and catching up (C03) *)
From Coq Require Import NArith ZArith List Lia.
Import ListNotations.
From stdpp Require Import gmap.
From CV Require Import KV.Model Chain.Store Chain.StoreProofs Chain.Crash.
From CV Require Import Chain.Manager Chain.ManagerProofs Net.MgrLive Net.MgrLiveProofs.
Open Scope N_scope.

(** ** One manager event acts on the session view as one block step *)
Definition full_of (i : img) (st : step) : gset N :=
  match st with SApply b => {[b_id b]} ∪ i_full i | SRevert _ => i_full i end.

Definition exec_mev (R : N) (i : img) (e : mev) : option img :=
  match e with
  | MStep st _ => (λ s, Img s (full_of i st)) <$> do_step R (i_s i) st
  | MFlush => Some i
  end.

Definition commits (e : mev) : bool :=
  match e with MStep _ fire => fire | MFlush => true end.

Fixpoint fold_writes (i : img) (ws : list write) : option img :=
  match ws with
  | [] => Some i
  | w :: r => match do_write i w with Some i' => fold_writes i' r | None => None end
  end.

Lemma run_sevs_writes ws : ∀ d rest acc,
  run_sevs d (map SWrite ws ++ rest) acc =
  match fold_writes (cur d) ws with
  | Some i' => run_sevs (Db (com d) i') rest acc
  | None => None
  end.
Proof.
  induction ws as [|w r IH]; intros d rest acc; cbn.
  - by destruct d.
  - destruct (do_write (cur d) w) as [i'|]; cbn; [|done]. by rewrite IH.
Qed.

Lemma fold_writes_apply R i b :
  fold_writes i (writes_apply R b) =
  (λ s, Img s ({[b_id b]} ∪ i_full i)) <$> apply_block R (i_s i) b.
Proof.
  unfold writes_apply, apply_block. destruct i as [[sc sf fc ex mc hg] fu]. cbn.
  destruct (b_h b <=? R); cbn; [|done].
  unfold apply_state, set_hgt, set_main. cbn.
  by destruct (apply_elements _ _).
Qed.

Lemma fold_writes_revert R i b :
  fold_writes i (writes_revert R b) = (λ s, Img s (i_full i)) <$> revert_block R (i_s i) b.
Proof.
  unfold writes_revert, revert_block. destruct i as [s fu]. cbn.
  destruct (b_h b - 1 <=? R); cbn.
  - destruct (revert_elements s (rev_diffs (b_d b))) as [[sc sf fc ex mc hg]|]; cbn; done.
  - by destruct s.
Qed.

(** the compiled events of one manager event: all its writes reach the session view, and a
    commit, if any, happens after the last of them *)
Lemma run_sevs_compile R e d rest acc :
  run_sevs d (compile R e ++ rest) acc =
  match exec_mev R (cur d) e with
  | None => None
  | Some i' =>
      if commits e then run_sevs (Db i' i') rest (acc ++ [i'])
      else run_sevs (Db (com d) i') rest acc
  end.
Proof.
  destruct e as [[b|b] fire|]; cbn [compile exec_mev commits do_step].
  - rewrite <- app_assoc, run_sevs_writes, fold_writes_apply.
    destruct (apply_block R (i_s (cur d)) b); cbn; [|done]. by destruct fire.
  - rewrite <- app_assoc, run_sevs_writes, fold_writes_revert.
    destruct (revert_block R (i_s (cur d)) b); cbn; [|done]. by destruct fire.
  - cbn. by destruct d.
Qed.

(** the session view after a list of manager events *)
Fixpoint view_after (R : N) (i : img) (l : list mev) : option img :=
  match l with
  | [] => Some i
  | e :: r => match exec_mev R i e with Some i' => view_after R i' r | None => None end
  end.

Lemma view_after_app R l1 : ∀ i l2,
  view_after R i (l1 ++ l2) =
  match view_after R i l1 with Some i' => view_after R i' l2 | None => None end.
Proof.
  induction l1 as [|e r IH]; intros i l2; cbn; [done|].
  destruct (exec_mev R i e); [apply IH|done].
Qed.

Lemma images_boundary R l : ∀ d acc pre imgs d',
  view_after R empty_img pre = Some (cur d) →
  (∀ i, i ∈ acc → ∃ k, (k ≤ length pre)%nat ∧ view_after R empty_img (take k pre) = Some i) →
  run_sevs d (compile_all R l) acc = Some (d', imgs) →
  ∀ i, i ∈ imgs →
    ∃ k, (k ≤ length (pre ++ l))%nat ∧ view_after R empty_img (take k (pre ++ l)) = Some i.
Proof.
  induction l as [|e r IH]; intros d acc pre imgs d' Hpre Hacc Hrun i Hi.
  - cbn in Hrun. injection Hrun as <- <-. rewrite app_nil_r. by apply Hacc.
  - unfold compile_all in Hrun. cbn [map concat] in Hrun.
    rewrite run_sevs_compile in Hrun.
    destruct (exec_mev R (cur d) e) as [i'|] eqn:He; [|done].
    assert (view_after R empty_img (pre ++ [e]) = Some i') as Hpre'.
    { rewrite view_after_app, Hpre. cbn. by rewrite He. }
    assert (∀ j, (j ≤ length pre)%nat → take j (pre ++ [e]) = take j pre) as Htk.
    { intros j Hj. by rewrite take_app_le. }
    replace (pre ++ e :: r) with ((pre ++ [e]) ++ r) by (by rewrite <- app_assoc).
    destruct (commits e).
    + eapply (IH (Db i' i') (acc ++ [i']) (pre ++ [e])); [done| |exact Hrun|done].
      intros j [Hj| ->%elem_of_list_singleton]%elem_of_app.
      * destruct (Hacc j Hj) as (k & Hk & Hv). exists k. rewrite app_length. cbn.
        split; [lia|]. by rewrite Htk.
      * exists (length (pre ++ [e])). split; [done|]. by rewrite firstn_all.
    + eapply (IH (Db (com d) i') acc (pre ++ [e])); [done| |exact Hrun|done].
      intros j Hj. destruct (Hacc j Hj) as (k & Hk & Hv). exists k. rewrite app_length. cbn.
      split; [lia|]. by rewrite Htk.
Qed.

(** C03_commit_only_at_block_boundary *)
Theorem commit_only_at_block_boundary R l imgs :
  images R l = Some imgs →
  ∀ i, i ∈ imgs → ∃ k, (k ≤ length l)%nat ∧ view_after R empty_img (take k l) = Some i.
Proof.
  unfold images. intros Him i Hi.
  destruct (run_sevs db_init (compile_all R l) []) as [[d' imgs']|] eqn:Hrun; [|done].
  cbn in Him. injection Him as <-.
  apply (images_boundary R l db_init [] [] imgs' d' eq_refl); [|done|done].
  intros j Hj. by apply elem_of_nil in Hj.
Qed.

(** ** The view after whole events is the store of C02 after the same steps *)
Lemma steps_of_app l1 l2 : steps_of (l1 ++ l2) = steps_of l1 ++ steps_of l2.
Proof. unfold steps_of. by rewrite omap_app. Qed.

Definition applied_ids (h : list step) : gset N :=
  list_to_set (omap (λ st, match st with SApply b => Some (b_id b) | SRevert _ => None end) h).

Lemma steps_of_step st fire r : steps_of (MStep st fire :: r) = st :: steps_of r.
Proof. done. Qed.
Lemma steps_of_flush r : steps_of (MFlush :: r) = steps_of r.
Proof. done. Qed.
Lemma applied_ids_apply b h : applied_ids (SApply b :: h) = {[b_id b]} ∪ applied_ids h.
Proof. done. Qed.
Lemma applied_ids_revert b h : applied_ids (SRevert b :: h) = applied_ids h.
Proof. done. Qed.
Lemma applied_ids_nil : applied_ids [] = ∅.
Proof. done. Qed.
Local Opaque steps_of applied_ids.

Lemma view_after_run R l : ∀ i i',
  view_after R i l = Some i' →
  run_from R (i_s i) (steps_of l) = Some (i_s i') ∧
  i_full i' = applied_ids (steps_of l) ∪ i_full i.
Proof.
  induction l as [|e r IH]; intros i i' H.
  - cbn in H. injection H as <-. change (steps_of []) with (@nil step).
    rewrite applied_ids_nil. split; [done|]. set_solver.
  - destruct e as [st fire|].
    + rewrite steps_of_step. cbn [view_after exec_mev run_from] in *.
      destruct (do_step R (i_s i) st) as [s1|] eqn:Hs; cbn in H; [|done].
      destruct (IH _ _ H) as [Hr Hf]. cbn in Hr, Hf. split; [done|].
      rewrite Hf. destruct st; cbn [full_of]; rewrite ?applied_ids_apply, ?applied_ids_revert;
        set_solver.
    + rewrite steps_of_flush. cbn [view_after exec_mev] in H. by apply IH.
Qed.

(** admissible histories are prefix closed and obey the stack discipline *)
Lemma ok_from_app R h1 : ∀ st h2, ok_from R st (h1 ++ h2) → ok_from R st h1.
Proof.
  induction h1 as [|[b|b] r IH]; intros st h2 H; cbn in *; [done| |].
  - destruct H as [Hb H]. split; [done|]. by eapply IH.
  - destruct st as [|t st']; [done|]. destruct H as (? & ? & H). split_and!; try done. by eapply IH.
Qed.

Lemma blk_eqb_refl b : blk_eqb b b = true.
Proof. unfold blk_eqb. by rewrite !N.eqb_refl. Qed.

Lemma ok_from_stack R h : ∀ st, ok_from R st h → ∃ st', stack_from st h = Some st'.
Proof.
  induction h as [|[b|b] r IH]; intros st H; cbn in *; [eauto| |].
  - destruct H as [_ H]. by apply IH.
  - destruct st as [|t st']; [done|]. destruct H as (-> & _ & H).
    rewrite blk_eqb_refl. by apply IH.
Qed.

(** the tip of a stack was applied by the history (or was on the initial stack) *)
Lemma stack_from_applied h : ∀ st st',
  stack_from st h = Some st' →
  ∀ t, t ∈ st' → t ∈ st ∨ b_id t ∈ applied_ids h.
Proof.
  induction h as [|[b|b] r IH]; intros st st' H t Ht; cbn [stack_from] in *.
  - injection H as <-. by left.
  - rewrite applied_ids_apply.
    destruct (IH _ _ H t Ht) as [[->|Hin]%elem_of_cons|Hin]; [right|by left|right]; set_solver.
  - rewrite applied_ids_revert.
    destruct st as [|x st0]; [done|]. destruct (blk_eqb x b); [|done].
    destruct (IH _ _ H t Ht) as [Hin|Hin]; [left; by right|by right].
Qed.

(** the linear store of a non-empty chain points at its last block *)
Lemma apply_block_tip R s b s' :
  apply_block R s b = Some s' → mainc s' !! hgt s' = Some (b_id b).
Proof.
  unfold apply_block. destruct (b_h b <=? R).
  - unfold apply_elements. set (s2 := set_sfe _ _). intros H.
    assert (∀ l s0 s1, apply_fcs s0 l = Some s1 → mainc s1 = mainc s0 ∧ hgt s1 = hgt s0) as Hfr.
    { induction l as [|f r IH]; intros s0 s1; cbn; [by intros [= <-]|].
      destruct (apply_fc s0 f) as [sx|] eqn:E; [|done]. intros Hr.
      destruct (IH _ _ Hr) as [-> ->].
      unfold apply_fc in E.
      assert (∀ sa sb id we, delete_expiration sa id we = Some sb →
                             mainc sb = mainc sa ∧ hgt sb = hgt sa) as Hd.
      { intros sa sb id we. unfold delete_expiration.
        destruct (index_of id (exp_get sa we)); [|done]. by intros [= <-]. }
      repeat (case_match; simplify_eq/=; try done);
        repeat match goal with
               | H : delete_expiration _ _ _ = Some _ |- _ => apply Hd in H as [? ?]
               end; cbn in *; split; congruence. }
    destruct (Hfr _ _ _ H) as [-> ->]. cbn. by rewrite lookup_insert.
  - intros [= <-]. cbn. by rewrite lookup_insert.
Qed.

Lemma linear_tip R c b sl :
  linear R (c ++ [b]) = Some sl → mainc sl !! hgt sl = Some (b_id b).
Proof.
  rewrite linear_snoc. destruct (linear R c) as [s|]; [|done]. apply apply_block_tip.
Qed.

(** C03_image_consistent *)
Theorem image_consistent R l imgs :
  ok_from R [] (steps_of l) → images R l = Some imgs →
  ∀ i, i ∈ imgs →
    ∃ k c sl, (k ≤ length l)%nat ∧
      chain_of (steps_of (take k l)) = Some c ∧ linear R c = Some sl ∧
      sce (i_s i) = sce sl ∧ sfe (i_s i) = sfe sl ∧ fce (i_s i) = fce sl ∧
      mainc (i_s i) = mainc sl ∧ hgt (i_s i) = hgt sl ∧
      (∀ h, exp_get (i_s i) h ≡ₚ exp_get sl h) ∧
      (exact_from R [] (steps_of (take k l)) → i_s i = sl) ∧
      (∀ t, last c = Some t → reopen i = Some (b_id t)).
Proof.
  intros Hok Him i Hi.
  destruct (commit_only_at_block_boundary R l imgs Him i Hi) as (k & Hk & Hv).
  exists k.
  assert (ok_from R [] (steps_of (take k l))) as Hokk.
  { rewrite <- (take_drop k l), steps_of_app in Hok. by eapply ok_from_app. }
  destruct (ok_from_stack R _ _ Hokk) as (st' & Hst).
  assert (chain_of (steps_of (take k l)) = Some (rev st')) as Hc
    by (unfold chain_of; by rewrite Hst).
  destruct (history_independent R _ _ Hokk Hc)
    as (s & sl & Hrun & Hlin & ? & ? & ? & ? & ? & Hp).
  destruct (view_after_run R _ _ _ Hv) as [Hr Hf]. cbn in Hr.
  unfold run in Hrun. rewrite Hr in Hrun. injection Hrun as <-.
  exists (rev st'), sl. split_and!; try done.
  - intros Hex. destruct (history_exact R _ _ Hokk Hex Hc) as (s' & Hs' & Hl').
    unfold run in Hs'. rewrite Hr in Hs'. injection Hs' as <-. congruence.
  - intros t Ht. unfold reopen.
    remember (rev st') as c eqn:Hc'.
    destruct c as [|x c0 _] using rev_ind; [done|].
    rewrite last_snoc in Ht. injection Ht as ->.
    replace (mainc (i_s i)) with (mainc sl) by done.
    replace (hgt (i_s i)) with (hgt sl) by done.
    rewrite (linear_tip R c0 t sl Hlin).
    rewrite bool_decide_eq_true_2; [done|].
    rewrite Hf. apply elem_of_union_l.
    assert (t ∈ st') as Hin.
    { apply elem_of_list_In, in_rev. rewrite <- Hc'. apply in_or_app. right. by left. }
    destruct (stack_from_applied _ _ _ Hst t Hin) as [?%elem_of_nil|?]; done.
Qed.

(** ** Catching up (on the manager model of Chain/Manager.v) *)
Section CatchUp.
  Context (U : universe) (HWF : WF U).

  (** re-submission: any sequence of AddBlocks calls *)
  Definition run_adds (m : mgr) (bs : list (list N)) : mgr :=
    fold_left (λ m l, (add_blocks U m l).1.1) bs m.

  (** separation: [T] is sufficiently heavier than every other valid block *)
  Definition separated (T : N) : Prop := ∀ x, valid U x → x ≠ T → heavier U T x = true.

  Lemma heavier_asym a b : heavier U a b = true → heavier U b a = true → False.
  Proof.
    unfold heavier. destruct (U !! a) as [A|] eqn:HA, (U !! b) as [B|] eqn:HB; try done.
    intros H1 H2. apply Z.gtb_lt in H1, H2.
    pose proof (wf_diff U HWF a A HA). pose proof (wf_diff U HWF b B HB).
    assert (0 ≤ diff A / 5)%Z by (apply Z.div_pos; lia).
    assert (0 ≤ diff B / 5)%Z by (apply Z.div_pos; lia).
    lia.
  Qed.

  Lemma tip_valid m : MInv U m → valid U (tip m).
  Proof.
    intros HI. destruct (I_best U m HI (tip m) (tip_on_best U m HI)) as (k & _ & _ & _ & Hv).
    done.
  Qed.

  Lemma add_blocks_keeps m l :
    MInv U m → all_body m → MInv U (add_blocks U m l).1.1 ∧ all_body (add_blocks U m l).1.1.
  Proof.
    intros HI Hab. split; [|by apply (all_body_add_blocks U)].
    pose proof (add_blocks_spec U HWF m l HI) as H.
    destruct (add_blocks U m l) as [[m' out] nt]. cbn. tauto.
  Qed.

  (** once on [T], every further call stays on [T] *)
  Lemma stays m l T :
    MInv U m → separated T → tip m = T → tip (add_blocks U m l).1.1 = T.
  Proof.
    intros HI Hsep Ht.
    pose proof (add_blocks_spec U HWF m l HI) as H.
    destruct (add_blocks U m l) as [[m' out] nt]. cbn in *.
    destruct H as (HI' & _ & _ & _ & Hnt & Hnf).
    destruct nt.
    - destruct (Hnt eq_refl) as [_ Hh]. rewrite Ht in Hh.
      destruct (decide (tip m' = T)) as [|Hne]; [done|].
      exfalso. apply (heavier_asym _ _ Hh). apply Hsep; [by apply tip_valid|done].
    - unfold tip in *. by rewrite (Hnf eq_refl).
  Qed.

  Lemma run_adds_keeps bs : ∀ m,
    MInv U m → all_body m → MInv U (run_adds m bs) ∧ all_body (run_adds m bs).
  Proof.
    induction bs as [|l r IH]; intros m HI Hab; cbn; [done|].
    destruct (add_blocks_keeps m l HI Hab). by apply IH.
  Qed.

  Lemma run_adds_stays bs : ∀ m T,
    MInv U m → all_body m → separated T → tip m = T → tip (run_adds m bs) = T.
  Proof.
    induction bs as [|l r IH]; intros m T HI Hab Hsep Ht; cbn; [done|].
    destruct (add_blocks_keeps m l HI Hab). apply IH; try done. by apply stays.
  Qed.

  (** C03_catch_up: from any state of a node that never pruned — in particular the state a
      committed image reopens to — re-submitting batches among which is the whole path
      [l] (genesis excluded, ascending, every block acceptable) to a separated tip [T]
      ends on [T]. *)
  Theorem catch_up m bs1 l bs2 :
    MInv U m → all_body m →
    l ≠ [] → lp U (reverse l) genesis → (∀ x, x ∈ l → okb U x = true) →
    separated (List.last l genesis) →
    tip (run_adds m (bs1 ++ l :: bs2)) = List.last l genesis.
  Proof.
    intros HI Hab Hne Hlp Hok Hsep. set (T := List.last l genesis) in *.
    unfold run_adds. rewrite fold_left_app. cbn [fold_left].
    fold (run_adds m bs1). destruct (run_adds_keeps bs1 m HI Hab) as [HI1 Hab1].
    set (m1 := run_adds m bs1) in *.
    destruct (add_blocks_live U HWF m1 genesis l HI1 Hab1) as (m2 & E & HI2 & Hab2 & _ & Hc);
      try done.
    { apply (hangs_best U). by apply (genesis_on_best U). }
    rewrite E. cbn [fst]. fold (run_adds m2 bs2).
    apply run_adds_stays; try done. fold T in Hc.
    destruct (heavier U T (tip m1)) eqn:Hh; [done|].
    assert (tip m2 = tip m1) as -> by (unfold tip; by rewrite Hc).
    destruct (decide (tip m1 = T)) as [|Hn]; [done|].
    rewrite Hsep in Hh; [done|by apply tip_valid|done].
  Qed.

  (** ... hence the reopened node and the uninterrupted node end on the same tip *)
  Corollary catch_up_same m m' bs1 l bs2 bs1' bs2' :
    MInv U m → all_body m → MInv U m' → all_body m' →
    l ≠ [] → lp U (reverse l) genesis → (∀ x, x ∈ l → okb U x = true) →
    separated (List.last l genesis) →
    tip (run_adds m (bs1 ++ l :: bs2)) = tip (run_adds m' (bs1' ++ l :: bs2')).
  Proof. intros. rewrite !catch_up; done. Qed.
End CatchUp.

(** Example: the hypotheses of [catch_up] are met ([exU]: genesis 0, chain 1-2, the
    heavier fork 3-4-5 from block 1 — tip 5 is separated); the reopened node is [exm]
    (best chain 2-1-0), the uninterrupted node starts at genesis. *)
Example catch_up_nonvacuous :
  separated exU 5 ∧
  tip (run_adds exU exm ([[1; 2]] ++ [1; 3; 4; 5] :: [[2]])) = 5 ∧
  tip (run_adds exU init ([] ++ [1; 3; 4; 5] :: [[1; 2]])) = 5.
Proof.
  assert (separated exU 5) as Hsep.
  { intros x Hv Hne.
    assert (∃ B, exU !! x = Some B) as [B HB].
    { destruct Hv as [->|(B & HB & _)]; [eexists; by vm_compute|eauto]. }
    assert (x ∈ [0; 1; 2; 3; 4; 5]) as Hx.
    { apply (elem_of_list_to_map_2 (M:=gmap N)) in HB. apply elem_of_list_In in HB.
      cbn in HB. rewrite !elem_of_cons, elem_of_nil.
      destruct HB as [HB|[HB|[HB|[HB|[HB|[HB|[]]]]]]]; injection HB as <- _; tauto. }
    rewrite !elem_of_cons, elem_of_nil in Hx.
    destruct Hx as [->|[->|[->|[->|[->|[->|[]]]]]]]; try done; by vm_compute. }
  split; [done|].
  assert (lp exU (reverse [1; 3; 4; 5]) genesis) as Hlp.
  { vm_compute. repeat split; try done; by eexists. }
  assert (∀ x, x ∈ [1; 3; 4; 5] → okb exU x = true) as Hok.
  { intros x. rewrite !elem_of_cons, elem_of_nil. intros [->|[->|[->|[->|[]]]]]; by vm_compute. }
  split.
  - apply (catch_up exU exU_wf exm [[1; 2]] [1; 3; 4; 5] [[2]] exm_inv exm_all_body); done.
  - apply (catch_up exU exU_wf init [] [1; 3; 4; 5] [[1; 2]]); try done.
    + apply (mrun_inv exU exU_wf []). constructor.
    + apply all_body_init.
Qed.

(** Example: the hypotheses of [image_consistent] are met by a history with commits inside a
    reorg (the exact history of Chain/StoreProofs.v: apply bx, revert bx, apply b_y, the
    threshold firing after the apply and after the revert) *)
Local Transparent steps_of applied_ids.
Example images_nonvacuous :
  let l := [MStep (SApply WitnessExact.b0) false; MFlush;
            MStep (SApply WitnessExact.bx) true; MStep (SRevert WitnessExact.bx) true;
            MStep (SApply WitnessExact.b_y) false; MFlush] in
  ok_from 100 [] (steps_of l) ∧
  ∃ imgs, images 100 l = Some imgs ∧ length imgs = 4%nat ∧
          (reopen <$> imgs) = [Some 10; Some 12; Some 10; Some 13].
Proof.
  cbn zeta. split.
  - exact (proj1 history_exact_nonvacuous).
  - destruct (images 100 _) as [imgs|] eqn:E; [|by vm_compute in E].
    exists imgs. split; [done|]. vm_compute in E. injection E as <-. by vm_compute.
Qed.

(** ** The committed side only changes at a commit: whenever the process stops, what the
    database holds after discarding its uncommitted window is the last committed image *)
Lemma do_sev_com d e d' :
  do_sev d e = Some d' →
  match e with
  | SWrite _ | SFlushCheck false => com d' = com d
  | SFlushCheck true | SFlush => com d' = cur d
  end.
Proof.
  destruct e as [w|[|]|]; cbn.
  - destruct (do_write (cur d) w); [|done]. by intros [= <-].
  - by intros [= <-].
  - by intros [= <-].
  - by intros [= <-].
Qed.

Lemma last_cons_default {A} (a : A) l x : List.last (a :: l) x = List.last l a.
Proof. destruct l as [|b l]; [done|]. cbn [List.last]. revert b. induction l as [|c l IH]; intros b; [done|]. cbn [List.last]. apply IH. Qed.

Theorem committed_is_last_image l : ∀ d acc d' imgs,
  run_sevs d l acc = Some (d', imgs) →
  ∃ new, imgs = acc ++ new ∧ com d' = List.last new (com d).
Proof.
  induction l as [|e r IH]; intros d acc d' imgs Hrun; cbn in Hrun.
  - injection Hrun as <- <-. exists []. by rewrite app_nil_r.
  - destruct (do_sev d e) as [d1|] eqn:E; [|done].
    pose proof (do_sev_com d e d1 E) as Hcom.
    destruct (IH d1 _ d' imgs Hrun) as (new & -> & Hl).
    destruct e as [w|[|]|]; rewrite Hcom in Hl.
    + by exists new.
    + exists (cur d :: new). by rewrite <- app_assoc, last_cons_default.
    + by exists new.
    + exists (cur d :: new). by rewrite <- app_assoc, last_cons_default.
Qed.

Corollary committed_side_is_last_commit R l d' imgs :
  run_sevs db_init (compile_all R l) [] = Some (d', imgs) → com d' = List.last imgs empty_img.
Proof.
  intros H. destruct (committed_is_last_image _ _ _ _ _ H) as (new & -> & ->). done.
Qed.

(** ** Behind a CacheDB: one flush of the cache is exactly one commit of the backend
    (KV/Model.v [cache_flush], chain/db.go:278-345: all puts, then all deletes, then a single
    backend Flush) — no prefix of the backend steps of a cache flush commits, so the images
    the backend commits are those of the store's flushes, i.e. block-boundary images. *)
Lemma sp_put_del_com s o :
  (∃ b k v, o = Put b k v) ∨ (∃ b k, o = Del b k) → KV.Model.com (back_apply sp_backend s o) = KV.Model.com s.
Proof.
  unfold back_apply. cbn.
  intros [(b & k & v & ->)|(b & k & ->)]; cbn; by destruct (KV.Model.cur s !! b).
Qed.

Lemma flush_bucket_puts_com d b kvs : ∀ s,
  KV.Model.com (flush_bucket_puts sp_backend d b s kvs) = KV.Model.com s.
Proof.
  unfold flush_bucket_puts.
  induction kvs as [|kv r IH]; intros s; cbn [fold_left]; [done|].
  rewrite IH. case_bool_decide; [done|]. apply sp_put_del_com. left. eauto.
Qed.

Lemma flush_bucket_dels_com b ks : ∀ s,
  KV.Model.com (flush_bucket_dels sp_backend b s ks) = KV.Model.com s.
Proof.
  unfold flush_bucket_dels.
  induction ks as [|k r IH]; intros s; cbn [fold_left]; [done|].
  rewrite IH. apply sp_put_del_com. right. eauto.
Qed.

Theorem cache_flush_one_commit (c : cache sp_backend) :
  ∃ s2, cback (cache_flush sp_backend c) = back_apply sp_backend s2 Flush ∧
        KV.Model.com s2 = KV.Model.com (cback c) ∧
        KV.Model.com (cback (cache_flush sp_backend c)) = KV.Model.cur s2.
Proof.
  unfold cache_flush. eexists. split; [reflexivity|]. split; [|done].
  set (m := cmem c).
  assert (∀ (l : list (N * gset N)) s,
            KV.Model.com (fold_left (λ s bd, flush_bucket_dels sp_backend bd.1 s (elements bd.2)) l s) = KV.Model.com s) as Hd.
  { induction l as [|x l IH]; intros s; cbn [fold_left]; [done|]. by rewrite IH, flush_bucket_dels_com. }
  assert (∀ (l : list (N * bkt)) s,
            KV.Model.com (fold_left (λ s bp, flush_bucket_puts sp_backend (subd (dels m) bp.1) bp.1 s
                                      (map_to_list bp.2)) l s) = KV.Model.com s) as Hp.
  { induction l as [|x l IH]; intros s; cbn [fold_left]; [done|]. by rewrite IH, flush_bucket_puts_com. }
  by rewrite Hd, Hp.
Qed.
