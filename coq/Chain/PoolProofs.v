(** * Chain/PoolProofs.v — proofs about the pool model (C05, C14). *)
From Coq Require Import NArith List Lia.
From stdpp Require Import gmap.
From CV Require Import Chain.Pool.
Import ListNotations.
Open Scope N_scope.

Ltac splits := repeat match goal with |- _ ∧ _ => split end.

(** ** Basic facts *)
Lemma sublist_elem_of {A} (l1 l2 : list A) x : sublist l1 l2 → x ∈ l1 → x ∈ l2.
Proof. intros Hs Hx. eapply elem_of_submseteq; [done|]. by apply sublist_submseteq. Qed.

Lemma vseq_app L m a b :
  vseq L m (a ++ b) = match vseq L m a with Some m' => vseq L m' b | None => None end.
Proof. revert m; induction a as [|t a IH]; intros m; simpl; [done|]. destruct (check L m t); auto. Qed.

Lemma vseq_prefix L m a b m' : vseq L m (a ++ b) = Some m' → is_Some (vseq L m a).
Proof. rewrite vseq_app. destruct (vseq L m a); [eauto|done]. Qed.

Lemma total_weight_app a b : total_weight (a ++ b) = total_weight a + total_weight b.
Proof. induction a as [|t a IH]; simpl; [done|]. rewrite IH. lia. Qed.

(** ** The index/kind part of the pool invariant *)
Definition has_at (l : list atx) (n : nat) (id : N) : Prop := ∃ t, l !! n = Some t ∧ a_id t = id.

Definition idx_ok (p : pool) : Prop :=
  ∀ id n, indices p !! id = Some n ↔ has_at (txns p) n id ∨ has_at (v2txns p) n id.

Definition ids_disj (p : pool) : Prop :=
  ∀ n1 n2 id, has_at (txns p) n1 id → has_at (v2txns p) n2 id → False.

Definition kinds_ok (p : pool) : Prop :=
  Forall (λ t, a_v2 t = false) (txns p) ∧ Forall (λ t, a_v2 t = true) (v2txns p).

(** the full invariant: when the validation cache is set, it is the mid-state of the
    reported order, the index is exact, the weight is the sum *)
Definition Inv (L : ledger) (p : pool) : Prop :=
  match ms p with
  | None => True
  | Some m => vseq L fresh (txns p ++ v2txns p) = Some m ∧ idx_ok p ∧ ids_disj p ∧ kinds_ok p ∧
              weight p = total_weight (txns p ++ v2txns p)
  end.

(** ** refill *)
Lemma refill_spec L k ts : ∀ n m idx w r m' idx' w',
  refill L k ts n m idx w = (r, m', idx', w') →
  vseq L m r = Some m' ∧ Forall (λ t, a_v2 t = k) r ∧ w' = w + total_weight r ∧
  sublist r ts ∧
  (∀ id x, idx !! id = Some x → idx' !! id = Some x) ∧
  (∀ j t, r !! j = Some t → idx' !! a_id t = Some (n + j)%nat ∧ idx !! a_id t = None) ∧
  (∀ id x, idx' !! id = Some x → idx !! id = Some x ∨ ∃ j, has_at r j id ∧ x = (n + j)%nat).
Proof.
  induction ts as [|t ts IH]; intros n m idx w r m' idx' w' H; simpl in H.
  - inversion H; subst. splits; auto; try (simpl; lia).
    + intros j t Hj. rewrite lookup_nil in Hj. done.
  - case_bool_decide as Hk.
    { apply IH in H as (?&?&?&?&?&?&?). splits; auto. by apply sublist_cons. }
    destruct (Bool.eqb (a_v2 t) k && check L m t) eqn:Hc.
    2:{ apply IH in H as (?&?&?&?&?&?&?). splits; auto. by apply sublist_cons. }
    destruct (refill L k ts (S n) (apply_tx m t) (<[a_id t:=n]> idx) (w + a_weight t))
      as [[[r0 m0] idx0] w0] eqn:Hr.
    inversion H; subst; clear H.
    apply andb_true_iff in Hc as [Hkd Hck]. apply Bool.eqb_prop in Hkd.
    apply IH in Hr as (Hv&Hf&Hw&Hs&H1&H2&H3).
    assert (Hnone : idx !! a_id t = None).
    { destruct (idx !! a_id t) eqn:E; [|done]. exfalso. apply Hk. eauto. }
    splits.
    + simpl. by rewrite Hck.
    + by constructor.
    + simpl. lia.
    + by apply sublist_skip.
    + intros id x Hx. apply H1. destruct (decide (id = a_id t)) as [->|Hne]; [congruence|].
      by rewrite lookup_insert_ne.
    + intros j t0 H. destruct j as [|j]; simpl in H.
      * inversion H; subst. split; [|done]. rewrite Nat.add_0_r. apply H1. by rewrite lookup_insert.
      * destruct (H2 j t0 H) as [Ha Hb]. split; [rewrite Ha; f_equal; lia|].
        destruct (decide (a_id t0 = a_id t)) as [E|Hne]; [rewrite E, lookup_insert in Hb; done|].
        by rewrite lookup_insert_ne in Hb.
    + intros id x Hx. apply H3 in Hx as [Hx|(j&(u&Hu&Hid)&->)].
      * destruct (decide (id = a_id t)) as [->|Hne].
        -- rewrite lookup_insert in Hx. inversion Hx; subst. right. exists 0%nat.
           split; [exists t; done|lia].
        -- rewrite lookup_insert_ne in Hx by done. by left.
      * right. exists (S j). split; [exists u; done|lia].
Qed.

Lemma revalidate_cases L mw p :
  (revalidate L mw p = p ∧ is_Some (ms p) ∧ (weight p < mw * 10)) ∨
  ∃ t1 t2 r1 m1 idx1 w1 r2 m2 idx2 w2,
    sublist t1 (txns p) ∧ sublist t2 (v2txns p) ∧
    ((weight p < mw * 10) → t1 = txns p ∧ t2 = v2txns p) ∧
    refill L false (t1 ++ last_rev p) 0 fresh ∅ 0 = (r1, m1, idx1, w1) ∧
    refill L true (t2 ++ last_rev2 p) 0 m1 idx1 w1 = (r2, m2, idx2, w2) ∧
    revalidate L mw p = Pool r1 r2 idx2 (Some m2) w2 (last_rev p) (last_rev2 p).
Proof.
  unfold revalidate.
  destruct (bool_decide (is_Some (ms p)) && (weight p <? mw * 10)) eqn:E.
  { left. apply andb_true_iff in E as [E1 E2]. apply bool_decide_eq_true in E1.
    apply N.ltb_lt in E2. done. }
  right.
  set (kept := evict_loop _ _ _).
  destruct (mw * 10 <=? weight p) eqn:Ew.
  - destruct (refill L false (keep_by kept false (txns p) ++ last_rev p) 0 fresh ∅ 0) as [[[r1 m1] idx1] w1] eqn:R1.
    destruct (refill L true (keep_by kept true (v2txns p) ++ last_rev2 p) 0 m1 idx1 w1) as [[[r2 m2] idx2] w2] eqn:R2.
    exists (keep_by kept false (txns p)), (keep_by kept true (v2txns p)), r1, m1, idx1, w1, r2, m2, idx2, w2.
    apply N.leb_le in Ew.
    assert (Hsub : ∀ k l, sublist (keep_by kept k l) l).
    { intros k l. unfold keep_by. generalize 0%nat. induction l as [|t l IH]; intros s; simpl; [constructor|].
      destruct (bool_decide (Exists _ kept)); [apply sublist_skip|apply sublist_cons]; apply IH. }
    splits; auto. intros; lia.
  - destruct (refill L false (txns p ++ last_rev p) 0 fresh ∅ 0) as [[[r1 m1] idx1] w1] eqn:R1.
    destruct (refill L true (v2txns p ++ last_rev2 p) 0 m1 idx1 w1) as [[[r2 m2] idx2] w2] eqn:R2.
    exists (txns p), (v2txns p), r1, m1, idx1, w1, r2, m2, idx2, w2. splits; auto.
Qed.

Lemma revalidate_ms L mw p : is_Some (ms (revalidate L mw p)).
Proof.
  destruct (revalidate_cases L mw p) as [(->&?&?)|(?&?&?&?&?&?&?&?&?&?&?&?&?&?&?&->)]; simpl; eauto.
Qed.

Lemma revalidate_Inv L mw p : Inv L p → Inv L (revalidate L mw p).
Proof.
  intros HI.
  destruct (revalidate_cases L mw p) as [(->&?&?)|(t1&t2&r1&m1&idx1&w1&r2&m2&idx2&w2&_&_&_&R1&R2&->)]; [done|].
  apply refill_spec in R1 as (V1&K1&W1&_&A1&B1&C1).
  apply refill_spec in R2 as (V2&K2&W2&_&A2&B2&C2).
  unfold Inv; simpl. splits; auto.
  - rewrite vseq_app, V1. done.
  - intros id n. simpl. split.
    + intros [Hx|[j [Hj ->]]]%C2.
      * apply C1 in Hx as [Hx|[j [Hj ->]]]; [by rewrite lookup_empty in Hx|]. by left.
      * by right.
    + intros [(t&Ht&<-)|(t&Ht&<-)].
      * apply A2. by apply (B1 n t).
      * by apply (B2 n t).
  - intros n1 n2 id (t&Ht&<-) (u&Hu&Hid). simpl in *.
    destruct (B2 n2 u Hu) as [_ Hnone]. destruct (B1 n1 t Ht) as [Hsome _]. congruence.
  - split; done.
  - rewrite total_weight_app. lia.
Qed.

(** ** add_loop *)
Fixpoint new_members (seen : gset N) (set : list atx) : list atx :=
  match set with
  | [] => []
  | t :: r => if bool_decide (a_id t ∈ seen) then new_members seen r
              else t :: new_members ({[a_id t]} ∪ seen) r
  end.

Lemma add_loop_spec L ts : ∀ l m idx w l' m' idx' w' ok,
  add_loop L ts l m idx w = (l', m', idx', w', ok) →
  ∃ news, l' = l ++ news ∧ vseq L m news = Some m' ∧ w' = w + total_weight news ∧
    sublist news ts ∧
    (ok = true → news = new_members (dom idx) ts) ∧
    (∀ id x, idx !! id = Some x → idx' !! id = Some x) ∧
    (∀ j t, news !! j = Some t → idx' !! a_id t = Some (length l + j)%nat ∧ idx !! a_id t = None) ∧
    (∀ id x, idx' !! id = Some x → idx !! id = Some x ∨ ∃ j, has_at news j id ∧ x = (length l + j)%nat).
Proof.
  induction ts as [|t ts IH]; intros l m idx w l' m' idx' w' ok H; simpl in H.
  - inversion H; subst. exists []. rewrite app_nil_r. splits; auto; try (simpl; lia).
    intros j t Hj. by rewrite lookup_nil in Hj.
  - case_bool_decide as Hk.
    { apply IH in H as (news&?&?&?&?&Hn&?&?&?). exists news. splits; auto.
      - by apply sublist_cons.
      - intros ->. simpl. rewrite bool_decide_true; [auto|]. by apply elem_of_dom. }
    destruct (check L m t) eqn:Hck.
    2:{ inversion H; subst. exists []. rewrite app_nil_r. splits; auto; try (simpl; lia); try done.
        apply sublist_nil_l. }
    assert (Hnone : idx !! a_id t = None).
    { destruct (idx !! a_id t) eqn:E; [|done]. exfalso. apply Hk. eauto. }
    apply IH in H as (news&->&Hv&Hw&Hs&Hn&H1&H2&H3).
    exists (t :: news). rewrite <- app_assoc. simpl. splits; auto.
    + by rewrite Hck.
    + lia.
    + by apply sublist_skip.
    + intros Hok. rewrite bool_decide_false; [|by rewrite not_elem_of_dom].
      f_equal. rewrite (Hn Hok). f_equal. rewrite dom_insert_L. done.
    + intros id x Hx. apply H1. destruct (decide (id = a_id t)) as [->|Hne]; [congruence|].
      by rewrite lookup_insert_ne.
    + intros j t0 H. destruct j as [|j]; simpl in H.
      * inversion H; subst. split; [|done]. rewrite Nat.add_0_r. apply H1. by rewrite lookup_insert.
      * destruct (H2 j t0 H) as [Ha Hb]. split; [rewrite Ha; f_equal; rewrite app_length; simpl; lia|].
        destruct (decide (a_id t0 = a_id t)) as [E|Hne]; [rewrite E, lookup_insert in Hb; done|].
        by rewrite lookup_insert_ne in Hb.
    + intros id x Hx. apply H3 in Hx as [Hx|(j&(u&Hu&Hid)&->)].
      * destruct (decide (id = a_id t)) as [->|Hne].
        -- rewrite lookup_insert in Hx. inversion Hx; subst. right. exists 0%nat.
           split; [exists t; done|lia].
        -- rewrite lookup_insert_ne in Hx by done. by left.
      * right. exists (S j). split; [exists u; done|]. rewrite app_length. simpl. lia.
Qed.

(** ** check_set *)
Lemma check_set_spec L k idx : ∀ ts m all b,
  check_set L k idx m all ts = Some b →
  Forall (λ t, a_v2 t = k) ts ∧ is_Some (vseq L m ts) ∧
  b = all && forallb (λ t, bool_decide (is_Some (idx !! a_id t))) ts.
Proof.
  induction ts as [|t ts IH]; intros m all b H; simpl in H.
  - inversion H; subst. splits; [constructor|simpl; eauto|]. simpl. by rewrite andb_true_r.
  - destruct (Bool.eqb (a_v2 t) k && check L m t) eqn:E; [|done].
    apply andb_true_iff in E as [E1 E2]. apply Bool.eqb_prop in E1.
    apply IH in H as (Hk&Hv&->). splits; [by constructor|simpl; by rewrite E2|].
    simpl. by rewrite andb_assoc.
Qed.

Lemma check_set_complete L k idx : ∀ ts m all,
  Forall (λ t, a_v2 t = k) ts → is_Some (vseq L m ts) →
  check_set L k idx m all ts = Some (all && forallb (λ t, bool_decide (is_Some (idx !! a_id t))) ts).
Proof.
  induction ts as [|t ts IH]; intros m all Hk Hv; simpl.
  - by rewrite andb_true_r.
  - inversion Hk; subst. simpl in Hv. destruct (check L m t) eqn:E; [|by destruct Hv].
    rewrite Bool.eqb_reflx. simpl. rewrite IH by done. by rewrite andb_assoc.
Qed.

(** ** The index part of the invariant is preserved by every step *)
Definition InvI (p : pool) : Prop :=
  match ms p with None => True | Some _ => idx_ok p ∧ ids_disj p ∧ kinds_ok p end.

Lemma Inv_InvI L p : Inv L p → InvI p.
Proof. unfold Inv, InvI. destruct (ms p); [|done]. tauto. Qed.

Lemma revalidate_InvI L mw p :
  InvI p → idx_ok (revalidate L mw p) ∧ ids_disj (revalidate L mw p) ∧ kinds_ok (revalidate L mw p).
Proof.
  intros HI.
  destruct (revalidate_cases L mw p) as [(->&[m Hm]&?)|(t1&t2&r1&m1&idx1&w1&r2&m2&idx2&w2&_&_&_&R1&R2&->)].
  { unfold InvI in HI. by rewrite Hm in HI. }
  apply refill_spec in R1 as (V1&K1&W1&_&A1&B1&C1).
  apply refill_spec in R2 as (V2&K2&W2&_&A2&B2&C2).
  split; [|split; [|split; done]].
  - intros id n. simpl. split.
    + intros [Hx|[j [Hj ->]]]%C2.
      * apply C1 in Hx as [Hx|[j [Hj ->]]]; [by rewrite lookup_empty in Hx|]. by left.
      * by right.
    + intros [(t&Ht&<-)|(t&Ht&<-)].
      * apply A2. by apply (B1 n t).
      * by apply (B2 n t).
  - intros n1 n2 id (t&Ht&<-) (u&Hu&Hid). simpl in *.
    destruct (B2 n2 u Hu) as [_ Hnone]. destruct (B1 n1 t Ht) as [Hsome _]. congruence.
Qed.

Lemma has_at_app_l l news n id : has_at l n id → has_at (l ++ news) n id.
Proof. intros (t&Ht&?). exists t. split; [|done]. by apply lookup_app_l_Some. Qed.

Lemma has_at_app l news n id :
  has_at (l ++ news) n id ↔ has_at l n id ∨ ∃ j, has_at news j id ∧ n = (length l + j)%nat.
Proof.
  split.
  - intros (t&Ht&?). apply lookup_app_Some in Ht as [Ht|[Hl Ht]].
    + left. by exists t.
    + right. exists (n - length l)%nat. split; [by exists t|lia].
  - intros [H|(j&(t&Ht&?)&->)]; [by apply has_at_app_l|].
    exists t. split; [|done]. rewrite lookup_app_r by lia. by replace (length l + j - length l)%nat with j by lia.
Qed.

(** what a call of add_core does to the two lists (repaired code) *)
Lemma add_core_lists L k p set p' v :
  is_Some (ms p) → add_core false L k p set = (p', v) →
  (v = VAdded ∧ ∃ news m',
     news = new_members (dom (indices p)) set ∧ Forall (λ t, a_v2 t = k) news ∧
     ms p' = Some m' ∧ last_rev p' = last_rev p ∧ last_rev2 p' = last_rev2 p ∧
     weight p' = weight p + total_weight news ∧
     (if k then txns p' = txns p ∧ v2txns p' = v2txns p ++ news
      else txns p' = txns p ++ news ∧ v2txns p' = v2txns p) ∧
     (idx_ok p → idx_ok p') ∧ (idx_ok p → ids_disj p → ids_disj p') ∧
     (∀ m, ms p = Some m → vseq L m news = Some m')) ∨
  (v ≠ VAdded ∧ txns p' = txns p ∧ v2txns p' = v2txns p ∧ indices p' = indices p ∧
   weight p' = weight p ∧ last_rev p' = last_rev p ∧ last_rev2 p' = last_rev2 p ∧
   (ms p' = ms p ∨ ms p' = None)).
Proof.
  intros [m Hm] H. unfold add_core in H. rewrite Hm in H.
  destruct (k && negb (check_eph ∅ set)).
  { inversion H; subst. right. splits; auto; done. }
  destruct (check_set L k (indices p) fresh true set) as [[|]|] eqn:Hcs.
  1,3: inversion H; subst; right; splits; auto; done.
  destruct (add_loop L set (if k then v2txns p else txns p) m (indices p) (weight p))
    as [[[[l m'] idx] w] ok] eqn:Hal.
  apply check_set_spec in Hcs as (Hkinds&_&_).
  apply add_loop_spec in Hal as (news&->&Hv&Hw&Hs&Hn&H1&H2&H3).
  destruct ok.
  2:{ inversion H; subst. right. splits; auto; done. }
  left. assert (Hkn : Forall (λ t, a_v2 t = k) news).
  { rewrite Forall_forall in Hkinds |- *. intros t Ht. apply Hkinds.
    eapply sublist_elem_of; eauto. }
  assert (Hvm : ∀ m0, ms p = Some m0 → vseq L m0 news = Some m').
  { intros m0 Hm0. rewrite Hm in Hm0. inversion Hm0; subst. exact Hv. }
  destruct k; inversion H; subst; clear H; (split; [reflexivity|]); exists news, m'; simpl.
  - split; [by apply Hn|]. split; [done|]. split; [done|]. split; [done|]. split; [done|].
    split; [done|]. split; [done|]. split; [|split; [|done]].
    { intros Hok id n. simpl. rewrite has_at_app. split.
      + intros [Hx|(j&Hj&->)]%H3; [apply Hok in Hx as [?|?]; auto|]. right. right. eauto.
      + intros [Hx|[Hx|(j&(t&Ht&<-)&->)]].
        * apply H1, Hok. by left.
        * apply H1, Hok. by right.
        * by apply (H2 j t). }
    intros Hok Hd n1 n2 id A B. simpl in *. apply has_at_app in B as [B|(j&(t&Ht&<-)&->)]; [by eapply Hd|].
    destruct (H2 j t Ht) as [_ Hnone]. assert (indices p !! a_id t = Some n1) by (apply Hok; by left). congruence.
  - split; [by apply Hn|]. split; [done|]. split; [done|]. split; [done|]. split; [done|].
    split; [done|]. split; [done|]. split; [|split; [|done]].
    { intros Hok id n. simpl. rewrite has_at_app. split.
      + intros [Hx|(j&Hj&->)]%H3; [apply Hok in Hx as [?|?]; auto|]. left. right. eauto.
      + intros [[Hx|(j&(t&Ht&<-)&->)]|Hx].
        * apply H1, Hok. by left.
        * by apply (H2 j t).
        * apply H1, Hok. by right. }
    intros Hok Hd n1 n2 id A B. simpl in *. apply has_at_app in A as [A|(j&(t&Ht&<-)&->)]; [by eapply Hd|].
    destruct (H2 j t Ht) as [_ Hnone]. assert (indices p !! a_id t = Some n2) by (apply Hok; by right). congruence.
Qed.

Lemma add_core_InvI L k p set p' v :
  is_Some (ms p) → idx_ok p → ids_disj p → kinds_ok p → add_core false L k p set = (p', v) → InvI p'.
Proof.
  intros Hm Hi Hd [Hk1 Hk2] H. apply add_core_lists in H; [|done].
  destruct H as [(_&news&m'&_&Hkn&Hms&_&_&_&Hl&Hidx&Hdis&_)|(_&Ht&Hv&Hidx&_&_&_&Hms)].
  - unfold InvI. rewrite Hms. split; [auto|]. split; [auto|]. unfold kinds_ok.
    destruct k; destruct Hl as [-> ->]; split; auto; apply Forall_app; auto.
  - unfold InvI. destruct Hms as [Hms|Hms]; [|by rewrite Hms]. destruct Hm as [m Hm]. rewrite Hms, Hm.
    split; [|split; [|unfold kinds_ok; by rewrite Ht, Hv]].
    + intros id n. rewrite Hidx, Ht, Hv. apply Hi.
    + unfold ids_disj. rewrite Ht, Hv. apply Hd.
Qed.

Lemma nstep_InvI mw s o : InvI s.2 → InvI (nstep mw s o).1.2.
Proof.
  destruct s as [L p]. simpl. intros HI. destruct o as [set|set|steps lr L'|]; simpl.
  - destruct (add_v1 L mw p set) as [p' v] eqn:E. simpl. unfold add_v1 in E.
    destruct (revalidate_InvI L mw p HI) as (?&?&?). eapply add_core_InvI; eauto using revalidate_ms.
  - destruct (add_v2 L mw p set) as [p' v] eqn:E. simpl. unfold add_v2 in E.
    destruct (revalidate_InvI L mw p HI) as (Hi&Hd&Hk). destruct set as [s|].
    + eapply add_core_InvI; eauto using revalidate_ms.
    + inversion E; subst. unfold InvI. destruct (ms _); done.
  - unfold chain_step, chain_step_gen. destruct lr as [[l1 l2]|]; unfold InvI; simpl; done.
  - destruct (revalidate_InvI L mw p HI) as (?&?&?). unfold InvI. destruct (ms _); done.
Qed.

Lemma nrun_snoc mw L0 ops o : nrun mw L0 (ops ++ [o]) = (nstep mw (nrun mw L0 ops) o).1.
Proof. unfold nrun. by rewrite foldl_app. Qed.

Lemma nrun_InvI mw L0 ops : InvI (nrun mw L0 ops).2.
Proof.
  induction ops as [|o ops IH] using rev_ind; [unfold nrun, InvI; simpl; done|].
  rewrite nrun_snoc. by apply nstep_InvI.
Qed.

(** ** C14: lookup *)
Lemma idx_ok_unique p n1 n2 id l1 l2 :
  idx_ok p → (l1 = txns p ∨ l1 = v2txns p) → (l2 = txns p ∨ l2 = v2txns p) →
  has_at l1 n1 id → has_at l2 n2 id → n1 = n2.
Proof.
  intros Hok H1 H2 A B.
  assert (indices p !! id = Some n1) by (apply Hok; destruct H1 as [->| ->]; auto).
  assert (indices p !! id = Some n2) by (apply Hok; destruct H2 as [->| ->]; auto).
  congruence.
Qed.

Lemma lookup_in_exact p (v2 : bool) id :
  idx_ok p → ids_disj p → kinds_ok p →
  let l := if v2 then v2txns p else txns p in
  match lookup_in l (indices p) id with
  | LFound t => t ∈ l ∧ a_id t = id ∧ a_v2 t = v2 ∧
                ∀ t', t' ∈ txns p ++ v2txns p → a_id t' = id → t' = t
  | LAbsent => ∀ t, t ∈ l → a_id t ≠ id
  | LPanic => False
  end.
Proof.
  intros Hok Hdis [Hk1 Hk2] l. unfold lookup_in.
  assert (Hl : l = txns p ∨ l = v2txns p) by (destruct v2; auto).
  destruct (indices p !! id) as [n|] eqn:Hn.
  - destruct (l !! n) as [t|] eqn:Ht.
    + destruct (a_id t =? id) eqn:E.
      * apply N.eqb_eq in E. splits; auto.
        -- by eapply elem_of_list_lookup_2.
        -- assert (t ∈ l) by (by eapply elem_of_list_lookup_2).
           destruct v2; subst l; [rewrite Forall_forall in Hk2|rewrite Forall_forall in Hk1]; auto.
        -- intros t' Hin Hid. apply elem_of_app in Hin.
           assert (∃ l' n', (l' = txns p ∨ l' = v2txns p) ∧ l' !! n' = Some t') as (l'&n'&Hl'&Hn').
           { destruct Hin as [Hin|Hin]; apply elem_of_list_lookup_1 in Hin as [n' Hn']; eauto. }
           assert (n = n').
           { eapply (idx_ok_unique p n n' id l l'); eauto; [by exists t|by exists t']. }
           subst n'.
           assert (l' = l).
           { (* same position in the other list would give the id two homes *)
             destruct Hl as [->| ->], Hl' as [->| ->]; auto; exfalso.
             - eapply (Hdis n n id); [by exists t|by exists t'].
             - eapply (Hdis n n id); [by exists t'|by exists t]. }
           subst. congruence.
      * apply N.eqb_neq in E. intros t' Hin Hid.
        apply elem_of_list_lookup_1 in Hin as [n' Hn'].
        assert (indices p !! id = Some n') by (apply Hok; destruct Hl as [->| ->]; [left|right]; by exists t').
        assert (n' = n) by congruence. subst. congruence.
    + intros t' Hin Hid. apply elem_of_list_lookup_1 in Hin as [n' Hn'].
      assert (indices p !! id = Some n') by (apply Hok; destruct Hl as [->| ->]; [left|right]; by exists t').
      assert (n' = n) by congruence. subst. congruence.
  - intros t' Hin Hid. apply elem_of_list_lookup_1 in Hin as [n' Hn'].
    assert (indices p !! id = Some n') by (apply Hok; destruct Hl as [->| ->]; [left|right]; by exists t').
    congruence.
Qed.

Theorem lookup_exact mw L0 ops id :
  let s := nrun mw L0 ops in
  (match lookup_v1 s.1 mw s.2 id with
   | LFound t => t ∈ pool_transactions s.1 mw s.2 ∧ a_id t = id ∧ a_v2 t = false ∧
                 ∀ t', t' ∈ reported mw s → a_id t' = id → t' = t
   | LAbsent => ∀ t, t ∈ pool_transactions s.1 mw s.2 → a_id t ≠ id
   | LPanic => False
   end) ∧
  (match lookup_v2 s.1 mw s.2 id with
   | LFound t => t ∈ v2_pool_transactions s.1 mw s.2 ∧ a_id t = id ∧ a_v2 t = true ∧
                 ∀ t', t' ∈ reported mw s → a_id t' = id → t' = t
   | LAbsent => ∀ t, t ∈ v2_pool_transactions s.1 mw s.2 → a_id t ≠ id
   | LPanic => False
   end).
Proof.
  intros s. destruct (revalidate_InvI s.1 mw s.2 (nrun_InvI mw L0 ops)) as (Hi&Hd&Hk).
  split.
  - apply (lookup_in_exact _ false id Hi Hd Hk).
  - apply (lookup_in_exact _ true id Hi Hd Hk).
Qed.

(** ** C14: known *)
Definition set_ok (L : ledger) (k : bool) (set : list atx) : Prop :=
  Forall (λ t, a_v2 t = k) set ∧ valid_seq L set ∧ (k = true → check_eph ∅ set = true).

Definition add_k (k : bool) (L : ledger) (mw : N) (p : pool) (set : list atx) : pool * verdict :=
  if k then add_v2 L mw p (Some set) else add_v1 L mw p set.

Lemma add_k_core k L mw p set : add_k k L mw p set = add_core false L k (revalidate L mw p) set.
Proof. by destruct k. Qed.

Lemma pooled_iff_indexed p id :
  idx_ok p → (is_Some (indices p !! id) ↔ ∃ u, u ∈ txns p ++ v2txns p ∧ a_id u = id).
Proof.
  intros Hok. split.
  - intros [n Hn]. apply Hok in Hn as [(u&Hu&?)|(u&Hu&?)]; exists u; (split; [|done]);
      apply elem_of_app; [left|right]; by eapply elem_of_list_lookup_2.
  - intros (u&[Hin|Hin]%elem_of_app&Hid); apply elem_of_list_lookup_1 in Hin as [n Hn];
      exists n; apply Hok; [left|right]; by exists u.
Qed.

Theorem known_iff_all_pooled mw L0 ops k set p' v :
  let s := nrun mw L0 ops in
  add_k k s.1 mw s.2 set = (p', v) →
  (v = VKnown ↔ set_ok s.1 k set ∧ ∀ t, t ∈ set → ∃ u, u ∈ reported mw s ∧ a_id u = a_id t).
Proof.
  intros s H. rewrite add_k_core in H.
  destruct (revalidate_InvI s.1 mw s.2 (nrun_InvI mw L0 ops)) as (Hi&Hd&Hk).
  destruct (revalidate_ms s.1 mw s.2) as [m Hm].
  set (q := revalidate s.1 mw s.2) in *.
  assert (Hall : ∀ set', forallb (λ t, bool_decide (is_Some (indices q !! a_id t))) set' = true ↔
                 ∀ t, t ∈ set' → ∃ u, u ∈ reported mw s ∧ a_id u = a_id t).
  { intros set'. rewrite forallb_forall. split.
    - intros Ha t Ht. apply elem_of_list_In, Ha, bool_decide_eq_true in Ht.
      by apply pooled_iff_indexed in Ht.
    - intros Ha t Ht%elem_of_list_In. apply bool_decide_eq_true, pooled_iff_indexed; auto. }
  unfold add_core in H. rewrite Hm in H.
  destruct (k && negb (check_eph ∅ set)) eqn:Ee.
  { inversion H; subst. split; [done|]. intros [(_&_&He) _]. apply andb_true_iff in Ee as [-> Ee].
    rewrite He in Ee; done. }
  assert (Heph : k = true → check_eph ∅ set = true).
  { intros ->. simpl in Ee. by apply negb_false_iff in Ee. }
  destruct (check_set s.1 k (indices q) fresh true set) as [b|] eqn:Hcs.
  - apply check_set_spec in Hcs as (Hkinds&Hv&Hb). simpl in Hb.
    destruct b.
    + inversion H; subst. split; [|done]. intros _. split; [split; auto|]. by apply Hall.
    + destruct (add_loop _ _ _ _ _ _) as [[[[? ?] ?] ?] ok]. destruct ok; inversion H; subst.
      * split; [done|]. intros [_ Ha%Hall]. congruence.
      * split; [done|]. intros [_ Ha%Hall]. congruence.
  - inversion H; subst. split; [done|]. intros [(Hkinds&Hv&_) _].
    rewrite check_set_complete in Hcs; done.
Qed.

(** ** C14: all or none *)
Lemma dom_indices p : idx_ok p → dom (indices p) = list_to_set (map a_id (txns p ++ v2txns p)).
Proof.
  intros Hok. apply set_eq. intros id. rewrite elem_of_dom, elem_of_list_to_set, elem_of_list_fmap.
  rewrite pooled_iff_indexed by done. split; intros (u&?&?); exists u; auto.
Qed.

Theorem add_all_or_none mw L0 ops k set p' v :
  let s := nrun mw L0 ops in
  let q := revalidate s.1 mw s.2 in
  add_k k s.1 mw s.2 set = (p', v) →
  (v = VAdded ∧
   let news := new_members (list_to_set (map a_id (txns q ++ v2txns q))) set in
   txns p' = txns q ++ (if k then [] else news) ∧ v2txns p' = v2txns q ++ (if k then news else []) ∧
   (weight p' < mw * 10 → revalidate s.1 mw p' = p')) ∨
  (v ≠ VAdded ∧ txns p' = txns q ∧ v2txns p' = v2txns q).
Proof.
  intros s q H. rewrite add_k_core in H.
  destruct (revalidate_InvI s.1 mw s.2 (nrun_InvI mw L0 ops)) as (Hi&Hd&Hk).
  apply add_core_lists in H; [|apply revalidate_ms].
  destruct H as [(->&news&m'&->&_&Hms&_&_&_&Hl&_)|(?&?&?&_)]; [left|right; auto].
  split; [done|]. fold q. rewrite <- (dom_indices q Hi). simpl.
  destruct k; destruct Hl as [-> ->]; rewrite ?app_nil_r; (split; [done|split; [done|]]);
    intros Hw; unfold revalidate; rewrite Hms; simpl;
    (replace (weight p' <? mw * 10) with true by (symmetry; by apply N.ltb_lt)); done.
Qed.

(** ** Sequential validity: monotonicity and commutation *)
Lemma apply_tx_comm m a b : apply_tx (apply_tx m a) b = apply_tx (apply_tx m b) a.
Proof. unfold apply_tx; simpl. f_equal; set_solver. Qed.

Lemma check_iff L m t :
  check L m t = true ↔
  static_ok (l_h L) t = true ∧ Forall (λ i, check_in L m (a_v2 t) i = true) (a_ins t).
Proof.
  unfold check. rewrite andb_true_iff, forallb_forall, Forall_forall.
  split; intros [? H]; split; auto; intros i Hi; apply H; by apply elem_of_list_In.
Qed.

Lemma check_in_nonref L m v2 i :
  is_ref i = false →
  (check_in L m v2 i = true ↔ i_el i ∉ m_sp m ∧ avail L m v2 i = true ∧ rev_ok L i = true).
Proof.
  unfold check_in, is_ref. destruct (i_role i); try done; intros _;
    rewrite !andb_true_iff, negb_true_iff, bool_decide_eq_false; tauto.
Qed.

Lemma check_in_ref L m m' v2 i : is_ref i = true → check_in L m v2 i = check_in L m' v2 i.
Proof. unfold check_in, is_ref. destruct (i_role i); done. Qed.

Lemma avail_mono L m m' v2 i : m_cr m ⊆ m_cr m' → avail L m v2 i = true → avail L m' v2 i = true.
Proof.
  intros Hs. unfold avail. destruct v2.
  - destruct (is_eph i); [|done]. rewrite !andb_true_iff, !bool_decide_eq_true. intros [? ?]; split; auto.
  - rewrite !orb_true_iff, !bool_decide_eq_true. intros [?|?]; auto.
Qed.

Lemma static_wf h t i : static_ok h t = true → i ∈ a_ins t → wf_in (a_v2 t) i = true.
Proof.
  unfold static_ok. rewrite !andb_true_iff, forallb_forall. intros (_&H) Hi.
  apply H. by apply elem_of_list_In.
Qed.

Lemma elem_of_spends t el : el ∈ spends t ↔ ∃ i, i ∈ a_ins t ∧ is_spend i = true ∧ i_el i = el.
Proof.
  unfold spends. rewrite elem_of_list_fmap. split.
  - intros (i&->&Hi). apply elem_of_list_In, filter_In in Hi as [Hi Hs]. exists i.
    split; [by apply elem_of_list_In|done].
  - intros (i&Hi&Hs&<-). exists i. split; [done|]. apply elem_of_list_In, filter_In.
    split; [by apply elem_of_list_In|done].
Qed.

Lemma check_after L m n u :
  check L m u = true →
  (∀ i, i ∈ a_ins u → is_ref i = false → i_el i ∉ spends n) →
  check L (apply_tx m n) u = true.
Proof.
  rewrite !check_iff. intros [Hs Hf] Hd. split; [done|].
  rewrite Forall_forall in Hf |- *. intros i Hi. specialize (Hf i Hi).
  destruct (is_ref i) eqn:Hr.
  - by rewrite <- (check_in_ref L m).
  - apply check_in_nonref in Hf as (Hsp&Hav&Hrv); [|done]. apply check_in_nonref; [done|]. splits.
    + simpl. rewrite not_elem_of_union, elem_of_list_to_set. split; [done|]. by apply Hd.
    + eapply avail_mono; [|done]. simpl. set_solver.
    + done.
Qed.

Lemma check_weaken L m1 m0 n :
  check L m1 n = true → m_sp m0 ⊆ m_sp m1 →
  (∀ i, i ∈ a_ins n → is_ref i = false → avail L m0 (a_v2 n) i = true) →
  check L m0 n = true.
Proof.
  rewrite !check_iff. intros [Hs Hf] Hsub Hav. split; [done|].
  rewrite Forall_forall in Hf |- *. intros i Hi. specialize (Hf i Hi).
  destruct (is_ref i) eqn:Hr.
  - by rewrite <- (check_in_ref L m1).
  - apply check_in_nonref in Hf as (Hsp&_&Hrv); [|done]. apply check_in_nonref; [done|]. splits; [set_solver|auto|done].
Qed.

Lemma vseq_sp_cr L : ∀ ts m m', vseq L m ts = Some m' →
  m_sp m ⊆ m_sp m' ∧ m_cr m ⊆ m_cr m' ∧
  (∀ t, t ∈ ts → list_to_set (spends t) ⊆ m_sp m' ∧ list_to_set (a_outs t) ⊆ m_cr m').
Proof.
  induction ts as [|t ts IH]; intros m m' H; simpl in H.
  - inversion H; subst. splits; auto. intros t Ht. by apply elem_of_nil in Ht.
  - destruct (check L m t); [|done]. apply IH in H as (H1&H2&H3). simpl in *. splits; [set_solver|set_solver|].
    intros u [->|Hu]%elem_of_cons; [set_solver|auto].
Qed.

(** a v1 transaction validated after a run of v2 transactions does not touch what they use *)
Lemma v1_v2_disjoint L m1 mu n u :
  check L m1 n = true → a_v2 n = false → check L mu u = true → a_v2 u = true →
  list_to_set (spends u) ⊆ m_sp m1 →
  ∀ i, i ∈ a_ins u → is_ref i = false → i_el i ∉ spends n.
Proof.
  intros Hn Hvn Hu Hvu Hsub i Hi Hr Hin.
  apply elem_of_spends in Hin as (j&Hj&Hsj&Hel).
  apply check_iff in Hn as [Hsn Hfn]. apply check_iff in Hu as [Hsu Hfu].
  rewrite Forall_forall in Hfn. specialize (Hfn j Hj).
  assert (Hrj : is_ref j = false) by (unfold is_spend, is_ref in *; destruct (i_role j); done).
  apply check_in_nonref in Hfn as (Hnsp&_&_); [|done].
  pose proof (static_wf _ _ _ Hsn Hj) as Hwj. pose proof (static_wf _ _ _ Hsu Hi) as Hwi.
  rewrite Hvn in Hwj. rewrite Hvu in Hwi. unfold wf_in in *.
  unfold is_spend, is_ref in *. destruct (i_role j) eqn:Rj; try done.
  destruct (i_role i) eqn:Ri; try done.
  - (* i spends the element too: it is in m_sp m1 *)
    apply Hnsp. apply Hsub. rewrite elem_of_list_to_set, elem_of_spends. exists i.
    unfold is_spend. rewrite Ri. auto.
  - (* i revises it: class 3, which a v1 transaction cannot spend *)
    rewrite Hel in Hwj. apply N.eqb_eq in Hwi. rewrite Hwi in Hwj. done.
Qed.

(** moving a v1 transaction in front of a run of v2 transactions *)
Lemma vseq_insert L n : ∀ us m0 m1,
  vseq L m0 us = Some m1 → check L m1 n = true → a_v2 n = false →
  Forall (λ u, a_v2 u = true) us →
  (∀ i, i ∈ a_ins n → is_ref i = false → avail L m0 false i = true) →
  vseq L m0 (n :: us) = Some (apply_tx m1 n).
Proof.
  induction us as [|u us IH]; intros m0 m1 Hv Hn Hvn Hk Hav.
  - simpl in Hv. inversion Hv; subst. simpl. by rewrite Hn.
  - simpl in Hv. destruct (check L m0 u) eqn:Hu; [|done].
    inversion Hk as [|? ? Hku Hk']; subst.
    pose proof (vseq_sp_cr _ _ _ _ Hv) as (Hsp&Hcr&_). simpl in Hsp, Hcr.
    assert (Hn0 : check L m0 n = true).
    { eapply check_weaken; [exact Hn|set_solver|]. by rewrite Hvn. }
    assert (IH' : vseq L (apply_tx m0 u) (n :: us) = Some (apply_tx m1 n)).
    { apply IH; auto. intros i Hi Hr. eapply avail_mono; [|by apply Hav]. simpl. set_solver. }
    simpl in IH'. destruct (check L (apply_tx m0 u) n) eqn:Hnu; [|done].
    simpl. rewrite Hn0.
    assert (Hun : check L (apply_tx m0 n) u = true).
    { apply check_after; [done|]. eapply (v1_v2_disjoint L m1 m0 n u); eauto.
      pose proof (vseq_sp_cr _ _ _ _ Hv) as (Hs2&_&_). simpl in Hs2. set_solver. }
    rewrite Hun. by rewrite apply_tx_comm.
Qed.

(** ** The transaction universe: ids determine transactions (up to proof data) *)
Definition core (t : atx) : atx := map_ins (λ i, set_leaf i 0 false) t.
Definition ids_inj (U : list atx) : Prop :=
  ∀ t1 t2, t1 ∈ U → t2 ∈ U → a_id t1 = a_id t2 → core t1 = core t2.
Definition in_U (U : list atx) (t : atx) : Prop := ∃ u, u ∈ U ∧ core t = core u.

Lemma core_fields t : a_id (core t) = a_id t ∧ a_v2 (core t) = a_v2 t ∧ a_outs (core t) = a_outs t.
Proof. done. Qed.

Lemma in_U_same_id U t1 t2 :
  ids_inj U → in_U U t1 → in_U U t2 → a_id t1 = a_id t2 → core t1 = core t2.
Proof.
  intros Hinj (u1&H1&E1) (u2&H2&E2) Hid. rewrite E1, E2. apply Hinj; auto.
  assert (a_id (core t1) = a_id (core t2)) by (by rewrite !(proj1 (core_fields _))).
  rewrite E1, E2 in H. by rewrite !(proj1 (core_fields _)) in H.
Qed.

Lemma core_eq_fields t1 t2 : core t1 = core t2 → a_v2 t1 = a_v2 t2 ∧ a_outs t1 = a_outs t2.
Proof.
  intros H. split.
  - change (a_v2 (core t1) = a_v2 (core t2)). by rewrite H.
  - change (a_outs (core t1) = a_outs (core t2)). by rewrite H.
Qed.

Lemma core_map_ins f t : (∀ i, ∃ lf ok, f i = set_leaf i lf ok) → core (map_ins f t) = core t.
Proof.
  intros Hf. unfold core, map_ins; simpl. f_equal. rewrite map_map. apply map_ext.
  intros i. destruct (Hf i) as (lf&ok&->). done.
Qed.

(** the lock-step of checkTxnSet's mid-state and the add loop: the new v1 members can be
    placed before the pooled v2 transactions *)
Lemma add_loop_v1_commute L U v2s :
  ids_inj U → Forall (λ u, a_v2 u = true) v2s → Forall (in_U U) v2s →
  ∀ ts l ma m idx w cm l' m' idx' w',
    Forall (λ t, a_v2 t = false) ts → Forall (in_U U) ts → is_Some (vseq L cm ts) →
    Forall (λ t, a_v2 t = false) l → Forall (in_U U) l →
    vseq L fresh l = Some ma → vseq L ma v2s = Some m →
    m_cr cm ⊆ m_cr ma →
    (∀ id, is_Some (idx !! id) → ∃ u, u ∈ l ++ v2s ∧ a_id u = id) →
    add_loop L ts l m idx w = (l', m', idx', w', true) →
    vseq L fresh (l' ++ v2s) = Some m'.
Proof.
  intros Hinj Hk2 HU2.
  induction ts as [|t ts IH]; intros l ma m idx w cm l' m' idx' w' Hkt HUt Hcs Hkl HUl Hma Hm Hcr Hidx Hal.
  - simpl in Hal. inversion Hal; subst. by rewrite vseq_app, Hma.
  - simpl in Hal. simpl in Hcs. destruct (check L cm t) eqn:Hct; [|by destruct Hcs].
    inversion Hkt as [|? ? Hvt Hkt']; subst. inversion HUt as [|? ? HUt1 HUt']; subst.
    case_bool_decide as Hkn.
    + (* known: its outputs are already created by the v1 part *)
      eapply (IH l ma m idx w (apply_tx cm t)); eauto.
      destruct (Hidx _ Hkn) as (u&Hu&Hid).
      assert (HUu : in_U U u).
      { apply elem_of_app in Hu as [Hu|Hu]; [rewrite Forall_forall in HUl|rewrite Forall_forall in HU2]; auto. }
      pose proof (in_U_same_id U u t Hinj HUu HUt1 Hid) as Hc.
      apply core_eq_fields in Hc as [Hv2 Houts].
      apply elem_of_app in Hu as [Hu|Hu].
      * pose proof (vseq_sp_cr _ _ _ _ Hma) as (_&_&H3). destruct (H3 u Hu) as [_ Ho].
        simpl. rewrite <- Houts. set_solver.
      * rewrite Forall_forall in Hk2. rewrite (Hk2 u Hu) in Hv2. congruence.
    + destruct (check L m t) eqn:Hmt; [|done].
      assert (Hins : vseq L ma (t :: v2s) = Some (apply_tx m t)).
      { apply vseq_insert; auto. intros i Hi Hr.
        apply check_iff in Hct as [_ Hf]. rewrite Forall_forall in Hf. specialize (Hf i Hi).
        rewrite Hvt in Hf. apply check_in_nonref in Hf as (_&Hav&_); [|done].
        eapply avail_mono; eauto. }
      simpl in Hins. destruct (check L ma t) eqn:Hmat; [|done].
      eapply (IH (l ++ [t]) (apply_tx ma t) (apply_tx m t) _ _ (apply_tx cm t)); eauto.
      * apply Forall_app; auto.
      * apply Forall_app; auto.
      * rewrite vseq_app, Hma. simpl. by rewrite Hmat.
      * simpl. set_solver.
      * intros id [x Hx]. destruct (decide (id = a_id t)) as [->|Hne].
        -- exists t. split; [|done]. rewrite elem_of_app, elem_of_app. left. right. by apply elem_of_list_singleton.
        -- rewrite lookup_insert_ne in Hx by done. destruct (Hidx id (ex_intro _ x Hx)) as (u&Hu&?).
           exists u. split; [|done]. rewrite !elem_of_app in *. tauto.
Qed.

(** ** The full invariant over every history *)
Definition PoolU (U : list atx) (p : pool) : Prop :=
  Forall (in_U U) (txns p) ∧ Forall (in_U U) (v2txns p) ∧
  Forall (in_U U) (last_rev p) ∧ Forall (in_U U) (last_rev2 p).

Definition op_in (U : list atx) (o : op) : Prop :=
  match o with
  | OAdd1 s => Forall (in_U U) s
  | OAdd2 (Some s) => Forall (in_U U) s
  | OChain _ (Some (l1, l2)) _ => Forall (in_U U) l1 ∧ Forall (in_U U) l2
  | _ => True
  end.

Lemma Forall_sublist_of {A} (P : A → Prop) l1 l2 : sublist l1 l2 → Forall P l2 → Forall P l1.
Proof. rewrite !Forall_forall. intros Hs H x Hx. apply H. by eapply sublist_elem_of. Qed.

Lemma revalidate_PoolU L mw U p : PoolU U p → PoolU U (revalidate L mw p).
Proof.
  intros (H1&H2&H3&H4).
  destruct (revalidate_cases L mw p) as [(->&?&?)|(t1&t2&r1&m1&idx1&w1&r2&m2&idx2&w2&S1&S2&_&R1&R2&->)]; [done|].
  apply refill_spec in R1 as (_&_&_&Sr1&_). apply refill_spec in R2 as (_&_&_&Sr2&_).
  unfold PoolU; simpl. splits; auto.
  - eapply Forall_sublist_of; [exact Sr1|]. apply Forall_app. split; [by eapply Forall_sublist_of|done].
  - eapply Forall_sublist_of; [exact Sr2|]. apply Forall_app. split; [by eapply Forall_sublist_of|done].
Qed.

Lemma add_core_Inv L U k q set p' v :
  ids_inj U → Inv L q → is_Some (ms q) → PoolU U q → Forall (in_U U) set →
  add_core false L k q set = (p', v) → Inv L p' ∧ PoolU U p'.
Proof.
  intros Hinj HI [m Hm] (HU1&HU2&HU3&HU4) HUs H.
  pose proof HI as HI0. unfold Inv in HI. rewrite Hm in HI. destruct HI as (Hv&Hi&Hd&[Hk1 Hk2]&Hw).
  pose proof H as H0.
  apply add_core_lists in H0; [|by rewrite Hm].
  destruct H0 as [(->&news&m'&Hnews&Hkn&Hms&Hl1&Hl2&Hwt&Hl&Hidx&Hdis&Hvm)|(_&Ht&Hv2&Hidx&Hwt&Hl1&Hl2&Hms)].
  2:{ split.
      - unfold Inv. destruct Hms as [Hms|Hms]; rewrite Hms; [|done]. rewrite Hm.
        rewrite Ht, Hv2, Hwt. splits; auto.
        + intros id n. rewrite Hidx, Ht, Hv2. apply Hi.
        + unfold ids_disj. rewrite Ht, Hv2. apply Hd.
        + unfold kinds_ok. by rewrite Ht, Hv2.
      - unfold PoolU. by rewrite Ht, Hv2, Hl1, Hl2. }
  assert (Hsub : sublist news set).
  { (* the new members are members of the set *)
    unfold add_core in H. rewrite Hm in H. destruct (k && negb (check_eph ∅ set)); [inversion H|].
    destruct (check_set L k (indices q) fresh true set) as [[|]|]; try (inversion H; fail).
    destruct (add_loop L set (if k then v2txns q else txns q) m (indices q) (weight q)) as [[[[l m1] idx] w] ok] eqn:Hal.
    apply add_loop_spec in Hal as (news'&->&_&_&Hs&Hn&_). destruct ok; [|inversion H].
    rewrite Hnews. by rewrite <- Hn. }
  assert (HUn : Forall (in_U U) news) by (by eapply Forall_sublist_of).
  split.
  2:{ unfold PoolU. rewrite Hl1, Hl2. destruct k; destruct Hl as [-> ->]; splits; auto; apply Forall_app; auto. }
  assert (Hvs : vseq L fresh (txns p' ++ v2txns p') = Some m').
  { destruct k.
    - destruct Hl as [E1 E2]. rewrite E1, E2, app_assoc, vseq_app, Hv. by apply Hvm.
    - (* v1: commutation *)
      clear Hl Hidx Hdis Hvm Hwt.
      unfold add_core in H. rewrite Hm in H. simpl in H.
      destruct (check_set L false (indices q) fresh true set) as [[|]|] eqn:Hcs; try (inversion H; fail).
      destruct (add_loop L set (txns q) m (indices q) (weight q)) as [[[[l m1] idx] w] ok] eqn:Hal.
      destruct ok; [|inversion H]. inversion H; subst p'; clear H. simpl in *.
      inversion Hms; subst m1.
      apply check_set_spec in Hcs as (Hks&Hvs&_).
      rewrite vseq_app in Hv. destruct (vseq L fresh (txns q)) as [ma|] eqn:Hma; [|done].
      eapply (add_loop_v1_commute L U (v2txns q) Hinj Hk2 HU2 set (txns q) ma m (indices q) (weight q) fresh l m' idx w); eauto.
      + set_solver.
      + intros id Hid. by apply pooled_iff_indexed in Hid. }
  unfold Inv. rewrite Hms. splits; auto.
  - unfold kinds_ok. destruct k; destruct Hl as [-> ->]; split; auto; apply Forall_app; auto.
  - rewrite Hwt, Hw. destruct k; destruct Hl as [-> ->]; rewrite !total_weight_app; lia.
Qed.

Lemma pool_update_PoolU U s p : PoolU U p → PoolU U (pool_update false s p).
Proof.
  intros (H1&H2&H3&H4). unfold pool_update, PoolU; simpl. splits; auto.
  apply Forall_forall. intros t Ht. apply elem_of_list_In, filter_In in Ht as [Ht _].
  apply elem_of_list_In, elem_of_list_fmap in Ht as (t0&->&Ht0).
  rewrite Forall_forall in H2. destruct (H2 t0 Ht0) as (u&Hu&Hc). exists u. split; [done|].
  rewrite <- Hc. apply core_map_ins. intros i.
  destruct (s_revert s); unfold conv_revert, conv_apply.
  - destruct (is_ref i); [exists (i_leaf i), (i_pok i); by destruct i|].
    destruct (is_eph i); [exists (i_leaf i), (i_pok i); by destruct i|].
    destruct (bool_decide _); [eauto|exists (i_leaf i), (i_pok i); by destruct i].
  - destruct (is_ref i); [exists (i_leaf i), (i_pok i); by destruct i|].
    destruct (is_eph i); [|exists (i_leaf i), (i_pok i); by destruct i].
    destruct (_ !! _); [eauto|exists (i_leaf i), (i_pok i); by destruct i].
Qed.

Lemma chain_step_PoolU U steps lr p :
  PoolU U p → match lr with Some (l1, l2) => Forall (in_U U) l1 ∧ Forall (in_U U) l2 | None => True end →
  PoolU U (chain_step steps lr p).
Proof.
  intros HP Hlr. unfold chain_step, chain_step_gen.
  assert (HP' : PoolU U (foldl (λ p s, pool_update false s p) p steps)).
  { revert p HP. induction steps as [|s steps IH]; intros p HP; simpl; [done|]. apply IH. by apply pool_update_PoolU. }
  destruct HP' as (H1&H2&H3&H4). destruct lr as [[l1 l2]|]; unfold PoolU; simpl; splits; auto.
  - destruct Hlr as [Hl _]. apply Forall_forall. intros t Ht%elem_of_list_In%filter_In.
    rewrite Forall_forall in Hl. apply Hl. apply elem_of_list_In. tauto.
  - destruct Hlr as [_ Hl]. apply Forall_forall. intros t Ht%elem_of_list_In%filter_In.
    rewrite Forall_forall in Hl. apply Hl. apply elem_of_list_In. tauto.
Qed.

Definition FInv (U : list atx) (s : node) : Prop := Inv s.1 s.2 ∧ PoolU U s.2.

Lemma nstep_FInv mw U s o : ids_inj U → op_in U o → FInv U s → FInv U (nstep mw s o).1.
Proof.
  intros Hinj Ho [HI HP]. destruct s as [L p]. simpl in *. destruct o as [set|set|steps lr L'|]; simpl.
  - destruct (add_v1 L mw p set) as [p' v] eqn:E. simpl. unfold add_v1 in E.
    eapply add_core_Inv in E; eauto using revalidate_Inv, revalidate_ms, revalidate_PoolU.
  - destruct (add_v2 L mw p set) as [p' v] eqn:E. simpl. unfold add_v2 in E. destruct set as [s|].
    + eapply add_core_Inv in E; eauto using revalidate_Inv, revalidate_ms, revalidate_PoolU.
    + inversion E; subst. split; [by apply revalidate_Inv|by apply revalidate_PoolU].
  - split.
    + unfold Inv, chain_step, chain_step_gen. destruct lr as [[? ?]|]; simpl; done.
    + apply chain_step_PoolU; [done|]. destruct lr as [[? ?]|]; done.
  - split; [by apply revalidate_Inv|by apply revalidate_PoolU].
Qed.

Lemma nrun_FInv mw U L0 ops : ids_inj U → Forall (op_in U) ops → FInv U (nrun mw L0 ops).
Proof.
  intros Hinj. induction ops as [|o ops IH] using rev_ind; intros Ho.
  - unfold nrun, FInv, Inv, PoolU; simpl. splits; constructor.
  - apply Forall_app in Ho as [Ho1 Ho2]. inversion Ho2; subst. rewrite nrun_snoc. apply nstep_FInv; auto.
Qed.

(** C05: every prefix of the reported pool is sequentially valid for the ledger of the tip *)
Theorem reported_pool_prefix_valid mw U L0 ops :
  ids_inj U → Forall (op_in U) ops →
  let s := nrun mw L0 ops in
  ∀ pre, pre `prefix_of` reported mw s → valid_seq s.1 pre.
Proof.
  intros Hinj Ho s pre [rest Hpre].
  destruct (nrun_FInv mw U L0 ops Hinj Ho) as [HI _]. fold s in HI.
  pose proof (revalidate_Inv s.1 mw s.2 HI) as HI'. destruct (revalidate_ms s.1 mw s.2) as [m Hm].
  unfold Inv in HI'. rewrite Hm in HI'. destruct HI' as (Hv&_).
  unfold reported, pool_transactions, v2_pool_transactions in Hpre. rewrite Hpre in Hv.
  unfold valid_seq. by eapply vseq_prefix.
Qed.

(** ** C05: the mined block *)
Lemma take_w_spec mw : ∀ ts w l w', take_w mw w ts = (l, w') →
  l `prefix_of` ts ∧ (w ≤ mw → w + total_weight l ≤ mw) ∧
  ((l = ts ∧ w' = w + total_weight l) ∨ mw < w').
Proof.
  induction ts as [|t ts IH]; intros w l w' H; simpl in H.
  - inversion H; subst. splits; [done|simpl; lia|left; simpl; split; [done|lia]].
  - destruct (mw <? w + a_weight t) eqn:E.
    + inversion H; subst. apply N.ltb_lt in E. splits; [apply prefix_nil|simpl; lia|right; lia].
    + apply N.ltb_ge in E. destruct (take_w mw (w + a_weight t) ts) as [l0 w0] eqn:Ht.
      inversion H; subst. apply IH in Ht as (Hp&Hw&Hc). splits.
      * by apply prefix_cons.
      * intros _. simpl. specialize (Hw E). lia.
      * destruct Hc as [[-> ->]|Hc]; [left; split; [done|simpl; lia]|by right].
Qed.

Lemma take_w_over mw ts w : mw < w → (take_w mw w ts).1 = [].
Proof. destruct ts as [|t ts]; simpl; [done|]. intros H. destruct (mw <? w + a_weight t) eqn:E; [done|]. apply N.ltb_ge in E. lia. Qed.

Lemma vseq_inert L m arb ts :
  a_ins arb = [] → a_outs arb = [] → static_ok (l_h L) arb = true →
  vseq L m (arb :: ts) = vseq L m ts.
Proof.
  intros Hi Ho Hs. simpl. unfold check. rewrite Hs, Hi. simpl.
  replace (apply_tx m arb) with m; [done|]. unfold apply_tx, spends. rewrite Hi, Ho. simpl.
  destruct m as [sp cr]. simpl. f_equal; set_solver.
Qed.

Section L3.
  (** law L3 about go.sia.tech/core (re-checked by the harness on every run): a list of
      transactions that is sequentially valid for the ledger of the tip and within the
      weight limit makes a valid block body *)
  Variable body_ok : ledger → list atx → bool.
  Variable mw : N.
  Hypothesis L3 : ∀ L ts, valid_seq L ts → total_weight ts ≤ mw → body_ok L ts = true.

  (** [capw]: a tenth of the pool's capacity (revalidate's parameter); [mw]: the block weight limit.
      The repository's default capacity is ten blocks, i.e. [capw = mw]; nothing depends on that. *)
  Variable capw : N.
  Theorem mined_block_accepted U L0 ops arb v2a :
    ids_inj U → Forall (op_in U) ops →
    let s := nrun capw L0 ops in
    a_ins arb = [] → a_outs arb = [] → (v2a = true → static_ok (l_h s.1) arb = true) → a_weight arb ≤ mw →
    body_ok s.1 (mine_block mw v2a arb (pool_transactions s.1 capw s.2) (v2_pool_transactions s.1 capw s.2)) = true.
  Proof.
    intros Hinj Ho s Hai Hao Hst Hwa.
    destruct (nrun_FInv capw U L0 ops Hinj Ho) as [HI _]. fold s in HI.
    pose proof (revalidate_Inv s.1 capw s.2 HI) as HI'. destruct (revalidate_ms s.1 capw s.2) as [m Hm].
    unfold Inv in HI'. rewrite Hm in HI'. destruct HI' as (Hv&_).
    unfold pool_transactions, v2_pool_transactions.
    set (t1 := txns (revalidate s.1 capw s.2)) in *. set (t2 := v2txns (revalidate s.1 capw s.2)) in *.
    unfold mine_block, mine_block_gen. simpl. rewrite andb_true_r.
    destruct (take_w mw (if v2a then a_weight arb else 0) t1) as [b1 w1] eqn:E1.
    apply take_w_spec in E1 as ([r1 Hp1]&Hw1&Hc1).
    destruct v2a.
    - specialize (Hst eq_refl). specialize (Hw1 Hwa).
      destruct (take_w mw w1 t2) as [b2 w2] eqn:E2. simpl.
      apply L3.
      + unfold valid_seq. destruct Hc1 as [[-> ->]|Hc1].
        * apply take_w_spec in E2 as ([r2 Hp2]&_&_). rewrite vseq_app.
          rewrite Hp2, vseq_app in Hv. destruct (vseq s.1 fresh t1) as [m1|]; [|done].
          rewrite vseq_inert by done. rewrite vseq_app in Hv. destruct (vseq s.1 m1 b2); [eauto|done].
        * pose proof (take_w_over mw t2 w1 Hc1) as Hb2. rewrite E2 in Hb2. simpl in Hb2. subst b2.
          rewrite vseq_app. rewrite Hp1, <- app_assoc, vseq_app in Hv.
          destruct (vseq s.1 fresh b1) as [m1|]; [|done]. rewrite vseq_inert by done. simpl. eauto.
      + rewrite total_weight_app. simpl. destruct Hc1 as [[-> ->]|Hc1].
        * apply take_w_spec in E2 as (_&Hw2&_). specialize (Hw2 Hw1). lia.
        * pose proof (take_w_over mw t2 w1 Hc1) as Hb2. rewrite E2 in Hb2. simpl in Hb2. subst b2. simpl. lia.
    - apply L3.
      + unfold valid_seq. rewrite Hp1, <- app_assoc in Hv. by eapply vseq_prefix.
      + assert (0 ≤ mw) by lia. specialize (Hw1 H). lia.
  Qed.
End L3.

(** ** C05: retention *)
Definition conv_of (s : bstep) : ain → ain :=
  let cr : gmap N N := list_to_map (s_created s) in
  if s_revert s then conv_revert cr else conv_apply cr.
(** what one block step does to one pooled v2 transaction ([None]: dropped) *)
Definition conv1 (s : bstep) (t : atx) : option atx :=
  let t' := map_ins (conv_of s) t in if keep_tx (s_num s) t' then Some t' else None.
Definition conv_path (steps : list bstep) (t : atx) : option atx :=
  foldl (λ o s, o ≫= conv1 s) (Some t) steps.
(** v1 transactions are not touched by block steps *)
Definition moved (steps : list bstep) (t : atx) : option atx :=
  if a_v2 t then conv_path steps t else Some t.

(** the transactions that are valid for the new ledger when double spends are ignored: every
    input (after the proof moves of the path) is an unspent element of the new ledger, or an
    output of an earlier such transaction; the height window contains the new height *)
Fixpoint goods' (L' : ledger) (G : gset N) (ts : list atx) : list atx :=
  match ts with
  | [] => []
  | t :: r => if check L' (MS ∅ G) t then t :: goods' L' (G ∪ list_to_set (a_outs t)) r
              else goods' L' G r
  end.
Definition goods (L' : ledger) (steps : list bstep) (R : list atx) : list atx :=
  goods' L' ∅ (omap (moved steps) R).

(** no transaction of the list touches an element spent by [S] or by an earlier one *)
Fixpoint clean (S : gset N) (ts : list atx) : Prop :=
  match ts with
  | [] => True
  | t :: r => (∀ i, i ∈ a_ins t → is_ref i = false → i_el i ∉ S) ∧ clean (S ∪ list_to_set (spends t)) r
  end.

Lemma clean_anti S S' ts : S' ⊆ S → clean S ts → clean S' ts.
Proof.
  revert S S'. induction ts as [|t r IH]; intros S S' Hs; simpl; [done|]. intros [H1 H2]. split.
  - intros i Hi Hr. specialize (H1 i Hi Hr). set_solver.
  - eapply IH; [|exact H2]. set_solver.
Qed.

Lemma clean_union S1 S2 ts :
  clean S1 ts → (∀ t i, t ∈ ts → i ∈ a_ins t → is_ref i = false → i_el i ∉ S2) → clean (S1 ∪ S2) ts.
Proof.
  revert S1. induction ts as [|t r IH]; intros S1; simpl; [done|]. intros [H1 H2] H. split.
  - intros i Hi Hr. rewrite not_elem_of_union. split; [by apply H1|]. eapply H; eauto. by left.
  - replace (S1 ∪ S2 ∪ list_to_set (spends t)) with ((S1 ∪ list_to_set (spends t)) ∪ S2) by set_solver.
    apply IH; [done|]. intros t0 i Ht0. apply H. by right.
Qed.

Lemma vseq_clean L : ∀ ts m m', vseq L m ts = Some m' → clean (m_sp m) ts.
Proof.
  induction ts as [|t r IH]; intros m m' H; simpl in *; [done|].
  destruct (check L m t) eqn:Hc; [|done]. split.
  - intros i Hi Hr. apply check_iff in Hc as [_ Hf]. rewrite Forall_forall in Hf.
    specialize (Hf i Hi). by apply check_in_nonref in Hf as (?&_&_).
  - by apply IH in H.
Qed.

Lemma clean_app S a b : clean S (a ++ b) → clean S a ∧ clean (S ∪ list_to_set (flat_map spends a)) b.
Proof.
  revert S. induction a as [|t a IH]; intros S; simpl.
  - intros H. split; [done|]. eapply clean_anti; [|exact H]. set_solver.
  - intros [H1 H2]. apply IH in H2 as [H2 H3]. splits; auto.
    eapply clean_anti; [|exact H3]. rewrite list_to_set_app_L. set_solver.
Qed.

(** the proof moves keep everything but leaf indices and proof bits *)
Lemma conv_of_shape s i : ∃ lf ok, conv_of s i = set_leaf i lf ok.
Proof.
  unfold conv_of. destruct (s_revert s); unfold conv_revert, conv_apply.
  - destruct (is_ref i); [exists (i_leaf i), (i_pok i); by destruct i|].
    destruct (is_eph i); [exists (i_leaf i), (i_pok i); by destruct i|].
    destruct (bool_decide _); [eauto|exists (i_leaf i), (i_pok i); by destruct i].
  - destruct (is_ref i); [exists (i_leaf i), (i_pok i); by destruct i|].
    destruct (is_eph i); [|exists (i_leaf i), (i_pok i); by destruct i].
    destruct (_ !! _); [eauto|exists (i_leaf i), (i_pok i); by destruct i].
Qed.

Lemma conv_path_core steps : ∀ t t', conv_path steps t = Some t' → core t' = core t.
Proof.
  unfold conv_path. induction steps as [|s steps IH] using rev_ind; intros t t' H; simpl in H.
  - by inversion H.
  - rewrite foldl_app in H. simpl in H.
    destruct (foldl (λ o s0, o ≫= conv1 s0) (Some t) steps) as [t0|] eqn:E; [|done]. simpl in H.
    unfold conv1 in H. destruct (keep_tx _ _); [|done]. inversion H; subst.
    rewrite core_map_ins; [by apply IH|]. apply conv_of_shape.
Qed.

Lemma core_touch t1 t2 : core t1 = core t2 →
  spends t1 = spends t2 ∧ a_id t1 = a_id t2 ∧ a_v2 t1 = a_v2 t2 ∧ a_outs t1 = a_outs t2 ∧
  (∀ S : gset N, (∀ i, i ∈ a_ins t1 → is_ref i = false → i_el i ∉ S) ↔ (∀ i, i ∈ a_ins t2 → is_ref i = false → i_el i ∉ S)).
Proof.
  intros H.
  assert (Hs : ∀ t, spends (core t) = spends t).
  { intros t. unfold spends, core, map_ins; simpl. induction (a_ins t) as [|i l IH]; simpl; [done|].
    unfold is_spend, set_leaf in *; simpl. destruct (i_role i); simpl; by rewrite ?IH. }
  assert (Ht : ∀ t (S : gset N), (∀ i, i ∈ a_ins t → is_ref i = false → i_el i ∉ S) ↔
                       (∀ i, i ∈ a_ins (core t) → is_ref i = false → i_el i ∉ S)).
  { intros t S. unfold core, map_ins; simpl. split.
    - intros Hx i Hi Hr. apply elem_of_list_fmap in Hi as (j&->&Hj). apply (Hx j Hj). by destruct j.
    - intros Hx i Hi Hr. apply (Hx (set_leaf i 0 false)); [|by destruct i].
      apply elem_of_list_fmap. eauto. }
  splits.
  - by rewrite <- (Hs t1), <- (Hs t2), H.
  - change (a_id (core t1) = a_id (core t2)). by rewrite H.
  - change (a_v2 (core t1) = a_v2 (core t2)). by rewrite H.
  - change (a_outs (core t1) = a_outs (core t2)). by rewrite H.
  - intros S. rewrite (Ht t1), (Ht t2), H. done.
Qed.

Lemma clean_omap f S ts :
  (∀ t t', f t = Some t' → core t' = core t) → clean S ts → clean S (omap f ts).
Proof.
  intros Hf. revert S. induction ts as [|t r IH]; intros S; simpl; [done|]. intros [H1 H2].
  destruct (f t) as [t'|] eqn:E; simpl.
  - destruct (core_touch t' t (Hf _ _ E)) as (Hsp&_&_&_&Hto). split.
    + by apply Hto.
    + rewrite Hsp. by apply IH.
  - apply IH. eapply clean_anti; [|exact H2]. set_solver.
Qed.

(** the re-add loop keeps every transaction of [goods'] *)
Lemma refill_goods L k : ∀ ts extra n m idx w G r m' idx' w',
  refill L k (ts ++ extra) n m idx w = (r, m', idx', w') →
  Forall (λ t, a_v2 t = k) ts → NoDup (map a_id ts) → (∀ t, t ∈ ts → idx !! a_id t = None) →
  clean (m_sp m) ts → G ⊆ m_cr m →
  (∀ t, t ∈ goods' L G ts → t ∈ r) ∧
  G ∪ list_to_set (flat_map a_outs (goods' L G ts)) ⊆ m_cr m'.
Proof.
  induction ts as [|t ts IH]; intros extra n m idx w G r m' idx' w' H Hk Hnd Hid Hcl HG.
  - simpl in *. split; [intros t Ht; by apply elem_of_nil in Ht|].
    apply refill_spec in H as (Hv&_). apply vseq_sp_cr in Hv as (_&Hcr&_). set_solver.
  - simpl in H. inversion Hk as [|? ? Hkt Hk']; subst. apply NoDup_cons in Hnd as [Hnt Hnd'].
    destruct Hcl as [Hc1 Hc2].
    rewrite bool_decide_false in H by (rewrite (Hid t) by (by left); by intros [? ?]).
    rewrite Bool.eqb_reflx in H. simpl in H.
    assert (Hid' : ∀ x, ∀ t0, t0 ∈ ts → <[a_id t:=x]> idx !! a_id t0 = None).
    { intros x t0 Ht0. rewrite lookup_insert_ne; [apply Hid; by right|].
      intros E. apply Hnt. rewrite E. apply elem_of_list_fmap. eauto. }
    simpl. destruct (check L (MS ∅ G) t) eqn:Hg.
    + (* good: it passes the real check as well *)
      assert (Hck : check L m t = true).
      { apply check_iff in Hg as [Hs Hf]. apply check_iff. split; [done|].
        rewrite Forall_forall in Hf |- *. intros i Hi. specialize (Hf i Hi).
        destruct (is_ref i) eqn:Hr; [by rewrite <- (check_in_ref L (MS ∅ G))|].
        apply check_in_nonref in Hf as (_&Hav&Hrv); [|done]. apply check_in_nonref; [done|].
        splits; [by apply Hc1| |done]. eapply avail_mono; [|exact Hav]. done. }
      rewrite Hck in H.
      destruct (refill L (a_v2 t) (ts ++ extra) (S n) (apply_tx m t) (<[a_id t:=n]> idx) (w + a_weight t))
        as [[[r0 m0] idx0] w0] eqn:Hr.
      inversion H; subst; clear H.
      eapply (IH extra _ _ _ _ (G ∪ list_to_set (a_outs t))) in Hr as [Hr1 Hr2]; eauto.
      * split; [|set_solver].
        intros u [->|Hu]%elem_of_cons; [by left|right; auto].
      * simpl. set_solver.
    + destruct (check L m t) eqn:Hck.
      * destruct (refill L (a_v2 t) (ts ++ extra) (S n) (apply_tx m t) (<[a_id t:=n]> idx) (w + a_weight t))
          as [[[r0 m0] idx0] w0] eqn:Hr.
        inversion H; subst; clear H.
        eapply (IH extra _ _ _ _ G) in Hr as [Hr1 Hr2]; eauto.
        -- split; [|done]. intros u Hu. right. auto.
        -- simpl. set_solver.
      * eapply (IH extra _ _ _ _ G) in H as [Hr1 Hr2]; eauto.
        -- intros t0 Ht0. apply Hid. by right.
        -- eapply clean_anti; [|exact Hc2]. set_solver.
Qed.

Lemma pool_update_fields s p :
  txns (pool_update false s p) = txns p ∧ v2txns (pool_update false s p) = omap (conv1 s) (v2txns p) ∧
  weight (pool_update false s p) = weight p ∧
  last_rev (pool_update false s p) = last_rev p ∧ last_rev2 (pool_update false s p) = last_rev2 p.
Proof.
  splits; auto. unfold pool_update, conv1, conv_of. cbn [v2txns set_v2txns].
  induction (v2txns p) as [|t l IH]; [done|]. cbn [map List.filter omap list_omap].
  destruct (keep_tx (s_num s) _); [by f_equal|done].
Qed.

Lemma conv_path_snoc steps s t : conv_path (steps ++ [s]) t = conv_path steps t ≫= conv1 s.
Proof. unfold conv_path. by rewrite foldl_app. Qed.

Lemma omap_id_some (l : list atx) : omap (λ t, Some t) l = l.
Proof. induction l as [|t l IH]; [done|]. cbn. by f_equal. Qed.

Lemma omap_omap_bind (f g : atx → option atx) (l : list atx) : omap g (omap f l) = omap (λ t, f t ≫= g) l.
Proof.
  induction l as [|t l IH]; [done|]. cbn. destruct (f t) as [t0|]; cbn; [|done].
  destruct (g t0); cbn; by rewrite <- IH.
Qed.

Lemma foldl_pool_update steps : ∀ p,
  txns (foldl (λ p s, pool_update false s p) p steps) = txns p ∧
  v2txns (foldl (λ p s, pool_update false s p) p steps) = omap (conv_path steps) (v2txns p) ∧
  weight (foldl (λ p s, pool_update false s p) p steps) = weight p ∧
  last_rev (foldl (λ p s, pool_update false s p) p steps) = last_rev p ∧
  last_rev2 (foldl (λ p s, pool_update false s p) p steps) = last_rev2 p.
Proof.
  induction steps as [|s steps IH] using rev_ind; intros p.
  - cbn [foldl]. splits; auto. unfold conv_path. cbn [foldl]. by rewrite omap_id_some.
  - rewrite foldl_app. cbn [foldl]. destruct (IH p) as (H1&H2&H3&H4&H5).
    destruct (pool_update_fields s (foldl (λ p s, pool_update false s p) p steps)) as (G1&G2&G3&G4&G5).
    rewrite G1, G2, G3, G4, G5, H1, H2, H3, H4, H5. splits; auto.
    rewrite omap_omap_bind. apply list_omap_ext. apply Forall2_same_length_lookup. split; [done|].
    intros i x y Hx Hy. rewrite Hx in Hy. inversion Hy; subst. by rewrite conv_path_snoc.
Qed.

Lemma goods'_app L : ∀ a b G,
  goods' L G (a ++ b) = goods' L G a ++ goods' L (G ∪ list_to_set (flat_map a_outs (goods' L G a))) b.
Proof.
  induction a as [|t a IH]; intros b G; simpl.
  - f_equal. set_solver.
  - destruct (check L (MS ∅ G) t); simpl; rewrite IH; [|done]. do 2 f_equal.
    rewrite list_to_set_app_L. f_equal. symmetry. apply (assoc_L (∪)).
Qed.

Lemma vseq_sp_exact L : ∀ ts m m', vseq L m ts = Some m' →
  m_sp m' = m_sp m ∪ list_to_set (flat_map spends ts).
Proof.
  induction ts as [|t ts IH]; intros m m' H; simpl in H.
  - inversion H; subst. simpl. set_solver.
  - destruct (check L m t); [|done]. apply IH in H. rewrite H. simpl. rewrite list_to_set_app_L. set_solver.
Qed.

Lemma inv_nodup p : idx_ok p → ids_disj p →
  NoDup (map a_id (txns p)) ∧ NoDup (map a_id (v2txns p)) ∧
  (∀ t1 t2, t1 ∈ txns p → t2 ∈ v2txns p → a_id t1 ≠ a_id t2).
Proof.
  intros Hok Hd. splits.
  - apply NoDup_alt. intros i j id Hi Hj. rewrite list_lookup_fmap in Hi, Hj.
    destruct (txns p !! i) as [a|] eqn:Ea; [|done]. destruct (txns p !! j) as [b|] eqn:Eb; [|done].
    simpl in *. inversion Hi; inversion Hj; subst.
    eapply (idx_ok_unique p i j (a_id a) (txns p) (txns p)); eauto; [by exists a|by exists b].
  - apply NoDup_alt. intros i j id Hi Hj. rewrite list_lookup_fmap in Hi, Hj.
    destruct (v2txns p !! i) as [a|] eqn:Ea; [|done]. destruct (v2txns p !! j) as [b|] eqn:Eb; [|done].
    simpl in *. inversion Hi; inversion Hj; subst.
    eapply (idx_ok_unique p i j (a_id a) (v2txns p) (v2txns p)); eauto; [by exists a|by exists b].
  - intros t1 t2 H1 H2 E. apply elem_of_list_lookup_1 in H1 as [n1 H1]. apply elem_of_list_lookup_1 in H2 as [n2 H2].
    eapply (Hd n1 n2 (a_id t1)); [by exists t1|by exists t2].
Qed.

Lemma sublist_NoDup' {A} (l1 l2 : list A) : sublist l1 l2 → NoDup l2 → NoDup l1.
Proof.
  induction 1 as [|x l1 l2 Hs IH|x l1 l2 Hs IH]; intros Hn; [done| |].
  - apply NoDup_cons in Hn as [Hx Hn]. apply NoDup_cons. split; [|auto].
    intros Hin. apply Hx. by eapply sublist_elem_of.
  - apply NoDup_cons in Hn as [_ Hn]. auto.
Qed.

Lemma omap_ids_sublist (f : atx → option atx) l :
  (∀ t t', f t = Some t' → a_id t' = a_id t) → sublist (map a_id (omap f l)) (map a_id l).
Proof.
  intros Hf. induction l as [|t l IH]; simpl; [constructor|].
  destruct (f t) as [t'|] eqn:E; simpl.
  - rewrite (Hf _ _ E). by apply sublist_skip.
  - by apply sublist_cons.
Qed.

(** C05: a reported transaction whose inputs are all still available after a block step stays
    reported, unless the pool was full *)
Theorem retention mw U L0 ops steps lr L' :
  ids_inj U → Forall (op_in U) ops → op_in U (OChain steps lr L') →
  let s := nrun mw L0 ops in
  let q := revalidate s.1 mw s.2 in
  let p1 := chain_step steps lr q in
  weight q < mw * 10 →
  (∀ x u i, x ∈ last_rev p1 → x ∈ pool_transactions L' mw p1 →
            u ∈ v2txns q → i ∈ a_ins u → is_ref i = false → i_el i ∉ spends x) →
  ∀ t, t ∈ goods L' steps (txns q ++ v2txns q) → t ∈ reported mw (L', p1).
Proof.
  intros Hinj Ho Hop s q p1 Hw Hlr t Ht.
  destruct (nrun_FInv mw U L0 ops Hinj Ho) as [HI HP]. fold s in HI, HP.
  pose proof (revalidate_Inv s.1 mw s.2 HI) as HIq. pose proof (revalidate_PoolU s.1 mw U s.2 HP) as HPq.
  fold q in HIq, HPq. destruct (revalidate_ms s.1 mw s.2) as [m0 Hm0]. fold q in Hm0.
  unfold Inv in HIq. rewrite Hm0 in HIq. destruct HIq as (Hv&Hi&Hd&[Hk1 Hk2]&Hwq).
  destruct (inv_nodup q Hi Hd) as (Hn1&Hn2&Hn12).
  (* the pool after the block steps *)
  assert (HP1 : PoolU U p1).
  { apply chain_step_PoolU; [done|]. simpl in Hop. destruct lr as [[? ?]|]; done. }
  assert (Hf : txns p1 = txns q ∧ v2txns p1 = omap (conv_path steps) (v2txns q) ∧ weight p1 = weight q ∧ ms p1 = None).
  { unfold p1, chain_step, chain_step_gen. destruct (foldl_pool_update steps q) as (F1&F2&F3&_).
    destruct lr as [[? ?]|]; simpl; auto. }
  destruct Hf as (F1&F2&F3&F4).
  destruct (revalidate_cases L' mw p1) as [(_&[? Hx]&_)|(t1&t2&r1&m1&idx1&w1&r2&m2&idx2&w2&_&_&Heq&R1&R2&Hrv)].
  { rewrite F4 in Hx. done. }
  destruct Heq as [-> ->]; [lia|]. rewrite F1 in R1. rewrite F2 in R2.
  unfold reported, pool_transactions, v2_pool_transactions. simpl. rewrite Hrv. simpl.
  (* split the good transactions into the v1 and the v2 part *)
  unfold goods in Ht. rewrite omap_app in Ht.
  assert (E1 : omap (moved steps) (txns q) = txns q).
  { clear -Hk1. induction (txns q) as [|a l IH]; [done|]. inversion Hk1; subst.
    cbn. unfold moved at 1. rewrite H1. cbn. f_equal. by apply IH. }
  assert (E2 : omap (moved steps) (v2txns q) = omap (conv_path steps) (v2txns q)).
  { clear -Hk2. induction (v2txns q) as [|a l IH]; [done|]. inversion Hk2; subst.
    cbn. unfold moved at 1. rewrite H1. destruct (conv_path steps a); cbn; [f_equal|]; by apply IH. }
  rewrite E1, E2, goods'_app in Ht.
  (* sequential cleanliness of the old order *)
  pose proof (vseq_clean _ _ _ _ Hv) as Hcl. simpl in Hcl. apply clean_app in Hcl as [Hcl1 Hcl2].
  (* phase one *)
  pose proof R1 as R1'. apply refill_spec in R1' as (V1&K1&_&S1&_&B1&C1).
  eapply (refill_goods L' false (txns q) (last_rev p1) 0 fresh ∅ 0 ∅) in R1 as [G1a G1b]; eauto.
  apply elem_of_app in Ht as [Ht|Ht]; [apply elem_of_app; left; auto|].
  apply elem_of_app. right.
  (* phase two *)
  set (R2' := omap (conv_path steps) (v2txns q)) in *.
  assert (Hcore : ∀ a a', conv_path steps a = Some a' → core a' = core a) by apply conv_path_core.
  assert (HinR2 : ∀ a', a' ∈ R2' → ∃ a, a ∈ v2txns q ∧ core a' = core a).
  { intros a' Ha'. apply elem_of_list_omap in Ha' as (a&Ha&Hc). eauto. }
  set (G1 := ∅ ∪ list_to_set (flat_map a_outs (goods' L' ∅ (txns q)))) in *.
  apply (refill_goods L' true R2' (last_rev2 p1) 0 m1 idx1 w1 G1 r2 m2 idx2 w2 R2); [| | | |exact G1b|exact Ht].
  - apply Forall_forall. intros a' (a&Ha&Hc)%HinR2. destruct (core_touch _ _ Hc) as (_&_&Hv2&_).
    rewrite Hv2. rewrite Forall_forall in Hk2. auto.
  - eapply sublist_NoDup'; [|exact Hn2]. apply omap_ids_sublist.
    intros a a' Hc%Hcore. by destruct (core_touch _ _ Hc) as (_&?&_).
  - intros a' Ha'. destruct (HinR2 a' Ha') as (a&Ha&Hc). destruct (core_touch _ _ Hc) as (_&Hid&Hv2&_).
    destruct (idx1 !! a_id a') as [x|] eqn:Ex; [|done]. exfalso.
    apply C1 in Ex as [Ex|(j&(u&Hu&Hidu)&_)]; [by rewrite lookup_empty in Ex|].
    assert (Huin : u ∈ r1) by (by eapply elem_of_list_lookup_2).
    pose proof (sublist_elem_of _ _ _ S1 Huin) as [Hu1|Hu1]%elem_of_app.
    + apply (Hn12 u a Hu1 Ha). congruence.
    + (* a re-offered v1 transaction with the id of a pooled v2 transaction *)
      destruct HP1 as (_&_&HU3&_). destruct HPq as (_&HUq2&_).
      rewrite Forall_forall in HU3, HUq2.
      assert (core u = core a) by (apply (in_U_same_id U); auto; congruence).
      destruct (core_touch _ _ H) as (_&_&Hvu&_). rewrite Forall_forall in K1, Hk2.
      rewrite (K1 u Huin), (Hk2 a Ha) in Hvu. done.
  - (* nothing spent by the kept v1 transactions is touched by a pooled v2 transaction *)
    rewrite (vseq_sp_exact _ _ _ _ V1). simpl.
    set (lrk := List.filter (λ x, bool_decide (x ∈ r1)) (last_rev p1)).
    eapply (clean_anti (list_to_set (flat_map spends (txns q)) ∪ list_to_set (flat_map spends lrk))).
    { intros el Hel. apply elem_of_union in Hel as [Hel|Hel]; [set_solver|].
      apply elem_of_list_to_set, elem_of_list_In, in_flat_map in Hel as (u&Hu&Hel).
      apply elem_of_list_In in Hu. apply elem_of_union.
      pose proof (sublist_elem_of _ _ _ S1 Hu) as [Hu1|Hu1]%elem_of_app; [left|right];
        apply elem_of_list_to_set, elem_of_list_In, in_flat_map; exists u; (split; [|done]).
      - by apply elem_of_list_In.
      - apply filter_In. split; [by apply elem_of_list_In|by apply bool_decide_eq_true]. }
    apply clean_union.
    + apply clean_omap; [done|]. eapply clean_anti; [|exact Hcl2]. set_solver.
    + intros a' i Ha' Hia Hr. destruct (HinR2 a' Ha') as (a&Ha&Hc).
      intros Hin. apply elem_of_list_to_set, elem_of_list_In, in_flat_map in Hin as (x&Hx&Hel).
      apply filter_In in Hx as [Hx Hxr]. apply bool_decide_eq_true in Hxr.
      apply elem_of_list_In in Hx, Hel.
      destruct (core_touch _ _ Hc) as (_&_&_&_&Hto).
      assert (Hall : ∀ i, i ∈ a_ins a → is_ref i = false → i_el i ∉ (list_to_set (spends x) : gset N)).
      { intros i0 Hi0 Hr0. rewrite elem_of_list_to_set. eapply Hlr; eauto.
        unfold pool_transactions. by rewrite Hrv. }
      apply (proj2 (Hto (list_to_set (spends x))) Hall i Hia Hr). by apply elem_of_list_to_set.
Qed.

(** ** Witnesses and non-vacuity *)
Definition exL : ledger := LG (list_to_map [(0, 0); (4, 1); (8, 2)]) 3 5 ∅.
Definition tA := ATx 1 false [AIn 0 RSpend 0 true 0] [100] 1 10 0 100 false.
Definition tB := ATx 2 true [AIn 4 RSpend 1 true 0] [104] 1 10 0 100 false.
Definition tC := ATx 3 true [AIn 104 RSpend unassigned true 0] [108] 1 10 0 100 false.
Definition tD := ATx 4 false [AIn 8 RSpend 0 true 0] [112] 1 10 0 100 false.
Definition tE := ATx 5 false [AIn 0 RSpend 0 true 0] [116] 1 10 0 100 false.
Definition exU := [tA; tB; tC; tD; tE].
Definition exMW : N := 2000000.

Example ex_ids_inj : ids_inj exU.
Proof.
  intros t1 t2 H1 H2. unfold exU in *. set_unfold.
  destruct H1 as [->|[->|[->|[->|[->|[]]]]]], H2 as [->|[->|[->|[->|[->|[]]]]]]; vm_compute; intros; try done.
Qed.

(** a pool holding a v1 transaction, a v2 parent and its ephemeral child *)
Definition ex_ops : list op := [OAdd1 [tA]; OAdd2 (Some [tB; tC])].
Example ex_ops_in : Forall (op_in exU) ex_ops.
Proof.
  assert (∀ t, t ∈ exU → in_U exU t) by (intros t Ht; exists t; auto).
  repeat constructor; simpl; apply H; unfold exU; set_solver.
Qed.
Example ex_reported : map a_id (reported exMW (nrun exMW exL ex_ops)) = [1; 2; 3].
Proof. vm_compute. reflexivity. Qed.

(** F1: before the repair, a v2 id given to the v1 lookup panics or yields another transaction *)
Theorem lookup_prefix_refuted :
  (let s := nrun exMW exL ex_ops in lookup_v1_prefix s.1 exMW s.2 3 = LPanic) ∧
  (let s := nrun exMW exL ex_ops in ∃ t, lookup_v1_prefix s.1 exMW s.2 2 = LFound t ∧ a_id t ≠ 2) ∧
  (let s := nrun exMW exL ex_ops in ∃ t, lookup_v2_prefix s.1 exMW s.2 1 = LFound t ∧ a_id t ≠ 1).
Proof.
  splits.
  - vm_compute. reflexivity.
  - exists tA. split; [vm_compute; reflexivity|done].
  - exists tB. split; [vm_compute; reflexivity|done].
Qed.
Example ex_lookup_repaired :
  let s := nrun exMW exL ex_ops in
  lookup_v1 s.1 exMW s.2 3 = LAbsent ∧ lookup_v1 s.1 exMW s.2 1 = LFound tA ∧ lookup_v2 s.1 exMW s.2 3 = LFound tC.
Proof. vm_compute. done. Qed.

(** F2: before the repair, a set whose second member conflicts with the pool leaves its first
    member behind although the call fails *)
Theorem add_prefix_refuted :
  let s := nrun exMW exL ex_ops in
  let q := revalidate s.1 exMW s.2 in
  (add_v1_prefix s.1 exMW s.2 [tD; tE]).2 = VErr ∧
  txns (add_v1_prefix s.1 exMW s.2 [tD; tE]).1 = txns q ++ [tD] ∧
  (add_v1 s.1 exMW s.2 [tD; tE]).2 = VErr ∧ txns (add_v1 s.1 exMW s.2 [tD; tE]).1 = txns q.
Proof. vm_compute. done. Qed.
Example ex_add_all : let s := nrun exMW exL ex_ops in
  (add_v1 s.1 exMW s.2 [tA; tD]).2 = VAdded ∧ map a_id (txns (add_v1 s.1 exMW s.2 [tA; tD]).1) = [1; 4] ∧
  (add_v1 s.1 exMW s.2 [tA]).2 = VKnown ∧ (add_v1 s.1 exMW s.2 []).2 = VKnown.
Proof. vm_compute. done. Qed.

(** F9: one unrelated applied block (two new leaves) — before the repair the ephemeral child
    is dropped, after it both stay *)
Definition ex_step : list bstep := [BS false [] 5].
Definition exL' : ledger := LG (list_to_map [(0, 0); (4, 1); (8, 2)]) 5 6 ∅.
Theorem retention_prefix_refuted :
  let s := nrun exMW exL ex_ops in
  let q := revalidate s.1 exMW s.2 in
  tC ∈ goods exL' ex_step (txns q ++ v2txns q) ∧
  tC ∈ reported exMW (exL', chain_step ex_step None q) ∧
  tC ∉ reported exMW (exL', chain_step_prefix ex_step None q).
Proof.
  assert (H : let s := nrun exMW exL ex_ops in let q := revalidate s.1 exMW s.2 in
    goods exL' ex_step (txns q ++ v2txns q) = [tA; tB; tC] ∧
    reported exMW (exL', chain_step ex_step None q) = [tA; tB; tC] ∧
    reported exMW (exL', chain_step_prefix ex_step None q) = [tA; tB]).
  { vm_compute. done. }
  simpl in *. destruct H as (-> & -> & ->). set_solver.
Qed.

(** MineBlock before the repair: a pool that fills the block to within the weight of the
    miner's own transaction yields an overweight block *)
Definition tBig := ATx 9 true [] [] 0 95 0 100 true.
Definition tArb := ATx 10 true [] [] 0 12 0 100 true.
Theorem mined_block_prefix_refuted :
  total_weight (mine_block_prefix 100 true tArb [] [tBig]) = 107 ∧
  total_weight (mine_block 100 true tArb [] [tBig]) = 12.
Proof. vm_compute. done. Qed.
