(** * Chain/Rebase.v — updateV2TransactionProofs, reorgPath and V2TransactionSet of
    chain/manager.go (C13).  Executable model, no proofs.

    The block universe says, per block id, what the store knows about it (header, state,
    body with supplement), which v2 transactions it confirms, which elements it creates (with
    their leaf indices) and how many leaves the accumulator has after it.  Id 0 is the zero
    BlockID.  A chain index is a pair (height, id), and the height of an index supplied by a
    caller need not be the block's real height. *)
From Coq Require Import NArith List.
From stdpp Require Import gmap.
From CV Require Import Chain.Pool.
Import ListNotations.
Open Scope N_scope.

Record blk := Blk {
  b_par : N; b_hdr : bool; b_st : bool; b_body : bool;
  b_ids : list N; b_cr : list (N * N); b_num : N
}.
Notation universe := (gmap N blk).
Definition index := (N * N)%type.

Inductive rerr := EBasis | EProof | ETooLong | EMissing | EBody | EGone.
#[global] Instance rerr_eq_dec : EqDecision rerr.
Proof. solve_decision. Defined.
Inductive rres := ROk (l : list atx) | RErr (e : rerr).

(** ** reorgPath (manager.go:447-494) *)
(** Go's [index.Height - 1] on uint64 *)
Definition pred64 (h : N) : N := if h =? 0 then 18446744073709551615 else h - 1.

(** the helper [rewind]: the length test comes first, then the header lookup *)
Definition rewind (U : universe) (maxlen : nat) (nrev napp : nat) (ix : index) : rerr + index :=
  if (maxlen <? nrev + napp)%nat then inl ETooLong
  else match U !! ix.2 with
       | Some b => if b_hdr b then inr (pred64 ix.1, b_par b) else inl EMissing
       | None => inl EMissing
       end.

(** "for a.Height > b.Height { revert = append(revert, a); if !rewind(&a) { return } }" *)
Fixpoint path_down (fuel : nat) (U : universe) (maxlen : nat) (other : nat) (a : index) (bh : N)
    (acc : list index) : rerr + (index * list index) :=
  match fuel with
  | O => inl ETooLong
  | S f =>
      if bh <? a.1 then
        let acc' := acc ++ [a] in
        match rewind U maxlen (length acc') other a with
        | inl e => inl e
        | inr a' => path_down f U maxlen other a' bh acc'
        end
      else inr (a, acc)
  end.

(** "for a != b { revert += a; apply += b; if !rewind(&a) || !rewind(&b) { return } }" *)
Fixpoint path_both (fuel : nat) (U : universe) (maxlen : nat) (a b : index)
    (rev app : list index) : rerr + (list index * list index) :=
  match fuel with
  | O => inl ETooLong
  | S f =>
      if bool_decide (a = b) then inr (rev, app)
      else
        let rev' := rev ++ [a] in
        let app' := app ++ [b] in
        match rewind U maxlen (length rev') (length app') a with
        | inl e => inl e
        | inr a' =>
            match rewind U maxlen (length rev') (length app') b with
            | inl e => inl e
            | inr b' => path_both f U maxlen a' b' rev' app'
            end
        end
  end.

(** [gen] is the index of the genesis block (store.BestIndex(0)) *)
Definition reorg_path (U : universe) (gen : index) (maxlen : nat) (a b : index)
    : rerr + (list index * list index) :=
  let fuel := S (S (S maxlen)) in
  match path_down fuel U maxlen 0 a b.1 [] with
  | inl e => inl e
  | inr (a1, rev) =>
      match path_down fuel U maxlen (length rev) b a1.1 [] with
      | inl e => inl e
      | inr (b1, app) =>
          (* special case: a is the zero index *)
          let '(a2, app2) := if bool_decide (a1 = (0, 0)) then (gen, app ++ [gen]) else (a1, app) in
          match path_both fuel U maxlen a2 b1 rev app2 with
          | inl e => inl e
          | inr (rev', app') => inr (rev', List.rev app')
          end
      end
  end.

(** blockAndParent + supplement: the block body is stored and its parent's state is known;
    yields the number of leaves of the parent state and the block *)
Definition block_and_parent (U : universe) (id : N) : option (blk * N) :=
  match U !! id with
  | Some b => if b_body b then
                match U !! b_par b with
                | Some pb => if b_st pb then Some (b, b_num pb) else None
                | None => None
                end
              else None
  | None => None
  end.

(** ** updateV2TransactionProofs (manager.go:1266-1374) *)
(** ElementAccumulator.ValidateTransactionElements: every non-ephemeral proof verifies
    against the basis accumulator (the bit is computed by core on the basis state) *)
Definition elements_valid (t : atx) : bool := forallb (λ i, is_eph i || i_pok i) (a_ins t).

(** the replacement of confirmed ephemeral parents: siacoin and siafund inputs only *)
Definition conv_confirmed (cr : gmap N N) (i : ain) : ain :=
  if is_spend i && (cls (i_el i) <? 2) && is_eph i then
    match cr !! i_el i with Some lf => set_leaf i lf true | None => i end
  else i.

Definition sc_sf (cr : list (N * N)) : gmap N N :=
  list_to_map (List.filter (λ e : N * N, cls e.1 <? 2) cr).

(** [pre]: before the repair of F9 *)
Fixpoint revert_all (pre : bool) (U : universe) (rev : list index) (txs : list atx) : rres :=
  match rev with
  | [] => ROk txs
  | ix :: r =>
      match block_and_parent U ix.2 with
      | None => RErr EBody
      | Some (_, pnum) =>
          if forallb (λ t, if pre then keep_tx_prefix pnum t else keep_tx pnum t) txs
          then revert_all pre U r txs else RErr EGone
      end
  end.

Fixpoint apply_all (pre : bool) (U : universe) (app : list index) (txs : list atx) : rres :=
  match app with
  | [] => ROk txs
  | ix :: r =>
      match block_and_parent U ix.2 with
      | None => RErr EBody
      | Some (b, _) =>
          let cr := sc_sf (b_cr b) in
          let rest := List.filter (λ t, negb (bool_decide (a_id t ∈ b_ids b))) txs in
          let upd := map (map_ins (conv_confirmed cr)) rest in
          if forallb (λ t, if pre then keep_tx_prefix (b_num b) t else keep_tx (b_num b) t) upd
          then apply_all pre U r upd else RErr EGone
      end
  end.

(** the supported distance is a parameter [md] of the model (the harness measures it on the
    implementation); [max_rebase] is the repository's default *)
Definition max_rebase : nat := 144.

Definition update_proofs_gen (md : nat) (pre : bool) (U : universe) (gen : index) (txs : list atx) (from to : index) : rres :=
  match U !! from.2 with
  | None => RErr EBasis
  | Some fb =>
      if negb (b_st fb) then RErr EBasis
      else if negb (forallb elements_valid txs) then RErr EProof
      else match reorg_path U gen md from to with
           | inl e => RErr e
           | inr (rev, app) =>
               match revert_all pre U rev txs with
               | RErr e => RErr e
               | ROk txs' => apply_all pre U app txs'
               end
           end
  end.
Definition update_proofs (md : nat) := update_proofs_gen md false.
Definition update_proofs_prefix (md : nat) := update_proofs_gen md true.

(** UpdateV2TransactionSet: equal indices return the caller's slice as it is *)
Definition update_set (md : nat) (U : universe) (gen : index) (txs : list atx) (from to : index) : rres :=
  if bool_decide (from = to) then ROk txs else update_proofs md U gen txs from to.

(** ** V2TransactionSet (manager.go:1181-1234) *)
Inductive sres := SOk (basis : index) (l : list atx) | SErr (e : rerr) | SPanic.

(** repaired: the parent map is per slice (finding F17), only the caller's transaction is
    rebased from [basis] — the parents come from the pool and are already valid for the tip
    (finding F18) — and the parents are in pool order (finding F20) *)
Definition v2_transaction_set (md : nat) (U : universe) (gen : index) (L : ledger) (mw : N) (tip : index)
    (p : pool) (basis : index) (t : atx) : sres :=
  let p := revalidate L mw p in
  match unconfirmed_parents (parent_map (v2txns p)) (v2txns p) t with
  | PPanic => SPanic
  | PList parents =>
      match update_proofs md U gen [t] basis tip with
      | RErr e => SErr e
      | ROk l => SOk tip (parents ++ l)
      end
  end.
(** before the repairs: one parent map for both slices, reversed discovery order, parents
    and transaction rebased together from the caller's basis *)
Definition v2_transaction_set_prefix (md : nat) (U : universe) (gen : index) (L : ledger) (mw : N) (tip : index)
    (p : pool) (basis : index) (t : atx) : sres :=
  let p := revalidate L mw p in
  match unconfirmed_parents_prefix (parent_map_prefix (txns p) (v2txns p)) (v2txns p) t with
  | PPanic => SPanic
  | PList parents =>
      match update_proofs md U gen (parents ++ [t]) basis tip with
      | RErr e => SErr e
      | ROk l => SOk tip l
      end
  end.
