(** * Chain/PoolRun.v — executable correspondence check shared by C05, C13 and C14 (no proofs).
    A case is a block universe, the ledger at the starting tip and a trace of calls on the
    real manager, each with what the harness observed: the call's own result and, after
    every call, the ordered ids of PoolTransactions and the ordered (id, leaf indices of the
    inputs) of V2PoolTransactions. *)
From Coq Require Import NArith List.
From stdpp Require Import gmap.
From CV Require Export Chain.Pool Chain.Rebase.
Export ListNotations.
Open Scope N_scope.

(** compact constructors for the cases files *)
Definition I (el r leaf : N) (pok : bool) : ain :=
  AIn el (match r with 0 => RSpend | 1 => RRevise | _ => RRef end) leaf pok 0.
(** a revision to revision number [rv] *)
Definition Iv (el leaf : N) (pok : bool) (rv : N) : ain := AIn el RRevise leaf pok rv.
Definition T (id : N) (v2 : bool) (ins : list ain) (outs : list N) (fee w lo hi : N) (feeless : bool) : atx :=
  ATx id v2 ins outs fee w lo hi feeless.
Definition Lg (els : list (N * N)) (num h : N) (revs : list (N * N)) : ledger :=
  LG (list_to_map els) num h (list_to_map revs).
Definition B (par : N) (hdr st body : bool) (ids : list N) (cr : list (N * N)) (num : N) : blk :=
  Blk par hdr st body ids cr num.
Definition S_ (revert : bool) (cr : list (N * N)) (num : N) : bstep := BS revert cr num.
Definition U_ : N := unassigned.

Inductive cop :=
| CAdd1 (set : list atx)
| CAdd2 (basis : index) (set : list atx)
| CChain (steps : list bstep) (lr : option (list atx * list atx)) (L' : ledger) (tip' : index) (upd : list (N * blk))
| CStore (upd : list (N * blk))
| CLook (v2 : bool) (id : N)
| CQuery
| CMine (v2allowed : bool) (arb : atx)
| CTxSet (basis : index) (t : atx)
| CParents (t : atx)
| CUpdate (txs : list atx) (from to : index).

Notation oform := (list (N * list N)).

Inductive cres :=
| XVerdict (v : N)                         (* 0 added, 1 known, 2 error *)
| XFound (id : N) | XAbsent | XPanic
| XNone
| XIds (l : list N)
| XOk (basis : index) (f : oform)
| XErr (class : N)                          (* the call returned an error (the class is informative only) *)
| XReject.                                  (* an error for a chain index whose height contradicts its block:
                                               the property asks only for "error, never panic" there *)

(** [o_skip]: the harness did not read the pool after this call (the next call on the manager came
    first): the model makes no query either and nothing but the call's own result is compared *)
Record obs := Obs' { o_res : cres; o_v1 : list N; o_v2 : oform; o_skip : bool }.
Definition Obs (r : cres) (v1 : list N) (v2 : oform) : obs := Obs' r v1 v2 false.
Definition ObsNone (r : cres) : obs := Obs' r [] [] true.
Record case := mk_case {
  c_mw : N;      (* State.MaxBlockWeight: what one mined block takes *)
  c_capw : N;    (* a tenth of the pool's capacity (the repository's default capacity is ten blocks:
                    then this is [c_mw]); the harness measures the capacity on the implementation *)
  c_md : nat;    (* the supported rebase distance, measured on the implementation *)
  c_univ : list (N * blk); c_gen : index; c_L0 : ledger; c_tip0 : index;
  c_trace : list (cop * obs)
}.

Definition form (l : list atx) : oform := map (λ t, (a_id t, map i_leaf (a_ins t))) l.
Definition err_class (e : rerr) : N :=
  match e with EBasis => 0 | EProof => 1 | ETooLong => 2 | EMissing => 3 | EBody => 4 | EGone => 5 end.
Definition verdict_class (v : verdict) : N := match v with VAdded => 0 | VKnown => 1 | VErr => 2 end.

Record rstate := RS { r_U : universe; r_L : ledger; r_tip : index; r_p : pool }.

(** AddBlocks stores new blocks (header-derived state, no supplement) and gives the blocks it
    applies a supplement: the entries overwrite the universe *)
Definition store (U : universe) (upd : list (N * blk)) : universe :=
  foldl (λ U e, <[e.1 := e.2]> U) U upd.

Definition res_eqb (a b : cres) : bool :=
  match a, b with
  | XVerdict x, XVerdict y => x =? y
  | XFound x, XFound y => x =? y
  | XAbsent, XAbsent => true
  | XPanic, XPanic => true
  | XNone, XNone => true
  | XIds x, XIds y => bool_decide (x = y)
  | XOk b1 f1, XOk b2 f2 => bool_decide (b1 = b2) && bool_decide (f1 = f2)
  (* which of several applicable errors is reported, and its wording, is not fixed by the property:
     model and implementation must agree on error / no error *)
  | XErr _, XErr _ => true
  (* a corrupted index may be refused earlier than the model's path computation would *)
  | _, XReject => true
  | _, _ => false
  end.

Definition lres_to (r : lres) : cres :=
  match r with LFound t => XFound (a_id t) | LAbsent => XAbsent | LPanic => XPanic end.

(** one call: the model's result and next state *)
Definition cstep (mw capw : N) (md : nat) (gen : index) (s : rstate) (o : cop) : rstate * cres :=
  let L := r_L s in
  let U := r_U s in
  match o with
  | CAdd1 set => let '(p', v) := add_v1 L capw (r_p s) set in (RS U L (r_tip s) p', XVerdict (verdict_class v))
  | CAdd2 basis set =>
      let r := match update_proofs md U gen set basis (r_tip s) with ROk l => Some l | RErr _ => None end in
      let '(p', v) := add_v2 L capw (r_p s) r in (RS U L (r_tip s) p', XVerdict (verdict_class v))
  | CChain steps lr L' tip' upd => (RS (store U upd) L' tip' (chain_step steps lr (r_p s)), XNone)
  (* AddBlocks that stores blocks without moving the tip calls no pool method: no revalidation here
     (when the harness reads the pool afterwards, [check_trace] revalidates as for every observed call) *)
  | CStore upd => (RS (store U upd) L (r_tip s) (r_p s), XNone)
  | CLook v2 id =>
      (RS U L (r_tip s) (revalidate L capw (r_p s)),
       lres_to (if v2 then lookup_v2 L capw (r_p s) id else lookup_v1 L capw (r_p s) id))
  | CQuery => (RS U L (r_tip s) (revalidate L capw (r_p s)), XNone)
  | CMine v2a arb =>
      let p := revalidate L capw (r_p s) in
      (RS U L (r_tip s) p, XIds (map a_id (mine_block mw v2a arb (txns p) (v2txns p))))
  | CTxSet basis t =>
      (RS U L (r_tip s) (revalidate L capw (r_p s)),
       match v2_transaction_set md U gen L capw (r_tip s) (r_p s) basis t with
       | SOk b l => XOk b (form l) | SErr e => XErr (err_class e) | SPanic => XPanic end)
  | CParents t =>
      let p := revalidate L capw (r_p s) in
      (RS U L (r_tip s) p,
       match unconfirmed_parents (parent_map (txns p)) (txns p) t with
       | PList l => XIds (map a_id l) | PPanic => XPanic end)
  | CUpdate txs from to =>
      (s, match update_set md U gen txs from to with
          | ROk l => XOk to (form l) | RErr e => XErr (err_class e) end)
  end.

Fixpoint check_trace (mw capw : N) (md : nat) (gen : index) (s : rstate) (t : list (cop * obs)) : bool :=
  match t with
  | [] => true
  | (o, ob) :: t' =>
      let '(s1, r) := cstep mw capw md gen s o in
      if o_skip ob then res_eqb r (o_res ob) && check_trace mw capw md gen s1 t' else
      (* the harness reads both pool lists after the call *)
      let p := revalidate (r_L s1) capw (r_p s1) in
      res_eqb r (o_res ob) && bool_decide (map a_id (txns p) = o_v1 ob) &&
      bool_decide (form (v2txns p) = o_v2 ob) &&
      check_trace mw capw md gen (RS (r_U s1) (r_L s1) (r_tip s1) p) t'
  end.

Definition check_case (c : case) : bool :=
  check_trace (c_mw c) (c_capw c) (c_md c) (c_gen c) (RS (list_to_map (c_univ c)) (c_L0 c) (c_tip0 c) pool0) (c_trace c).

Fixpoint mismatches_from (i : N) (cs : list case) : list N :=
  match cs with
  | [] => []
  | c :: cs' => if check_case c then mismatches_from (N.succ i) cs'
                else i :: mismatches_from (N.succ i) cs'
  end.
Definition mismatches := mismatches_from 0.

(** index of the first trace entry on which model and observation disagree (for debugging) *)
Fixpoint first_bad (mw capw : N) (md : nat) (gen : index) (s : rstate) (t : list (cop * obs)) (i : N)
  : option (N * cres * list N * oform) :=
  match t with
  | [] => None
  | (o, ob) :: t' =>
      let '(s1, r) := cstep mw capw md gen s o in
      if o_skip ob then
        (if res_eqb r (o_res ob) then first_bad mw capw md gen s1 t' (N.succ i) else Some (i, r, [], []))
      else
      let p := revalidate (r_L s1) capw (r_p s1) in
      if res_eqb r (o_res ob) && bool_decide (map a_id (txns p) = o_v1 ob) && bool_decide (form (v2txns p) = o_v2 ob)
      then first_bad mw capw md gen (RS (r_U s1) (r_L s1) (r_tip s1) p) t' (N.succ i)
      else Some (i, r, map a_id (txns p), form (v2txns p))
  end.
Definition first_bad_case (c : case) :=
  first_bad (c_mw c) (c_capw c) (c_md c) (c_gen c) (RS (list_to_map (c_univ c)) (c_L0 c) (c_tip0 c) pool0) (c_trace c) 0.
