(** * Chain/StoreProofs.v — proofs about the store model (C02) *)
From Coq Require Import NArith List Lia ZifyNat ZifyN.
Import ListNotations.
From stdpp Require Import gmap.
From CV Require Import Chain.Store.
Open Scope N_scope.

(** ** Lists: index_of and swap_remove *)
Lemma index_of_Some x l i : index_of x l = Some i → l !! i = Some x.
Proof.
  revert i. induction l as [|y r IH]; intros i; cbn; [done|].
  destruct (N.eqb_spec x y) as [->|Hne].
  - intros [= <-]. done.
  - destruct (index_of x r) as [j|] eqn:E; cbn; [|done].
    intros [= <-]. cbn. by apply IH.
Qed.

Lemma index_of_first x l i : index_of x l = Some i → ∀ j, (j < i)%nat → l !! j ≠ Some x.
Proof.
  revert i. induction l as [|y r IH]; intros i; cbn; [done|].
  destruct (N.eqb_spec x y) as [->|Hne].
  - intros [= <-] j Hj. lia.
  - destruct (index_of x r) as [k|] eqn:E; cbn; [|done].
    intros [= <-] j Hj. destruct j as [|j]; cbn.
    + intros [= ->]. done.
    + apply (IH k eq_refl). lia.
Qed.

Lemma index_of_elem x l : x ∈ l → ∃ i, index_of x l = Some i.
Proof.
  induction l as [|y r IH]; [by intros ?%elem_of_nil|].
  intros [->|Hin]%elem_of_cons; cbn.
  - rewrite N.eqb_refl. eauto.
  - destruct (N.eqb_spec x y); [eauto|]. destruct (IH Hin) as [i ->]. cbn. eauto.
Qed.

Lemma index_of_None x l : index_of x l = None → x ∉ l.
Proof.
  intros E Hin. destruct (index_of_elem _ _ Hin) as [i Hi]. congruence.
Qed.

Lemma index_of_app_last x l : x ∉ l → index_of x (l ++ [x]) = Some (length l).
Proof.
  induction l as [|y r IH]; cbn; intros Hn.
  - by rewrite N.eqb_refl.
  - destruct (N.eqb_spec x y) as [->|_].
    + exfalso. apply Hn. left.
    + rewrite IH; [done|]. intros ?. apply Hn. by right.
Qed.

Lemma swap_remove_snoc_last l z : swap_remove (length l) (l ++ [z]) = l.
Proof.
  unfold swap_remove. rewrite last_snoc, app_length. cbn.
  replace (length l + 1 - 1)%nat with (length l) by lia.
  rewrite list_insert_id; [apply take_app|].
  rewrite lookup_app_r by lia. by rewrite Nat.sub_diag.
Qed.

(** removing position [i] by swap-remove removes exactly one occurrence of [l !! i] *)
Lemma swap_remove_perm l i x : l !! i = Some x → x :: swap_remove i l ≡ₚ l.
Proof.
  destruct l as [|z l0 _] using rev_ind; [done|].
  intros Hi. unfold swap_remove. rewrite last_snoc, app_length. cbn.
  replace (length l0 + 1 - 1)%nat with (length l0) by lia.
  destruct (decide (i < length l0)%nat) as [Hlt|Hge].
  - rewrite lookup_app_l in Hi by done.
    rewrite insert_app_l by done.
    rewrite take_app_alt by (by rewrite insert_length).
    rewrite insert_take_drop by done.
    rewrite <- (take_drop_middle l0 i x Hi) at 3.
    rewrite <- !app_assoc. cbn.
    rewrite <- !Permutation_middle. cbn.
    by rewrite app_nil_r.
  - assert (i = length l0) as ->.
    { apply lookup_lt_Some in Hi. rewrite app_length in Hi. cbn in Hi. lia. }
    rewrite lookup_app_r in Hi by lia. rewrite Nat.sub_diag in Hi. injection Hi as ->.
    rewrite list_insert_id.
    + rewrite take_app. apply Permutation_cons_append.
    + rewrite lookup_app_r by lia. by rewrite Nat.sub_diag.
Qed.

Lemma swap_remove_NoDup l i x :
  NoDup l → l !! i = Some x →
  NoDup (swap_remove i l) ∧ ∀ y, y ∈ swap_remove i l ↔ y ∈ l ∧ y ≠ x.
Proof.
  intros Hnd Hi. pose proof (swap_remove_perm l i x Hi) as Hp.
  assert (NoDup (x :: swap_remove i l)) as Hnd' by (by rewrite Hp).
  apply NoDup_cons in Hnd' as [Hx Hnd']. split; [done|].
  intros y. assert (y ∈ l ↔ y ∈ x :: swap_remove i l) as -> by (by rewrite Hp).
  rewrite elem_of_cons. split.
  - intros Hy. split; [by right|]. intros ->. done.
  - intros [[->|Hy] Hne]; done.
Qed.

(** append-then-delete is always exact *)
Lemma append_delete_exact l x :
  x ∉ l → index_of x (l ++ [x]) = Some (length l) ∧ swap_remove (length l) (l ++ [x]) = l.
Proof. intros Hn. split; [by apply index_of_app_last|apply swap_remove_snoc_last]. Qed.

(** delete-then-prepend restores a duplicate-free list exactly iff the id was first and the
    list had at most two entries *)
Lemma delete_prepend_exact_iff l i x :
  NoDup l → l !! i = Some x →
  (x :: swap_remove i l = l ↔ i = 0%nat ∧ (length l ≤ 2)%nat).
Proof.
  intros Hnd Hi. split.
  - intros Heq.
    assert (i = 0%nat) as ->.
    { apply (NoDup_lookup l i 0 x Hnd Hi). rewrite <- Heq. done. }
    split; [done|].
    destruct l as [|x' t]; [done|]. cbn in Hi. injection Hi as ->.
    destruct t as [|z t0 _] using rev_ind; [cbn; lia|].
    unfold swap_remove in Heq.
    change (x :: t0 ++ [z]) with ([x] ++ (t0 ++ [z])) in Heq at 1 2.
    rewrite app_assoc, last_snoc in Heq.
    rewrite <- app_assoc in Heq. cbn in Heq.
    rewrite app_length in Heq. cbn in Heq.
    replace (length t0 + 1 - 0)%nat with (S (length t0)) in Heq by lia.
    cbn in Heq. rewrite take_app in Heq.
    injection Heq as Heq.
    destruct t0 as [|a t0']; [cbn; lia|].
    cbn in Heq. injection Heq as -> Heq.
    exfalso. apply NoDup_cons in Hnd as [_ Hnd].
    cbn in Hnd. apply NoDup_cons in Hnd as [Hnd _].
    apply Hnd. apply elem_of_app. right. left.
  - intros [-> Hlen].
    destruct l as [|a [|b [|c l]]]; cbn in *; try lia; try done; by simplify_eq.
Qed.

(** the expiry case: when a block removes the whole list (in any order that succeeds) and
    the revert diffs arrive reversed, prepending restores the list exactly *)
Fixpoint delete_all (ids l : list N) : option (list N) :=
  match ids with
  | [] => Some l
  | x :: r => match index_of x l with
              | Some i => delete_all r (swap_remove i l)
              | None => None
              end
  end.

Lemma swap_remove_length l i x : l !! i = Some x → length (swap_remove i l) = pred (length l).
Proof.
  intros Hi. pose proof (swap_remove_perm l i x Hi) as Hp.
  apply Permutation_length in Hp. cbn in Hp. lia.
Qed.

Lemma delete_all_whole l : NoDup l → ∀ k, k ≡ₚ l → NoDup k → delete_all l k = Some [].
Proof.
  induction l as [|x r IH]; intros Hnd k Hp Hk.
  - apply Permutation_nil_r in Hp. by subst.
  - cbn. assert (x ∈ k) as Hin by (rewrite Hp; left).
    destruct (index_of_elem _ _ Hin) as [i Hi]. rewrite Hi.
    apply index_of_Some in Hi.
    apply NoDup_cons in Hnd as [Hx Hnd].
    destruct (swap_remove_NoDup k i x Hk Hi) as [Hnd' _].
    apply IH; [done| |done].
    pose proof (swap_remove_perm k i x Hi) as Hp'.
    rewrite <- Hp' in Hp. by apply Permutation_cons_inv in Hp.
Qed.

Lemma expiry_revert_exact l :
  NoDup l → delete_all l l = Some [] ∧ fold_left (λ acc x, x :: acc) (rev l) [] = l.
Proof.
  intros Hnd. split; [by apply delete_all_whole|].
  rewrite <- fold_left_rev_right, rev_involutive.
  induction l as [|x r IH]; cbn; [done|].
  apply NoDup_cons in Hnd as [_ Hnd]. by rewrite IH.
Qed.

(** ** The expiration map *)
Definition norm (s : store) : Prop := ∀ h, expi s !! h ≠ Some [].

Lemma exp_get_set s h l h' :
  exp_get (set_exp s h l) h' = if decide (h' = h) then l else exp_get s h'.
Proof.
  unfold exp_get, set_exp, exp_put; cbn.
  destruct l; case_decide; subst;
    rewrite ?lookup_delete, ?lookup_insert, ?lookup_delete_ne, ?lookup_insert_ne by done; done.
Qed.

Lemma norm_set s h l : norm s → norm (set_exp s h l).
Proof.
  unfold norm, set_exp, exp_put. intros H k; cbn.
  destruct l; destruct (decide (k = h)) as [->|];
    rewrite ?lookup_delete, ?lookup_insert, ?lookup_delete_ne, ?lookup_insert_ne by done;
    try done; apply H.
Qed.

Lemma exp_ext s s' :
  norm s → norm s' → (∀ h, exp_get s h = exp_get s' h) → expi s = expi s'.
Proof.
  intros Hn Hn' He. apply map_eq. intros h. specialize (He h). unfold exp_get in He.
  specialize (Hn h). specialize (Hn' h).
  destruct (expi s !! h) as [[|a l]|], (expi s' !! h) as [[|a' l']|]; cbn in *; congruence.
Qed.

(** the other fields *)
Definition same_rest (s s' : store) : Prop :=
  sce s' = sce s ∧ sfe s' = sfe s ∧ mainc s' = mainc s ∧ hgt s' = hgt s.
Lemma same_rest_refl s : same_rest s s.
Proof. by repeat split. Qed.
Lemma same_rest_trans s1 s2 s3 : same_rest s1 s2 → same_rest s2 s3 → same_rest s1 s3.
Proof. intros (?&?&?&?) (?&?&?&?). repeat split; congruence. Qed.

(** [einv w s]: the lists are duplicate free and list [h] holds exactly the ids that [w]
    maps to [h] *)
Definition einv (w : N → option N) (s : store) : Prop :=
  norm s ∧ ∀ h, NoDup (exp_get s h) ∧ ∀ id, id ∈ exp_get s h ↔ w id = Some h.
Definition upd (w : N → option N) (i : N) (v : option N) : N → option N :=
  λ x, if decide (x = i) then v else w x.

Lemma einv_ext w w' s : (∀ x, w x = w' x) → einv w s → einv w' s.
Proof.
  intros He [Hn H]. split; [done|]. intros h. destruct (H h) as [Hnd Hm]. split; [done|].
  intros id. rewrite Hm, He. done.
Qed.

Lemma einv_frame w s s' : expi s' = expi s → einv w s → einv w s'.
Proof.
  intros He [Hn H]. unfold einv, norm, exp_get in *. rewrite He. done.
Qed.

Lemma einv_put w s id h b :
  einv w s → w id = None → einv (upd w id (Some h)) (put_expiration s id h b).
Proof.
  intros [Hn H] Hw. unfold put_expiration. split; [by apply norm_set|].
  intros k. rewrite exp_get_set. destruct (H k) as [Hnd Hm]. unfold upd.
  assert (id ∉ exp_get s h) as Hni.
  { intros Hin. destruct (H h) as [_ Hm']. apply Hm' in Hin. congruence. }
  case_decide as Hk; [subst k|].
  - split.
    + destruct b.
      * apply NoDup_app. split; [done|]. split; [|apply NoDup_singleton].
        intros x Hx ->%elem_of_list_singleton. done.
      * apply NoDup_cons. done.
    + intros x. case_decide as Hx; [subst x|].
      * split; [done|]. intros _. destruct b; [apply elem_of_app; right; left|left].
      * rewrite <- Hm. destruct b.
        -- rewrite elem_of_app, elem_of_list_singleton. naive_solver.
        -- rewrite elem_of_cons. naive_solver.
  - split; [done|]. intros x. case_decide as Hx; [subst x|done].
    rewrite Hm, Hw. split; [done|]. intros [= ->]. done.
Qed.

Lemma einv_del w s id h :
  einv w s → w id = Some h →
  ∃ s', delete_expiration s id h = Some s' ∧ einv (upd w id None) s' ∧
        fce s' = fce s ∧ same_rest s s'.
Proof.
  intros [Hn H] Hw. unfold delete_expiration.
  destruct (H h) as [Hnd Hm].
  assert (id ∈ exp_get s h) as Hin by (by apply Hm).
  destruct (index_of_elem _ _ Hin) as [i Hi]. rewrite Hi.
  apply index_of_Some in Hi.
  destruct (swap_remove_NoDup _ _ _ Hnd Hi) as [Hnd' Hm'].
  eexists. split; [done|]. split; [|split; [done|by unfold same_rest]].
  split; [by apply norm_set|].
  intros k. rewrite exp_get_set. unfold upd. case_decide as Hk; [subst k|].
  - split; [done|]. intros x. rewrite Hm'. case_decide as Hx; [subst x|].
    + naive_solver.
    + rewrite Hm. naive_solver.
  - destruct (H k) as [Hndk Hmk]. split; [done|]. intros x.
    case_decide as Hx; [subst x|done].
    rewrite Hmk, Hw. split; [|done]. intros [= ->]. done.
Qed.

(** ** File contracts: the map part as a pure function, entries that fit a map *)
Definition we_of (m : gmap N (N * N)) (id : N) : option N := snd <$> m !! id.
Definition exp_inv (s : store) : Prop := einv (we_of (fce s)) s.

Lemma we_of_insert m id p h x : we_of (<[id := (p, h)]> m) x = upd (we_of m) id (Some h) x.
Proof.
  unfold we_of, upd. case_decide; [subst; by rewrite lookup_insert|by rewrite lookup_insert_ne].
Qed.
Lemma we_of_delete m id x : we_of (delete id m) x = upd (we_of m) id None x.
Proof.
  unfold we_of, upd. case_decide; [subst; by rewrite lookup_delete|by rewrite lookup_delete_ne].
Qed.

Definition apply_fce (m : gmap N (N * N)) (f : fdiff) : gmap N (N * N) :=
  if f_created f && f_resolved f then m
  else if f_resolved f then delete (f_id f) m
  else match f_rev f with
       | Some pw => <[f_id f := pw]> m
       | None => <[f_id f := (f_pay f, f_we f)]> m
       end.

(** a diff entry fits the contracts [m] it is applied to: a created contract is new (and
    core never reports a revision for it: it rewrites the created contract in place), any
    other entry names a stored contract by its stored bytes and revises or resolves it *)
Definition entry_okm (m : gmap N (N * N)) (f : fdiff) : Prop :=
  if f_created f then m !! f_id f = None ∧ f_rev f = None
  else m !! f_id f = Some (f_pay f, f_we f) ∧ (f_resolved f = true ∨ is_Some (f_rev f)).

Fixpoint wf_fcm (m : gmap N (N * N)) (l : list fdiff) : Prop :=
  match l with
  | [] => True
  | f :: r => entry_okm m f ∧ wf_fcm (apply_fce m f) r
  end.

Lemma apply_fc_spec s f :
  exp_inv s → entry_okm (fce s) f →
  ∃ s1, apply_fc s f = Some s1 ∧ fce s1 = apply_fce (fce s) f ∧ exp_inv s1 ∧ same_rest s s1.
Proof.
  intros Hinv Hok. unfold apply_fc, apply_fce, entry_okm in *.
  destruct (f_created f) eqn:Hc, (f_resolved f) eqn:Hr; cbn.
  - exists s. split; [done|]. split; [done|]. split; [done|apply same_rest_refl].
  - destruct Hok as [Hnone ->].
    eexists. split; [done|]. split; [done|]. split; [|by unfold same_rest].
    unfold exp_inv. cbn.
    eapply einv_ext; [intros x; symmetry; apply we_of_insert|].
    apply einv_put; [by eapply einv_frame|]. unfold we_of. by rewrite Hnone.
  - destruct Hok as [Hsome _].
    destruct (einv_del (we_of (fce s)) (set_fce s (delete (f_id f) (fce s))) (f_id f) (f_we f))
      as (s1 & Hd & Hi & Hf & Hrest).
    { by eapply einv_frame. } { unfold we_of. by rewrite Hsome. }
    exists s1. split; [done|]. split; [by rewrite Hf|]. split; [|done].
    unfold exp_inv. rewrite Hf. cbn.
    eapply einv_ext; [intros x; symmetry; apply we_of_delete|done].
  - destruct Hok as [Hsome [?|[[p' we'] Hrev]]]; [done|]. rewrite Hrev.
    destruct (N.eqb_spec we' (f_we f)) as [->|Hne].
    + eexists. split; [done|]. split; [done|]. split; [|by unfold same_rest].
      unfold exp_inv. cbn. eapply einv_ext; [|by eapply einv_frame].
      intros x. rewrite we_of_insert. unfold upd, we_of. case_decide; [subst|done].
      by rewrite Hsome.
    + destruct (einv_del (we_of (fce s)) (set_fce s (<[f_id f := (p', we')]> (fce s)))
                         (f_id f) (f_we f)) as (s2 & Hd & Hi & Hf & Hrest).
      { by eapply einv_frame. } { unfold we_of. by rewrite Hsome. }
      rewrite Hd. eexists. split; [done|]. cbn. split; [by rewrite Hf|].
      split; [|destruct Hrest as (?&?&?&?); by unfold same_rest].
      unfold exp_inv. cbn. rewrite Hf. cbn.
      eapply einv_ext; [|apply einv_put; [exact Hi|]].
      * intros x. rewrite we_of_insert. unfold upd. by case_decide.
      * unfold upd. by rewrite decide_True.
Qed.

Lemma revert_fc_spec s' m f :
  exp_inv s' → entry_okm m f → fce s' = apply_fce m f →
  ∃ s2, revert_fc s' f = Some s2 ∧ fce s2 = m ∧ exp_inv s2 ∧ same_rest s' s2.
Proof.
  intros Hinv Hok Hfce. unfold revert_fc, apply_fce, entry_okm, exp_inv in *.
  destruct (f_created f) eqn:Hc, (f_resolved f) eqn:Hr; cbn in *.
  - exists s'. split; [done|]. split; [done|]. split; [done|apply same_rest_refl].
  - destruct Hok as [Hnone Hrev]. rewrite Hrev in *.
    destruct (einv_del (we_of (fce s')) (set_fce s' (delete (f_id f) (fce s'))) (f_id f) (f_we f))
      as (s2 & Hd & Hi & Hf & Hrest).
    { by eapply einv_frame. } { unfold we_of. by rewrite Hfce, lookup_insert. }
    exists s2. split; [done|]. cbn in Hf.
    assert (fce s2 = m) as Hm by (by rewrite Hf, Hfce, delete_insert).
    split; [done|]. split; [|done]. rewrite Hm.
    eapply einv_ext; [|exact Hi]. intros x. unfold upd.
    case_decide as Hx; [subst x; unfold we_of; by rewrite Hnone|].
    rewrite Hfce. unfold we_of. by rewrite lookup_insert_ne.
  - destruct Hok as [Hsome _].
    eexists. split; [done|]. cbn.
    assert (<[f_id f := (f_pay f, f_we f)]> (fce s') = m) as Hm
      by (by rewrite Hfce, insert_delete).
    split; [done|]. split; [|by unfold same_rest]. rewrite Hm.
    eapply einv_ext; [|apply einv_put; [eapply einv_frame; [|exact Hinv]; done|]].
    + intros x. unfold upd, we_of. case_decide; [subst; by rewrite Hsome|].
      by rewrite Hfce, lookup_delete_ne.
    + unfold we_of. by rewrite Hfce, lookup_delete.
  - destruct Hok as [Hsome [?|[[p' we'] Hrev]]]; [done|]. rewrite Hrev in *.
    assert (<[f_id f := (f_pay f, f_we f)]> (fce s') = m) as Hm
      by (by rewrite Hfce, insert_insert, insert_id).
    destruct (N.eqb_spec we' (f_we f)) as [->|Hne].
    + eexists. split; [done|]. cbn. split; [done|]. split; [|by unfold same_rest]. rewrite Hm.
      eapply einv_ext; [|eapply einv_frame; [|exact Hinv]; done].
      intros x. rewrite Hfce, we_of_insert. unfold upd, we_of.
      case_decide; [subst; by rewrite Hsome|done].
    + destruct (einv_del (we_of (fce s')) (set_fce s' (<[f_id f := (f_pay f, f_we f)]> (fce s')))
                         (f_id f) we') as (s2 & Hd & Hi & Hf & Hrest).
      { by eapply einv_frame. } { unfold we_of. by rewrite Hfce, lookup_insert. }
      rewrite Hd. eexists. split; [done|]. cbn. cbn in Hf. rewrite Hf, Hm.
      split; [done|]. split; [|destruct Hrest as (?&?&?&?); by unfold same_rest].
      eapply einv_ext; [|apply einv_put; [exact Hi|]].
      * intros x. rewrite Hfce. unfold upd. case_decide; [subst|].
        -- unfold we_of. by rewrite Hsome.
        -- rewrite we_of_insert. unfold upd. by rewrite decide_False.
      * unfold upd. by rewrite decide_True.
Qed.

Lemma apply_fcs_spec l : ∀ s,
  exp_inv s → wf_fcm (fce s) l →
  ∃ s1, apply_fcs s l = Some s1 ∧ fce s1 = fold_left apply_fce l (fce s) ∧ exp_inv s1 ∧
        same_rest s s1.
Proof.
  induction l as [|f r IH]; intros s Hinv Hwf; cbn.
  - exists s. split; [done|]. split; [done|]. split; [done|apply same_rest_refl].
  - destruct Hwf as [Hok Hwf].
    destruct (apply_fc_spec s f Hinv Hok) as (s1 & -> & Hf & Hinv1 & Hr1).
    rewrite <- Hf in Hwf. destruct (IH s1 Hinv1 Hwf) as (s2 & -> & Hf2 & Hinv2 & Hr2).
    exists s2. split; [done|]. split; [by rewrite Hf2, Hf|]. split; [done|].
    by eapply same_rest_trans.
Qed.

Lemma revert_fcs_app l1 : ∀ s l2,
  revert_fcs s (l1 ++ l2) = match revert_fcs s l1 with Some s' => revert_fcs s' l2 | None => None end.
Proof.
  induction l1 as [|f r IH]; intros s l2; cbn; [done|].
  destruct (revert_fc s f); [apply IH|done].
Qed.

Lemma revert_fcs_spec l : ∀ m s',
  exp_inv s' → wf_fcm m l → fce s' = fold_left apply_fce l m →
  ∃ s2, revert_fcs s' (rev l) = Some s2 ∧ fce s2 = m ∧ exp_inv s2 ∧ same_rest s' s2.
Proof.
  induction l as [|f r IH]; intros m s' Hinv Hwf Hf; cbn in *.
  - exists s'. split; [done|]. split; [done|]. split; [done|apply same_rest_refl].
  - destruct Hwf as [Hok Hwf].
    destruct (IH _ s' Hinv Hwf Hf) as (s1 & H1 & Hf1 & Hinv1 & Hr1).
    rewrite revert_fcs_app, H1. cbn.
    destruct (revert_fc_spec s1 m f Hinv1 Hok Hf1) as (s2 & -> & Hf2 & Hinv2 & Hr2).
    exists s2. split; [done|]. split; [done|]. split; [done|]. by eapply same_rest_trans.
Qed.

(** ** Siacoin / siafund elements *)
Definition e_ok (m : gmap N N) (e : ediff) : Prop :=
  if e_created e then m !! e_id e = None
  else m !! e_id e = Some (e_pay e) ∧ e_spent e = true.

Fixpoint wf_em (m : gmap N N) (l : list ediff) : Prop :=
  match l with
  | [] => True
  | e :: r => e_ok m e ∧ wf_em (apply_e m e) r
  end.

Lemma revert_apply_e m e : e_ok m e → revert_e (apply_e m e) e = m.
Proof.
  unfold e_ok, revert_e, apply_e.
  destruct (e_created e), (e_spent e); cbn.
  - done.
  - intros H. by rewrite delete_insert.
  - intros [H _]. by rewrite insert_delete.
  - intros [_ ?]. done.
Qed.

Lemma es_exact l : ∀ m, wf_em m l → fold_left revert_e (rev l) (fold_left apply_e l m) = m.
Proof.
  induction l as [|e r IH]; intros m Hwf; cbn; [done|].
  destruct Hwf as [Hok Hwf]. rewrite fold_left_app. cbn.
  rewrite IH by done. by apply revert_apply_e.
Qed.

(** ** One block's elements *)
Definition wf_diffs (s : store) (d : diffs) : Prop :=
  wf_em (sce s) (d_sc d) ∧ wf_em (sfe s) (d_sf d) ∧ wf_fcm (fce s) (d_fc d).

Lemma apply_elements_spec s d :
  exp_inv s → wf_fcm (fce s) (d_fc d) →
  ∃ s1, apply_elements s d = Some s1 ∧
        sce s1 = fold_left apply_e (d_sc d) (sce s) ∧
        sfe s1 = fold_left apply_e (d_sf d) (sfe s) ∧
        fce s1 = fold_left apply_fce (d_fc d) (fce s) ∧
        exp_inv s1 ∧ mainc s1 = mainc s ∧ hgt s1 = hgt s.
Proof.
  intros Hinv Hwf. unfold apply_elements.
  set (s2 := set_sfe _ _).
  destruct (apply_fcs_spec (d_fc d) s2) as (s1 & H1 & Hf & Hinv1 & (Hsc & Hsf & Hm & Hh)); [done..|].
  exists s1. split_and!; done.
Qed.

Lemma revert_elements_spec s' d msc msf m :
  exp_inv s' →
  wf_em msc (d_sc d) → sce s' = fold_left apply_e (d_sc d) msc →
  wf_em msf (d_sf d) → sfe s' = fold_left apply_e (d_sf d) msf →
  wf_fcm m (d_fc d) → fce s' = fold_left apply_fce (d_fc d) m →
  ∃ s2, revert_elements s' (rev_diffs d) = Some s2 ∧
        sce s2 = msc ∧ sfe s2 = msf ∧ fce s2 = m ∧ exp_inv s2 ∧
        mainc s2 = mainc s' ∧ hgt s2 = hgt s'.
Proof.
  intros Hinv Hwsc Hsc Hwsf Hsf Hwfc Hfc. unfold revert_elements, rev_diffs. cbn.
  destruct (revert_fcs_spec (d_fc d) m s' Hinv Hwfc Hfc)
    as (s1 & -> & Hf1 & Hinv1 & (Hsc1 & Hsf1 & Hm1 & Hh1)).
  eexists. split; [done|]. cbn.
  rewrite Hsc1, Hsf1, Hsc, Hsf, !es_exact by done.
  split_and!; done.
Qed.

Lemma inv_perm s s2 : exp_inv s → exp_inv s2 → fce s2 = fce s → ∀ h, exp_get s2 h ≡ₚ exp_get s h.
Proof.
  intros [_ H] [_ H2] Hf h. destruct (H h) as [Hnd Hm], (H2 h) as [Hnd2 Hm2].
  apply NoDup_Permutation; [done..|]. intros x. rewrite Hm, Hm2, Hf. done.
Qed.

(** C02_revert_apply_exact *)
Theorem revert_apply_exact s d :
  exp_inv s → wf_diffs s d →
  ∃ s1 s2, apply_elements s d = Some s1 ∧ revert_elements s1 (rev_diffs d) = Some s2 ∧
    sce s2 = sce s ∧ sfe s2 = sfe s ∧ fce s2 = fce s ∧ mainc s2 = mainc s ∧ hgt s2 = hgt s ∧
    (∀ h, exp_get s2 h ≡ₚ exp_get s h).
Proof.
  intros Hinv (Hwsc & Hwsf & Hwfc).
  destruct (apply_elements_spec s d Hinv Hwfc) as (s1 & H1 & Hsc & Hsf & Hfc & Hinv1 & Hm & Hh).
  destruct (revert_elements_spec s1 d (sce s) (sfe s) (fce s) Hinv1 Hwsc Hsc Hwsf Hsf Hwfc Hfc)
    as (s2 & H2 & ? & ? & ? & Hinv2 & ? & ?).
  exists s1, s2. split_and!; try done; try congruence.
  by apply inv_perm.
Qed.

(** ** Histories *)
Local Arguments linear : simpl never.
Lemma linear_from_app R c1 : ∀ s c2,
  linear_from R s (c1 ++ c2) =
  match linear_from R s c1 with Some s' => linear_from R s' c2 | None => None end.
Proof.
  induction c1 as [|b r IH]; intros s c2; cbn; [done|].
  destruct (apply_block R s b); [apply IH|done].
Qed.

Lemma linear_snoc R c b :
  linear R (c ++ [b]) = match linear R c with Some s => apply_block R s b | None => None end.
Proof.
  unfold linear. rewrite linear_from_app. destruct (linear_from R empty_store c); [|done].
  cbn. by destruct (apply_block R s b).
Qed.

(** reverting the block at require height + 1 (never applied to the buckets) must not
    change them: it has no v1 contract diffs, restores elements that are still stored and
    deletes elements that never were *)
Definition noop_above (s : store) (d : diffs) : Prop :=
  d_fc d = [] ∧
  fold_left revert_e (rev (d_sf d)) (sfe s) = sfe s ∧
  fold_left revert_e (rev (d_sc d)) (sce s) = sce s.

(** what a block must satisfy relative to the linear store [sl] of the chain below it *)
Definition block_ok (R : N) (sl : store) (b : blk) : Prop :=
  (b_h b <= R → wf_diffs sl (b_d b)) ∧
  (b_h b = R + 1 → noop_above sl (b_d b)) ∧
  mainc sl !! b_h b = None.

(** the chain (tip first) is well formed: every block fits the linear store below it, and
    heights are consecutive above the lowest block *)
Fixpoint stack_ok (R : N) (st : list blk) : Prop :=
  match st with
  | [] => True
  | b :: st' =>
      stack_ok R st' ∧
      ∃ sl, linear R (rev st') = Some sl ∧ exp_inv sl ∧ block_ok R sl b ∧
            (st' ≠ [] → hgt sl = b_h b - 1)
  end.

(** a history is admissible from chain [st]: applied blocks fit, reverts name the tip and
    never remove the lowest block *)
Fixpoint ok_from (R : N) (st : list blk) (h : list step) : Prop :=
  match h with
  | [] => True
  | SApply b :: r =>
      (∀ sl, linear R (rev st) = Some sl →
             block_ok R sl b ∧ (st ≠ [] → hgt sl = b_h b - 1)) ∧
      ok_from R (b :: st) r
  | SRevert b :: r =>
      match st with
      | t :: st' => t = b ∧ st' ≠ [] ∧ ok_from R st' r
      | [] => False
      end
  end.

Record sim (s sl : store) : Prop := {
  sim_sc : sce s = sce sl; sim_sf : sfe s = sfe sl; sim_fc : fce s = fce sl;
  sim_mc : mainc s = mainc sl; sim_h : hgt s = hgt sl;
  sim_inv : exp_inv s; sim_invl : exp_inv sl;
}.

Lemma exp_inv_empty : exp_inv empty_store.
Proof.
  split; [intros h; unfold empty_store; cbn; by rewrite lookup_empty|].
  intros h. unfold exp_get, empty_store; cbn. rewrite lookup_empty; cbn. split; [apply NoDup_nil_2|].
  intros id. unfold we_of. rewrite lookup_empty; cbn. split; [by intros ?%elem_of_nil|done].
Qed.

Lemma exp_inv_apply_state s b : exp_inv s → exp_inv (apply_state s b).
Proof. done. Qed.
Lemma exp_inv_revert_state s b : exp_inv s → exp_inv (revert_state s b).
Proof. done. Qed.

Lemma apply_block_sim R s sl b :
  sim s sl → block_ok R sl b →
  ∃ s' sl', apply_block R s b = Some s' ∧ apply_block R sl b = Some sl' ∧ sim s' sl' ∧
    (b_h b <= R →
       sce sl' = fold_left apply_e (d_sc (b_d b)) (sce sl) ∧
       sfe sl' = fold_left apply_e (d_sf (b_d b)) (sfe sl) ∧
       fce sl' = fold_left apply_fce (d_fc (b_d b)) (fce sl)) ∧
    (R < b_h b → sce sl' = sce sl ∧ sfe sl' = sfe sl ∧ fce sl' = fce sl ∧ expi sl' = expi sl) ∧
    mainc sl' = <[b_h b := b_id b]> (mainc sl) ∧ hgt sl' = b_h b.
Proof.
  intros [Hsc Hsf Hfc Hmc Hh Hinv Hinvl] (Hwf & _ & _). unfold apply_block.
  destruct (N.leb_spec (b_h b) R) as [Hle|Hgt].
  - destruct (Hwf Hle) as (_ & _ & Hwfc).
    destruct (apply_elements_spec (apply_state s b) (b_d b)) as (s' & -> & ? & ? & ? & ? & ? & ?).
    { done. } { cbn. by rewrite Hfc. }
    destruct (apply_elements_spec (apply_state sl b) (b_d b)) as (sl' & -> & ? & ? & ? & ? & ? & ?).
    { done. } { done. }
    exists s', sl'. split_and!; try done; try lia.
    cbn in *. split; try done; try congruence.
  - exists (apply_state s b), (apply_state sl b). split_and!; try done; try lia.
    cbn. split; cbn; try done; try congruence.
Qed.

Lemma revert_block_sim R s sl sl' b :
  exp_inv sl' → block_ok R sl' b → hgt sl' = b_h b - 1 →
  apply_block R sl' b = Some sl → sim s sl →
  ∃ s2, revert_block R s b = Some s2 ∧ sim s2 sl'.
Proof.
  intros Hinv' Hok Hhgt Happ Hsim.
  assert (sim sl' sl') as Hrefl by (by split).
  destruct (apply_block_sim R sl' sl' b Hrefl Hok)
    as (x & y & Hx & Hy & _ & Hle & Hgt & Hmc & Hh).
  rewrite Happ in Hy. injection Hy as <-. clear x Hx.
  destruct Hsim as [Hsc Hsf Hfc Hmcs Hhs Hinv Hinvl].
  destruct Hok as (Hwf & Hnoop & Hfresh).
  unfold revert_block.
  assert (∀ s1, sce s1 = sce sl' → sfe s1 = sfe sl' → fce s1 = fce sl' → exp_inv s1 →
                mainc s1 = mainc s → hgt s1 = hgt s → sim (revert_state s1 b) sl') as Hfin.
  { intros s1 ? ? ? ? Hm1 Hh1. split; cbn; try done.
    rewrite Hm1, Hmcs, Hmc. by rewrite delete_insert. }
  destruct (N.leb_spec (b_h b - 1) R) as [Hl|Hg].
  - destruct (N.leb_spec (b_h b) R) as [Hle'|Hgt'].
    + destruct (Hle Hle') as (Hs1 & Hs2 & Hs3). destruct (Hwf Hle') as (Hw1 & Hw2 & Hw3).
      destruct (revert_elements_spec s (b_d b) (sce sl') (sfe sl') (fce sl'))
        as (s2 & -> & ? & ? & ? & ? & ? & ?); try done; try congruence.
      eexists. split; [done|]. by apply Hfin.
    + assert (b_h b = R + 1) as HR1 by lia.
      destruct (Hnoop HR1) as (Hnf & Hnsf & Hnsc).
      destruct (Hgt Hgt') as (Hg1 & Hg2 & Hg3 & Hg4).
      unfold revert_elements, rev_diffs. cbn. rewrite Hnf. cbn.
      eexists. split; [done|]. apply Hfin; cbn.
      * rewrite Hsc, Hg1. done.
      * rewrite Hsf, Hg2. done.
      * congruence.
      * done.
      * done.
      * done.
  - eexists. split; [done|]. apply Hfin; try done.
    + destruct (Hgt ltac:(lia)) as (?&?&?&?). congruence.
    + destruct (Hgt ltac:(lia)) as (?&?&?&?). congruence.
    + destruct (Hgt ltac:(lia)) as (?&?&?&?). congruence.
Qed.

Lemma hist_main R h : ∀ st s sl,
  stack_ok R st → linear R (rev st) = Some sl → sim s sl → ok_from R st h →
  ∀ st', stack_from st h = Some st' →
  ∃ s' sl', run_from R s h = Some s' ∧ linear R (rev st') = Some sl' ∧ sim s' sl'.
Proof.
  induction h as [|[b|b] r IH]; intros st s sl Hst Hlin Hsim Hok st' Hstack; cbn in *.
  - injection Hstack as <-. eauto.
  - destruct Hok as [Hb Hok]. destruct (Hb sl Hlin) as [Hbok Hhgt].
    destruct (apply_block_sim R s sl b Hsim Hbok) as (s1 & sl1 & -> & Hl1 & Hsim1 & _).
    eapply (IH (b :: st) s1 sl1); try done.
    + cbn. split; [done|]. exists sl. split_and!; try done. apply Hsim.
    + cbn. rewrite linear_snoc, Hlin. done.
  - destruct st as [|t st0]; [done|]. destruct Hok as (-> & Hne & Hok).
    destruct (blk_eqb b b); [|done].
    destruct Hst as (Hst0 & sl0 & Hl0 & Hinv0 & Hbok & Hh0).
    cbn in Hlin. rewrite linear_snoc, Hl0 in Hlin.
    destruct (revert_block_sim R s sl sl0 b Hinv0 Hbok (Hh0 Hne) Hlin Hsim) as (s2 & -> & Hsim2).
    eapply (IH st0 s2 sl0); done.
Qed.

(** C02_history_independent_partial, the part that always holds *)
Theorem history_independent R h c :
  ok_from R [] h → chain_of h = Some c →
  ∃ s sl, run R h = Some s ∧ linear R c = Some sl ∧
    sce s = sce sl ∧ sfe s = sfe sl ∧ fce s = fce sl ∧ mainc s = mainc sl ∧ hgt s = hgt sl ∧
    ∀ k, exp_get s k ≡ₚ exp_get sl k.
Proof.
  intros Hok Hc. unfold chain_of in Hc.
  destruct (stack_from [] h) as [st'|] eqn:Hst; [|done]. injection Hc as <-.
  assert (sim empty_store empty_store) as Hsim0 by (split; try done; apply exp_inv_empty).
  destruct (hist_main R h [] empty_store empty_store I eq_refl Hsim0 Hok st' Hst)
    as (s & sl & Hrun & Hlin & [? ? ? ? ? ? ?]).
  exists s, sl. split_and!; try done. by apply inv_perm.
Qed.

(** ** When the order is restored exactly *)
Lemma store_eq s s' :
  sce s = sce s' → sfe s = sfe s' → fce s = fce s' → expi s = expi s' →
  mainc s = mainc s' → hgt s = hgt s' → s = s'.
Proof. destruct s, s'; cbn; intros; by subst. Qed.

Lemma del_set_fce s m id we :
  delete_expiration (set_fce s m) id we = (λ s', set_fce s' m) <$> delete_expiration s id we.
Proof.
  unfold delete_expiration. change (exp_get (set_fce s m) we) with (exp_get s we).
  by destruct (index_of id (exp_get s we)).
Qed.

Lemma append_delete_store s id we :
  norm s → id ∉ exp_get s we →
  ∃ s', delete_expiration (put_expiration s id we true) id we = Some s' ∧
        expi s' = expi s ∧ fce s' = fce s ∧ same_rest s s'.
Proof.
  intros Hn Hni. unfold delete_expiration, put_expiration.
  rewrite exp_get_set, decide_True by done.
  rewrite index_of_app_last, swap_remove_snoc_last by done.
  exists (set_exp (set_exp s we (exp_get s we ++ [id])) we (exp_get s we)).
  split; [done|]. split; [|split; [done|by unfold same_rest]].
  apply (exp_ext (set_exp (set_exp s we (exp_get s we ++ [id])) we (exp_get s we)) s);
    [by do 2 apply norm_set|done|].
  intros h. rewrite !exp_get_set. by case_decide; subst.
Qed.

Lemma swap_remove_head x t : (length t ≤ 1)%nat → swap_remove 0 (x :: t) = t.
Proof. destruct t as [|y [|z t]]; cbn; try done; lia. Qed.

Lemma delete_prepend_store s id we t :
  norm s → exp_get s we = id :: t → (length t ≤ 1)%nat →
  ∃ s1, delete_expiration s id we = Some s1 ∧ fce s1 = fce s ∧ same_rest s s1 ∧
        expi (put_expiration s1 id we false) = expi s ∧ norm s1.
Proof.
  intros Hn Hl Hlen. unfold delete_expiration. rewrite Hl. cbn. rewrite N.eqb_refl.
  rewrite swap_remove_head by done.
  exists (set_exp s we t). split; [done|]. split; [done|]. split; [by unfold same_rest|].
  split; [|by apply norm_set].
  apply (exp_ext (put_expiration (set_exp s we t) id we false) s);
    [by do 2 apply norm_set|done|].
  intros h. unfold put_expiration. rewrite !exp_get_set. case_decide; subst; [|done].
  by rewrite decide_True.
Qed.

(** an entry that takes a contract out of a list (resolution, or revision to another
    window end) finds it first in a list of at most two *)
Definition cond_exact (s : store) (f : fdiff) : Prop :=
  f_created f = false →
  (f_resolved f = true ∨ ∃ p' we', f_rev f = Some (p', we') ∧ we' ≠ f_we f) →
  ∃ t, exp_get s (f_we f) = f_id f :: t ∧ (length t ≤ 1)%nat.

Lemma put_expi_congr a b id we fl :
  expi a = expi b → expi (put_expiration a id we fl) = expi (put_expiration b id we fl).
Proof. unfold put_expiration, set_exp, exp_get; cbn. by intros ->. Qed.

Lemma revert_apply_fc_exact s f :
  exp_inv s → entry_okm (fce s) f → cond_exact s f →
  ∀ s1, apply_fc s f = Some s1 → revert_fc s1 f = Some s.
Proof.
  intros Hinv Hok Hcond s1. pose proof Hinv as [Hn Hl].
  unfold apply_fc, revert_fc, entry_okm, cond_exact in *.
  destruct (f_created f) eqn:Hc, (f_resolved f) eqn:Hr; cbn.
  - by intros [= <-].
  - destruct Hok as [Hnone Hrev]. rewrite Hrev. intros [= <-].
    rewrite del_set_fce.
    change (put_expiration (set_fce s ?m) ?a ?b ?c) with (set_fce (put_expiration s a b c) m).
    rewrite del_set_fce.
    destruct (append_delete_store s (f_id f) (f_we f) Hn) as (s' & -> & He & Hf & (?&?&?&?)).
    { intros Hin. apply (Hl (f_we f)) in Hin. unfold we_of in Hin. by rewrite Hnone in Hin. }
    cbn. f_equal. apply store_eq; cbn; try done. by rewrite delete_insert.
  - destruct Hok as [Hsome _].
    destruct (Hcond eq_refl (or_introl eq_refl)) as (t & Ht & Hlen).
    rewrite del_set_fce.
    destruct (delete_prepend_store s (f_id f) (f_we f) t Hn Ht Hlen)
      as (s' & -> & Hf & (?&?&?&?) & He & Hn').
    cbn. intros [= <-]. f_equal. apply store_eq; cbn; try done.
    by rewrite insert_delete.
  - destruct Hok as [Hsome [?|[[p' we'] Hrev]]]; [done|]. rewrite Hrev.
    destruct (N.eqb_spec we' (f_we f)) as [->|Hne].
    + intros [= <-]. cbn. f_equal. apply store_eq; cbn; try done.
      by rewrite insert_insert, insert_id.
    + destruct (Hcond eq_refl) as (t & Ht & Hlen); [right; eauto|].
      rewrite del_set_fce.
      destruct (delete_prepend_store s (f_id f) (f_we f) t Hn Ht Hlen)
        as (s' & Hd & Hf & (?&?&?&?) & He & Hn').
      rewrite Hd. cbn. intros [= <-].
      change (put_expiration (set_fce ?s0 ?m) ?a ?b ?c) with (set_fce (put_expiration s0 a b c) m).
      cbn. rewrite !del_set_fce.
      assert (f_id f ∉ exp_get s' we') as Hni.
      { unfold delete_expiration in Hd. rewrite Ht in Hd. cbn in Hd. rewrite N.eqb_refl in Hd.
        injection Hd as <-. rewrite exp_get_set, decide_False by done.
        intros Hin. apply (Hl we') in Hin. unfold we_of in Hin. rewrite Hsome in Hin.
        cbn in Hin. congruence. }
      destruct (append_delete_store s' (f_id f) we' Hn' Hni) as (s'' & -> & He' & Hf' & (?&?&?&?)).
      cbn. f_equal. apply store_eq; cbn; try congruence.
      * by rewrite insert_insert, insert_id.
      * rewrite <- He.
        exact (put_expi_congr (set_fce (set_fce s'' (<[f_id f:=(p', we')]> (fce s)))
                 (<[f_id f:=(f_pay f, f_we f)]> (<[f_id f:=(p', we')]> (fce s))))
                 s' (f_id f) (f_we f) false He').
Qed.

Fixpoint exact_fcs (s : store) (l : list fdiff) : Prop :=
  match l with
  | [] => True
  | f :: r => cond_exact s f ∧ ∀ s', apply_fc s f = Some s' → exact_fcs s' r
  end.

Lemma revert_apply_fcs_exact l : ∀ s,
  exp_inv s → wf_fcm (fce s) l → exact_fcs s l →
  ∀ s1, apply_fcs s l = Some s1 → revert_fcs s1 (rev l) = Some s.
Proof.
  induction l as [|f r IH]; intros s Hinv Hwf Hex s1; cbn.
  - by intros [= <-].
  - destruct Hwf as [Hok Hwf], Hex as [Hc Hex].
    destruct (apply_fc_spec s f Hinv Hok) as (s' & Hs' & Hf & Hinv' & _).
    rewrite Hs'. intros Hr. rewrite <- Hf in Hwf.
    rewrite revert_fcs_app, (IH s' Hinv' Hwf (Hex s' Hs') s1 Hr). cbn.
    by rewrite (revert_apply_fc_exact s f Hinv Hok Hc s' Hs').
Qed.

(** the contract part of [apply_fc] only reads and writes [fce] and [expi] *)
Lemma apply_fc_frame s s' f :
  fce s = fce s' → expi s = expi s' →
  match apply_fc s f, apply_fc s' f with
  | Some a, Some b => fce a = fce b ∧ expi a = expi b
  | None, None => True
  | _, _ => False
  end.
Proof.
  destruct s as [sc sf fc ex mc hg], s' as [sc' sf' fc' ex' mc' hg']. cbn. intros <- <-.
  unfold apply_fc, delete_expiration, put_expiration, set_exp, set_fce, exp_get; cbn.
  repeat (case_match; simplify_eq/=; try done).
Qed.

Lemma exact_fcs_frame l : ∀ s s',
  fce s = fce s' → expi s = expi s' → exact_fcs s l → exact_fcs s' l.
Proof.
  induction l as [|f r IH]; intros s s' Hf He; cbn; [done|].
  intros [Hc Hex]. split.
  - unfold cond_exact, exp_get in *. by rewrite <- He.
  - intros b Hb. pose proof (apply_fc_frame s s' f Hf He) as Hfr. rewrite Hb in Hfr.
    destruct (apply_fc s f) as [a|] eqn:Ha; [|done]. destruct Hfr as [Hf' He'].
    eapply IH; [exact Hf'|exact He'|]. by apply Hex.
Qed.

(** C02_revert_apply_exact, the exact variant *)
Theorem revert_apply_elements_exact s d :
  exp_inv s → wf_diffs s d → exact_fcs s (d_fc d) →
  ∀ s1, apply_elements s d = Some s1 → revert_elements s1 (rev_diffs d) = Some s.
Proof.
  intros Hinv (Hwsc & Hwsf & Hwfc) Hex s1. unfold apply_elements.
  set (s2 := set_sfe _ _). intros Happ.
  assert (exact_fcs s2 (d_fc d)) as Hex2 by (by eapply exact_fcs_frame; [| |exact Hex]).
  pose proof (revert_apply_fcs_exact (d_fc d) s2 Hinv Hwfc Hex2 s1 Happ) as Hrev.
  unfold revert_elements, rev_diffs. cbn. rewrite Hrev. f_equal.
  apply store_eq; cbn; try done; by rewrite es_exact.
Qed.

Lemma revert_apply_block_exact R s b :
  exp_inv s → block_ok R s b → hgt s = b_h b - 1 →
  (b_h b <= R → exact_fcs s (d_fc (b_d b))) →
  ∀ s1, apply_block R s b = Some s1 → revert_block R s1 b = Some s.
Proof.
  intros Hinv (Hwf & Hnoop & Hfresh) Hh Hex s1. unfold apply_block, revert_block.
  assert (revert_state (apply_state s b) b = s) as Hst.
  { apply store_eq; cbn; try done. by rewrite delete_insert. }
  destruct (N.leb_spec (b_h b) R) as [Hle|Hgt].
  - intros Happ. replace (b_h b - 1 <=? R) with true by (symmetry; apply N.leb_le; lia).
    rewrite (revert_apply_elements_exact (apply_state s b) (b_d b)); try done.
    + by rewrite Hst.
    + by apply Hwf.
    + eapply exact_fcs_frame; [| |exact (Hex Hle)]; done.
  - intros [= <-]. destruct (N.leb_spec (b_h b - 1) R) as [Hl|Hg]; [|by rewrite Hst].
    destruct (Hnoop ltac:(lia)) as (Hnf & Hnsf & Hnsc).
    unfold revert_elements, rev_diffs. cbn. rewrite Hnf. cbn.
    rewrite Hnsf, Hnsc. f_equal. apply store_eq; cbn; try done. by rewrite delete_insert.
Qed.

(** a history in which every reverted block is order-exact on the linear store *)
Fixpoint exact_from (R : N) (st : list blk) (h : list step) : Prop :=
  match h with
  | [] => True
  | SApply b :: r => exact_from R (b :: st) r
  | SRevert b :: r =>
      match st with
      | t :: st' =>
          (∀ sl', linear R (rev st') = Some sl' → b_h b <= R → exact_fcs sl' (d_fc (b_d b))) ∧
          exact_from R st' r
      | [] => False
      end
  end.

Lemma hist_exact R h : ∀ st s,
  stack_ok R st → linear R (rev st) = Some s → exp_inv s → ok_from R st h → exact_from R st h →
  ∀ st', stack_from st h = Some st' → ∃ s', run_from R s h = Some s' ∧ linear R (rev st') = Some s'.
Proof.
  induction h as [|[b|b] r IH]; intros st s Hst Hlin Hinv Hok Hex st' Hstack; cbn in *.
  - injection Hstack as <-. eauto.
  - destruct Hok as [Hb Hok]. destruct (Hb s Hlin) as [Hbok Hhgt].
    assert (sim s s) as Hsim by (by split).
    destruct (apply_block_sim R s s b Hsim Hbok) as (s1 & s1' & Hs1 & Hs1' & Hsim1 & _).
    rewrite Hs1. rewrite Hs1 in Hs1'. injection Hs1' as <-.
    eapply (IH (b :: st) s1); try done.
    + cbn. split; [done|]. exists s. by split_and!.
    + cbn. by rewrite linear_snoc, Hlin.
    + apply Hsim1.
  - destruct st as [|t st0]; [done|]. destruct Hok as (-> & Hne & Hok).
    destruct Hex as [Hexb Hex].
    destruct (blk_eqb b b); [|done].
    destruct Hst as (Hst0 & sl0 & Hl0 & Hinv0 & Hbok & Hh0).
    cbn in Hlin. rewrite linear_snoc, Hl0 in Hlin.
    rewrite (revert_apply_block_exact R sl0 b Hinv0 Hbok (Hh0 Hne) (Hexb sl0 Hl0) s Hlin).
    eapply (IH st0 sl0); done.
Qed.

(** C02_history_independent_partial, the exact part *)
Theorem history_exact R h c :
  ok_from R [] h → exact_from R [] h → chain_of h = Some c →
  ∃ s, run R h = Some s ∧ linear R c = Some s.
Proof.
  intros Hok Hex Hc. unfold chain_of in Hc.
  destruct (stack_from [] h) as [st'|] eqn:Hst; [|done]. injection Hc as <-.
  exact (hist_exact R h [] empty_store I eq_refl exp_inv_empty Hok Hex st' Hst).
Qed.

(** ** The full statement is false of the faithful model (the expiry-order finding, F8) *)
Module Witness.
  (* contracts 1,2,3 (A,B,C) share window end 3; block 12 resolves A by storage proof *)
  Definition b0 := Blk 10 0 (DF [ED 100 1000 true false] []
                               [FD 1 11 3 true None false; FD 2 12 3 true None false;
                                FD 3 13 3 true None false]).
  Definition b1 := Blk 11 1 (DF [] [] []).
  Definition bx := Blk 12 2 (DF [ED 101 1001 true false] [] [FD 1 11 3 false None true]).
  Definition b_y := Blk 13 2 (DF [] [] []).
  Definition R : N := 100.
  Definition hist : list step := [SApply b0; SApply b1; SApply bx; SRevert bx; SApply b_y].
  Definition chain : list blk := [b0; b1; b_y].
End Witness.

Ltac blk_ok :=
  intros sl Hl; vm_compute in Hl; injection Hl as <-;
  split;
  [ split_and!;
    [ intros _; vm_compute; repeat split; try (by left); try (right; by eexists)
    | intros Hx; vm_compute in Hx; discriminate
    | vm_compute; reflexivity ]
  | intros _; vm_compute; reflexivity ].

Lemma witness_ok : ok_from Witness.R [] Witness.hist.
Proof.
  unfold Witness.hist. cbn. split_and!; try done; blk_ok.
Qed.

Definition ids_of (o : option (list (N * (N * N)))) : option (list N) := map fst <$> o.

(** C02_full_statement_refuted *)
Theorem full_statement_refuted :
  ∃ R h c s sl,
    ok_from R [] h ∧ chain_of h = Some c ∧ run R h = Some s ∧ linear R c = Some sl ∧
    exp_get s 3 = [1; 3; 2] ∧ exp_get sl 3 = [1; 2; 3] ∧
    ids_of (supplement_block R s) = Some [1; 3; 2] ∧
    ids_of (supplement_block R sl) = Some [1; 2; 3].
Proof.
  exists Witness.R, Witness.hist, Witness.chain.
  destruct (run Witness.R Witness.hist) as [s|] eqn:Hs; [|by vm_compute in Hs].
  destruct (linear Witness.R Witness.chain) as [sl|] eqn:Hl; [|by vm_compute in Hl].
  exists s, sl. split; [apply witness_ok|]. split; [done|]. split; [done|]. split; [done|].
  vm_compute in Hs. vm_compute in Hl. injection Hs as <-. injection Hl as <-.
  by vm_compute.
Qed.

(** an exact history with a revert of a resolution (first of two), of a creation and of a
    re-windowing: the hypotheses of [history_exact] are satisfiable *)
Module WitnessExact.
  Definition b0 := Blk 10 0 (DF [ED 100 1000 true false] [ED 200 2000 true false]
                               [FD 1 11 3 true None false; FD 2 12 3 true None false]).
  Definition bx := Blk 12 1 (DF [ED 100 1000 false true; ED 101 1001 true false] []
                               [FD 1 11 3 false None true; FD 4 14 3 true None false;
                                FD 2 12 3 false (Some (15, 4)) false]).
  Definition b_y := Blk 13 1 (DF [] [] []).
  Definition hist : list step := [SApply b0; SApply bx; SRevert bx; SApply b_y].
End WitnessExact.

Example history_exact_nonvacuous :
  ok_from 100 [] WitnessExact.hist ∧ exact_from 100 [] WitnessExact.hist ∧
  ∃ s, run 100 WitnessExact.hist = Some s ∧ linear 100 [WitnessExact.b0; WitnessExact.b_y] = Some s.
Proof.
  assert (ok_from 100 [] WitnessExact.hist) as Hok.
  { unfold WitnessExact.hist. cbn. split_and!; try done; blk_ok. }
  assert (exact_from 100 [] WitnessExact.hist) as Hex.
  { unfold WitnessExact.hist. cbn. split; [|done].
    intros sl Hl _. vm_compute in Hl. injection Hl as <-.
    cbn. split.
    { intros _ _. exists [2]. by vm_compute. }
    intros s' Hs'. vm_compute in Hs'. injection Hs' as <-. split.
    { intros ?; done. }
    intros s' Hs'. vm_compute in Hs'. injection Hs' as <-. split; [|done].
    intros _ _. exists [4]. by vm_compute. }
  split; [done|]. split; [done|].
  exact (history_exact 100 WitnessExact.hist _ Hok Hex eq_refl).
Qed.

(** ** A contract revised and resolved by one block (known finding): core then hands the
    store the *revised* contract as the diff's element.  The faithful model panics when the
    revision moved the window end, and otherwise restores the revision on revert. *)
Theorem revised_and_resolved_refuted :
  let s := St ∅ ∅ {[ 1 := (10, 5) ]} {[ 5 := [1] ]} ∅ 0 in
  exp_inv s ∧
  (* the diff's element is the revised contract (payload 11), window end moved to 7 *)
  apply_elements s (DF [] [] [FD 1 11 7 false (Some (11, 7)) true]) = None ∧
  (* same window end: apply works, revert stores the revision (payload 11) *)
  (∃ s1 s2, apply_elements s (DF [] [] [FD 1 11 5 false (Some (11, 5)) true]) = Some s1 ∧
            revert_elements s1 (rev_diffs (DF [] [] [FD 1 11 5 false (Some (11, 5)) true])) = Some s2 ∧
            fce s2 !! 1 = Some (11, 5) ∧ fce s !! 1 = Some (10, 5)).
Proof.
  cbn zeta. split; [|split; [by vm_compute|]].
  - destruct (apply_fcs_spec [FD 1 10 5 true None false] empty_store exp_inv_empty)
      as (s1 & H1 & _ & Hinv & _).
    { cbn. by split_and!. }
    vm_compute in H1. injection H1 as <-. exact Hinv.
  - eexists _, _. split; [by vm_compute|]. split; [by vm_compute|]. by vm_compute.
Qed.

(** ** The supplements are functions of the buckets *)
Lemma mapM_perm {A B} (f : A → option B) l l' :
  l ≡ₚ l' → ∀ k, mapM f l = Some k → ∃ k', mapM f l' = Some k' ∧ k ≡ₚ k'.
Proof.
  induction 1 as [|x l l' Hp IH|x y l|l1 l2 l3 H12 IH12 H23 IH23]; intros k Hk.
  - exists k. done.
  - cbn in *. destruct (f x) as [b|]; [|done]. cbn in *.
    destruct (mapM f l) as [k0|] eqn:E; [|done]. cbn in Hk. injection Hk as <-.
    destruct (IH k0 eq_refl) as (k' & -> & Hk'). cbn. eexists. split; [done|]. by constructor.
  - cbn in *. destruct (f y) as [b|]; [|done]. destruct (f x) as [a|]; [|done]. cbn in *.
    destruct (mapM f l) as [k0|]; [|done]. cbn in *. injection Hk as <-.
    eexists. split; [done|]. apply perm_swap.
  - destruct (IH12 k Hk) as (k2 & H2 & Hp2). destruct (IH23 k2 H2) as (k3 & H3 & Hp3).
    exists k3. split; [done|]. by etrans.
Qed.

(** C02_supplements_independent *)
Theorem supplements_independent R s s' :
  sce s = sce s' → sfe s = sfe s' → fce s = fce s' → hgt s = hgt s' →
  (∀ k, exp_get s k ≡ₚ exp_get s' k) →
  (∀ p, supplement_txn R s p = supplement_txn R s' p) ∧
  (∀ l, supplement_block R s = Some l → ∃ l', supplement_block R s' = Some l' ∧ l ≡ₚ l') ∧
  ((∀ k, exp_get s k = exp_get s' k) → supplement_block R s = supplement_block R s').
Proof.
  intros Hsc Hsf Hfc Hh Hp. split_and!.
  - intros p. unfold supplement_txn. by rewrite Hsc, Hsf, Hfc, Hh.
  - intros l. unfold supplement_block. rewrite <- Hh, <- Hfc.
    destruct (R <=? hgt s + 1); [intros [= <-]; by exists []|].
    intros Hm. by apply (mapM_perm _ _ _ (Hp (hgt s + 1))).
  - intros He. unfold supplement_block. by rewrite <- Hh, <- Hfc, He.
Qed.

(** what a store that went through any admissible history serves from its buckets is what
    the linear store of its chain serves (expiring contracts up to their order) *)
Corollary history_supplements R h c :
  ok_from R [] h → chain_of h = Some c →
  ∃ s sl, run R h = Some s ∧ linear R c = Some sl ∧
    (∀ p, supplement_txn R s p = supplement_txn R sl p) ∧
    (∀ l, supplement_block R s = Some l → ∃ l', supplement_block R sl = Some l' ∧ l ≡ₚ l').
Proof.
  intros Hok Hc.
  destruct (history_independent R h c Hok Hc) as (s & sl & Hs & Hl & ? & ? & ? & ? & ? & Hp).
  exists s, sl. split; [done|]. split; [done|].
  destruct (supplements_independent R s sl) as (Ha & Hb & _); done.
Qed.

(** C02_expiry_order_exact_iff, for the list operations *)
Theorem expiry_order_exact_iff :
  (* append (apply of a creation / new window) then delete (its revert) is exact *)
  (∀ l x, x ∉ l → ∃ i, index_of x (l ++ [x]) = Some i ∧ swap_remove i (l ++ [x]) = l) ∧
  (* delete (apply of a resolution / old window) then prepend (its revert) *)
  (∀ l i x, NoDup l → index_of x l = Some i →
     (x :: swap_remove i l = l ↔ i = 0%nat ∧ (length l ≤ 2)%nat)) ∧
  (* a block that removes the whole list (expiry), reverted with reversed diffs *)
  (∀ l, NoDup l → delete_all l l = Some [] ∧ fold_left (λ acc x, x :: acc) (rev l) [] = l).
Proof.
  split_and!.
  - intros l x Hn. exists (length l). by apply append_delete_exact.
  - intros l i x Hnd Hi. apply delete_prepend_exact_iff; [done|]. by apply index_of_Some.
  - apply expiry_revert_exact.
Qed.

(** ** getElementProof: see Chain/AccumProofs.v for [get_proof_reads_live] (unbounded) *)
(** with one entry more (bits.Len64 without the -1) the first proof already reads a node
    that is not live *)
Example proof_len_off_by_one_reads_stale :
  let reads := map (λ i, (i, sibling 0 i)) (nrange (N.size (N.lxor 0 1))) in
  reads = [(0, 1)] ∧ live 1 0 1 = false.
Proof. by vm_compute. Qed.
