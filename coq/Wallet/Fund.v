(** * Wallet/Fund.v — input selection and reservation of wallet.SingleAddressWallet (C07)

    Executable model, no proofs.  Transcribed from /repo/wallet/wallet.go *with the
    three repairs* "fix: selectUTXOs must not defrag outputs it already selected" (F4),
    "fix: SpendableOutputs must exclude outputs spent by v2 pool transactions" (F5) and
    "fix: do not fund with unconfirmed outputs of the other transaction version".  The pre-repair selection is kept as [select_utxos_prefix] (used only by the
    refutation lemma in FundProofs.v).

    One call of an exported wallet method = one [step]: every such method holds
    [sw.mu] for the whole call (checked by the harness' go/ast lint), so every
    interleaving of concurrent calls is a sequence of steps (DESIGN 3.4).

    Vocabulary: output ids are numbers (renamed by the harness in order of first
    appearance), values are [Z] (hastings), heights and times are [N] (times in
    microseconds since the start of the case), the reservation period is [N].
    What the chain and the pool do (blocks, pool admission and eviction, what is in
    the pool after a restart) is input: [Mine], [PoolAdd], [PoolRemove], [Restart]
    carry the observed change, the wallet's reaction to it is computed.  [Mine] is the
    wallet store applying one block (UpdateChainState); a block that has reached the
    manager but not yet the store shows only through [PoolRemove] (sync-lag window). *)
From stdpp Require Import gmap.
From Coq Require Import ZArith NArith List.
Import ListNotations.

Record utxo := mk_utxo { u_id : N; u_val : Z; u_mat : N }.

(** the public options of wallet/config.go *)
Record cfg := mk_cfg {
  c_thresh : Z;      (* WithDefragThreshold *)
  c_maxin : Z;       (* WithMaxInputsForDefrag *)
  c_maxdefrag : N;   (* WithMaxDefragUTXOs (a negative value panics in Go: slice bounds) *)
  c_resv : N }.      (* WithReservationDuration, > 0 *)

(** an output created by a pool transaction; [o_own]: paid to the wallet's address *)
Record pout := mk_pout { o_id : N; o_val : Z; o_own : bool }.
(** a pool transaction as the wallet looks at it: the ids it spends, what it creates *)
Record ptx := mk_ptx { p_id : N; p_v2 : bool; p_ins : list N; p_outs : list pout }.

Record state := mk_state {
  utxos : gmap N (Z * N);  (* store.UnspentSiacoinElements: id -> (value, maturity height) *)
  tip_h : N;               (* height of the store's tip; the manager may be ahead (its blocks
                              then show only as pool changes until [Mine] applies them) *)
  now : N;                 (* time.Now() *)
  locked : gmap N N;       (* sw.locked: id -> expiry  (wallet.go:113-118) *)
  pool : list ptx;         (* the manager's pool, in order of admission *)
  conf : cfg }.

Definition set_locked (s : state) (l : gmap N N) : state :=
  mk_state (utxos s) (tip_h s) (now s) l (pool s) (conf s).
Definition set_pool (s : state) (p : list ptx) : state :=
  mk_state (utxos s) (tip_h s) (now s) (locked s) p (conf s).

(** SumOutputs (wallet.go:1066) *)
Definition sum_vals (l : list utxo) : Z := fold_right (λ u a, (u_val u + a)%Z) 0%Z l.

(** the slice returned by [store.UnspentSiacoinElements] (a Go map: arbitrary order) *)
Definition elements (s : state) : list utxo :=
  map (λ kv, mk_utxo kv.1 kv.2.1 kv.2.2) (map_to_list (utxos s)).

(** cm.PoolTransactions() followed by cm.V2PoolTransactions() *)
Definition pool_list (s : state) : list ptx :=
  List.filter (λ t, negb (p_v2 t)) (pool s) ++ List.filter p_v2 (pool s).

(** [tpoolSpent] (wallet.go:291-315) *)
Definition pool_spent (s : state) : gset N := list_to_set (concat (map p_ins (pool_list s))).
Definition is_pool_spent (s : state) (i : N) : bool := bool_decide (i ∈ pool_spent s).

(** [tpoolUtxos]: inputs are deleted, outputs inserted, transaction by transaction.
    [keep]: whose outputs are inserted at all (selectUTXOs only inserts the outputs of
    pool transactions of the version being funded - third repair).  The map value is
    (value, owned by the wallet, created by a v2 transaction). *)
Definition tp_add (keep : ptx → bool) (m : gmap N (Z * bool * bool)) (t : ptx)
  : gmap N (Z * bool * bool) :=
  let m' := fold_left (λ m i, delete i m) (p_ins t) m in
  if keep t then fold_left (λ m o, <[o_id o := (o_val o, o_own o, p_v2 t)]> m) (p_outs t) m'
  else m'.
Definition pool_created_for (keep : ptx → bool) (s : state) : gmap N (Z * bool * bool) :=
  fold_left (tp_add keep) (pool_list s) ∅.
Definition pool_created (s : state) : gmap N (Z * bool * bool) :=
  pool_created_for (λ _, true) s.
(** (output, owned, created by a v2 transaction) *)
Definition unconf_list (m : gmap N (Z * bool * bool)) : list (utxo * bool * bool) :=
  map (λ kv, (mk_utxo kv.1 kv.2.1.1 0, kv.2.1.2, kv.2.2)) (map_to_list m).
Definition unconfirmed_all (s : state) : list (utxo * bool * bool) :=
  unconf_list (pool_created s).

(** isLocked (wallet.go:822): time.Now().Before(sw.locked[id]) *)
Definition is_locked (s : state) (i : N) : bool :=
  match locked s !! i with Some e => (now s <? e)%N | None => false end.

(** sort.Slice(utxos, value descending) as an insertion sort *)
Fixpoint insert_desc (u : utxo) (l : list utxo) : list utxo :=
  match l with
  | [] => [u]
  | x :: l' => if (u_val u >? u_val x)%Z then u :: l else x :: insert_desc u l'
  end.
Definition sort_desc (l : list utxo) : list utxo := fold_right insert_desc [] l.

(** ** selectUTXOs (wallet.go:281-404) *)

(** "remove immature, locked and spent outputs" (317-330), then sorted (333) *)
Definition in_use (s : state) (ps : gset N) (i : N) : bool :=
  is_locked s i || bool_decide (i ∈ ps).
Definition eligible (s : state) : list utxo :=
  let ps := pool_spent s in
  List.filter (λ u, negb (in_use s ps (u_id u)) && negb (tip_h s <? u_mat u)%N) (elements s).

(** unconfirmed candidates (337-352): created by a pool transaction of the version
    being funded, owned, not locked *)
Definition unconfirmed (s : state) (v2 : bool) : list utxo :=
  sort_desc (map (λ x, x.1.1)
    (List.filter (λ x, x.1.2 && negb (is_locked s (u_id x.1.1)))
                 (unconf_list (pool_created_for (λ t, Bool.eqb (p_v2 t) v2) s)))).

(** "fund the transaction using the largest utxos first" (355-364); returns what was
    selected, what is left for defragmentation, and the input sum *)
Fixpoint take_until (amount : Z) (l : list utxo) (sum : Z) : list utxo * list utxo * Z :=
  match l with
  | [] => ([], [], sum)
  | u :: l' =>
      if (sum >=? amount)%Z then ([], l, sum)
      else let '(sel, rest, sum') := take_until amount l' (sum + u_val u)%Z in
           (u :: sel, rest, sum')
  end.

(** "try adding unconfirmed utxos" (368-374) *)
Fixpoint add_unconfirmed (amount : Z) (l : list utxo) (sum : Z) : list utxo * Z :=
  match l with
  | [] => ([], sum)
  | u :: l' =>
      let sum' := (sum + u_val u)%Z in
      if (sum' >=? amount)%Z then ([u], sum')
      else let '(sel, sum'') := add_unconfirmed amount l' sum' in (u :: sel, sum'')
  end.

(** the defrag loop (392-401) over the reversed [defraggable] *)
Fixpoint defrag_loop (maxin : Z) (rd : list utxo) (n : Z) : list utxo :=
  match rd with
  | [] => []
  | u :: rd' => if (n >=? maxin)%Z then [] else u :: defrag_loop maxin rd' (n + 1)%Z
  end.

(** "check if remaining utxos should be defragged" (384-402) *)
Definition defrag (c : cfg) (txn_inputs : Z) (rest : list utxo) : list utxo :=
  if (Z.of_nat (length rest) >? c_thresh c)%Z && (txn_inputs <? c_maxin c)%Z then
    let d := if (Z.of_nat (length rest) >? Z.of_N (c_maxdefrag c))%Z
             then skipn (length rest - N.to_nat (c_maxdefrag c)) rest else rest in
    defrag_loop (c_maxin c) (rev d) txn_inputs
  else [].

(** what the selection loop and the error returns yield before defragmentation:
    [None] is ErrNotEnoughFunds *)
Definition select_core (s : state) (amount : Z) (unc v2 : bool) (sel : list utxo) (sum : Z)
  : option (list utxo * Z) :=
  if (sum <? amount)%Z && unc then
    let '(usel, sum') := add_unconfirmed amount (unconfirmed s v2) sum in
    if (sum' <? amount)%Z then None else Some (sel ++ usel, sum')
  else if (sum <? amount)%Z then None
  else Some (sel, sum).

Definition select_utxos (s : state) (amount : Z) (inputs : N) (unc v2 : bool)
  : option (list utxo * Z) :=
  if (amount =? 0)%Z then Some ([], 0%Z) else
  let '(sel, rest, sum) := take_until amount (sort_desc (eligible s)) 0%Z in
  match select_core s amount unc v2 sel sum with
  | None => None
  | Some (sel', sum') =>
      let d := defrag (conf s) (Z.of_N inputs + Z.of_nat (length sel'))%Z rest in
      Some (sel' ++ d, (sum' + sum_vals d)%Z)
  end.

(** The selection before the repair (wallet.go at f42cf7a, lines 357-364): [utxos] was
    re-sliced only inside the [break], so when the loop ran to the end of the slice
    the defrag step saw the *whole* candidate list again. *)
Definition select_utxos_prefix (s : state) (amount : Z) (inputs : N) (unc v2 : bool)
  : option (list utxo * Z) :=
  if (amount =? 0)%Z then Some ([], 0%Z) else
  let all := sort_desc (eligible s) in
  let '(sel, rest, sum) := take_until amount all 0%Z in
  let rest := match rest with [] => all | _ => rest end in
  match select_core s amount unc v2 sel sum with
  | None => None
  | Some (sel', sum') =>
      let d := defrag (conf s) (Z.of_N inputs + Z.of_nat (length sel'))%Z rest in
      Some (sel' ++ d, (sum' + sum_vals d)%Z)
  end.

(** ** Reservations *)

(** cleanLockedUTXOs (409-415): delete when time.Now().After(expiration) *)
Definition clean_locked (s : state) : gmap N N :=
  base.filter (λ kv : N * N, (now s ≤ kv.2)%N) (locked s).

(** lockUTXOs (420-429) *)
Definition lock_utxos (s : state) (ids : list N) : state :=
  let l := clean_locked s in
  match ids with
  | [] => set_locked s l
  | _ => set_locked s (fold_left (λ m i, <[i := (now s + c_resv (conf s))%N]> m) ids l)
  end.

(** ReleaseInputs (803-818) *)
Definition release (s : state) (ids : list N) : state :=
  let s' := set_locked s (fold_left (λ m i, delete i m) ids (locked s)) in
  set_locked s' (clean_locked s').

(** ** Results *)
Record rtx := mk_rtx { r_ins : list N; r_nout : Z; r_change : Z; r_fee : Z }.

Inductive res :=
| RErr                                       (* the call returned an error *)
| RFund (sel : list N) (change : Z) (basis : N)
    (* inputs appended, change output (0: none), height of the returned basis: the tip of
       the store snapshot the inputs and their proofs were taken from *)
| RRedist (txs : list rtx)                   (* Redistribute: one entry per transaction *)
| RSplit (r : option (N * list Z))           (* SplitUTXO: None = nothing to do *)
| RUnit.

(** FundTransaction (435-468) and FundV2Transaction (497-531): the same code around
    selectUTXOs for the two transaction types ([v2] only decides which unconfirmed
    outputs are candidates) *)
Definition fund (s : state) (v2 : bool) (amount : Z) (existing : N) (unc : bool)
  : state * res :=
  if (amount =? 0)%Z then (s, RFund [] 0%Z (tip_h s)) else
  match select_utxos s amount existing unc v2 with
  | None => (s, RErr)
  | Some (sel, sum) =>
      (lock_utxos s (map u_id sel),
       RFund (map u_id sel) (if (sum >? amount)%Z then (sum - amount)%Z else 0%Z) (tip_h s))
  end.

(** ** Redistribute (662-798) *)

(** selectRedistributeUTXOs: the usable outputs that do not already have the wanted
    value, descending, and the number of outputs still wanted *)
Definition redist_usable (s : state) : list utxo :=
  let ps := pool_spent s in
  List.filter (λ u, negb (in_use s ps (u_id u)) && (u_mat u <=? tip_h s)%N) (elements s).
Definition redist_candidates (s : state) (outputs amount : Z) : list utxo * Z :=
  let us := redist_usable s in
  (sort_desc (List.filter (λ u, negb (u_val u =? amount)%Z) us),
   (outputs - Z.of_nat (length (List.filter (λ u, (u_val u =? amount)%Z) us)))%Z).

(** "collect outputs that cover the total amount" (746-754); [n], [sum]: inputs so far *)
Fixpoint collect (want fee_in fee_out : Z) (l : list utxo) (n sum : Z) : list utxo :=
  match l with
  | [] => []
  | u :: l' =>
      let n' := (n + 1)%Z in let sum' := (sum + u_val u)%Z in
      if (sum' >? want + (fee_in * n' + fee_out))%Z then [u]
      else u :: collect want fee_in fee_out l' n' sum'
  end.

Definition batch : Z := 10. (* redistributeBatchSize *)

(** the [for outputs > 0] loop (731-794).  [fee_out k] is
    feePerByte * V2TransactionWeight(k outputs), [fee_in] is feePerByte * bytesPerInput.
    Result: [None] = out of fuel (excluded by [redist_fuel_enough] in FundProofs.v),
    [Some None] = ErrNotEnoughFunds, [Some (Some txs)] = the transactions built, each
    with its inputs. *)
Fixpoint redist_loop (fuel : nat) (outputs amount fee_in : Z) (fee_out : Z → Z)
    (us : list utxo) (txs : list (list utxo * rtx)) : option (option (list (list utxo * rtx))) :=
  if (outputs <=? 0)%Z then Some (Some txs) else
  match fuel with
  | O => None
  | S fuel' =>
      let k := Z.min outputs batch in
      let ofee := fee_out k in
      let want := (amount * k)%Z in
      let ins := collect want fee_in ofee us 0%Z 0%Z in
      let fee := (fee_in * Z.of_nat (length ins) + ofee)%Z in
      let sum := sum_vals ins in
      if (sum <? want + fee)%Z then
        match txs with [] => Some None | _ => Some (Some txs) end
      else
        redist_loop fuel' (outputs - k)%Z amount fee_in fee_out (skipn (length ins) us)
          (txs ++ [(ins, mk_rtx (map u_id ins) k (sum - (want + fee))%Z fee)])
  end.

Definition redistribute (s : state) (outputs amount fee_in : Z) (fee_out : list Z)
  : state * res :=
  let '(us, outputs') := redist_candidates s outputs amount in
  if (outputs' <=? 0)%Z then (s, RRedist []) else
  match redist_loop (Z.to_nat outputs') outputs' amount fee_in
          (λ k, nth (Z.to_nat k) fee_out 0%Z) us [] with
  | None => (s, RErr) (* out of fuel: excluded by [redist_fuel_enough] *)
  | Some None => (s, RErr)
  | Some (Some txs) =>
      (lock_utxos s (concat (map (λ t, r_ins t.2) txs)), RRedist (map snd txs))
  end.

(** ** SplitUTXO (859-998) *)

(** the running maximum; the initial [largest] is the zero element (value 0) *)
Definition pick_largest (cands : list utxo) (cur : option utxo) : option utxo :=
  fold_left (λ cur u,
    if (u_val u >? match cur with Some c => u_val c | None => 0 end)%Z then Some u else cur)
    cands cur.

Definition split_conf_cands (s : state) (min_amount : Z) : list utxo :=
  let ps := pool_spent s in
  List.filter (λ u, negb (in_use s ps (u_id u))
                    && negb (tip_h s <? u_mat u)%N && negb (u_val u <? min_amount)%Z)
              (elements s).
(** (930-938, third repair): every owned unconfirmed output counts, only those created
    by v2 transactions can become [largest] *)
Definition split_unc_cands (s : state) (min_amount : Z) : list (utxo * bool * bool) :=
  List.filter (λ x, x.1.2 && negb (is_locked s (u_id x.1.1))
                    && negb (u_val x.1.1 <? min_amount)%Z) (unconfirmed_all s).

(** output values of the split transaction (971-982) *)
Definition split_outs (input remainder : Z) : list Z :=
  let per := (input / remainder)%Z in
  repeat per (Z.to_nat remainder - 1) ++ [(per + (input - per * remainder))%Z].

(** BroadcastV2TransactionSet + lockUTXOs (993-996) *)
Definition split_commit (s : state) (input : N) (outs : list Z) (txid : N) (new_ids : list N)
  : state :=
  let t := mk_ptx txid true [input]
             (map (λ iv, mk_pout iv.1 iv.2 true) (combine new_ids outs)) in
  lock_utxos (set_pool s (pool s ++ [t])) [input].

(** [fee] = RecommendedFee * 2000; [txid], [new_ids]: ids of the broadcast transaction
    and of its outputs (hashes: supplied by the harness).  The transaction is added to
    the pool (BroadcastV2TransactionSet) and its input reserved. *)
Definition split (s : state) (n min_amount fee : Z) (txid : N) (new_ids : list N)
  : state * res :=
  if (c_thresh (conf s) <? n)%Z then (s, RErr) else
  if (min_amount =? 0)%Z then (s, RErr) else
  if (n <=? 1)%Z then (s, RErr) else
  match elements s with [] => (s, RErr) | _ =>
  let cc := split_conf_cands s min_amount in
  let uc := split_unc_cands s min_amount in
  let above := Z.of_nat (length cc + length uc) in
  match pick_largest (map (λ x, x.1.1) (List.filter snd uc)) (pick_largest cc None) with
  | None => (s, RErr)   (* largest.Value = 0 <= minerFee *)
  | Some l =>
      if (u_val l <=? fee)%Z then (s, RErr) else
      if (above >=? n)%Z then (s, RSplit None) else
      let remainder := (n - above + 1)%Z in
      let input := (u_val l - fee)%Z in
      if (input / remainder <? min_amount)%Z then (s, RErr) else
      let outs := split_outs input remainder in
      (split_commit s (u_id l) outs txid new_ids, RSplit (Some (u_id l, outs)))
  end end.

(** ** The three views *)
Record bal := mk_bal { b_spendable : Z; b_confirmed : Z; b_unconfirmed : Z; b_immature : Z }.

(** Balance (165-231, with the fourth repair: maturity is judged at the store's tip, the
    snapshot the outputs come from, not at the manager's height) *)
Definition bal_add (s : state) (ps : gset N) (b : bal) (u : utxo) : bal :=
  if (tip_h s <? u_mat u)%N then
    mk_bal (b_spendable b) (b_confirmed b) (b_unconfirmed b) (b_immature b + u_val u)%Z
  else if negb (is_locked s (u_id u)) && negb (bool_decide (u_id u ∈ ps)) then
    mk_bal (b_spendable b + u_val u)%Z (b_confirmed b + u_val u)%Z (b_unconfirmed b) (b_immature b)
  else
    mk_bal (b_spendable b) (b_confirmed b + u_val u)%Z (b_unconfirmed b) (b_immature b).
Definition balance (s : state) : bal :=
  let b := fold_left (bal_add s (pool_spent s)) (elements s) (mk_bal 0 0 0 0) in
  mk_bal (b_spendable b) (b_confirmed b)
         (sum_vals (map (λ x, x.1.1) (List.filter (λ x, x.1.2) (unconfirmed_all s))))
         (b_immature b).

(** SpendableOutputs (252-279, with the v2 pool loop of the repair) *)
Definition spendable_outputs (s : state) : list utxo :=
  let ps := pool_spent s in
  List.filter (λ u, negb (in_use s ps (u_id u) || (tip_h s <? u_mat u)%N)) (elements s).

(** ** Operations *)
Inductive op :=
| Fund (v2 : bool) (amount : Z) (existing : N) (unc : bool)
| Redistribute (outputs amount fee_in : Z) (fee_out : list Z)
| Split (n min_amount fee : Z) (txid : N) (new_ids : list N)
| Release (ids : list N)
| Tick (d : N)
| PoolAdd (t : ptx)
| PoolRemove (id : N)
| Mine (spent : list N) (created : list utxo)
| Restart (readded : list ptx).

Definition step (s : state) (o : op) : state * res :=
  match o with
  | Fund v2 amount existing unc => fund s v2 amount existing unc
  | Redistribute outputs amount fee_in fee_out => redistribute s outputs amount fee_in fee_out
  | Split n min_amount fee txid new_ids => split s n min_amount fee txid new_ids
  | Release ids => (release s ids, RUnit)
  | Tick d => (mk_state (utxos s) (tip_h s) (now s + d)%N (locked s) (pool s) (conf s), RUnit)
  | PoolAdd t => (set_pool s (pool s ++ [t]), RUnit)
  | PoolRemove id => (set_pool s (List.filter (λ t, negb (p_id t =? id)%N) (pool s)), RUnit)
  | Mine spent created =>
      (mk_state (fold_left (λ m u, <[u_id u := (u_val u, u_mat u)]> m) created
                           (fold_left (λ m i, delete i m) spent (utxos s)))
                (tip_h s + 1)%N (now s) (locked s) (pool s) (conf s), RUnit)
  | Restart readded =>
      (* NewSingleAddressWallet (1075-1121): a fresh [locked]; the pool holds what the
         manager accepted of the persisted broadcast sets *)
      (mk_state (utxos s) (tip_h s) (now s) ∅ readded (conf s), RUnit)
  end.

(** ** Outstanding funded transactions (ghost state: what callers hold) *)
Record ftx := mk_ftx { f_ins : list N; f_exp : N }.

Definition res_txs (r : res) : list (list N) :=
  match r with
  | RFund sel _ _ => [sel]
  | RRedist txs => map r_ins txs
  | RSplit (Some (i, _)) => [[i]]
  | _ => []
  end.

Definition mem_N (i : N) (l : list N) : bool := existsb (N.eqb i) l.

(** a funded transaction stops being outstanding when any of its inputs is handed to
    ReleaseInputs, when the wallet restarts ([locked] lives in memory only), or when
    its reservation period has passed *)
Definition gstep (sg : state * list ftx) (o : op) : (state * list ftx) * res :=
  let '(s', r) := step sg.1 o in
  let g' := match o with
            | Release ids => List.filter (λ f, forallb (λ i, negb (mem_N i ids)) (f_ins f)) sg.2
            | Restart _ => []
            | _ => sg.2
            end in
  ((s', g' ++ map (λ ins, mk_ftx ins (now sg.1 + c_resv (conf sg.1))%N) (res_txs r)), r).

Definition grun (sg : state * list ftx) (ops : list op) : state * list ftx :=
  fold_left (λ sg o, (gstep sg o).1) ops sg.

Definition outstanding (sg : state * list ftx) : list ftx :=
  List.filter (λ f, (now sg.1 <? f_exp f)%N) sg.2.
