(** * Wallet/FundProofs.v — proofs about the model of Wallet/Fund.v (C07) *)
From Coq Require Import ZArith NArith List Lia.
From stdpp Require Import gmap.
From CV Require Import Wallet.Fund.
Import ListNotations.

Local Open Scope Z_scope.

(** ** Lists *)
Lemma map_fmap {A B} (f : A → B) (l : list A) : map f l = f <$> l.
Proof. induction l as [|a l IH]; simpl; [done|by rewrite IH]. Qed.

Lemma elem_of_lfilter {A} (f : A → bool) (l : list A) x :
  x ∈ List.filter f l ↔ f x = true ∧ x ∈ l.
Proof. rewrite !elem_of_list_In, filter_In. tauto. Qed.

Lemma elem_of_map {A B} (f : A → B) (l : list A) y :
  y ∈ map f l ↔ ∃ x, y = f x ∧ x ∈ l.
Proof. rewrite map_fmap. apply elem_of_list_fmap. Qed.

Lemma NoDup_map_filter {A B} (g : A → B) (f : A → bool) (l : list A) :
  NoDup (map g l) → NoDup (map g (List.filter f l)).
Proof.
  induction l as [|a l IH]; simpl; [done|].
  intros [Hn Hd]%NoDup_cons. destruct (f a); simpl; [|by apply IH].
  apply NoDup_cons; split; [|by apply IH].
  intros (x & Hx & [_ Hin]%elem_of_lfilter)%elem_of_map.
  apply Hn, elem_of_map. eauto.
Qed.

Lemma lfilter_ext {A} (f g : A → bool) (l : list A) :
  (∀ x, x ∈ l → f x = g x) → List.filter f l = List.filter g l.
Proof.
  induction l as [|a l IH]; simpl; [done|]. intros H.
  rewrite (H a) by left. rewrite IH; [done|]. intros x Hx. apply H. by right.
Qed.

Lemma lfilter_comm {A} (f g : A → bool) (l : list A) :
  List.filter f (List.filter g l) = List.filter g (List.filter f l).
Proof.
  induction l as [|a l IH]; simpl; [done|].
  destruct (f a) eqn:Hf, (g a) eqn:Hg; simpl; rewrite ?Hf, ?Hg, IH; done.
Qed.

Lemma lfilter_lfilter_impl {A} (f g : A → bool) (l : list A) :
  (∀ x, f x = true → g x = true) → List.filter f (List.filter g l) = List.filter f l.
Proof.
  intros H. induction l as [|a l IH]; simpl; [done|].
  destruct (g a) eqn:Hg; simpl.
  - by rewrite IH.
  - destruct (f a) eqn:Hf; [|done]. apply H in Hf. congruence.
Qed.

Lemma sum_vals_app l k : sum_vals (l ++ k) = sum_vals l + sum_vals k.
Proof. induction l; simpl; lia. Qed.

Lemma sum_vals_perm l k : l ≡ₚ k → sum_vals l = sum_vals k.
Proof. induction 1; simpl; lia. Qed.

Lemma sum_vals_nonneg l : (∀ u, u ∈ l → 0 ≤ u_val u) → 0 ≤ sum_vals l.
Proof.
  induction l as [|a l IH]; simpl; [lia|]. intros H.
  pose proof (H a ltac:(left)). pose proof (IH (λ u Hu, H u ltac:(by right))). lia.
Qed.

(** ** The sort *)
Lemma insert_desc_perm u l : insert_desc u l ≡ₚ u :: l.
Proof.
  induction l as [|x l IH]; simpl; [done|].
  destruct (u_val u >? u_val x); [done|]. rewrite IH. apply Permutation_swap.
Qed.

Lemma sort_desc_perm l : sort_desc l ≡ₚ l.
Proof.
  induction l as [|x l IH]; simpl; [done|]. by rewrite insert_desc_perm, IH.
Qed.

Lemma elem_of_sort_desc l u : u ∈ sort_desc l ↔ u ∈ l.
Proof. by rewrite sort_desc_perm. Qed.

Lemma map_perm {A B} (f : A → B) l k : l ≡ₚ k → map f l ≡ₚ map f k.
Proof. rewrite !map_fmap. by intros ->. Qed.

(** the result is ordered: values descend *)
Inductive desc : list utxo → Prop :=
| desc_nil : desc []
| desc_cons u l : (∀ x, x ∈ l → u_val x ≤ u_val u) → desc l → desc (u :: l).

Lemma insert_desc_desc u l : desc l → desc (insert_desc u l).
Proof.
  induction 1 as [|x l Hx Hl IH]; simpl.
  - constructor; [by intros ? ?%elem_of_nil | constructor].
  - destruct (u_val u >? u_val x) eqn:E.
    + constructor; [|by constructor].
      intros y [->|Hy]%elem_of_cons; [lia|]. specialize (Hx _ Hy). lia.
    + constructor; [|done].
      intros y Hy. rewrite insert_desc_perm in Hy.
      apply elem_of_cons in Hy as [->|Hy]; [lia|by apply Hx].
Qed.

Lemma sort_desc_desc l : desc (sort_desc l).
Proof. induction l; simpl; [constructor|by apply insert_desc_desc]. Qed.

(** ** The stored outputs *)
Lemma elem_of_elements s u :
  u ∈ elements s ↔ utxos s !! u_id u = Some (u_val u, u_mat u).
Proof.
  unfold elements. rewrite elem_of_map. split.
  - intros ([i [v m]] & -> & H%elem_of_map_to_list). done.
  - intros H. exists (u_id u, (u_val u, u_mat u)). split; [by destruct u|].
    by apply elem_of_map_to_list.
Qed.

Lemma NoDup_elements s : NoDup (map u_id (elements s)).
Proof.
  unfold elements. rewrite map_map. simpl.
  replace (map (λ x : N * (Z * N), x.1) (map_to_list (utxos s))) with ((map_to_list (utxos s)).*1)
    by (symmetry; apply map_fmap).
  apply NoDup_fst_map_to_list.
Qed.

(** ** Pool views *)
Lemma elem_of_concat {A} (ls : list (list A)) x : x ∈ concat ls ↔ ∃ l, l ∈ ls ∧ x ∈ l.
Proof.
  rewrite elem_of_list_In, in_concat. split; intros (l & H1 & H2); exists l.
  - by rewrite !elem_of_list_In.
  - by rewrite <- !elem_of_list_In.
Qed.

Lemma elem_of_pool_list s t : t ∈ pool_list s ↔ t ∈ pool s.
Proof.
  unfold pool_list. rewrite elem_of_app, !elem_of_lfilter.
  destruct (p_v2 t); simpl; intuition congruence.
Qed.

Lemma elem_of_pool_spent s i :
  i ∈ pool_spent s ↔ ∃ t, t ∈ pool s ∧ i ∈ p_ins t.
Proof.
  unfold pool_spent. rewrite elem_of_list_to_set, elem_of_concat. split.
  - intros (l & (t & -> & Ht)%elem_of_map & Hi). exists t. by rewrite <- elem_of_pool_list.
  - intros (t & Ht & Hi). exists (p_ins t). split; [|done].
    apply elem_of_map. exists t. by rewrite elem_of_pool_list.
Qed.

(** ** Sub-multisets: how the pieces of a selection sit inside the candidate lists *)
Lemma submseteq_NoDup {A} (l k : list A) : l ⊆+ k → NoDup k → NoDup l.
Proof.
  intros [r Hr]%submseteq_Permutation. rewrite Hr. by intros [? _]%NoDup_app.
Qed.

Lemma sub_NoDup_map {A B} (f : A → B) (l k : list A) :
  l ⊆+ k → NoDup (map f k) → NoDup (map f l).
Proof.
  rewrite !map_fmap. intros H. apply submseteq_NoDup. by apply fmap_submseteq.
Qed.

Lemma submseteq_app_prefix {A} (l a b : list A) : l = a ++ b → a ⊆+ l.
Proof. intros ->. by apply submseteq_inserts_r. Qed.

Lemma submseteq_app_suffix {A} (l a b : list A) : l = a ++ b → b ⊆+ l.
Proof. intros ->. by apply submseteq_inserts_l. Qed.

Lemma rev_perm {A} (l : list A) : rev l ≡ₚ l.
Proof. symmetry. apply Permutation_rev. Qed.

(** ** The selection loop *)
Lemma take_until_spec a l s0 sel rest sum :
  take_until a l s0 = (sel, rest, sum) → l = sel ++ rest ∧ sum = s0 + sum_vals sel.
Proof.
  revert s0 sel rest sum. induction l as [|u l IH]; simpl; intros s0 sel rest sum H.
  - inversion H; subst. simpl. split; [done|lia].
  - destruct (s0 >=? a). { inversion H; subst. simpl. split; [done|lia]. }
    destruct (take_until a l (s0 + u_val u)) as [[sel' rest'] sum'] eqn:E.
    inversion H; subst. apply IH in E as [-> ->]. simpl. split; [done|lia].
Qed.

(** when the amount is not reached every candidate was consumed *)
Lemma take_until_short a l s0 sel rest sum :
  take_until a l s0 = (sel, rest, sum) → sum < a → rest = [].
Proof.
  revert s0 sel rest sum. induction l as [|u l IH]; simpl; intros s0 sel rest sum H Hlt.
  - by inversion H.
  - destruct (s0 >=? a) eqn:E0. { inversion H; subst. lia. }
    destruct (take_until a l (s0 + u_val u)) as [[sel' rest'] sum'] eqn:E.
    inversion H; subst. eauto.
Qed.

(** with non-negative values, the loop reaches the amount iff the whole list does *)
Lemma take_until_total a l s0 sel rest sum :
  (∀ u, u ∈ l → 0 ≤ u_val u) → take_until a l s0 = (sel, rest, sum) →
  (sum <? a) = (s0 + sum_vals l <? a).
Proof.
  revert s0 sel rest sum. induction l as [|u l IH]; simpl; intros s0 sel rest sum Hnn H.
  - inversion H; subst. f_equal. lia.
  - destruct (s0 >=? a) eqn:E0.
    + inversion H; subst.
      pose proof (Hnn u ltac:(left)).
      pose proof (sum_vals_nonneg l (λ x Hx, Hnn x ltac:(by right))). lia.
    + destruct (take_until a l (s0 + u_val u)) as [[sel' rest'] sum'] eqn:E.
      inversion H; subst. erewrite IH; [|intros x Hx; apply Hnn; by right|done].
      f_equal. lia.
Qed.

Lemma add_unconfirmed_spec a l s0 sel sum :
  add_unconfirmed a l s0 = (sel, sum) → (∃ rest, l = sel ++ rest) ∧ sum = s0 + sum_vals sel.
Proof.
  revert s0 sel sum. induction l as [|u l IH]; simpl; intros s0 sel sum H.
  - inversion H; subst. split; [by exists []|simpl; lia].
  - destruct (s0 + u_val u >=? a).
    + inversion H; subst. split; [by exists l|simpl; lia].
    + destruct (add_unconfirmed a l (s0 + u_val u)) as [sel' sum'] eqn:E.
      inversion H; subst. apply IH in E as [[rest ->] ->].
      split; [by exists rest|simpl; lia].
Qed.

Lemma defrag_loop_prefix m rd n : ∃ rest, rd = defrag_loop m rd n ++ rest.
Proof.
  revert n. induction rd as [|u rd IH]; simpl; intros n; [by exists []|].
  destruct (n >=? m); [by eexists|]. destruct (IH (n + 1)) as [rest Hr].
  exists rest. simpl. by rewrite <- Hr.
Qed.

Lemma defrag_sub c n rest : defrag c n rest ⊆+ rest.
Proof.
  unfold defrag. destruct (_ && _); [|apply submseteq_nil_l].
  match goal with |- defrag_loop _ (rev ?d) _ ⊆+ _ => set (dd := d) end.
  assert (dd ⊆+ rest) as Hd.
  { subst dd. destruct (_ >? _); [|done]. apply submseteq_drop. }
  destruct (defrag_loop_prefix (c_maxin c) (rev dd) n) as [r Hr].
  etrans; [by eapply submseteq_app_prefix|].
  by rewrite rev_perm.
Qed.

(** ** What a successful selection consists of *)
Lemma select_core_inv s amount unc v2 sel sum r :
  select_core s amount unc v2 sel sum = Some r →
  ∃ usel, r = (sel ++ usel, sum + sum_vals usel) ∧ amount ≤ sum + sum_vals usel ∧
    (∃ rest, unconfirmed s v2 = usel ++ rest) ∧ (usel ≠ [] → unc = true ∧ sum < amount).
Proof.
  unfold select_core. destruct (sum <? amount) eqn:E; simpl.
  - destruct unc; [|done].
    destruct (add_unconfirmed amount (unconfirmed s v2) sum) as [usel sum'] eqn:Ea.
    apply add_unconfirmed_spec in Ea as [Hr ->].
    destruct (sum + sum_vals usel <? amount) eqn:E2; [done|]. intros [= <-]. exists usel.
    split; [done|]. split; [lia|]. split; [done|]. intros _. split; [done|lia].
  - replace (false && unc) with false by done. intros [= <-]. exists [].
    rewrite app_nil_r. simpl. replace (sum + 0) with sum by lia.
    split; [done|]. split; [lia|]. split; [by eexists|done].
Qed.

Lemma select_utxos_inv s amount inputs unc v2 sel sum :
  amount ≠ 0 → select_utxos s amount inputs unc v2 = Some (sel, sum) →
  ∃ csel rest usel d,
    sort_desc (eligible s) = csel ++ rest ∧ d ⊆+ rest ∧
    (∃ r, unconfirmed s v2 = usel ++ r) ∧ (usel ≠ [] → unc = true ∧ rest = []) ∧
    sel = (csel ++ usel) ++ d ∧ sum = sum_vals sel ∧ amount ≤ sum_vals (csel ++ usel).
Proof.
  intros Hnz. unfold select_utxos. destruct (amount =? 0) eqn:E0; [lia|].
  destruct (take_until amount (sort_desc (eligible s)) 0) as [[csel rest] s1] eqn:Et.
  destruct (select_core s amount unc v2 csel s1) as [[sel' sum']|] eqn:Ec; [|done].
  intros [= <- <-].
  pose proof (take_until_spec _ _ _ _ _ _ Et) as [Hl ->].
  apply select_core_inv in Ec as (usel & [= -> ->] & Hge & Hr & Hu).
  exists csel, rest, usel, (defrag (conf s) (Z.of_N inputs + Z.of_nat (length (csel ++ usel))) rest).
  split; [done|]. split; [apply defrag_sub|]. split; [done|]. split.
  { intros Hne. destruct (Hu Hne) as [-> Hlt]. split; [done|].
    eapply take_until_short; [done|lia]. }
  split; [done|]. rewrite !sum_vals_app. split; lia.
Qed.

(** ** What "eligible" means *)

(** a confirmed output of the wallet that may be spent now: stored as unspent, mature,
    not spent by any pool transaction, not reserved *)
Definition spendable (s : state) (u : utxo) : Prop :=
  utxos s !! u_id u = Some (u_val u, u_mat u) ∧ (u_mat u ≤ tip_h s)%N ∧
  (∀ t, t ∈ pool s → u_id u ∉ p_ins t) ∧ is_locked s (u_id u) = false.

Lemma not_pool_spent s i : i ∉ pool_spent s ↔ ∀ t, t ∈ pool s → i ∉ p_ins t.
Proof. rewrite elem_of_pool_spent. naive_solver. Qed.

Lemma in_use_false s i :
  in_use s (pool_spent s) i = false ↔ is_locked s i = false ∧ ∀ t, t ∈ pool s → i ∉ p_ins t.
Proof.
  unfold in_use. rewrite orb_false_iff, bool_decide_eq_false, not_pool_spent. done.
Qed.

Lemma elem_of_eligible s u : u ∈ eligible s ↔ spendable s u.
Proof.
  unfold eligible, spendable. cbv zeta. rewrite elem_of_lfilter, elem_of_elements.
  rewrite andb_true_iff, !negb_true_iff, in_use_false, N.ltb_ge. tauto.
Qed.

Lemma spendable_outputs_eligible s : spendable_outputs s = eligible s.
Proof.
  unfold spendable_outputs, eligible. cbv zeta. apply lfilter_ext. intros u _.
  by rewrite negb_orb.
Qed.

Lemma NoDup_eligible s : NoDup (map u_id (eligible s)).
Proof. unfold eligible. cbv zeta. apply NoDup_map_filter, NoDup_elements. Qed.

(** ** Unconfirmed outputs *)
Lemma elem_of_unconf_list m x :
  x ∈ unconf_list m ↔ m !! u_id x.1.1 = Some (u_val x.1.1, x.1.2, x.2) ∧ u_mat x.1.1 = 0%N.
Proof.
  unfold unconf_list. rewrite elem_of_map. split.
  - intros ([i [[v o] k]] & -> & H%elem_of_map_to_list). done.
  - intros [H Hm]. exists (u_id x.1.1, (u_val x.1.1, x.1.2, x.2)).
    split; [|by apply elem_of_map_to_list].
    destruct x as [[[i v m'] o] k]. simpl in *. by subst.
Qed.

Lemma NoDup_unconf_list m : NoDup (map (λ x, u_id x.1.1) (unconf_list m)).
Proof.
  unfold unconf_list. rewrite map_map. simpl.
  replace (map (λ x : N * (Z * bool * bool), x.1) (map_to_list m)) with ((map_to_list m).*1)
    by (symmetry; apply map_fmap).
  apply NoDup_fst_map_to_list.
Qed.

Lemma fold_delete_lookup {V} (ins : list N) (m : gmap N V) i :
  fold_left (λ m i, delete i m) ins m !! i = if bool_decide (i ∈ ins) then None else m !! i.
Proof.
  revert m. induction ins as [|j ins IH]; intros m; simpl.
  - done.
  - rewrite IH. destruct (decide (i = j)) as [->|Hne].
    + rewrite lookup_delete. rewrite (bool_decide_eq_true_2 (j ∈ j :: ins)) by left.
      by destruct (bool_decide _).
    + rewrite lookup_delete_ne by done.
      destruct (bool_decide (i ∈ ins)) eqn:E.
      * apply bool_decide_eq_true in E. by rewrite bool_decide_eq_true_2 by by right.
      * apply bool_decide_eq_false in E. rewrite bool_decide_eq_false_2; [done|].
        by intros [?|?]%elem_of_cons.
Qed.

Lemma fold_insert_lookup_Some {V} (f : pout → V) (outs : list pout) (m : gmap N V) i x :
  fold_left (λ m o, <[o_id o := f o]> m) outs m !! i = Some x →
  (∃ o, o ∈ outs ∧ o_id o = i ∧ x = f o) ∨ m !! i = Some x.
Proof.
  revert m. induction outs as [|o outs IH]; intros m; simpl; [by right|].
  intros [(o' & Ho' & ? & ?)|H]%IH.
  - left. exists o'. split; [by right|done].
  - destruct (decide (o_id o = i)) as [<-|Hne].
    + rewrite lookup_insert in H. left. exists o. split; [by left|]. split; congruence.
    + rewrite lookup_insert_ne in H by done. by right.
Qed.

(** an entry of [tpoolUtxos] is an output of a pool transaction (of the wanted kind)
    that no later pool transaction spends *)
Lemma pool_created_Some keep (l : list ptx) i x :
  fold_left (tp_add keep) l ∅ !! i = Some x →
  ∃ l1 t l2 o, l = l1 ++ t :: l2 ∧ keep t = true ∧ o ∈ p_outs t ∧ o_id o = i ∧
    x = (o_val o, o_own o, p_v2 t) ∧ ∀ t', t' ∈ l2 → i ∉ p_ins t'.
Proof.
  revert x. induction l as [|t l IH] using rev_ind; intros x; simpl.
  - by rewrite lookup_empty.
  - rewrite fold_left_app. simpl. unfold tp_add at 1.
    set (m := fold_left (tp_add keep) l ∅) in *.
    assert (∀ y, fold_left (λ m i, delete i m) (p_ins t) m !! i = Some y →
      ∃ l1 t0 l2 o, l ++ [t] = l1 ++ t0 :: l2 ∧ keep t0 = true ∧ o ∈ p_outs t0 ∧ o_id o = i ∧
        y = (o_val o, o_own o, p_v2 t0) ∧ ∀ t', t' ∈ l2 → i ∉ p_ins t') as Hdel.
    { intros y. rewrite fold_delete_lookup. case_bool_decide as Hin; [done|].
      intros (l1 & t0 & l2 & o & -> & Hk & Ho & Hi & Hy & Hl2)%IH.
      exists l1, t0, (l2 ++ [t]), o. rewrite <- app_assoc. simpl.
      repeat split; try done. intros t' [?| ->%elem_of_list_singleton]%elem_of_app; auto. }
    destruct (keep t) eqn:Hk; [|apply Hdel].
    intros [(o & Ho & Hi & ->)|H]%fold_insert_lookup_Some; [|by apply Hdel].
    exists l, t, [], o. repeat split; try done. by intros ? ?%elem_of_nil.
Qed.

(** an unconfirmed candidate for funding a transaction of version [v2] *)
Definition unconfirmed_ok (s : state) (v2 : bool) (u : utxo) : Prop :=
  is_locked s (u_id u) = false ∧
  ∃ l1 t l2 o, pool_list s = l1 ++ t :: l2 ∧ p_v2 t = v2 ∧ o ∈ p_outs t ∧
    o_id o = u_id u ∧ o_val o = u_val u ∧ o_own o = true ∧
    ∀ t', t' ∈ l2 → u_id u ∉ p_ins t'.

Lemma elem_of_unconfirmed s v2 u : u ∈ unconfirmed s v2 → unconfirmed_ok s v2 u.
Proof.
  unfold unconfirmed. rewrite elem_of_sort_desc, elem_of_map.
  intros ([[u' own] k] & -> & [Hf Hin]%elem_of_lfilter). simpl in *.
  apply andb_true_iff in Hf as [-> Hl%negb_true_iff]. split; [done|].
  apply elem_of_unconf_list in Hin as [Hin _]. simpl in Hin.
  unfold pool_created_for in Hin.
  apply pool_created_Some in Hin as (l1 & t & l2 & o & Hpl & Hk & Ho & Hi & [= Hv Hown _] & Hl2).
  exists l1, t, l2, o. apply Bool.eqb_prop in Hk. done.
Qed.

Lemma NoDup_unconfirmed s v2 : NoDup (map u_id (unconfirmed s v2)).
Proof.
  unfold unconfirmed. rewrite (map_perm _ _ _ (sort_desc_perm _)), map_map.
  apply (NoDup_map_filter (λ x : utxo * bool * bool, u_id x.1.1)), NoDup_unconf_list.
Qed.

(** ** C07_selected_eligible *)
Lemma selected_eligible s amount inputs unc v2 sel sum :
  select_utxos s amount inputs unc v2 = Some (sel, sum) →
  ∀ u, u ∈ sel → spendable s u ∨ (unc = true ∧ unconfirmed_ok s v2 u).
Proof.
  intros H u Hu. destruct (decide (amount = 0)) as [->|Hnz].
  { unfold select_utxos in H. simpl in H. inversion H; subst. by apply elem_of_nil in Hu. }
  apply select_utxos_inv in H as (csel & rest & usel & d & Hs & Hd & [r Hr] & Hunc & -> & _ & _);
    [|done].
  assert (∀ x, x ∈ csel ++ rest → spendable s x) as Hel.
  { intros x Hx. rewrite <- Hs, elem_of_sort_desc in Hx. by apply elem_of_eligible. }
  apply elem_of_app in Hu as [[Hu|Hu]%elem_of_app|Hu].
  - left. apply Hel, elem_of_app. by left.
  - right. assert (usel ≠ []) as Hne by (intros ->; by apply elem_of_nil in Hu).
    split; [by apply Hunc|]. apply elem_of_unconfirmed. rewrite Hr, elem_of_app. by left.
  - left. apply Hel, elem_of_app. right. by eapply elem_of_submseteq.
Qed.

(** ** C07_selected_nodup *)

(** the ids of outputs created by pool transactions are not ids of confirmed outputs
    (ids are hashes of the creating transaction) *)
Definition fresh_pool_ids (s : state) : Prop :=
  ∀ t o, t ∈ pool s → o ∈ p_outs t → utxos s !! o_id o = None.

Lemma selected_nodup s amount inputs unc v2 sel sum :
  (unc = true → fresh_pool_ids s) →
  select_utxos s amount inputs unc v2 = Some (sel, sum) → NoDup (map u_id sel).
Proof.
  intros Hfresh H. destruct (decide (amount = 0)) as [->|Hnz].
  { unfold select_utxos in H. simpl in H. inversion H; subst. constructor. }
  apply select_utxos_inv in H as (csel & rest & usel & d & Hs & Hd & [r Hr] & Hunc & -> & _ & _);
    [|done].
  assert (NoDup (map u_id (csel ++ rest))) as Hnd.
  { rewrite <- Hs, (map_perm _ _ _ (sort_desc_perm _)). apply NoDup_eligible. }
  destruct usel as [|u0 usel'].
  - rewrite app_nil_r. eapply sub_NoDup_map; [|exact Hnd]. by apply submseteq_skips_l.
  - destruct Hunc as [-> ->]; [done|]. apply submseteq_nil_r in Hd as ->.
    rewrite !app_nil_r in *. rewrite map_app. apply NoDup_app. split; [done|]. split.
    + intros x (u & -> & Hu)%elem_of_map (u' & Hid & Hu')%elem_of_map.
      assert (spendable s u) as (Hst & _).
      { apply elem_of_eligible. by rewrite <- elem_of_sort_desc, Hs. }
      assert (unconfirmed_ok s v2 u') as (_ & l1 & t & l2 & o & Hpl & _ & Ho & Hi & _).
      { apply elem_of_unconfirmed. rewrite Hr, elem_of_app. by left. }
      assert (t ∈ pool s) as Ht.
      { apply elem_of_pool_list. rewrite Hpl, elem_of_app, elem_of_cons. auto. }
      specialize (Hfresh eq_refl t o Ht Ho). congruence.
    + eapply sub_NoDup_map; [|apply (NoDup_unconfirmed s v2)].
      eapply submseteq_app_prefix. exact Hr.
Qed.

(** ** C07_conservation (funding) *)

(** values are currencies: never negative *)
Definition vals_nonneg (s : state) : Prop := ∀ i v m, utxos s !! i = Some (v, m) → 0 ≤ v.

Lemma eligible_nonneg s u : vals_nonneg s → u ∈ eligible s → 0 ≤ u_val u.
Proof. intros Hnn (H & _)%elem_of_eligible. eauto. Qed.

Lemma select_sum s amount inputs unc v2 sel sum :
  select_utxos s amount inputs unc v2 = Some (sel, sum) → sum = sum_vals sel.
Proof.
  intros H. destruct (decide (amount = 0)) as [->|Hnz].
  { unfold select_utxos in H. simpl in H. by inversion H. }
  by apply select_utxos_inv in H as (? & ? & ? & ? & _ & _ & _ & _ & _ & -> & _).
Qed.

Lemma select_covers s amount inputs unc v2 sel sum :
  vals_nonneg s → select_utxos s amount inputs unc v2 = Some (sel, sum) → amount ≤ sum.
Proof.
  intros Hnn H. destruct (decide (amount = 0)) as [->|Hnz].
  { unfold select_utxos in H. simpl in H. inversion H. lia. }
  apply select_utxos_inv in H as (csel & rest & usel & d & Hs & Hd & _ & _ & -> & -> & Hge);
    [|done].
  rewrite sum_vals_app. enough (0 ≤ sum_vals d) by lia.
  apply sum_vals_nonneg. intros u Hu. apply (eligible_nonneg s); [done|].
  rewrite <- elem_of_sort_desc, Hs, elem_of_app. right. by eapply elem_of_submseteq.
Qed.

Lemma fund_conservation s v2 amount existing unc sel sum :
  vals_nonneg s → select_utxos s amount existing unc v2 = Some (sel, sum) →
  ∃ change, (fund s v2 amount existing unc).2 = RFund (map u_id sel) change (tip_h s) ∧
            0 ≤ change ∧ sum_vals sel = amount + change.
Proof.
  intros Hnn H. pose proof (select_sum _ _ _ _ _ _ _ H) as Hs.
  pose proof (select_covers _ _ _ _ _ _ _ Hnn H) as Hc.
  unfold fund. destruct (amount =? 0) eqn:E0.
  - unfold select_utxos in H. rewrite E0 in H. inversion H; subst. exists 0. simpl.
    repeat split; lia.
  - rewrite H. simpl. destruct (sum >? amount) eqn:Eg.
    + exists (sum - amount). repeat split; lia.
    + exists 0. repeat split; lia.
Qed.

(** ** C07_failure_reserves_nothing *)
Lemma failure_reserves_nothing s o s' : step s o = (s', RErr) → s' = s.
Proof.
  destruct o; simpl; try (intros [= <-]; done).
  - unfold fund. destruct (_ =? 0); [done|].
    destruct (select_utxos _ _ _ _ _) as [[sel sum]|]; [done|]. by intros [= <-].
  - unfold redistribute. destruct (redist_candidates _ _ _) as [us outputs'].
    destruct (_ <=? 0); [done|].
    destruct (redist_loop _ _ _ _ _ _ _) as [[txs|]|]; [done| |]; by intros [= <-].
  - unfold split.
    repeat first
      [ progress (intros [= <-]; done)
      | match goal with
        | |- (if ?c then _ else _) = _ → _ => destruct c
        | |- match ?x with _ => _ end = _ → _ => destruct x
        end ]; done.
Qed.

(** ** Reservations: lookups *)
Definition locked_at (l : gmap N N) (t : N) (i : N) : bool :=
  match l !! i with Some e => (t <? e)%N | None => false end.

Lemma is_locked_at s i : is_locked s i = locked_at (locked s) (now s) i.
Proof. done. Qed.

Lemma locked_at_clean (l : gmap N N) t i :
  locked_at (base.filter (λ kv : N * N, (t ≤ kv.2)%N) l) t i = locked_at l t i.
Proof.
  unfold locked_at. destruct (l !! i) as [e|] eqn:E.
  - destruct (decide (t ≤ e)%N) as [Hle|Hgt].
    + erewrite (proj2 (map_filter_lookup_Some _ _ _ _)); [done|]. by split.
    + erewrite (proj2 (map_filter_lookup_None _ _ _)).
      * symmetry. apply N.ltb_ge. lia.
      * right. intros e' He'. simpl. assert (e' = e) as -> by congruence. done.
  - rewrite (proj2 (map_filter_lookup_None _ l i)); [done|]. by left.
Qed.

Lemma fold_insert_lookup {V} (ids : list N) (v : V) (m : gmap N V) i :
  fold_left (λ m i, <[i := v]> m) ids m !! i = if bool_decide (i ∈ ids) then Some v else m !! i.
Proof.
  revert m. induction ids as [|j ids IH]; intros m; simpl; [done|].
  rewrite IH. destruct (decide (i = j)) as [->|Hne].
  - rewrite lookup_insert. rewrite (bool_decide_eq_true_2 (j ∈ j :: ids)) by left.
    by destruct (bool_decide _).
  - rewrite lookup_insert_ne by done.
    destruct (bool_decide (i ∈ ids)) eqn:E.
    + apply bool_decide_eq_true in E. by rewrite bool_decide_eq_true_2 by by right.
    + apply bool_decide_eq_false in E. rewrite bool_decide_eq_false_2; [done|].
      by intros [?|?]%elem_of_cons.
Qed.

Lemma lock_utxos_ne s ids : ids ≠ [] →
  lock_utxos s ids =
  set_locked s (fold_left (λ m i, <[i := (now s + c_resv (conf s))%N]> m) ids (clean_locked s)).
Proof. by destruct ids. Qed.

Lemma is_locked_lock s ids i :
  is_locked (lock_utxos s ids) i =
  if bool_decide (i ∈ ids) then (now s <? now s + c_resv (conf s))%N else is_locked s i.
Proof.
  destruct (decide (ids = [])) as [->|Hne].
  - rewrite bool_decide_eq_false_2 by apply not_elem_of_nil.
    unfold lock_utxos. rewrite !is_locked_at. simpl. apply locked_at_clean.
  - rewrite lock_utxos_ne by done. rewrite !is_locked_at. simpl. unfold locked_at at 1.
    rewrite fold_insert_lookup. destruct (bool_decide (i ∈ ids)); [done|].
    apply locked_at_clean.
Qed.

Lemma is_locked_release s ids i :
  is_locked (release s ids) i = if bool_decide (i ∈ ids) then false else is_locked s i.
Proof.
  unfold release. rewrite !is_locked_at. simpl. unfold clean_locked. simpl.
  rewrite locked_at_clean. unfold locked_at. rewrite fold_delete_lookup.
  by destruct (bool_decide _).
Qed.

(** ** C07_release_and_expiry *)
Lemma release_frees s ids i : i ∈ ids → is_locked (release s ids) i = false.
Proof. intros H. by rewrite is_locked_release, bool_decide_eq_true_2. Qed.

Lemma release_only_those s ids i : i ∉ ids → is_locked (release s ids) i = is_locked s i.
Proof. intros H. by rewrite is_locked_release, bool_decide_eq_false_2. Qed.

Lemma lock_reserves s ids i :
  (0 < c_resv (conf s))%N → i ∈ ids → is_locked (lock_utxos s ids) i = true.
Proof.
  intros HD H. rewrite is_locked_lock, bool_decide_eq_true_2 by done. apply N.ltb_lt. lia.
Qed.

Lemma lock_expires s ids i d :
  i ∈ ids → (c_resv (conf s) ≤ d)%N →
  is_locked (step (lock_utxos s ids) (Tick d)).1 i = false.
Proof.
  intros H Hd. simpl. rewrite is_locked_at. simpl.
  pose proof (is_locked_lock s ids i) as Hl. rewrite bool_decide_eq_true_2 in Hl by done.
  rewrite is_locked_at in Hl. unfold locked_at in *.
  assert (now (lock_utxos s ids) = now s) as -> by (unfold lock_utxos; by destruct ids).
  destruct (locked (lock_utxos s ids) !! i) as [e|] eqn:E; [|done].
  (* the expiry written by lockUTXOs is now + reservation *)
  assert (e = (now s + c_resv (conf s))%N) as ->.
  { rewrite lock_utxos_ne in E by (intros ->; by apply elem_of_nil in H).
    simpl in E. rewrite fold_insert_lookup, bool_decide_eq_true_2 in E by done. congruence. }
  apply N.ltb_ge. lia.
Qed.

(** ** C07_views_agree *)
Lemma bal_fold_spendable s ps l b :
  b_spendable (fold_left (bal_add s ps) l b) =
  b_spendable b +
  sum_vals (List.filter (λ u, negb (in_use s ps (u_id u) || (tip_h s <? u_mat u)%N)) l).
Proof.
  revert b. induction l as [|u l IH]; intros b; simpl; [lia|].
  rewrite IH. unfold bal_add, in_use.
  destruct (tip_h s <? u_mat u)%N, (is_locked s (u_id u)), (bool_decide (u_id u ∈ ps));
    simpl; lia.
Qed.

Lemma balance_spendable_outputs s :
  b_spendable (balance s) = sum_vals (spendable_outputs s).
Proof. unfold balance, spendable_outputs. simpl. rewrite bal_fold_spendable. simpl. lia. Qed.

Lemma elem_of_spendable_outputs s u : u ∈ spendable_outputs s ↔ spendable s u.
Proof. rewrite spendable_outputs_eligible. apply elem_of_eligible. Qed.

(** what selection can draw on (without unconfirmed outputs) is exactly the balance:
    a positive amount can be funded iff it does not exceed Balance().Spendable *)
Lemma fundable_iff_balance s amount inputs v2 :
  vals_nonneg s → 0 < amount →
  (is_Some (select_utxos s amount inputs false v2) ↔ amount ≤ b_spendable (balance s)).
Proof.
  intros Hnn Hpos. rewrite balance_spendable_outputs, spendable_outputs_eligible.
  unfold select_utxos. destruct (amount =? 0) eqn:E0; [lia|].
  destruct (take_until amount (sort_desc (eligible s)) 0) as [[csel rest] s1] eqn:Et.
  pose proof (take_until_total _ _ _ _ _ _
    (λ u Hu, eligible_nonneg s u Hnn (proj1 (elem_of_sort_desc _ _) Hu)) Et) as Htot.
  rewrite (sum_vals_perm _ _ (sort_desc_perm _)) in Htot. simpl in Htot.
  unfold select_core. rewrite andb_false_r.
  destruct (s1 <? amount) eqn:E1.
  - split; [by intros [? ?]|]. intros Hle. symmetry in Htot. apply Z.ltb_lt in Htot. lia.
  - split; [|by eexists]. intros _. symmetry in Htot. apply Z.ltb_ge in Htot. lia.
Qed.

(** ** Outstanding funded transactions: the invariant over operation sequences *)

(** every input of [f] carries a reservation that lasts at least as long as [f] *)
Definition holds (s : state) (f : ftx) : Prop :=
  ∀ x, x ∈ f_ins f → ∃ e, locked s !! x = Some e ∧ (f_exp f ≤ e)%N.

Inductive PW : list ftx → Prop :=
| PW_nil : PW []
| PW_cons f l : (∀ f', f' ∈ l → f_ins f ## f_ins f') → PW l → PW (f :: l).

Inductive PWl : list (list N) → Prop :=
| PWl_nil : PWl []
| PWl_cons a l : (∀ b, b ∈ l → a ## b) → PWl l → PWl (a :: l).

Definition Inv (sg : state * list ftx) : Prop :=
  (∀ f, f ∈ outstanding sg → holds sg.1 f) ∧ PW (outstanding sg).

Lemma PW_filter p l : PW l → PW (List.filter p l).
Proof.
  induction 1 as [|f l Hf Hl IH]; simpl; [constructor|].
  destruct (p f); [|done]. constructor; [|done].
  intros f' [_ Hf']%elem_of_lfilter. by apply Hf.
Qed.

Lemma PW_app l k :
  PW l → PW k → (∀ f f', f ∈ l → f' ∈ k → f_ins f ## f_ins f') → PW (l ++ k).
Proof.
  induction 1 as [|f l Hf Hl IH]; simpl; intros Hk Hc; [done|].
  constructor.
  - intros f' [?|?]%elem_of_app; [by apply Hf|]. apply Hc; [by left|done].
  - apply IH; [done|]. intros ? ? ? ?. apply Hc; [by right|done].
Qed.

Lemma PWl_PW e news : PWl news → PW (map (λ ins, mk_ftx ins e) news).
Proof.
  induction 1 as [|a l Ha Hl IH]; simpl; constructor; [|done].
  intros f' (b & -> & Hb)%elem_of_map. simpl. by apply Ha.
Qed.

Lemma NoDup_concat_PWl (ls : list (list N)) : NoDup (concat ls) → PWl ls.
Proof.
  induction ls as [|a ls IH]; simpl; [constructor|].
  intros (Ha & Hc & Hls)%NoDup_app. constructor; [|by apply IH].
  intros b Hb x Hxa Hxb. apply (Hc x Hxa). apply elem_of_concat. eauto.
Qed.

Lemma PW_lookup l i j f1 f2 :
  PW l → i ≠ j → l !! i = Some f1 → l !! j = Some f2 → f_ins f1 ## f_ins f2.
Proof.
  intros H. revert i j. induction H as [|f l Hf Hl IH]; intros i j Hne H1 H2; [done|].
  destruct i as [|i], j as [|j]; simpl in *; try done.
  - inversion H1; subst. apply Hf. by eapply elem_of_list_lookup_2.
  - inversion H2; subst. intros x Hx1 Hx2. eapply (Hf f1); [by eapply elem_of_list_lookup_2|done..].
  - eapply (IH i j); [congruence|done..].
Qed.

Lemma outstanding_app s g k :
  outstanding (s, g ++ k) = outstanding (s, g) ++ outstanding (s, k).
Proof. unfold outstanding. simpl. apply List.filter_app. Qed.

Lemma holds_locked s f x :
  holds s f → (now s < f_exp f)%N → x ∈ f_ins f → is_locked s x = true.
Proof.
  intros H Hlt Hx. destruct (H x Hx) as (e & He & Hle). unfold is_locked. rewrite He.
  apply N.ltb_lt. lia.
Qed.

Lemma elem_of_outstanding s g f :
  f ∈ outstanding (s, g) ↔ (now s < f_exp f)%N ∧ f ∈ g.
Proof. unfold outstanding. rewrite elem_of_lfilter. simpl. by rewrite N.ltb_lt. Qed.

(** a call that reserves the (unreserved) inputs of the transactions it returns *)
Lemma inv_lock s g news s' :
  Inv (s, g) →
  (∀ ins x, ins ∈ news → x ∈ ins → is_locked s x = false) →
  PWl news →
  now s' = now s →
  (∀ x e, locked s !! x = Some e → (now s ≤ e)%N → x ∉ concat news → locked s' !! x = Some e) →
  (∀ x, x ∈ concat news → locked s' !! x = Some (now s + c_resv (conf s))%N) →
  Inv (s', g ++ map (λ ins, mk_ftx ins (now s + c_resv (conf s))%N) news).
Proof.
  intros [Hh Hpw] Hun Hnews Hnow Hkeep Hnew.
  set (e := (now s + c_resv (conf s))%N).
  assert (outstanding (s', g) = outstanding (s, g)) as Hout.
  { unfold outstanding. simpl. by rewrite Hnow. }
  assert (∀ f x, f ∈ outstanding (s, g) → x ∈ f_ins f → x ∉ concat news) as Hdis.
  { intros f x Hf Hx (ins & Hins & Hxi)%elem_of_concat.
    pose proof (Hf) as [Hlt _]%elem_of_outstanding.
    specialize (Hun ins x Hins Hxi). rewrite (holds_locked s f x (Hh f Hf) Hlt Hx) in Hun. done. }
  split.
  - intros f. rewrite outstanding_app, elem_of_app, Hout. simpl. intros [Hf|Hf].
    + intros x Hx. destruct (Hh f Hf x Hx) as (e' & He' & Hle). exists e'. split; [|done].
      apply Hkeep; [done| |by eapply Hdis].
      apply elem_of_outstanding in Hf as [Hlt _]. lia.
    + apply elem_of_outstanding in Hf as [_ (ins & -> & Hins)%elem_of_map].
      intros x Hx. exists e. split; [|done]. apply Hnew. apply elem_of_concat. eauto.
  - rewrite outstanding_app, Hout. apply PW_app; [done| |].
    + unfold outstanding. apply PW_filter. by apply PWl_PW.
    + intros f f' Hf [_ (ins & -> & Hins)%elem_of_map]%elem_of_outstanding x Hx Hx'.
      simpl in Hx'. apply (Hdis f x Hf Hx). apply elem_of_concat. eauto.
Qed.

(** how lockUTXOs changes the reservation map *)
Lemma lock_utxos_keep s ids x e :
  locked s !! x = Some e → (now s ≤ e)%N → x ∉ ids → locked (lock_utxos s ids) !! x = Some e.
Proof.
  intros He Hle Hx.
  assert (clean_locked s !! x = Some e) as Hc.
  { unfold clean_locked. apply map_filter_lookup_Some. by split. }
  destruct (decide (ids = [])) as [->|Hne]; [done|].
  rewrite lock_utxos_ne by done. simpl.
  by rewrite fold_insert_lookup, bool_decide_eq_false_2.
Qed.

Lemma lock_utxos_new s ids x :
  x ∈ ids → locked (lock_utxos s ids) !! x = Some (now s + c_resv (conf s))%N.
Proof.
  intros Hx. rewrite lock_utxos_ne by (intros ->; by apply elem_of_nil in Hx). simpl.
  by rewrite fold_insert_lookup, bool_decide_eq_true_2.
Qed.

Lemma now_lock_utxos s ids : now (lock_utxos s ids) = now s.
Proof. unfold lock_utxos. by destruct ids. Qed.

(** ** Redistribute *)
Lemma collect_prefix want fi fo l n sum : ∃ rest, l = collect want fi fo l n sum ++ rest.
Proof.
  revert n sum. induction l as [|u l IH]; intros n sum; simpl; [by exists []|].
  destruct (_ >? _); [by eexists|].
  destruct (IH (n + 1) (sum + u_val u)) as [rest Hr]. exists rest. simpl. by rewrite <- Hr.
Qed.

Lemma skipn_app_length {A} (l k : list A) : skipn (length l) (l ++ k) = k.
Proof. induction l; simpl; auto. Qed.

Definition rtx_ok (amount : Z) (t : list utxo * rtx) : Prop :=
  r_ins t.2 = map u_id t.1 ∧ 0 ≤ r_change t.2 ∧
  sum_vals t.1 = amount * r_nout t.2 + r_fee t.2 + r_change t.2.

Lemma redist_loop_spec fuel outputs amount fee_in fee_out us txs res :
  redist_loop fuel outputs amount fee_in fee_out us txs = Some (Some res) →
  Forall (rtx_ok amount) txs →
  Forall (rtx_ok amount) res ∧
  ∃ rest, concat (map fst res) ++ rest = concat (map fst txs) ++ us.
Proof.
  revert outputs us txs. induction fuel as [|fuel IH]; intros outputs us txs; simpl.
  - destruct (outputs <=? 0); [|done]. intros [= <-] Hok. split; [done|]. by exists us.
  - destruct (outputs <=? 0). { intros [= <-] Hok. split; [done|]. by exists us. }
    set (k := Z.min outputs batch). set (ofee := fee_out k).
    set (ins := collect (amount * k) fee_in ofee us 0 0).
    destruct (sum_vals ins <? _) eqn:Elt.
    + destruct txs as [|t txs']; [done|]. intros [= <-] Hok. split; [done|]. by exists us.
    + intros H Hok. apply IH in H as [Hres [rest Hrest]].
      * split; [done|]. exists rest. rewrite Hrest, map_app, concat_app. simpl.
        rewrite app_nil_r, <- app_assoc. f_equal.
        destruct (collect_prefix (amount * k) fee_in ofee us 0 0) as [r Hr]. fold ins in Hr.
        clearbody ins. subst us. by rewrite skipn_app_length.
      * apply Forall_app. split; [done|]. constructor; [|constructor].
        unfold rtx_ok. simpl. apply Z.ltb_ge in Elt. repeat split; lia.
Qed.

(** enough fuel: the loop never runs out *)
Lemma redist_fuel_enough fuel outputs amount fee_in fee_out us txs :
  outputs ≤ Z.of_nat fuel →
  redist_loop fuel outputs amount fee_in fee_out us txs ≠ None.
Proof.
  revert outputs us txs. induction fuel as [|fuel IH]; intros outputs us txs Hle; simpl.
  - destruct (outputs <=? 0) eqn:E; [done|]. apply Z.leb_gt in E. lia.
  - destruct (outputs <=? 0) eqn:E; [done|]. apply Z.leb_gt in E.
    destruct (_ <? _); [by destruct txs|]. apply IH. unfold batch. lia.
Qed.

Lemma elem_of_redist_usable s u :
  u ∈ redist_usable s → spendable s u.
Proof.
  unfold redist_usable, spendable. cbv zeta. rewrite elem_of_lfilter, elem_of_elements.
  rewrite andb_true_iff, negb_true_iff, in_use_false, N.leb_le. tauto.
Qed.

Lemma NoDup_redist_usable s : NoDup (map u_id (redist_usable s)).
Proof. unfold redist_usable. cbv zeta. apply NoDup_map_filter, NoDup_elements. Qed.

(** what a successful Redistribute returns *)
Lemma redistribute_inv s outputs amount fee_in fee_out s' txs :
  redistribute s outputs amount fee_in fee_out = (s', RRedist txs) →
  (txs = [] ∧ s' = s) ∨
  ∃ full : list (list utxo * rtx),
    txs = map snd full ∧ s' = lock_utxos s (concat (map r_ins txs)) ∧
    Forall (rtx_ok amount) full ∧
    concat (map fst full) ⊆+ redist_usable s.
Proof.
  unfold redistribute. destruct (redist_candidates s outputs amount) as [us outputs'] eqn:Ec.
  destruct (outputs' <=? 0). { intros [= <- <-]. by left. }
  destruct (redist_loop _ _ _ _ _ _ _) as [[full|]|] eqn:El; [|done..].
  intros [= <- <-]. right. exists full.
  apply redist_loop_spec in El as [Hok [rest Hrest]]; [|constructor].
  split; [done|]. split; [by rewrite map_map|]. split; [done|].
  simpl in Hrest. unfold redist_candidates in Ec. injection Ec as Hus _.
  etrans; [eapply submseteq_app_prefix; by symmetry|].
  rewrite <- Hus, sort_desc_perm. apply sublist_submseteq.
  clear. induction (redist_usable s) as [|u l IH]; simpl; [done|].
  destruct (negb _); by constructor.
Qed.

(** ** SplitUTXO *)
Lemma pick_largest_in cands cur l :
  pick_largest cands cur = Some l → l ∈ cands ∨ cur = Some l.
Proof.
  unfold pick_largest. revert cur. induction cands as [|u cands IH]; intros cur; simpl; [by right|].
  intros [H|H]%IH; [left; by right|].
  destruct (_ >? _); [|by right]. inversion H; subst. left. by left.
Qed.

Lemma sum_repeat (x : Z) n : fold_right Z.add 0 (repeat x n) = x * Z.of_nat n.
Proof. induction n; simpl; lia. Qed.

Lemma split_outs_sum input remainder :
  1 ≤ remainder → fold_right Z.add 0 (split_outs input remainder) = input.
Proof.
  intros H. unfold split_outs. rewrite fold_right_app. simpl.
  set (per := input / remainder).
  assert (∀ l a, fold_right Z.add a l = fold_right Z.add 0 l + a) as Hf.
  { induction l; simpl; intros; [lia|]. rewrite IHl. lia. }
  rewrite Hf, sum_repeat. replace (Z.of_nat (Z.to_nat remainder - 1)) with (remainder - 1) by lia.
  ring.
Qed.

(** what a successful SplitUTXO did *)
Lemma split_inv s n min_amount fee txid new_ids s' i outs :
  split s n min_amount fee txid new_ids = (s', RSplit (Some (i, outs))) →
  ∃ l, u_id l = i ∧ is_locked s i = false ∧
       (spendable s l ∨ unconfirmed_ok s true l) ∧
       s' = split_commit s i outs txid new_ids ∧
       u_val l = fee + fold_right Z.add 0 outs ∧ min_amount ≤ u_val l.
Proof.
  unfold split.
  repeat match goal with |- (if ?c then _ else _) = _ → _ => destruct c; [done|] end.
  set (cc := split_conf_cands s min_amount). set (uc := split_unc_cands s min_amount).
  destruct (pick_largest _ _) as [lg|] eqn:Ep; [|done].
  destruct (u_val lg <=? fee) eqn:Efee; [done|].
  destruct (_ >=? n) eqn:Eab; [done|].
  destruct (_ <? min_amount) eqn:Emin; [done|].
  intros [= <- <- <-]. exists lg. split; [done|].
  rewrite Z.geb_leb in Eab. apply Z.leb_gt in Eab.
  assert ((is_locked s (u_id lg) = false ∧ (spendable s lg ∨ unconfirmed_ok s true lg))
          ∧ min_amount ≤ u_val lg) as [[Hl Hsp] Hmin].
  { apply pick_largest_in in Ep as [Hin|Hin].
    - apply elem_of_map in Hin as ([[u' own] k] & -> & [Hk Hin]%elem_of_lfilter). simpl in *. subst k.
      subst uc. unfold split_unc_cands in Hin. apply elem_of_lfilter in Hin as [Hf Hin].
      simpl in Hf. apply andb_true_iff in Hf as [[-> Hlk%negb_true_iff]%andb_true_iff Hge%negb_true_iff].
      apply Z.ltb_ge in Hge. split; [|done]. split; [done|]. right. split; [done|].
      apply elem_of_unconf_list in Hin as [Hin _]. simpl in Hin. unfold pool_created, pool_created_for in Hin.
      apply pool_created_Some in Hin as (l1 & t & l2 & o & Hpl & _ & Ho & Hi & [= Hv Hown Hk] & Hl2).
      by exists l1, t, l2, o.
    - apply pick_largest_in in Hin as [Hin|?]; [|done].
      subst cc. unfold split_conf_cands in Hin. cbv zeta in Hin.
      apply elem_of_lfilter in Hin as [Hf Hin].
      apply andb_true_iff in Hf as [[Hu%negb_true_iff Hm%negb_true_iff]%andb_true_iff Hge%negb_true_iff].
      apply in_use_false in Hu as [Hlk Hps]. apply N.ltb_ge in Hm. apply Z.ltb_ge in Hge.
      apply elem_of_elements in Hin. split; [|done]. split; [done|]. left. done. }
  repeat split; try done.
  rewrite split_outs_sum; [lia|]. lia.
Qed.

Lemma split_cases s n min_amount fee txid new_ids s' r :
  split s n min_amount fee txid new_ids = (s', r) →
  (s' = s ∧ (r = RErr ∨ r = RSplit None)) ∨ ∃ i outs, r = RSplit (Some (i, outs)).
Proof.
  unfold split.
  repeat first
    [ progress (intros [= <- <-]; eauto)
    | match goal with
      | |- (if ?c then _ else _) = _ → _ => destruct c
      | |- match ?x with _ => _ end = _ → _ => destruct x
      end ].
Qed.

(** ** The invariant is preserved by every operation *)
Lemma inv_same_locks s s' g :
  Inv (s, g) → now s' = now s → locked s' = locked s → Inv (s', g).
Proof.
  intros [Hh Hpw] Hn Hl.
  assert (outstanding (s', g) = outstanding (s, g)) as Ho.
  { unfold outstanding. simpl. by rewrite Hn. }
  split; rewrite Ho; [|done]. intros f Hf x Hx. simpl. rewrite Hl. by apply Hh.
Qed.

Lemma inv_app_nil s g : Inv (s, g) → Inv (s, g ++ []).
Proof. by rewrite app_nil_r. Qed.

Lemma gstep_inv sg o : Inv sg → Inv (gstep sg o).1.
Proof.
  destruct sg as [s g]. intros HI. unfold gstep. simpl fst. simpl snd.
  destruct o as [v2 amount existing unc|outputs amount fee_in fee_out|n min_amount fee txid new_ids
                 |ids|d|t|id|spent created|readded]; simpl step.
  - (* Fund *)
    unfold fund. destruct (amount =? 0) eqn:E0.
    { simpl. apply (inv_lock s g [[]] s).
      - done.
      - intros ins x ->%elem_of_list_singleton. by intros ?%elem_of_nil.
      - constructor; [|constructor]. by intros ? ?%elem_of_nil.
      - done.
      - done.
      - simpl. by intros ? ?%elem_of_nil. }
    destruct (select_utxos s amount existing unc v2) as [[sel sum]|] eqn:Es; simpl.
    + apply (inv_lock s g [map u_id sel]).
      * done.
      * intros ins x ->%elem_of_list_singleton (u & -> & Hu)%elem_of_map.
        destruct (selected_eligible _ _ _ _ _ _ _ Es u Hu) as [(_ & _ & _ & H)|[_ [H _]]]; done.
      * constructor; [|constructor]. by intros ? ?%elem_of_nil.
      * apply now_lock_utxos.
      * simpl. rewrite app_nil_r. intros. by apply lock_utxos_keep.
      * simpl. rewrite app_nil_r. apply lock_utxos_new.
    + by rewrite app_nil_r.
  - (* Redistribute *)
    destruct (redistribute s outputs amount fee_in fee_out) as [s' r] eqn:Er.
    destruct r as [| | txs | |]; simpl;
      try (unfold redistribute in Er; destruct (redist_candidates _ _ _);
           destruct (_ <=? 0); [done|];
           destruct (redist_loop _ _ _ _ _ _ _) as [[?|]|]; inversion Er; subst;
           by rewrite app_nil_r).
    apply redistribute_inv in Er as [[-> ->]|(full & -> & -> & Hok & Hsub)].
    { simpl. by rewrite app_nil_r. }
    assert (concat (map r_ins (map snd full)) = map u_id (concat (map fst full))) as Hids.
    { clear -Hok. induction Hok as [|t l [Ht _] _ IH]; simpl; [done|].
      by rewrite map_app, IH, Ht. }
    apply inv_lock.
    + done.
    + intros ins x Hins Hx.
      assert (x ∈ concat (map r_ins (map snd full))) as Hc by (apply elem_of_concat; eauto).
      rewrite Hids in Hc. apply elem_of_map in Hc as (u & -> & Hu).
      eapply elem_of_submseteq in Hu; [|exact Hsub].
      by apply elem_of_redist_usable in Hu as (_ & _ & _ & H).
    + apply NoDup_concat_PWl. rewrite Hids. eapply sub_NoDup_map; [exact Hsub|].
      apply NoDup_redist_usable.
    + apply now_lock_utxos.
    + intros. by apply lock_utxos_keep.
    + apply lock_utxos_new.
  - (* SplitUTXO *)
    destruct (split s n min_amount fee txid new_ids) as [s' r] eqn:Er.
    destruct (split_cases _ _ _ _ _ _ _ _ Er) as [[-> [-> | ->]]|(i & outs & ->)]; simpl;
      [by rewrite app_nil_r..|].
    apply split_inv in Er as (l & <- & Hl & _ & -> & _).
    apply (inv_lock s g [[u_id l]]).
    + done.
    + intros ins x ->%elem_of_list_singleton ->%elem_of_list_singleton. done.
    + constructor; [|constructor]. by intros ? ?%elem_of_nil.
    + unfold split_commit. by rewrite now_lock_utxos.
    + intros x e He Hle Hx. unfold split_commit. simpl in Hx.
      by apply lock_utxos_keep.
    + intros x Hx. unfold split_commit. simpl in Hx.
      by rewrite lock_utxos_new.
  - (* ReleaseInputs *)
    simpl. rewrite app_nil_r. destruct HI as [Hh Hpw].
    set (keep := λ f : ftx, forallb (λ i, negb (mem_N i ids)) (f_ins f)).
    assert (outstanding (release s ids, List.filter keep g) = List.filter keep (outstanding (s, g))) as Ho.
    { unfold outstanding. simpl. apply lfilter_comm. }
    split; rewrite Ho; [|by apply PW_filter].
    intros f [Hk Hf]%elem_of_lfilter x Hx.
    destruct (Hh f Hf x Hx) as (e & He & Hle). exists e. split; [|done].
    apply elem_of_outstanding in Hf as [Hlt _].
    assert (x ∉ ids) as Hni.
    { subst keep. simpl in Hk. rewrite forallb_forall in Hk.
      apply elem_of_list_In in Hx. specialize (Hk x Hx). apply negb_true_iff in Hk.
      intros Hin. apply elem_of_list_In in Hin.
      assert (mem_N x ids = true); [|congruence].
      unfold mem_N. apply existsb_exists. exists x. split; [done|]. apply N.eqb_refl. }
    unfold release. simpl. unfold clean_locked. simpl.
    apply map_filter_lookup_Some. split; [|simpl; lia].
    by rewrite fold_delete_lookup, bool_decide_eq_false_2.
  - (* time passes *)
    simpl. rewrite app_nil_r. destruct HI as [Hh Hpw].
    set (s' := mk_state _ _ _ _ _ _).
    assert (outstanding (s', g) = List.filter (λ f, (now s' <? f_exp f)%N) (outstanding (s, g))) as Ho.
    { unfold outstanding. simpl. symmetry. apply lfilter_lfilter_impl.
      intros f. rewrite !N.ltb_lt. lia. }
    split; rewrite Ho; [|by apply PW_filter].
    intros f [_ Hf]%elem_of_lfilter. by apply Hh.
  - simpl. rewrite app_nil_r. by apply (inv_same_locks s).
  - simpl. rewrite app_nil_r. by apply (inv_same_locks s).
  - simpl. rewrite app_nil_r. by apply (inv_same_locks s).
  - (* restart *)
    simpl. split; [by intros ? ?%elem_of_nil|constructor].
Qed.

Lemma grun_inv sg ops : Inv sg → Inv (grun sg ops).
Proof.
  revert sg. induction ops as [|o ops IH]; intros sg H; simpl; [done|].
  apply IH. by apply gstep_inv.
Qed.

Lemma inv_init s : Inv (s, []).
Proof. split; [by intros ? ?%elem_of_nil|constructor]. Qed.

(** ** C07_outstanding_disjoint and the reservation behind it *)
Lemma outstanding_disjoint s0 ops i j f1 f2 :
  i ≠ j →
  outstanding (grun (s0, []) ops) !! i = Some f1 →
  outstanding (grun (s0, []) ops) !! j = Some f2 →
  f_ins f1 ## f_ins f2.
Proof.
  intros. destruct (grun_inv (s0, []) ops (inv_init s0)) as [_ Hpw].
  by eapply PW_lookup.
Qed.

Lemma outstanding_reserved s0 ops f x :
  f ∈ outstanding (grun (s0, []) ops) → x ∈ f_ins f →
  is_locked (grun (s0, []) ops).1 x = true.
Proof.
  intros Hf Hx. destruct (grun_inv (s0, []) ops (inv_init s0)) as [Hh _].
  destruct (grun (s0, []) ops) as [s g] eqn:E. simpl in *.
  pose proof Hf as [Hlt _]%elem_of_outstanding.
  by eapply holds_locked; [apply Hh|..].
Qed.

(** ** C07_conservation and eligibility for Redistribute and SplitUTXO *)
Lemma redistribute_sound s outputs amount fee_in fee_out s' txs :
  redistribute s outputs amount fee_in fee_out = (s', RRedist txs) →
  ∃ full : list (list utxo * rtx),
    txs = map snd full ∧
    Forall (λ t, r_ins t.2 = map u_id t.1 ∧ 0 ≤ r_change t.2 ∧
                 sum_vals t.1 = amount * r_nout t.2 + r_fee t.2 + r_change t.2) full ∧
    (∀ u, u ∈ concat (map fst full) → spendable s u) ∧
    NoDup (map u_id (concat (map fst full))).
Proof.
  intros [[-> ->]|(full & -> & _ & Hok & Hsub)]%redistribute_inv.
  - exists []. split; [done|]. split; [apply Forall_nil_2|]. split; [by intros ? ?%elem_of_nil|apply NoDup_nil_2].
  - exists full. split; [done|]. split; [done|]. split.
    + intros u Hu. eapply elem_of_redist_usable, elem_of_submseteq; done.
    + eapply sub_NoDup_map; [done|]. apply NoDup_redist_usable.
Qed.

Lemma redistribute_fuel s outputs amount fee_in fee_out :
  let '(us, outputs') := redist_candidates s outputs amount in
  redist_loop (Z.to_nat outputs') outputs' amount fee_in
    (λ k, nth (Z.to_nat k) fee_out 0) us [] ≠ None.
Proof.
  destruct (redist_candidates s outputs amount) as [us outputs'].
  apply redist_fuel_enough. lia.
Qed.

Lemma split_sound s n min_amount fee txid new_ids s' i outs :
  split s n min_amount fee txid new_ids = (s', RSplit (Some (i, outs))) →
  ∃ l, u_id l = i ∧ (spendable s l ∨ unconfirmed_ok s true l) ∧
       u_val l = fee + fold_right Z.add 0 outs.
Proof. intros (l & ? & _ & ? & _ & ? & _)%split_inv. eauto. Qed.

(** ** The selection before the repair double-selects (F4) *)
Definition ex_cfg : cfg := mk_cfg 3 30 10 1000.
Definition ex_s : state :=
  mk_state (list_to_map [(1%N, (60, 0%N)); (2%N, (50, 0%N)); (3%N, (40, 0%N));
                         (4%N, (30, 0%N)); (5%N, (20, 0%N)); (6%N, (10, 0%N));
                         (7%N, (100, 9%N))])
           5 0 ∅ [] ex_cfg.

Lemma defrag_prefix_refuted :
  ∃ s amount inputs sel sum,
    select_utxos_prefix s amount inputs false true = Some (sel, sum) ∧
    length sel = 12%nat ∧ ¬ NoDup (map u_id sel).
Proof.
  exists ex_s, 210, 0%N. eexists _, _. split; [vm_compute; reflexivity|].
  split; [reflexivity|]. intros H. apply (bool_decide_pack _) in H. by vm_compute in H.
Qed.

(** ** Non-vacuity: the hypotheses of the theorems hold of concrete, non-trivial states *)
Example ex_vals_nonneg : vals_nonneg ex_s.
Proof.
  intros i v m H. apply elem_of_list_to_map_2 in H.
  repeat (apply elem_of_cons in H as [Heq|H]; [inversion Heq; lia|]). by apply elem_of_nil in H.
Qed.

(** the repaired selection on the F4 witness: all six outputs, once each *)
Example ex_select_all :
  ∃ sel, select_utxos ex_s 210 0 false true = Some (sel, 210) ∧ map u_id sel = [1; 2; 3; 4; 5; 6]%N.
Proof. eexists. split; vm_compute; reflexivity. Qed.

(** two largest outputs cover 65; the four left exceed the threshold 3 and are defragged,
    smallest first *)
Example ex_select_defrag :
  ∃ sel, select_utxos ex_s 65 0 false true = Some (sel, 210) ∧ map u_id sel = [1; 2; 6; 5; 4; 3]%N.
Proof. eexists. split; vm_compute; reflexivity. Qed.

Example ex_select_fails : select_utxos ex_s 211 0 false true = None.
Proof. vm_compute. reflexivity. Qed.

Example ex_failure : step ex_s (Fund true 211 0 false) = (ex_s, RErr).
Proof. vm_compute. reflexivity. Qed.

Example ex_balance : balance ex_s = mk_bal 210 210 0 100.
Proof. vm_compute. reflexivity. Qed.

(** a state with a v2 pool transaction that spends output 1 and pays 25 back *)
Definition ex_pool : state :=
  mk_state (utxos ex_s) 5 0 ∅
           [mk_ptx 1 true [1%N] [mk_pout 20 25 true; mk_pout 21 35 false]] (mk_cfg 30 30 10 1000).

Example ex_fresh : fresh_pool_ids ex_pool.
Proof.
  intros t o Ht Ho. apply elem_of_list_singleton in Ht as ->. simpl in Ho.
  repeat (apply elem_of_cons in Ho as [->|Ho]; [by vm_compute|]). by apply elem_of_nil in Ho.
Qed.

(** confirmed outputs give 150; with useUnconfirmed the pool output 20 is added *)
Example ex_unconfirmed :
  select_utxos ex_pool 160 0 false true = None ∧
  ∃ sel, select_utxos ex_pool 160 0 true true = Some (sel, 175) ∧
         map u_id sel = [2; 3; 4; 5; 6; 20]%N ∧
         select_utxos ex_pool 160 0 true false = None.
Proof. split; [by vm_compute|]. eexists. repeat split; vm_compute; reflexivity. Qed.

Example ex_views_pool :
  b_spendable (balance ex_pool) = 150 ∧ map u_id (spendable_outputs ex_pool) = [3; 5; 2; 4; 6]%N
  ∧ b_unconfirmed (balance ex_pool) = 25.
Proof. repeat split; vm_compute; reflexivity. Qed.

(** two funded transactions outstanding at once, a third request fails, then the first
    is released and a fourth gets its inputs *)
Example ex_outstanding :
  map f_ins (outstanding (grun (ex_pool, [])
    [Fund true 90 0 false; Fund false 50 0 false; Fund true 30 0 false]))
  = [[2; 3]; [4; 5]]%N ∧
  map f_ins (outstanding (grun (ex_pool, [])
    [Fund true 90 0 false; Fund false 50 0 false; Release [2; 3]%N; Tick 10; Fund true 30 0 false]))
  = [[4; 5]; [2]]%N ∧
  outstanding (grun (ex_pool, [])
    [Fund true 90 0 false; Tick 1000]) = [].
Proof. repeat split; vm_compute; reflexivity. Qed.

Example ex_redistribute :
  ∃ s', redistribute ex_pool 3 15 1 [0; 2; 4; 6] =
        (s', RRedist [mk_rtx [2; 3]%N 3 37 8]).
Proof. eexists. vm_compute. reflexivity. Qed.

Example ex_split :
  ∃ s', split ex_pool 7 12 4 9 [30; 31; 32]%N = (s', RSplit (Some (2%N, [15; 15; 16]))).
Proof. eexists. vm_compute. reflexivity. Qed.

Example ex_reservation_positive : (0 < c_resv (conf ex_pool))%N.
Proof. by vm_compute. Qed.

(** ** The conjunctions stated in Props/C07.v *)
Lemma release_and_expiry :
  (∀ s ids i, i ∈ ids → is_locked (release s ids) i = false) ∧
  (∀ s ids i, i ∉ ids → is_locked (release s ids) i = is_locked s i) ∧
  (∀ s ids i, (0 < c_resv (conf s))%N → i ∈ ids → is_locked (lock_utxos s ids) i = true) ∧
  (∀ s ids i d, i ∈ ids → (c_resv (conf s) ≤ d)%N →
     is_locked (step (lock_utxos s ids) (Tick d)).1 i = false).
Proof. exact (conj release_frees (conj release_only_those (conj lock_reserves lock_expires))). Qed.

Lemma views_agree s :
  b_spendable (balance s) = sum_vals (spendable_outputs s) ∧
  spendable_outputs s = eligible s ∧
  (∀ u, u ∈ spendable_outputs s ↔ spendable s u) ∧
  (vals_nonneg s → ∀ amount inputs v2, 0 < amount →
     (is_Some (select_utxos s amount inputs false v2) ↔ amount ≤ b_spendable (balance s))).
Proof.
  split; [apply balance_spendable_outputs|]. split; [apply spendable_outputs_eligible|].
  split; [apply elem_of_spendable_outputs|]. intros H a i v. by apply fundable_iff_balance.
Qed.

(** ** The returned basis *)
Lemma fund_basis s v2 amount existing unc s' sel change b :
  fund s v2 amount existing unc = (s', RFund sel change b) → b = tip_h s.
Proof.
  unfold fund. destruct (amount =? 0); [by intros [= _ _ _ <-]|].
  destruct (select_utxos _ _ _ _ _) as [[? ?]|]; [|done]. by intros [= _ _ _ <-].
Qed.

(** Redistribute with a non-zero fee and a change of 1 and of exactly the fee of one input
    (3): the change is written into the transaction, inputs = outputs + fee + change *)
Example ex_redistribute_small_change :
  (∃ s', redistribute ex_pool 1 44 3 [0; 2] = (s', RRedist [mk_rtx [2]%N 1 1 5])) ∧
  (∃ s', redistribute ex_pool 1 42 3 [0; 2] = (s', RRedist [mk_rtx [2]%N 1 3 5])) ∧
  50 = 44 * 1 + 5 + 1 ∧ 50 = 42 * 1 + 5 + 3.
Proof. split; [|split]; [eexists; vm_compute; reflexivity..|lia]. Qed.
