(** * Wallet/Seed.v — executable model of the BIP39 code of /repo/wallet/seed.go (C20).

    Definitions only (proofs are in SeedProofs.v).  The model works on word
    *indices*: [bip39EnglishWordList[i]] is the index [i] itself and a phrase is
    the list of its whitespace separated tokens ([strings.Fields], seed.go:86),
    each token being a word of the list (its index) or some other string.
    That the real list has 2048 distinct, whitespace free entries - i.e. that
    index <-> word is a bijection and that [strings.Join] / [strings.Fields]
    round-trip on it - is checked by the harness on every run.

    The two 64-bit halves [hi], [lo] of the 128-bit entropy are natural numbers
    [N]; every Go operation on [uint64] is written with the matching [N]
    operation and the wrap-around of [<<] is explicit ([shl64]).  [>>], [&] and
    [|] cannot overflow.  SHA-256 is external: the checksum function
    [cks hi lo] = [bip39checksum] of the 16 bytes  be64 hi ++ be64 lo  is a
    section variable. *)
From Coq Require Import NArith List Bool.
Import ListNotations.
Open Scope N_scope.

(** ** uint64 operations *)
Definition mask64 : N := N.ones 64.                                  (* 0xFFFFFFFFFFFFFFFF *)
Definition shl64 (x k : N) : N := N.land (N.shiftl x k) mask64.       (* Go: x << k  (uint64) *)
Definition shr64 (x k : N) : N := N.shiftr x k.                       (* Go: x >> k  (uint64) *)

(** ** tokens of a phrase *)
Inductive token :=
| Word (i : N)      (* bip39EnglishWordList[i] when i < 2048 *)
| Unknown.          (* any other string *)

(** [wordMap[word]] with the comma-ok form (seed.go:91, 120-126) *)
Definition word_index (t : token) : option N :=
  match t with
  | Word i => if i <? 2048 then Some i else None
  | Unknown => None
  end.
Definition known (t : token) : bool :=
  match word_index t with Some _ => true | None => false end.
(** [wordMap[word]] without comma-ok: the zero value for a missing key (seed.go:100, 104) *)
Definition idx (t : token) : N :=
  match word_index t with Some i => i | None => 0 end.

(** result of [decodeBIP39Phrase]: the entropy written, or which of the three errors *)
Inductive dres :=
| DOk (hi lo : N)
| DErrCount        (* "wrong number of words in seed phrase"   seed.go:88 *)
| DErrWord         (* "unrecognized word %q in seed phrase"     seed.go:92 *)
| DErrChecksum.    (* "invalid checksum"                        seed.go:115 *)

Section BIP39.
  (** [bip39checksum] (seed.go:57-60): the high nibble of the first SHA-256 byte *)
  Variable cks : N -> N -> N.

  (*GEN-BEGIN*)
  (** The four definitions between the GEN markers are what
      harness/cmd/c20/translate.go (a go/ast translator) regenerates from
      wallet/seed.go on every run; the check compares the texts.  Every Go
      assignment is a shadowing [let], in source order.  [e_hi], [e_lo] are the
      contents of [*entropy] ([binary.BigEndian.Uint64(entropy[:8])] and
      [(entropy[8:])], resp. what [PutUint64] stored there). *)

  (** seed.go:74-78
<<
      for i := len(words) - 2; i >= 0; i-- {
          words[i] = bip39EnglishWordList[lo&0x7FF]
          lo = lo>>11 | hi<<(64-11)
          hi >>= 11
      }
>>
      [n] is the number of iterations left; [words] are the entries already
      written (positions i+1 .. 11). *)
  Fixpoint enc_loop (n : nat) (hi lo : N) (words : list N) : list N :=
    match n with
    | O => words
    | S n' =>
        let words := N.land lo 0x7FF :: words in                       (* :75 *)
        let lo := N.lor (shr64 lo 11) (shl64 hi (64 - 11)) in          (* :76 *)
        let hi := shr64 hi 11 in                                       (* :77 *)
        enc_loop n' hi lo words
    end.

  (** seed.go:62-81 [encodeBIP39Phrase] *)
  Definition encode (e_hi e_lo : N) : list N :=
    let hi := e_hi in                                                  (* :64 *)
    let lo := e_lo in                                                  (* :65 *)
    let w := N.lor (shl64 (N.land lo 0x7F) 4) (cks e_hi e_lo) in       (* :70 *)
    let words := [w] in                                                (* :71, words = make([]string, 12) *)
    let lo := N.lor (shr64 lo 7) (shl64 hi (64 - 7)) in                (* :72 *)
    let hi := shr64 hi 7 in                                            (* :73 *)
    enc_loop (12 - 1) hi lo words.                                     (* :74-78 *)

  (** seed.go:98-101
<<
      for _, v := range words[:len(words)-1] {
          hi = hi<<11 | lo>>(64-11)
          lo = lo<<11 | wordMap[v]
      }
>> *)
  Fixpoint dec_loop (ts : list token) (hi lo : N) : N * N :=
    match ts with
    | [] => (hi, lo)
    | v :: ts' =>
        let hi := N.lor (shl64 hi 11) (shr64 lo (64 - 11)) in          (* :99 *)
        let lo := N.lor (shl64 lo 11) (idx v) in                       (* :100 *)
        dec_loop ts' hi lo
    end.

  (** seed.go:83-118 [decodeBIP39Phrase]; [words] is [strings.Fields(phrase)] *)
  Definition decode_res (words : list token) : dres :=
    if negb (Nat.eqb (length words) 12) then DErrCount else            (* :87-89 *)
    if negb (forallb known words) then DErrWord else                   (* :90-94 *)
    let lo := 0 in                                                     (* :97 *)
    let hi := 0 in
    let '(hi, lo) := dec_loop (firstn (length words - 1) words) hi lo in   (* :98-101 *)
    let w := idx (nth (length words - 1) words Unknown) in             (* :104 *)
    let checksum := N.land w 0xF in                                    (* :105 *)
    let hi := N.lor (shl64 hi 7) (shr64 lo (64 - 7)) in                (* :106 *)
    let lo := N.lor (shl64 lo 7) (shr64 w 4) in                        (* :107 *)
    let e_hi := hi in                                                  (* :110 *)
    let e_lo := lo in                                                  (* :111 *)
    if negb (cks e_hi e_lo =? checksum) then DErrChecksum else         (* :114-116 *)
    DOk e_hi e_lo.                                                     (* :117 *)
  (*GEN-END*)

  (** [err == nil] and the entropy *)
  Definition decode (ts : list token) : option (N * N) :=
    match decode_res ts with DOk hi lo => Some (hi, lo) | _ => None end.
End BIP39.

(** ** Seed and key derivation (seed.go:34-55)

    blake2b-256 and the ed25519 key generation are external: section
    variables.  The model only fixes *what is hashed*: the 16 entropy bytes
    (big endian halves) for the seed, and  seed ++ le64 index  for a key.  Being
    Gallina functions of (tokens, index), the derived values are deterministic
    by construction; this is said, not proved. *)
Fixpoint le_bytes (n : nat) (x : N) : list N :=
  match n with
  | O => []
  | S n' => x mod 256 :: le_bytes n' (x / 256)
  end.
Definition le64 (x : N) : list N := le_bytes 8 (x mod 2 ^ 64).         (* binary.LittleEndian.PutUint64 *)
Definition be64 (x : N) : list N := rev (le64 x).                      (* binary.BigEndian.PutUint64 *)

Section Derive.
  Variable cks : N -> N -> N.
  Variable H : list N -> list N.          (* blake2b.Sum256 on byte lists *)
  Variables (Key : Type) (newkey : list N -> Key).   (* types.NewPrivateKeyFromSeed *)

  (** seed.go:34-44 [SeedFromPhrase] *)
  Definition seed_from_phrase (ts : list token) : option (list N) :=
    match decode cks ts with
    | Some (hi, lo) => Some (H (be64 hi ++ be64 lo))
    | None => None
    end.

  (** seed.go:47-55 [KeyFromSeed] *)
  Definition key_from_seed (seed : list N) (index : N) : Key :=
    newkey (H (seed ++ le64 index)).

  Definition key_from_phrase (ts : list token) (index : N) : option Key :=
    match seed_from_phrase ts with
    | Some s => Some (key_from_seed s index)
    | None => None
    end.
End Derive.

(** ** Call histories

    [SeedFromPhrase] writes into a seed array the caller owns and [KeyFromSeed] reads such an
    array: a wallet reuses one array for several phrases, overwrites it in place, and derives
    keys from several arrays in any interleaving.  A history is a list of such calls on
    numbered buffers; the model derives every key from the *current contents* of the buffer it
    is given and from nothing else (no state survives a call).  The harness runs the same
    histories on the real functions. *)
Inductive hop :=
| HLoad (b : N) (ts : list token)      (* SeedFromPhrase(&buf[b], phrase): overwrites on success, leaves the buffer alone on error *)
| HWrite (b : N) (bytes : list N)      (* the caller overwrites buf[b] in place *)
| HKey (b : N) (i : N).                (* KeyFromSeed(&buf[b], i) *)

Definition hstate := N -> list N.
Definition hupd (st : hstate) (b : N) (v : list N) : hstate := fun x => if x =? b then v else st x.
(** does the call write to buffer [b]? *)
Definition hwrites (op : hop) (b : N) : bool :=
  match op with HLoad b' _ | HWrite b' _ => b' =? b | HKey _ _ => false end.

Section Histories.
  Variable cks : N -> N -> N.
  Variable H : list N -> list N.
  Variables (Key : Type) (newkey : list N -> Key).

  Definition hstep (st : hstate) (op : hop) : hstate * list Key :=
    match op with
    | HLoad b ts =>
        match seed_from_phrase cks H ts with
        | Some s => (hupd st b s, [])
        | None => (st, [])
        end
    | HWrite b bytes => (hupd st b bytes, [])
    | HKey b i => (st, [key_from_seed H Key newkey (st b) i])
    end.

  (** the keys returned by the [HKey] calls of a history, in order *)
  Fixpoint hrun (st : hstate) (ops : list hop) : hstate * list Key :=
    match ops with
    | [] => (st, [])
    | op :: ops' =>
        let '(st', ks) := hstep st op in
        let '(st'', ks') := hrun st' ops' in
        (st'', ks ++ ks')
    end.
End Histories.

(** ** The one-line specification the theorems relate the code to *)

(** the 128-bit big-endian integer *)
Definition ent (hi lo : N) : N := hi * 2 ^ 64 + lo.

(** word [k] (0..11) of the phrase of entropy [e] with checksum nibble [c]: the
    [k]-th 11-bit group, from the most significant end, of the 132-bit integer
    [e * 16 + c] *)
Definition spec_word (e c : N) (k : N) : N := ((e * 16 + c) / 2 ^ (11 * (11 - k))) mod 2048.
Definition spec_words (e c : N) : list N := map (spec_word e c) [0;1;2;3;4;5;6;7;8;9;10;11].

(** the big-endian value of a list of 11-bit digits *)
Definition pack (ws : list N) : N := fold_left (fun e v => e * 2048 + v) ws 0.
(** the entropy and checksum nibble a 12-index phrase denotes *)
Definition entropy_of (ws : list N) : N := pack (firstn 11 ws) * 128 + nth 11 ws 0 / 16.
Definition nibble_of (ws : list N) : N := nth 11 ws 0 mod 16.

(** ** What can be wrong with a phrase

    The property fixes *that* a malformed phrase is rejected, not *which* of several
    applicable errors is reported nor in which order the validations run.  [defects] is the
    set of defects of a token list, independent of any order of evaluation; the theorems
    (SeedProofs.v) say that the decoder rejects exactly the phrases with a non-empty set and
    that the error it reports names a member of the set.  The correspondence check compares
    accept / reject (and the entropy on accept) only. *)
Inductive defect :=
| WrongCount      (* not exactly twelve words *)
| UnknownWord     (* some token is not in the word list *)
| BadChecksum.    (* twelve list words whose last four bits are not the checksum of the entropy they denote *)

Definition defects (cks : N -> N -> N) (ts : list token) : list defect :=
  (if Nat.eqb (length ts) 12 then [] else [WrongCount]) ++
  (if forallb known ts then [] else [UnknownWord]) ++
  (if Nat.eqb (length ts) 12 && forallb known ts then
     let ws := map idx ts in
     let e := entropy_of ws in
     if cks (e / 2 ^ 64) (e mod 2 ^ 64) =? nibble_of ws then [] else [BadChecksum]
   else []).

(** the defect an error of [decodeBIP39Phrase] names *)
Definition named_defect (r : dres) : option defect :=
  match r with
  | DOk _ _ => None
  | DErrCount => Some WrongCount
  | DErrWord => Some UnknownWord
  | DErrChecksum => Some BadChecksum
  end.
