(** * Wallet/LedgerProofs.v — proofs about [Wallet/Ledger.v] (C06). *)
From Coq Require Import NArith ZArith List Lia.
From stdpp Require Import gmap.
From CV Require Import Wallet.Ledger.
Import ListNotations.
Open Scope N_scope.


(** ** The reference store's map operations *)
Lemma del_all_lookup l : ∀ u o,
  del_all l u !! o = if decide (o ∈ ids l) then None else u !! o.
Proof.
  induction l as [|[[o' v'] m'] l IH]; intros u o; cbn [del_all fold_left ids map].
  - destruct (decide (o ∈ [])) as [H|_]; [by apply elem_of_nil in H|done].
  - change (fold_left _ l ?u) with (del_all l u). rewrite IH. unfold oid at 2. cbn.
    destruct (decide (o ∈ ids l)) as [Hin|Hnin].
    + rewrite decide_True; [done|]. by right.
    + destruct (decide (o = o')) as [->|Hne].
      * rewrite decide_True by (by left). by rewrite lookup_delete.
      * rewrite decide_False; [by rewrite lookup_delete_ne|].
        intros [->|?]%elem_of_cons; done.
Qed.

Lemma ins_all_notin l : ∀ u o, o ∉ ids l → ins_all l u !! o = u !! o.
Proof.
  induction l as [|[[o' v'] m'] l IH]; intros u o Hn; cbn [ins_all fold_left]; [done|].
  change (fold_left _ l ?u) with (ins_all l u).
  cbn [ids map] in Hn. unfold oid at 1 in Hn. cbn in Hn.
  rewrite IH by (intros ?; apply Hn; by right).
  rewrite lookup_insert_ne; [done|]. intros ->. apply Hn. by left.
Qed.

Lemma ins_all_in l : ∀ u o v m,
  NoDup (ids l) → (o, v, m) ∈ l → ins_all l u !! o = Some (v, m).
Proof.
  induction l as [|[[o' v'] m'] l IH]; intros u o v m Hnd Hin; [by apply elem_of_nil in Hin|].
  cbn [ins_all fold_left]. change (fold_left _ l ?u) with (ins_all l u).
  cbn [ids map] in Hnd. unfold oid at 1 in Hnd. cbn in Hnd. apply NoDup_cons in Hnd as [Hn Hnd].
  apply elem_of_cons in Hin as [[= -> -> ->]|Hin].
  - rewrite ins_all_notin by done. by rewrite lookup_insert.
  - by apply IH.
Qed.

Lemma in_ids l o : o ∈ ids l ↔ ∃ v m, (o, v, m) ∈ l.
Proof.
  unfold ids. rewrite elem_of_list_fmap. split.
  - intros ([[o' v] m] & -> & Hin). by exists v, m.
  - intros (v & m & Hin). by exists (o, v, m).
Qed.

Lemma index_eqb_eq a b : index_eqb a b = true ↔ a = b.
Proof.
  destruct a as [h x], b as [h' x']. unfold index_eqb. cbn.
  rewrite andb_true_iff, !N.eqb_eq. split; [intros [-> ->]; done|intros [= -> ->]; done].
Qed.

(** ** Events only ever get appended, all with the block's index *)
Definition Ext (idx : N * N) (f : list event → list event) (net : Z) : Prop :=
  ∀ acc, ∃ new, f acc = acc ++ new ∧ Forall (λ e, e_index e = idx) new ∧ net_events new = net.

Lemma net_events_app a b : net_events (a ++ b) = (net_events a + net_events b)%Z.
Proof.
  induction a as [|e a IH]; [change (net_events b = 0 + net_events b)%Z; lia|].
  change (net_events ((e :: a) ++ b)) with (e_in e - e_out e + net_events (a ++ b))%Z.
  change (net_events (e :: a)) with (e_in e - e_out e + net_events a)%Z. rewrite IH. lia.
Qed.

Lemma Ext_id idx : Ext idx (λ acc, acc) 0.
Proof. intros acc. exists []. by rewrite app_nil_r. Qed.

Lemma Ext_comp idx f g nf ng : Ext idx f nf → Ext idx g ng → Ext idx (λ acc, g (f acc)) (nf + ng).
Proof.
  intros Hf Hg acc. destruct (Hf acc) as (n1 & -> & H1 & E1).
  destruct (Hg (acc ++ n1)) as (n2 & -> & H2 & E2).
  exists (n1 ++ n2). rewrite app_assoc. split; [done|]. split; [by apply Forall_app|].
  rewrite net_events_app. lia.
Qed.

Lemma Ext_add_event idx id k i o m : Ext idx (add_event idx id k i o m) (i - o).
Proof.
  intros acc. unfold add_event. destruct (Z.eqb_spec i o) as [->|Hne].
  - exists []. rewrite app_nil_r. split; [done|]. split; [constructor|cbn; lia].
  - exists [Ev idx id i o k m]. split; [done|]. split; [by repeat constructor|cbn; lia].
Qed.

Definition payout_net (test : payout → bool) (p : payout) : Z := if test p then p_val p else 0%Z.

Lemma Ext_add_payout test idx k p : Ext idx (λ acc, add_payout test idx k acc p) (payout_net test p).
Proof.
  unfold add_payout, payout_net. destruct (test p).
  - intros acc. destruct (Ext_add_event idx (p_id p) k (p_val p) 0 (p_mat p) acc) as (new & E & H & N).
    exists new. split_and!; [done|done|lia].
  - apply Ext_id.
Qed.

Definition payouts_net (test : payout → bool) (l : list payout) : Z :=
  fold_right (λ p acc, (payout_net test p + acc)%Z) 0%Z l.

Lemma Ext_fold_payouts test idx k l :
  Ext idx (λ acc, fold_left (add_payout test idx k) l acc) (payouts_net test l).
Proof.
  induction l as [|p l IH]; cbn [fold_left payouts_net fold_right]; [apply Ext_id|].
  apply (Ext_comp idx (λ acc, add_payout test idx k acc p) _ _ _ (Ext_add_payout test idx k p) IH).
Qed.

(** the net effect of the events an item produces (fixed code) *)
Definition item_evnet (it : item) : Z :=
  match it with
  | ITx _ _ relevant inflow outflow claims =>
      (payouts_net p_pays claims + if relevant then inflow - outflow else 0)%Z
  | IRes1 outs => payouts_net p_keyed outs
  | IRes2 host renter => (payout_net p_pays host + payout_net p_pays renter)%Z
  | IMiner p => payout_net p_keyed p
  | IFound p => payout_net p_pays p
  end.

Lemma Ext_item idx it : Ext idx (λ acc, item_events idx acc it) (item_evnet it).
Proof.
  destruct it as [v2 id rel i o claims|outs|host renter|p|p]; cbn [item_events item_evnet].
  - destruct rel.
    + apply (Ext_comp idx _ _ _ _ (Ext_fold_payouts p_pays idx 2 claims)
               (Ext_add_event idx id (if v2 then 5 else 3) i o (fst idx))).
    + replace (payouts_net p_pays claims + 0)%Z with (payouts_net p_pays claims) by lia.
      apply Ext_fold_payouts.
  - apply Ext_fold_payouts.
  - apply (Ext_comp idx (λ acc, add_payout p_pays idx 6 acc host) (λ acc, add_payout p_pays idx 6 acc renter));
      apply Ext_add_payout.
  - apply Ext_add_payout.
  - apply Ext_add_payout.
Qed.

Definition items_evnet (l : list item) : Z := fold_right (λ it acc, (item_evnet it + acc)%Z) 0%Z l.

Lemma Ext_items idx l : Ext idx (λ acc, fold_left (item_events idx) l acc) (items_evnet l).
Proof.
  induction l as [|it l IH]; cbn [fold_left items_evnet fold_right]; [apply Ext_id|].
  apply (Ext_comp idx (λ acc, item_events idx acc it) _ _ _ (Ext_item idx it) IH).
Qed.

Lemma applied_events_spec b :
  Forall (λ e, e_index e = index_of b) (applied_events b) ∧
  net_events (applied_events b) = items_evnet (ab_items b).
Proof.
  unfold applied_events. destruct (Ext_items (index_of b) (ab_items b) []) as (new & -> & H & E).
  done.
Qed.

(** ** revert ∘ apply = id on a state the block fits *)
Record Fits (st : wstore) (b : ablock) : Prop := {
  F_nd_c : NoDup (ids (ab_created b));
  F_nd_s : NoDup (ids (ab_spent b));
  F_fresh : ∀ o, o ∈ ids (ab_created b) → utxos st !! o = None;
  F_have : ∀ o v m, (o, v, m) ∈ ab_spent b → utxos st !! o = Some (v, m);
  F_index : ∀ e, e ∈ events st → e_index e ≠ index_of b;
}.

Lemma filter_keep {A} (f : A → bool) l : (∀ x, x ∈ l → f x = true) → List.filter f l = l.
Proof.
  induction l as [|a l IH]; intros H; cbn; [done|].
  rewrite (H a) by (by left). f_equal. apply IH. intros x Hx. apply H. by right.
Qed.
Lemma filter_drop {A} (f : A → bool) l : (∀ x, x ∈ l → f x = false) → List.filter f l = [].
Proof.
  induction l as [|a l IH]; intros H; cbn; [done|].
  rewrite (H a) by (by left). apply IH. intros x Hx. apply H. by right.
Qed.

Lemma revert_apply st b : Fits st b → revert_chain_update (apply_chain_update st b) b = st.
Proof.
  intros [Hc Hs Hf Hh Hi]. destruct st as [u evs]. unfold revert_chain_update, apply_chain_update.
  cbn [utxos events] in *. f_equal.
  - apply map_eq. intros o.
    destruct (decide (o ∈ ids (ab_spent b))) as [Hin|Hnin].
    + apply in_ids in Hin as (v & m & Hin). rewrite (ins_all_in _ _ o v m Hs Hin). symmetry. eauto.
    + rewrite ins_all_notin by done. rewrite del_all_lookup.
      destruct (decide (o ∈ ids (ab_created b))) as [Hc'|Hc']; [symmetry; auto|].
      rewrite ins_all_notin by done. rewrite del_all_lookup. by rewrite decide_False.
  - rewrite Coq.Lists.List.filter_app. destruct (applied_events_spec b) as [Hall _].
    rewrite filter_keep, filter_drop; [by rewrite app_nil_r| |].
    + intros e He. rewrite Forall_forall in Hall. apply negb_false_iff, index_eqb_eq, Hall.
      done.
    + intros e He. apply negb_true_iff. apply not_true_iff_false. intros Heq%index_eqb_eq.
      by apply (Hi e).
Qed.

(** ** Sums over the stored outputs *)
Lemma total_insert u o v m : u !! o = None → total (<[o := (v, m)]> u) = (v + total u)%Z.
Proof.
  intros Hn. unfold total. rewrite map_fold_insert_L; [done| |done].
  intros j1 j2 z1 z2 y _ _ _. lia.
Qed.

Lemma total_delete u o v m : u !! o = Some (v, m) → total (delete o u) = (total u - v)%Z.
Proof.
  intros Hs. rewrite <- (insert_delete u o (v, m) Hs) at 2.
  rewrite total_insert by apply lookup_delete. lia.
Qed.

Lemma total_ins_all l : ∀ u,
  NoDup (ids l) → (∀ o, o ∈ ids l → u !! o = None) →
  total (ins_all l u) = (sum_vals l + total u)%Z.
Proof.
  induction l as [|[[o v] m] l IH]; intros u Hnd Hf; cbn [ins_all fold_left sum_vals fold_right]; [lia|].
  change (fold_left _ l ?u) with (ins_all l u).
  cbn [ids map] in Hnd, Hf. unfold oid at 1 in Hnd. unfold oid at 1 in Hf. cbn in Hnd, Hf.
  apply NoDup_cons in Hnd as [Hn Hnd].
  rewrite IH; [|done|].
  - rewrite total_insert by (apply Hf; by left). change (foldr _ 0%Z l) with (sum_vals l). lia.
  - intros o' Ho'. rewrite lookup_insert_ne; [apply Hf; by right|]. intros ->. done.
Qed.

Lemma total_del_all l : ∀ u,
  NoDup (ids l) → (∀ o v m, (o, v, m) ∈ l → u !! o = Some (v, m)) →
  total (del_all l u) = (total u - sum_vals l)%Z.
Proof.
  induction l as [|[[o v] m] l IH]; intros u Hnd Hh; cbn [del_all fold_left sum_vals fold_right]; [lia|].
  change (fold_left _ l ?u) with (del_all l u).
  cbn [ids map] in Hnd. unfold oid at 1 in Hnd. cbn in Hnd. apply NoDup_cons in Hnd as [Hn Hnd].
  rewrite IH; [|done|].
  - rewrite (total_delete u o v m) by (apply Hh; by left). change (foldr _ 0%Z l) with (sum_vals l). lia.
  - intros o' v' m' Hin. rewrite lookup_delete_ne; [apply Hh; by right|].
    intros ->. apply Hn. apply in_ids. eauto.
Qed.

Lemma apply_total st b :
  Fits st b →
  total (utxos (apply_chain_update st b)) = (total (utxos st) + net_diffs b)%Z.
Proof.
  intros [Hc Hs Hf Hh _]. unfold apply_chain_update, net_diffs. cbn [utxos].
  rewrite total_ins_all; [|done|].
  - rewrite total_del_all by done. lia.
  - intros o Ho. rewrite del_all_lookup. destruct (decide (o ∈ ids (ab_spent b))); auto.
Qed.

(** ** The per-block law, kind by kind *)
Lemma payouts_net_pays l : payouts_net p_pays l = fold_right (λ p acc, (pays_val p + acc)%Z) 0%Z l.
Proof. induction l as [|p l IH]; cbn; [done|]. unfold payouts_net in IH. by rewrite IH. Qed.

Lemma payouts_net_plain l :
  forallb payout_plain l = true → payouts_net p_keyed l = fold_right (λ p acc, (pays_val p + acc)%Z) 0%Z l.
Proof.
  induction l as [|p l IH]; cbn; [done|]. intros [Hp Hl]%andb_true_iff.
  unfold payouts_net in IH. rewrite (IH Hl). unfold payout_net, pays_val.
  apply Bool.eqb_prop in Hp. by rewrite Hp.
Qed.

(** the events an item produces change the wallet's view by exactly what the item does to
    the address's holdings — for every kind *)
Lemma item_law it : item_wf it = true → item_evnet it = item_diff it.
Proof.
  destruct it as [v2 id rel i o claims|outs|host renter|p|p]; cbn [item_wf item_evnet item_diff]; intros Hwf.
  - rewrite payouts_net_pays. destruct rel; [lia|]. cbn in Hwf.
    apply andb_true_iff in Hwf as [->%Z.eqb_eq ->%Z.eqb_eq]. lia.
  - by apply payouts_net_plain.
  - done.
  - unfold payout_net, pays_val. apply Bool.eqb_prop in Hwf. by rewrite Hwf.
  - done.
Qed.

Lemma items_law l :
  forallb item_wf l = true → items_evnet l = fold_right (λ it acc, (item_diff it + acc)%Z) 0%Z l.
Proof.
  induction l as [|it l IH]; cbn; [done|]. intros [Hi Hl]%andb_true_iff.
  unfold items_evnet in IH. by rewrite (IH Hl), (item_law it Hi).
Qed.

Lemma block_law b : block_wf b = true → net_events (applied_events b) = net_diffs b.
Proof.
  intros [Hw He%Z.eqb_eq]%andb_true_iff. destruct (applied_events_spec b) as [_ ->].
  by rewrite items_law.
Qed.

(** before the fixes the law fails for siafund claims (claimant but not owner; owner but not
    claimant) and for v2 resolutions whose payouts go to other addresses than the contract's *)
Lemma legacy_law_refuted :
  (∃ it, item_wf it = true ∧ net_events (item_events_legacy (1, 1) [] it) ≠ item_diff it ∧
         ∃ v2 id c, it = ITx v2 id false 0 0 [c] ∧ p_keyed c = false ∧ p_pays c = true) ∧
  (∃ it, item_wf it = true ∧ net_events (item_events_legacy (1, 1) [] it) ≠ item_diff it ∧
         ∃ v2 id i o c, it = ITx v2 id true i o [c] ∧ p_keyed c = true ∧ p_pays c = false) ∧
  (∃ it, item_wf it = true ∧ net_events (item_events_legacy (1, 1) [] it) ≠ item_diff it ∧
         ∃ h r, it = IRes2 h r).
Proof.
  split_and!.
  - exists (ITx false 7 false 0 0 [Po 9 false true 100 5]). split_and!; [done|vm_compute; lia|by eauto 10].
  - exists (ITx true 7 true 10 20 [Po 9 true false 100 5]). split_and!; [done|vm_compute; lia|by eauto 10].
  - exists (IRes2 (Po 1 true false 50 3) (Po 2 false true 60 3)). split_and!; [done|vm_compute; lia|by eauto].
Qed.

(** ** Chains of abstract blocks *)
Section Chain.
  Context (B : gmap N ablock).

  Local Notation created_of := (Ledger.created_of B).
  Local Notation spent_of := (Ledger.spent_of B).
  Local Notation events_of := (Ledger.events_of B).
  Local Notation created_along := (Ledger.created_along B).
  Local Notation spent_along := (Ledger.spent_along B).

  (** a ledger-valid chain (tip first), as consensus guarantees it: the blocks are in the
      table under their own ids and distinct; no output id is created twice or spent twice
      along the chain; every spent output was created, with that value and maturity, by an
      earlier block of the chain *)
  Record GoodC (l : list N) : Prop := {
    G_tab : ∀ b, b ∈ l → ∃ x, B !! b = Some x ∧ ab_id x = b;
    G_nd : NoDup l;
    G_nd_c : NoDup (ids (created_along l));
    G_nd_s : NoDup (ids (spent_along l));
    G_spent : ∀ l1 b l2, l = l1 ++ b :: l2 → ∀ e, e ∈ spent_of b → e ∈ created_along l2;
  }.

  Lemma GoodC_nil : GoodC [].
  Proof.
    split; cbn; try constructor.
    - intros b Hb. by apply elem_of_nil in Hb.
    - intros l1 b l2 He. by destruct l1.
  Qed.

  Lemma GoodC_tail b l : GoodC (b :: l) → GoodC l.
  Proof.
    intros [Ht Hn Hc Hs Hsp]. split.
    - intros x Hx. apply Ht. by right.
    - by apply NoDup_cons in Hn as [_ ?].
    - cbn [created_along flat_map] in Hc. unfold ids in *. rewrite map_app in Hc.
      by apply NoDup_app in Hc as (_ & _ & ?).
    - cbn [spent_along flat_map] in Hs. unfold ids in *. rewrite map_app in Hs.
      by apply NoDup_app in Hs as (_ & _ & ?).
    - intros l1 x l2 -> e He. by apply (Hsp (b :: l1) x l2).
  Qed.

  Lemma ids_app a c : ids (a ++ c) = ids a ++ ids c.
  Proof. unfold ids. apply map_app. Qed.

  Lemma spent_in_created l : GoodC l → ∀ e, e ∈ spent_along l → e ∈ created_along l.
  Proof.
    induction l as [|b l IH]; intros HG e He; [by apply elem_of_nil in He|].
    cbn [spent_along created_along flat_map] in *. apply elem_of_app in He as [He|He].
    - apply elem_of_app. right. by apply (G_spent _ HG [] b l).
    - apply elem_of_app. right. apply IH; [by eapply GoodC_tail|done].
  Qed.

  Lemma oid_in l o v m : (o, v, m) ∈ l → o ∈ ids l.
  Proof. intros H. apply in_ids. eauto. Qed.

  (** *** the stored outputs of the linear replay are the outputs created and not spent along
      the chain, with the value and maturity height of their creation *)
  Lemma utxos_linear l : GoodC l → ∀ o v m,
    utxos (linear B l) !! o = Some (v, m) ↔ (o, v, m) ∈ created_along l ∧ o ∉ ids (spent_along l).
  Proof.
    induction l as [|b l IH]; intros HG o v m.
    - cbn. rewrite lookup_empty. split; [done|]. intros [H _]. by apply elem_of_nil in H.
    - pose proof (GoodC_tail _ _ HG) as HGl. specialize (IH HGl).
      destruct (G_tab _ HG b) as (x & Hx & Hid); [by left|].
      cbn [linear wstep]. rewrite Hx. unfold apply_chain_update. cbn [utxos].
      cbn [created_along spent_along flat_map]. unfold created_of at 1, spent_of at 1. rewrite Hx.
      fold (created_along l) (spent_along l).
      pose proof (G_nd_c _ HG) as Hndc. cbn [created_along flat_map] in Hndc.
      unfold created_of at 1 in Hndc. rewrite Hx, ids_app in Hndc. fold (created_along l) in Hndc.
      apply NoDup_app in Hndc as (HndC & HdisC & _).
      rewrite ids_app, elem_of_app, not_elem_of_app.
      destruct (decide (o ∈ ids (ab_created x))) as [HoC|HoC].
      + apply in_ids in HoC as (v' & m' & Hin). rewrite (ins_all_in _ _ o v' m' HndC Hin).
        assert (o ∈ ids (ab_created x)) as HoC by (by eapply oid_in).
        split.
        * intros [= <- <-]. split; [by left|]. split.
          -- intros (v2 & m2 & Hs)%in_ids.
             assert ((o, v2, m2) ∈ created_along l) as Hc2.
             { apply (G_spent _ HG [] b l eq_refl). unfold spent_of. by rewrite Hx. }
             apply (HdisC o HoC). by eapply oid_in.
          -- intros (v2 & m2 & Hs)%in_ids.
             apply (spent_in_created _ HGl) in Hs. apply (HdisC o HoC). by eapply oid_in.
        * intros [[Hc|Hc] _].
          -- f_equal. assert (NoDup (ids (ab_created x))) as Hnd' by done.
             pose proof (ins_all_in (ab_created x) ∅ o v m HndC Hc) as E1.
             pose proof (ins_all_in (ab_created x) ∅ o v' m' HndC Hin) as E2. congruence.
          -- exfalso. apply (HdisC o HoC). by eapply oid_in.
      + rewrite ins_all_notin by done. rewrite del_all_lookup.
        destruct (decide (o ∈ ids (ab_spent x))) as [HoS|HoS].
        * split; [done|]. intros [_ [Hn _]]. done.
        * rewrite IH. split.
          -- intros [Hc Hs]. split; [by right|done].
          -- intros [[Hc|Hc] [_ Hs]]; [|done]. exfalso. apply HoC. by eapply oid_in.
  Qed.

  Lemma events_linear l : events (linear B l) = flat_map events_of (rev l).
  Proof.
    induction l as [|b l IH]; [done|].
    cbn [linear wstep rev]. rewrite flat_map_app. cbn [flat_map]. rewrite app_nil_r, <- IH.
    unfold events_of. destruct (B !! b); [done|by rewrite app_nil_r].
  Qed.

  Lemma events_linear_index l : GoodC l → ∀ e, e ∈ events (linear B l) →
    ∃ b x, b ∈ l ∧ B !! b = Some x ∧ e_index e = index_of x.
  Proof.
    intros HG e. rewrite events_linear. intros (b & Hb & He)%elem_of_list_In%in_flat_map.
    apply in_rev in Hb. apply elem_of_list_In in Hb, He.
    unfold events_of in He. destruct (B !! b) as [x|] eqn:Hx; [|by apply elem_of_nil in He].
    exists b, x. split_and!; [done|done|].
    destruct (applied_events_spec x) as [Hall _]. rewrite Forall_forall in Hall. by apply Hall.
  Qed.

  Lemma GoodC_fits b l x : GoodC (b :: l) → B !! b = Some x → Fits (linear B l) x.
  Proof.
    intros HG Hx. pose proof (GoodC_tail _ _ HG) as HGl.
    pose proof (G_nd_c _ HG) as Hndc. cbn [created_along flat_map] in Hndc.
    unfold created_of at 1 in Hndc. rewrite Hx, ids_app in Hndc. fold (created_along l) in Hndc.
    apply NoDup_app in Hndc as (HndC & HdisC & _).
    pose proof (G_nd_s _ HG) as Hnds. cbn [spent_along flat_map] in Hnds.
    unfold spent_of at 1 in Hnds. rewrite Hx, ids_app in Hnds. fold (spent_along l) in Hnds.
    apply NoDup_app in Hnds as (HndS & HdisS & _).
    split; [done|done| | |].
    - intros o Ho. destruct (utxos (linear B l) !! o) as [[v m]|] eqn:E; [|done].
      apply (utxos_linear l HGl) in E as [Hc _]. exfalso. apply (HdisC o Ho). by eapply oid_in.
    - intros o v m Hin. apply (utxos_linear l HGl). split.
      + apply (G_spent _ HG [] b l eq_refl). unfold spent_of. by rewrite Hx.
      + apply HdisS. by eapply oid_in.
    - intros e He. destruct (events_linear_index l HGl e He) as (b' & x' & Hb' & Hx' & ->).
      destruct (G_tab _ HG b) as (x0 & Hx0 & Hid); [by left|]. simplify_eq.
      destruct (G_tab _ HGl b') as (x1 & Hx1 & Hid'); [done|]. simplify_eq.
      unfold index_of. intros [= _ Heq]. pose proof (G_nd _ HG) as Hnd.
      apply NoDup_cons in Hnd as [Hn _]. apply Hn. by rewrite <- Heq.
  Qed.

  (** *** the update stream as a walk over chains: a revert undoes the block the wallet stands
      on, an apply puts a block on top (and what results is a ledger-valid chain) *)
  Inductive Walk : list N → list step → list N → Prop :=
  | W_nil sh : Walk sh [] sh
  | W_rev b sh steps sh' : Walk sh steps sh' → Walk (b :: sh) (SRev b :: steps) sh'
  | W_app b sh steps sh' : GoodC (b :: sh) → Walk (b :: sh) steps sh' → Walk sh (SApp b :: steps) sh'.

  Lemma walk_linear sh steps sh' :
    Walk sh steps sh' → GoodC sh → wfold B (linear B sh) steps = linear B sh' ∧ GoodC sh'.
  Proof.
    induction 1 as [sh|b sh steps sh' _ IH|b sh steps sh' HG _ IH]; intros HGs.
    - done.
    - destruct (G_tab _ HGs b) as (x & Hx & _); [by left|].
      cbn [wfold fold_left]. change (fold_left (wstep B) steps ?s) with (wfold B s steps).
      cbn [wstep linear]. rewrite Hx.
      rewrite (revert_apply _ _ (GoodC_fits b sh x HGs Hx)). apply IH. by eapply GoodC_tail.
    - cbn [wfold fold_left]. change (fold_left (wstep B) steps ?s) with (wfold B s steps).
      by apply IH.
  Qed.

  Lemma walk_from_nothing steps l :
    Walk [] steps l → wfold B ws0 steps = linear B l ∧ GoodC l.
  Proof. intros H. apply (walk_linear [] steps l H GoodC_nil). Qed.

  (** *** C06 theorems *)
  Lemma utxos_are_linear steps l :
    Walk [] steps l → ∀ o v m,
    utxos (wfold B ws0 steps) !! o = Some (v, m) ↔
    (o, v, m) ∈ created_along l ∧ o ∉ ids (spent_along l).
  Proof. intros H. destruct (walk_from_nothing steps l H) as [-> HG]. by apply utxos_linear. Qed.

  Lemma events_are_linear steps l :
    Walk [] steps l →
    events (wfold B ws0 steps) = flat_map events_of (rev l) ∧
    ∀ e, e ∈ events (wfold B ws0 steps) → ∃ b x, b ∈ l ∧ B !! b = Some x ∧ e_index e = index_of x.
  Proof.
    intros H. destruct (walk_from_nothing steps l H) as [-> HG]. split; [apply events_linear|].
    by apply events_linear_index.
  Qed.

  Lemma chunks_fold chunks : ∀ st,
    fold_left (λ st c, update_chain_state B st (fst c) (snd c)) chunks st = wfold B st (steps_of chunks).
  Proof.
    induction chunks as [|c chunks IH]; intros st; [done|].
    cbn [fold_left steps_of flat_map]. unfold wfold. rewrite fold_left_app. apply IH.
  Qed.

  Lemma chunking_irrelevant :
    (∀ chunks st, fold_left (λ st c, update_chain_state B st (fst c) (snd c)) chunks st =
                  wfold B st (steps_of chunks)) ∧
    (∀ steps1 steps2 l, Walk [] steps1 l → Walk [] steps2 l → wfold B ws0 steps1 = wfold B ws0 steps2).
  Proof.
    split; [intros; apply chunks_fold|].
    intros s1 s2 l H1 H2. destruct (walk_from_nothing s1 l H1) as [-> _].
    by destruct (walk_from_nothing s2 l H2) as [-> _].
  Qed.

  Lemma balance_linear l :
    GoodC l → (∀ b x, b ∈ l → B !! b = Some x → block_wf x = true) →
    net_events (events (linear B l)) = total (utxos (linear B l)).
  Proof.
    induction l as [|b l IH]; intros HG Hwf; [done|].
    destruct (G_tab _ HG b) as (x & Hx & _); [by left|].
    cbn [linear wstep]. rewrite Hx.
    rewrite (apply_total _ _ (GoodC_fits b l x HG Hx)). cbn [apply_chain_update events].
    rewrite net_events_app, (block_law x) by (eapply Hwf; [by left|done]).
    rewrite IH; [done|by eapply GoodC_tail|]. intros b' x' Hb'. apply Hwf. by right.
  Qed.

  Lemma balance_identity steps l :
    Walk [] steps l → (∀ b x, b ∈ l → B !! b = Some x → block_wf x = true) →
    net_events (events (wfold B ws0 steps)) = total (utxos (wfold B ws0 steps)).
  Proof. intros H Hwf. destruct (walk_from_nothing steps l H) as [-> HG]. by apply balance_linear. Qed.
End Chain.

(** ** Walks compose, and a contiguous chunk (C04) is a walk *)
Section Walks.
  Context (B : gmap N ablock).

  Lemma walk_trans a s1 b s2 c : Walk B a s1 b → Walk B b s2 c → Walk B a (s1 ++ s2) c.
  Proof. induction 1; cbn; intros H2; [done|constructor; auto|constructor; auto]. Qed.

  Lemma walk_reverts rus sh : Walk B (rus ++ sh) (map SRev rus) sh.
  Proof. induction rus as [|b rus IH]; cbn; constructor. done. Qed.

  Lemma walk_applies aus : ∀ sh,
    (∀ k, (1 ≤ k ≤ length aus)%nat → GoodC B (rev (take k aus) ++ sh)) →
    Walk B sh (map SApp aus) (rev aus ++ sh).
  Proof.
    induction aus as [|b aus IH]; intros sh HG; cbn [map rev app]; [constructor|].
    constructor.
    - apply (HG 1%nat). cbn. lia.
    - rewrite <- app_assoc. cbn [app]. apply IH. intros k Hk.
      specialize (HG (S k)). cbn [take rev] in HG. rewrite <- app_assoc in HG. apply HG. cbn. lia.
  Qed.

  (** one chunk of the stream as C04 describes it: the reverts are the blocks the wallet stands
      on, tip first; the applies stack on what remains *)
  Lemma walk_chunk rus aus sh :
    (∀ k, (1 ≤ k ≤ length aus)%nat → GoodC B (rev (take k aus) ++ sh)) →
    Walk B (rus ++ sh) (map SRev rus ++ map SApp aus) (rev aus ++ sh).
  Proof. intros HG. eapply walk_trans; [apply walk_reverts|by apply walk_applies]. Qed.
End Walks.

(** ** A boolean test for [GoodC] (usable on concrete tables) *)

Lemma spent_okb_sound B l : spent_okb B l = true →
  ∀ l1 b l2, l = l1 ++ b :: l2 → ∀ e, e ∈ spent_of B b → e ∈ created_along B l2.
Proof.
  induction l as [|x l IH]; intros H l1 b l2 He e Hin; [by destruct l1|].
  cbn in H. apply andb_true_iff in H as [H1 H2].
  destruct l1 as [|y l1]; cbn in He; simplify_eq.
  - rewrite forallb_forall in H1. apply elem_of_list_In in Hin.
    specialize (H1 e Hin). by apply bool_decide_eq_true in H1.
  - by eapply IH.
Qed.

Lemma goodb_sound B l : goodb B l = true → GoodC B l.
Proof.
  unfold goodb. intros [[[[H1 H2]%andb_true_iff H3]%andb_true_iff H4]%andb_true_iff H5]%andb_true_iff.
  split.
  - intros b Hb. rewrite forallb_forall in H1. apply elem_of_list_In in Hb. specialize (H1 b Hb).
    destruct (B !! b) as [x|]; [|done]. exists x. split; [done|]. by apply N.eqb_eq.
  - by apply bool_decide_eq_true in H2.
  - by apply bool_decide_eq_true in H3.
  - by apply bool_decide_eq_true in H4.
  - by apply spent_okb_sound.
Qed.

(** * Examples: the hypotheses are met by a concrete history with a reorg *)
Module ExW.
  (** genesis 0 pays the wallet outputs 1 and 2; block 1 spends output 1 (change 3) and pays the
      miner reward 4 to the wallet; the fork 2-3 replaces it: block 2 pays reward 5, block 3
      spends output 2 (change 6) and a siafund claim 7 of another owner's siafunds is paid to
      the wallet *)
  Definition blocks : list ablock := [
    Ab 0 0 [(1, 1000%Z, 0); (2, 500%Z, 0)] [] [ITx false 100 true 1500 0 []];
    Ab 1 1 [(3, 400%Z, 1); (4, 30%Z, 3)] [(1, 1000%Z, 0)]
       [ITx false 101 true 400 1000 []; IMiner (Po 4 true true 30 3)];
    Ab 2 1 [(5, 30%Z, 3)] [] [IMiner (Po 5 true true 30 3)];
    Ab 3 2 [(6, 450%Z, 2); (7, 7%Z, 4)] [(2, 500%Z, 0)]
       [ITx true 102 true 450 500 [Po 7 false true 7 4]] ].
  Definition B : gmap N ablock := list_to_map (map (λ b, (ab_id b, b)) blocks).
  Definition steps : list step := [SApp 0; SApp 1; SRev 1; SApp 2; SApp 3].

  Example blocks_wf : forallb block_wf blocks = true.
  Proof. vm_compute. reflexivity. Qed.

  Example walk : Walk B [] steps [3; 2; 0].
  Proof.
    repeat (first [apply W_nil | apply W_rev | apply W_app; [apply goodb_sound; vm_compute; reflexivity|]]).
  Qed.

  Example final_utxos :
    utxos (wfold B ws0 steps) = list_to_map [(1, (1000%Z, 0)); (5, (30%Z, 3)); (6, (450%Z, 2)); (7, (7%Z, 4))].
  Proof. apply map_eq. intros o. vm_compute. reflexivity. Qed.

  Example final_events :
    map e_id (events (wfold B ws0 steps)) = [100; 5; 7; 102] ∧
    net_events (events (wfold B ws0 steps)) = 1487%Z ∧ total (utxos (wfold B ws0 steps)) = 1487%Z.
  Proof. vm_compute. split_and!; reflexivity. Qed.

  (** chunked differently (one chunk that ends on the revert, then the rest): same state *)
  Example chunked :
    fold_left (λ st c, update_chain_state B st (fst c) (snd c)) [([], [0; 1]); ([1], []); ([], [2; 3])] ws0 =
    wfold B ws0 steps.
  Proof. vm_compute. reflexivity. Qed.

  (** with the code before the fixes the claim 7 has no event: the identity fails *)
  Example legacy_breaks_identity :
    net_events (fold_left (item_events_legacy (2, 3)) (ab_items (Ab 3 2 [] [] [ITx true 102 true 450 500 [Po 7 false true 7 4]])) [])
    = (-50)%Z ∧ net_diffs (Ab 3 2 [(6, 450%Z, 2); (7, 7%Z, 4)] [(2, 500%Z, 0)] []) = (-43)%Z.
  Proof. vm_compute. split; reflexivity. Qed.
End ExW.
