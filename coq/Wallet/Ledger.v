(** * Wallet/Ledger.v — the single-address wallet's ledger under the update stream
    (wallet/update.go, wallet/events.go, testutil/wallet.go).  Definitions only.

    An abstract block carries what the wallet code looks at, for one address: the
    address's created / spent siacoin elements (non-ephemeral, in diff order) and the
    event sources in the order [appliedEvents] visits them.  A [payout] records both
    the test the code performs ([p_keyed]: the address named by the block's own data —
    the miner payout's, the proof output's, (before the fixes) the siafund owner's or
    the contract's) and what the chain does ([p_pays]: the created element pays the
    wallet), so that "the event is recorded iff the output is the wallet's" is a
    statement about the model and not built into it. *)
From Coq Require Import NArith ZArith List.
From stdpp Require Import gmap.
Import ListNotations.
Open Scope N_scope.

Record payout := Po { p_id : N; p_keyed : bool; p_pays : bool; p_val : Z; p_mat : N }.

Inductive item :=
| ITx (v2 : bool) (id : N) (relevant : bool) (inflow outflow : Z) (claims : list payout)
    (* a transaction: [relevant] = relevantV1Txn/relevantV2Txn; [inflow] = its outputs paying
       the address, [outflow] = the address's outputs it spends; one [payout] per siafund
       input: the claim output ([p_keyed]: the wallet owns the siafunds) *)
| IRes1 (outs : list payout)     (* resolved v1 contract: its valid or missed proof outputs *)
| IRes2 (host renter : payout)   (* resolved v2 contract *)
| IMiner (p : payout)            (* one miner payout *)
| IFound (p : payout).           (* the foundation subsidy, if the block has one *)

Record ablock := Ab {
  ab_id : N; ab_height : N;
  ab_created : list (N * Z * N);   (* (output id, value, maturity height) *)
  ab_spent : list (N * Z * N);
  ab_items : list item;
}.

(** event kinds: 0 miner, 1 foundation, 2 siafundClaim, 3 v1Transaction,
    4 v1ContractResolution, 5 v2Transaction, 6 v2ContractResolution *)
Record event := Ev {
  e_index : N * N;   (* (height, block id) *)
  e_id : N; e_in : Z; e_out : Z; e_kind : N; e_mat : N;
}.

Record wstore := WS { utxos : gmap N (Z * N); events : list event }.
Definition ws0 : wstore := WS ∅ [].

Definition index_of (b : ablock) : N * N := (ab_height b, ab_id b).

(** [addEvent] (update.go:99-115): events whose inflow equals their outflow are skipped *)
Definition add_event (idx : N * N) (id kind : N) (inflow outflow : Z) (mat : N)
    (acc : list event) : list event :=
  if (inflow =? outflow)%Z then acc else acc ++ [Ev idx id inflow outflow kind mat].

Definition add_payout (test : payout → bool) (idx : N * N) (kind : N) (acc : list event) (p : payout)
    : list event :=
  if test p then add_event idx (p_id p) kind (p_val p) 0 (p_mat p) acc else acc.

(** [appliedEvents] (update.go:87-285, with the two fixes: a siafund claim is recorded
    when the claim output pays the wallet, for every transaction of the block; a v2
    resolution payout is recorded when the created output pays the wallet) *)
Definition item_events (idx : N * N) (acc : list event) (it : item) : list event :=
  match it with
  | ITx v2 id relevant inflow outflow claims =>
      let acc1 := fold_left (add_payout p_pays idx 2) claims acc in
      if relevant then add_event idx id (if v2 then 5 else 3) inflow outflow (fst idx) acc1
      else acc1
  | IRes1 outs => fold_left (add_payout p_keyed idx 4) outs acc
  | IRes2 host renter => add_payout p_pays idx 6 (add_payout p_pays idx 6 acc host) renter
  | IMiner p => add_payout p_keyed idx 0 acc p
  | IFound p => add_payout p_pays idx 1 acc p
  end.

Definition applied_events (b : ablock) : list event :=
  fold_left (item_events (index_of b)) (ab_items b) [].

(** the code before the fixes (candidate F10): the claim is keyed on the siafund owner and
    only looked at inside siacoin-relevant transactions; the v2 payout is keyed on the
    contract's address *)
Definition item_events_legacy (idx : N * N) (acc : list event) (it : item) : list event :=
  match it with
  | ITx v2 id relevant inflow outflow claims =>
      if relevant then
        add_event idx id (if v2 then 5 else 3) inflow outflow (fst idx)
          (fold_left (add_payout p_keyed idx 2) claims acc)
      else acc
  | IRes2 host renter => add_payout p_keyed idx 6 (add_payout p_keyed idx 6 acc host) renter
  | _ => item_events idx acc it
  end.

(** the reference store (testutil/wallet.go:51-94) *)
Definition del_all (l : list (N * Z * N)) (u : gmap N (Z * N)) : gmap N (Z * N) :=
  fold_left (λ u '(o, _, _), delete o u) l u.
Definition ins_all (l : list (N * Z * N)) (u : gmap N (Z * N)) : gmap N (Z * N) :=
  fold_left (λ u '(o, v, m), <[o := (v, m)]> u) l u.

(** applyChainUpdate (update.go:288-314) + WalletApplyIndex: spent outputs are dropped,
    created ones added, the block's events appended *)
Definition apply_chain_update (st : wstore) (b : ablock) : wstore :=
  WS (ins_all (ab_created b) (del_all (ab_spent b) (utxos st)))
     (events st ++ applied_events b).

(** revertChainUpdate (update.go:317-345) + WalletRevertIndex: events of the reverted
    index are deleted, the created outputs removed, the spent ones restored *)
Definition index_eqb (a b : N * N) : bool := (fst a =? fst b) && (snd a =? snd b).
Definition revert_chain_update (st : wstore) (b : ablock) : wstore :=
  WS (ins_all (ab_spent b) (del_all (ab_created b) (utxos st)))
     (List.filter (λ e, negb (index_eqb (e_index e) (index_of b))) (events st)).

(** the update stream, block ids resolved through a table of abstract blocks *)
Inductive step := SRev (b : N) | SApp (b : N).

Definition wstep (B : gmap N ablock) (st : wstore) (s : step) : wstore :=
  match s with
  | SRev b => match B !! b with Some blk => revert_chain_update st blk | None => st end
  | SApp b => match B !! b with Some blk => apply_chain_update st blk | None => st end
  end.
Definition wfold (B : gmap N ablock) (st : wstore) (steps : list step) : wstore :=
  fold_left (wstep B) steps st.

(** UpdateChainState (update.go:348-367): one chunk, reverts first *)
Definition update_chain_state (B : gmap N ablock) (st : wstore) (rus aus : list N) : wstore :=
  wfold B st (map SRev rus ++ map SApp aus).
Definition steps_of (chunks : list (list N * list N)) : list step :=
  flat_map (λ c, map SRev (fst c) ++ map SApp (snd c)) chunks.

(** the linear truth: the blocks of a chain (tip first) applied in order from genesis *)
Fixpoint linear (B : gmap N ablock) (l : list N) : wstore :=
  match l with
  | [] => ws0
  | b :: rest => wstep B (linear B rest) (SApp b)
  end.

(** WalletEvents (testutil/wallet.go:118-138): newest first, then stably by maturity
    height, descending *)
Fixpoint insert_desc (e : event) (l : list event) : list event :=
  match l with
  | [] => [e]
  | y :: l' => if e_mat e <? e_mat y then y :: insert_desc e l' else e :: y :: l'
  end.
Definition wallet_events (st : wstore) : list event :=
  fold_right insert_desc [] (rev (events st)).

(** events.go:94-163 reduced to the address: the net effect of an event list, and of a
    block's element diffs for the address *)
Definition net_events (l : list event) : Z := fold_right (λ e acc, (e_in e - e_out e + acc)%Z) 0%Z l.
Definition sum_vals (l : list (N * Z * N)) : Z := fold_right (λ '(_, v, _) acc, (v + acc)%Z) 0%Z l.
Definition net_diffs (b : ablock) : Z := (sum_vals (ab_created b) - sum_vals (ab_spent b))%Z.
Definition total (u : gmap N (Z * N)) : Z := map_fold (λ _ x acc, (fst x + acc)%Z) 0%Z u.

(** what an item does to the address's holdings on the chain (ephemeral outputs included
    on both sides) *)
Definition pays_val (p : payout) : Z := if p_pays p then p_val p else 0%Z.
Definition item_diff (it : item) : Z :=
  match it with
  | ITx _ _ _ inflow outflow claims => (inflow - outflow + fold_right (λ p acc, (pays_val p + acc)%Z) 0 claims)%Z
  | IRes1 outs => fold_right (λ p acc, (pays_val p + acc)%Z) 0%Z outs
  | IRes2 host renter => (pays_val host + pays_val renter)%Z
  | IMiner p | IFound p => pays_val p
  end.

(** structural facts of the abstraction (checked on every generated block): a transaction
    that is not relevant neither pays the address nor spends from it; a miner payout or a v1
    proof output pays the address it names *)
Definition payout_plain (p : payout) : bool := Bool.eqb (p_keyed p) (p_pays p).
Definition item_wf (it : item) : bool :=
  match it with
  | ITx _ _ relevant inflow outflow _ => relevant || ((inflow =? 0)%Z && (outflow =? 0)%Z)
  | IRes1 outs => forallb payout_plain outs
  | IMiner p => payout_plain p
  | _ => true
  end.
Definition block_wf (b : ablock) : bool :=
  forallb item_wf (ab_items b) &&
  (fold_right (λ it acc, (item_diff it + acc)%Z) 0%Z (ab_items b) =? net_diffs b)%Z.

(** ** Ledger-valid chains (used by the theorems as [GoodC]; decided here so that every
    generated chain can be tested) *)
Definition oid (x : N * Z * N) : N := x.1.1.
Definition ids (l : list (N * Z * N)) : list N := map oid l.
Definition created_of (B : gmap N ablock) (b : N) : list (N * Z * N) :=
  match B !! b with Some x => ab_created x | None => [] end.
Definition spent_of (B : gmap N ablock) (b : N) : list (N * Z * N) :=
  match B !! b with Some x => ab_spent x | None => [] end.
Definition events_of (B : gmap N ablock) (b : N) : list event :=
  match B !! b with Some x => applied_events x | None => [] end.
Definition created_along (B : gmap N ablock) (l : list N) : list (N * Z * N) := flat_map (created_of B) l.
Definition spent_along (B : gmap N ablock) (l : list N) : list (N * Z * N) := flat_map (spent_of B) l.

Fixpoint spent_okb (B : gmap N ablock) (l : list N) : bool :=
  match l with
  | [] => true
  | b :: l2 => forallb (λ e, bool_decide (e ∈ created_along B l2)) (spent_of B b) && spent_okb B l2
  end.
(** the blocks are in the table under their own ids and distinct; no output id is created
    twice or spent twice along the chain; every spent output was created, with that value and
    maturity, by an earlier block of the chain *)
Definition goodb (B : gmap N ablock) (l : list N) : bool :=
  forallb (λ b, match B !! b with Some x => ab_id x =? b | None => false end) l &&
  bool_decide (NoDup l) && bool_decide (NoDup (ids (created_along B l))) &&
  bool_decide (NoDup (ids (spent_along B l))) && spent_okb B l.
