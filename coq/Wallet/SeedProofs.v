(** * Wallet/SeedProofs.v — proofs about the BIP39 model of Wallet/Seed.v (C20).

    Plan: every shift/mask step of the two-word code is reduced to [/ 2^k],
    [mod 2^k] and [* 2^k mod 2^128] on the 128-bit value [ent hi lo]
    ([enc_step7/11], [dec_step7/11]; [N.lor] of bit-disjoint numbers is [+]);
    the loops then are the base-2048 digit expansion ([digits]) and its inverse
    ([pack]); the round-trip theorems are arithmetic on [N].  All statements are
    unbounded: for every [hi lo < 2^64], every list of indices, every checksum
    function [cks] (SHA-256 is external; [cks _ _ < 16] is assumed where the
    encoder needs it to stay inside the word list). No axioms. *)
From Coq Require Import NArith ZArith List Bool Lia ZifyN.
From CV Require Import Wallet.Seed.
Import ListNotations.
Open Scope N_scope.
Ltac Zify.zify_post_hook ::= Z.div_mod_to_equations.

(** ** Bit operations as arithmetic *)
Lemma land_disjoint a b k : a < 2^k -> b mod 2^k = 0 -> N.land a b = 0.
Proof.
  intros Ha Hb. apply N.bits_inj_0. intros n. rewrite N.land_spec.
  destruct (N.lt_ge_cases n k) as [Hn|Hn].
  - rewrite <- (N.mod_pow2_bits_low b k n Hn), Hb, N.bits_0. apply andb_false_r.
  - rewrite <- (N.mod_small a (2^k) Ha), N.mod_pow2_bits_high by exact Hn. reflexivity.
Qed.

Lemma lor_disjoint_add a b k : a < 2^k -> b mod 2^k = 0 -> N.lor a b = a + b.
Proof.
  intros Ha Hb. pose proof (land_disjoint a b k Ha Hb) as H0.
  rewrite <- N.lxor_lor by exact H0. symmetry. apply N.add_nocarry_lxor. exact H0.
Qed.

Lemma shl64_spec x k : shl64 x k = (x * 2^k) mod 2^64.
Proof. unfold shl64, mask64. rewrite N.land_ones, N.shiftl_mul_pow2. reflexivity. Qed.
Lemma shr64_spec x k : shr64 x k = x / 2^k.
Proof. unfold shr64. apply N.shiftr_div_pow2. Qed.

(** ** One step of each loop, on the 128-bit value *)
Ltac consts :=
  change (64-11) with 53 in *; change (64-7) with 57 in *;
  change (2^4) with 16 in *; change (2^7) with 128 in *; change (2^11) with 2048 in *;
  change (2^53) with 9007199254740992 in *; change (2^57) with 144115188075855872 in *;
  change (2^64) with 18446744073709551616 in *;
  change (2^128) with 340282366920938463463374607431768211456 in *.

Lemma enc_step11 hi lo : hi < 2^64 -> lo < 2^64 ->
  let lo' := N.lor (shr64 lo 11) (shl64 hi (64-11)) in
  let hi' := shr64 hi 11 in
  hi' < 2^64 /\ lo' < 2^64 /\ ent hi' lo' = ent hi lo / 2048 /\ N.land lo 0x7FF = ent hi lo mod 2048.
Proof.
  intros Hh Hl lo' hi'. subst lo' hi'.
  change 0x7FF with (N.ones 11). rewrite N.land_ones.
  rewrite !shl64_spec, !shr64_spec. unfold ent.
  rewrite (lor_disjoint_add _ _ 53); consts; lia.
Qed.

Lemma enc_step7 hi lo : hi < 2^64 -> lo < 2^64 ->
  let lo' := N.lor (shr64 lo 7) (shl64 hi (64-7)) in
  let hi' := shr64 hi 7 in
  hi' < 2^64 /\ lo' < 2^64 /\ ent hi' lo' = ent hi lo / 128 /\ N.land lo 0x7F = ent hi lo mod 128.
Proof.
  intros Hh Hl lo' hi'. subst lo' hi'.
  change 0x7F with (N.ones 7). rewrite N.land_ones.
  rewrite !shl64_spec, !shr64_spec. unfold ent.
  rewrite (lor_disjoint_add _ _ 57); consts; lia.
Qed.

Lemma enc_last lo c : c < 16 ->
  N.lor (shl64 (N.land lo 0x7F) 4) c = (lo mod 128) * 16 + c.
Proof.
  intros Hc. change 0x7F with (N.ones 7). rewrite N.land_ones, shl64_spec.
  rewrite N.lor_comm, (lor_disjoint_add _ _ 4); consts; lia.
Qed.

Lemma dec_step11 hi lo v : hi < 2^64 -> lo < 2^64 -> v < 2048 ->
  let hi' := N.lor (shl64 hi 11) (shr64 lo (64-11)) in
  let lo' := N.lor (shl64 lo 11) v in
  hi' < 2^64 /\ lo' < 2^64 /\ ent hi' lo' = (ent hi lo * 2048 + v) mod 2^128.
Proof.
  intros Hh Hl Hv hi' lo'. subst lo' hi'.
  rewrite !shl64_spec, !shr64_spec. unfold ent.
  rewrite (N.lor_comm _ (lo / _)), (N.lor_comm _ v).
  rewrite (lor_disjoint_add _ _ 11), (lor_disjoint_add v _ 11); consts; lia.
Qed.

Lemma dec_step7 hi lo v : hi < 2^64 -> lo < 2^64 -> v < 128 ->
  let hi' := N.lor (shl64 hi 7) (shr64 lo (64-7)) in
  let lo' := N.lor (shl64 lo 7) v in
  hi' < 2^64 /\ lo' < 2^64 /\ ent hi' lo' = (ent hi lo * 128 + v) mod 2^128.
Proof.
  intros Hh Hl Hv hi' lo'. subst lo' hi'.
  rewrite !shl64_spec, !shr64_spec. unfold ent.
  rewrite (N.lor_comm _ (lo / _)), (N.lor_comm _ v).
  rewrite (lor_disjoint_add _ _ 7), (lor_disjoint_add v _ 7); consts; lia.
Qed.

(** ** Base-2048 digits and the one-line specification *)
Fixpoint digits (n : nat) (e : N) : list N :=
  match n with O => [] | S n' => digits n' (e / 2048) ++ [e mod 2048] end.

Lemma shift4 e c m : c < 16 -> m <> 0 -> (e * 16 + c) / (16 * m) = e / m.
Proof.
  intros Hc Hm. rewrite <- N.div_div by (assumption || discriminate).
  f_equal. lia.
Qed.

Lemma cons_eq {A} (a b : A) l l' : a = b -> l = l' -> a :: l = b :: l'.
Proof. congruence. Qed.

Ltac closed_ne := vm_compute; discriminate.
Ltac elt Hc :=
  unfold spec_word; rewrite ?N.div_div by closed_ne;
  match goal with
  | |- (_ / ?d) mod _ = (_ / ?L) mod _ =>
      replace L with (16 * d) by (vm_compute; reflexivity)
  end;
  rewrite (shift4 _ _ _ Hc) by closed_ne; reflexivity.

Lemma digits_spec_words e c : c < 16 ->
  digits 11 (e / 128) ++ [(e mod 128) * 16 + c] = spec_words e c.
Proof.
  intros Hc. unfold spec_words. cbn [digits app map].
  repeat (apply cons_eq; [elt Hc|]).
  apply cons_eq; [|reflexivity].
  unfold spec_word. replace (2 ^ (11 * (11 - 11))) with 1 by (vm_compute; reflexivity).
  rewrite N.div_1_r. lia.
Qed.

(** ** digits / pack, the encoder loop *)
Definition small (w : N) : Prop := w < 2048.

Lemma digits_length n e : length (digits n e) = n.
Proof. revert e. induction n; intros; simpl; [reflexivity|]. rewrite app_length, IHn. simpl. lia. Qed.

Lemma digits_small n e : Forall small (digits n e).
Proof.
  revert e. induction n; intros; simpl; [constructor|].
  apply Forall_app. split; [apply IHn|]. constructor; [|constructor].
  unfold small. apply N.mod_lt. discriminate.
Qed.

Lemma pack_snoc l v : pack (l ++ [v]) = pack l * 2048 + v.
Proof. unfold pack. rewrite fold_left_app. reflexivity. Qed.

Lemma pack_digits n e : pack (digits n e) = e mod 2048 ^ N.of_nat n.
Proof.
  revert e. induction n; intros e.
  - simpl. rewrite N.mod_1_r. reflexivity.
  - cbn [digits]. rewrite pack_snoc, IHn, Nat2N.inj_succ, N.pow_succ_r'.
    rewrite (N.mod_mul_r e 2048 (2048 ^ N.of_nat n)); [ring|discriminate|].
    apply N.pow_nonzero. discriminate.
Qed.

Lemma digits_pack l : Forall small l -> digits (length l) (pack l) = l.
Proof.
  induction l using rev_ind; intros Hl; [reflexivity|].
  apply Forall_app in Hl. destruct Hl as [Hl Hx]. inversion Hx as [|? ? Hx' _]. subst. unfold small in Hx'.
  rewrite app_length, Nat.add_comm. cbn [length plus digits]. rewrite pack_snoc.
  replace ((pack l * 2048 + x) / 2048) with (pack l) by lia.
  replace ((pack l * 2048 + x) mod 2048) with x by lia.
  rewrite IHl by assumption. reflexivity.
Qed.

Lemma pack_bound l : Forall small l -> pack l < 2048 ^ N.of_nat (length l).
Proof.
  induction l using rev_ind; intros Hl; [reflexivity|].
  apply Forall_app in Hl. destruct Hl as [Hl Hx]. inversion Hx as [|? ? Hx' _]. subst. unfold small in Hx'.
  rewrite app_length, Nat.add_comm. cbn [length plus]. rewrite pack_snoc, Nat2N.inj_succ, N.pow_succ_r'.
  specialize (IHl Hl). lia.
Qed.

(** enc loop *)
Section S.
Variable cks : N -> N -> N.

Lemma enc_loop_digits n : forall hi lo acc, hi < 2^64 -> lo < 2^64 ->
  enc_loop n hi lo acc = digits n (ent hi lo) ++ acc.
Proof.
  induction n; intros hi lo acc Hh Hl; [reflexivity|].
  cbn [enc_loop digits].
  destruct (enc_step11 hi lo Hh Hl) as (H1 & H2 & H3 & H4).
  rewrite IHn by assumption. rewrite H3, H4, <- app_assoc. reflexivity.
Qed.

Lemma encode_digits hi lo : hi < 2^64 -> lo < 2^64 -> cks hi lo < 16 ->
  encode cks hi lo = digits 11 (ent hi lo / 128) ++ [(ent hi lo mod 128) * 16 + cks hi lo].
Proof.
  intros Hh Hl Hc. unfold encode.
  destruct (enc_step7 hi lo Hh Hl) as (H1 & H2 & H3 & H4).
  rewrite enc_loop_digits by assumption. rewrite H3. f_equal. f_equal.
  rewrite enc_last by assumption. rewrite <- H4.
  change 0x7F with (N.ones 7). rewrite !N.land_ones. reflexivity.
Qed.
End S.

(** ** the decoder loop *)
Definition M128 : N := 2^128.
Definition step (e v : N) : N := e * 2048 + v.

Lemma fold_step_mod ws : forall x, fold_left step ws (x mod M128) mod M128 = fold_left step ws x mod M128.
Proof.
  induction ws as [|v ws IH]; intros x; cbn [fold_left].
  - apply N.mod_mod. vm_compute; discriminate.
  - rewrite <- (IH (step (x mod M128) v)), <- (IH (step x v)). f_equal. f_equal.
    unfold step. assert (Hnz : M128 <> 0) by (vm_compute; discriminate).
    rewrite (N.add_mod (x mod M128 * 2048) v), N.mul_mod_idemp_l, <- N.add_mod by exact Hnz. reflexivity.
Qed.

Lemma idx_word w : small w -> idx (Word w) = w.
Proof. unfold small, idx, word_index. intros H. apply N.ltb_lt in H. rewrite H. reflexivity. Qed.
Lemma known_word w : small w -> known (Word w) = true.
Proof. unfold small, known, word_index. intros H. apply N.ltb_lt in H. rewrite H. reflexivity. Qed.

Lemma dec_loop_fold ws : forall hi lo, Forall small ws -> hi < 2^64 -> lo < 2^64 ->
  exists hi' lo', dec_loop (map Word ws) hi lo = (hi', lo') /\ hi' < 2^64 /\ lo' < 2^64 /\
    ent hi' lo' = fold_left step ws (ent hi lo) mod M128.
Proof.
  induction ws as [|v ws IH]; intros hi lo Hs Hh Hl; cbn [map dec_loop fold_left].
  - exists hi, lo. repeat split; try assumption. symmetry. apply N.mod_small.
    unfold ent, M128. consts. lia.
  - inversion Hs as [|? ? Hv Hs']; subst. rewrite idx_word by assumption.
    destruct (dec_step11 hi lo v Hh Hl Hv) as (H1 & H2 & H3).
    destruct (IH _ _ Hs' H1 H2) as (hi' & lo' & E & B1 & B2 & B3).
    exists hi', lo'. repeat split; try assumption.
    rewrite B3, H3. apply fold_step_mod.
Qed.

Lemma ent_split hi lo e : lo < 2^64 -> ent hi lo = e -> hi = e / 2^64 /\ lo = e mod 2^64.
Proof. unfold ent. consts. intros. lia. Qed.

Lemma ent_join e : ent (e / 2^64) (e mod 2^64) = e.
Proof. unfold ent. consts. lia. Qed.

(** ** decode on twelve word indices *)
Lemma forallb_known ws : Forall small ws -> forallb known (map Word ws) = true.
Proof. induction 1; cbn [map forallb]; [reflexivity|]. rewrite known_word, IHForall by assumption. reflexivity. Qed.

Lemma pack_fold ws : pack ws = fold_left step ws 0.
Proof. reflexivity. Qed.

Section S.
Variable cks : N -> N -> N.

Lemma decode_res_words ws : length ws = 12%nat -> Forall small ws ->
  decode_res cks (map Word ws) =
    let e := entropy_of ws in
    if cks (e / 2^64) (e mod 2^64) =? nibble_of ws then DOk (e / 2^64) (e mod 2^64) else DErrChecksum.
Proof.
  intros Hlen Hs. unfold decode_res.
  rewrite map_length, Hlen. cbn [Nat.eqb negb Nat.sub].
  rewrite forallb_known by assumption. cbn [negb]. cbv zeta.
  rewrite firstn_map.
  assert (Hs11 : Forall small (firstn 11 ws)).
  { pose proof Hs as Hs'. rewrite <- (firstn_skipn 11 ws) in Hs'. apply Forall_app in Hs'. tauto. }
  destruct (dec_loop_fold (firstn 11 ws) 0 0 Hs11) as (hi & lo & E & Hh & Hl & He); [reflexivity|reflexivity|].
  rewrite E.
  change (ent 0 0) with 0 in He. rewrite <- pack_fold in He.
  assert (Hp : pack (firstn 11 ws) < 2048 ^ 11).
  { pose proof (pack_bound _ Hs11) as Hb. rewrite firstn_length, Hlen in Hb. exact Hb. }
  rewrite (nth_indep _ Unknown (Word 0)) by (rewrite map_length, Hlen; lia).
  rewrite map_nth.
  assert (Hw : small (nth 11 ws 0)).
  { revert Hs. rewrite Forall_forall. intros Hs. apply Hs, nth_In. rewrite Hlen. lia. }
  rewrite idx_word by assumption.
  set (w := nth 11 ws 0) in *. unfold small in Hw.
  change 0xF with (N.ones 4). rewrite N.land_ones. rewrite (shr64_spec w 4).
  assert (Hw4 : w / 2^4 < 128) by (consts; lia).
  destruct (dec_step7 hi lo (w / 2^4) Hh Hl Hw4) as (H1 & H2 & H3).
  set (hi' := N.lor (shl64 hi 7) (shr64 lo (64 - 7))) in *.
  set (lo' := N.lor (shl64 lo 7) (w / 2 ^ 4)) in *.
  assert (Hent : ent hi' lo' = entropy_of ws).
  { rewrite H3, He. unfold entropy_of. fold w.
    rewrite (N.mod_small (pack _)) by (unfold M128; vm_compute (2048^11) in Hp; consts; lia).
    apply N.mod_small. vm_compute (2048^11) in Hp; consts; lia. }
  destruct (ent_split hi' lo' _ H2 Hent) as [-> ->].
  unfold nibble_of. fold w. change (2 ^ 4) with 16. destruct (_ =? _); reflexivity.
Qed.
End S.

(** ** Main theorems *)
Lemma firstn_exact {A} n (l r : list A) : length l = n -> firstn n (l ++ r) = l.
Proof. intros <-. rewrite firstn_app, Nat.sub_diag, firstn_all. cbn [firstn]. apply app_nil_r. Qed.

Lemma pow11 : 2048 ^ N.of_nat 11 = 2658455991569831745807614120560689152.
Proof. vm_compute. reflexivity. Qed.
Lemma pow11' : 2048 ^ 11 = 2658455991569831745807614120560689152.
Proof. vm_compute. reflexivity. Qed.

Section S.
Variable cks : N -> N -> N.

Theorem encode_spec hi lo : hi < 2^64 -> lo < 2^64 -> cks hi lo < 16 ->
  encode cks hi lo = spec_words (ent hi lo) (cks hi lo) /\
  nth 11 (encode cks hi lo) 0 = (ent hi lo mod 128) * 16 + cks hi lo.
Proof.
  intros Hh Hl Hc. rewrite encode_digits by assumption. split.
  - apply digits_spec_words. assumption.
  - rewrite app_nth2; rewrite digits_length; [reflexivity|lia].
Qed.

Theorem encode_wellformed hi lo : hi < 2^64 -> lo < 2^64 -> cks hi lo < 16 ->
  length (encode cks hi lo) = 12%nat /\ Forall (fun w => w < 2048) (encode cks hi lo).
Proof.
  intros Hh Hl Hc. rewrite encode_digits by assumption. split.
  - rewrite app_length, digits_length. reflexivity.
  - apply Forall_app. split; [apply digits_small|]. constructor; [|constructor]. lia.
Qed.

Lemma entropy_of_encode hi lo : hi < 2^64 -> lo < 2^64 -> cks hi lo < 16 ->
  entropy_of (encode cks hi lo) = ent hi lo /\ nibble_of (encode cks hi lo) = cks hi lo.
Proof.
  intros Hh Hl Hc. rewrite encode_digits by assumption.
  unfold entropy_of, nibble_of.
  rewrite app_nth2; rewrite digits_length; [|lia]. cbn [Nat.sub nth].
  rewrite (firstn_exact 11) by apply digits_length.
  rewrite pack_digits.
  assert (He : ent hi lo < 2^128) by (unfold ent; consts; lia).
  rewrite N.mod_small by (rewrite pow11; consts; lia).
  split; lia.
Qed.

Theorem decode_encode hi lo : hi < 2^64 -> lo < 2^64 -> cks hi lo < 16 ->
  decode cks (map Word (encode cks hi lo)) = Some (hi, lo).
Proof.
  intros Hh Hl Hc.
  destruct (encode_wellformed hi lo Hh Hl Hc) as [Hlen Hs].
  destruct (entropy_of_encode hi lo Hh Hl Hc) as [He Hn].
  unfold decode. rewrite decode_res_words by assumption. cbv zeta.
  rewrite He, Hn.
  destruct (ent_split hi lo _ Hl eq_refl) as [<- <-].
  rewrite N.eqb_refl. reflexivity.
Qed.

Lemma encode_entropy_of ws : length ws = 12%nat -> Forall small ws ->
  let e := entropy_of ws in
  cks (e / 2^64) (e mod 2^64) = nibble_of ws ->
  encode cks (e / 2^64) (e mod 2^64) = ws.
Proof.
  intros Hlen Hs e Hc.
  assert (Hs' : Forall small (firstn 11 ws) /\ Forall small (skipn 11 ws)).
  { apply Forall_app. rewrite firstn_skipn. assumption. }
  destruct Hs' as [Hs11 Hsl].
  assert (Hp : pack (firstn 11 ws) < 2048 ^ 11).
  { pose proof (pack_bound _ Hs11) as Hb. rewrite firstn_length, Hlen in Hb. exact Hb. }
  assert (Hw : small (nth 11 ws 0)).
  { revert Hs. rewrite Forall_forall. intros Hs. apply Hs, nth_In. rewrite Hlen. lia. }
  assert (Hlast : ws = firstn 11 ws ++ [nth 11 ws 0]).
  { do 12 (destruct ws as [|? ws]; [discriminate|]). destruct ws; [reflexivity|discriminate]. }
  unfold small in Hw. rewrite pow11' in Hp.
  assert (Hhi : e / 2^64 < 2^64).
  { subst e. unfold entropy_of. consts. lia. }
  assert (Hlo : e mod 2^64 < 2^64) by (apply N.mod_lt; vm_compute; discriminate).
  rewrite encode_digits; try assumption.
  2:{ rewrite Hc. unfold nibble_of. apply N.mod_lt. discriminate. }
  rewrite ent_join, Hc. subst e. unfold entropy_of, nibble_of.
  set (w := nth 11 ws 0) in *. set (p := pack (firstn 11 ws)) in *.
  replace ((p * 128 + w / 16) / 128) with p by lia.
  replace ((p * 128 + w / 16) mod 128 * 16 + w mod 16) with w by lia.
  subst p. rewrite Hlast at 2. f_equal.
  replace 11%nat with (length (firstn 11 ws)) at 1 by (rewrite firstn_length, Hlen; reflexivity).
  apply digits_pack. assumption.
Qed.

Theorem decode_iff_checksum ws : length ws = 12%nat -> Forall (fun w => w < 2048) ws ->
  let e := entropy_of ws in
  ((exists r, decode cks (map Word ws) = Some r) <-> cks (e / 2^64) (e mod 2^64) = nibble_of ws) /\
  (forall hi lo, decode cks (map Word ws) = Some (hi, lo) ->
     ent hi lo = e /\ encode cks hi lo = ws).
Proof.
  intros Hlen Hs e. unfold decode. rewrite (decode_res_words cks ws Hlen Hs). cbv zeta. fold e.
  destruct (N.eqb_spec (cks (e / 2^64) (e mod 2^64)) (nibble_of ws)) as [Heq|Hne].
  - split.
    + split; [intros _; exact Heq|intros _; eexists; reflexivity].
    + intros hi lo [= <- <-]. split; [apply ent_join|]. apply encode_entropy_of; assumption.
  - split.
    + split; [intros [r Hr]; discriminate|intros; contradiction].
    + intros hi lo Hd. discriminate.
Qed.
End S.

(** ** Malformed phrases, uniqueness, derivation, examples *)
Section S.
Variable cks : N -> N -> N.

Theorem malformed_rejected ts :
  (length ts <> 12%nat -> decode_res cks ts = DErrCount /\ decode cks ts = None) /\
  ((exists t, In t ts /\ word_index t = None) -> decode cks ts = None /\
     (length ts = 12%nat -> decode_res cks ts = DErrWord)).
Proof.
  unfold decode, decode_res. split.
  - intros Hn. apply Nat.eqb_neq in Hn. rewrite Hn. cbn [negb]. split; reflexivity.
  - intros (t & Hin & Hw).
    assert (Hf : forallb known ts = false).
    { destruct (forallb known ts) eqn:E; [|reflexivity].
      rewrite forallb_forall in E. specialize (E t Hin). unfold known in E. rewrite Hw in E. discriminate. }
    rewrite Hf. cbn [negb]. split.
    + destruct (negb (Nat.eqb (length ts) 12)); reflexivity.
    + intros ->. reflexivity.
Qed.

(** a list of list words is the image of its indices *)
Lemma known_tokens ts : forallb known ts = true ->
  ts = map Word (map idx ts) /\ Forall small (map idx ts).
Proof.
  induction ts as [|t ts IH]; cbn [forallb map]; intros H; [split; [reflexivity|constructor]|].
  apply andb_true_iff in H. destruct H as [Ht Hts]. destruct (IH Hts) as [E F].
  unfold known, idx, word_index in *. destruct t as [i|]; [|discriminate].
  destruct (i <? 2048) eqn:Hi; [|discriminate]. apply N.ltb_lt in Hi.
  split; [rewrite <- E; reflexivity|constructor; assumption].
Qed.

(** The decoder rejects exactly the phrases that have a defect, and the error it reports
    names one of the defects the phrase has (whatever the order of the validations). *)
Theorem rejects_iff_defective ts :
  (decode cks ts = None <-> defects cks ts <> []) /\
  (forall d, named_defect (decode_res cks ts) = Some d -> In d (defects cks ts)).
Proof.
  unfold decode, defects.
  destruct (Nat.eqb (length ts) 12) eqn:Hlen.
  2:{ unfold decode_res. rewrite Hlen. cbn [negb named_defect andb app]. split.
      - split; [intros _; discriminate|reflexivity].
      - intros d [= <-]. left. reflexivity. }
  destruct (forallb known ts) eqn:Hk.
  2:{ unfold decode_res. rewrite Hlen, Hk. cbn [negb named_defect andb app]. split.
      - split; [intros _; discriminate|reflexivity].
      - intros d [= <-]. left. reflexivity. }
  cbn [andb app]. apply Nat.eqb_eq in Hlen.
  destruct (known_tokens ts Hk) as [E F].
  assert (Ed : decode_res cks ts = decode_res cks (map Word (map idx ts))) by (rewrite <- E; reflexivity).
  assert (Hl : length (map idx ts) = 12%nat) by (rewrite map_length; exact Hlen).
  rewrite Ed, (decode_res_words cks (map idx ts) Hl F). cbv zeta.
  destruct (_ =? _); cbn [named_defect]; split.
  - split; [discriminate|intros H; exfalso; apply H; reflexivity].
  - discriminate.
  - split; [intros _; discriminate|reflexivity].
  - intros d [= <-]. left. reflexivity.
Qed.

Theorem phrase_unique ws ws' r :
  length ws = 12%nat -> Forall (fun w => w < 2048) ws ->
  length ws' = 12%nat -> Forall (fun w => w < 2048) ws' ->
  decode cks (map Word ws) = Some r -> decode cks (map Word ws') = Some r -> ws = ws'.
Proof.
  intros L S L' S' D D'. destruct r as [hi lo].
  destruct (decode_iff_checksum cks ws L S) as [_ H].
  destruct (decode_iff_checksum cks ws' L' S') as [_ H'].
  destruct (H _ _ D) as [_ <-]. destruct (H' _ _ D') as [_ <-]. reflexivity.
Qed.
End S.

Lemma le_bytes_inj n : forall x y, le_bytes n x = le_bytes n y -> x mod 256 ^ N.of_nat n = y mod 256 ^ N.of_nat n.
Proof.
  induction n; intros x y H.
  - cbn. rewrite !N.mod_1_r. reflexivity.
  - cbn [le_bytes] in H. injection H as H0 H1. apply IHn in H1.
    rewrite Nat2N.inj_succ, N.pow_succ_r'.
    assert (Hnz : 256 ^ N.of_nat n <> 0) by (apply N.pow_nonzero; discriminate).
    rewrite !(N.mod_mul_r _ 256 (256 ^ N.of_nat n)) by (assumption || discriminate).
    rewrite H0, H1. reflexivity.
Qed.

Lemma pow256_8 : 256 ^ N.of_nat 8 = 2 ^ 64.
Proof. vm_compute. reflexivity. Qed.

Theorem le64_inj i j : i < 2^64 -> j < 2^64 -> le64 i = le64 j -> i = j.
Proof.
  intros Hi Hj H. unfold le64 in H. apply le_bytes_inj in H.
  rewrite pow256_8 in H. rewrite !N.mod_mod in H by (vm_compute; discriminate).
  rewrite !N.mod_small in H by assumption. exact H.
Qed.

Lemma app_inj_len {A} (a a' b b' : list A) : length a = length a' -> a ++ b = a' ++ b' -> a = a' /\ b = b'.
Proof.
  revert a'. induction a as [|x a IH]; intros [|x' a'] L H; try discriminate.
  - split; [reflexivity|exact H].
  - cbn in *. injection H as -> H. injection L as L. destruct (IH _ L H) as [-> ->]. split; reflexivity.
Qed.

Section D.
Variable cks : N -> N -> N.
Variable H : list N -> list N.
Variables (Key : Type) (newkey : list N -> Key).

Theorem derivation_deterministic ts ts' i i' :
  decode cks ts = decode cks ts' -> i mod 2^64 = i' mod 2^64 ->
  seed_from_phrase cks H ts = seed_from_phrase cks H ts' /\
  key_from_phrase cks H Key newkey ts i = key_from_phrase cks H Key newkey ts' i'.
Proof.
  intros Hd Hi. unfold key_from_phrase, key_from_seed, seed_from_phrase, le64. rewrite Hd, Hi. split; reflexivity.
Qed.

(** *** Histories: a key depends on the phrase last loaded into the buffer and on the index,
    not on anything that happened before or on what other buffers were used for in between. *)
Lemma hrun_app st ops1 ops2 :
  hrun cks H Key newkey st (ops1 ++ ops2) =
  let '(st1, k1) := hrun cks H Key newkey st ops1 in
  let '(st2, k2) := hrun cks H Key newkey st1 ops2 in (st2, k1 ++ k2).
Proof.
  revert st. induction ops1 as [|op ops1 IH]; intros st; cbn [app hrun].
  - destruct (hrun cks H Key newkey st ops2). reflexivity.
  - destruct (hstep cks H Key newkey st op) as [st' ks]. rewrite IH.
    destruct (hrun cks H Key newkey st' ops1) as [st1 k1].
    destruct (hrun cks H Key newkey st1 ops2) as [st2 k2]. rewrite app_assoc. reflexivity.
Qed.

Lemma hrun_keeps st ops b :
  forallb (fun op => negb (hwrites op b)) ops = true ->
  fst (hrun cks H Key newkey st ops) b = st b.
Proof.
  revert st. induction ops as [|op ops IH]; intros st Hn; [reflexivity|].
  cbn [forallb] in Hn. apply andb_true_iff in Hn. destruct Hn as [Hop Hn].
  cbn [hrun]. destruct (hstep cks H Key newkey st op) as [st' ks] eqn:E.
  specialize (IH st' Hn). destruct (hrun cks H Key newkey st' ops) as [st'' ks']. cbn [fst] in *.
  rewrite IH. apply negb_true_iff in Hop.
  destruct op as [b' ts|b' bytes|b' i]; cbn [hstep hwrites] in *.
  - destruct (seed_from_phrase cks H ts); injection E as <- _; [|reflexivity].
    unfold hupd. rewrite N.eqb_sym, Hop. reflexivity.
  - injection E as <- _. unfold hupd. rewrite N.eqb_sym, Hop. reflexivity.
  - injection E as <- _. reflexivity.
Qed.

Theorem history_key st pre b ts s mid i :
  seed_from_phrase cks H ts = Some s ->
  forallb (fun op => negb (hwrites op b)) mid = true ->
  exists ks, snd (hrun cks H Key newkey st (pre ++ HLoad b ts :: mid ++ [HKey b i]))
             = ks ++ [key_from_seed H Key newkey s i].
Proof.
  intros Hs Hm. rewrite hrun_app.
  destruct (hrun cks H Key newkey st pre) as [st1 k1].
  change (HLoad b ts :: mid ++ [HKey b i]) with ([HLoad b ts] ++ mid ++ [HKey b i]).
  rewrite hrun_app. cbn [hrun hstep]. rewrite Hs. cbn [app].
  rewrite hrun_app. pose proof (hrun_keeps (hupd st1 b s) mid b Hm) as Hk.
  destruct (hrun cks H Key newkey (hupd st1 b s) mid) as [st2 k2]. cbn [fst] in Hk.
  cbn [hrun hstep app snd]. rewrite Hk. unfold hupd. rewrite N.eqb_refl.
  exists (k1 ++ k2). rewrite app_assoc. reflexivity.
Qed.

(** The same phrase and index always derive the same key: in any two histories, whatever the
    initial buffer contents, whatever was done before, whichever buffer is used, and whatever
    is done to other buffers in between. *)
Theorem same_phrase_same_key st st' pre pre' b b' ts ts' s mid mid' i i' :
  seed_from_phrase cks H ts = Some s -> decode cks ts = decode cks ts' -> i mod 2 ^ 64 = i' mod 2 ^ 64 ->
  forallb (fun op => negb (hwrites op b)) mid = true ->
  forallb (fun op => negb (hwrites op b')) mid' = true ->
  exists ks ks' k,
    snd (hrun cks H Key newkey st (pre ++ HLoad b ts :: mid ++ [HKey b i])) = ks ++ [k] /\
    snd (hrun cks H Key newkey st' (pre' ++ HLoad b' ts' :: mid' ++ [HKey b' i'])) = ks' ++ [k] /\
    key_from_phrase cks H Key newkey ts i = Some k.
Proof.
  intros Hs Hd Hi Hm Hm'.
  assert (Hs' : seed_from_phrase cks H ts' = Some s) by (unfold seed_from_phrase in *; rewrite <- Hd; exact Hs).
  destruct (history_key st pre b ts s mid i Hs Hm) as [ks E].
  destruct (history_key st' pre' b' ts' s mid' i' Hs' Hm') as [ks' E'].
  exists ks, ks', (key_from_seed H Key newkey s i). split; [exact E|]. split.
  - rewrite E'. unfold key_from_seed, le64. rewrite Hi. reflexivity.
  - unfold key_from_phrase. rewrite Hs. reflexivity.
Qed.

Theorem derivation_inputs_distinct seed seed' i j :
  length seed = length seed' -> i < 2^64 -> j < 2^64 ->
  seed ++ le64 i = seed' ++ le64 j -> seed = seed' /\ i = j.
Proof.
  intros L Hi Hj E. destruct (app_inj_len _ _ _ _ L E) as [-> E']. split; [reflexivity|].
  apply le64_inj; assumption.
Qed.
End D.

(** ** Examples: the hypotheses of the theorems are met by concrete, non-trivial data.

    The first four are real BIP-39 test vectors (the checksum nibbles 3, 5, 4, 8
    are those SHA-256 gives; the harness checks them against the real code). *)
Definition zeros11 : list N := [0;0;0;0;0;0;0;0;0;0;0].

(** 00..00 -> "abandon x11 about" *)
Example ex_encode_zero : encode (fun _ _ => 3) 0 0 = zeros11 ++ [3].
Proof. vm_compute. reflexivity. Qed.
(** ff..ff -> "zoo x11 wrong" *)
Example ex_encode_ones :
  encode (fun _ _ => 5) (2^64 - 1) (2^64 - 1)
  = [2047;2047;2047;2047;2047;2047;2047;2047;2047;2047;2047;2037].
Proof. vm_compute. reflexivity. Qed.
(** 80..80 -> "letter advice cage absurd amount doctor acoustic avoid letter advice cage above" *)
Example ex_encode_8080 :
  encode (fun _ _ => 4) 0x8080808080808080 0x8080808080808080
  = [1028;32;257;8;64;514;16;128;1028;32;257;4].
Proof. vm_compute. reflexivity. Qed.
(** 7f..7f -> "legal winner thank year wave sausage worth useful legal winner thank yellow" *)
Example ex_encode_7f7f :
  encode (fun _ _ => 8) 0x7f7f7f7f7f7f7f7f 0x7f7f7f7f7f7f7f7f
  = [1019;2015;1790;2039;1983;1533;2031;1919;1019;2015;1790;2040].
Proof. vm_compute. reflexivity. Qed.

(** a checksum function that is not constant, for the general theorems *)
Definition toy_cks (hi lo : N) : N := (hi + 3 * lo) mod 16.
Lemma toy_cks_lt hi lo : toy_cks hi lo < 16.
Proof. unfold toy_cks. apply N.mod_lt. discriminate. Qed.

Definition ex_hi : N := 0x9e885d952ad362ca.
Definition ex_lo : N := 0xeb4efe34a8e91bd2.
Definition ex_ws : list N := encode toy_cks ex_hi ex_lo.

(** hypotheses of [encode_spec], [encode_wellformed], [decode_encode] *)
Example ex_bounds : ex_hi < 2^64 /\ ex_lo < 2^64 /\ toy_cks ex_hi ex_lo < 16.
Proof. vm_compute. repeat split. Qed.
Example ex_roundtrip : decode toy_cks (map Word ex_ws) = Some (ex_hi, ex_lo).
Proof. vm_compute. reflexivity. Qed.
Example ex_spec : ex_ws = spec_words (ent ex_hi ex_lo) (toy_cks ex_hi ex_lo).
Proof. vm_compute. reflexivity. Qed.

(** hypotheses of [decode_iff_checksum]: twelve indices below 2048, with a matching
    nibble (decodes, re-encodes to itself) and with a non-matching one (rejected) *)
Example ex_ws_wellformed : length ex_ws = 12%nat /\ Forall (fun w => w < 2048) ex_ws.
Proof. split; [reflexivity|]. vm_compute. repeat constructor. Qed.
Example ex_checksum_matches :
  let e := entropy_of ex_ws in toy_cks (e / 2^64) (e mod 2^64) = nibble_of ex_ws.
Proof. vm_compute. reflexivity. Qed.
Definition ex_bad : list N := firstn 11 ex_ws ++ [N.lxor (nth 11 ex_ws 0) 1].
Example ex_bad_wellformed : length ex_bad = 12%nat /\ Forall (fun w => w < 2048) ex_bad.
Proof. split; [reflexivity|]. vm_compute. repeat constructor. Qed.
Example ex_bad_rejected :
  decode_res toy_cks (map Word ex_bad) = DErrChecksum /\
  (let e := entropy_of ex_bad in toy_cks (e / 2^64) (e mod 2^64) <> nibble_of ex_bad).
Proof. split; vm_compute; [reflexivity|discriminate]. Qed.
(** one changed word in the middle: rejected as well (here; 1 in 16 such changes passes) *)
Example ex_bad_middle :
  decode toy_cks (map Word (firstn 5 ex_ws ++ [7] ++ skipn 6 ex_ws)) = None.
Proof. vm_compute. reflexivity. Qed.

(** hypotheses of [malformed_rejected] *)
Example ex_eleven : decode_res toy_cks (map Word (firstn 11 ex_ws)) = DErrCount.
Proof. vm_compute. reflexivity. Qed.
Example ex_thirteen : decode_res toy_cks (map Word (ex_ws ++ [0])) = DErrCount.
Proof. vm_compute. reflexivity. Qed.
Example ex_empty : decode_res toy_cks [] = DErrCount.
Proof. reflexivity. Qed.
Example ex_unknown :
  decode_res toy_cks (map Word (firstn 4 ex_ws) ++ [Unknown] ++ map Word (skipn 5 ex_ws)) = DErrWord
  /\ In Unknown (map Word (firstn 4 ex_ws) ++ [Unknown] ++ map Word (skipn 5 ex_ws))
  /\ word_index Unknown = None.
Proof. vm_compute. split; [reflexivity|]. split; [|reflexivity]. tauto. Qed.
Example ex_out_of_list : decode_res toy_cks (map Word (firstn 11 ex_ws ++ [2048])) = DErrWord.
Proof. vm_compute. reflexivity. Qed.

(** [rejects_iff_defective]: defect sets of the phrases above; a doubly malformed phrase has
    two defects (the code reports the count, another order of validation may report the word) *)
Example ex_defects :
  defects toy_cks (map Word ex_ws) = [] /\
  defects toy_cks (map Word ex_bad) = [BadChecksum] /\
  defects toy_cks (map Word (firstn 11 ex_ws)) = [WrongCount] /\
  defects toy_cks (Unknown :: map Word ex_ws) = [WrongCount; UnknownWord] /\
  decode_res toy_cks (Unknown :: map Word ex_ws) = DErrCount.
Proof. vm_compute. repeat split. Qed.

(** hypotheses of [same_phrase_same_key]: one buffer loaded with phrase A, used, overwritten in
    place with phrase B and used again with the same index (symbolic hash: H = identity):
    the second key is B's, not A's *)
Definition ex_tsA : list token := map Word ex_ws.
Definition ex_tsB : list token := map Word (encode toy_cks 1 2).
Example ex_history :
  snd (hrun toy_cks (fun x => x) (list N) (fun x => x) (fun _ => [])
         [HLoad 0 ex_tsA; HKey 0 7; HLoad 0 ex_tsB; HKey 1 7; HKey 0 7])
  = [be64 ex_hi ++ be64 ex_lo ++ le64 7; le64 7; be64 1 ++ be64 2 ++ le64 7]
  /\ seed_from_phrase toy_cks (fun x => x) ex_tsB = Some (be64 1 ++ be64 2)
  /\ forallb (fun op => negb (hwrites op 0)) [HKey 1 7] = true.
Proof. vm_compute. repeat split. Qed.

(** hypotheses of [phrase_unique] and of the derivation theorems *)
Example ex_le64 : le64 0x0102030405060708 = [8;7;6;5;4;3;2;1] /\ be64 0x0102030405060708 = [1;2;3;4;5;6;7;8].
Proof. vm_compute. split; reflexivity. Qed.
Example ex_le64_distinct : le64 1 <> le64 256 /\ 1 < 2^64 /\ 256 < 2^64.
Proof. vm_compute. repeat split; discriminate. Qed.
