(** * RHP/HostProofs.v — the revision discipline of the RHP4 host model (C08)

    Every theorem is about [step]/[run] of [RHP/Host.v], the model the harness
    validates.  Structure:
    - inversion of the result monad and of the currency arithmetic;
    - what [pay] and the [ReviseFor*]/renewal arithmetic guarantee ([paid], [good]);
    - one inversion lemma per handler: what an accepted request satisfied;
    - [effect]: a step changes the state in one of five ways;
    - the invariant [Inv] (the log is a chain of [rev_step]s, the Contractor holds
      the newest entry) and the theorems of Props/C08.v derived from it. *)
From stdpp Require Import gmap.
From Coq Require Import ZArith NArith Lia.
From CV Require Import RHP.Host.
Open Scope Z_scope.

(** ** The result monad *)
Lemma rbind_Ok {A B} (e : res A) (f : A → res B) y :
  rbind e f = Ok y → ∃ x, e = Ok x ∧ f x = Ok y.
Proof. destruct e; simpl; [eauto|discriminate]. Qed.
Lemma check_Ok b v u : check b v = Ok u → b = true.
Proof. destruct b; simpl; [done|discriminate]. Qed.
Lemma must_Ok {A} (o : option A) v a : must o v = Ok a → o = Some a.
Proof. destruct o; simpl; [congruence|discriminate]. Qed.
Lemma np_Ok {A} (o : option A) a : np o = Ok a → o = Some a.
Proof. apply must_Ok. Qed.

(** peel the binds of a hypothesis [H : rbind .. = Ok _] *)
Ltac inv_ok H :=
  repeat lazymatch type of H with
  | rbind (check _ _) _ = Ok _ =>
      let x := fresh "u" in let Hb := fresh "Hc" in
      apply rbind_Ok in H as (x & Hb & H); apply check_Ok in Hb
  | rbind (np _) _ = Ok _ =>
      let x := fresh "x" in let Hb := fresh "Hn" in
      apply rbind_Ok in H as (x & Hb & H); apply np_Ok in Hb
  | rbind (must _ _) _ = Ok _ =>
      let x := fresh "x" in let Hb := fresh "Hm" in
      apply rbind_Ok in H as (x & Hb & H); apply must_Ok in Hb
  | rbind _ _ = Ok _ =>
      let x := fresh "x" in let Hb := fresh "Hb" in
      apply rbind_Ok in H as (x & Hb & H)
  end.

Lemma verifyb_true k m s : verifyb k m s = true ↔ s = Sig k m.
Proof. unfold verifyb. apply bool_decide_eq_true. Qed.

(** ** Currency arithmetic *)
Lemma u128_pos : 0 < u128. Proof. done. Qed.
Lemma u64_pos : 0 < u64. Proof. done. Qed.
Lemma cadd_Some a b r : cadd a b = Some r → r = a + b ∧ a + b < u128.
Proof. unfold cadd. case_match eqn:E; [|done]. intros [= <-]. lia. Qed.
Lemma csub_Some a b r : csub a b = Some r → r = a - b ∧ b ≤ a.
Proof. unfold csub. case_match eqn:E; [|done]. intros [= <-]. lia. Qed.
Lemma cmul_Some a b r : cmul a b = Some r → r = a * b ∧ a * b < u128.
Proof. unfold cmul. case_match eqn:E; [|done]. intros [= <-]. lia. Qed.
Lemma is_cur_true x : is_cur x = true ↔ 0 ≤ x < u128.
Proof. unfold is_cur. rewrite andb_true_iff. lia. Qed.
Lemma is_u64_true x : is_u64 x = true ↔ 0 ≤ x < u64.
Proof. unfold is_u64. rewrite andb_true_iff. lia. Qed.
Lemma wrap64_nonneg x : 0 ≤ wrap64 x.
Proof. unfold wrap64. apply Z.mod_pos_bound. done. Qed.
Lemma wrap64_id x : 0 ≤ x < u64 → wrap64 x = x.
Proof. unfold wrap64. intros. by apply Z.mod_small. Qed.
Lemma round4k_nonneg n : 0 ≤ n → 0 ≤ round4k n.
Proof. unfold round4k. intros. apply Z.mul_nonneg_nonneg; [|lia]. apply Z.div_pos; lia. Qed.

(** option binds of the usage functions *)
Ltac inv_opt H :=
  repeat lazymatch type of H with
  | (_ ≫= _) = Some _ =>
      let x := fresh "y" in let Hb := fresh "Ho" in
      apply bind_Some in H as (x & Hb & H)
  end.

Lemma pbody_wire_true p : pbody_wire p = true →
  0 ≤ contract_price p ∧ 0 ≤ collateral_price p ∧ 0 ≤ storage_price p ∧ 0 ≤ ingress_price p ∧
  0 ≤ egress_price p ∧ 0 ≤ free_sector_price p ∧ 0 ≤ tip_height p.
Proof.
  unfold pbody_wire. rewrite !andb_true_iff, !is_cur_true, is_u64_true. lia.
Qed.

(** ** What [pay] guarantees *)
(** [paid old new cost]: [new] is [old] with the next revision number, [cost] moved
    from the renter's to the host's payout, and some collateral moved out of the
    missed host payout; storage fields are whatever [new] says. *)
Record paid (old new : contract) (cost : Z) : Prop := {
  pd_cost : 0 ≤ cost ≤ renter_out old;
  pd_revnum : revnum new = revnum old + 1;
  pd_renter : renter_out new = renter_out old - cost;
  pd_host : host_out new = host_out old + cost;
  pd_missed : 0 ≤ missed_host old - missed_host new ≤ missed_host old;
  pd_coll : total_collateral new = total_collateral old;
  pd_rk : rk new = rk old; pd_hk : hk new = hk old;
  pd_proof : proof_h new = proof_h old; pd_exp : exp_h new = exp_h old }.

Definition usage_nonneg (u : usage) : Prop :=
  0 ≤ u_rpc u ∧ 0 ≤ u_storage u ∧ 0 ≤ u_egress u ∧ 0 ≤ u_ingress u ∧ 0 ≤ u_funding u ∧ 0 ≤ u_risked u.

Lemma renter_cost_Some u a : renter_cost u = Some a →
  a = u_rpc u + u_storage u + u_egress u + u_ingress u + u_funding u.
Proof.
  unfold renter_cost. intros H. inv_opt H.
  apply cadd_Some in Ho, Ho0, Ho1, H. lia.
Qed.

Lemma pay_spec fc u fc' :
  pay fc u = Ok fc' → usage_nonneg u →
  ∃ cost, renter_cost u = Some cost ∧ paid fc fc' cost ∧
          filesize fc' = filesize fc ∧ capacity fc' = capacity fc ∧ root fc' = root fc.
Proof.
  unfold pay. intros H (? & ? & ? & ? & ? & ?). inv_ok H.
  injection H as <-.
  apply negb_true_iff, Z.ltb_ge in Hc, Hc0.
  pose proof (renter_cost_Some _ _ Hn) as ->.
  apply csub_Some in Hn0 as [-> ?], Hn2 as [-> ?]. apply cadd_Some in Hn1 as [-> ?].
  eexists; split; [done|]. split; [|done].
  split; simpl; lia.
Qed.

(** ** The four revision computations *)
Lemma free_usage_spec p n u : free_usage p n = Some u → 0 ≤ free_sector_price p → 0 ≤ n →
  usage_nonneg u ∧ ∀ c, renter_cost u = Some c → c = free_sector_price p * n.
Proof.
  unfold free_usage. intros H ? ?. inv_opt H. injection H as <-.
  apply cmul_Some in Ho as [-> ?].
  split; [unfold usage_nonneg; simpl; nia|].
  intros c Hc. apply renter_cost_Some in Hc. simpl in Hc. lia.
Qed.

Lemma roots_usage_spec p len u : roots_usage p len = Some u → 0 ≤ egress_price p → 0 ≤ len →
  usage_nonneg u ∧ ∀ c, renter_cost u = Some c → c = egress_price p * round4k (32 * len).
Proof.
  unfold roots_usage. intros H ? ?. inv_opt H. injection H as <-.
  apply cmul_Some in Ho as [-> ?].
  pose proof (round4k_nonneg (32 * len)).
  split; [unfold usage_nonneg; simpl; nia|].
  intros c Hc. apply renter_cost_Some in Hc. simpl in Hc. lia.
Qed.

Lemma append_usage_spec p g dur u : append_usage p g dur = Some u →
  0 ≤ storage_price p → 0 ≤ ingress_price p → 0 ≤ collateral_price p → 0 ≤ g → 0 ≤ dur →
  usage_nonneg u ∧
  ∀ c, renter_cost u = Some c →
       c = storage_price p * SectorSize * g * dur + ingress_price p * round4k (32 * g).
Proof.
  unfold append_usage. intros H ? ? ? ? ?. inv_opt H. injection H as <-.
  apply cmul_Some in Ho as [-> ?], Ho0 as [-> ?], Ho1 as [-> ?], Ho2 as [-> ?],
    Ho3 as [-> ?], Ho4 as [-> ?], Ho5 as [-> ?].
  pose proof (round4k_nonneg (32 * g)).
  assert (0 < SectorSize) by done.
  split; [unfold usage_nonneg; simpl; nia|].
  intros c Hc. apply renter_cost_Some in Hc. simpl in Hc. lia.
Qed.

Lemma count_true_nonneg l : 0 ≤ count_true l.
Proof. unfold count_true. lia. Qed.

Lemma append_growth_nonneg fc a : 0 ≤ a → 0 ≤ append_growth fc a.
Proof. unfold append_growth. lia. Qed.

(** the storage side of an append keeps [filesize ≤ capacity] (below 2^64 bytes) *)
Lemma append_storage fc a :
  0 ≤ a → 0 ≤ filesize fc → (capacity fc < u64 → filesize fc ≤ capacity fc) →
  let g := append_growth fc a in
  capacity fc ≤ capacity fc + SectorSize * g ∧
  (capacity fc + SectorSize * g < u64 → filesize fc + SectorSize * a ≤ capacity fc + SectorSize * g).
Proof.
  intros Ha Hfs Hok g.
  assert (0 ≤ g) by by apply append_growth_nonneg.
  assert (0 < SectorSize) as HS by done.
  split; [nia|]. intros Hlt.
  assert (capacity fc < u64) as Hc by nia.
  specialize (Hok Hc).
  subst g. unfold append_growth in *.
  rewrite wrap64_id in * by lia.
  set (k := (capacity fc - filesize fc) / SectorSize) in *.
  assert (SectorSize * k ≤ capacity fc - filesize fc) by (apply Z.mul_div_le; lia).
  assert (capacity fc - filesize fc < SectorSize * (k + 1)).
  { pose proof (Z.mod_pos_bound (capacity fc - filesize fc) SectorSize HS).
    pose proof (Z.div_mod (capacity fc - filesize fc) SectorSize). fold k in H2. lia. }
  destruct (Z.min_spec a k) as [[? ->]|[? ->]]; nia.
Qed.

(** duplicate-free in-range indices: there are at most as many as the range is long *)
Lemma nodupb_NoDup l : nodupb l = true → NoDup l.
Proof.
  induction l as [|x l IH]; simpl; [constructor|].
  rewrite andb_true_iff, negb_true_iff, bool_decide_eq_false.
  intros [? ?]. constructor; auto.
Qed.

Lemma pigeon (l : list Z) (n : Z) :
  NoDup l → (∀ x, x ∈ l → 0 ≤ x < n) → Z.of_nat (length l) ≤ Z.max n 0.
Proof.
  intros Hnd Hin.
  assert (length l ≤ length (seqZ 0 (Z.max n 0)))%nat as Hle.
  { apply submseteq_length, NoDup_submseteq; [done|].
    intros x Hx. apply elem_of_seqZ. specialize (Hin x Hx). lia. }
  rewrite seqZ_length in Hle. lia.
Qed.

Lemma forallb_elem {A} (f : A → bool) l : forallb f l = true → ∀ x, x ∈ l → f x = true.
Proof. rewrite forallb_forall. intros H x Hx. apply H. by apply elem_of_list_In. Qed.

Lemma free_count fc idxs :
  forallb is_u64 idxs = true →
  forallb (λ i, i <? filesize fc / SectorSize) idxs = true → nodupb idxs = true →
  0 ≤ filesize fc →
  SectorSize * Z.of_nat (length idxs) ≤ filesize fc.
Proof.
  intros Hu Hr Hd Hfs.
  assert (0 < SectorSize) as HS by done.
  pose proof (pigeon idxs (filesize fc / SectorSize) (nodupb_NoDup _ Hd)) as Hp.
  assert (0 ≤ filesize fc / SectorSize) by (apply Z.div_pos; lia).
  rewrite Z.max_l in Hp by done.
  assert (Z.of_nat (length idxs) ≤ filesize fc / SectorSize) as Hle.
  { apply Hp. intros x Hx.
    pose proof (forallb_elem _ _ Hu x Hx) as H1. pose proof (forallb_elem _ _ Hr x Hx) as H2.
    apply is_u64_true in H1. simpl in H2. lia. }
  pose proof (Z.mul_div_le (filesize fc) SectorSize HS). nia.
Qed.

(** ** Well-formed contracts and the step relation between consecutive revisions *)
Record good (c : cfg) (fc : contract) : Prop := {
  g_renter : 0 ≤ renter_out fc;
  g_missed : 0 ≤ missed_host fc;
  g_mt : missed_host fc ≤ total_collateral fc;
  g_th : total_collateral fc ≤ host_out fc;
  g_fs : 0 ≤ filesize fc;
  g_fsok : capacity fc < u64 → filesize fc ≤ capacity fc;
  g_exp : proof_h fc < exp_h fc;
  g_hk : hk fc = hostk c }.

(** what relates a persisted revision [a] to a later one [b] of the same contract *)
Record rev_step (a b : contract) : Prop := {
  rs_revnum : revnum a < revnum b;
  rs_rk : rk b = rk a; rs_hk : hk b = hk a;
  rs_proof : proof_h b = proof_h a; rs_exp : exp_h b = exp_h a;
  rs_coll : total_collateral b = total_collateral a;
  rs_sum : renter_out b + host_out b = renter_out a + host_out a;
  rs_renter : renter_out b ≤ renter_out a;
  rs_host : host_out a ≤ host_out b;
  rs_missed : missed_host b ≤ missed_host a;
  rs_cap : capacity a ≤ capacity b }.

Lemma rev_step_trans a b d : rev_step a b → rev_step b d → rev_step a d.
Proof. intros [] []. split; lia || congruence. Qed.

Lemma paid_rev_step old new cost : paid old new cost → capacity old ≤ capacity new → rev_step old new.
Proof. intros [] ?. split; lia || congruence. Qed.

Lemma good_paid c old new cost :
  good c old → paid old new cost → 0 ≤ filesize new →
  (capacity new < u64 → filesize new ≤ capacity new) → good c new.
Proof. intros [] [] ? ?. split; try lia; try congruence. Qed.

Lemma paid_set_storage_l fc fs cap rt new cost :
  paid (set_storage fc fs cap rt) new cost → paid fc new cost.
Proof. intros []. split; done. Qed.
Lemma paid_set_storage_r old fc fs cap rt cost :
  paid old fc cost → paid old (set_storage fc fs cap rt) cost.
Proof. intros []. split; done. Qed.

Lemma revise_free_spec fc p newroot n rev' cost :
  revise_free fc p newroot n = Ok (rev', cost) → 0 ≤ free_sector_price p → 0 ≤ n →
  paid fc rev' cost ∧ cost = free_sector_price p * n ∧ capacity rev' = capacity fc ∧
  filesize rev' = wrap64 (filesize fc - SectorSize * n) ∧ root rev' = newroot.
Proof.
  unfold revise_free. intros H ? ?. inv_ok H. injection H as <- <-.
  destruct (free_usage_spec _ _ _ Hn) as [Hnn Hcost]; [done..|].
  destruct (pay_spec _ _ _ Hb Hnn) as (cost & Hrc & Hpaid & Hfs & Hcap & Hrt).
  rewrite Hrc in Hn0. injection Hn0 as ->.
  split; [exact (paid_set_storage_r _ _ _ _ _ _ (paid_set_storage_l _ _ _ _ _ _ Hpaid))|].
  split; [by apply Hcost|]. simpl. by rewrite Hfs, Hcap.
Qed.

Lemma revise_append_spec fc p newroot a rev' cost :
  revise_append fc p newroot a = Ok (rev', cost) →
  0 ≤ storage_price p → 0 ≤ ingress_price p → 0 ≤ collateral_price p → 0 ≤ a →
  let g := append_growth fc a in
  paid fc rev' cost ∧
  cost = storage_price p * SectorSize * g * wrap64 (exp_h fc - tip_height p) + ingress_price p * round4k (32 * g) ∧
  capacity rev' = capacity fc + SectorSize * g ∧ filesize rev' = filesize fc + SectorSize * a ∧ root rev' = newroot.
Proof.
  intros H ? ? ? ?. cbv zeta. unfold revise_append in H. cbv zeta in H. inv_ok H. injection H as <- <-.
  destruct (append_usage_spec _ _ _ _ Hn) as [Hnn Hcost]; [done..|by apply append_growth_nonneg|apply wrap64_nonneg|].
  destruct (pay_spec _ _ _ Hb Hnn) as (cost & Hrc & Hpaid & Hfs & Hcap & Hrt).
  rewrite Hrc in Hn0. injection Hn0 as ->.
  split; [exact (paid_set_storage_l _ _ _ _ _ _ Hpaid)|].
  split; [by apply Hcost|]. by rewrite Hfs, Hcap, Hrt.
Qed.

Lemma revise_roots_spec fc p len rev' cost :
  revise_roots fc p len = Ok (rev', cost) → 0 ≤ egress_price p → 0 ≤ len →
  paid fc rev' cost ∧ cost = egress_price p * round4k (32 * len) ∧
  capacity rev' = capacity fc ∧ filesize rev' = filesize fc ∧ root rev' = root fc.
Proof.
  unfold revise_roots. intros H ? ?. inv_ok H. injection H as <- <-.
  destruct (roots_usage_spec _ _ _ Hn) as [Hnn Hcost]; [done..|].
  destruct (pay_spec _ _ _ Hb Hnn) as (cost & Hrc & Hpaid & Hfs & Hcap & Hrt).
  rewrite Hrc in Hn0. injection Hn0 as ->. auto.
Qed.

Lemma revise_fund_spec fc amount rev' cost :
  revise_fund fc amount = Ok (rev', cost) → 0 ≤ amount →
  paid fc rev' cost ∧ cost = amount ∧
  capacity rev' = capacity fc ∧ filesize rev' = filesize fc ∧ root rev' = root fc.
Proof.
  unfold revise_fund. intros H ?. inv_ok H. injection H as <- <-.
  destruct (pay_spec _ _ _ Hb) as (cost & Hrc & Hpaid & Hfs & Hcap & Hrt).
  { unfold usage_nonneg; simpl; lia. }
  apply renter_cost_Some in Hrc. simpl in Hrc. replace cost with amount in * by lia. auto.
Qed.

(** the total of a deposit list *)
Definition total_deposits (deps : list deposit) : Z := foldr (λ d acc, d_amt d + acc) 0 deps.

Lemma sum_deposits_Some deps acc t : sum_deposits deps acc = Some t → t = acc + total_deposits deps.
Proof.
  revert acc. induction deps as [|d ds IH]; simpl; intros acc H.
  - injection H as <-. lia.
  - inv_opt H. apply cadd_Some in Ho as [-> _]. apply IH in H. lia.
Qed.

Lemma total_deposits_nonneg deps : (∀ d, d ∈ deps → 0 ≤ d_amt d) → 0 ≤ total_deposits deps.
Proof.
  induction deps as [|d ds IH]; simpl; intros H; [done|].
  assert (0 ≤ d_amt d) by (apply H; left).
  assert (0 ≤ total_deposits ds) by (apply IH; intros; apply H; by right). lia.
Qed.

(** ** Locking and committing *)
Lemma lock_rev_Ok s h cid ce : lock_rev s h cid = Ok ce →
  h_contracts s !! cid = Some ce ∧ h_contracts s !! renewal_id cid = None ∧ h < proof_h (ce_rev ce).
Proof.
  unfold lock_rev, is_renewed. intros H. inv_ok H. injection H as <-.
  apply andb_true_iff in Hc as [Hr Hh]. apply Z.ltb_lt in Hh.
  destruct (h_contracts s !! renewal_id cid); [done|]. auto.
Qed.

Definition credited (s : hstate) (deps : option (bool * list deposit)) : hstate :=
  match deps with Some (pool, ds) => credit pool s ds | None => s end.

Lemma credited_contracts s deps : h_contracts (credited s deps) = h_contracts s.
Proof. destruct deps as [[[] ?]|]; done. Qed.
Lemma credited_log s deps : h_log (credited s deps) = h_log s.
Proof. destruct deps as [[[] ?]|]; done. Qed.
Lemma credited_issued s deps : h_issued (credited s deps) = h_issued s.
Proof. destruct deps as [[[] ?]|]; done. Qed.

Lemma commit_Ok c s h cid ce rev' nroots' cost rsig deps s' r :
  commit c s h cid ce rev' nroots' cost rsig deps = Ok (s', r) →
  rsig = Sig (rk (ce_rev ce)) (MRev rev') ∧ revnum (ce_rev ce) < revnum rev' ∧ hk (ce_rev ce) = hostk c ∧
  s' = with_contract (credited s deps) cid (mk_centry rev' rsig (Sig (hostk c) (MRev rev')) nroots')
         (mk_entry cid rev' rsig (Sig (hostk c) (MRev rev')) h (KRevise cost)) ∧
  r = mk_resp VOk (Some (cid, rev', nroots')) None.
Proof.
  unfold commit. intros H. inv_ok H. injection H as <- <-.
  apply verifyb_true in Hc, Hc2. apply Z.ltb_lt in Hc0. injection Hc2 as Hk.
  done.
Qed.

(** ** What an accepted request satisfied: one inversion per revising handler *)
Ltac inv_pair H :=
  lazymatch type of H with
  | (let '(_, _) := ?x in _) = _ => destruct x as [? ?]; simpl in H
  end.

Ltac bsimp :=
  repeat match goal with
  | H : _ && _ = true |- _ => apply andb_true_iff in H as [? ?]
  | H : negb _ = true |- _ => apply negb_true_iff in H
  | H : verifyb _ _ _ = true |- _ => apply verifyb_true in H
  | H : Z.eqb _ _ = false |- _ => apply Z.eqb_neq in H
  | H : Z.eqb _ _ = true |- _ => apply Z.eqb_eq in H
  | H : Z.ltb _ _ = false |- _ => apply Z.ltb_ge in H
  | H : Z.ltb _ _ = true |- _ => apply Z.ltb_lt in H
  | H : Z.leb _ _ = true |- _ => apply Z.leb_le in H
  | H : Z.leb _ _ = false |- _ => apply Z.leb_gt in H
  | H : is_cur _ = true |- _ => apply is_cur_true in H
  | H : is_u64 _ = true |- _ => apply is_u64_true in H
  end.

Lemma h_free_Ok c s now h cid p idxs chal newroot rsig s' r :
  h_free c s now h cid p idxs chal newroot rsig = Ok (s', r) →
  ∃ ce rev' cost rs,
    lock_rev s h cid = Ok ce ∧
    chal = Sig (rk (ce_rev ce)) (MChal cid (revnum (ce_rev ce) + 1)) ∧
    pbody_wire (p_body p) = true ∧ prices_valid c now p = true ∧
    forallb is_u64 idxs = true ∧
    forallb (λ i, i <? filesize (ce_rev ce) / SectorSize) idxs = true ∧ nodupb idxs = true ∧
    forallb (λ i, i <? ce_nroots ce) idxs = true ∧
    Z.of_nat (length idxs) ≤ MaxSectorBatchSize ∧ rsig = Some rs ∧
    revise_free (ce_rev ce) (p_body p) newroot (Z.of_nat (length idxs)) = Ok (rev', cost) ∧
    commit c s h cid ce rev' (ce_nroots ce - Z.of_nat (length idxs)) cost rs None = Ok (s', r).
Proof.
  unfold h_free. intros H. inv_ok H. inv_pair H. bsimp.
  eexists _, _, _, _. repeat split; eauto.
Qed.

Lemma h_append_Ok c s now h cid p stored chal newroot rsig s' r :
  h_append c s now h cid p stored chal newroot rsig = Ok (s', r) →
  ∃ ce rev' cost rs,
    lock_rev s h cid = Ok ce ∧
    chal = Sig (rk (ce_rev ce)) (MChal cid (revnum (ce_rev ce) + 1)) ∧
    pbody_wire (p_body p) = true ∧ prices_valid c now p = true ∧
    0 < Z.of_nat (length stored) ≤ MaxSectorBatchSize ∧ rsig = Some rs ∧
    revise_append (ce_rev ce) (p_body p) newroot (count_true stored) = Ok (rev', cost) ∧
    commit c s h cid ce rev' (ce_nroots ce + count_true stored) cost rs None = Ok (s', r).
Proof.
  unfold h_append. intros H. inv_ok H. inv_pair H. inv_ok H. bsimp.
  eexists _, _, _, _. repeat split; eauto. lia.
Qed.

Lemma h_fund_Ok c s h cid deps rsig s' r :
  h_fund c s h cid deps rsig = Ok (s', r) →
  ∃ ce rev' cost total,
    lock_rev s h cid = Ok ce ∧
    forallb (λ d, is_cur (d_amt d)) deps = true ∧
    0 < Z.of_nat (length deps) ≤ MaxAccountBatchSize ∧
    forallb (λ d, negb (d_acct d =? 0)%N && negb (d_amt d =? 0)) deps = true ∧
    sum_deposits deps 0 = Some total ∧
    revise_fund (ce_rev ce) total = Ok (rev', cost) ∧
    commit c s h cid ce rev' (ce_nroots ce) cost rsig (Some (false, deps)) = Ok (s', r).
Proof.
  unfold h_fund. intros H. inv_ok H. inv_pair H. bsimp.
  eexists _, _, _, _. repeat split; eauto. lia.
Qed.

Lemma h_replenish_Ok c s h pool cid accts target chal rsig s' r :
  h_replenish c s h pool cid accts target chal rsig = Ok (s', r) →
  (s' = s ∧ r = mk_resp VOkNoRev None None) ∨
  ∃ ce rev' cost total rs,
    let deps := replenish_deposits (if pool then h_pools s else h_accounts s) accts target in
    lock_rev s h cid = Ok ce ∧
    chal = Sig (rk (ce_rev ce)) (MChalRepl accts target cid (revnum (ce_rev ce))) ∧
    0 < target < u128 ∧
    0 < Z.of_nat (length accts) ≤ MaxAccountBatchSize ∧
    sum_deposits deps 0 = Some total ∧ total ≠ 0 ∧ rsig = Some rs ∧
    revise_fund (ce_rev ce) total = Ok (rev', cost) ∧
    commit c s h cid ce rev' (ce_nroots ce) cost rs (Some (pool, deps)) = Ok (s', r).
Proof.
  unfold h_replenish. intros H. inv_ok H.
  lazymatch type of H with (if ?t =? 0 then _ else _) = _ => destruct (t =? 0) eqn:Ez end.
  { injection H as <- <-. by left. }
  right. inv_ok H. inv_pair H. inv_ok H. bsimp.
  eexists _, _, _, _, _. cbv zeta. repeat split; eauto; lia.
Qed.

Lemma h_roots_Ok c s now h cid p offset len rsig s' r :
  h_roots c s now h cid p offset len rsig = Ok (s', r) →
  ∃ ce rev' cost,
    lock_rev s h cid = Ok ce ∧
    pbody_wire (p_body p) = true ∧ prices_valid c now p = true ∧
    0 ≤ offset ∧ 0 < len ≤ MaxSectorBatchSize ∧ offset + len ≤ filesize (ce_rev ce) / SectorSize ∧
    revise_roots (ce_rev ce) (p_body p) len = Ok (rev', cost) ∧
    commit c s h cid ce rev' (ce_nroots ce) cost rsig None = Ok (s', r).
Proof.
  unfold h_roots. intros H. inv_ok H. inv_pair H. bsimp.
  eexists _, _, _. repeat split; eauto; lia.
Qed.

(** ** Formation, renewal, refresh *)
Lemma min_proof_height_gt tip p ph :
  min_proof_height tip p ≤ ph → ph ≤ u64 - 1 - ProofWindow → tip < ph.
Proof.
  unfold min_proof_height, MinContractDuration, ProofWindow. case_match eqn:E; bsimp; lia.
Qed.

Lemma new_contract_good c p rkey allowance collateral ph fc :
  new_contract_of c p rkey allowance collateral ph = Some fc →
  0 ≤ allowance → 0 ≤ collateral → 0 ≤ contract_price p → 0 ≤ ph ≤ u64 - 1 - ProofWindow →
  good c fc ∧ revnum fc = 0 ∧ rk fc = rkey ∧ proof_h fc = ph.
Proof.
  unfold new_contract_of. intros H ? ? ? ?. inv_opt H. injection H as <-.
  apply cadd_Some in Ho as [-> ?].
  split; [|done]. split; simpl; try lia; try done.
  rewrite wrap64_id; unfold ProofWindow, u64 in *; lia.
Qed.

Lemma h_form_Ok c s now h txid p rkey al co ph fee inputs c1 c2 csig s' r :
  h_form c s now h txid p rkey al co ph fee inputs c1 c2 csig = Ok (s', r) →
  ∃ fc cs,
    accepting c = true ∧ prices_valid c now p = true ∧
    csig = Some cs ∧ cs = Sig rkey (MRev fc) ∧
    good c fc ∧ revnum fc = 0 ∧ rk fc = rkey ∧ h < proof_h fc ∧
    h_contracts s !! form_id txid = None ∧
    s' = with_contract s (form_id txid) (mk_centry fc cs (Sig (hostk c) (MRev fc)) 0)
           (mk_entry (form_id txid) fc cs (Sig (hostk c) (MRev fc)) h KForm) ∧
    r = mk_resp VOk (Some (form_id txid, fc, 0)) None.
Proof.
  unfold h_form. intros H. inv_ok H. injection H as <- <-. bsimp.
  match goal with H : pbody_wire _ = true |- _ => apply pbody_wire_true in H as (? & _) end.
  match goal with H : new_contract_of _ _ _ _ _ _ = Some _ |- _ =>
    destruct (new_contract_good _ _ _ _ _ _ _ H) as (Hg & Hr & Hk & Hp); [lia..|] end.
  destruct (h_contracts s !! form_id txid) eqn:E; [done|].
  eexists _, _. split_and!; eauto.
  rewrite Hp. eapply min_proof_height_gt; [eassumption|lia].
Qed.

(** what a renewal object guarantees with respect to the contract it renews *)
Record renews (c : cfg) (old : contract) (r : renewal) : Prop := {
  rn_good : good c (new_contract r);
  rn_revnum : revnum (new_contract r) = 0;
  rn_rk : rk (new_contract r) = rk old;
  rn_hk : hk (new_contract r) = hk old;
  rn_renter : final_renter r + renter_rollover r = renter_out old;
  rn_host : final_host r + host_rollover r = host_out old;
  rn_nonneg : 0 ≤ final_renter r ∧ 0 ≤ renter_rollover r ∧ 0 ≤ final_host r ∧ 0 ≤ host_rollover r }.

Lemma renew_contract_spec c fc p al co ph r :
  renew_contract fc p al co ph = Some r → good c fc →
  0 ≤ al → 0 ≤ co → pbody_wire p = true → 0 ≤ ph ≤ u64 - 1 - ProofWindow →
  renews c fc r ∧ proof_h (new_contract r) = ph.
Proof.
  unfold renew_contract. intros H Hg ? ? Hw ?. inv_opt H. injection H as <-.
  apply pbody_wire_true in Hw as (? & ? & ? & ? & ? & ? & ?).
  destruct Hg.
  apply cmul_Some in Ho as [-> ?], Ho0 as [-> ?], Ho2 as [-> ?], Ho3 as [-> ?].
  apply cadd_Some in Ho1 as [-> ?], Ho4 as [-> ?], Ho5 as [-> ?].
  apply csub_Some in Ho6 as [-> ?], Ho7 as [-> ?].
  pose proof (wrap64_nonneg (wrap64 (ph + ProofWindow) - tip_height p)).
  pose proof (wrap64_nonneg (wrap64 (ph + ProofWindow) - exp_h fc)).
  assert (0 ≤ collateral_price p * filesize fc * wrap64 (wrap64 (ph + ProofWindow) - tip_height p)) by nia.
  assert (0 ≤ storage_price p * filesize fc * wrap64 (wrap64 (ph + ProofWindow) - exp_h fc)) by nia.
  split; [|done]. split; simpl; try done.
  - split; simpl; try lia.
    rewrite wrap64_id; unfold ProofWindow, u64 in *; lia.
  - case_match; lia.
  - case_match; lia.
  - repeat case_match; bsimp; lia.
Qed.

Lemma refresh_contract_spec c partial fc p al co r :
  refresh_contract partial fc p al co = Some r → good c fc →
  0 ≤ al → 0 ≤ co → pbody_wire p = true →
  renews c fc r ∧ proof_h (new_contract r) = proof_h fc.
Proof.
  unfold refresh_contract, risked_revenue, risked_collateral. intros H Hg ? ? Hw.
  apply pbody_wire_true in Hw as (? & ? & ? & ? & ? & ? & ?).
  destruct Hg. destruct partial; inv_opt H; injection H as <-; simpl in *.
  - apply csub_Some in Ho as [-> ?], Ho0 as [-> ?], Ho5 as [-> ?], Ho6 as [-> ?], Ho8 as [-> ?].
    apply cadd_Some in Ho1 as [-> ?], Ho2 as [-> ?], Ho3 as [-> ?], Ho4 as [-> ?], Ho7 as [-> ?].
    split; [|done]. split; simpl; try done.
    + split; simpl; try lia; done.
    + case_match; lia.
    + case_match; lia.
    + repeat case_match; bsimp; lia.
  - apply cadd_Some in Ho as [-> ?], Ho0 as [-> ?], Ho1 as [-> ?], Ho2 as [-> ?], Ho3 as [-> ?].
    split; [|done]. split; simpl; try done; try lia.
    split; simpl; try lia; done.
Qed.

Lemma finish_renewal_Ok c s h cid ce r rcost inputs c1 c2 sigs s' rs :
  finish_renewal c s h cid ce r rcost inputs c1 c2 sigs = Ok (s', rs) →
  ∃ rnsig csig,
    rcost ≤ inputs ∧ sigs = Some (rnsig, csig) ∧
    rnsig = Sig (rk (ce_rev ce)) (MRenewal r) ∧ csig = Sig (rk (ce_rev ce)) (MRev (new_contract r)) ∧
    hk (ce_rev ce) = hostk c ∧
    h_contracts s !! renewal_id cid = None ∧
    s' = with_contract s (renewal_id cid)
           (mk_centry (new_contract r) csig (Sig (hostk c) (MRev (new_contract r))) (ce_nroots ce))
           (mk_entry (renewal_id cid) (new_contract r) csig (Sig (hostk c) (MRev (new_contract r))) h
              (KRenew cid r rnsig (Sig (hostk c) (MRenewal r)))) ∧
    rs = mk_resp VOk (Some (renewal_id cid, new_contract r, ce_nroots ce)) None.
Proof.
  unfold finish_renewal. intros H. inv_ok H. inv_pair H. inv_ok H. injection H as <- <-. bsimp.
  destruct (h_contracts s !! renewal_id cid) eqn:E; [done|].
  match goal with H : Sig (hostk c) _ = Sig _ _ |- _ => injection H as Hk end.
  subst. eexists _, _. split_and!; eauto.
Qed.

Lemma h_renew_Ok c s now h cid p al co ph fee inputs chal c1 c2 sigs s' rs :
  h_renew c s now h cid p al co ph fee inputs chal c1 c2 sigs = Ok (s', rs) →
  ∃ ce r rcost,
    accepting c = true ∧ prices_valid c now p = true ∧ pbody_wire (p_body p) = true ∧
    lock_rev s h cid = Ok ce ∧
    chal = Sig (rk (ce_rev ce)) (MChal cid (revnum (ce_rev ce))) ∧
    0 ≤ al ∧ 0 ≤ co ∧ 0 ≤ ph ∧ proof_h (ce_rev ce) < ph ≤ u64 - 1 - ProofWindow ∧
    min_proof_height h (p_body p) ≤ ph ∧
    renew_contract (ce_rev ce) (p_body p) al co ph = Some r ∧
    finish_renewal c s h cid ce r rcost inputs c1 c2 sigs = Ok (s', rs).
Proof.
  unfold h_renew. intros H. inv_ok H. bsimp.
  eexists _, _, _. split_and!; eauto; lia.
Qed.

Lemma h_refresh_Ok c s now h partial cid p al co fee inputs chal c1 c2 sigs s' rs :
  h_refresh c s now h partial cid p al co fee inputs chal c1 c2 sigs = Ok (s', rs) →
  ∃ ce r rcost,
    accepting c = true ∧ prices_valid c now p = true ∧ pbody_wire (p_body p) = true ∧
    lock_rev s h cid = Ok ce ∧
    chal = Sig (rk (ce_rev ce)) (MChal cid (revnum (ce_rev ce))) ∧
    0 ≤ al ∧ 0 ≤ co ∧
    refresh_contract partial (ce_rev ce) (p_body p) al co = Some r ∧
    finish_renewal c s h cid ce r rcost inputs c1 c2 sigs = Ok (s', rs).
Proof.
  unfold h_refresh. intros H. inv_ok H. bsimp.
  eexists _, _, _. split_and!; eauto; lia.
Qed.

(** ** The log of persisted revisions *)
(** the entries of one contract, newest first *)
Definition entries_of (l : list entry) (cid : N) : list entry := filter (λ e, e_cid e = cid) l.
(** the persisted revisions of one contract, newest first *)
Definition persisted (s : hstate) (cid : N) : list contract := e_rev <$> entries_of (h_log s) cid.

Definition signed (c : cfg) (e : entry) : Prop :=
  e_rsig e = Sig (rk (e_rev e)) (MRev (e_rev e)) ∧ e_hsig e = Sig (hostk c) (MRev (e_rev e)).

(** an entry is in order with respect to the log [l] it is put on top of *)
Definition entry_ok (c : cfg) (l : list entry) (e : entry) : Prop :=
  good c (e_rev e) ∧ signed c e ∧ e_height e < proof_h (e_rev e) ∧
  match e_kind e with
  | KForm => head (entries_of l (e_cid e)) = None ∧ revnum (e_rev e) = 0
  | KRevise cost =>
      ∃ p, head (entries_of l (e_cid e)) = Some p ∧ rev_step (e_rev p) (e_rev e) ∧
           cost = renter_out (e_rev p) - renter_out (e_rev e) ∧ 0 ≤ cost
  | KRenew from r rsig hsig =>
      head (entries_of l (e_cid e)) = None ∧ e_cid e = renewal_id from ∧
      ∃ p, head (entries_of l from) = Some p ∧ renews c (e_rev p) r ∧ new_contract r = e_rev e ∧
           rsig = Sig (rk (e_rev p)) (MRenewal r) ∧ hsig = Sig (hostk c) (MRenewal r)
  end.

Fixpoint log_ok (c : cfg) (l : list entry) : Prop :=
  match l with [] => True | e :: l' => entry_ok c l' e ∧ log_ok c l' end.

Definition ce_view (ce : centry) := (ce_rev ce, ce_rsig ce, ce_hsig ce).
Definition e_view (e : entry) := (e_rev e, e_rsig e, e_hsig e).

(** the invariant: the log is in order, and the Contractor holds, for every
    contract, exactly the newest persisted revision with its two signatures *)
Record Inv (c : cfg) (s : hstate) : Prop := {
  inv_log : log_ok c (h_log s);
  inv_held : ∀ cid, ce_view <$> h_contracts s !! cid = e_view <$> head (entries_of (h_log s) cid) }.

Lemma Inv_init c : Inv c h_init.
Proof. split; [done|]. intros cid. simpl. by rewrite lookup_empty. Qed.

Lemma entries_of_cons_eq l e : entries_of (e :: l) (e_cid e) = e :: entries_of l (e_cid e).
Proof. unfold entries_of. by rewrite filter_cons_True. Qed.
Lemma entries_of_cons_ne l e cid : e_cid e ≠ cid → entries_of (e :: l) cid = entries_of l cid.
Proof. unfold entries_of. intros. by rewrite filter_cons_False. Qed.

Lemma Inv_held_Some c s cid ce : Inv c s → h_contracts s !! cid = Some ce →
  ∃ p, head (entries_of (h_log s) cid) = Some p ∧ e_cid p = cid ∧
       e_rev p = ce_rev ce ∧ e_rsig p = ce_rsig ce ∧ e_hsig p = ce_hsig ce.
Proof.
  intros [_ Hh] Hc. specialize (Hh cid). rewrite Hc in Hh. simpl in Hh.
  destruct (head (entries_of (h_log s) cid)) as [p|] eqn:E; [|done].
  injection Hh as ? ? ?. exists p. split_and!; try done.
  apply head_Some_elem_of in E. unfold entries_of in E. by apply elem_of_list_filter in E as [? _].
Qed.

Lemma Inv_held_None c s cid : Inv c s → h_contracts s !! cid = None → head (entries_of (h_log s) cid) = None.
Proof.
  intros [_ Hh] Hc. specialize (Hh cid). rewrite Hc in Hh.
  by destruct (head (entries_of (h_log s) cid)).
Qed.

Lemma log_ok_elem c l e : log_ok c l → e ∈ l → ∃ l', entry_ok c l' e.
Proof.
  induction l as [|x l IH]; simpl; [by intros _ ?%elem_of_nil|].
  intros [? ?] [->|?]%elem_of_cons; eauto.
Qed.

Lemma Inv_good c s cid ce : Inv c s → h_contracts s !! cid = Some ce → good c (ce_rev ce).
Proof.
  intros HI Hc. destruct (Inv_held_Some _ _ _ _ HI Hc) as (p & Hp & _ & <- & _).
  apply head_Some_elem_of in Hp. unfold entries_of in Hp. apply elem_of_list_filter in Hp as [_ Hp].
  destruct (log_ok_elem _ _ _ (inv_log _ _ HI) Hp) as (l' & Hg & _). done.
Qed.

(** ** The five ways a step changes the state *)
Inductive effect (c : cfg) (s : hstate) (q : req) : hstate → Prop :=
| eff_same : effect c s q s
| eff_settings pb :
    effect c s q (mk_hstate (h_contracts s) (h_accounts s) (h_pools s) (h_log s) (pb :: h_issued s))
| eff_persist s1 cid ce e :
    h_contracts s1 = h_contracts s → h_log s1 = h_log s → h_issued s1 = h_issued s →
    e_cid e = cid → ce_view ce = e_view e → e_height e = q_height q →
    entry_ok c (h_log s) e →
    effect c s q (with_contract s1 cid ce e).

Lemma effect_Inv c s q s' : Inv c s → effect c s q s' → Inv c s'.
Proof.
  intros HI [|pb|s1 cid ce e Hc Hl Hi Hcid Hv Hh Hok]; [done|by destruct HI|].
  destruct HI as [Hlog Hheld]. split; simpl.
  - rewrite Hl. done.
  - intros cid'. rewrite Hl, Hc. destruct (decide (cid' = cid)) as [->|Hne].
    + rewrite lookup_insert. subst cid. rewrite entries_of_cons_eq. simpl. by rewrite Hv.
    + rewrite lookup_insert_ne by done. rewrite entries_of_cons_ne by congruence. apply Hheld.
Qed.

(** a committed revision is an [eff_persist] *)
Lemma commit_effect c s q cid ce rev' nroots' cost rsig deps s' r :
  Inv c s → lock_rev s (q_height q) cid = Ok ce →
  commit c s (q_height q) cid ce rev' nroots' cost rsig deps = Ok (s', r) →
  paid (ce_rev ce) rev' cost → capacity (ce_rev ce) ≤ capacity rev' →
  0 ≤ filesize rev' → (capacity rev' < u64 → filesize rev' ≤ capacity rev') →
  effect c s q s' ∧ r_verdict r = VOk ∧
  h_contracts s' !! cid = Some (mk_centry rev' (Sig (rk (ce_rev ce)) (MRev rev')) (Sig (hostk c) (MRev rev')) nroots').
Proof.
  intros HI Hlock Hcommit Hpaid Hcap Hfs Hfsok.
  apply lock_rev_Ok in Hlock as (Hc & Hren & Hh).
  apply commit_Ok in Hcommit as (-> & Hrn & Hhk & -> & ->).
  pose proof (Inv_good _ _ _ _ HI Hc) as Hg.
  destruct (Inv_held_Some _ _ _ _ HI Hc) as (p & Hp & Hpc & Hpr & _).
  split_and!; [|done|].
  - eapply eff_persist; try done.
    + apply credited_contracts. + apply credited_log. + apply credited_issued.
    + split_and!; simpl.
      * eapply good_paid; eauto.
      * split; simpl; [by rewrite (pd_rk _ _ _ Hpaid)|done].
      * by rewrite (pd_proof _ _ _ Hpaid).
      * exists p. rewrite Hp, Hpr. split_and!; [done|by eapply paid_rev_step|..];
          destruct Hpaid; lia.
  - unfold with_contract; simpl. by rewrite lookup_insert.
Qed.

(** ** Each revising handler: the effect, and what the renter paid *)
(** the amount due for the service a request asks for, under the price table it
    presents ([old] is the revision the host holds): rhp.go:175-204, 894-905 *)
Definition due (s : hstate) (rp : rpc) (old : contract) : option Z :=
  match rp with
  | RFree _ p idxs _ _ _ => Some (free_sector_price (p_body p) * Z.of_nat (length idxs))
  | RAppend _ p stored _ _ _ =>
      let g := append_growth old (count_true stored) in
      Some (storage_price (p_body p) * SectorSize * g * wrap64 (exp_h old - tip_height (p_body p))
            + ingress_price (p_body p) * round4k (32 * g))
  | RRoots _ p _ len _ => Some (egress_price (p_body p) * round4k (32 * len))
  | RFund _ deps _ => Some (total_deposits deps)
  | RReplenish pool _ accts target _ _ =>
      Some (total_deposits (replenish_deposits (if pool then h_pools s else h_accounts s) accts target))
  | _ => None
  end.

(** the contract a request names, the price table it presents *)
Definition rpc_cid (rp : rpc) : option N :=
  match rp with
  | RLatest cid | RFree cid _ _ _ _ _ | RAppend cid _ _ _ _ _ | RFund cid _ _ | RReplenish _ cid _ _ _ _
  | RRoots cid _ _ _ _ | RRenew cid _ _ _ _ _ _ _ _ _ _ | RRefresh _ cid _ _ _ _ _ _ _ _ _ => Some cid
  | _ => None
  end.
Definition rpc_prices (rp : rpc) : option prices :=
  match rp with
  | RForm _ p _ _ _ _ _ _ _ _ _ | RFree _ p _ _ _ _ | RAppend _ p _ _ _ _ | RRoots _ p _ _ _
  | RRenew _ p _ _ _ _ _ _ _ _ _ | RRefresh _ _ p _ _ _ _ _ _ _ _ => Some p
  | _ => None
  end.

(** what an accepted revising request did to the contract it names *)
Definition revised (c : cfg) (s s' : hstate) (cid : N) (cost : Z) : Prop :=
  ∃ ce ce', h_contracts s !! cid = Some ce ∧ h_contracts s' !! cid = Some ce' ∧
            renter_out (ce_rev ce) - renter_out (ce_rev ce') = cost ∧
            host_out (ce_rev ce') - host_out (ce_rev ce) = cost ∧ 0 ≤ cost ∧
            revnum (ce_rev ce') = revnum (ce_rev ce) + 1 ∧
            ce_rsig ce' = Sig (rk (ce_rev ce)) (MRev (ce_rev ce')) ∧
            ce_hsig ce' = Sig (hostk c) (MRev (ce_rev ce')).

Lemma revised_intro c s s' cid ce rev' cost nroots' :
  lock_rev s (q_height (mk_req 0 0 RSettings)) cid = lock_rev s 0 cid →
  h_contracts s !! cid = Some ce → paid (ce_rev ce) rev' cost →
  h_contracts s' !! cid = Some (mk_centry rev' (Sig (rk (ce_rev ce)) (MRev rev')) (Sig (hostk c) (MRev rev')) nroots') →
  revised c s s' cid cost.
Proof.
  intros _ Hc Hp Hc'. exists ce, (mk_centry rev' (Sig (rk (ce_rev ce)) (MRev rev')) (Sig (hostk c) (MRev rev')) nroots').
  destruct Hp. simpl. split_and!; try done; lia.
Qed.

Lemma free_step c s q cid p idxs chal nr rsig s' r :
  Inv c s → h_free c s (q_now q) (q_height q) cid p idxs chal nr rsig = Ok (s', r) →
  effect c s q s' ∧ r_verdict r = VOk ∧ prices_valid c (q_now q) p = true ∧
  revised c s s' cid (free_sector_price (p_body p) * Z.of_nat (length idxs)).
Proof.
  intros HI H. apply h_free_Ok in H as (ce & rev' & cost & rs & Hl & _ & Hw & Hpv & Hu & Hr & Hd & _ & _ & _ & Hrev & Hcm).
  pose proof Hl as (Hc & _)%lock_rev_Ok.
  pose proof (Inv_good _ _ _ _ HI Hc) as Hg.
  apply pbody_wire_true in Hw as (? & ? & ? & ? & ? & ? & ?).
  apply revise_free_spec in Hrev as (Hpaid & -> & Hcap & Hfs & _); [|done|lia].
  pose proof (free_count _ _ Hu Hr Hd (g_fs _ _ Hg)) as Hcount.
  destruct (commit_effect _ _ _ _ _ _ _ _ _ _ _ _ HI Hl Hcm Hpaid) as (He & Hv & Hc').
  - lia.
  - rewrite Hfs. apply wrap64_nonneg.
  - rewrite Hfs, Hcap. intros Hlt. pose proof (g_fsok _ _ Hg Hlt). pose proof (g_fs _ _ Hg).
    unfold SectorSize in *. rewrite wrap64_id; lia.
  - split_and!; try done. eapply revised_intro; eauto.
Qed.

Lemma append_step c s q cid p stored chal nr rsig s' r :
  Inv c s → h_append c s (q_now q) (q_height q) cid p stored chal nr rsig = Ok (s', r) →
  effect c s q s' ∧ r_verdict r = VOk ∧ prices_valid c (q_now q) p = true ∧
  ∃ ce, h_contracts s !! cid = Some ce ∧ ∀ d, due s (RAppend cid p stored chal nr rsig) (ce_rev ce) = Some d →
        revised c s s' cid d.
Proof.
  intros HI H. apply h_append_Ok in H as (ce & rev' & cost & rs & Hl & _ & Hw & Hpv & _ & _ & Hrev & Hcm).
  pose proof Hl as (Hc & _)%lock_rev_Ok.
  pose proof (Inv_good _ _ _ _ HI Hc) as Hg.
  apply pbody_wire_true in Hw as (? & ? & ? & ? & ? & ? & ?).
  pose proof (count_true_nonneg stored).
  apply revise_append_spec in Hrev as (Hpaid & -> & Hcap & Hfs & _); [|done..].
  destruct (append_storage (ce_rev ce) (count_true stored)) as [Hmono Hok]; [done|apply Hg|apply Hg|].
  destruct (commit_effect _ _ _ _ _ _ _ _ _ _ _ _ HI Hl Hcm Hpaid) as (He & Hv & Hc').
  - lia.
  - rewrite Hfs. pose proof (g_fs _ _ Hg). assert (0 < SectorSize) by done. nia.
  - rewrite Hfs, Hcap. done.
  - split_and!; try done. exists ce. split; [done|]. intros d [= <-]. eapply revised_intro; eauto.
Qed.

Lemma roots_step c s q cid p off len rsig s' r :
  Inv c s → h_roots c s (q_now q) (q_height q) cid p off len rsig = Ok (s', r) →
  effect c s q s' ∧ r_verdict r = VOk ∧ prices_valid c (q_now q) p = true ∧
  revised c s s' cid (egress_price (p_body p) * round4k (32 * len)).
Proof.
  intros HI H. apply h_roots_Ok in H as (ce & rev' & cost & Hl & Hw & Hpv & _ & ? & _ & Hrev & Hcm).
  pose proof Hl as (Hc & _)%lock_rev_Ok.
  pose proof (Inv_good _ _ _ _ HI Hc) as Hg.
  apply pbody_wire_true in Hw as (? & ? & ? & ? & ? & ? & ?).
  apply revise_roots_spec in Hrev as (Hpaid & -> & Hcap & Hfs & _); [|done|lia].
  destruct (commit_effect _ _ _ _ _ _ _ _ _ _ _ _ HI Hl Hcm Hpaid) as (He & Hv & Hc').
  - lia.
  - rewrite Hfs. apply Hg.
  - rewrite Hfs, Hcap. apply Hg.
  - split_and!; try done. eapply revised_intro; eauto.
Qed.

Lemma forallb_is_cur_nonneg deps :
  forallb (λ d, is_cur (d_amt d)) deps = true → ∀ d, d ∈ deps → 0 ≤ d_amt d.
Proof. intros H d Hd. pose proof (forallb_elem _ _ H d Hd) as Hx. simpl in Hx. apply is_cur_true in Hx. lia. Qed.

Lemma fund_step c s q cid deps rsig s' r :
  Inv c s → h_fund c s (q_height q) cid deps rsig = Ok (s', r) →
  effect c s q s' ∧ r_verdict r = VOk ∧ revised c s s' cid (total_deposits deps).
Proof.
  intros HI H. apply h_fund_Ok in H as (ce & rev' & cost & total & Hl & Hcur & _ & _ & Hsum & Hrev & Hcm).
  pose proof Hl as (Hc & _)%lock_rev_Ok.
  pose proof (Inv_good _ _ _ _ HI Hc) as Hg.
  apply sum_deposits_Some in Hsum. simpl in Hsum. subst total.
  pose proof (total_deposits_nonneg _ (forallb_is_cur_nonneg _ Hcur)).
  apply revise_fund_spec in Hrev as (Hpaid & -> & Hcap & Hfs & _); [|done].
  destruct (commit_effect _ _ _ _ _ _ _ _ _ _ _ _ HI Hl Hcm Hpaid) as (He & Hv & Hc').
  - lia.
  - rewrite Hfs. apply Hg.
  - rewrite Hfs, Hcap. apply Hg.
  - split_and!; try done. eapply revised_intro; eauto.
Qed.

Lemma replenish_deposits_nonneg bal accts target d :
  d ∈ replenish_deposits bal accts target → 0 ≤ d_amt d.
Proof.
  unfold replenish_deposits. generalize (∅ : gmap N Z) as pending.
  induction accts as [|a rest IH]; simpl; intros pending; [by intros ?%elem_of_nil|].
  intros [->|?]%elem_of_cons; [|by eapply IH]. simpl.
  case_match eqn:E; bsimp; lia.
Qed.

Lemma replenish_step c s q pool cid accts target chal rsig s' r :
  Inv c s → h_replenish c s (q_height q) pool cid accts target chal rsig = Ok (s', r) →
  (s' = s ∧ r_verdict r = VOkNoRev) ∨
  (effect c s q s' ∧ r_verdict r = VOk ∧
   revised c s s' cid (total_deposits (replenish_deposits (if pool then h_pools s else h_accounts s) accts target))).
Proof.
  intros HI H. apply h_replenish_Ok in H as [[-> ->]|(ce & rev' & cost & total & rs & H)]; [by left|right].
  cbv zeta in H. destruct H as (Hl & _ & _ & _ & Hsum & _ & _ & Hrev & Hcm).
  pose proof Hl as (Hc & _)%lock_rev_Ok.
  pose proof (Inv_good _ _ _ _ HI Hc) as Hg.
  apply sum_deposits_Some in Hsum. simpl in Hsum. subst total.
  pose proof (total_deposits_nonneg _ (replenish_deposits_nonneg (if pool then h_pools s else h_accounts s) accts target)).
  apply revise_fund_spec in Hrev as (Hpaid & -> & Hcap & Hfs & _); [|done].
  destruct (commit_effect _ _ _ _ _ _ _ _ _ _ _ _ HI Hl Hcm Hpaid) as (He & Hv & Hc').
  - lia.
  - rewrite Hfs. apply Hg.
  - rewrite Hfs, Hcap. apply Hg.
  - split_and!; try done. eapply revised_intro; eauto.
Qed.

Lemma form_step c s q txid p rkey al co ph fee inputs c1 c2 csig s' r :
  Inv c s → h_form c s (q_now q) (q_height q) txid p rkey al co ph fee inputs c1 c2 csig = Ok (s', r) →
  effect c s q s' ∧ r_verdict r = VOk ∧ prices_valid c (q_now q) p = true.
Proof.
  intros HI H. apply h_form_Ok in H as (fc & cs & _ & Hpv & _ & -> & Hg & Hr & Hk & Hh & Hnone & -> & ->).
  split_and!; try done.
  eapply eff_persist; try done.
  split_and!; simpl; try done.
  - split; simpl; [by rewrite Hk|done].
  - split; [|done]. by apply (Inv_held_None c).
Qed.

Lemma renewal_effect c s q cid ce r rcost inputs c1 c2 sigs s' rs :
  Inv c s → lock_rev s (q_height q) cid = Ok ce →
  renews c (ce_rev ce) r →
  finish_renewal c s (q_height q) cid ce r rcost inputs c1 c2 sigs = Ok (s', rs) →
  q_height q < proof_h (new_contract r) →
  effect c s q s' ∧ r_verdict rs = VOk.
Proof.
  intros HI Hl Hren H Hh.
  apply lock_rev_Ok in Hl as (Hc & Hnr & _).
  apply finish_renewal_Ok in H as (rnsig & csig & _ & _ & -> & -> & Hhk & _ & -> & ->).
  destruct (Inv_held_Some _ _ _ _ HI Hc) as (p & Hp & _ & Hpr & _).
  split; [|done].
  eapply eff_persist; try done.
  split_and!; simpl; try done.
  - apply Hren.
  - split; simpl; [by rewrite (rn_rk _ _ _ Hren)|done].
  - split_and!; [by apply (Inv_held_None c)|done|].
    exists p. rewrite Hpr. split_and!; done.
Qed.

Lemma renew_step c s q cid p al co ph fee inputs chal c1 c2 sigs s' r :
  Inv c s → h_renew c s (q_now q) (q_height q) cid p al co ph fee inputs chal c1 c2 sigs = Ok (s', r) →
  effect c s q s' ∧ r_verdict r = VOk ∧ prices_valid c (q_now q) p = true.
Proof.
  intros HI H. apply h_renew_Ok in H as (ce & rn & rcost & _ & Hpv & Hw & Hl & _ & ? & ? & ? & ? & Hm & Hrc & Hf).
  pose proof Hl as (Hc & _)%lock_rev_Ok.
  pose proof (Inv_good _ _ _ _ HI Hc) as Hg.
  destruct (renew_contract_spec c _ _ _ _ _ _ Hrc Hg) as [Hren Hph]; [done..| |].
  { lia. }
  destruct (renewal_effect _ _ _ _ _ _ _ _ _ _ _ _ _ HI Hl Hren Hf); [|done].
  rewrite Hph. eapply min_proof_height_gt; [done|lia].
Qed.

Lemma refresh_step c s q partial cid p al co fee inputs chal c1 c2 sigs s' r :
  Inv c s → h_refresh c s (q_now q) (q_height q) partial cid p al co fee inputs chal c1 c2 sigs = Ok (s', r) →
  effect c s q s' ∧ r_verdict r = VOk ∧ prices_valid c (q_now q) p = true.
Proof.
  intros HI H. apply h_refresh_Ok in H as (ce & rn & rcost & _ & Hpv & Hw & Hl & _ & ? & ? & Hrc & Hf).
  pose proof Hl as (Hc & _ & Hh)%lock_rev_Ok.
  pose proof (Inv_good _ _ _ _ HI Hc) as Hg.
  destruct (refresh_contract_spec c _ _ _ _ _ _ Hrc Hg) as [Hren Hph]; [done..|].
  destruct (renewal_effect _ _ _ _ _ _ _ _ _ _ _ _ _ HI Hl Hren Hf); [|done].
  by rewrite Hph.
Qed.

(** ** Every step is an [effect]; the invariant holds in every reachable state *)
Lemma handle_effect c s q s' r : Inv c s → handle c s q = Ok (s', r) → effect c s q s'.
Proof.
  intros HI. unfold handle. destruct (q_rpc q) eqn:E; intros H.
  - injection H as <- <-. apply eff_settings.
  - by apply form_step in H as (? & _).
  - unfold h_latest in H. inv_ok H. injection H as <- <-. apply eff_same.
  - by apply free_step in H as (? & _).
  - by apply append_step in H as (? & _).
  - by apply fund_step in H as (? & _).
  - apply replenish_step in H as [[-> _]|(? & _)]; [apply eff_same|done..].
  - by apply roots_step in H as (? & _).
  - by apply renew_step in H as (? & _).
  - by apply refresh_step in H as (? & _).
Qed.

Lemma step_effect c s q : Inv c s → effect c s q (step c s q).1.
Proof.
  intros HI. unfold step. destruct (handle c s q) as [[s' r]|v] eqn:E; simpl.
  - eapply handle_effect; eauto.
  - apply eff_same.
Qed.

Lemma step_Inv c s q : Inv c s → Inv c (step c s q).1.
Proof. intros HI. eapply effect_Inv; [done|by apply step_effect]. Qed.

Lemma run_Inv c s qs : Inv c s → Inv c (run c s qs).
Proof.
  unfold run. revert s. induction qs as [|q qs IH]; simpl; intros s HI; [done|].
  apply IH. by apply step_Inv.
Qed.

Lemma reachable_Inv c qs : Inv c (run c h_init qs).
Proof. apply run_Inv, Inv_init. Qed.

(** ** A handler never fails with the verdict [VOk] *)
Definition not_ok {A} (e : res A) : Prop := ∀ v, e = Fail v → v ≠ VOk.
Lemma not_ok_Ok {A} (a : A) : not_ok (Ok a).
Proof. intros v; discriminate. Qed.
Lemma not_ok_check b v : v ≠ VOk → not_ok (check b v).
Proof. intros ? v'. destruct b; simpl; [discriminate|]. by intros [= <-]. Qed.
Lemma not_ok_must {A} (o : option A) v : v ≠ VOk → not_ok (must o v).
Proof. intros ? v'. destruct o; simpl; [discriminate|]. by intros [= <-]. Qed.
Lemma not_ok_np {A} (o : option A) : not_ok (np o).
Proof. by apply not_ok_must. Qed.
Lemma not_ok_bind {A B} (e : res A) (f : A → res B) : not_ok e → (∀ x, not_ok (f x)) → not_ok (rbind e f).
Proof. intros He Hf v. destruct e; simpl; [apply Hf|]. intros [= <-]. by apply He. Qed.

Ltac no :=
  repeat first
    [ apply not_ok_Ok | apply not_ok_np | (apply not_ok_check; done) | (apply not_ok_must; done)
    | (apply not_ok_bind; [|intros ?])
    | match goal with |- not_ok (let '(_, _) := ?x in _) => destruct x end
    | match goal with |- not_ok (if ?b then _ else _) => destruct b end
    | progress simpl ].

Lemma not_ok_pay fc u : not_ok (pay fc u).
Proof. unfold pay. no. Qed.
Lemma not_ok_lock s h cid : not_ok (lock_rev s h cid).
Proof. unfold lock_rev. no. Qed.
Lemma not_ok_commit c s h cid ce rev' n cost rsig deps : not_ok (commit c s h cid ce rev' n cost rsig deps).
Proof. unfold commit. no. Qed.
Lemma not_ok_revise_free fc p nr n : not_ok (revise_free fc p nr n).
Proof. unfold revise_free. no; apply not_ok_pay. Qed.
Lemma not_ok_revise_append fc p nr n : not_ok (revise_append fc p nr n).
Proof. unfold revise_append. no; apply not_ok_pay. Qed.
Lemma not_ok_revise_roots fc p n : not_ok (revise_roots fc p n).
Proof. unfold revise_roots. no; apply not_ok_pay. Qed.
Lemma not_ok_revise_fund fc a : not_ok (revise_fund fc a).
Proof. unfold revise_fund. no; apply not_ok_pay. Qed.
Lemma not_ok_finish c s h cid ce r rc inp c1 c2 sg : not_ok (finish_renewal c s h cid ce r rc inp c1 c2 sg).
Proof. unfold finish_renewal. no. Qed.

Ltac no' :=
  no; first [ apply not_ok_lock | apply not_ok_commit | apply not_ok_revise_free | apply not_ok_revise_append
            | apply not_ok_revise_roots | apply not_ok_revise_fund | apply not_ok_finish ].

Lemma handle_not_ok c s q : not_ok (handle c s q).
Proof.
  unfold handle. destruct (q_rpc q).
  - unfold h_settings. no.
  - unfold h_form. no.
  - unfold h_latest. no.
  - unfold h_free. repeat no'.
  - unfold h_append. repeat no'.
  - unfold h_fund. repeat no'.
  - unfold h_replenish. repeat no'.
  - unfold h_roots. repeat no'.
  - unfold h_renew. repeat no'.
  - unfold h_refresh. repeat no'.
Qed.

(** ** Consecutive persisted revisions *)
Lemma log_consecutive c l : log_ok c l → ∀ cid i e1 e2,
  entries_of l cid !! i = Some e1 → entries_of l cid !! S i = Some e2 →
  rev_step (e_rev e2) (e_rev e1) ∧
  ∃ cost, e_kind e1 = KRevise cost ∧ cost = renter_out (e_rev e2) - renter_out (e_rev e1) ∧ 0 ≤ cost.
Proof.
  induction l as [|e l IH]; simpl; intros Hok cid i e1 e2 H1 H2.
  - unfold entries_of in H1. by rewrite filter_nil in H1.
  - destruct Hok as [He Hok]. destruct (decide (e_cid e = cid)) as [<-|Hne].
    + rewrite entries_of_cons_eq in H1, H2. destruct i as [|i]; simpl in *.
      * injection H1 as <-. destruct He as (_ & _ & _ & Hk).
        assert (head (entries_of l (e_cid e)) = Some e2) as Hh.
        { destruct (entries_of l (e_cid e)); simpl in *; congruence. }
        destruct (e_kind e) eqn:Ek.
        -- destruct Hk as [Hk _]. congruence.
        -- destruct Hk as (p & Hp & Hs & Hc & ?). rewrite Hh in Hp. injection Hp as <-. eauto.
        -- destruct Hk as [Hk _]. congruence.
      * eapply IH; eauto.
    + rewrite entries_of_cons_ne in H1, H2 by done. eapply IH; eauto.
Qed.

(** any earlier persisted revision relates to any later one by [rev_step] *)
Lemma log_chain c l : log_ok c l → ∀ cid i j e1 e2, (i < j)%nat →
  entries_of l cid !! i = Some e1 → entries_of l cid !! j = Some e2 → rev_step (e_rev e2) (e_rev e1).
Proof.
  intros Hok cid i j. revert i. induction j as [|j IH]; intros i e1 e2 Hlt H1 H2; [lia|].
  destruct (decide (i = j)) as [->|Hne].
  - by destruct (log_consecutive _ _ Hok _ _ _ _ H1 H2).
  - assert (is_Some (entries_of l cid !! j)) as [em Hm].
    { apply lookup_lt_is_Some. apply lookup_lt_Some in H2. lia. }
    eapply rev_step_trans.
    + by destruct (log_consecutive _ _ Hok _ _ _ _ Hm H2).
    + eapply (IH i); eauto. lia.
Qed.

Lemma log_ok_entries c l e : log_ok c l → e ∈ l →
  good c (e_rev e) ∧ signed c e ∧ e_height e < proof_h (e_rev e).
Proof. intros Hok He. destruct (log_ok_elem _ _ _ Hok He) as (l' & ? & ? & ? & _). done. Qed.

Lemma persisted_lookup s cid i x : persisted s cid !! i = Some x ↔
  ∃ e, entries_of (h_log s) cid !! i = Some e ∧ x = e_rev e.
Proof.
  unfold persisted. rewrite list_lookup_fmap.
  destruct (entries_of (h_log s) cid !! i); simpl; split.
  - intros [= <-]. eauto. - intros (? & [= <-] & ->). done.
  - done. - intros (? & ? & _). done.
Qed.

(** ** The theorems of Props/C08.v *)

(** C08_persisted_monotone *)
Theorem persisted_monotone c qs cid i newer older :
  let s := run c h_init qs in
  persisted s cid !! i = Some newer → persisted s cid !! S i = Some older →
  revnum older < revnum newer.
Proof.
  intros s (e1 & H1 & ->)%persisted_lookup (e2 & H2 & ->)%persisted_lookup.
  destruct (log_consecutive _ _ (inv_log _ _ (reachable_Inv c qs)) _ _ _ _ H1 H2) as [[] _]. done.
Qed.

(** C08_persisted_doubly_signed: every persisted revision, and what the Contractor holds *)
Theorem persisted_doubly_signed c qs :
  let s := run c h_init qs in
  (∀ e, e ∈ h_log s →
     verify (rk (e_rev e)) (MRev (e_rev e)) (e_rsig e) ∧ verify (hostk c) (MRev (e_rev e)) (e_hsig e) ∧
     hk (e_rev e) = hostk c ∧ e_height e < proof_h (e_rev e)) ∧
  (∀ cid ce, h_contracts s !! cid = Some ce →
     verify (rk (ce_rev ce)) (MRev (ce_rev ce)) (ce_rsig ce) ∧ verify (hostk c) (MRev (ce_rev ce)) (ce_hsig ce) ∧
     head (persisted s cid) = Some (ce_rev ce)).
Proof.
  intros s. pose proof (reachable_Inv c qs) as HI. fold s in HI. split.
  - intros e He. destruct (log_ok_entries _ _ _ (inv_log _ _ HI) He) as (Hg & [? ?] & ?).
    split_and!; try done. apply Hg.
  - intros cid ce Hc. destruct (Inv_held_Some _ _ _ _ HI Hc) as (p & Hp & _ & Hr & Hrs & Hhs).
    pose proof Hp as Hel%head_Some_elem_of. unfold entries_of in Hel. apply elem_of_list_filter in Hel as [_ Hel].
    destruct (log_ok_entries _ _ _ (inv_log _ _ HI) Hel) as (_ & [? ?] & _).
    unfold verify. rewrite <- Hr, <- Hrs, <- Hhs. split_and!; try done.
    unfold persisted. destruct (entries_of (h_log s) cid); simpl in *; congruence.
Qed.

(** C08_invariants: between consecutive persisted revisions of a contract *)
Theorem persisted_invariants c qs cid i newer older :
  let s := run c h_init qs in
  persisted s cid !! i = Some newer → persisted s cid !! S i = Some older →
  rk newer = rk older ∧ hk newer = hk older ∧ proof_h newer = proof_h older ∧ exp_h newer = exp_h older ∧
  total_collateral newer = total_collateral older ∧
  renter_out newer + host_out newer = renter_out older + host_out older ∧
  renter_out newer ≤ renter_out older ∧ host_out older ≤ host_out newer ∧
  missed_host newer ≤ missed_host older ∧ capacity older ≤ capacity newer.
Proof.
  intros s (e1 & H1 & ->)%persisted_lookup (e2 & H2 & ->)%persisted_lookup.
  destruct (log_consecutive _ _ (inv_log _ _ (reachable_Inv c qs)) _ _ _ _ H1 H2) as [[] _]. done.
Qed.

(** the payout sum is constant over the whole life of a contract, not only between neighbours *)
Theorem persisted_sum_constant c qs cid i j a b :
  let s := run c h_init qs in
  persisted s cid !! i = Some a → persisted s cid !! j = Some b →
  renter_out a + host_out a = renter_out b + host_out b ∧ rk a = rk b ∧ hk a = hk b ∧
  proof_h a = proof_h b ∧ exp_h a = exp_h b ∧ total_collateral a = total_collateral b.
Proof.
  intros s (e1 & H1 & ->)%persisted_lookup (e2 & H2 & ->)%persisted_lookup.
  pose proof (inv_log _ _ (reachable_Inv c qs)) as Hok. fold s in Hok.
  destruct (Nat.lt_trichotomy i j) as [Hlt|[->|Hlt]].
  - destruct (log_chain _ _ Hok _ _ _ _ _ Hlt H1 H2). split_and!; congruence || lia.
  - rewrite H1 in H2. injection H2 as ->. done.
  - destruct (log_chain _ _ Hok _ _ _ _ _ Hlt H2 H1). split_and!; congruence || lia.
Qed.

(** every entry that is not the first of its contract records what the renter paid *)
Theorem persisted_cost_recorded c qs cid i e1 e2 :
  let s := run c h_init qs in
  entries_of (h_log s) cid !! i = Some e1 → entries_of (h_log s) cid !! S i = Some e2 →
  ∃ cost, e_kind e1 = KRevise cost ∧ cost = renter_out (e_rev e2) - renter_out (e_rev e1) ∧ 0 ≤ cost.
Proof.
  intros s H1 H2.
  by destruct (log_consecutive _ _ (inv_log _ _ (reachable_Inv c qs)) _ _ _ _ H1 H2) as [_ ?].
Qed.

(** C08_amount_due: an accepted revising request lowers the renter payout by exactly
    the amount due under the price table it presents (a valid one), or the deposited total *)
Theorem amount_due c qs q cid ce d :
  let s := run c h_init qs in
  rpc_cid (q_rpc q) = Some cid → h_contracts s !! cid = Some ce →
  due s (q_rpc q) (ce_rev ce) = Some d → r_verdict (step c s q).2 = VOk →
  revised c s (step c s q).1 cid d ∧
  (∀ p, rpc_prices (q_rpc q) = Some p → prices_valid c (q_now q) p = true).
Proof.
  intros s Hcid Hc Hdue. pose proof (reachable_Inv c qs) as HI. fold s in HI.
  unfold step. destruct (handle c s q) as [[s' r]|v] eqn:E; simpl; [|intros ->; by apply handle_not_ok in E].
  intros Hv. unfold handle in E. destruct (q_rpc q) eqn:Erp; simpl in *; try done; injection Hcid as ->.
  - apply free_step in E as (_ & _ & Hpv & Hr); [|done]. injection Hdue as <-.
    split; [done|]. by intros ? [= <-].
  - apply append_step in E as (_ & _ & Hpv & ce' & Hc' & Hr); [|done].
    rewrite Hc in Hc'. injection Hc' as <-. split; [by apply Hr|]. by intros ? [= <-].
  - apply fund_step in E as (_ & _ & Hr); [|done]. injection Hdue as <-. done.
  - apply replenish_step in E as [[_ Hx]|(_ & _ & Hr)]; [congruence| |done]. injection Hdue as <-. done.
  - apply roots_step in E as (_ & _ & Hpv & Hr); [|done]. injection Hdue as <-.
    split; [done|]. by intros ? [= <-].
Qed.

(** core consensus/validation.go:766-802 ([validateRevision]): what a revision [rev],
    signed [rsig]/[hsig], of the on-chain contract [cur] must satisfy in a block of
    height [ch] (law L5: checked by the harness with consensus.ValidateV2Transaction) *)
Definition consensus_revision_ok (ch : Z) (cur rev : contract) (rsig hsig : sig) : Prop :=
  capacity cur ≤ capacity rev ∧ filesize rev ≤ capacity rev ∧ ch ≤ proof_h cur ∧
  revnum cur < revnum rev ∧
  renter_out rev + host_out rev = renter_out cur + host_out cur ∧
  missed_host rev ≤ missed_host cur ∧ missed_host rev ≤ host_out rev ∧
  total_collateral rev = total_collateral cur ∧
  ch ≤ proof_h rev ∧ proof_h rev < exp_h rev ∧
  verify (rk cur) (MRev rev) rsig ∧ verify (hk cur) (MRev rev) hsig.

(** C08_latest_acceptable: what the Contractor holds is an acceptable revision of
    every earlier persisted revision of the contract, in particular of the
    formation (or renewal) contract that is on chain, for as long as the proof
    window is closed *)
Theorem latest_acceptable c qs cid ce i older ch :
  let s := run c h_init qs in
  h_contracts s !! cid = Some ce → persisted s cid !! S i = Some older →
  capacity (ce_rev ce) < u64 → ch ≤ proof_h (ce_rev ce) →
  consensus_revision_ok ch older (ce_rev ce) (ce_rsig ce) (ce_hsig ce).
Proof.
  intros s Hc (e2 & H2 & ->)%persisted_lookup Hcap Hch.
  pose proof (reachable_Inv c qs) as HI. fold s in HI.
  destruct (Inv_held_Some _ _ _ _ HI Hc) as (p & Hp & _ & Hr & Hrs & Hhs).
  assert (entries_of (h_log s) cid !! 0%nat = Some p) as H1.
  { destruct (entries_of (h_log s) cid); simpl in *; congruence. }
  destruct (log_chain _ _ (inv_log _ _ HI) cid 0%nat (S i) p e2) as []; [lia|done..|].
  pose proof H1 as Hel%elem_of_list_lookup_2. unfold entries_of in Hel. apply elem_of_list_filter in Hel as [_ Hel].
  destruct (log_ok_entries _ _ _ (inv_log _ _ HI) Hel) as (Hg & [Hs1 Hs2] & _).
  pose proof H2 as Hel2%elem_of_list_lookup_2. unfold entries_of in Hel2. apply elem_of_list_filter in Hel2 as [_ Hel2].
  destruct (log_ok_entries _ _ _ (inv_log _ _ HI) Hel2) as (Hg2 & _ & _).
  rewrite <- Hr, <- Hrs, <- Hhs in *. destruct Hg, Hg2.
  unfold consensus_revision_ok, verify. split_and!; try lia; try congruence.
Qed.

(** C08_renewal_conserves: a persisted renewal is doubly signed, keeps the keys,
    and splits each party's payout of the old contract into final output and rollover *)
Theorem renewal_conserves c qs e from r rsig hsig :
  let s := run c h_init qs in
  e ∈ h_log s → e_kind e = KRenew from r rsig hsig →
  ∃ old, old ∈ persisted s from ∧ e_cid e = renewal_id from ∧ new_contract r = e_rev e ∧
    revnum (e_rev e) = 0 ∧ rk (e_rev e) = rk old ∧ hk (e_rev e) = hk old ∧
    final_renter r + renter_rollover r = renter_out old ∧ final_host r + host_rollover r = host_out old ∧
    0 ≤ final_renter r ∧ 0 ≤ renter_rollover r ∧ 0 ≤ final_host r ∧ 0 ≤ host_rollover r ∧
    verify (rk old) (MRenewal r) rsig ∧ verify (hostk c) (MRenewal r) hsig.
Proof.
  intros s He Hk. pose proof (inv_log _ _ (reachable_Inv c qs)) as Hok. fold s in Hok.
  assert (∀ l, log_ok c l → e ∈ l → ∃ l', (∀ x, x ∈ l' → x ∈ l) ∧ entry_ok c l' e) as Hsub.
  { induction l as [|x l IH]; simpl; [by intros _ ?%elem_of_nil|].
    intros [? ?] [->|Hin]%elem_of_cons.
    - exists l. split; [|done]. intros. by right.
    - destruct (IH H0 Hin) as (l' & Hs & ?). exists l'. split; [|done]. intros. right. by apply Hs. }
  destruct (Hsub _ Hok He) as (l' & Hs & _ & _ & _ & Hkind). rewrite Hk in Hkind.
  destruct Hkind as (_ & Hid & p & Hp & Hren & Hnc & -> & ->).
  exists (e_rev p). destruct Hren as [_ Hrn ? ? ? ? (? & ? & ? & ?)]. rewrite Hnc in *.
  split_and!; try done.
  apply head_Some_elem_of in Hp. unfold entries_of in Hp. apply elem_of_list_filter in Hp as [Hpc Hp].
  unfold persisted. apply elem_of_list_fmap. exists p. split; [done|].
  unfold entries_of. apply elem_of_list_filter. split; [done|]. by apply Hs.
Qed.

(** ** C08_rejected_is_noop *)
(** does the request revise (or renew) a contract? *)
Definition revising (rp : rpc) : bool :=
  match rp with
  | RFree _ _ _ _ _ _ | RAppend _ _ _ _ _ _ | RFund _ _ _ | RReplenish _ _ _ _ _ _ | RRoots _ _ _ _ _
  | RRenew _ _ _ _ _ _ _ _ _ _ _ | RRefresh _ _ _ _ _ _ _ _ _ _ _ => true
  | _ => false
  end.

(** the challenge signature a request presents and the message it must be over *)
Definition rpc_challenge (rp : rpc) (cur : contract) : option (sig * msg) :=
  match rp with
  | RFree cid _ _ chal _ _ | RAppend cid _ _ chal _ _ => Some (chal, MChal cid (revnum cur + 1))
  | RReplenish _ cid accts target chal _ => Some (chal, MChalRepl accts target cid (revnum cur))
  | RRenew cid _ _ _ _ _ _ chal _ _ _ | RRefresh _ cid _ _ _ _ _ chal _ _ _ => Some (chal, MChal cid (revnum cur))
  | _ => None
  end.

(** the renter's signature for the new revision, if the request carries one *)
Definition rpc_revsig (rp : rpc) : option sig :=
  match rp with
  | RFree _ _ _ _ _ rs | RAppend _ _ _ _ _ rs | RReplenish _ _ _ _ _ rs => rs
  | RFund _ _ rs | RRoots _ _ _ _ rs => Some rs
  | _ => None
  end.

(** the renter closed the stream instead of sending its signature(s) *)
Definition rpc_aborted (rp : rpc) : bool :=
  match rp with
  | RFree _ _ _ _ _ None | RAppend _ _ _ _ _ None | RReplenish _ _ _ _ _ None
  | RRenew _ _ _ _ _ _ _ _ _ _ None | RRefresh _ _ _ _ _ _ _ _ _ _ None | RForm _ _ _ _ _ _ _ _ _ _ None => true
  | _ => false
  end.

(** parameters within their range *)
Definition in_range (s : hstate) (ce : centry) (rp : rpc) : Prop :=
  let cur := ce_rev ce in
  match rp with
  | RFree _ _ idxs _ _ _ =>
      NoDup idxs ∧ (∀ i, i ∈ idxs → 0 ≤ i < filesize cur / SectorSize ∧ i < ce_nroots ce) ∧
      Z.of_nat (length idxs) ≤ MaxSectorBatchSize
  | RAppend _ _ stored _ _ _ => 0 < Z.of_nat (length stored) ≤ MaxSectorBatchSize
  | RRoots _ _ off len _ => 0 ≤ off ∧ 0 < len ≤ MaxSectorBatchSize ∧ off + len ≤ filesize cur / SectorSize
  | RFund _ deps _ =>
      0 < Z.of_nat (length deps) ≤ MaxAccountBatchSize ∧ (∀ d, d ∈ deps → 0 < d_amt d ∧ d_acct d ≠ 0%N) ∧
      total_deposits deps ≤ renter_out cur
  | RReplenish pool _ accts target _ _ =>
      0 < Z.of_nat (length accts) ≤ MaxAccountBatchSize ∧ 0 < target ∧
      total_deposits (replenish_deposits (if pool then h_pools s else h_accounts s) accts target) ≤ renter_out cur
  | _ => True
  end.

(** everything a request that changed the state had to satisfy *)
Definition checks (c : cfg) (s : hstate) (q : req) : Prop :=
  rpc_aborted (q_rpc q) = false ∧
  (∀ p, rpc_prices (q_rpc q) = Some p →
        q_now q < valid_until (p_body p) ∧ p_sig p = Sig (hostk c) (MPrices (p_body p))) ∧
  (revising (q_rpc q) = true → ∀ cid, rpc_cid (q_rpc q) = Some cid →
     ∃ ce, h_contracts s !! cid = Some ce ∧ h_contracts s !! renewal_id cid = None ∧
           q_height q < proof_h (ce_rev ce) ∧
           (∀ sg m, rpc_challenge (q_rpc q) (ce_rev ce) = Some (sg, m) → sg = Sig (rk (ce_rev ce)) m) ∧
           in_range s ce (q_rpc q) ∧
           (∀ sg, rpc_revsig (q_rpc q) = Some sg →
              ∃ rev' cost, sg = Sig (rk (ce_rev ce)) (MRev rev') ∧ paid (ce_rev ce) rev' cost ∧
                           (∀ d, due s (q_rpc q) (ce_rev ce) = Some d → cost = d))).

Lemma prices_valid_true c now p : prices_valid c now p = true →
  now < valid_until (p_body p) ∧ p_sig p = Sig (hostk c) (MPrices (p_body p)).
Proof. unfold prices_valid. intros. bsimp. done. Qed.

Lemma forallb_range (f : Z → bool) l : forallb f l = true → ∀ i, i ∈ l → f i = true.
Proof. apply forallb_elem. Qed.

(** a request the host does not refuse either leaves the state alone without
    persisting anything, or passed every check *)
Ltac fin Hpaid :=
  first [ done | lia | by intros ? ? [= <- <-] | by apply nodupb_NoDup | by intros ? [= <-]
        | by destruct Hpaid | (destruct Hpaid; simpl in *; lia)
        | (intros ? [= <-]; eexists _, _; split_and!; [done..|]; by intros ? [= <-]) ].

Lemma handle_Ok_dichotomy c s q s' r : Inv c s → handle c s q = Ok (s', r) →
  (s' = s ∧ r_verdict r ≠ VOk) ∨ checks c s q.
Proof.
  intros HI H. unfold handle in H. unfold checks.
  destruct (q_rpc q) eqn:Erp; simpl; [right|right|left|right|right|right| |right|right|right].
  - split_and!; done.
  - apply h_form_Ok in H as (fc & cs & _ & Hpv%prices_valid_true & -> & _).
    split_and!; [done| |done]. by intros ? [= <-].
  - unfold h_latest in H. inv_ok H. injection H as <- <-. done.
  - apply h_free_Ok in H as (ce & rev' & cost & rs & Hl%lock_rev_Ok & Hch & Hw & Hpv%prices_valid_true & Hu & Hr & Hd & Hn & Hlen & -> & Hrev & Hcm).
    destruct Hl as (Hc & Hnr & Hh).
    apply pbody_wire_true in Hw as (? & ? & ? & ? & ? & ? & ?).
    apply revise_free_spec in Hrev as (Hpaid & -> & _); [|done|lia].
    apply commit_Ok in Hcm as (-> & _).
    split_and!; [done|by intros ? [= <-]|]. intros _ ? [= <-]. exists ce. split_and!; try fin Hpaid.
    intros i Hi.
    pose proof (forallb_range _ _ Hu i Hi) as Hx1. pose proof (forallb_range _ _ Hr i Hi) as Hx2.
    pose proof (forallb_range _ _ Hn i Hi) as Hx3. simpl in *. bsimp. lia.
  - apply h_append_Ok in H as (ce & rev' & cost & rs & Hl%lock_rev_Ok & Hch & Hw & Hpv%prices_valid_true & Hlen & -> & Hrev & Hcm).
    destruct Hl as (Hc & Hnr & Hh).
    apply pbody_wire_true in Hw as (? & ? & ? & ? & ? & ? & ?).
    apply revise_append_spec in Hrev as (Hpaid & -> & _); [|done..|apply count_true_nonneg].
    apply commit_Ok in Hcm as (-> & _).
    split_and!; [done|by intros ? [= <-]|]. intros _ ? [= <-]. exists ce. split_and!; try fin Hpaid.
  - apply h_fund_Ok in H as (ce & rev' & cost & total & Hl%lock_rev_Ok & Hcur & Hlen & Hnz & Hsum & Hrev & Hcm).
    destruct Hl as (Hc & Hnr & Hh).
    apply sum_deposits_Some in Hsum. simpl in Hsum. subst total.
    pose proof (total_deposits_nonneg _ (forallb_is_cur_nonneg _ Hcur)).
    apply revise_fund_spec in Hrev as (Hpaid & -> & _); [|done].
    apply commit_Ok in Hcm as (-> & _).
    split_and!; [done..|]. intros _ ? [= <-]. exists ce. split_and!; try fin Hpaid.
    intros d0 Hd0.
    pose proof (forallb_elem _ _ Hcur d0 Hd0) as Hx1. pose proof (forallb_elem _ _ Hnz d0 Hd0) as Hx2.
    simpl in *. bsimp. match goal with H : (_ =? _)%N = false |- _ => apply N.eqb_neq in H end.
    split; [lia|done].
  - apply h_replenish_Ok in H as [[-> ->]|(ce & rev' & cost & total & rs & H)]; [by left|right].
    cbv zeta in H. destruct H as (Hl%lock_rev_Ok & Hch & Ht & Hlen & Hsum & _ & -> & Hrev & Hcm).
    destruct Hl as (Hc & Hnr & Hh).
    apply sum_deposits_Some in Hsum. simpl in Hsum. subst total.
    pose proof (total_deposits_nonneg _ (replenish_deposits_nonneg (if pool then h_pools s else h_accounts s) accts target)).
    apply revise_fund_spec in Hrev as (Hpaid & -> & _); [|done].
    apply commit_Ok in Hcm as (-> & _).
    split_and!; [done..|]. intros _ ? [= <-]. exists ce. split_and!; try fin Hpaid.
  - apply h_roots_Ok in H as (ce & rev' & cost & Hl%lock_rev_Ok & Hw & Hpv%prices_valid_true & ? & ? & ? & Hrev & Hcm).
    destruct Hl as (Hc & Hnr & Hh).
    apply pbody_wire_true in Hw as (? & ? & ? & ? & ? & ? & ?).
    apply revise_roots_spec in Hrev as (Hpaid & -> & _); [|done|lia].
    apply commit_Ok in Hcm as (-> & _).
    split_and!; [done|by intros ? [= <-]|]. intros _ ? [= <-]. exists ce. split_and!; try fin Hpaid.
  - apply h_renew_Ok in H as (ce & rn & rcost & _ & Hpv%prices_valid_true & _ & Hl%lock_rev_Ok & Hch & _ & _ & _ & _ & _ & _ & Hf).
    destruct Hl as (Hc & Hnr & Hh).
    apply finish_renewal_Ok in Hf as (? & ? & _ & -> & _).
    split_and!; [done|by intros ? [= <-]|]. intros _ ? [= <-]. exists ce. split_and!; try fin Hc.
  - apply h_refresh_Ok in H as (ce & rn & rcost & _ & Hpv%prices_valid_true & _ & Hl%lock_rev_Ok & Hch & _ & _ & _ & Hf).
    destruct Hl as (Hc & Hnr & Hh).
    apply finish_renewal_Ok in Hf as (? & ? & _ & -> & _).
    split_and!; [done|by intros ? [= <-]|]. intros _ ? [= <-]. exists ce. split_and!; try fin Hc.
Qed.

(** The defects of the property text.  [D_revsig] covers a flipped signature, a
    signature under another key, and a signature over any revision other than the
    recomputed one: a stale, equal or huge revision number, a different payout
    split (less than the amount due deducted), any other changed field. *)
Inductive defect (c : cfg) (s : hstate) (q : req) : Prop :=
| D_unknown cid :
    revising (q_rpc q) = true → rpc_cid (q_rpc q) = Some cid → h_contracts s !! cid = None → defect c s q
| D_window cid ce :
    revising (q_rpc q) = true → rpc_cid (q_rpc q) = Some cid → h_contracts s !! cid = Some ce →
    proof_h (ce_rev ce) ≤ q_height q → defect c s q
| D_renewed cid :
    revising (q_rpc q) = true → rpc_cid (q_rpc q) = Some cid → is_Some (h_contracts s !! renewal_id cid) →
    defect c s q
| D_challenge cid ce sg m :
    rpc_cid (q_rpc q) = Some cid → h_contracts s !! cid = Some ce →
    rpc_challenge (q_rpc q) (ce_rev ce) = Some (sg, m) → sg ≠ Sig (rk (ce_rev ce)) m → defect c s q
| D_prices_expired p :
    rpc_prices (q_rpc q) = Some p → valid_until (p_body p) ≤ q_now q → defect c s q
| D_prices_foreign p :
    rpc_prices (q_rpc q) = Some p → p_sig p ≠ Sig (hostk c) (MPrices (p_body p)) → defect c s q
| D_revsig cid ce sg :
    rpc_cid (q_rpc q) = Some cid → h_contracts s !! cid = Some ce → rpc_revsig (q_rpc q) = Some sg →
    (∀ rev', sg = Sig (rk (ce_rev ce)) (MRev rev') →
       revnum rev' ≠ revnum (ce_rev ce) + 1 ∨
       renter_out rev' + host_out rev' ≠ renter_out (ce_rev ce) + host_out (ce_rev ce) ∨
       (∃ d, due s (q_rpc q) (ce_rev ce) = Some d ∧ renter_out rev' ≠ renter_out (ce_rev ce) - d) ∨
       rk rev' ≠ rk (ce_rev ce) ∨ hk rev' ≠ hk (ce_rev ce) ∨ proof_h rev' ≠ proof_h (ce_rev ce) ∨
       exp_h rev' ≠ exp_h (ce_rev ce) ∨ total_collateral rev' ≠ total_collateral (ce_rev ce)) →
    defect c s q
| D_range cid ce :
    revising (q_rpc q) = true → rpc_cid (q_rpc q) = Some cid → h_contracts s !! cid = Some ce →
    ¬ in_range s ce (q_rpc q) → defect c s q
| D_aborted : rpc_aborted (q_rpc q) = true → defect c s q.

Lemma revising_has_cid rp cid : rpc_revsig rp = Some cid → revising rp = true.
Proof. destruct rp; simpl; try done. Qed.
Lemma challenge_revising rp cur x : rpc_challenge rp cur = Some x → revising rp = true.
Proof. destruct rp; simpl; try done. Qed.

Lemma defect_checks c s q : defect c s q → checks c s q → False.
Proof.
  intros Hd (Hab & Hpr & Hrev). destruct Hd as
    [cid Hr Hcid Hn | cid ce Hr Hcid Hc Hw | cid Hr Hcid [x Hx] | cid ce sg m Hcid Hc Hch Hne
    | p Hp He | p Hp Hf | cid ce sg Hcid Hc Hsg Hbad | cid ce Hr Hcid Hc Hnr | Ha].
  - destruct (Hrev Hr _ Hcid) as (ce & Hc & _). congruence.
  - destruct (Hrev Hr _ Hcid) as (ce' & Hc' & _ & Hh & _). rewrite Hc in Hc'. injection Hc' as <-. lia.
  - destruct (Hrev Hr _ Hcid) as (ce' & _ & Hn & _). congruence.
  - destruct (Hrev (challenge_revising _ _ _ Hch) _ Hcid) as (ce' & Hc' & _ & _ & Hok & _).
    rewrite Hc in Hc'. injection Hc' as <-. by apply Hne, Hok.
  - destruct (Hpr _ Hp). lia.
  - destruct (Hpr _ Hp). done.
  - destruct (Hrev (revising_has_cid _ _ Hsg) _ Hcid) as (ce' & Hc' & _ & _ & _ & _ & Hok).
    rewrite Hc in Hc'. injection Hc' as <-.
    destruct (Hok _ Hsg) as (rev' & cost & -> & Hpaid & Hdue).
    destruct Hpaid.
    destruct (Hbad rev' eq_refl) as [?|[?|[(d & Hd & ?)|[?|[?|[?|[?|?]]]]]]]; try lia; try congruence.
    specialize (Hdue _ Hd). lia.
  - destruct (Hrev Hr _ Hcid) as (ce' & Hc' & _ & _ & _ & Hin & _).
    rewrite Hc in Hc'. injection Hc' as <-. done.
  - congruence.
Qed.

(** C08_rejected_is_noop *)
Theorem rejected_is_noop c qs q :
  let s := run c h_init qs in
  defect c s q → (step c s q).1 = s ∧ r_verdict (step c s q).2 ≠ VOk.
Proof.
  intros s Hd. pose proof (reachable_Inv c qs) as HI. fold s in HI.
  unfold step. destruct (handle c s q) as [[s' r]|v] eqn:E; simpl.
  - destruct (handle_Ok_dichotomy _ _ _ _ _ HI E) as [?|Hck]; [done|].
    exfalso. by eapply defect_checks.
  - split; [done|]. by apply handle_not_ok in E.
Qed.

(** the renter never owns the host key: if every signature under the host's key
    that a request presents over a price table is one [handleRPCSettings] issued,
    an accepted priced request was priced under an issued table *)
Theorem priced_under_issued_table c qs q p :
  let s := run c h_init qs in
  rpc_prices (q_rpc q) = Some p →
  (∀ pb, p_sig p = Sig (hostk c) (MPrices pb) → pb ∈ h_issued s) →
  r_verdict (step c s q).2 = VOk → p_body p ∈ h_issued s.
Proof.
  intros s Hp Hown. pose proof (reachable_Inv c qs) as HI. fold s in HI.
  unfold step. destruct (handle c s q) as [[s' r]|v] eqn:E; simpl; [|intros ->; by apply handle_not_ok in E].
  intros Hv. destruct (handle_Ok_dichotomy _ _ _ _ _ HI E) as [[_ ?]|(_ & Hpr & _)]; [done|].
  destruct (Hpr _ Hp) as [_ Hs]. by apply Hown.
Qed.

(** ** Examples: the hypotheses of the theorems are met by concrete runs *)
Module Ex.
  Definition cfg0 : cfg :=
    mk_cfg 1 true 10000000000000000000000000000 1000
      (mk_pbody 200000000000000000000000 200 100 100 100 1000000 0 0) 600.
  Definition pb : pbody := mk_pbody 200000000000000000000000 200 100 100 100 1000000 10 2000.
  Definition pt : prices := mk_prices pb (Sig 1 (MPrices pb)).
  Definition pt_expired : prices :=
    let b := mk_pbody 200000000000000000000000 200 100 100 100 1000000 10 500 in mk_prices b (Sig 1 (MPrices b)).
  Definition pt_foreign : prices := mk_prices pb (Sig 99 (MPrices pb)).

  Definition get {A} (d : A) (r : res (A * Z)) : A := match r with Ok (a, _) => a | Fail _ => d end.

  (* formation *)
  Definition fc0 : contract :=
    mk_contract 0 50000000000000000000000000 20200000000000000000000000 20000000000000000000000000
      20000000000000000000000000 0 0 0 10 1 60 204.
  Definition q_form : req :=
    mk_req 1000 10 (RForm 1 pt 10 50000000000000000000000000 20000000000000000000000000 60
                      10000000000000000000000 100000000000000000000000000 true true (Some (Sig 10 (MRev fc0)))).
  (* append one stored sector *)
  Definition fc1 : contract := get fc0 (revise_append fc0 pb 1 1).
  Definition q_append : req :=
    mk_req 1000 10 (RAppend 2 pt [true] (Sig 10 (MChal 2 1)) 1 (Some (Sig 10 (MRev fc1)))).
  (* fund two accounts *)
  Definition deps : list deposit := [mk_dep 1 1000; mk_dep 2 500].
  Definition fc2 : contract := get fc1 (revise_fund fc1 1500).
  Definition q_fund : req := mk_req 1000 11 (RFund 2 deps (Sig 10 (MRev fc2))).
  (* list the root *)
  Definition fc3 : contract := get fc2 (revise_roots fc2 pb 1).
  Definition q_roots : req := mk_req 1000 11 (RRoots 2 pt 0 1 (Sig 10 (MRev fc3))).

  Definition s2 : hstate := run cfg0 h_init [q_form; q_append].
  Definition s4 : hstate := run cfg0 h_init [q_form; q_append; q_fund; q_roots].

  Example four_revisions_persisted : revnum <$> persisted s4 2 = [3; 2; 1; 0].
  Proof. vm_compute. reflexivity. Qed.
  Example payouts_move_to_the_host :
    renter_out <$> persisted s4 2 =
      [49999999999999918629681700; 49999999999999918630091300; 49999999999999918630092800; 50000000000000000000000000].
  Proof. vm_compute. reflexivity. Qed.
  Example held_is_latest : ce_rev <$> h_contracts s4 !! 2%N = Some fc3.
  Proof. vm_compute. reflexivity. Qed.
  Example capacity_small : capacity fc3 < u64.
  Proof. vm_compute. reflexivity. Qed.

  (* [amount_due]: its hypotheses hold for the fund request in state s2 *)
  Example due_fund : due s2 (q_rpc q_fund) fc1 = Some 1500 ∧ r_verdict (step cfg0 s2 q_fund).2 = VOk.
  Proof. vm_compute. done. Qed.
  Example due_roots : let s3 := (step cfg0 s2 q_fund).1 in
    due s3 (q_rpc q_roots) fc2 = Some 409600 ∧ r_verdict (step cfg0 s3 q_roots).2 = VOk.
  Proof. vm_compute. done. Qed.

  (* one concrete request per defect, each against state s2 (contract 2 at revision 1) *)
  Definition ce2 : centry := mk_centry fc1 (Sig 10 (MRev fc1)) (Sig 1 (MRev fc1)) 1.
  Example held2 : h_contracts s2 !! 2%N = Some ce2.
  Proof. vm_compute. reflexivity. Qed.

  Definition unchanged (q : req) : Prop := (step cfg0 s2 q).1 = s2.

  Definition q_unknown := mk_req 1000 11 (RFund 8 deps (Sig 10 (MRev fc2))).
  Example defect_unknown : defect cfg0 s2 q_unknown ∧ r_verdict (step cfg0 s2 q_unknown).2 = VLock.
  Proof. split; [|by vm_compute]. eapply D_unknown; [done..|by vm_compute]. Qed.

  Definition q_window := mk_req 1000 60 (RFund 2 deps (Sig 10 (MRev fc2))).
  Example defect_window : defect cfg0 s2 q_window ∧ r_verdict (step cfg0 s2 q_window).2 = VLock.
  Proof. split; [|by vm_compute]. eapply D_window; [done|done|apply held2|by vm_compute]. Qed.

  Definition q_badchal := mk_req 1000 11 (RAppend 2 pt [true] (Sig 10 (MChal 2 1)) 1 None).
  Example defect_challenge : defect cfg0 s2 q_badchal ∧ r_verdict (step cfg0 s2 q_badchal).2 = VChallenge.
  Proof.
    split; [|by vm_compute]. eapply D_challenge; [done|apply held2|done|]. vm_compute. congruence.
  Qed.

  Definition q_expired := mk_req 1000 11 (RRoots 2 pt_expired 0 1 (Sig 10 (MRev fc2))).
  Example defect_expired : defect cfg0 s2 q_expired ∧ r_verdict (step cfg0 s2 q_expired).2 = VPrices.
  Proof. split; [|by vm_compute]. eapply D_prices_expired; [done|by vm_compute]. Qed.

  Definition q_foreign := mk_req 1000 11 (RRoots 2 pt_foreign 0 1 (Sig 10 (MRev fc2))).
  Example defect_foreign : defect cfg0 s2 q_foreign ∧ r_verdict (step cfg0 s2 q_foreign).2 = VPrices.
  Proof. split; [|by vm_compute]. eapply D_prices_foreign; [done|]. vm_compute. congruence. Qed.

  (* the renter signs the revision it holds (stale number) instead of the next one *)
  Definition q_stale := mk_req 1000 11 (RFund 2 deps (Sig 10 (MRev fc1))).
  Example defect_stale : defect cfg0 s2 q_stale ∧ r_verdict (step cfg0 s2 q_stale).2 = VSig.
  Proof.
    split; [|by vm_compute]. eapply D_revsig; [done|apply held2|done|].
    intros rev' [= <-]. left. vm_compute. done.
  Qed.

  (* the renter signs a revision that deducts less than the deposited total *)
  Definition fc2_cheap : contract := get fc1 (revise_fund fc1 1000).
  Definition q_underpay := mk_req 1000 11 (RFund 2 deps (Sig 10 (MRev fc2_cheap))).
  Example defect_underpay : defect cfg0 s2 q_underpay ∧ r_verdict (step cfg0 s2 q_underpay).2 = VSig.
  Proof.
    split; [|by vm_compute]. eapply D_revsig; [done|apply held2|done|].
    intros rev' [= <-]. right. right. left. exists 1500. split; [done|]. vm_compute. done.
  Qed.

  Definition q_junk := mk_req 1000 11 (RFund 2 deps (SJunk 7)).
  Example defect_junk : defect cfg0 s2 q_junk ∧ r_verdict (step cfg0 s2 q_junk).2 = VSig.
  Proof. split; [|by vm_compute]. eapply D_revsig; [done|apply held2|done|]. intros rev'. discriminate. Qed.

  Definition q_range := mk_req 1000 11 (RRoots 2 pt 1 1 (Sig 10 (MRev fc3))).
  Example defect_range : defect cfg0 s2 q_range ∧ r_verdict (step cfg0 s2 q_range).2 = VInvalid.
  Proof.
    split; [|by vm_compute]. eapply D_range; [done|done|apply held2|].
    unfold in_range. simpl. vm_compute. intros (_ & _ & H). by apply H.
  Qed.

  Definition q_exceed := mk_req 1000 11 (RFund 2 [mk_dep 1 60000000000000000000000000] (Sig 10 (MRev fc2))).
  Example defect_exceed : defect cfg0 s2 q_exceed ∧ r_verdict (step cfg0 s2 q_exceed).2 = VPayment.
  Proof.
    split; [|by vm_compute]. eapply D_range; [done|done|apply held2|].
    unfold in_range. simpl. vm_compute. intros (_ & _ & H). by apply H.
  Qed.

  Definition q_abort := mk_req 1000 11 (RAppend 2 pt [true] (Sig 10 (MChal 2 2)) 1 None).
  Example defect_abort : defect cfg0 s2 q_abort ∧ r_verdict (step cfg0 s2 q_abort).2 = VDecode.
  Proof. split; [|by vm_compute]. by eapply D_aborted. Qed.

  Example all_defective_requests_change_nothing :
    Forall unchanged [q_unknown; q_window; q_badchal; q_expired; q_foreign; q_stale; q_underpay; q_junk;
                      q_range; q_exceed; q_abort].
  Proof. repeat constructor; by vm_compute. Qed.

  (* renewal: the renewed contract starts a new chain and the old one is closed *)
  Definition rn : renewal :=
    match renew_contract fc1 pb 30000000000000000000000000 10000000000000000000000000 100 with
    | Some r => r | None => mk_renewal 0 0 0 0 fc1 end.
  Definition q_renew : req :=
    mk_req 1000 11 (RRenew 2 pt 30000000000000000000000000 10000000000000000000000000 100
                      10000000000000000000000 100000000000000000000000000 (Sig 10 (MChal 2 1)) true true
                      (Some (Sig 10 (MRenewal rn), Sig 10 (MRev (new_contract rn))))).
  Definition s3r : hstate := run cfg0 h_init [q_form; q_append; q_renew].
  Example renewal_persisted :
    (e_kind <$> head (h_log s3r)) = Some (KRenew 2 rn (Sig 10 (MRenewal rn)) (Sig 1 (MRenewal rn))) ∧
    revnum <$> persisted s3r 5 = [0] ∧ revnum <$> persisted s3r 2 = [1; 0].
  Proof. vm_compute. done. Qed.
  Example renewed_contract_is_closed :
    defect cfg0 s3r q_fund ∧ (step cfg0 s3r q_fund).1 = s3r.
  Proof. split; [|by vm_compute]. eapply D_renewed; [done|done|]. vm_compute. eauto. Qed.
  (* [priced_under_issued_table]: a table obtained from the settings RPC *)
  Example issued_table :
    let s := run cfg0 h_init [mk_req 1400 10 RSettings] in h_issued s = [pb].
  Proof. vm_compute. reflexivity. Qed.
End Ex.
